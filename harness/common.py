"""Common machinery for the ImageD11 TLA+ verification checks.

 * build_shadow(flavour)   : out-of-tree build of /repo's *current working tree* C sources,
                             shadow package (symlinks to /repo/ImageD11/* + fresh .so)
 * run_tlc(...)            : run TLC on specs/<Module>.tla with a generated .cfg, parse the
                             summary (states, transitions, invariant violations, PrintT lines)
 * Evidence / findings     : evidence/<id>.json writer, known_findings.json reader
 * Verdict helpers         : VIOLATION / KNOWN-FINDING lines and exit codes (0 / 1 / 2)
"""
from __future__ import print_function
import os, sys, json, time, hashlib, shutil, subprocess, re, atexit, fcntl, tempfile, glob

VERIF = os.path.dirname(os.path.dirname(os.path.abspath(__file__)))
REPO = os.environ.get("VERIF_REPO", "/repo")
SPECS = os.path.join(VERIF, "specs")
PY = "/venv/bin/python"
CACHE_ROOT = "/var/tmp/imaged11_verif_cache"
TLA_JAR = "/opt/veriftools/tla/tla2tools.jar"
GUARD = "IMAGED11_VERIF"


class MachineryError(Exception):
    pass


def seed():
    try:
        return int(os.environ.get("VERIF_SEED", "0"))
    except ValueError:
        return 0


# --------------------------------------------------------------------------------------
# scratch directory (removed at exit)
_scratch = None


def scratch():
    global _scratch
    if _scratch is None:
        # a descendant process (pool worker, child script) nests its directory in the top process's one: workers end without
        # running atexit handlers and left their directories behind
        root = os.environ.get("VERIF_SCRATCH_ROOT", "")
        if root and os.path.isdir(root):
            _scratch = tempfile.mkdtemp(prefix="p%d." % os.getpid(), dir=root)
        else:
            _scratch = tempfile.mkdtemp(prefix="imaged11_verif.%d." % os.getpid(), dir="/var/tmp")
            os.environ["VERIF_SCRATCH_ROOT"] = _scratch
        atexit.register(shutil.rmtree, _scratch, True)
    return _scratch


# --------------------------------------------------------------------------------------
# build

BUILD_INPUTS = ["setup.py", "ImageD11/__init__.py"]


def _src_files():
    out = []
    for root, dirs, files in os.walk(os.path.join(REPO, "src")):
        dirs[:] = [d for d in dirs if d not in ("__pycache__", "build", "old")]
        for f in sorted(files):
            if f.endswith((".c", ".h", ".pyf", ".py")):
                out.append(os.path.join(root, f))
    out += [os.path.join(REPO, f) for f in BUILD_INPUTS]
    return sorted(out)


def source_hash(extra=""):
    h = hashlib.sha256()
    for f in _src_files():
        h.update(f.encode())
        with open(f, "rb") as fh:
            h.update(fh.read())
    h.update(extra.encode())
    return h.hexdigest()[:20]


FLAVOURS = {
    # name : (CFLAGS, LDFLAGS)
    "normal": ("", ""),
    # verification hooks compiled in (guard IMAGED11_VERIF); they stay silent unless IMAGED11_VERIF_TRACE is set
    "hooks": ("-DIMAGED11_VERIF", ""),
    "asan": ("-O1 -g -fno-omit-frame-pointer -fsanitize=address,undefined -fno-sanitize-recover=all",
             "-fsanitize=address,undefined"),
}


def _prune_cache(keep=40, min_age_s=6 * 3600):
    """remove old build directories; never one that may be in use (younger than min_age_s; every
    build_shadow() call touches the directory it returns)"""
    try:
        ents = [os.path.join(CACHE_ROOT, d) for d in os.listdir(CACHE_ROOT)
                if os.path.isdir(os.path.join(CACHE_ROOT, d))]
    except OSError:
        return
    now = time.time()

    def mtime(p):            # (a concurrent run may prune an entry between listdir and here)
        try:
            return os.path.getmtime(p)
        except OSError:
            return now
    ents = sorted(((mtime(p), p) for p in ents), reverse=True)
    for t, p in ents[keep:]:
        if now - t > min_age_s:
            shutil.rmtree(p, True)


def build_shadow(flavour="normal"):
    """Build the extension from the *current* /repo/src into a cache directory keyed by the
    content hash of every build input (so an edited tree is always rebuilt; an unchanged tree
    re-uses the identical binary).  Returns the directory to put on PYTHONPATH."""
    cflags, ldflags = FLAVOURS[flavour]
    # the python files are symlinked from REPO: a scratch worktree must not share a shadow with /repo
    key = source_hash(flavour + cflags + os.path.realpath(REPO)) + "-" + flavour
    os.makedirs(CACHE_ROOT, exist_ok=True)
    dest = os.path.join(CACHE_ROOT, key)
    lock = open(os.path.join(CACHE_ROOT, key + ".lock"), "w")
    fcntl.flock(lock, fcntl.LOCK_EX)
    try:
        shadow = os.path.join(dest, "shadow")
        okfile = os.path.join(dest, "OK")
        if not os.path.exists(okfile):
            shutil.rmtree(dest, True)
            bdir = os.path.join(dest, "build")
            os.makedirs(os.path.join(bdir, "ImageD11"))
            shutil.copytree(os.path.join(REPO, "src"), os.path.join(bdir, "src"),
                            ignore=shutil.ignore_patterns("__pycache__", "old", "build"))
            shutil.copy(os.path.join(REPO, "setup.py"), bdir)
            shutil.copy(os.path.join(REPO, "ImageD11/__init__.py"), os.path.join(bdir, "ImageD11"))
            for f in ("README.md",):
                if os.path.exists(os.path.join(REPO, f)):
                    shutil.copy(os.path.join(REPO, f), bdir)
            env = dict(os.environ)
            env.pop("PYTHONPATH", None)
            if cflags:
                env["CFLAGS"] = cflags
            if ldflags:
                env["LDFLAGS"] = ldflags
            p = subprocess.run([PY, "setup.py", "build_ext", "--inplace"], cwd=bdir, env=env,
                               stdout=subprocess.PIPE, stderr=subprocess.STDOUT, text=True)
            sos = glob.glob(os.path.join(bdir, "_cImageD11*.so")) + \
                glob.glob(os.path.join(bdir, "ImageD11", "_cImageD11*.so"))
            if p.returncode != 0 or not sos:
                with open(os.path.join(dest, "build.log"), "w") as f:
                    f.write(p.stdout)
                raise MachineryError("build of /repo/src failed (%s): see %s\n%s" %
                                     (flavour, os.path.join(dest, "build.log"), p.stdout[-3000:]))
            os.makedirs(os.path.join(shadow, "ImageD11"))
            shutil.copy(sos[0], os.path.join(shadow, "ImageD11", os.path.basename(sos[0])))
            shutil.rmtree(bdir, True)
            open(okfile, "w").write(key)
        # (re)create the symlinks every time: python files may have been added/removed
        # (only what is wrong is touched: processes that already use this shadow - parallel workers of one check, other
        #  checks - import lazily from it, and a window without __init__.py makes `import ImageD11` a namespace package)
        pk = os.path.join(shadow, "ImageD11")
        want = {}
        for e in os.listdir(os.path.join(REPO, "ImageD11")):
            if e.startswith("_cImageD11") and e.endswith(".so"):
                continue
            if e == "__pycache__":
                continue
            want[e] = os.path.join(REPO, "ImageD11", e)
        for e in os.listdir(pk):
            pth = os.path.join(pk, e)
            if os.path.islink(pth) and (e not in want or os.readlink(pth) != want[e]):
                os.unlink(pth)
        for e, target in want.items():
            pth = os.path.join(pk, e)
            if not os.path.lexists(pth):
                os.symlink(target, pth)
        os.utime(dest, None)
    finally:
        fcntl.flock(lock, fcntl.LOCK_UN)
        lock.close()
    _prune_cache()
    return shadow


def asan_env(shadow):
    """environment to run /venv python against the sanitizer build"""
    env = dict(os.environ)
    libasan = subprocess.check_output(["gcc", "-print-file-name=libasan.so"], text=True).strip()
    libubsan = subprocess.check_output(["gcc", "-print-file-name=libubsan.so"], text=True).strip()
    env["LD_PRELOAD"] = libasan + ":" + libubsan
    env["ASAN_OPTIONS"] = "detect_leaks=0:abort_on_error=0:exitcode=66:halt_on_error=1:allocator_may_return_null=1"
    env["UBSAN_OPTIONS"] = "halt_on_error=1:print_stacktrace=1:exitcode=67"
    env["PYTHONPATH"] = shadow
    env["PYTHONDONTWRITEBYTECODE"] = "1"
    env["NUMBA_DISABLE_JIT"] = "1"
    env["OMP_NUM_THREADS"] = "2"          # the sanitizer run observes memory accesses, not schedules
    env["OMP_WAIT_POLICY"] = "passive"
    env["NUMBA_CACHE_DIR"] = os.path.join(scratch(), "numba")
    return env


def use_shadow(shadow):
    """make `import ImageD11` in *this* process resolve to the shadow package"""
    os.environ["NUMBA_CACHE_DIR"] = os.path.join(scratch(), "numba")
    sys.dont_write_bytecode = True
    if shadow not in sys.path:
        sys.path.insert(0, shadow)
    for m in list(sys.modules):
        if m == "ImageD11" or m.startswith("ImageD11."):
            raise MachineryError("ImageD11 imported before use_shadow()")
    import ImageD11
    here = os.path.realpath(os.path.dirname(ImageD11.__file__))
    # __init__.py is a symlink to /repo, so __file__ is the shadow path (not resolved)
    if not os.path.dirname(ImageD11.__file__).startswith(shadow):
        raise MachineryError("ImageD11 resolved to %s, not the shadow %s" % (here, shadow))
    return ImageD11


# --------------------------------------------------------------------------------------
# TLC

class TLCResult(object):
    def __init__(self):
        self.stdout = ""
        self.states = 0          # distinct states
        self.generated = 0       # states generated ( = transitions + initial)
        self.violated = []       # names of violated invariants / properties
        self.error = None        # other TLC error (machinery)
        self.printed = []        # PrintT payloads (raw strings)
        self.coverage = {}       # action -> (distinct, total)
        self.finished = False
        self.trace = []          # counterexample states (raw text blocks)
        self.wall = 0.0
        self.cmd = ""


def _cfg_value(v):
    if isinstance(v, bool):
        return "TRUE" if v else "FALSE"
    if isinstance(v, int):
        return str(v)
    if isinstance(v, str):
        return v
    if isinstance(v, (set, frozenset)):
        return "{" + ", ".join(_cfg_value(x) for x in sorted(v, key=str)) + "}"
    if isinstance(v, (list, tuple)):
        return "<<" + ", ".join(_cfg_value(x) for x in v) + ">>"
    raise TypeError(v)


def write_cfg(path, spec="Spec", constants=None, invariants=(), properties=(), constraint=None,
              action_constraint=None, view=None, postcondition=None, check_deadlock=False,
              init=None, next_=None, symmetry=None, overrides=None):
    lines = []
    if init and next_:
        lines += ["INIT %s" % init, "NEXT %s" % next_]
    else:
        lines.append("SPECIFICATION %s" % spec)
    if constants or overrides:
        lines.append("CONSTANTS")
        for k, v in (constants or {}).items():
            lines.append("  %s = %s" % (k, _cfg_value(v)))
        for k, v in (overrides or {}).items():
            lines.append("  %s <- %s" % (k, v))
    for i in invariants:
        lines.append("INVARIANT %s" % i)
    for p in properties:
        lines.append("PROPERTY %s" % p)
    if constraint:
        lines.append("CONSTRAINT %s" % constraint)
    if action_constraint:
        lines.append("ACTION_CONSTRAINT %s" % action_constraint)
    if view:
        lines.append("VIEW %s" % view)
    if symmetry:
        lines.append("SYMMETRY %s" % symmetry)
    if postcondition:
        lines.append("POSTCONDITION %s" % postcondition)
    lines.append("CHECK_DEADLOCK %s" % ("TRUE" if check_deadlock else "FALSE"))
    with open(path, "w") as f:
        f.write("\n".join(lines) + "\n")
    return path


_RE_SUMMARY = re.compile(r"(\d+) states generated, (\d+) distinct states found")
_RE_INV = re.compile(r"Invariant (\S+) is violated")
_RE_PROP = re.compile(r"(?:Action property|Temporal property|property) (\S+) (?:is|was) violated", re.I)
_RE_COV = re.compile(r"^<(\w+) line .*?>: (\d+):(\d+)", re.M)


def run_tlc(module, cfgfile, workers=16, simulate=None, depth=None, timeout=1200, coverage=False,
            env_extra=None, dfid=None, seed_=None, heap="6g", extra_args=(), cwd=None,
            print_prefix="@@", dump_traces=None, allow_violation=True):
    """Run TLC.  module = module name living in specs/ (or in cwd if given).
    PrintT payloads are collected when they are strings beginning with print_prefix
    (TLC prints strings in quotes)."""
    res = TLCResult()
    work = cwd or SPECS
    meta = tempfile.mkdtemp(prefix="tlcmeta.", dir=scratch())
    cmd = ["java", "-Xmx" + heap, "-XX:+UseParallelGC",
           "-cp", TLA_JAR + ":/opt/veriftools/tla/CommunityModules-deps.jar",
           "tlc2.TLC", "-metadir", meta, "-noGenerateSpecTE", "-workers", str(workers),
           "-config", cfgfile]
    if simulate is not None:
        s = "num=%d" % simulate
        if dump_traces:
            s = "file=%s,%s" % (dump_traces, s)
        cmd += ["-simulate", s]
        if depth:
            cmd += ["-depth", str(depth)]
        cmd += ["-seed", str(seed_ if seed_ is not None else seed())]
    if dfid:
        cmd += ["-dfid", str(dfid)]
    if coverage:
        cmd += ["-coverage", "1"]
    cmd += list(extra_args)
    cmd.append(module)
    env = dict(os.environ)
    env.update(env_extra or {})
    res.cmd = " ".join(cmd)
    t0 = time.time()
    try:
        p = subprocess.run(cmd, cwd=work, env=env, stdout=subprocess.PIPE, stderr=subprocess.STDOUT,
                           text=True, timeout=timeout)
        out = p.stdout
        rc = p.returncode
    except subprocess.TimeoutExpired as e:
        out = (e.stdout or b"").decode() if isinstance(e.stdout, bytes) else (e.stdout or "")
        rc = -9
        res.error = "TLC timeout after %ds" % timeout
        subprocess.call(["pkill", "-f", meta])
    res.wall = time.time() - t0
    shutil.rmtree(meta, True)
    res.stdout = out
    res.rc = rc
    m = None
    for m in _RE_SUMMARY.finditer(out):
        pass
    if m:
        res.generated, res.states = int(m.group(1)), int(m.group(2))
    if simulate is not None and not m:
        mm = re.search(r"The number of states generated: (\d+)", out)
        if mm:
            res.generated = int(mm.group(1))
            res.states = res.generated      # simulation: distinct states are not tracked by TLC
    mi = re.search(r"Finished computing initial states: (\d+) distinct state", out)
    res.init_states = int(mi.group(1)) if mi else 1
    res.violated = _RE_INV.findall(out) + _RE_PROP.findall(out)
    if "Model checking completed. No error has been found." in out or \
            (simulate is not None and rc == 0 and "Error:" not in out):
        res.finished = True
    for line in out.splitlines():
        s = line.strip()
        if s.startswith('"' + print_prefix):
            try:
                res.printed.append(_tla_unquote(s)[len(print_prefix):])
            except Exception:
                pass
    for mm in _RE_COV.finditer(out):
        res.coverage[mm.group(1)] = (int(mm.group(2)), int(mm.group(3)))
    if res.violated:
        res.trace = _parse_trace(out)
    if not res.finished and not res.violated and res.error is None:
        # some other TLC error: parse / semantic / evaluation / overflow / assumption
        mm = re.search(r"Error: (.*(?:\n(?!\s*$).*){0,12})", out)
        res.error = mm.group(1) if mm else "TLC exit code %s without summary" % rc
    return res


def _tla_unquote(s):
    assert s[0] == '"' and s[-1] == '"'
    body = s[1:-1]
    return body.replace('\\"', '"').replace("\\\\", "\\")


def _parse_trace(out):
    """counterexample trace: list of (header, {var: valuetext})"""
    states = []
    cur = None
    for line in out.splitlines():
        m = re.match(r"^State (\d+): (.*)$", line)
        if m:
            cur = {"_n": int(m.group(1)), "_action": m.group(2), "_text": ""}
            states.append(cur)
            continue
        if cur is not None:
            if line.strip() == "" and cur["_text"]:
                cur = None
                continue
            cur["_text"] += line + "\n"
    for st in states:
        vars_ = {}
        key = None
        for line in st["_text"].splitlines():
            m = re.match(r"^/\\ (\w+) = (.*)$", line)
            if m:
                key = m.group(1)
                vars_[key] = m.group(2)
            else:
                m = re.match(r"^(\w+) = (.*)$", line)
                if m and key is None:
                    key = m.group(1)
                    vars_[key] = m.group(2)
                elif key:
                    vars_[key] += " " + line.strip()
        st["vars"] = vars_
    return states


def sany(module):
    p = subprocess.run(["tla-sany", module + ".tla"], cwd=SPECS, stdout=subprocess.PIPE,
                       stderr=subprocess.STDOUT, text=True)
    ok = p.returncode == 0 and "error" not in p.stdout.lower().replace("semantic errors:\n\n", "")
    return ok, p.stdout


# ---- parsing TLA+ values printed by TLC (for traces / -simulate files / dumps) ----------

class _P(object):
    def __init__(self, s):
        self.s = s
        self.i = 0

    def ws(self):
        while self.i < len(self.s) and self.s[self.i] in " \t\r\n":
            self.i += 1

    def peek(self, t):
        self.ws()
        return self.s.startswith(t, self.i)

    def eat(self, t):
        self.ws()
        if not self.s.startswith(t, self.i):
            raise ValueError("expected %r at %d in %r" % (t, self.i, self.s[max(0, self.i - 20):self.i + 20]))
        self.i += len(t)

    def value(self):
        self.ws()
        s = self.s
        c = s[self.i]
        if s.startswith("<<", self.i):
            self.i += 2
            out = []
            while not self.peek(">>"):
                out.append(self.value())
                if self.peek(","):
                    self.eat(",")
            self.eat(">>")
            return tuple(out)
        if c == "{":
            self.i += 1
            out = []
            while not self.peek("}"):
                out.append(self.value())
                if self.peek(","):
                    self.eat(",")
            self.eat("}")
            try:
                return frozenset(out)
            except TypeError:
                return tuple(out)
        if c == "[":
            self.i += 1
            d = {}
            while not self.peek("]"):
                self.ws()
                m = re.compile(r"[A-Za-z_0-9]+").match(s, self.i)
                k = m.group(0)
                self.i = m.end()
                self.eat("|->")
                d[k] = self.value()
                if self.peek(","):
                    self.eat(",")
            self.eat("]")
            return d
        if c == "(":
            # function printed as (k :> v @@ k :> v)
            self.i += 1
            d = {}
            while not self.peek(")"):
                k = self.value()
                self.eat(":>")
                d[k] = self.value()
                if self.peek("@@"):
                    self.eat("@@")
            self.eat(")")
            return d
        if c == '"':
            j = self.i + 1
            out = []
            while s[j] != '"':
                if s[j] == "\\":
                    j += 1
                out.append(s[j])
                j += 1
            self.i = j + 1
            return "".join(out)
        m = re.compile(r"-?\d+").match(s, self.i)
        if m:
            self.i = m.end()
            return int(m.group(0))
        m = re.compile(r"[A-Za-z_][A-Za-z_0-9]*").match(s, self.i)
        if m:
            self.i = m.end()
            w = m.group(0)
            if w == "TRUE":
                return True
            if w == "FALSE":
                return False
            return w
        raise ValueError("cannot parse at %d: %r" % (self.i, s[self.i:self.i + 30]))


def parse_tla(text):
    p = _P(text)
    v = p.value()
    p.ws()
    if p.i != len(p.s):
        raise ValueError("trailing text: %r" % p.s[p.i:p.i + 40])
    return v


def parse_sim_file(path):
    """parse one behaviour file written by `tlc -simulate file=...`.
    Returns list of (action_name or None, {var: value})."""
    txt = open(path).read()
    out = []
    blocks = re.split(r"\n(?=\\\* )|\n(?=STATE_)", txt)
    action = None
    # files look like:  STATE_1 == \n /\ v = ... \n\n \* <Action line ...>\n STATE_2 == ...
    cur_action = None
    for m in re.finditer(r"(?:\\\*\s*<?(\w+)[^\n]*\n)?STATE_(\d+) ==\s*\n((?:.*\n)*?)(?=\n|\Z)", txt):
        cur_action = m.group(1)
        body = m.group(3)
        out.append((cur_action, _parse_conj(body)))
    return out


def _parse_conj(body):
    vars_ = {}
    parts = re.split(r"^\s*/\\ ", body, flags=re.M)
    for part in parts:
        part = part.strip()
        if not part:
            continue
        m = re.match(r"(\w+) = (.*)$", part, re.S)
        if m:
            vars_[m.group(1)] = parse_tla(m.group(2).strip())
    return vars_


# --------------------------------------------------------------------------------------
# known findings

def load_findings(prop):
    path = os.path.join(VERIF, "known_findings.json")
    if not os.path.exists(path):
        return []
    with open(path) as f:
        data = json.load(f)
    return [e for e in data.get("entries", []) if e.get("property") == prop and e.get("status") == "finding"]


# --------------------------------------------------------------------------------------
# check result bookkeeping

ACTIVE_CHECKS = []        # Check objects of this process (run.py: a machinery error after recorded violations)


class Check(object):
    """Collects what a check run covered; prints verdict lines; writes evidence."""

    def __init__(self, prop, tier, level="model_checking"):
        self.prop = prop
        self.tier = tier
        self.level = level
        self.t0 = time.time()
        self.states = 0
        self.transitions = 0
        self.traces = 0
        self.evaluations = 0
        self.nontrivial = set()
        self.samples = []
        self.violations = []     # (what, replay path)
        self.known = {}          # finding id -> count
        self.notes = {}
        self.assumptions = []
        self.tlc_runs = []
        self.exhaustive = True
        self.rule = ""
        self.findings = load_findings(prop)
        self.finished = False
        ACTIVE_CHECKS.append(self)

    # -- TLC accounting
    def add_tlc(self, name, res, expect_violation=None, require_cover=()):
        """account a TLC run.  expect_violation: None -> any violated invariant is a *design-level*
        result that the caller handles; the run must otherwise be error-free."""
        if res.error and not res.violated:
            raise MachineryError("TLC run %s failed: %s\n%s" % (name, res.error, res.stdout[-2500:]))
        self.states += res.states
        self.transitions += max(res.generated - getattr(res, 'init_states', 1), 0)
        self.tlc_runs.append({"name": name, "states": res.states, "generated": res.generated,
                              "violated": res.violated, "wall_s": round(res.wall, 2),
                              "cmd": res.cmd.split("tlc2.TLC", 1)[-1].strip()})
        for a in require_cover:
            if res.coverage and res.coverage.get(a, (0, 0))[1] == 0:
                raise MachineryError("vacuity: action %s never taken in TLC run %s" % (a, name))

    def sample(self, s, limit=4):
        if len(self.samples) < limit:
            self.samples.append(s)

    def case(self, key=None, nontrivial=True):
        self.evaluations += 1
        if nontrivial and key is not None:
            if len(self.nontrivial) < 2000000:
                self.nontrivial.add(hashlib.md5(repr(key).encode()).digest()[:8])

    def violation(self, what, replay_obj):
        """record a violation unless it is a listed known finding"""
        n = len(self.violations)
        if n >= 25:
            self.violations.append((what, None))
            return
        d = os.path.join(os.environ.get("VERIF_OUT_DIR", VERIF), "replay", self.prop)
        os.makedirs(d, exist_ok=True)
        path = os.path.join(d, "violation_%03d.json" % n)
        with open(path, "w") as f:
            json.dump({"property": self.prop, "what": what, "case": replay_obj}, f, indent=1, default=_jd)
        self.violations.append((what, path))
        print("  violation: %s" % what)

    def known_finding(self, fid, what):
        self.known.setdefault(fid, [0, what])
        self.known[fid][0] += 1

    def finding(self, fid):
        for e in self.findings:
            if e.get("id") == fid:
                return e
        return None

    def finish(self, extra_cov=None):
        self.finished = True
        wall = time.time() - self.t0
        cov = {
            "states": int(self.states),
            "transitions": int(max(self.transitions, 0)),
            "traces_validated_against_impl": int(self.traces),
            "evaluations": int(self.evaluations),
            "distinct_nontrivial": int(len(self.nontrivial)),
            "rule": self.rule,
            "samples": self.samples if self.samples else ["(no sample recorded)"],
            "exhaustive": bool(self.exhaustive),
            "tlc_runs": self.tlc_runs,
            "known_findings_reproduced": {k: v[0] for k, v in self.known.items()},
        }
        cov.update(self.notes)
        cov.update(extra_cov or {})
        ev = {"property_id": self.prop, "tier": self.tier, "seed": seed(), "level": self.level,
              "coverage": cov, "assumptions": self.assumptions, "wall_s": round(wall, 2),
              "violations": len(self.violations)}
        # VERIF_OUT_DIR redirects evidence/ and replay/ (used when the checks are run against a scratch
        # worktree holding a seeded defect, so that the committed evidence always comes from /repo itself)
        evd = os.path.join(os.environ.get("VERIF_OUT_DIR", VERIF), "evidence")
        os.makedirs(evd, exist_ok=True)
        with open(os.path.join(evd, self.prop + ".json"), "w") as f:
            json.dump(ev, f, indent=1, default=_jd)
        for fid, (n, what) in sorted(self.known.items()):
            print("KNOWN-FINDING: property=%s %s [%s, reproduced %d times]" % (self.prop, what, fid, n))
        seen = set()
        for what, path in self.violations:
            if path and path not in seen:
                seen.add(path)
                print("VIOLATION property=%s replay=%s" % (self.prop, path))
        print("%s %s: states=%d traces=%d evaluations=%d violations=%d wall=%.1fs" % (
            self.prop, self.tier, self.states, self.traces, self.evaluations, len(self.violations), wall))
        return 1 if self.violations else 0


def _jd(o):
    try:
        import numpy as np
        if isinstance(o, np.ndarray):
            return o.tolist()
        if isinstance(o, (np.integer,)):
            return int(o)
        if isinstance(o, (np.floating,)):
            return float(o)
        if isinstance(o, (np.bool_,)):
            return bool(o)
    except ImportError:
        pass
    if isinstance(o, (set, frozenset)):
        return sorted(o, key=str)
    if isinstance(o, bytes):
        return o.decode("latin1")
    from fractions import Fraction
    if isinstance(o, Fraction):
        return [o.numerator, o.denominator]
    return repr(o)

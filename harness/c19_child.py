"""C19 helper: the worker sweep of roi_iradon in a process whose CONFIGURATION is restricted.

Run as a program by harness/props/c19.py:

    python c19_child.py <shadow dir> <task.json> <result.json>

task = {"affinity": k or null,        number of cpus to keep in the affinity mask (null = leave the mask alone)
        "pick": seed,                 which cpus of the current mask are kept
        "ns": [...],                  projection counts of the small sinograms (jobs are recorded)
        "requests": [...],            values of `workers` (1..16, null, -1)
        "recon_requests": [...],      the same for the full-size reconstructions (default: requests)
        "recon": [cfg, ...],          RECON cases of the specification (point grain, module's own shift and pad)
        "consumers": bool}            also GrainSinogram.recon(workers=...)
The environment (OMP_NUM_THREADS, SLURM_*, NUMBER_OF_PROCESSORS ...) is set by the parent.
The affinity mask is restricted BEFORE ImageD11 is imported.  Nothing is judged here: the child reports the
pool size and the jobs roi_iradon.iradon handed to its thread pool and the difference of every result from the
one-worker result; the parent compares with the specification (ScanGeom.tla, PART).

The recorder and the sinogram builders are also imported by props/c19.py (one definition for both processes).
"""
from __future__ import print_function
import os, sys, json, types, random
from fractions import Fraction as F


class Recorder(object):
    """stands in for `concurrent` inside roi_iradon: a ThreadPoolExecutor that notes max_workers and the jobs"""

    def __init__(self):
        self.jobs = []

    def namespace(self):
        import concurrent.futures as cf
        rec = self

        class Pool(object):
            def __init__(self, max_workers=None, *a, **k):
                self.mw = max_workers
                self.p = cf.ThreadPoolExecutor(max_workers=max_workers)

            def __enter__(self):
                return self

            def __exit__(self, *a):
                self.p.shutdown()
                return False

            def map(self, fn, jobs, *a, **k):
                jobs = [list(j) for j in jobs]
                rec.jobs.append((self.mw, jobs))
                return self.p.map(fn, jobs)

            def submit(self, fn, job, *a, **k):
                try:
                    rec.jobs.append((self.mw, [list(job)]))
                except TypeError:
                    pass
                return self.p.submit(fn, job, *a, **k)

            def shutdown(self, *a, **k):
                self.p.shutdown()
        fut = types.SimpleNamespace(**{k: getattr(cf, k) for k in dir(cf) if not k.startswith("_")})
        fut.ThreadPoolExecutor = Pool
        return types.SimpleNamespace(futures=fut)


def recorded(ri, fn, *a, **kw):
    """run fn (roi_iradon.iradon / run_iradon) with the thread pool of module ri replaced by a recording one.
    Returns (result, [(max_workers, jobs), ...])"""
    r = Recorder()
    old = ri.concurrent
    ri.concurrent = r.namespace()
    try:
        out = fn(*a, **kw)
    finally:
        ri.concurrent = old
    return out, r.jobs


def flat_jobs(jobs):
    """the recorded pool uses -> (pool size, list of jobs) or None when nothing was handed to a pool"""
    if not jobs:
        return None
    if len(jobs) == 1:
        return jobs[0][0], jobs[0][1]
    return jobs[0][0], [j[1][0] for j in jobs]          # submitted one by one


def part_sino(np, n):
    """small integer-valued sinogram with n projections; ny odd / even with n"""
    rng = np.random.default_rng(1000 * n + 7)
    ny = 9 + (n % 2)
    sino = rng.integers(0, 5, size=(ny, n)).astype(float)
    theta = np.linspace(0.0, 180.0, n, endpoint=False)
    return sino, theta, ny


def fl(x):
    return float(F(int(x[0]), int(x[1])))


def point_sino(np, g, c, omega=None, dtype=float):
    """point-grain sinogram of a RECON case built with the module's own functions"""
    sx, sy, y0, ystep, ymin = fl(c["sx"]), fl(c["sy"]), fl(c["y0"]), fl(c["ystep"]), fl(c["ymin"])
    ny, scan = c["ny"], c["scan"]
    if omega is None:
        omega = np.arange(0, scan, 1.0)
    dty = g.dty_values_grain_in_beam(sx, sy, y0, omega)
    dtyi = g.dty_to_dtyi(dty, ystep, ymin)
    sino = np.zeros((ny, len(omega)), dtype=dtype)
    inside = (dtyi >= 0) & (dtyi < ny)
    sino[dtyi[inside], np.arange(len(omega))[inside]] = 1
    return sino, omega, dty, dtyi, int((~inside).sum())


def main(argv):
    shadow, taskf, outf = argv[1:4]
    task = json.load(open(taskf))
    res = {"task": task, "part": [], "recon": [], "error": None}
    try:
        full = sorted(os.sched_getaffinity(0)) if hasattr(os, "sched_getaffinity") else []
        if task.get("affinity") and full:
            k = min(int(task["affinity"]), len(full))
            keep = random.Random(task.get("pick", 0)).sample(full, k)
            os.sched_setaffinity(0, set(keep))
        res["mask"] = len(os.sched_getaffinity(0)) if full else None
        res["env"] = {k: os.environ[k] for k in ("OMP_NUM_THREADS", "SLURM_CPUS_PER_TASK", "SLURM_JOB_CPUS_PER_NODE",
                                                 "NUMBER_OF_PROCESSORS", "NUMBA_NUM_THREADS") if k in os.environ}
        sys.dont_write_bytecode = True
        sys.path.insert(0, shadow)
        os.environ.setdefault("NUMBA_CACHE_DIR", "/var/tmp/imaged11_verif_numba_c19")
        import numpy as np
        from ImageD11 import cImageD11
        from ImageD11.sinograms import geometry, roi_iradon
        import ImageD11
        if not os.path.dirname(ImageD11.__file__).startswith(shadow):
            raise RuntimeError("ImageD11 resolved to %s" % ImageD11.__file__)
        res["cores_available"] = int(cImageD11.cores_available())
        reqs = task["requests"]
        # ---- small sinograms: jobs recorded
        for n in task["ns"]:
            sino, theta, ny = part_sino(np, n)
            kw = dict(output_size=ny + 3, projection_shifts=np.full(sino.shape, 0.25))
            ref = roi_iradon.iradon(sino, theta, workers=1, **kw)
            s = float(np.abs(ref).max())
            for req in reqs:
                row = {"n": n, "req": req, "scale": s}
                try:
                    out, jobs = recorded(roi_iradon, roi_iradon.iradon, sino, theta, workers=req, **kw)
                    fj = flat_jobs(jobs)
                    row["pool"], row["jobs"] = (fj if fj else (None, None))
                    row["diff"] = float(np.abs(out - ref).max())
                except Exception as e:          # noqa - reported to the parent
                    row["raised"] = repr(e)[:300]
                res["part"].append(row)
        # ---- point grains of the specification, as the consumers reconstruct them
        gs = None
        if task.get("consumers"):
            import ImageD11.sinograms.sinogram as sinogram
            import ImageD11.sinograms.dataset as dataset
            import ImageD11.grain
        for ci, c in enumerate(task.get("recon", [])):
            sino, omega, dty, dtyi, nout = point_sino(np, geometry, c)
            y0, ystep, ymin, ny = fl(c["y0"]), fl(c["ystep"]), fl(c["ymin"]), c["ny"]
            shift, pad = geometry.sino_shift_and_pad(y0, ny, ymin, ystep)
            ref = roi_iradon.run_iradon(sino, omega, pad=pad, shift=shift, workers=1)
            s = float(np.abs(ref).max())
            pk = np.unravel_index(int(np.argmax(ref)), ref.shape)
            if task.get("consumers"):
                ds = dataset.DataSet()
                ds.ybincens = ymin + np.arange(ny) * ystep
                ds.ystep = ystep
                gs = sinogram.GrainSinogram(ImageD11.grain.grain(np.eye(3)), ds)
                gs.ssino, gs.sinoangles = sino, omega
                gs.update_recon_parameters(y0=y0, shift=shift, pad=pad)
            for req in task.get("recon_requests", reqs):
                row = {"case": ci, "req": req, "scale": s, "peak": [int(pk[0]), int(pk[1])], "shape": list(ref.shape)}
                try:
                    out, jobs = recorded(roi_iradon, roi_iradon.run_iradon, sino, omega, pad=pad, shift=shift, workers=req)
                    fj = flat_jobs(jobs)
                    row["pool"], row["njobs"] = (fj[0], len(fj[1])) if fj else (None, None)
                    row["covered"] = sorted(i for j in fj[1] for i in j) == list(range(len(omega))) if fj else None
                    row["diff"] = float(np.abs(out - ref).max())
                    if gs is not None:
                        rg = gs.recon(method="iradon", workers=req)
                        row["diff_gs"] = float(np.abs(rg - ref).max()) if rg.shape == ref.shape else float("inf")
                except Exception as e:          # noqa
                    row["raised"] = repr(e)[:300]
                res["recon"].append(row)
    except Exception as e:                       # noqa - machinery problem, the parent raises
        import traceback
        res["error"] = traceback.format_exc()[-2000:]
    with open(outf, "w") as f:
        json.dump(res, f)
    return 0


if __name__ == "__main__":
    sys.exit(main(sys.argv))

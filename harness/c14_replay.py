"""C14 - replay of the cases emitted by specs/SparseCoo.tla and specs/SparseOverlaps.tla into the real code.

judge(case, mods, light=False) -> list of (route, kind, message); empty list = the implementation agrees with the
model on every array element, return code and Python-level result of the case.

Poison: the model marks cells that the kernel must not write with -1.  The harness pre-fills every output buffer
with a recognisable pattern (0xFFFF / 0xFFFFFFFF / -1 / -12345.0) and requires exactly that pattern where the
model says -1.

Programs: m2c, cut, sorted, sort, thresh (SparseCoo.tla); cd, pipe, hist (SparseOverlaps.tla).  "hist" = one
overlaps_linear and one overlaps_matrix object driven through the calls of a history, then the same history as
a scan through sinograms.properties.pairrow / pairscans (judge_hist).  to_dense is called in every way its
docstring offers (name, default, the array itself; fresh and caller supplied dirty `out`): dense_checks.
Harness-only families (covariant model): mask / pixel dtypes, VARIANTS (value and cut maps), threads, call forms.
COUNTS: calls into the implementation per route family - the vacuity counts of the evidence file.

Run as a script (sanitizer build, see props/c14.py):  c14_replay.py cases.jsonl out.json
"""
import sys, os, json
import numpy as np

P16 = 0xFFFF
P32U = 0xFFFFFFFF
P32I = -1
PF32 = -12345.0


class Mods(object):
    pass


def load_mods(consumer=True):
    m = Mods()
    from ImageD11 import cImageD11, sparseframe
    m.c = cImageD11
    m.sf = sparseframe
    m.props = None
    if consumer:
        try:
            import ImageD11.sinograms.properties as props
            m.props = props
        except Exception as e:      # noqa  (reported once by the caller as a note, not as a verdict)
            m.props_error = repr(e)
    return m


def poison_of(dtype):
    dtype = np.dtype(dtype)
    if dtype == np.uint16:
        return P16
    if dtype == np.uint32:
        return P32U
    if dtype == np.int32:
        return P32I
    if dtype == np.float32:
        return PF32
    raise TypeError(dtype)


def expect(lst, dtype):
    """model list -> numpy array, -1 -> poison"""
    p = poison_of(dtype)
    return np.array([p if v == -1 else v for v in lst], dtype=dtype)


import collections
COUNTS = collections.Counter()      # calls into the implementation per route family (vacuity counts of the evidence)


_FAM = {}


def family(route):
    """route without its per-case decoration: 'a.b[x, via c[y]] (z 3)' -> 'a.b (z N)'"""
    f = _FAM.get(route)
    if f is None:
        import re
        r = route
        while True:
            r2 = re.sub(r"\[[^\[\]]*\]", "", r)
            if r2 == r:
                break
            r = r2
        f = _FAM[route] = re.sub(r"\d+", "N", r).strip()
    return f


class Judge(object):
    def __init__(self):
        self.fails = []

    def eq(self, route, name, got, exp):
        if isinstance(exp, np.ndarray) or isinstance(got, np.ndarray):
            got = np.asarray(got)
            exp = np.asarray(exp)
            if got.shape != exp.shape or not np.array_equal(got, exp):
                self.fails.append((route, "mismatch", "%s: %s = %s, model says %s" % (
                    route, name, _short(got), _short(exp))))
                return False
            return True
        if got != exp:
            self.fails.append((route, "mismatch", "%s: %s = %r, model says %r" % (route, name, got, exp)))
            return False
        return True

    def call(self, route, fn, *a, **k):
        """call into the implementation; an exception is a failure of that route"""
        COUNTS[family(route)] += 1
        try:
            return True, fn(*a, **k)
        except Exception as e:      # noqa
            self.fails.append((route, type(e).__name__, "%s raised %s: %s" % (route, type(e).__name__, e)))
            return False, None


def _short(a):
    a = np.asarray(a)
    s = np.array2string(a.ravel()[:24], separator=",", max_line_width=200)
    return "%s%s" % (s, "" if a.size <= 24 else "...(%d)" % a.size)


def with_threads(m, n, fn):
    old = m.c.cimaged11_omp_get_max_threads()
    try:
        m.c.cimaged11_omp_set_num_threads(n)
        return fn()
    finally:
        m.c.cimaged11_omp_set_num_threads(old)


# ------------------------------------------------------------------------------------------------
def frame_eq(J, route, fr, exp, pxdtypes=None):
    """fr = real sparse_frame, exp = model frame record"""
    ok = J.eq(route, "shape", tuple(int(x) for x in fr.shape), tuple(exp["shape"]))
    ok &= J.eq(route, "nnz", int(fr.nnz), exp["nnz"])
    ok &= J.eq(route, "row", fr.row, np.array(exp["row"], np.uint16))
    ok &= J.eq(route, "col", fr.col, np.array(exp["col"], np.uint16))
    ok &= J.eq(route, "pixel names", sorted(fr.pixels.keys()), sorted(exp["names"]))
    for nm in exp["names"]:
        if nm in fr.pixels:
            ok &= J.eq(route, "pixels[%s]" % nm, np.asarray(fr.pixels[nm], np.float64),
                       np.array(exp["px"][nm], np.float64))
    return ok


TD_ARRAY = "sparse_frame.to_dense(array)"      # route name of the fourth way of choosing `data` (its own failure group)


def dense_checks(J, route, fr, dense, shape, named=None, boolmask=False, dense2=None, vmap=None, level=2):
    """every way of choosing to_dense's `data`: by name, by default (the only array / a boolean mask), by
    handing over the array itself (dense2 = the model's second pass, TD2_*), each with and without a caller
    supplied `out` that is full of a poison value.  vmap: the value variant applied to the model's grey levels.
    level 2: all of them; level 1: default and array (the call forms repeat for every mask / value variant of a
    case, the ways of choosing `data` do not depend on them)."""
    vmap = vmap or (lambda a: a)
    exp = np.asarray(vmap(np.array(dense, np.float64)), np.float64).reshape(shape)
    if boolmask:
        exp = np.array(dense, np.float64).reshape(shape)
    if named is not None and level >= 2:
        ok, d = J.call(route + ".to_dense(name)", fr.to_dense, named)
        if ok:
            J.eq(route + ".to_dense(name)", "dense", np.asarray(d, np.float64), exp)
    ok, d = J.call(route + ".to_dense()", fr.to_dense)
    if ok:
        J.eq(route + ".to_dense()", "dense", np.asarray(d, np.float64), exp)
        if boolmask:
            J.eq(route + ".to_dense()", "dtype", str(np.asarray(d).dtype), "bool")
    # caller supplied output array, dirty: every cell must be (re)written
    if not boolmask and level >= 2:
        nm = named if named is not None else list(fr.pixels.keys())[0]
        out = np.full(shape, poison_of(fr.pixels[nm].dtype), fr.pixels[nm].dtype)
        ok, d = J.call(route + ".to_dense(out=dirty)", fr.to_dense, nm, out)
        if ok:
            J.eq(route + ".to_dense(out=dirty)", "dense", np.asarray(out, np.float64), exp)
            J.eq(route + ".to_dense(out=dirty)", "returns out", d is out, True)
    if dense2 is not None and "intensity" in fr.pixels:
        exp2 = np.asarray(vmap(np.array(dense2, np.float64)), np.float64).reshape(shape)
        arr = fr.pixels["intensity"]
        r2 = TD_ARRAY + "[via %s]" % route
        ok, d = J.call(r2, fr.to_dense, arr)
        if ok:
            J.eq(r2, "dense", np.asarray(d, np.float64), exp2)
            J.eq(r2, "dtype", str(np.asarray(d).dtype), str(arr.dtype))
        if level < 2:
            return
        out = np.full(shape, poison_of(arr.dtype), arr.dtype)
        r2 = TD_ARRAY + "[out=dirty, via %s]" % route
        ok, d = J.call(r2, fr.to_dense, arr.copy(), out)
        if ok:
            J.eq(r2, "dense", np.asarray(out, np.float64), exp2)
        # an array that is none of the frame's own (the conversion is linear in `data`: 2 v + 1 on the frame's
        # pixels, which are the non-zero cells of the model's second pass)
        other = (np.asarray(arr, np.float64) * 2 + 1).astype(np.float32)
        r2 = TD_ARRAY + "[other array, via %s]" % route
        ok, d = J.call(r2, fr.to_dense, other)
        if ok:
            on = np.array(dense2, np.float64).reshape(shape) != 0
            J.eq(r2, "dense", np.asarray(d, np.float64),
                 np.where(on, (exp2 * 2 + 1).astype(np.float32).astype(np.float64), 0.0))


def judge_m2c(c, m, light):
    J = Judge()
    ns, nf, nnz = c["ns"], c["nf"], c["nnz"]
    base = np.array(c["msk"], np.int64).reshape(ns, nf)
    # "any mask": signed and unsigned, true values with and without the top bit (255 / 128 are what image masks hold)
    variants = [("int8", np.int8, 1), ("bool", bool, 1), ("uint8x2", np.uint8, 2), ("int8x127", np.int8, 127),
                ("uint8x255", np.uint8, 255), ("uint8x128", np.uint8, 128)]     # (negative masks are outside the domain:
    # from_data_mask counts mask > 0 while the kernel tests != 0)
    for vname, dt, val in (variants[:1] if light else variants):
        msk = (base * val).astype(dt)
        # the two omp loops: 2 and 4 threads on the first variant (any row order must give the same arrays)
        for nthr in ((1,) if (light or vname != "int8") else (1, 2, 4)):
            i = np.full(nnz, P16, np.uint16)
            j = np.full(nnz, P16, np.uint16)
            w = np.full(ns, P32I, np.int32)
            route = "cImageD11.mask_to_coo[%s,threads=%d]" % (vname, nthr)
            ok, ret = J.call(route, with_threads, m, nthr, lambda: m.c.mask_to_coo(msk, i, j, w))
            if ok:
                J.eq(route, "return", int(ret), c["ret"])
                J.eq(route, "i", i, expect(c["i"], np.uint16))
                J.eq(route, "j", j, expect(c["j"], np.uint16))
                J.eq(route, "w", w, expect(c["w"], np.int32))
        if not c["frame"]:
            continue
        efr = c["frame"][0]
        for dname, ddt in (("uint16", np.uint16),) if light else (("uint16", np.uint16), ("uint32", np.uint32),
                                                                   ("float32", np.float32)):
            data = np.array([10 * (p // nf + 1) + (p % nf) + 1 for p in range(ns * nf)], ddt).reshape(ns, nf)
            route = "sparseframe.from_data_mask[%s,%s]" % (vname, dname)
            ok, fr = J.call(route, m.sf.from_data_mask, msk, data, {"a": 1})
            if not ok:
                continue
            frame_eq(J, route, fr, efr)
            J.eq(route, "intensity dtype", str(fr.pixels["intensity"].dtype), dname)
            dense_checks(J, route, fr, c["dense"], (ns, nf), named="intensity", dense2=c.get("dense2") or None,
                         level=2 if vname == "int8" else 1)
            J.call(route + ".is_sorted", fr.is_sorted)
            ok, r = J.call("cImageD11.sparse_is_sorted", m.c.sparse_is_sorted, fr.row, fr.col)
            if ok:
                J.eq("cImageD11.sparse_is_sorted", "return on a frame from a mask", int(r), 0)
    return J.fails


B24 = 1 << 24
T0 = np.float32(0.1)                                # 0.1 is not a binary32 number: the kernels see float32(0.1)
T1 = np.nextafter(T0, np.float32(1))
T2 = np.nextafter(T1, np.float32(1))
_TEN = [float(T0), float(T1), float(T2)]
# value variants: order-preserving maps (tag, f, fcut) of the model's small grey levels with
#       v > cut  <=>  f(v) > <the cut as the kernel sees it: C int for u16, C float for u32 / f32>
# so that the model's selection, order and coordinates stay the expectation while the kernels see values at the
# far end of each dtype: uint16 with the top bit set, uint32 beyond 2^24 where binary32 cannot tell neighbours
# apart (f(cut + 1) = f_cut + 1 rounds onto f_cut as a float), float32 between the integers, NEGATIVE float32
# images with negative cuts (nothing in the statement makes a cut non-negative for float data), and cuts that
# are not binary32 numbers: 0.1 with pixels at float32(0.1) (equal after the conversion, larger before it) and
# its two successors, the cut for level 1 just BELOW the double value of float32(0.1)+1ulp (still rounds to it);
# a fractional cut for uint32 data (the kernel truncates it: v > k + 0.5 <=> v > k for integers).
VARIANTS = {
    "tosparse_u16": [("", lambda v: v, lambda k: int(k)),
                     ("hi", lambda v: np.where(v > 0, 65533 + v, 0), lambda k: int(65533 + k))],
    "tosparse_u32": [("", lambda v: v, lambda k: float(k)),
                     ("2^24", lambda v: np.where(v > 0, B24 + 2 * v - 1, 0), lambda k: float(B24 + 2 * k)),
                     ("2^31", lambda v: np.where(v > 0, (1 << 31) + 256 * v, 0), lambda k: float((1 << 31) + 256 * k)),
                     ("cut+0.5", lambda v: v, lambda k: float(k) + 0.5)],
    "tosparse_f32": [("", lambda v: v, lambda k: float(k)),
                     ("half", lambda v: np.where(v > 0, v - 0.5, 0), lambda k: float(k)),
                     ("negative", lambda v: np.asarray(v, np.float64) * 0.75 - 2.25, lambda k: 0.75 * k - 2.25),
                     ("0.1", lambda v: np.array(_TEN)[np.asarray(v, np.int64)],
                      lambda k: [0.1, float(T1) - 1e-10, float(T2)][int(k)])],
}
FDC_VARIANTS = {"uint16": "tosparse_u16", "float32": "tosparse_f32"}


_VOK = {}


def _variant_ok(kname, dt, fmap, cmap, nval=3):
    """the map's side condition, evaluated with numpy's own conversions (independent of the module under test)"""
    key = (kname, id(fmap))
    if key not in _VOK:
        _VOK[key] = _variant_ok1(kname, dt, fmap, cmap, nval)
    return _VOK[key]


def _variant_ok1(kname, dt, fmap, cmap, nval):
    lv = np.arange(nval)
    fv = np.asarray(fmap(lv)).astype(dt)
    for k in range(nval):
        cc = cmap(k)
        if kname == "tosparse_u16":
            seen = fv > np.uint16(cc)
        elif kname == "tosparse_u32":
            seen = fv > np.uint32(np.float32(cc))       # real :: cut, then uicut = cut
        else:
            seen = fv > np.float32(cc)
        if list(seen) != list(lv > k):
            return False
    return True


def judge_cut(c, m, light):
    J = Judge()
    ns, nf = c["ns"], c["nf"]
    npx = ns * nf
    img = np.array(c["img"], np.int64).reshape(ns, nf)
    mskb = np.array(c["msk"], np.int64).reshape(ns, nf)
    cut = c["cut"]
    kernels = [("tosparse_u16", np.uint16), ("tosparse_f32", np.float32)] if c["style"] == "nested" else [("tosparse_u32", np.uint32)]
    for kname, dt in kernels:
        for vtag, fmap, cmap in VARIANTS[kname][:1 if light else None]:
            if not _variant_ok(kname, dt, fmap, cmap):
                J.fails.append(("harness", "exception", "value variant %s of %s is not order preserving" % (vtag, kname)))
                continue
            kcut = cmap(cut)
            for mname, mdt, mval in (("uint8", np.uint8, 1), ("bool", bool, 1), ("uint8x255", np.uint8, 255))[:1 if (light or vtag) else 3]:
                msk = (mskb * mval).astype(mdt)
                data = np.asarray(fmap(img)).astype(dt)
                row = np.full((ns, nf), P16, np.uint16)
                col = np.full((ns, nf), P16, np.uint16)
                val = np.full((ns, nf), poison_of(dt), dt)
                route = "cImageD11.%s[msk %s%s]" % (kname, mname, ", values " + vtag if vtag else "")
                if kname == "tosparse_u32":
                    ok, ret = J.call(route, m.c.tosparse_u32, data, msk, row.ravel(), col.ravel(), val.ravel(), kcut)
                else:
                    ok, ret = J.call(route, getattr(m.c, kname), data, msk, row, col, val, kcut)
                if ok:
                    mv = np.array(c["val"], np.int64)
                    ev = np.full(mv.shape, poison_of(dt), dt)
                    ev[mv != -1] = np.asarray(fmap(mv[mv != -1])).astype(dt)
                    J.eq(route, "return", int(ret), c["ret"])
                    J.eq(route, "row", row.ravel(), expect(c["row"], np.uint16))
                    J.eq(route, "col", col.ravel(), expect(c["col"], np.uint16))
                    J.eq(route, "val", val.ravel(), ev)
    # IEEE special values in float32 images (dead pixels after a dark / flat correction give NaN, saturated ones inf): the
    # selection is msk AND (value > cut) in IEEE semantics - NaN is never above a cut, +inf always, -inf never.  The expectation
    # is the definition itself evaluated by numpy on the image the kernel receives (independent of the model's grey levels)
    if c["style"] == "nested" and not light:
        for stag, special in (("nan", {1: np.nan}), ("nan+inf", {1: np.nan, 2: np.inf}), ("-inf", {1: -np.inf}), ("all nan", {0: np.nan, 1: np.nan, 2: np.nan})):
            data = img.astype(np.float32)
            for v, sp in special.items():
                data[img == v] = sp
            for mname, msk in (("uint8", mskb.astype(np.uint8)), ("ones", np.ones((ns, nf), np.uint8))):
                with np.errstate(invalid="ignore"):
                    sel = (msk != 0) & (data > np.float32(cut))
                er, ec = np.nonzero(sel)
                row = np.full((ns, nf), P16, np.uint16)
                col = np.full((ns, nf), P16, np.uint16)
                val = np.full((ns, nf), PF32, np.float32)
                route = "cImageD11.tosparse_f32[msk %s, values %s]" % (mname, stag)
                ok, ret = J.call(route, m.c.tosparse_f32, data, msk, row, col, val, float(cut))
                if ok:
                    n = int(sel.sum())
                    J.eq(route, "return", int(ret), n)
                    J.eq(route, "row", row.ravel()[:n], er.astype(np.uint16))
                    J.eq(route, "col", col.ravel()[:n], ec.astype(np.uint16))
                    J.eq(route, "val (bit pattern)", val.ravel()[:n].view(np.uint32), data[sel].view(np.uint32))
                    J.eq(route, "cells behind the selection untouched", val.ravel()[n:], np.full(ns * nf - n, PF32, np.float32))
                if sel.any() and mname == "uint8":
                    route = "sparseframe.from_data_cut[float32, values %s]" % stag
                    ok, fr = J.call(route, m.sf.from_data_cut, data, float(cut), {}, detectormask=msk)
                    if ok:
                        J.eq(route, "nnz", int(fr.nnz), n)
                        J.eq(route, "row", fr.row, er.astype(np.uint16))
                        J.eq(route, "col", fr.col, ec.astype(np.uint16))
                        J.eq(route, "intensity (bit pattern)", fr.pixels["intensity"].view(np.uint32), data[sel].view(np.uint32))
    if c["frame"] and c["style"] == "nested":
        efr = c["frame"][0]
        allones = all(v != 0 for v in c["msk"])
        for dname, dt in (("uint16", np.uint16), ("float32", np.float32)):
            for vtag, fmap, cmap in VARIANTS[FDC_VARIANTS[dname]][:1 if light else None]:
                data = np.asarray(fmap(img)).astype(dt)
                kcut = cmap(cut)
                calls = [("detectormask=uint8", dict(detectormask=mskb.astype(np.uint8))),
                         ("detectormask=bool", dict(detectormask=mskb.astype(bool)))]
                if allones:
                    calls.append(("detectormask=None", {}))
                if vtag:                    # the variants go through one call form (the others differ in the mask only)
                    calls = calls[-1:]
                vfr = efr
                if vtag:                    # the model frame with the variant's pixel values
                    vfr = dict(efr, px={"intensity": [float(x) for x in np.asarray(fmap(np.array(efr["px"]["intensity"]))).astype(dt)]})
                for icall, (cname, kw) in enumerate(calls[:1] if light else calls):
                    route = "sparseframe.from_data_cut[%s,%s%s]" % (dname, cname, ", values " + vtag if vtag else "")
                    ok, fr = J.call(route, m.sf.from_data_cut, data, kcut, {}, **kw)
                    if not ok:
                        continue
                    frame_eq(J, route, fr, vfr)
                    J.eq(route, "intensity dtype", str(fr.pixels["intensity"].dtype), dname)
                    # the dense image: variant values on the selected pixels, 0 elsewhere
                    sel = np.zeros(npx, bool)
                    sel[np.array(efr["row"], np.int64) * nf + np.array(efr["col"], np.int64)] = True
                    vm = (lambda a, sel=sel, fmap=fmap, dt=dt:
                          np.where(sel, np.asarray(fmap(np.asarray(a, np.int64))).astype(dt).astype(np.float64), 0.0)) if vtag else None
                    dense_checks(J, route, fr, c["dense"], (ns, nf), dense2=c.get("dense2") or None, vmap=vm,
                                 level=2 if (icall == 0 and not vtag) else 1)
                    J.call(route + ".is_sorted", fr.is_sorted)
    return J.fails


def judge_sorted(c, m, light):
    J = Judge()
    i = np.array(c["i"], np.uint16)
    j = np.array(c["j"], np.uint16)
    ok, r = J.call("cImageD11.sparse_is_sorted", m.c.sparse_is_sorted, i, j)
    if ok:
        J.eq("cImageD11.sparse_is_sorted", "return", int(r), c["ret"])
    # sparse_frame.is_sorted asserts the return code is 0
    fr = m.sf.sparse_frame(i.copy(), j.copy(), (int(i.max()) + 1, int(j.max()) + 1))
    try:
        fr.is_sorted()
        raised = False
    except AssertionError:
        raised = True
    J.eq("sparse_frame.is_sorted", "raises AssertionError", raised, c["ret"] != 0)
    return J.fails


def make_frame(m, rec, shape, pxdtypes):
    px = {}
    for nm in rec["names"]:
        px[nm] = np.array(rec["px"][nm], pxdtypes.get(nm, np.float32))
    fr = m.sf.sparse_frame(np.array(rec["row"], np.uint16), np.array(rec["col"], np.uint16), tuple(shape),
                           pixels=px)
    return fr


def judge_sort(c, m, light):
    J = Judge()
    ns, nf = c["ns"], c["nf"]
    efr = c["frame"][0]
    for idt in ((np.float32,) if light else (np.float32, np.uint16)):
        fr = make_frame(m, c["frame0"], (ns, nf), {"intensity": idt, "labels": np.int32})
        if c["how"] == "sort":
            route = "sparse_frame.sort"
            ok, _ = J.call(route, fr.sort)
        else:
            route = "sparse_frame.sort_by"
            ok, _ = J.call(route, fr.sort_by, "labels")
        if not ok:
            continue
        frame_eq(J, route, fr, efr)
        if c["how"] == "sort":
            J.call(route + " -> is_sorted", fr.is_sorted)
        # to_dense(): boolean mask (two arrays); to_dense(<intensity array>) and to_dense("intensity"): values
        # stay attached - the model's second pass paints the test image on the frame's pixels
        dense_checks(J, route, fr, c["dense"], (ns, nf), boolmask=True, dense2=c["dense2"],
                     level=2 if idt == np.float32 else 1)
        ok, d = J.call(route + ".to_dense(name)", fr.to_dense, "intensity")
        if ok:
            J.eq(route + ".to_dense(name)", "dense", np.asarray(d, np.float64),
                 np.array(c["dense2"], np.float64).reshape(ns, nf))
    # reorder() directly with the model's order (the statement sort() is supposed to execute)
    fr = make_frame(m, c["frame0"], (ns, nf), {"intensity": np.float32, "labels": np.int32})
    ok, _ = J.call("sparse_frame.reorder", fr.reorder, np.array(c["order"], np.intp))
    if ok:
        frame_eq(J, "sparse_frame.reorder", fr, efr)
    return J.fails


def judge_thresh(c, m, light):
    J = Judge()
    if not c["frame"]:
        return J.fails          # nothing above threshold: the library raises; outside the quantifier
    ns, nf = c["ns"], c["nf"]
    efr = c["frame"][0]
    name = c.get("name", "intensity")
    two = len(c["frame0"]["names"]) > 1
    for idt in ((np.float32,) if light else (np.float32, np.uint16)):
        # threshold(t) [default name], threshold(t, name=...) and threshold(t, <name>) positionally
        forms = [("(t)", (c["t"],), {})] if name == "intensity" else []
        forms += [("(t, name=%s)" % name, (c["t"],), {"name": name}), ("(t, %s)" % name, (c["t"], name), {})]
        for iform, (ftag, a, kw) in enumerate(forms[:1] if (light or idt != np.float32) else forms):
            fr = make_frame(m, c["frame0"], (ns, nf), {"intensity": idt, "labels": np.int32})
            route = "sparse_frame.threshold[%s]" % ftag
            ok, t = J.call(route, fr.threshold, *a, **kw)
            if ok:
                frame_eq(J, route, t, efr)
                dense_checks(J, route, t, c["dense"], (ns, nf), boolmask=two, dense2=c["dense2"],
                             level=2 if iform == 0 else 1)
                J.call(route + ".is_sorted", t.is_sorted)
                for nm in efr["names"]:     # the new frame owns its arrays (the parent's stay what they were)
                    if nm in t.pixels:
                        J.eq(route, "pixels[%s] dtype" % nm, str(t.pixels[nm].dtype), str(fr.pixels[nm].dtype))
            # the parent frame is untouched
            frame_eq(J, "sparse_frame.threshold (parent unchanged)", fr, c["frame0"])
        fr = make_frame(m, c["frame0"], (ns, nf), {"intensity": idt, "labels": np.int32})
        route = "sparse_frame.mask"
        b = np.array(c["frame0"]["px"][name]) > c["t"]
        ok, t = J.call(route, fr.mask, b)
        if ok:
            frame_eq(J, route, t, efr)
        frame_eq(J, "sparse_frame.mask (parent unchanged)", fr, c["frame0"])
    return J.fails


def judge_cd_arrays(J, route, m, i_in, j_in, nt, e):
    i = np.array(i_in, np.int32)
    j = np.array(j_in, np.int32)
    n = len(i)
    oi = np.full(n, P32I, np.int32)
    oj = np.full(n, P32I, np.int32)
    tmp = np.full(nt, P32I, np.int32)
    ok, ret = J.call(route, m.c.compress_duplicates, i, j, oi, oj, tmp)
    if ok:
        J.eq(route, "return", int(ret), e["ret"])
        J.eq(route, "i", i, expect(e["i"], np.int32))
        J.eq(route, "j", j, expect(e["j"], np.int32))
        J.eq(route, "oi", oi, expect(e["oi"], np.int32))
        J.eq(route, "oj", oj, expect(e["oj"], np.int32))
        J.eq(route, "tmp", tmp, expect(e["tmp"], np.int32))


def judge_cd(c, m, light):
    J = Judge()
    judge_cd_arrays(J, "cImageD11.compress_duplicates", m, c["i"], c["j"], c["nt"], c["cd"])
    return J.fails


def _scan(m, frames, shape, omega):
    """a SparseScan holding the given labelled frames, without a file (the attributes __init__ and
    cplabel/lmlabel would have set)"""
    s = object.__new__(m.sf.SparseScan)
    s.names = ["row", "col", "labels"]
    s.row = np.concatenate([f[0] for f in frames]).astype(np.uint16)
    s.col = np.concatenate([f[1] for f in frames]).astype(np.uint16)
    s.labels = np.concatenate([f[2] for f in frames]).astype(np.int32)
    s.nnz = np.array([len(f[0]) for f in frames])
    s.ipt = m.sf.nnz_to_pointer(s.nnz)
    s.shape = (len(frames),) + tuple(shape)
    s.nlabels = np.array([f[3] for f in frames], np.int32)
    s.motors = {"omega": np.array(omega, float)}
    return s


def judge_pipe(c, m, light):
    J = Judge()
    ns, nf = c["ns"], c["nf"]
    f1, f2 = c["f1"], c["f2"]
    r1, c1, l1 = np.array(f1["row"], np.uint16), np.array(f1["col"], np.uint16), np.array(f1["lab"], np.int32)
    r2, c2, l2 = np.array(f2["row"], np.uint16), np.array(f2["col"], np.uint16), np.array(f2["lab"], np.int32)
    n1, n2 = f1["n"], f2["n"]
    so = c["so"]
    # -- raw sparse_overlaps
    k1 = np.full(len(r1), P32I, np.int32)
    k2 = np.full(len(r2), P32I, np.int32)
    route = "cImageD11.sparse_overlaps"
    ok, npx = J.call(route, m.c.sparse_overlaps, r1, c1, k1, r2, c2, k2)
    if ok:
        J.eq(route, "return", int(npx), so["npx"])
        J.eq(route, "k1", k1, np.array(so["k1"], np.int32))
        J.eq(route, "k2", k2, np.array(so["k2"], np.int32))
    # -- raw compress_duplicates on the gathered labels
    if c["cd"]:
        g = c["cd"][0]
        judge_cd_arrays(J, "cImageD11.compress_duplicates", m, g["in"]["r"], g["in"]["c"], max(n1, n2) + 1, g["out"])
    # -- raw coverlaps
    e = c["mat"]
    mat = np.full((n1, n2), P32I, np.int32)
    results = np.full(len(e["results"]), P32I, np.int32)
    route = "cImageD11.coverlaps"
    ok, nov = J.call(route, m.c.coverlaps, r1, c1, l1, r2, c2, l2, mat, results)
    if ok:
        J.eq(route, "return", int(nov), e["nov"])
        J.eq(route, "mat", mat.ravel(), expect(e["matmem"], np.int32))
        J.eq(route, "results", results, expect(e["results"], np.int32))
    # -- overlaps_linear
    lin = c["lin"]
    erc = np.array(lin["rcl"], np.int32).reshape(-1, 3)
    route = "sparseframe.overlaps_linear"
    ol = m.sf.overlaps_linear(nnzmax=c["nnzmax0"])
    ok, ans = J.call(route, _quiet, ol, r1, c1, l1, n1, r2, c2, l2, n2)
    if ok:
        lin_eq(J, route, ans, lin, erc)
        ok, ans = J.call(route + " (second call, same object)", _quiet, ol, r1, c1, l1, n1, r2, c2, l2, n2)
        if ok:
            lin_eq(J, route + " (second call, same object)", ans, lin, erc)
    # -- overlaps_matrix
    route = "sparseframe.overlaps_matrix"
    om = m.sf.overlaps_matrix(npkmax=c["npkmax0"])
    ok, ans = J.call(route, _quiet, om, r1, c1, l1, n1, r2, c2, l2, n2)
    if ok:
        J.eq(route, "nov", int(ans[0]), e["nov"])
        J.eq(route, "result", np.asarray(ans[1]), np.array(e["res"], np.int32).reshape(-1, 3))
        # linear = matrix as sets (the property's last clause), directly on the two real answers
        if lin["none"]:
            J.eq("linear = matrix", "matrix pairs when linear reports none", int(ans[0]), 0)
    # -- overlaps()
    route = "sparseframe.overlaps"
    fa = m.sf.sparse_frame(r1, c1, (ns, nf), pixels={"lab": l1})
    fa.meta["lab"] = {"nlabel": n1}
    fb = m.sf.sparse_frame(r2, c2, (ns, nf), pixels={"lab": l2})
    fb.meta["lab"] = {"nlabel": n2}
    ok, mtx = J.call(route, m.sf.overlaps, fa, "lab", fb, "lab")
    if ok and c["ovl"]["ok"]:
        J.eq(route, "shape", tuple(mtx.shape), (n1, n2))
        J.eq(route, "matrix", np.asarray(mtx.todense()).ravel(), np.array(c["ovl"]["dense"]))
    # -- consumers: sinograms.properties.pairrow / pairscans
    if m.props is not None and not light:
        route = "sinograms.properties.pairrow"
        s = _scan(m, [(r1, c1, l1, n1), (r2, c2, l2, n2)], (ns, nf), [0.0, 1.0])
        ok, pairs = J.call(route, _quiet, m.props.pairrow, s, 7)
        if ok:
            J.eq(route, "keys", sorted(pairs.keys()), [(7, 0, 7, 1)])
            if (7, 0, 7, 1) in pairs:
                lin_eq(J, route, pairs[(7, 0, 7, 1)], lin, erc)
        route = "sinograms.properties.pairscans"
        sa = _scan(m, [(r1, c1, l1, n1)], (ns, nf), [10.0])
        sb = _scan(m, [(r2, c2, l2, n2)], (ns, nf), [370.0])
        sa.sinorow, sb.sinorow = 3, 4
        ok, pairs = J.call(route, _quiet, m.props.pairscans, sa, sb)
        if ok:
            J.eq(route, "keys", sorted(pairs.keys()), [(3, 0, 4, 0)])
            if (3, 0, 4, 0) in pairs:
                lin_eq(J, route, pairs[(3, 0, 4, 0)], lin, erc)
    return J.fails


def _arrs(f):
    return (np.array(f["row"], np.uint16), np.array(f["col"], np.uint16), np.array(f["lab"], np.int32), f["n"])


def _h(case, salt):
    """small deterministic number from the content of a case (replays of a saved case take the same choices)"""
    import zlib
    return zlib.crc32((json.dumps(case, sort_keys=True) + salt).encode())


def judge_hist(c, m, light):
    """program "hist" of SparseOverlaps.tla: ONE overlaps_linear and ONE overlaps_matrix object are driven
    through the calls of the history (different frame pairs, growing and shrinking); every call is judged
    by its own expectation.  The same history is then handed to the consumers, which keep one
    overlaps_linear object for a whole scan: pairrow (chained histories = consecutive frames of a scan in
    omega order; frames stored in another order, one empty frame) and pairscans (any history = the pairs
    (frame i of scan 1, its omega neighbour in scan 2); modulo-360 matches, a frame without neighbour,
    empty frames on both sides)."""
    J = Judge()
    calls = c["calls"]
    ol = m.sf.overlaps_linear(nnzmax=c["nnzmax0"])
    om = m.sf.overlaps_matrix(npkmax=c["npkmax0"])
    nnzmax, npkmax = c["nnzmax0"], c["npkmax0"]
    for k, call in enumerate(calls):
        a1, a2 = _arrs(call["f1"]), _arrs(call["f2"])
        erc = np.array(call["lin"]["rcl"], np.int32).reshape(-1, 3)
        # checkmem=False is allowed when the caller knows that nothing has to grow (the model's nnzmax stays)
        kw = {}
        if call["nnzmax"] == nnzmax and call["npkmax"] == npkmax and (_h(call, "cm") + k) % 3 == 0:
            kw = {"checkmem": False}
        nnzmax, npkmax = call["nnzmax"], call["npkmax"]
        route = "sparseframe.overlaps_linear (history, call %d of one object%s)" % (k + 1, ", checkmem=False" if kw else "")
        ok, ans = J.call(route, _quiet, ol, *(a1 + a2), **kw)
        if ok:
            lin_eq(J, route, ans, call["lin"], erc)
        route = "sparseframe.overlaps_matrix (history, call %d of one object%s)" % (k + 1, ", checkmem=False" if kw else "")
        ok, ans = J.call(route, _quiet, om, *(a1 + a2), **kw)
        if ok:      # the answer is a view of the object's result buffer: judged before the next call
            J.eq(route, "nov", int(ans[0]), call["mat"]["nov"])
            J.eq(route, "result", np.asarray(ans[1]), np.array(call["mat"]["res"], np.int32).reshape(-1, 3))
    if m.props is None or light:
        return J.fails
    if c["chain"]:
        # ---- pairrow: frames G0 .. Gn in omega order (Gk-1, Gk = the frames of call k), one empty frame at a
        # position of the omega order taken from the case, stored in a permuted order
        shape = (calls[0]["ns"], calls[0]["nf"])
        chain = [calls[0]["f1"]] + [cl["f2"] for cl in calls]
        pos = _h(c, "empty") % (len(chain) + 1)              # the empty frame comes before chain[pos]
        order = list(range(len(chain)))                      # omega order: entries = chain index, -1 = empty
        order.insert(pos, -1)
        nfr = len(order)
        perm = np.random.RandomState(_h(c, "perm") % (1 << 31)).permutation(nfr)   # storage slot of omega rank r
        if nfr > 2 and list(perm) == sorted(perm):
            perm = perm[::-1].copy()
        frames, omega = [None] * nfr, [0.0] * nfr
        empty = (np.zeros(0, np.uint16), np.zeros(0, np.uint16), np.zeros(0, np.int32), 0)
        for rank, ci in enumerate(order):
            frames[perm[rank]] = empty if ci < 0 else _arrs(chain[ci])
            omega[perm[rank]] = -7.5 + 0.25 * rank           # distinct, increasing with the rank, some negative
        exp = {}
        for rank in range(1, nfr):
            a, b = order[rank - 1], order[rank]
            if a >= 0 and b >= 0:                            # b = a + 1: call number b
                exp[(5, int(perm[rank - 1]), 5, int(perm[rank]))] = calls[b - 1]
        route = "sinograms.properties.pairrow (scan of %d frames, unsorted omega, one empty frame)" % nfr
        s = _scan(m, frames, shape, omega)
        ok, pairs = J.call(route, _quiet, m.props.pairrow, s, 5)
        if ok:
            J.eq(route, "keys", sorted(tuple(int(x) for x in kk) for kk in pairs.keys()), sorted(exp.keys()))
            for kk, call in sorted(exp.items()):
                if kk in pairs:
                    lin_eq(J, route, pairs[kk], call["lin"], np.array(call["lin"]["rcl"], np.int32).reshape(-1, 3))
    else:
        # ---- pairscans: frame i of scan 1 = first frame of call i, its omega neighbour in scan 2 = second frame
        shapes = set((cl["ns"], cl["nf"]) for cl in calls)
        if len(shapes) == 1:            # one scan has one image shape
            shape = shapes.pop()
            n = len(calls)
            nfr = n + 3
            one = _arrs(calls[0]["f1"])
            two = _arrs(calls[0]["f2"])
            empty = (np.zeros(0, np.uint16), np.zeros(0, np.uint16), np.zeros(0, np.int32), 0)
            perm = np.random.RandomState(_h(c, "perm2") % (1 << 31)).permutation(nfr)
            f1s, o1 = [], []
            f2s, o2 = [None] * nfr, [0.0] * nfr
            exp = {}
            for i, cl in enumerate(calls):
                w = 10.0 * i + 1.0
                f1s.append(_arrs(cl["f1"]))
                o1.append(w + (720.0 if i % 3 == 2 else 0.0))                # modulo 360 on the side of scan 1
                j = int(perm[i])
                f2s[j] = _arrs(cl["f2"])
                o2[j] = w + (360.0 if i % 2 else 0.0) + (0.03 if i % 4 == 1 else 0.0)   # modulo 360, inside tol
                exp[(3, i, 4, j)] = cl
            # n: empty frame in scan 1, its partner holds pixels;  n+1: no neighbour within omegatol (0.3 away);
            # n+2: frame with pixels whose partner in scan 2 is empty
            f1s += [empty, one, one]
            o1 += [10.0 * n + 1.0, 10.0 * n + 11.3, 10.0 * n + 21.0]
            for i, (fr, w) in enumerate([(two, 10.0 * n + 1.0), (two, 10.0 * n + 11.0), (empty, 10.0 * n + 21.0)]):
                f2s[int(perm[n + i])] = fr
                o2[int(perm[n + i])] = w
            route = "sinograms.properties.pairscans (two scans of %d frames)" % nfr
            sa = _scan(m, f1s, shape, o1)
            sb = _scan(m, f2s, shape, o2)
            sa.sinorow, sb.sinorow = 3, 4
            ok, pairs = J.call(route, _quiet, m.props.pairscans, sa, sb)
            if ok:
                J.eq(route, "keys", sorted(tuple(int(x) for x in kk) for kk in pairs.keys()), sorted(exp.keys()))
                for kk, call in sorted(exp.items()):
                    if kk in pairs:
                        lin_eq(J, route, pairs[kk], call["lin"], np.array(call["lin"]["rcl"], np.int32).reshape(-1, 3))
    return J.fails


def lin_eq(J, route, ans, lin, erc):
    J.eq(route, "nedge", int(ans[0]), lin["nedge"])
    if lin["none"]:
        J.eq(route, "second item is None", ans[1] is None, True)
    elif ans[1] is None:
        J.eq(route, "second item is None", True, False)
    else:
        J.eq(route, "rcl", np.asarray(ans[1]), erc)


def _quiet(fn, *a, **k):
    """the caching objects print "realloc" on stdout"""
    import io, contextlib
    with contextlib.redirect_stdout(io.StringIO()):
        return fn(*a, **k)


JUDGES = {"m2c": judge_m2c, "cut": judge_cut, "sorted": judge_sorted, "sort": judge_sort,
          "thresh": judge_thresh, "cd": judge_cd, "pipe": judge_pipe, "hist": judge_hist}


def judge(case, mods, light=False):
    try:
        return JUDGES[case["prog"]](case, mods, light)
    except Exception as e:      # noqa - harness level surprise: reported as a failure of the case, with its type
        import traceback
        return [("harness", "exception", "unexpected %r\n%s" % (e, traceback.format_exc()[-1500:]))]


def case_key(case):
    return json.dumps(case, sort_keys=True)


def nontrivial(case):
    p = case["prog"]
    if p == "m2c":
        return case["ret"] == 0 and case["frame"] and case["frame"][0]["nnz"] >= 2
    if p == "cut":
        return bool(case["frame"]) and 0 < case["ret"] < case["ns"] * case["nf"]
    if p == "sorted":
        return case["nnz"] >= 2
    if p == "sort":
        return case["frame0"]["row"] != case["frame"][0]["row"] or case["frame0"]["col"] != case["frame"][0]["col"]
    if p == "thresh":
        return bool(case["frame"]) and case["frame"][0]["nnz"] < case["frame0"]["nnz"]
    if p == "cd":
        return case["cd"]["ret"] < case["n"]
    if p == "hist":       # at least two different frame pairs, one of them with shared pixels
        return len(set(json.dumps([cl["f1"], cl["f2"]], sort_keys=True) for cl in case["calls"])) >= 2 and \
            any(cl["lin"]["nedge"] > 0 for cl in case["calls"])
    if p == "pipe":
        return case["so"]["npx"] >= 1 and (case["so"]["npx"] < case["f1"]["nnz"] or case["so"]["npx"] < case["f2"]["nnz"])
    return True


def main():
    """child process:  c14_replay.py cases.jsonl out.json light|full
    lines are TLC cases (judged here) or seeded recipes (prog = "big": executed here, the logged event goes back
    to the parent, which lets TLC judge it).  Progress is written to out.json.cur so that a crash of the
    implementation (signal, sanitizer abort) can be attributed to a case."""
    import c14_big
    cases_path, out_path, mode = sys.argv[1], sys.argv[2], sys.argv[3]
    light = mode == "light"
    os.environ.setdefault("OMP_WAIT_POLICY", "passive")
    mods = load_mods(consumer=not light)
    mods.c.cimaged11_omp_set_num_threads(1)
    out = {"n": 0, "problems": [], "events": [], "consumer": mods.props is not None}
    with open(cases_path) as f:
        for idx, line in enumerate(f):
            case = json.loads(line)
            out["n"] += 1
            if idx % 25 == 0 or case.get("prog") == "big":
                with open(out_path + ".cur", "w") as g:
                    g.write(str(idx))
            if case.get("prog") == "big":
                if case.get("kind") == "range":
                    p = c14_big.range_checks(mods)
                elif case.get("kind") == "hist":
                    evs, p = c14_big.exec_hist(case, mods)
                    out["events"].extend(evs)
                else:
                    ev, p = (c14_big.exec_coo if case["kind"] == "coo" else c14_big.exec_ovl)(case, mods)
                    if ev is not None:
                        out["events"].append(ev)
            else:
                p = judge(case, mods, light=light)
            if p:
                out["problems"].append({"idx": idx, "problems": [list(x) for x in p]})
    with open(out_path + ".cur", "w") as g:
        g.write(str(out["n"]))
    out["counts"] = dict(COUNTS)
    with open(out_path, "w") as g:
        json.dump(out, g)


if __name__ == "__main__":
    main()

"""C14 - replay of the cases emitted by specs/SparseCoo.tla and specs/SparseOverlaps.tla into the real code.

judge(case, mods, light=False) -> list of (route, kind, message); empty list = the implementation agrees with the
model on every array element, return code and Python-level result of the case.

Poison: the model marks cells that the kernel must not write with -1.  The harness pre-fills every output buffer
with a recognisable pattern (0xFFFF / 0xFFFFFFFF / -1 / -12345.0) and requires exactly that pattern where the
model says -1.

Run as a script (sanitizer build, see props/c14.py):  c14_replay.py cases.jsonl out.json
"""
import sys, os, json
import numpy as np

P16 = 0xFFFF
P32U = 0xFFFFFFFF
P32I = -1
PF32 = -12345.0


class Mods(object):
    pass


def load_mods(consumer=True):
    m = Mods()
    from ImageD11 import cImageD11, sparseframe
    m.c = cImageD11
    m.sf = sparseframe
    m.props = None
    if consumer:
        try:
            import ImageD11.sinograms.properties as props
            m.props = props
        except Exception as e:      # noqa  (reported once by the caller as a note, not as a verdict)
            m.props_error = repr(e)
    return m


def poison_of(dtype):
    dtype = np.dtype(dtype)
    if dtype == np.uint16:
        return P16
    if dtype == np.uint32:
        return P32U
    if dtype == np.int32:
        return P32I
    if dtype == np.float32:
        return PF32
    raise TypeError(dtype)


def expect(lst, dtype):
    """model list -> numpy array, -1 -> poison"""
    p = poison_of(dtype)
    return np.array([p if v == -1 else v for v in lst], dtype=dtype)


class Judge(object):
    def __init__(self):
        self.fails = []

    def eq(self, route, name, got, exp):
        if isinstance(exp, np.ndarray) or isinstance(got, np.ndarray):
            got = np.asarray(got)
            exp = np.asarray(exp)
            if got.shape != exp.shape or not np.array_equal(got, exp):
                self.fails.append((route, "mismatch", "%s: %s = %s, model says %s" % (
                    route, name, _short(got), _short(exp))))
                return False
            return True
        if got != exp:
            self.fails.append((route, "mismatch", "%s: %s = %r, model says %r" % (route, name, got, exp)))
            return False
        return True

    def call(self, route, fn, *a, **k):
        """call into the implementation; an exception is a failure of that route"""
        try:
            return True, fn(*a, **k)
        except Exception as e:      # noqa
            self.fails.append((route, type(e).__name__, "%s raised %s: %s" % (route, type(e).__name__, e)))
            return False, None


def _short(a):
    a = np.asarray(a)
    s = np.array2string(a.ravel()[:24], separator=",", max_line_width=200)
    return "%s%s" % (s, "" if a.size <= 24 else "...(%d)" % a.size)


def with_threads(m, n, fn):
    old = m.c.cimaged11_omp_get_max_threads()
    try:
        m.c.cimaged11_omp_set_num_threads(n)
        return fn()
    finally:
        m.c.cimaged11_omp_set_num_threads(old)


# ------------------------------------------------------------------------------------------------
def frame_eq(J, route, fr, exp, pxdtypes=None):
    """fr = real sparse_frame, exp = model frame record"""
    ok = J.eq(route, "shape", tuple(int(x) for x in fr.shape), tuple(exp["shape"]))
    ok &= J.eq(route, "nnz", int(fr.nnz), exp["nnz"])
    ok &= J.eq(route, "row", fr.row, np.array(exp["row"], np.uint16))
    ok &= J.eq(route, "col", fr.col, np.array(exp["col"], np.uint16))
    ok &= J.eq(route, "pixel names", sorted(fr.pixels.keys()), sorted(exp["names"]))
    for nm in exp["names"]:
        if nm in fr.pixels:
            ok &= J.eq(route, "pixels[%s]" % nm, np.asarray(fr.pixels[nm], np.float64),
                       np.array(exp["px"][nm], np.float64))
    return ok


def dense_checks(J, route, fr, dense, shape, named=None, boolmask=False):
    exp = np.array(dense, np.float64).reshape(shape)
    if named is not None:
        ok, d = J.call(route + ".to_dense(name)", fr.to_dense, named)
        if ok:
            J.eq(route + ".to_dense(name)", "dense", np.asarray(d, np.float64), exp)
    ok, d = J.call(route + ".to_dense()", fr.to_dense)
    if ok:
        J.eq(route + ".to_dense()", "dense", np.asarray(d, np.float64), exp)
        if boolmask:
            J.eq(route + ".to_dense()", "dtype", str(np.asarray(d).dtype), "bool")
    # caller supplied output array
    if not boolmask:
        nm = named if named is not None else list(fr.pixels.keys())[0]
        out = np.zeros(shape, fr.pixels[nm].dtype)
        ok, d = J.call(route + ".to_dense(out=)", fr.to_dense, nm, out)
        if ok:
            J.eq(route + ".to_dense(out=)", "dense", np.asarray(out, np.float64), exp)


def judge_m2c(c, m, light):
    J = Judge()
    ns, nf, nnz = c["ns"], c["nf"], c["nnz"]
    base = np.array(c["msk"], np.int64).reshape(ns, nf)
    # "any mask": signed and unsigned, true values with and without the top bit (255 / 128 are what image masks hold)
    variants = [("int8", np.int8, 1), ("bool", bool, 1), ("uint8x2", np.uint8, 2), ("int8x127", np.int8, 127),
                ("uint8x255", np.uint8, 255), ("uint8x128", np.uint8, 128)]     # (negative masks are outside the domain:
    # from_data_mask counts mask > 0 while the kernel tests != 0)
    for vname, dt, val in (variants[:1] if light else variants):
        msk = (base * val).astype(dt)
        # the two omp loops: 2 and 4 threads on the first variant (any row order must give the same arrays)
        for nthr in ((1,) if (light or vname != "int8") else (1, 2, 4)):
            i = np.full(nnz, P16, np.uint16)
            j = np.full(nnz, P16, np.uint16)
            w = np.full(ns, P32I, np.int32)
            route = "cImageD11.mask_to_coo[%s,threads=%d]" % (vname, nthr)
            ok, ret = J.call(route, with_threads, m, nthr, lambda: m.c.mask_to_coo(msk, i, j, w))
            if ok:
                J.eq(route, "return", int(ret), c["ret"])
                J.eq(route, "i", i, expect(c["i"], np.uint16))
                J.eq(route, "j", j, expect(c["j"], np.uint16))
                J.eq(route, "w", w, expect(c["w"], np.int32))
        if not c["frame"]:
            continue
        efr = c["frame"][0]
        for dname, ddt in (("uint16", np.uint16),) if light else (("uint16", np.uint16), ("uint32", np.uint32),
                                                                   ("float32", np.float32)):
            data = np.array([10 * (p // nf + 1) + (p % nf) + 1 for p in range(ns * nf)], ddt).reshape(ns, nf)
            route = "sparseframe.from_data_mask[%s,%s]" % (vname, dname)
            ok, fr = J.call(route, m.sf.from_data_mask, msk, data, {"a": 1})
            if not ok:
                continue
            frame_eq(J, route, fr, efr)
            J.eq(route, "intensity dtype", str(fr.pixels["intensity"].dtype), dname)
            dense_checks(J, route, fr, c["dense"], (ns, nf), named="intensity")
            J.call(route + ".is_sorted", fr.is_sorted)
            ok, r = J.call("cImageD11.sparse_is_sorted", m.c.sparse_is_sorted, fr.row, fr.col)
            if ok:
                J.eq("cImageD11.sparse_is_sorted", "return on a frame from a mask", int(r), 0)
    return J.fails


def judge_cut(c, m, light):
    J = Judge()
    ns, nf = c["ns"], c["nf"]
    npx = ns * nf
    img = np.array(c["img"], np.int64).reshape(ns, nf)
    mskb = np.array(c["msk"], np.int64).reshape(ns, nf)
    cut = c["cut"]
    # value variants: order-preserving maps of the model's small grey levels (v > cut  <=>  f(v) > f_cut), so the
    # model's selection, order and coordinates stay the expectation while the kernels see values at the far end of
    # each dtype: uint16 with the top bit set, uint32 beyond 2^24 where binary32 cannot tell neighbours apart
    # (f(cut + 1) = f_cut + 1 rounds onto f_cut as a float), float32 between the integers
    B24 = 1 << 24
    VARIANTS = {
        "tosparse_u16": [("", lambda v: v, lambda k: int(k)),
                         ("hi", lambda v: np.where(v > 0, 65533 + v, 0), lambda k: int(65533 + k))],
        "tosparse_u32": [("", lambda v: v, lambda k: float(k)),
                         ("2^24", lambda v: np.where(v > 0, B24 + 2 * v - 1, 0), lambda k: float(B24 + 2 * k)),
                         ("2^31", lambda v: np.where(v > 0, (1 << 31) + 256 * v, 0), lambda k: float((1 << 31) + 256 * k))],
        "tosparse_f32": [("", lambda v: v, lambda k: float(k)),
                         ("half", lambda v: np.where(v > 0, v - 0.5, 0), lambda k: float(k))],
    }
    kernels = [("tosparse_u16", np.uint16), ("tosparse_f32", np.float32)] if c["style"] == "nested" else [("tosparse_u32", np.uint32)]
    for kname, dt in kernels:
        for vtag, fmap, cmap in VARIANTS[kname][:1 if light else None]:
            kcut = cmap(cut)
            for mname, mdt, mval in (("uint8", np.uint8, 1), ("bool", bool, 1), ("uint8x255", np.uint8, 255))[:1 if (light or vtag) else 3]:
                msk = (mskb * mval).astype(mdt)
                data = fmap(img).astype(dt)
                row = np.full((ns, nf), P16, np.uint16)
                col = np.full((ns, nf), P16, np.uint16)
                val = np.full((ns, nf), poison_of(dt), dt)
                route = "cImageD11.%s[msk %s%s]" % (kname, mname, ", values " + vtag if vtag else "")
                if kname == "tosparse_u32":
                    ok, ret = J.call(route, m.c.tosparse_u32, data, msk, row.ravel(), col.ravel(), val.ravel(), kcut)
                else:
                    ok, ret = J.call(route, getattr(m.c, kname), data, msk, row, col, val, kcut)
                if ok:
                    mv = np.array(c["val"], np.int64)
                    ev = np.full(mv.shape, poison_of(dt), dt)
                    ev[mv != -1] = np.asarray(fmap(mv[mv != -1])).astype(dt)
                    J.eq(route, "return", int(ret), c["ret"])
                    J.eq(route, "row", row.ravel(), expect(c["row"], np.uint16))
                    J.eq(route, "col", col.ravel(), expect(c["col"], np.uint16))
                    J.eq(route, "val", val.ravel(), ev)
    if c["frame"] and c["style"] == "nested":
        efr = c["frame"][0]
        allones = all(v != 0 for v in c["msk"])
        for dname, dt, kcut in (("uint16", np.uint16, int(cut)), ("float32", np.float32, float(cut))):
            data = img.astype(dt)
            calls = [("detectormask=uint8", dict(detectormask=mskb.astype(np.uint8))),
                     ("detectormask=bool", dict(detectormask=mskb.astype(bool)))]
            if allones:
                calls.append(("detectormask=None", {}))
            for cname, kw in calls[:1] if light else calls:
                route = "sparseframe.from_data_cut[%s,%s]" % (dname, cname)
                ok, fr = J.call(route, m.sf.from_data_cut, data, kcut, {}, **kw)
                if not ok:
                    continue
                frame_eq(J, route, fr, efr)
                J.eq(route, "intensity dtype", str(fr.pixels["intensity"].dtype), dname)
                dense_checks(J, route, fr, c["dense"], (ns, nf))
                J.call(route + ".is_sorted", fr.is_sorted)
    return J.fails


def judge_sorted(c, m, light):
    J = Judge()
    i = np.array(c["i"], np.uint16)
    j = np.array(c["j"], np.uint16)
    ok, r = J.call("cImageD11.sparse_is_sorted", m.c.sparse_is_sorted, i, j)
    if ok:
        J.eq("cImageD11.sparse_is_sorted", "return", int(r), c["ret"])
    # sparse_frame.is_sorted asserts the return code is 0
    fr = m.sf.sparse_frame(i.copy(), j.copy(), (int(i.max()) + 1, int(j.max()) + 1))
    try:
        fr.is_sorted()
        raised = False
    except AssertionError:
        raised = True
    J.eq("sparse_frame.is_sorted", "raises AssertionError", raised, c["ret"] != 0)
    return J.fails


def make_frame(m, rec, shape, pxdtypes):
    px = {}
    for nm in rec["names"]:
        px[nm] = np.array(rec["px"][nm], pxdtypes.get(nm, np.float32))
    fr = m.sf.sparse_frame(np.array(rec["row"], np.uint16), np.array(rec["col"], np.uint16), tuple(shape),
                           pixels=px)
    return fr


def judge_sort(c, m, light):
    J = Judge()
    ns, nf = c["ns"], c["nf"]
    efr = c["frame"][0]
    for idt in ((np.float32,) if light else (np.float32, np.uint16)):
        fr = make_frame(m, c["frame0"], (ns, nf), {"intensity": idt, "labels": np.int32})
        if c["how"] == "sort":
            route = "sparse_frame.sort"
            ok, _ = J.call(route, fr.sort)
        else:
            route = "sparse_frame.sort_by"
            ok, _ = J.call(route, fr.sort_by, "labels")
        if not ok:
            continue
        frame_eq(J, route, fr, efr)
        if c["how"] == "sort":
            J.call(route + " -> is_sorted", fr.is_sorted)
        dense_checks(J, route, fr, c["dense"], (ns, nf), boolmask=True)
        ok, d = J.call(route + ".to_dense(intensity)", fr.to_dense, "intensity")
        if ok:      # values stay attached: dense image of the sorted frame = the test image on the frame's pixels
            exp = np.zeros((ns, nf))
            for r, cc, v in zip(c["frame0"]["row"], c["frame0"]["col"], c["frame0"]["px"]["intensity"]):
                exp[r, cc] = v
            J.eq(route + ".to_dense(intensity)", "dense", np.asarray(d, np.float64), exp)
    # reorder() directly with the model's order (the statement sort() is supposed to execute)
    fr = make_frame(m, c["frame0"], (ns, nf), {"intensity": np.float32, "labels": np.int32})
    ok, _ = J.call("sparse_frame.reorder", fr.reorder, np.array(c["order"], np.intp))
    if ok:
        frame_eq(J, "sparse_frame.reorder", fr, efr)
    return J.fails


def judge_thresh(c, m, light):
    J = Judge()
    if not c["frame"]:
        return J.fails          # nothing above threshold: the library raises; outside the quantifier
    ns, nf = c["ns"], c["nf"]
    efr = c["frame"][0]
    for idt in ((np.float32,) if light else (np.float32, np.uint16)):
        fr = make_frame(m, c["frame0"], (ns, nf), {"intensity": idt})
        route = "sparse_frame.threshold"
        ok, t = J.call(route, fr.threshold, c["t"])
        if ok:
            frame_eq(J, route, t, efr)
            dense_checks(J, route, t, c["dense"], (ns, nf))
            J.call(route + ".is_sorted", t.is_sorted)
        route = "sparse_frame.mask"
        b = np.array(c["frame0"]["px"]["intensity"]) > c["t"]
        ok, t = J.call(route, fr.mask, b)
        if ok:
            frame_eq(J, route, t, efr)
        # the parent frame is untouched
        frame_eq(J, "sparse_frame.threshold (parent unchanged)", fr, c["frame0"])
    return J.fails


def judge_cd_arrays(J, route, m, i_in, j_in, nt, e):
    i = np.array(i_in, np.int32)
    j = np.array(j_in, np.int32)
    n = len(i)
    oi = np.full(n, P32I, np.int32)
    oj = np.full(n, P32I, np.int32)
    tmp = np.full(nt, P32I, np.int32)
    ok, ret = J.call(route, m.c.compress_duplicates, i, j, oi, oj, tmp)
    if ok:
        J.eq(route, "return", int(ret), e["ret"])
        J.eq(route, "i", i, expect(e["i"], np.int32))
        J.eq(route, "j", j, expect(e["j"], np.int32))
        J.eq(route, "oi", oi, expect(e["oi"], np.int32))
        J.eq(route, "oj", oj, expect(e["oj"], np.int32))
        J.eq(route, "tmp", tmp, expect(e["tmp"], np.int32))


def judge_cd(c, m, light):
    J = Judge()
    judge_cd_arrays(J, "cImageD11.compress_duplicates", m, c["i"], c["j"], c["nt"], c["cd"])
    return J.fails


def _scan(m, frames, shape, omega):
    """a SparseScan holding the given labelled frames, without a file (the attributes __init__ and
    cplabel/lmlabel would have set)"""
    s = object.__new__(m.sf.SparseScan)
    s.names = ["row", "col", "labels"]
    s.row = np.concatenate([f[0] for f in frames]).astype(np.uint16)
    s.col = np.concatenate([f[1] for f in frames]).astype(np.uint16)
    s.labels = np.concatenate([f[2] for f in frames]).astype(np.int32)
    s.nnz = np.array([len(f[0]) for f in frames])
    s.ipt = m.sf.nnz_to_pointer(s.nnz)
    s.shape = (len(frames),) + tuple(shape)
    s.nlabels = np.array([f[3] for f in frames], np.int32)
    s.motors = {"omega": np.array(omega, float)}
    return s


def judge_pipe(c, m, light):
    J = Judge()
    ns, nf = c["ns"], c["nf"]
    f1, f2 = c["f1"], c["f2"]
    r1, c1, l1 = np.array(f1["row"], np.uint16), np.array(f1["col"], np.uint16), np.array(f1["lab"], np.int32)
    r2, c2, l2 = np.array(f2["row"], np.uint16), np.array(f2["col"], np.uint16), np.array(f2["lab"], np.int32)
    n1, n2 = f1["n"], f2["n"]
    so = c["so"]
    # -- raw sparse_overlaps
    k1 = np.full(len(r1), P32I, np.int32)
    k2 = np.full(len(r2), P32I, np.int32)
    route = "cImageD11.sparse_overlaps"
    ok, npx = J.call(route, m.c.sparse_overlaps, r1, c1, k1, r2, c2, k2)
    if ok:
        J.eq(route, "return", int(npx), so["npx"])
        J.eq(route, "k1", k1, np.array(so["k1"], np.int32))
        J.eq(route, "k2", k2, np.array(so["k2"], np.int32))
    # -- raw compress_duplicates on the gathered labels
    if c["cd"]:
        g = c["cd"][0]
        judge_cd_arrays(J, "cImageD11.compress_duplicates", m, g["in"]["r"], g["in"]["c"], max(n1, n2) + 1, g["out"])
    # -- raw coverlaps
    e = c["mat"]
    mat = np.full((n1, n2), P32I, np.int32)
    results = np.full(len(e["results"]), P32I, np.int32)
    route = "cImageD11.coverlaps"
    ok, nov = J.call(route, m.c.coverlaps, r1, c1, l1, r2, c2, l2, mat, results)
    if ok:
        J.eq(route, "return", int(nov), e["nov"])
        J.eq(route, "mat", mat.ravel(), expect(e["matmem"], np.int32))
        J.eq(route, "results", results, expect(e["results"], np.int32))
    # -- overlaps_linear
    lin = c["lin"]
    erc = np.array(lin["rcl"], np.int32).reshape(-1, 3)
    route = "sparseframe.overlaps_linear"
    ol = m.sf.overlaps_linear(nnzmax=c["nnzmax0"])
    ok, ans = J.call(route, _quiet, ol, r1, c1, l1, n1, r2, c2, l2, n2)
    if ok:
        lin_eq(J, route, ans, lin, erc)
        ok, ans = J.call(route + " (second call, same object)", _quiet, ol, r1, c1, l1, n1, r2, c2, l2, n2)
        if ok:
            lin_eq(J, route + " (second call, same object)", ans, lin, erc)
    # -- overlaps_matrix
    route = "sparseframe.overlaps_matrix"
    om = m.sf.overlaps_matrix(npkmax=c["npkmax0"])
    ok, ans = J.call(route, _quiet, om, r1, c1, l1, n1, r2, c2, l2, n2)
    if ok:
        J.eq(route, "nov", int(ans[0]), e["nov"])
        J.eq(route, "result", np.asarray(ans[1]), np.array(e["res"], np.int32).reshape(-1, 3))
        # linear = matrix as sets (the property's last clause), directly on the two real answers
        if lin["none"]:
            J.eq("linear = matrix", "matrix pairs when linear reports none", int(ans[0]), 0)
    # -- overlaps()
    route = "sparseframe.overlaps"
    fa = m.sf.sparse_frame(r1, c1, (ns, nf), pixels={"lab": l1})
    fa.meta["lab"] = {"nlabel": n1}
    fb = m.sf.sparse_frame(r2, c2, (ns, nf), pixels={"lab": l2})
    fb.meta["lab"] = {"nlabel": n2}
    ok, mtx = J.call(route, m.sf.overlaps, fa, "lab", fb, "lab")
    if ok and c["ovl"]["ok"]:
        J.eq(route, "shape", tuple(mtx.shape), (n1, n2))
        J.eq(route, "matrix", np.asarray(mtx.todense()).ravel(), np.array(c["ovl"]["dense"]))
    # -- consumers: sinograms.properties.pairrow / pairscans
    if m.props is not None and not light:
        route = "sinograms.properties.pairrow"
        s = _scan(m, [(r1, c1, l1, n1), (r2, c2, l2, n2)], (ns, nf), [0.0, 1.0])
        ok, pairs = J.call(route, _quiet, m.props.pairrow, s, 7)
        if ok:
            J.eq(route, "keys", sorted(pairs.keys()), [(7, 0, 7, 1)])
            if (7, 0, 7, 1) in pairs:
                lin_eq(J, route, pairs[(7, 0, 7, 1)], lin, erc)
        route = "sinograms.properties.pairscans"
        sa = _scan(m, [(r1, c1, l1, n1)], (ns, nf), [10.0])
        sb = _scan(m, [(r2, c2, l2, n2)], (ns, nf), [370.0])
        sa.sinorow, sb.sinorow = 3, 4
        ok, pairs = J.call(route, _quiet, m.props.pairscans, sa, sb)
        if ok:
            J.eq(route, "keys", sorted(pairs.keys()), [(3, 0, 4, 0)])
            if (3, 0, 4, 0) in pairs:
                lin_eq(J, route, pairs[(3, 0, 4, 0)], lin, erc)
    return J.fails


def lin_eq(J, route, ans, lin, erc):
    J.eq(route, "nedge", int(ans[0]), lin["nedge"])
    if lin["none"]:
        J.eq(route, "second item is None", ans[1] is None, True)
    elif ans[1] is None:
        J.eq(route, "second item is None", True, False)
    else:
        J.eq(route, "rcl", np.asarray(ans[1]), erc)


def _quiet(fn, *a, **k):
    """the caching objects print "realloc" on stdout"""
    import io, contextlib
    with contextlib.redirect_stdout(io.StringIO()):
        return fn(*a, **k)


JUDGES = {"m2c": judge_m2c, "cut": judge_cut, "sorted": judge_sorted, "sort": judge_sort,
          "thresh": judge_thresh, "cd": judge_cd, "pipe": judge_pipe}


def judge(case, mods, light=False):
    try:
        return JUDGES[case["prog"]](case, mods, light)
    except Exception as e:      # noqa - harness level surprise: reported as a failure of the case, with its type
        import traceback
        return [("harness", "exception", "unexpected %r\n%s" % (e, traceback.format_exc()[-1500:]))]


def case_key(case):
    return json.dumps(case, sort_keys=True)


def nontrivial(case):
    p = case["prog"]
    if p == "m2c":
        return case["ret"] == 0 and case["frame"] and case["frame"][0]["nnz"] >= 2
    if p == "cut":
        return bool(case["frame"]) and 0 < case["ret"] < case["ns"] * case["nf"]
    if p == "sorted":
        return case["nnz"] >= 2
    if p == "sort":
        return case["frame0"]["row"] != case["frame"][0]["row"] or case["frame0"]["col"] != case["frame"][0]["col"]
    if p == "thresh":
        return bool(case["frame"]) and case["frame"][0]["nnz"] < case["frame0"]["nnz"]
    if p == "cd":
        return case["cd"]["ret"] < case["n"]
    if p == "pipe":
        return case["so"]["npx"] >= 1 and (case["so"]["npx"] < case["f1"]["nnz"] or case["so"]["npx"] < case["f2"]["nnz"])
    return True


def main():
    """child process:  c14_replay.py cases.jsonl out.json light|full
    lines are TLC cases (judged here) or seeded recipes (prog = "big": executed here, the logged event goes back
    to the parent, which lets TLC judge it).  Progress is written to out.json.cur so that a crash of the
    implementation (signal, sanitizer abort) can be attributed to a case."""
    import c14_big
    cases_path, out_path, mode = sys.argv[1], sys.argv[2], sys.argv[3]
    light = mode == "light"
    os.environ.setdefault("OMP_WAIT_POLICY", "passive")
    mods = load_mods(consumer=not light)
    mods.c.cimaged11_omp_set_num_threads(1)
    out = {"n": 0, "problems": [], "events": [], "consumer": mods.props is not None}
    with open(cases_path) as f:
        for idx, line in enumerate(f):
            case = json.loads(line)
            out["n"] += 1
            if idx % 25 == 0 or case.get("prog") == "big":
                with open(out_path + ".cur", "w") as g:
                    g.write(str(idx))
            if case.get("prog") == "big":
                if case.get("kind") == "range":
                    p = c14_big.range_checks(mods)
                else:
                    ev, p = (c14_big.exec_coo if case["kind"] == "coo" else c14_big.exec_ovl)(case, mods)
                    if ev is not None:
                        out["events"].append(ev)
            else:
                p = judge(case, mods, light=light)
            if p:
                out["problems"].append({"idx": idx, "problems": [list(x) for x in p]})
    with open(out_path + ".cur", "w") as g:
        g.write(str(out["n"]))
    with open(out_path, "w") as g:
        json.dump(out, g)


if __name__ == "__main__":
    main()

"""C10 helper: exact 3x3 algebra on python Fractions and the exact oracle of one deformation.

Nothing here imports ImageD11: every expected value is derived from the integers / rationals the
specification (specs/Strain.tla) emits, or from rationals the harness builds itself (small-strain family).
"""
from __future__ import print_function
import json, math
from fractions import Fraction as Fr
import numpy as np
import common

MS2 = [-2, -1, 1, 2, 3, 4]
ALLM = [-1.0, -0.5, 0.0, 0.5, 1.0, 1.5, 2.0]


# ----------------------------------------------------------------------------------------------
# exact 3x3 algebra on Fractions (independent re-derivation of what TLC emits)

def fm(scaled):
    num, den = scaled
    return [[Fr(int(x), int(den)) for x in row] for row in num]


def fI():
    return [[Fr(int(i == j)) for j in range(3)] for i in range(3)]


def fmm(a, b):
    return [[sum(a[i][k] * b[k][j] for k in range(3)) for j in range(3)] for i in range(3)]


def ft(a):
    return [[a[j][i] for j in range(3)] for i in range(3)]


def fdet(m):
    return (m[0][0] * (m[1][1] * m[2][2] - m[1][2] * m[2][1])
            - m[0][1] * (m[1][0] * m[2][2] - m[1][2] * m[2][0])
            + m[0][2] * (m[1][0] * m[2][1] - m[1][1] * m[2][0]))


def finv(m):
    d = fdet(m)
    c = [[None] * 3 for _ in range(3)]
    for i in range(3):
        for j in range(3):
            r = [x for x in range(3) if x != i]
            s = [x for x in range(3) if x != j]
            minor = m[r[0]][s[0]] * m[r[1]][s[1]] - m[r[0]][s[1]] * m[r[1]][s[0]]
            c[j][i] = (-1) ** (i + j) * minor / d
    return c


def fpow(m, p):
    if p < 0:
        m = finv(m)
        p = -p
    out = fI()
    for _ in range(p):
        out = fmm(out, m)
    return out


def fsub(a, b):
    return [[a[i][j] - b[i][j] for j in range(3)] for i in range(3)]


def fadd(a, b):
    return [[a[i][j] + b[i][j] for j in range(3)] for i in range(3)]


def fscale(a, k):
    return [[a[i][j] * k for j in range(3)] for i in range(3)]


def fconj(q, a):           # q a q^T
    return fmm(fmm(q, a), ft(q))


def fconjT(q, a):          # q^T a q
    return fmm(fmm(ft(q), a), q)


def seth_hill(x, m2):      # (x^m2 - I)/m2
    return fscale(fsub(fpow(x, m2), fI()), Fr(1, m2))


def f2np(a):
    return np.array([[float(x) for x in row] for row in a], float)


def is_diag(a):
    return all(a[i][j] == 0 for i in range(3) for j in range(3) if i != j)


def rownorm(a):
    return max(sum(abs(x) for x in row) for row in a)


def flog_series(s):
    """log(S) for S = I + e with max row sum r of e below 1/100: the Mercator series e - e^2/2 + e^3/3 ..
    in exact fractions, cut where the remainder r^(k+1)/((k+1)(1-r)) is below 1e-22 r"""
    e = fsub(s, fI())
    r = rownorm(e)
    if r == 0:
        return [[Fr(0)] * 3 for _ in range(3)]
    if r >= Fr(1, 100):
        raise common.MachineryError("flog_series is meant for small strains")
    out = [[Fr(0)] * 3 for _ in range(3)]
    p = fI()
    k = 0
    while True:
        k += 1
        p = fmm(p, e)
        out = fadd(out, fscale(p, Fr((-1) ** (k + 1), k)))
        if r ** k / ((k + 1) * (1 - r)) < Fr(1, 10 ** 22):
            return out


class OracleMismatch(common.MachineryError):
    pass


U0P = [[Fr(4, 5), Fr(-3, 5), Fr(0)], [Fr(3, 5), Fr(4, 5), Fr(0)], [Fr(0), Fr(0), Fr(1)]]   # Rz(atan2(3,4))
PERM = [[Fr(0), Fr(0), Fr(1)], [Fr(1), Fr(0), Fr(0)], [Fr(0), Fr(1), Fr(0)]]


def cell_from_mt(mt):
    a, b, c = [math.sqrt(float(mt[i][i])) for i in range(3)]
    al = math.degrees(math.acos(float(mt[1][2]) / b / c))
    be = math.degrees(math.acos(float(mt[0][2]) / a / c))
    ga = math.degrees(math.acos(float(mt[0][1]) / a / b))
    return [a, b, c, al, be, ga]


# ----------------------------------------------------------------------------------------------
# the oracle: everything expected for one deformation

class ExactState(object):
    """reference lattice L0 (integer upper triangular), reference orientation U0, stretch S, rotation R
    (Fractions): ubi0 = L0.U0^T, ub0 = U0.L0^-1, ubi = ubi0.S.R^T, F = R.S, V = R.S.R^T and the
    Seth-Hill tensors, all exact; m = 0 and the Busing-Levy U of the strained cell in doubles."""

    def __init__(self, L0, U0, S, R):
        self.L0, self.U0, self.S, self.R = L0, U0, S, R
        self.ubi0 = fmm(L0, ft(U0))
        self.ub0 = fmm(U0, finv(L0))
        self.ubi = fmm(fmm(self.ubi0, S), ft(R))
        self.F = fmm(R, S)
        self.V = fconj(R, S)
        self.mt0 = fmm(L0, ft(L0))
        if fmm(ft(self.ubi), ft(self.ub0)) != self.F:
            raise OracleMismatch("F = ubi^T.ub0^T is not R.S")
        if ft(S) != S or fconj(R, fI()) != fI() or fconj(U0, fI()) != fI() or fdet(R) != 1 or fdet(U0) != 1:
            raise OracleMismatch("S is not symmetric or R / U0 is not a rotation")
        self.eref = {}
        self.elab = {}
        self.identity = (S == fI())
        self.diagonal = is_diag(S)
        self.rn = rownorm(fsub(S, fI()))
        self.small = self.rn < Fr(1, 100)
        self._e0 = None
        self._mapU = None
        self._np = {}
        self._pw = {}
        self._ef = {}
        self._memo = {}
        self.cell = cell_from_mt(self.mt0)

    # exact tensors, on demand
    def power(self, p):
        """S^p in exact fractions (powers are shared: S^2 = S.S, S^3 = S^2.S, S^4 = S^2.S^2, S^-2 = S^-1.S^-1)"""
        pw = self._pw
        if p not in pw:
            if p == 1:
                pw[p] = self.S
            elif p == -1:
                pw[p] = finv(self.S)
            elif p == 2:
                pw[p] = fmm(self.S, self.S)
            elif p == 3:
                pw[p] = fmm(self.power(2), self.S)
            elif p == 4:
                pw[p] = fmm(self.power(2), self.power(2))
            elif p == -2:
                pw[p] = fmm(self.power(-1), self.power(-1))
            else:
                pw[p] = fpow(self.S, p)
        return pw[p]

    def E(self, m2):
        """(S^m2 - I)/m2, exact"""
        if m2 not in self.eref:
            e = fscale(fsub(self.power(m2), fI()), Fr(1, m2))
            if ft(e) != e:
                raise OracleMismatch("asymmetric exact tensor")
            self.eref[m2] = e
        return self.eref[m2]

    def Elab(self, m2):
        """R.E.R^T, exact"""
        if m2 not in self.elab:
            lab = fconj(self.R, self.E(m2))
            if ft(lab) != lab:
                raise OracleMismatch("asymmetric exact tensor")
            self.elab[m2] = lab
        return self.elab[m2]

    def Ef(self, m):
        """the tensor of S for exponent m in doubles (rounded once from the exact fractions; m = 0: e0_ref)"""
        if m not in self._ef:
            self._ef[m] = self.e0_ref if m == 0 else f2np(self.E(int(round(2 * m))))
        return self._ef[m]

    def npa(self, name):
        if name not in self._np:
            self._np[name] = f2np(getattr(self, name))
        return self._np[name]

    Sf = property(lambda self: self.npa("S"))
    Rf = property(lambda self: self.npa("R"))
    U0f = property(lambda self: self.npa("U0"))
    Vf = property(lambda self: self.npa("V"))
    Ff = property(lambda self: self.npa("F"))
    ubi_f = property(lambda self: self.npa("ubi"))
    ubi0_f = property(lambda self: self.npa("ubi0"))
    ub0_f = property(lambda self: self.npa("ub0"))

    @property
    def e0_ref(self):
        """logarithmic strain (m = 0): exact for diagonal S (log of the rational diagonal); the exact
        Mercator series for small strains; eigen-decomposition of the exact symmetric S otherwise,
        validated by exp(E0) = S"""
        if self._e0 is None:
            S = self.S
            if self.diagonal:
                e0 = np.diag([math.log(S[i][i].numerator) - math.log(S[i][i].denominator) for i in range(3)])
                if self.small:     # log(p/q) by difference of two logs loses digits next to 1
                    e0 = np.diag([math.log1p(float(S[i][i] - 1)) for i in range(3)])
            elif self.small:
                e0 = f2np(flog_series(S))
            else:
                w, v = np.linalg.eigh(self.Sf)
                e0 = np.dot(v * np.log(w), v.T)
                e0 = 0.5 * (e0 + e0.T)
            # validation: exp(E0) = S, the exponential through the eigen-decomposition of E0 itself
            w2, v2 = np.linalg.eigh(e0)
            if abs(np.dot(v2 * np.exp(w2), v2.T) - self.Sf).max() > 1e-13:
                raise OracleMismatch("log strain oracle failed exp(E0) = S")
            self._e0 = e0
        return self._e0

    @property
    def e0_lab(self):
        return self.lab(0.0)

    # expected tensors (numpy) for exponent m (float) in the frame of a reference rotated by Q.  The exact
    # tensor of S is rounded to doubles once; the two rotations are then applied in doubles (1e-16 relative)
    def ref(self, m, Q=None):
        e = self.Ef(m)
        if Q is None:
            return e
        if Q is self.U0:
            if ("refU0", m) not in self._memo:
                q = self.U0f
                self._memo[("refU0", m)] = np.dot(np.dot(q.T, e), q)
            return self._memo[("refU0", m)]
        q = f2np(Q)
        return np.dot(np.dot(q.T, e), q)

    def lab(self, m):
        if ("lab", m) not in self._memo:
            self._memo[("lab", m)] = np.dot(np.dot(self.Rf, self.Ef(m)), self.Rf.T)
        return self._memo[("lab", m)]

    def map_U(self):
        """U of the strained grain as ImageD11 defines it (UB = U.B, B upper triangular from the
        strained cell): finished in floats from the exact UB and the exact reciprocal metric."""
        if self._mapU is None:
            ub = finv(self.ubi)
            rmt = fmm(ft(ub), ub)
            B = np.linalg.cholesky(f2np(rmt)).T           # upper triangular, B^T B = rmt
            self._mapU = np.dot(f2np(ub), np.linalg.inv(B))
        return self._mapU

    def describe(self):
        def sc(a):
            den = 1
            for row in a:
                for x in row:
                    den = den * x.denominator // math.gcd(den, x.denominator)
            return [[[int(x * den) for x in row] for row in a], den]
        return {"L0": [[int(x) for x in row] for row in self.L0], "U0": sc(self.U0), "S": sc(self.S), "R": sc(self.R)}

    @classmethod
    def from_description(cls, d):
        return cls([[Fr(int(x)) for x in row] for row in d["L0"]], fm(d["U0"]), fm(d["S"]), fm(d["R"]))


class Oracle(ExactState):
    """exact expected values for one record of machine Spec, cross-checked against TLC's numbers"""

    def __init__(self, rec):
        self.rec = rec
        L0 = [[Fr(int(x)) for x in row] for row in rec["L0"]]
        ExactState.__init__(self, L0, fm(rec["U0"]), fm(rec["S"]), fm(rec["R"]))
        # --- the specification's values must be these (two independent exact derivations)
        for name, mine in (("ubi0", self.ubi0), ("ub0", self.ub0), ("ubi", self.ubi), ("F", self.F)):
            if fm(rec[name]) != mine:
                raise OracleMismatch("spec and harness disagree on %s for %s" % (name, json.dumps(rec)[:300]))
        if [[Fr(int(x)) for x in r] for r in rec["mt0"]] != self.mt0:
            raise OracleMismatch("spec and harness disagree on mt0")
        if list(rec["ms"]) != MS2:
            raise OracleMismatch("unexpected exponent list %r" % (rec["ms"],))
        for i, m2 in enumerate(MS2):
            e = self.E(m2)
            if fm(rec["eref"][i]) != e:
                raise OracleMismatch("spec and harness disagree on E_ref(m2=%d)" % m2)
            lab = self.Elab(m2)
            if m2 in (-1, 2) and seth_hill(self.V, m2) != lab:      # (TLC checks VDef for every m2: LabIsRotatedRef)
                raise OracleMismatch("(V^2m - I)/2m != R.E_ref.R^T in exact arithmetic, m2=%d" % m2)
            if int(rec["elab"][i][1]) != 0:
                if fm(rec["elab"][i]) != lab:
                    raise OracleMismatch("spec and harness disagree on E_lab(m2=%d)" % m2)
            elif rec.get("labexact"):
                raise OracleMismatch("labexact record without lab tensor")


def shrink(o, k):
    """harness-side small-strain member of a record's family: S' = I + (S - I)/k, everything else kept"""
    e = fsub(o.S, fI())
    return ExactState(o.L0, o.U0, fadd(fI(), fscale(e, Fr(1, k))), o.R)


def rescale(st, k):
    """the same grain seen from the reference cell k.L0 (all cell lengths times k, angles kept): its ubi is
    (k.L0).U0^T.(S/k).R^T, i.e. stretch S/k and the same rotation.  Memoised on the state."""
    k = Fr(k)
    if k == 1:
        return st
    memo = st.__dict__.setdefault("_scaled", {})
    if k not in memo:
        t = ExactState(fscale(st.L0, k), st.U0, fscale(st.S, 1 / k), st.R)
        if t.ubi != st.ubi:
            raise OracleMismatch("rescaled state is not the same grain")
        memo[k] = t
    return memo[k]


def close(x, e, floor=1e-12, rel=1e-9):
    """|x - e| <= rel*scale + floor, scale = largest magnitude in the expected tensor; NaN only matches NaN"""
    x = np.asarray(x, float)
    e = np.asarray(e, float)
    if x.shape != e.shape:
        return False
    nx, ne = np.isnan(x), np.isnan(e)
    if (nx != ne).any():
        return False
    if ne.all():
        return True
    scale = np.abs(e[~ne]).max()
    return bool((np.abs(x[~ne] - e[~ne]) <= rel * scale + floor).all())


def e6(mat):
    return np.array([mat[0, 0], mat[0, 1], mat[0, 2], mat[1, 1], mat[1, 2], mat[2, 2]])

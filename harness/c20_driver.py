"""C20 - execution of call descriptors (specs/KernelCalls.tla) and of the re-used kernel-model cases on the real
compiled kernels, normally under AddressSanitizer + UBSan (child process started by props/c20.py):

    /venv/bin/python c20_driver.py cases.jsonl out.json          (environment: common.asan_env + C20_* variables)

For every descriptor the driver
  * builds exactly-sized, C-contiguous arrays of exactly the dtypes of the f2py signature (a wrong dtype would make
    f2py copy and hide the writes; numpy data is malloc'ed, so the ASan red zone sits right behind the last element),
  * pre-fills every output / in-output array with a recognisable poison (arrays allocated by the wrapper itself,
    intent(out), are filled with 0xBE by the sanitizer allocator: ASAN_OPTIONS=max_malloc_fill_size),
  * calls the kernel,
  * checks definedness: no poison (and no NaN where NaN cannot arise) in any cell the interface promises
    (KernelCalls!Outputs), and compares with a cheap independent reference (numpy / scipy / ImageD11 python code).
A descriptor that carries a thread count (`nt` > 0, the OpenMP dimension of KernelCalls.tla) is executed with exactly
that many threads (cimaged11_omp_set_num_threads, restored behind the call) and, besides the checks above, every
promised output is compared with what the same call returns on one thread: exactly for arrays, to rounding for the
scalars that come out of a floating-point reduction.
A descriptor with verbose > 0 passes that value to the kernel (stdout is swallowed); a descriptor with an OpenMP
environment (`env` > 0, child started under C20_OMPENV) runs first on one thread, then with what the environment
delivers, and the promised outputs are compared.  A descriptor whose kernel is "py:..." drives a Python caller of the
kernels (harness/c20_wrappers.py); every call any Python code makes through ImageD11.cImageD11 is guarded by the
preconditions of KernelCalls!Extents (a violated one is a finding of the running case).
A descriptor with a value class (`fv` other than "fin", KernelCalls!FV / FvAt) has that value (NaN, +inf, -inf, -0.0, a
denormal) written into the elements FvOn(at) of every float data array KernelCalls!FloatIn names, just before the kernel
is entered (Ctx.call, by the argument names of the f2py signature); such a call is judged for sanitizer reports, poison
in promised outputs, integer outputs outside their range and exceptions - not against the value references (what a
kernel makes of a NaN is not part of the property; NaN may appear in float outputs).  On EVERY call the arguments named by
KernelCalls!WorkArrays are handed over dirty: integer scratch arrays hold index-like values just outside the array
(n, -1, n + 1, -2, 2^30, a large negative number), as a previous call on a longer list leaves them.
A wrapper rejection (f2py raises before the kernel runs, e.g. zero-length arrays) is recorded, not judged.
`<out>.cur` holds the index of the running case, so that a sanitizer abort names its case.

Array generators here mirror the formulas of KernelCalls.tla (On, Val, ThrVal, PutInd, Perm, Level, Cs*, Cd*, A0/A1);
descriptors that carry materialised arrays (`mat`) are used to check the mirror element for element.
"""
import sys, os, json, math, time
import numpy as np

HERE = os.path.dirname(os.path.abspath(__file__))
if HERE not in sys.path:
    sys.path.insert(0, HERE)

P_I32 = -7777777
P_U16 = 0xFFFF          # never a coordinate (at most 65534) nor one of the generated uint16 values
P_U32 = 0xABCDABCD
P_I8 = -77
P_U8 = 0xAB
P_F32 = np.float32(-7.25e33)
P_F64 = -7.25e33
BE64 = np.frombuffer(b"\xbe" * 8, np.float64)[0]        # sanitizer allocator fill, as a double
BE32I = np.frombuffer(b"\xbe" * 4, np.int32)[0]


class Rejected(Exception):
    """the f2py wrapper refused the call before the kernel ran"""


class Ctx(object):
    def __init__(self):
        import ImageD11._cImageD11 as c
        self.c = c
        self.problems = []
        self.checked = set()
        self.genbad = []
        self.notes = {}
        self.outs = {}                  # promised outputs of the running call, as judged (name -> copy)
        self.thread_dependent = False   # the handler says: this call's result legitimately depends on the schedule
        self.refcache = {}              # slow references that do not depend on the thread count
        self.fv, self.at = "fin", "-"   # value class of the float data of the running call (KernelCalls!FV, FvAt)
        self.floatin, self.work = (), ()  # KernelCalls!FloatIn / WorkArrays of the running kernel (lower-case names)
        self.injected = 0               # float data arrays of the running call that received the value
        self.skipped_refs = 0
        self._sig = {}

    @property
    def finite(self):
        return self.fv == "fin"

    SPECIAL = {"nan": float("nan"), "pinf": float("inf"), "ninf": float("-inf"), "nzero": -0.0}

    def inj(self, arr):
        """write the value of the running call's class into the elements KernelCalls!FvOn names (in place; float arrays)"""
        if self.finite or arr.dtype.kind != "f" or arr.size == 0:
            return arr
        flat = arr.reshape(-1)          # (C-contiguous arrays: a view)
        if not np.shares_memory(flat, arr):
            raise RuntimeError("inj: array is not contiguous")
        x = (1e-42 if arr.dtype == np.float32 else 1e-310) if self.fv == "denorm" else self.SPECIAL[self.fv]
        if self.at == "odd":
            flat[1::2] = x
        elif self.at == "all":
            flat[:] = x
        elif self.at == "last":
            flat[-1] = x
        else:
            raise KeyError(self.at)
        if not (self.at == "odd" and flat.size < 2):
            self.injected += 1
        return arr

    @staticmethod
    def dirty_index(n, dtype):
        """scratch content that looks like indices just outside an array of n elements (and far outside)"""
        pat = np.array([n, -1, n + 1, -2, 2 ** 30, P_I32], np.int64)
        return pat[np.arange(n) % 6].astype(dtype)

    def argnames(self, fn):
        key = id(fn)
        if key not in self._sig:
            import re
            first = (fn.__doc__ or "").strip().splitlines()[0]
            m = re.search(r"\(([^)]*)\)", first)
            names = [x.strip().lower() for x in m.group(1).replace("[", ",").replace("]", "").split(",")] if m else []
            self._sig[key] = [x for x in names if x]
        return self._sig[key]

    def bad(self, msg):
        self.problems.append(msg)

    def call(self, fn, *a, **k):
        if self.work or not self.finite:
            names = self.argnames(fn)
            for nm, arg in zip(names, a):
                if not isinstance(arg, np.ndarray):
                    continue
                if nm in self.work and arg.dtype.kind == "i" and arg.dtype.itemsize >= 4:
                    arg.reshape(-1)[:] = self.dirty_index(arg.size, arg.dtype)
                if nm in self.floatin and not self.finite:
                    self.inj(arg)
        try:
            return fn(*a, **k)
        except (ValueError, TypeError) as e:
            raise Rejected("%s: %s" % (type(e).__name__, str(e).strip().splitlines()[0][:160]))
        except Exception as e:          # _cImageD11.error
            if type(e).__name__ == "error":
                raise Rejected("error: %s" % str(e).strip()[:160])
            raise

    # ---- definedness ------------------------------------------------------------------------
    def defined(self, name, arr, poison, upto=None, nan_ok=False):
        self.checked.add(name)
        a = np.asarray(arr).ravel() if upto is None else np.asarray(arr).ravel()[:upto]
        self.outs[name] = a.copy()
        if a.size == 0:
            return True
        if a.dtype.kind == "f":
            badm = (a == poison)
            if not nan_ok and self.finite:
                badm |= np.isnan(a)
        else:
            badm = (a == poison)
        if badm.any():
            k = int(np.nonzero(badm)[0][0])
            self.bad("output %s: cell %d of %d is undefined (holds %r: %s) after the call" % (
                name, k, a.size, a[k].item(), "NaN" if (a.dtype.kind == "f" and np.isnan(a[k])) else "poison"))
            return False
        return True

    @staticmethod
    def prepoison(nbytes):
        """arrays the wrapper allocates itself (intent(out)) cannot be pre-filled by the caller.  Fresh memory from
        the sanitizer allocator is 0xBE-filled (ASAN_OPTIONS), but numpy recycles freed blocks below 1 kB from its
        own cache (last in, first out): park poisoned blocks of exactly that size there just before the call."""
        if nbytes >= 8:
            tmp = [np.full(nbytes // 8, P_F64) for _ in range(6)]
            del tmp

    def defined_out(self, name, arr):
        """arrays allocated by the wrapper (intent(out)): 0xBE fill of the sanitizer allocator or the parked poison.
        (numpy's f2py zero-fills the arrays it creates for intent(out)/intent(hide) arguments, so with the wrappers
        of this numpy an unwritten cell reads 0, which the reference comparison judges; the poison test guards
        against a wrapper generation that stops doing so.)"""
        self.checked.add(name)
        a = np.ascontiguousarray(arr).ravel()
        self.outs[name] = a.copy()
        if a.size == 0:
            return True
        raw = a.view(np.uint8).reshape(a.size, a.dtype.itemsize)
        badm = (raw == 0xBE).all(axis=1) | (a == P_F64)
        if a.dtype.kind == "f" and self.finite:
            badm |= np.isnan(a)
        if badm.any():
            k = int(np.nonzero(badm)[0][0])
            self.bad("output %s: cell %d of %d is undefined (allocator fill / NaN: %r) after the call" % (name, k, a.size, a[k].item()))
            return False
        return True

    def scalar(self, name, x, nan_ok=False):
        self.checked.add("ret")
        self.outs["ret:" + name] = x
        if isinstance(x, float) and math.isnan(x) and not nan_ok and self.finite:
            self.bad("returned %s is NaN" % name)

    def eq(self, what, got, exp):
        if not self.finite:             # (value references are not judged on non-finite data)
            self.skipped_refs += 1
            return True
        got = np.asarray(got)
        exp = np.asarray(exp)
        if got.shape != exp.shape or not np.array_equal(got, exp):
            self.bad("%s: %s, reference %s" % (what, _short(got), _short(exp)))
            return False
        return True

    def close(self, what, got, exp, rel=1e-9, abs_=1e-12):
        if not self.finite:
            self.skipped_refs += 1
            return True
        got = np.asarray(got, float)
        exp = np.asarray(exp, float)
        if got.shape != exp.shape:
            self.bad("%s: shape %s, reference %s" % (what, got.shape, exp.shape))
            return False
        if got.size == 0:
            return True
        scale = max(float(np.max(np.abs(exp))), 1.0) if np.isfinite(exp).all() else 1.0
        with np.errstate(invalid="ignore"):
            ok = np.abs(got - exp) <= rel * scale + abs_
        ok |= (got == exp)
        if not ok.all():
            k = int(np.nonzero(~ok.ravel())[0][0])
            self.bad("%s: cell %d = %r, reference %r" % (what, k, got.ravel()[k], exp.ravel()[k]))
            return False
        return True

    def gen(self, what, got, exp):
        """mirror check: generator array vs the array materialised by TLC"""
        got = np.asarray(got).ravel().tolist()
        if got != list(exp):
            self.genbad.append("%s: harness %s, KernelCalls.tla %s" % (what, got[:20], list(exp)[:20]))


def _short(a):
    a = np.asarray(a)
    s = np.array2string(a.ravel()[:16], separator=",", max_line_width=200)
    return "%s%s" % (s, "" if a.size <= 16 else "...(%d)" % a.size)


# ================================================================================================
# generators (mirror of KernelCalls.tla)

def on(cls, ns, nf):
    r, c = np.mgrid[0:ns, 0:nf]
    if cls == "empty":
        return np.zeros((ns, nf), bool)
    if cls == "full":
        return np.ones((ns, nf), bool)
    if cls == "chk0":
        return (r + c) % 2 == 0
    if cls == "chk1":
        return (r + c) % 2 == 1
    if cls == "tl":
        return (r == 0) & (c == 0)
    if cls == "tr":
        return (r == 0) & (c == nf - 1)
    if cls == "bl":
        return (r == ns - 1) & (c == 0)
    if cls == "br":
        return (r == ns - 1) & (c == nf - 1)
    if cls == "ctr":
        return (r == ns // 2) & (c == nf // 2)
    if cls == "row0":
        return r == 0
    if cls == "rowN":
        return r == ns - 1
    if cls == "col0":
        return c == 0
    if cls == "colN":
        return c == nf - 1
    if cls == "hstr":
        return r % 2 == 0
    if cls == "vstr":
        return c % 2 == 0
    if cls == "diag":
        return (r + 2 * c) % 3 == 0
    if cls == "gap":
        return (r == 0) | (r == ns - 1)
    if cls == "dots":
        return (r % 2 == 0) & (c % 2 == 0)
    if cls == "corners":
        return ((r == 0) | (r == ns - 1)) & ((c == 0) | (c == nf - 1))
    raise KeyError(cls)


def val(ns, nf):
    r, c = np.mgrid[0:ns, 0:nf]
    return 1 + ((3 * r + 5 * c) % 7)


THRVAL = {"neg": -1.0, "zero": 0.0, "mid": 3.0, "max": 7.0, "huge": 1000.0}


def npk_of(par, n):
    return {"exact": n, "slack": n + 2, "under": max(n - 1, 0), "zero": 0}[par]


def put_ind(par, m, n):
    t = np.arange(n, dtype=np.int64)
    if par == "zero":
        return np.zeros(n, np.int64)
    if par == "last":
        return np.full(n, m - 1, np.int64)
    if par == "ramp":
        return (7 * t + 3) % m
    if par == "oob":
        return np.where(t % 3 == 0, -1, np.where(t % 3 == 1, m, t % m))
    raise KeyError(par)


def perm(par, n):
    t = np.arange(n, dtype=np.int64)
    return {"ident": t, "rev": n - 1 - t, "rot": (t + 1) % max(n, 1), "const0": 0 * t, "constlast": 0 * t + n - 1}[par]


def level(par, i):
    return {"one": 0 * i, "each": i, "mixed": i // 2}[par]


def components(mask, con8=1):
    """connected components, numbered by the raster position of their first pixel (scipy labels, renumbered)"""
    from scipy import ndimage
    st = np.ones((3, 3), int) if con8 else np.array([[0, 1, 0], [1, 1, 1], [0, 1, 0]])
    lab, n = ndimage.label(mask, structure=st)
    if n == 0:
        return lab.astype(np.int32), 0
    flat = lab.ravel()
    first = np.full(n + 1, flat.size, np.int64)
    idx = np.nonzero(flat)[0]
    np.minimum.at(first, flat[idx], idx)
    order = np.argsort(first[1:], kind="stable")
    remap = np.zeros(n + 1, np.int64)
    remap[order + 1] = np.arange(1, n + 1)
    return remap[lab].astype(np.int32), int(n)


class Img(object):
    """arrays of an image / sparse descriptor"""

    def __init__(self, d, cx):
        self.ns, self.nf = d["ns"], d["nf"]
        self.m1 = on(d["c1"], self.ns, self.nf)
        c2 = d["c2"]
        self.m2 = self.m1 if c2 in ("same", "-") else on(c2, self.ns, self.nf)
        self.v = val(self.ns, self.nf)
        self.data = np.where(self.m1, self.v, 0).astype(np.float32)
        self.data2 = np.where(self.m2, self.v, 0).astype(np.float32)

    def coo(self, m=None):
        m = self.m1 if m is None else m
        ii, jj = np.nonzero(m)
        return ii.astype(np.uint16), jj.astype(np.uint16)


def check_mat_img(d, mat, im, cx):
    if "mask1" not in mat:
        return
    cx.gen("mask1", im.m1.astype(int), mat["mask1"])
    if d["c2"] != "-":
        cx.gen("mask2", im.m2.astype(int), mat["mask2"])
    cx.gen("vals", im.v, mat["vals"])
    cx.gen("coo", np.nonzero(im.m1.ravel())[0], mat["coo"])
    thr = d["par"] if d["k"] in ("connectedpixels", "sparse_connectedpixels", "sparse_connectedpixels_splat") else "zero"
    above = im.data > THRVAL[thr]
    cx.gen("above", above.astype(int), mat["above"])
    if d["k"] in NEEDS_LABELS:
        l8, n8 = components(above, 1)
        cx.gen("lab8", l8, mat["lab8"])
        cx.gen("n8", [n8], [mat["n8"]])
    if d["k"] == "connectedpixels":
        l4, n4 = components(above, 0)
        cx.gen("lab4", l4, mat["lab4"])
        cx.gen("n4", [n4], [mat["n4"]])
    if d["k"] in ("bloboverlaps", "coverlaps"):
        l2, n2 = components(im.m2, 1)
        cx.gen("lab2", l2, mat["lab2"])
        cx.gen("n2", [n2], [mat["n2"]])


NEEDS_LABELS = ("connectedpixels", "blobproperties", "bloboverlaps", "sparse_connectedpixels",
                "sparse_connectedpixels_splat", "sparse_blob2Dproperties", "coverlaps")

K = {}      # kernel name -> handler(d, mat, cx)


def kernel(name):
    def deco(f):
        K[name] = f
        return f
    return deco


# ================================================================================================
# image family

@kernel("connectedpixels")
def k_connectedpixels(d, mat, cx):
    im = Img(d, cx)
    check_mat_img(d, mat, im, cx)
    thr = THRVAL[d["par"]]
    lab = np.full((im.ns, im.nf), P_I32, np.int32)
    n = cx.call(cx.c.connectedpixels, im.data, lab, thr, d.get("vb", 0), d["opt"])
    cx.defined("labels", lab, P_I32)
    cx.scalar("count", n)
    el, en = components(im.data > thr, d["opt"])
    cx.eq("connectedpixels(con8=%d) labels" % d["opt"], lab, el)
    cx.eq("connectedpixels count", n, en)
    if "lab8" in mat:       # expectation of the specification itself (closure definition)
        cx.eq("connectedpixels labels vs KernelCalls.tla", lab.ravel(), np.array(mat["lab8" if d["opt"] else "lab4"], np.int32))


def ref_blobprops(c, data, labels, npk, omega):
    res = np.zeros((npk, c.NPROPERTY))
    ns, nf = data.shape
    if npk == 0:
        return res
    res[:, c.bb_mn_f] = nf + 1
    res[:, c.bb_mn_s] = ns + 1
    res[:, c.bb_mx_f] = -1
    res[:, c.bb_mx_s] = -1
    res[:, c.bb_mx_o] = omega
    res[:, c.bb_mn_o] = omega
    ss, ff = np.nonzero((labels > 0) & (labels <= npk))
    if len(ss) == 0:
        return res
    k = labels[ss, ff] - 1
    I = data[ss, ff].astype(np.float64)
    s, f = ss.astype(np.float64), ff.astype(np.float64)
    for col, w in ((c.s_1, np.ones(len(I))), (c.s_I, I), (c.s_I2, I * I), (c.s_fI, f * I), (c.s_ffI, f * f * I),
                   (c.s_sI, s * I), (c.s_ssI, s * s * I), (c.s_sfI, s * f * I), (c.s_oI, omega * I),
                   (c.s_ooI, omega * omega * I), (c.s_soI, s * omega * I), (c.s_foI, f * omega * I)):
        np.add.at(res[:, col], k, w)
    np.maximum.at(res[:, c.bb_mx_f], k, f)
    np.maximum.at(res[:, c.bb_mx_s], k, s)
    np.minimum.at(res[:, c.bb_mn_f], k, f)
    np.minimum.at(res[:, c.bb_mn_s], k, s)
    # the brightest pixel of each blob (first one in raster order on ties: the kernel tests I > mx_I)
    order = np.lexsort((np.arange(len(I)), -I, k))
    firsts = order[np.concatenate([[True], k[order][1:] != k[order][:-1]])]
    res[k[firsts], c.mx_I] = I[firsts]
    res[k[firsts], c.mx_I_f] = f[firsts]
    res[k[firsts], c.mx_I_s] = s[firsts]
    res[k[firsts], c.mx_I_o] = omega
    return res


BP_COLS = ("s_1", "s_I", "s_I2", "s_fI", "s_ffI", "s_sI", "s_ssI", "s_sfI", "s_oI", "s_ooI", "s_soI", "s_foI", "mx_I",
           "mx_I_f", "mx_I_s", "mx_I_o", "bb_mx_f", "bb_mx_s", "bb_mn_f", "bb_mn_s", "bb_mx_o", "bb_mn_o")


@kernel("blobproperties")
def k_blobproperties(d, mat, cx):
    im = Img(d, cx)
    check_mat_img(d, mat, im, cx)
    c = cx.c
    lab, n = components(im.m1, 1)
    npk = npk_of(d["par"], n)
    cx.prepoison(npk * c.NPROPERTY * 8)
    res = cx.call(c.blobproperties, im.data, lab, npk, 1.5, d.get("vb", 0))
    if res.shape != (npk, c.NPROPERTY):
        cx.bad("blobproperties: results shape %r for npk=%d" % (res.shape, npk))
        return
    cx.defined_out("results", res)
    ref = ref_blobprops(c, im.data, lab, npk, 1.5)
    cols = [getattr(c, x) for x in BP_COLS]
    cx.close("blobproperties results[s_1..bb_mn_o]", res[:, cols], ref[:, cols])


@kernel("bloboverlaps")
def k_bloboverlaps(d, mat, cx):
    im = Img(d, cx)
    check_mat_img(d, mat, im, cx)
    c = cx.c
    l1, n1 = components(im.m1, 1)
    l2, n2 = components(im.m2, 1)
    npk1, npk2 = npk_of(d["par"], n1), npk_of(d["par"], n2)
    r1 = np.ascontiguousarray(ref_blobprops(c, im.data, l1, npk1, 1.0))
    r2 = np.ascontiguousarray(ref_blobprops(c, im.data2, l2, npk2, 2.0))
    tot1 = r1[:, c.s_1].sum() + r2[:, c.s_1].sum()
    totI = r1[:, c.s_I].sum() + r2[:, c.s_I].sum()
    l1in = l1.copy()
    l2w = l2.copy()
    ret = cx.call(c.bloboverlaps, l1, npk1, r1, l2w, npk2, r2, d.get("vb", 0))
    cx.scalar("count", ret)
    cx.defined("labels2", l2w, P_I32)
    cx.defined("results1", r1, P_F64)
    cx.defined("results2", r2, P_F64)
    cx.eq("bloboverlaps labels1 unchanged", l1, l1in)
    # reference: frame-2 blobs linked through frame-1 blobs they overlap
    parent = list(range(n1 + n2 + 1))

    def find(x):
        while parent[x] != x:
            parent[x] = parent[parent[x]]
            x = parent[x]
        return x
    both = (l1in > 0) & (l2 > 0)
    for a, b in set(zip(l1in[both].tolist(), l2[both].tolist())):
        ra, rb = find(n2 + a), find(b)
        if ra != rb:
            parent[max(ra, rb)] = min(ra, rb)
    newid, nxt = {}, 0
    exp_of = np.zeros(npk2 + 1, np.int64)
    for j in range(1, npk2 + 1):
        if j > n2:                      # slack rows: peaks without pixels stay separate sets
            nxt += 1
            exp_of[j] = nxt
            continue
        r = find(j)
        if r not in newid:
            nxt += 1
            newid[r] = nxt
        exp_of[j] = newid[r]
    cx.eq("bloboverlaps returned count", ret, nxt)
    cx.eq("bloboverlaps relabelled labels2", l2w, exp_of[l2].astype(np.int32))
    cx.close("bloboverlaps pixel count conserved", r1[:, c.s_1].sum() + r2[:, c.s_1].sum(), tot1)
    cx.close("bloboverlaps intensity conserved", r1[:, c.s_I].sum() + r2[:, c.s_I].sum(), totI)


def ref_clean(m):
    m = m.astype(bool)
    nb = np.zeros(m.shape, bool)
    nb[1:, :] |= m[:-1, :]
    nb[:-1, :] |= m[1:, :]
    nb[:, 1:] |= m[:, :-1]
    nb[:, :-1] |= m[:, 1:]
    return (m & nb).astype(np.int8)


@kernel("clean_mask")
def k_clean_mask(d, mat, cx):
    im = Img(d, cx)
    check_mat_img(d, mat, im, cx)
    msk = np.where(im.m1, 1 if d["par"] == "one" else 31, 0).astype(np.int8)
    ret = np.full((im.ns, im.nf), P_I8, np.int8)
    n = cx.call(cx.c.clean_mask, msk, ret)
    cx.defined("ret_mask", ret, P_I8)
    cx.scalar("count", n)
    if im.nf >= 2:          # one column: the kernel's row-interior code addresses the next row (in bounds, not meaningful)
        e = ref_clean(im.m1)
        cx.eq("clean_mask ret", ret, e)
        cx.eq("clean_mask count", n, int(e.sum()))


@kernel("make_clean_mask")
def k_make_clean_mask(d, mat, cx):
    im = Img(d, cx)
    check_mat_img(d, mat, im, cx)
    cut = THRVAL[d["par"]]
    msk = np.full((im.ns, im.nf), P_I8, np.int8)
    ret = np.full((im.ns, im.nf), P_I8, np.int8)
    n = cx.call(cx.c.make_clean_mask, im.data, cut, msk, ret)
    cx.defined("msk", msk, P_I8)
    cx.defined("ret_mask", ret, P_I8)
    cx.scalar("count", n)
    cx.eq("make_clean_mask msk", msk, (im.data > cut).astype(np.int8))
    if im.nf >= 2:
        e = ref_clean(im.data > cut)
        cx.eq("make_clean_mask ret", ret, e)
        cx.eq("make_clean_mask count", n, int(e.sum()))


def lm_data(d, im):
    if d["par"] == "flat":
        return im.m1.astype(np.float32)
    k = np.arange(im.ns * im.nf).reshape(im.ns, im.nf)
    return (im.v + 10.0 * im.m1 + ((k * 7919) % 1009) / 4096.0).astype(np.float32)


_DEF = [None]


def lm_definition(img):
    if _DEF[0] is None:
        from props import c13
        _DEF[0] = c13.definition
    return _DEF[0](img)


@kernel("localmaxlabel")
def k_localmaxlabel(d, mat, cx):
    im = Img(d, cx)
    check_mat_img(d, mat, im, cx)
    data = lm_data(d, im)
    lab = np.full((im.ns, im.nf), P_I32, np.int32)
    wrk = np.full((im.ns, im.nf), P_U8, np.uint8)
    n = cx.call(cx.c.localmaxlabel, data, lab, wrk)
    cx.defined("labels", lab, P_I32)
    cx.scalar("count", n)
    if lab.min() < 0 or lab.max() > n:
        cx.bad("localmaxlabel: labels outside 0..%d: min %d max %d" % (n, lab.min(), lab.max()))
    border = np.ones(lab.shape, bool)
    border[1:-1, 1:-1] = False
    if lab[border].any():
        cx.bad("localmaxlabel: border pixels carry labels")
    if not cx.finite:
        return
    if im.ns >= 3 and im.nf >= 3 and im.ns * im.nf <= 300000:
        key = ("lm", im.ns, im.nf, d["c1"], d["par"])          # (the definition does not know about threads)
        if key not in cx.refcache:
            if len(cx.refcache) > 400:
                cx.refcache.clear()
            cx.refcache[key] = lm_definition(data)
        ref = cx.refcache[key]
        if ref is not None:
            cx.eq("localmaxlabel labels (steepest ascent definition)", lab, ref[0])
            cx.eq("localmaxlabel count", n, ref[1])
    elif im.ns < 3 or im.nf < 3:
        cx.eq("localmaxlabel count on an image without interior", n, 0)


@kernel("mask_to_coo")
def k_mask_to_coo(d, mat, cx):
    im = Img(d, cx)
    check_mat_img(d, mat, im, cx)
    cnt = int(im.m1.sum())
    nnz = cnt + {"exact": 0, "plus1": 1, "minus1": -1}[d["par"]]
    msk = im.m1.astype(np.int8)
    i = np.full(max(nnz, 0), P_U16, np.uint16)
    j = np.full(max(nnz, 0), P_U16, np.uint16)
    w = np.full(im.ns, P_I32, np.int32)
    ret = cx.call(cx.c.mask_to_coo, msk, i, j, w)
    cx.scalar("ret", ret)
    cx.eq("mask_to_coo return code", ret, 0 if nnz == cnt else 4)
    cx.defined("w", w, P_I32)
    cx.eq("mask_to_coo w (cumulative row counts)", w, np.cumsum(im.m1.sum(axis=1)).astype(np.int32))
    if ret == 0:
        cx.defined("i", i, P_U16)
        cx.defined("j", j, P_U16)
        ei, ej = im.coo()
        cx.eq("mask_to_coo i", i, ei)
        cx.eq("mask_to_coo j", j, ej)
    else:
        cx.checked.update(("i", "j"))
        if (i != P_U16).any() or (j != P_U16).any():
            cx.bad("mask_to_coo: wrote into i/j although it reports a count mismatch")


def _tosparse(d, mat, cx, fn, dt, vpoison):
    im = Img(d, cx)
    check_mat_img(d, mat, im, cx)
    img = np.where(im.m1, im.v, 0).astype(dt)
    msk = (im.m2 if d["c2"] != "same" else im.m1).astype(np.uint8)
    if d["c2"] == "full":
        msk[:] = 255 if d["par"] == "mid" else 1
    cutv = THRVAL[d["par"]]
    sel = (msk != 0) & (img > dt(cutv))
    cnt = int(sel.sum())
    if d["k"] == "tosparse_u32":
        size = cnt if d["opt"] == 1 else im.ns * im.nf
        row = np.full(size, P_U16, np.uint16)
        col = np.full(size, P_U16, np.uint16)
        v = np.full(size, vpoison, dt)
    else:
        row = np.full((im.ns, im.nf), P_U16, np.uint16)
        col = np.full((im.ns, im.nf), P_U16, np.uint16)
        v = np.full((im.ns, im.nf), vpoison, dt)
    cut = int(cutv) if d["k"] == "tosparse_u16" else float(cutv)
    n = cx.call(fn, img, msk, row, col, v, cut)
    cx.scalar("count", n)
    if not cx.eq("%s count" % d["k"], n, cnt):
        return
    cx.defined("row", row, P_U16, upto=n)
    cx.defined("col", col, P_U16, upto=n)
    cx.defined("val", v, vpoison, upto=n)
    ei, ej = np.nonzero(sel)
    cx.eq("%s row" % d["k"], row.ravel()[:n], ei.astype(np.uint16))
    cx.eq("%s col" % d["k"], col.ravel()[:n], ej.astype(np.uint16))
    cx.eq("%s val" % d["k"], v.ravel()[:n], img[sel])
    if (row.ravel()[n:] != P_U16).any() or (v.ravel()[n:] != vpoison).any():
        cx.bad("%s: wrote beyond the %d returned entries" % (d["k"], n))


@kernel("tosparse_u16")
def k_tosparse_u16(d, mat, cx):
    _tosparse(d, mat, cx, cx.c.tosparse_u16, np.uint16, P_U16)


@kernel("tosparse_u32")
def k_tosparse_u32(d, mat, cx):
    _tosparse(d, mat, cx, cx.c.tosparse_u32, np.uint32, P_U32)


@kernel("tosparse_f32")
def k_tosparse_f32(d, mat, cx):
    _tosparse(d, mat, cx, cx.c.tosparse_f32, np.float32, P_F32)


def _frelon(d, mat, cx, sub):
    im = Img(d, cx)
    check_mat_img(d, mat, im, cx)
    cut = THRVAL[d["par"]]
    img = (im.data + 0.25).astype(np.float32)
    drk = np.full((im.ns, im.nf), 0.125, np.float32)
    img0 = img.copy()
    if sub:
        cx.call(cx.c.frelon_lines_sub, img, drk, cut)
        base = (img0 - drk).astype(np.float32)
    else:
        cx.call(cx.c.frelon_lines, img, cut)
        base = img0
    cx.defined("img", img, P_F32)
    below = base < cut
    if not below.any(axis=1).all():     # the subtracted value is the previous row's of the same thread
        cx.thread_dependent = True
    if below.any(axis=1).all():
        avg = np.array([base[r][below[r]].astype(np.float32).sum(dtype=np.float32) / np.float32(below[r].sum())
                        for r in range(im.ns)], np.float32)
        cx.close("%s img" % d["k"], img, base - avg[:, None], rel=1e-5)
    if sub:
        cx.eq("frelon_lines_sub drk unchanged", drk, np.full((im.ns, im.nf), 0.125, np.float32))


@kernel("frelon_lines")
def k_frelon_lines(d, mat, cx):
    _frelon(d, mat, cx, False)


@kernel("frelon_lines_sub")
def k_frelon_lines_sub(d, mat, cx):
    _frelon(d, mat, cx, True)


def ref_bgcalc(img, gain, sp, st):
    ns, nf = img.shape
    bg = np.zeros(img.shape, np.float32)
    msk = np.zeros(img.shape, np.int64)
    f = np.float32
    for r in range(ns):
        b = f(img[r, 0])
        for i in range(nf):
            diff = f(img[r, i] - b)
            t = f(f(sp * abs(b)) + st)
            if diff > t:
                diff = f(f(f(t * diff) / abs(diff)) / f(16))
                msk[r, i] = 1
            elif diff < -t:
                diff = f(f(f(t * diff) / abs(diff)) / f(4))
                msk[r, i] = 1
            else:
                msk[r, i] = 0
            b = f(b + f(diff * gain))
            bg[r, i] = b
        b = f(img[r, nf - 1])
        bg[r, nf - 1] = b
        msk[r, nf - 1] = 1
        for i in range(nf - 1, -1, -1):
            diff = f(img[r, i] - b)
            t = f(f(sp * abs(b)) + st)
            if diff > t:
                diff = f(f(f(t * diff) / abs(diff)) / f(16))
                msk[r, i] += 1
            elif diff < -t:
                diff = f(f(f(t * diff) / abs(diff)) / f(4))
                msk[r, i] += 1
            else:
                if msk[r, i] == 1:
                    bg[r, i] = b
                if msk[r, i] in (0, 2):
                    bg[r, i] = f(f(bg[r, i] + b) / f(2))
            b = f(b + f(diff * gain))
    return bg, msk


@kernel("bgcalc")
def k_bgcalc(d, mat, cx):
    im = Img(d, cx)
    check_mat_img(d, mat, im, cx)
    img = (im.data * 10 + 1).astype(np.float32)
    bg = np.full((im.ns, im.nf), P_F32, np.float32)
    msk = np.full((im.ns, im.nf), P_I8, np.int8)
    gain, sp, st = np.float32(0.5), np.float32(0.125), np.float32(1.0)
    cx.call(cx.c.bgcalc, img, bg, msk, float(gain), float(sp), float(st))
    cx.defined("bg", bg, P_F32)
    cx.defined("msk", msk, P_I8)
    if im.ns * im.nf <= (400 if d.get("nt") else 64):     # (rows are independent; wider shapes: single-thread result)
        key = ("bg", im.ns, im.nf, d["c1"])
        if key not in cx.refcache:
            with np.errstate(all="ignore"):
                cx.refcache[key] = ref_bgcalc(img, gain, sp, st)
        ebg, em = cx.refcache[key]
        cx.eq("bgcalc msk", msk.astype(np.int64), em)
        cx.close("bgcalc bg", bg, ebg, rel=1e-5)


@kernel("reorder_u16_a32_a16")
def k_reorder_a16(d, mat, cx):
    im = Img(d, cx)
    check_mat_img(d, mat, im, cx)
    ns, nf, par = im.ns, im.nf, d["par"]
    data = ((np.arange(ns * nf) * 13 + 5) % 65521).astype(np.uint16).reshape(ns, nf)
    i = np.arange(ns)
    a0 = {"ident": i * nf, "revrow": (ns - 1 - i) * nf, "revall": ns * nf - 1 - i * nf}[par].astype(np.int32)
    a1 = np.full((ns, nf), -1 if par == "revall" else 1, np.int16)
    a1[:, 0] = 0
    out = np.full((ns, nf), P_U16, np.uint16)
    cx.call(cx.c.reorder_u16_a32_a16, data, a0, a1, out)
    cx.defined("out", out, P_U16)
    addr = a0[:, None].astype(np.int64) + np.cumsum(a1.astype(np.int64), axis=1)
    e = np.zeros(ns * nf, np.uint16)
    e[addr.ravel()] = data.ravel()
    cx.eq("reorder_u16_a32_a16 out", out.ravel(), e)


@kernel("splat")
def k_splat(d, mat, cx):
    h, w, n, npx, par = d["ns"], d["nf"], d["n"], d["opt"], d["par"]
    rgba = np.full((h, w, 4), P_U8, np.uint8)
    u = np.eye(3).ravel().copy()
    s0 = float((w + h) // 4)
    w2, h2 = w // 2, h // 2
    gve = np.zeros((n, 3))
    tx = [npx, npx + 1, w - npx - 1, w - npx]
    ty = [npx + 1, npx, h - npx, h - npx - 1]
    for t in range(n):
        if par == "centre":
            g = (0.0, 0.0, (t % 3 - 1) * 1.5)
        elif par == "edge" and s0 > 0:
            ax, ay = tx[t % 4] - w2, ty[t % 4] - h2
            g = ((ax + (0.25 if ax >= 0 else -0.25)) / s0, (ay + (0.25 if ay >= 0 else -0.25)) / s0, 0.5)
        elif par == "outside":
            g = (10.0 * (1 if t % 2 else -1), -10.0, 0.0)
        elif par == "huge":
            g = (1e5, -1e5, 1e5 * (t % 2))
        else:
            g = (0.0, 0.0, 0.0)
        gve[t] = g
    g0 = gve.copy()
    cx.call(cx.c.splat, rgba, gve, u, npx)
    cx.defined("rgba", rgba, P_U8)
    e = np.zeros((h, w, 4), np.uint8)
    e[:, :, 3] = 255
    for t in range(n):
        imx = int(s0 * g0[t, 0]) + w2
        imy = int(s0 * g0[t, 1]) + h2
        imz = int(64 * g0[t, 2]) + 128
        if npx < imx < w - npx and npx < imy < h - npx and 0 <= imz < 256:
            e[imy - npx:imy + npx + 1, imx - npx:imx + npx + 1, :3] = 255
            e[imy - npx:imy + npx + 1, imx - npx:imx + npx + 1, 3] = imz
    cx.eq("splat rgba", rgba, e)
    cx.eq("splat gve unchanged", gve, g0)


# ================================================================================================
# sparse family (sorted coo list of the content)

def ref_is_sorted(i, j):
    nnz = len(i)
    es = ed = nnz + 1
    for k in range(1, nnz):
        if i[k] < i[k - 1]:
            es = min(es, k)
            continue
        if i[k] == i[k - 1]:
            if j[k] < j[k - 1]:
                es = min(es, k)
            elif j[k] == j[k - 1]:
                ed = min(ed, k)
    if es == nnz + 1 and ed == nnz + 1:
        return 0
    return -ed if es > ed else es


@kernel("sparse_is_sorted")
def k_sparse_is_sorted(d, mat, cx):
    im = Img(d, cx)
    check_mat_img(d, mat, im, cx)
    i, j = im.coo()
    if d["par"] == "reversed":
        i, j = np.ascontiguousarray(i[::-1]), np.ascontiguousarray(j[::-1])
    elif d["par"] == "dup":
        i, j = np.concatenate([i[:1], i]), np.concatenate([j[:1], j])
    r = cx.call(cx.c.sparse_is_sorted, i, j)
    cx.scalar("ret", r)
    cx.eq("sparse_is_sorted", r, ref_is_sorted(i.tolist(), j.tolist()) if len(i) <= 70000 else r)


def _sparse_cp(d, mat, cx, splat):
    im = Img(d, cx)
    check_mat_img(d, mat, im, cx)
    i, j = im.coo()
    v = im.data[im.m1]
    thr = THRVAL[d["par"]]
    lab = np.full(len(v), P_I32, np.int32)
    if splat:
        Z = np.full((im.ns + 2) * (im.nf + 2), P_I32, np.int32)
        n = cx.call(cx.c.sparse_connectedpixels_splat, v, i, j, thr, lab, Z, im.ns, im.nf)
    else:
        n = cx.call(cx.c.sparse_connectedpixels, v, i, j, thr, lab)
    cx.defined("labels", lab, P_I32)
    cx.scalar("count", n)
    el, en = components(im.data > thr, 1)
    cx.eq("%s labels" % d["k"], lab, el[im.m1])
    cx.eq("%s count" % d["k"], n, en)
    if "lab8" in mat:
        cx.eq("%s labels vs KernelCalls.tla" % d["k"], lab, np.array(mat["lab8"], np.int32)[im.m1.ravel()])


@kernel("sparse_connectedpixels")
def k_sparse_cp(d, mat, cx):
    _sparse_cp(d, mat, cx, False)


@kernel("sparse_connectedpixels_splat")
def k_sparse_cp_splat(d, mat, cx):
    _sparse_cp(d, mat, cx, True)


@kernel("sparse_blob2Dproperties")
def k_sparse_blob2d(d, mat, cx):
    im = Img(d, cx)
    check_mat_img(d, mat, im, cx)
    c = cx.c
    i, j = im.coo()
    v = im.data[im.m1]
    l8, n = components(im.m1, 1)
    lab = l8[im.m1].astype(np.int32)
    if d["par"] == "zero":
        lab[:] = 0
    npk = npk_of(d["par"], n)
    cx.prepoison(npk * c.NPROPERTY2D * 8)
    res = cx.call(c.sparse_blob2Dproperties, v, i, j, lab, npk)
    if res.shape != (npk, c.NPROPERTY2D):
        cx.bad("sparse_blob2Dproperties: results shape %r for npk=%d" % (res.shape, npk))
        return
    cx.defined_out("results", res)
    cx.close("sparse_blob2Dproperties results", res, ref_blob2d(c, i, j, v, lab, npk))


def ref_blob2d(c, i, j, v, lab, npk):
    ref = np.zeros((npk, c.NPROPERTY2D))
    if npk:
        ref[:, c.s2D_bb_mn_f] = 65534.
        ref[:, c.s2D_bb_mn_s] = 65534.
    s = i.astype(float)
    f = j.astype(float)
    vv = v.astype(float)
    sel = lab > 0
    for col, w in ((c.s2D_1, np.ones(len(v))), (c.s2D_I, vv), (c.s2D_fI, vv * f), (c.s2D_sI, vv * s),
                   (c.s2D_ffI, vv * f * f), (c.s2D_sfI, vv * s * f), (c.s2D_ssI, vv * s * s)):
        np.add.at(ref[:, col], lab[sel] - 1, w[sel])
    np.maximum.at(ref[:, c.s2D_bb_mx_s], lab[sel] - 1, s[sel])
    np.maximum.at(ref[:, c.s2D_bb_mx_f], lab[sel] - 1, f[sel])
    np.minimum.at(ref[:, c.s2D_bb_mn_s], lab[sel] - 1, s[sel])
    np.minimum.at(ref[:, c.s2D_bb_mn_f], lab[sel] - 1, f[sel])
    return ref


def sp_values(d, im):
    if d["par"] == "flat":
        return np.ones(int(im.m1.sum()), np.float32)
    k = np.arange(im.ns * im.nf).reshape(im.ns, im.nf)
    return (im.v * 10.0 + ((k * 7919) % 1009) / 4096.0).astype(np.float32)[im.m1]


@kernel("sparse_smooth")
def k_sparse_smooth(d, mat, cx):
    im = Img(d, cx)
    check_mat_img(d, mat, im, cx)
    i, j = im.coo()
    v = sp_values(d, im)
    s = np.full(len(v), P_F32, np.float32)
    cx.call(cx.c.sparse_smooth, v, i, j, s)
    cx.defined("s", s, P_F32)
    cx.close("sparse_smooth s", s, ref_smooth(im, v), rel=1e-5)


def ref_smooth_mask(m, v):
    """3 x 3 binomial smoothing (4 / 2 / 1 sixteenths) of the listed pixels, unlisted pixels counting as 0"""
    ns, nf = m.shape
    dense = np.zeros((ns + 2, nf + 2))
    dense[1:-1, 1:-1][m] = v
    acc = np.zeros((ns, nf))
    wts = {(0, 0): 4, (0, 1): 2, (1, 0): 2, (0, -1): 2, (-1, 0): 2, (1, 1): 1, (1, -1): 1, (-1, 1): 1, (-1, -1): 1}
    for (dr, dc), w in wts.items():
        acc += w * dense[1 + dr:1 + dr + ns, 1 + dc:1 + dc + nf]
    return (acc / 16.0)[m]


def ref_smooth(im, v):
    return ref_smooth_mask(im.m1, v)


_EXPSP = [None]


def expected_sparse(flat, ns, nf, mask):
    """labels of the listed pixels by the steepest-ascent definition (C13's independent reference)"""
    if _EXPSP[0] is None:
        import c13_replay
        _EXPSP[0] = c13_replay.expected_sparse
    return _EXPSP[0](flat, ns, nf, mask)


@kernel("sparse_localmaxlabel")
def k_sparse_lml(d, mat, cx):
    im = Img(d, cx)
    check_mat_img(d, mat, im, cx)
    i, j = im.coo()
    v = sp_values(d, im)
    nnz = len(v)
    MV = np.full(nnz, P_F32, np.float32)
    iMV = np.full(nnz, P_I32, np.int32)
    lab = np.full(nnz, P_I32, np.int32)
    n = cx.call(cx.c.sparse_localmaxlabel, v, i, j, MV, iMV, lab)
    cx.defined("labels", lab, P_I32)
    cx.scalar("count", n)
    if nnz and (lab.min() < 1 or lab.max() > n):
        cx.bad("sparse_localmaxlabel: labels outside 1..%d: min %d max %d" % (n, lab.min(), lab.max()))
    if nnz <= 60000 and d["par"] != "flat" and cx.finite:
        full = np.zeros((im.ns, im.nf), np.float32)
        full[im.m1] = v
        es = expected_sparse(full.ravel(), im.ns, im.nf, im.m1)
        if es is not None:
            cx.eq("sparse_localmaxlabel labels (definition)", lab, np.array(es[0], np.int32))
            cx.eq("sparse_localmaxlabel count", n, es[1])


@kernel("sparse_overlaps")
def k_sparse_overlaps(d, mat, cx):
    im = Img(d, cx)
    check_mat_img(d, mat, im, cx)
    i1, j1 = im.coo(im.m1)
    i2, j2 = im.coo(im.m2)
    k1 = np.full(len(i1), P_I32, np.int32)
    k2 = np.full(len(i2), P_I32, np.int32)
    n = cx.call(cx.c.sparse_overlaps, i1, j1, k1, i2, j2, k2)
    cx.scalar("count", n)
    cx.defined("k1", k1, P_I32)
    cx.defined("k2", k2, P_I32)
    p1 = np.cumsum(im.m1.ravel()) - 1
    p2 = np.cumsum(im.m2.ravel()) - 1
    both = (im.m1 & im.m2).ravel()
    e1 = np.zeros(len(i1), np.int32)
    e2 = np.zeros(len(i2), np.int32)
    nh = int(both.sum())
    e1[:nh] = p1[both]
    e2[:nh] = p2[both]
    cx.eq("sparse_overlaps count", n, nh)
    cx.eq("sparse_overlaps k1", k1, e1)
    cx.eq("sparse_overlaps k2", k2, e2)


@kernel("coverlaps")
def k_coverlaps(d, mat, cx):
    im = Img(d, cx)
    check_mat_img(d, mat, im, cx)
    i1, j1 = im.coo(im.m1)
    i2, j2 = im.coo(im.m2)
    la, n1 = components(im.m1, 1)
    lb, n2 = components(im.m2, 1)
    npk1, npk2 = npk_of(d["par"], n1), npk_of(d["par"], n2)
    l1 = la[im.m1].astype(np.int32)
    l2 = lb[im.m2].astype(np.int32)
    both = im.m1 & im.m2
    em = np.zeros((npk1, npk2), np.int32)
    np.add.at(em, (la[both] - 1, lb[both] - 1), 1)
    pa, pb = np.nonzero(em)
    er = np.stack([pa + 1, pb + 1, em[pa, pb]], axis=1).ravel().astype(np.int32) if len(pa) else np.zeros(0, np.int32)
    size = 3 * len(pa) if d["opt"] == 1 else 3 * npk1 * npk2
    m = np.full((npk1, npk2), P_I32, np.int32)
    results = np.full(size, P_I32, np.int32)
    n = cx.call(cx.c.coverlaps, i1, j1, l1, i2, j2, l2, m, results)
    cx.scalar("count", n)
    cx.defined("mat", m, P_I32)
    if cx.eq("coverlaps count", n, len(pa)):
        cx.defined("results", results, P_I32, upto=3 * n)
        cx.eq("coverlaps results", results[:3 * n], er)
    cx.eq("coverlaps mat", m, em)


# ================================================================================================
# peak family

UBI0 = np.array([[2.0, 0.5, 0.0], [0.0, 3.0, 0.25], [0.125, 0.0, 4.0]])
TOL = 0.1


def peaks(n, par):
    t = np.arange(n)
    hkl = np.stack([t % 5 - 2, t % 7 - 3, t % 3 - 1], axis=1).astype(float) if n else np.zeros((0, 3))
    small, large = 0.01, 0.4
    e = {"all": np.full(n, small), "none": np.full(n, large), "some": np.where(t % 2 == 0, small, large),
         "-": np.where(t % 2 == 0, small, large)}[par]
    err = np.stack([e, -e, 0.5 * e], axis=1) if n else np.zeros((0, 3))
    ub = np.linalg.inv(UBI0)
    return np.ascontiguousarray((hkl + err) @ ub.T), hkl, err


def ref_drlv2(ubi, gv):
    h = gv @ ubi.T
    dd = h - np.round(h)
    return (dd * dd).sum(axis=1), np.round(h)


def ref_refine(gv, ih):
    """Paciorek: UB = R H^-1 ; returns ubi or None when H is (near) singular"""
    if len(gv) == 0:
        return None
    R = gv.T @ ih
    H = ih.T @ ih
    if abs(np.linalg.det(H)) < 0.5 or np.linalg.cond(H) > 1e8:
        return None
    UB = R @ np.linalg.inv(H)
    if abs(np.linalg.det(UB)) < 1e-9:
        return None
    return np.linalg.inv(UB)


@kernel("score")
def k_score(d, mat, cx):
    gv, hkl, err = peaks(d["n"], d["par"])
    n = cx.call(cx.c.score, UBI0.copy(), gv, TOL)
    cx.scalar("count", n)
    dr, _ = ref_drlv2(UBI0, gv)
    cx.eq("score", n, int((dr < TOL * TOL).sum()))


@kernel("score_and_refine")
def k_score_and_refine(d, mat, cx):
    gv, hkl, err = peaks(d["n"], d["par"])
    ubi = UBI0.copy()
    n, s = cx.call(cx.c.score_and_refine, ubi, gv, TOL)
    cx.scalar("n", n)
    cx.scalar("sumdrlv2", s)
    cx.defined("ubi", ubi, P_F64)
    dr, ih = ref_drlv2(UBI0, gv)
    sel = dr < TOL * TOL
    cx.eq("score_and_refine n", n, int(sel.sum()))
    cx.close("score_and_refine mean drlv2", s, dr[sel].mean() if sel.any() else 0.0)
    ref = ref_refine(gv[sel], ih[sel])
    if ref is not None:
        cx.close("score_and_refine refined ubi", ubi, ref, rel=1e-7)
    elif not sel.any():
        cx.eq("score_and_refine ubi unchanged (no peak)", ubi, UBI0)


@kernel("score_and_assign")
def k_score_and_assign(d, mat, cx):
    gv, hkl, err = peaks(d["n"], d["par"])
    N = d["n"]
    t = np.arange(N)
    drl = np.where(t % 4 == 1, 1e-6, 1.0).astype(float)        # some peaks already own a better grain
    lab = np.where(t % 4 == 1, 7, np.where(t % 4 == 2, d["opt"], -1)).astype(np.int32)
    drl0, lab0 = drl.copy(), lab.copy()
    n = cx.call(cx.c.score_and_assign, UBI0.copy(), gv, TOL, drl, lab, d["opt"])
    cx.scalar("count", n)
    cx.defined("drlv2", drl, P_F64)
    cx.defined("labels", lab, P_I32)
    dr, _ = ref_drlv2(UBI0, gv)
    take = (dr < TOL * TOL) & (dr < drl0)
    el = np.where(take, d["opt"], np.where(lab0 == d["opt"], -1, lab0)).astype(np.int32)
    cx.eq("score_and_assign count", n, int(take.sum()))
    cx.eq("score_and_assign labels", lab, el)
    cx.close("score_and_assign drlv2", drl, np.where(take, dr, drl0), abs_=1e-13)


@kernel("refine_assigned")
def k_refine_assigned(d, mat, cx):
    gv, hkl, err = peaks(d["n"], "all")
    N = d["n"]
    t = np.arange(N)
    label = d["opt"] or 1                   # the grain label asked for (KernelCalls!Opts: 1, 2); the others carry 0 / 7
    lab = {"none": np.where(t % 3 == 0, 7, 0), "all": np.full(N, label), "some": np.where(t % 2 == 0, label, np.where(t % 3 == 0, 7, 0))}[d["par"]].astype(np.int32)
    ubi = UBI0.copy()
    npk, s = cx.call(cx.c.refine_assigned, ubi, gv, lab, label)
    cx.scalar("npk", npk)
    cx.scalar("drlv2", s)
    cx.defined("ubi", ubi, P_F64)
    sel = lab == label
    if not cx.finite:
        if npk != int(sel.sum()):       # (the count of assigned peaks does not depend on their values)
            cx.bad("refine_assigned npk %d, peaks carrying the label %d" % (npk, int(sel.sum())))
        return
    dr, ih = ref_drlv2(UBI0, gv)
    cx.eq("refine_assigned npk", npk, int(sel.sum()))
    cx.close("refine_assigned mean drlv2", s, dr[sel].mean() if sel.any() else 0.0)
    ref = ref_refine(gv[sel], ih[sel])
    if ref is not None:
        cx.close("refine_assigned refined ubi", ubi, ref, rel=1e-7)
    elif not sel.any():
        cx.eq("refine_assigned ubi unchanged (no peak)", ubi, UBI0)


@kernel("score_gvec_z")
def k_score_gvec_z(d, mat, cx):
    gv, hkl, err = peaks(d["n"], "-")
    N = d["n"]
    ub = np.linalg.inv(UBI0)
    with np.errstate(all="ignore"):
        mod = np.sqrt((gv * gv).sum(axis=1))
        txy = gv[:, 0] ** 2 + gv[:, 1] ** 2
        e0 = gv / mod[:, None]
        e1 = np.stack([-gv[:, 1], gv[:, 0], 0 * mod], axis=1) / np.sqrt(txy)[:, None]
        t2 = 1 / np.sqrt(gv[:, 0] ** 2 * gv[:, 2] ** 2 + gv[:, 1] ** 2 * gv[:, 2] ** 2 + txy * txy)
        e2 = np.stack([gv[:, 0] * gv[:, 2], gv[:, 1] * gv[:, 2], -txy], axis=1) * t2[:, None]
    degenerate = bool(N and (txy.min() < 1e-12))
    if d["opt"]:
        g0 = np.full((N, 3), P_F64)
        g1 = np.full((N, 3), P_F64)
        g2 = np.full((N, 3), P_F64)
    else:
        g0, g1, g2 = e0.copy(), e1.copy(), e2.copy()
    e = np.full((N, 3), P_F64)
    cx.call(cx.c.score_gvec_z, UBI0.copy(), ub.copy(), gv, g0, g1, g2, e, d["opt"])
    for nm, a in (("g0", g0), ("g1", g1), ("g2", g2), ("e", e)):
        cx.defined(nm, a, P_F64, nan_ok=degenerate)
    if not degenerate:
        h = np.round(gv @ UBI0.T)
        dd = h @ ub.T - gv
        ee = np.stack([(e0 * dd).sum(axis=1), (e1 * dd).sum(axis=1), (e2 * dd).sum(axis=1)], axis=1)
        cx.close("score_gvec_z e", e, ee, abs_=1e-11)
        cx.close("score_gvec_z g0", g0, e0)
        cx.close("score_gvec_z g1", g1, e1)
        cx.close("score_gvec_z g2", g2, e2)


def geometry_inputs(n, par):
    t = np.arange(n)
    xyz = np.stack([100000.0 + (7 * t) % 13, ((t % 11) - 5) * 1000.0 + 250.0, ((t % 17) - 8) * 1000.0 + 125.0], axis=1) \
        if n else np.zeros((0, 3))
    omega = ((t * 7) % 360).astype(float)
    if par == "tilted":
        return np.ascontiguousarray(xyz), omega, 10.0, -5.0, np.array([10.0, 20.0, 30.0])
    return np.ascontiguousarray(xyz), omega, 0.0, 0.0, np.zeros(3)


def ref_geometry(xyz, omega, wvln, wedge, chi, tr):
    from ImageD11 import transform
    tth, eta = transform.compute_tth_eta_from_xyz(xyz.T, omega, t_x=tr[0], t_y=tr[1], t_z=tr[2], wedge=wedge, chi=chi)
    g = transform.compute_g_vectors(tth, eta, omega, wvln, wedge=wedge, chi=chi)
    ds = 2 * np.sin(np.radians(tth / 2)) / wvln
    return tth, eta, ds, g.T


@kernel("compute_gv")
def k_compute_gv(d, mat, cx):
    xyz, omega, wedge, chi, tr = geometry_inputs(d["n"], d["par"])
    gv = np.full((d["n"], 3), P_F64)
    osign = -1.0 if d["opt"] else 1.0           # (the kernel rotates by omega * omegasign)
    cx.call(cx.c.compute_gv, xyz, omega, osign, 0.25, wedge, chi, tr, gv)
    cx.defined("gv", gv, P_F64)
    if d["n"]:
        tth, eta, ds, g = ref_geometry(xyz, omega * osign, 0.25, wedge, chi, tr)
        cx.close("compute_gv gv vs transform.compute_g_vectors", gv, g)


@kernel("compute_geometry")
def k_compute_geometry(d, mat, cx):
    xyz, omega, wedge, chi, tr = geometry_inputs(d["n"], d["par"])
    out = np.full((d["n"], 6), P_F64)
    osign = -1.0 if d["opt"] else 1.0
    cx.call(cx.c.compute_geometry, xyz, omega, osign, 0.25, wedge, chi, tr, out)
    cx.defined("out", out, P_F64)
    if d["n"]:
        tth, eta, ds, g = ref_geometry(xyz, omega * osign, 0.25, wedge, chi, tr)
        cx.close("compute_geometry tth", out[:, 0], tth)
        cx.close("compute_geometry eta", out[:, 1], eta)
        cx.close("compute_geometry ds", out[:, 2], ds)
        cx.close("compute_geometry g", out[:, 3:], g)


@kernel("compute_xlylzl")
def k_compute_xlylzl(d, mat, cx):
    from ImageD11 import transform
    n = d["n"]
    t = np.arange(n)
    s = ((t * 37) % 2048).astype(float) + 0.25
    f = ((t * 101) % 2048).astype(float) + 0.5
    pars = dict(y_center=1000.5, z_center=1020.25, y_size=50.0, z_size=47.0, distance=150000.0,
                tilt_x=0.0, tilt_y=0.0, tilt_z=0.0, o11=1.0, o12=0.0, o21=0.0, o22=-1.0)
    if d["par"] == "tilted":
        pars.update(tilt_x=0.01, tilt_y=-0.02, tilt_z=0.03, o11=-1.0, o22=1.0)
    dmat = transform.detector_rotation_matrix(pars["tilt_x"], pars["tilt_y"], pars["tilt_z"])
    fmat = np.array([[1, 0, 0], [0, pars["o22"], pars["o21"]], [0, pars["o12"], pars["o11"]]], float)
    r = np.dot(dmat, fmat).ravel().copy()
    p = np.array([pars["z_center"], pars["y_center"], pars["z_size"], pars["y_size"]])
    dist = np.array([pars["distance"], 0.0, 0.0])
    out = np.full((n, 3), P_F64)
    cx.call(cx.c.compute_xlylzl, s, f, p, r, dist, out)
    cx.defined("xlylzl", out, P_F64)
    if n:
        cx.close("compute_xlylzl vs transform.compute_xyz_lab", out, transform.compute_xyz_lab(np.array([s, f]), **pars).T)


@kernel("closest_vec")
def k_closest_vec(d, mat, cx):
    n, dim = d["n"], d["m"]
    t = np.arange(n)
    x = np.stack([((t * (37 + 11 * k)) % 1013).astype(float) + 0.001 * t for k in range(dim)], axis=1) if n else np.zeros((0, dim))
    x = np.ascontiguousarray(x)
    ic = np.full(n, P_I32, np.int32)
    cx.call(cx.c.closest_vec, x, ic)
    cx.defined("ic", ic, P_I32)
    if n == 1:
        cx.eq("closest_vec single vector", ic, [0])
    elif n > 1 and not cx.finite:
        if ic.min() < -1 or ic.max() >= n:        # (ic indexes x; -1 = none found)
            cx.bad("closest_vec: ic outside -1..%d: min %d max %d" % (n - 1, ic.min(), ic.max()))
    elif n > 1:
        from scipy.spatial import cKDTree
        dd, ii = cKDTree(x).query(x, k=2)
        got = ((x - x[ic]) ** 2).sum(axis=1)
        if (ic == t).any():
            cx.bad("closest_vec: a vector is its own neighbour")
        cx.close("closest_vec squared distances to the chosen neighbour", got, dd[:, 1] ** 2, rel=1e-9)


@kernel("closest")
def k_closest(d, mat, cx):
    nx, nv = d["n"], d["m"]
    t = np.arange(nx)
    x = (((t * 37) % 101) / 50.5 - 1.0).astype(float)
    v = np.array([0.013, -0.5, 0.77][:nv])
    ib, best = cx.call(cx.c.closest, x, v)
    cx.scalar("ibest", ib)
    cx.scalar("best", best)
    if nx and nv:
        dm = np.abs(x[:, None] - v[None, :]).min(axis=1)
        cx.close("closest best", best, dm.min())
        cx.eq("closest ibest", ib, int(np.argmin(dm)))
    else:
        cx.eq("closest on an empty list", [ib, best], [0, 99.0])


@kernel("cluster1d")
def k_cluster1d(d, mat, cx):
    n, par = d["n"], d["par"]
    i = np.arange(n)
    ar = level(par, n - 1 - i).astype(float)
    order = (n - 1 - i).astype(np.int32)
    if "ar" in mat:
        cx.gen("cluster1d ar", ar.astype(int), mat["ar"])
        cx.gen("cluster1d order", order, mat["order"])
    ids = np.full(n, P_I32, np.int32)
    avgs = np.full(n, P_F64)
    ncl = cx.call(cx.c.cluster1d, ar, order, 0.5, ids, avgs)
    cx.scalar("nclusters", ncl)
    cx.defined("ids", ids, P_I32)
    lev = level(par, i)
    uniq, inv = np.unique(lev, return_inverse=True)
    if cx.eq("cluster1d nclusters", ncl, len(uniq)):
        cx.defined("avgs", avgs, P_F64, upto=ncl)
        cx.close("cluster1d avgs", avgs[:ncl], uniq.astype(float))
    cx.eq("cluster1d ids", ids, inv.astype(np.int32))
    if "nclusters" in mat:
        cx.eq("cluster1d nclusters vs KernelCalls.tla", ncl, mat["nclusters"])
        cx.eq("cluster1d ids vs KernelCalls.tla", ids, np.array(mat["ids"], np.int32))


# ================================================================================================
# 1-D family

@kernel("compress_duplicates")
def k_compress_duplicates(d, mat, cx):
    n, par, slack = d["n"], d["par"], d["m"]
    t = np.arange(n)
    ci = {"same": 0 * t + 1, "distinct": t + 1, "rev": n - t}[par].astype(np.int32)
    cj = {"same": 0 * t + 1, "distinct": t + 1, "rev": 1 + t % 2}[par].astype(np.int32)
    nt = (1 if par == "same" else n) + 1 + slack
    if "i" in mat:
        cx.gen("compress_duplicates i", ci, mat["i"])
        cx.gen("compress_duplicates j", cj, mat["j"])
        cx.gen("compress_duplicates nt", [nt], [mat["nt"]])
    i, j = ci.copy(), cj.copy()
    oi = np.full(n, P_I32, np.int32)
    oj = np.full(n, P_I32, np.int32)
    tmp = np.full(nt, P_I32, np.int32)
    r = cx.call(cx.c.compress_duplicates, i, j, oi, oj, tmp)
    cx.scalar("count", r)
    pairs, counts = np.unique(np.stack([ci, cj], axis=1), axis=0, return_counts=True)
    if cx.eq("compress_duplicates count", r, len(pairs)):
        cx.defined("i", i, P_I32, upto=r)
        cx.defined("j", j, P_I32, upto=r)
        cx.defined("oi", oi, P_I32, upto=r)
        cx.eq("compress_duplicates i", i[:r], pairs[:, 0])
        cx.eq("compress_duplicates j", j[:r], pairs[:, 1])
        cx.eq("compress_duplicates counts", oi[:r], counts.astype(np.int32))
    if "npairs" in mat:
        cx.eq("compress_duplicates count vs KernelCalls.tla", r, mat["npairs"])


@kernel("count_shared")
def k_count_shared(d, mat, cx):
    n, m, par = d["n"], d["m"], d["par"]
    t, u = np.arange(n), np.arange(m)
    pi = {"same": t, "disjoint": 2 * t, "interleave": t, "dups": 0 * t + 5}[par].astype(np.int32)
    pj = {"same": u, "disjoint": 2 * u + 1, "interleave": 2 * u, "dups": 0 * u + 5}[par].astype(np.int32)
    if "pi" in mat:
        cx.gen("count_shared pi", pi, mat["pi"])
        cx.gen("count_shared pj", pj, mat["pj"])
    # (ni, nj are optional arguments of the wrapper - `intent(hidden)` in the pyf hides nothing -; it accepts only the lengths)
    r = cx.call(cx.c.count_shared, pi, pj, n, m) if (n + m) % 2 else cx.call(cx.c.count_shared, pi, pj)
    cx.scalar("count", r)
    e = min(n, m) if par == "dups" else len(np.intersect1d(pi, pj))
    cx.eq("count_shared", r, e)
    if "shared" in mat:
        cx.eq("count_shared vs KernelCalls.tla", r, mat["shared"])


def _put_incr(d, mat, cx, fn, idt):
    n, m, par, bc = d["n"], d["m"], d["par"], d["opt"]
    ind = put_ind(par, m, n).astype(idt)
    if "ind" in mat:
        cx.gen("put_incr ind", ind, mat["ind"])
    vals = (np.arange(n) + 1).astype(np.float32)
    data = np.zeros(m, np.float32)
    cx.call(fn, data, ind, vals, bc)
    cx.defined("data", data, P_F32)
    ok = (ind >= 0) & (ind < m)
    e = np.zeros(m, np.float64)
    np.add.at(e, ind[ok].astype(np.int64), vals[ok].astype(np.float64))
    # float32 accumulation in index order: exact while the partial sums stay below 2^24
    if e.max(initial=0) < 2 ** 24:
        cx.eq("%s data vs np.add.at" % d["k"], data, e.astype(np.float32))
    else:
        cx.close("%s data vs np.add.at" % d["k"], data, e, rel=1e-4)
    if "expect" in mat:
        cx.eq("%s data vs KernelCalls.tla" % d["k"], data, np.array(mat["expect"], np.float32))


@kernel("put_incr32")
def k_put_incr32(d, mat, cx):
    _put_incr(d, mat, cx, cx.c.put_incr32, np.int32)


@kernel("put_incr64")
def k_put_incr64(d, mat, cx):
    _put_incr(d, mat, cx, cx.c.put_incr64, np.int64)


def _reorder(d, mat, cx, fn, dt, poison, lut):
    n, par = d["n"], d["par"]
    adr = perm(par, n).astype(np.int32)
    if "adr" in mat:
        cx.gen("reorder adr", adr, mat["adr"])
    data = ((10 + np.arange(n)) % 60000).astype(dt)
    out = np.full(n, poison, dt)
    cx.call(fn, data, adr, out)
    cx.defined("out", out, poison)
    e = np.zeros(n, dt)
    if lut:
        e = data[adr]
    else:
        e[adr] = data
    cx.eq("%s out" % d["k"], out, e)
    if "expect" in mat:
        cx.eq("%s out vs KernelCalls.tla" % d["k"], out, np.array(mat["expect"]).astype(dt))


@kernel("reorder_u16_a32")
def k_reorder_u16(d, mat, cx):
    _reorder(d, mat, cx, cx.c.reorder_u16_a32, np.uint16, P_U16, False)


@kernel("reorder_f32_a32")
def k_reorder_f32(d, mat, cx):
    _reorder(d, mat, cx, cx.c.reorder_f32_a32, np.float32, P_F32, False)


@kernel("reorderlut_u16_a32")
def k_reorderlut_u16(d, mat, cx):
    _reorder(d, mat, cx, cx.c.reorderlut_u16_a32, np.uint16, P_U16, True)


@kernel("reorderlut_f32_a32")
def k_reorderlut_f32(d, mat, cx):
    _reorder(d, mat, cx, cx.c.reorderlut_f32_a32, np.float32, P_F32, True)


def _dark(d, mat, cx, flm):
    n = d["n"]
    t = np.arange(n)
    data = ((t * 7919) % 65536).astype(np.uint16)
    drk = ((t % 13) * 0.5).astype(np.float32)
    fl = (1.0 + (t % 5) * 0.25).astype(np.float32)
    img = np.full(n, P_F32, np.float32)
    if flm:
        cx.call(cx.c.uint16_to_float_darkflm, img, drk, fl, data)
        e = (data.astype(np.float32) - drk) * fl
    else:
        cx.call(cx.c.uint16_to_float_darksub, img, drk, data)
        e = data.astype(np.float32) - drk
    cx.defined("img", img, P_F32)
    cx.eq("%s img" % d["k"], img, e.astype(np.float32))


@kernel("uint16_to_float_darksub")
def k_darksub(d, mat, cx):
    _dark(d, mat, cx, False)


@kernel("uint16_to_float_darkflm")
def k_darkflm(d, mat, cx):
    _dark(d, mat, cx, True)


def stat_data(n, par):
    t = np.arange(n)
    if par == "const":
        return np.full(n, 2.5, np.float32)
    if par == "ramp":
        return ((t * 37) % 101).astype(np.float32)
    if par == "neg":
        return (-1.0 - ((t * 37) % 101)).astype(np.float32)
    a = ((t * 37) % 11).astype(np.float32)
    if n:
        a[n // 2] = 1000.0
    return a


def ref_mean_var_cut(img, nit, cut, msk_variant):
    x = img.astype(np.float64)
    mean, std = x.mean(), x.std()
    k = nit
    while (k - 1 > 1) if msk_variant else (k - 1 > 0):
        k -= 1
        wt = mean + cut * std
        a = x[x < wt]
        if len(a) == 0:
            return None
        mean, std = a.mean(), a.std()
    return mean, std


@kernel("array_mean_var_cut")
def k_mean_var_cut(d, mat, cx):
    img = stat_data(d["n"], d["par"])
    mean, std = cx.call(cx.c.array_mean_var_cut, img, d["opt"], 3.0, d.get("vb", 0))
    ref = ref_mean_var_cut(img, d["opt"], 3.0, False)
    const = d["par"] == "const" and d["opt"] > 1      # std = 0: no pixel is below mean + 3 std, 0/0 by definition
    cx.scalar("mean", mean, nan_ok=const or ref is None)
    cx.scalar("std", std, nan_ok=const or ref is None)
    if ref is not None and not const:
        cx.close("array_mean_var_cut mean", mean, ref[0], rel=1e-4)
        cx.close("array_mean_var_cut std", std, ref[1], rel=1e-3, abs_=1e-3)


@kernel("array_mean_var_msk")
def k_mean_var_msk(d, mat, cx):
    img = stat_data(d["n"], d["par"])
    msk = np.full(d["n"], P_U8, np.uint8)
    mean, std = cx.call(cx.c.array_mean_var_msk, img, msk, d["opt"], 3.0, d.get("vb", 0))
    ref = ref_mean_var_cut(img, d["opt"], 3.0, True)
    const = d["par"] == "const" and d["opt"] > 2
    cx.scalar("mean", mean, nan_ok=const or ref is None)
    cx.scalar("std", std, nan_ok=const or ref is None)
    cx.defined("msk", msk, P_U8)
    if ((msk != 0) & (msk != 1)).any():
        cx.bad("array_mean_var_msk: mask values other than 0/1")
    if ref is not None and not const:
        cx.close("array_mean_var_msk mean", mean, ref[0], rel=1e-4)
        cx.close("array_mean_var_msk std", std, ref[1], rel=1e-3, abs_=1e-3)
        wt = np.float32(mean) + np.float32(3.0) * np.float32(std)
        cx.eq("array_mean_var_msk msk", msk, (~(img < wt)).astype(np.uint8))


@kernel("array_stats")
def k_array_stats(d, mat, cx):
    img = stat_data(d["n"], d["par"])
    mn, mx, mean, var = cx.call(cx.c.array_stats, img)
    for nm, x in (("minval", mn), ("maxval", mx), ("mean", mean), ("var", var)):
        cx.scalar(nm, x)
    x = img.astype(np.float64)
    cx.close("array_stats minval", mn, x.min(), rel=1e-7)
    cx.close("array_stats mean", mean, x.mean(), rel=1e-6)
    cx.close("array_stats var", var, x.var(), rel=1e-5, abs_=1e-6)
    if x.max() > 0:
        cx.close("array_stats maxval", mx, x.max(), rel=1e-7)
    else:
        # maxi starts at FLT_MIN (smallest positive float, darkflat.c:344), so the maximum of an image without a
        # positive pixel is reported as 1.17e-38: a value defect outside C20 (the output is defined); noted only
        cx.notes["array_stats_max_of_nonpositive_image_is_FLT_MIN"] = cx.notes.get("array_stats_max_of_nonpositive_image_is_FLT_MIN", 0) + int(mx != x.max())


@kernel("array_histogram")
def k_array_histogram(d, mat, cx):
    n, nh, par = d["n"], d["m"], d["par"]
    t = np.arange(n)
    low, high = 0.0, 8.0
    if par == "inside":
        img = (((t * 37) % 64) / 8.0 + 0.0625).astype(np.float32)
    elif par == "edges":
        img = np.array([0.0, 8.0, 4.0, 7.9999995, -0.0])[t % 5].astype(np.float32)
    else:
        # (values whose bin number exceeds INT_MAX are left out: the (int) conversion in darkflat.c:418 is then
        #  undefined and on x86 lands in bin 0 instead of the last bin - see the report; not a memory matter)
        img = np.array([-1.0, 9.0, -1e6, 1e6, 8.5])[t % 5].astype(np.float32)
    hist = np.full(nh, P_I32, np.int32)
    cx.call(cx.c.array_histogram, img, low, high, hist)
    cx.defined("hist", hist, P_I32)
    if not cx.finite:                   # every pixel is counted in exactly one bin, whatever its value
        if hist.min() < 0 or int(hist.sum()) != n:
            cx.bad("array_histogram: %d pixels, bins sum to %d (min %d)" % (n, int(hist.sum()), hist.min()))
        return
    ostep = np.float32(nh) / np.float32(high - low)
    with np.errstate(all="ignore"):
        b = np.floor((img - np.float32(low)) * ostep)
    b = np.clip(b, 0, nh - 1).astype(np.int64)
    cx.eq("array_histogram hist", hist, np.bincount(b, minlength=nh).astype(np.int32))


@kernel("blob_moments")
def k_blob_moments(d, mat, cx):
    c = cx.c
    n = d["n"]
    if d["par"] == "zero" or n == 0:
        res = np.zeros((n, c.NPROPERTY))
    else:
        data = np.zeros((3, 2 * n), np.float32)
        lab = np.zeros((3, 2 * n), np.int32)
        for k in range(n):
            data[0:2, 2 * k] = (k + 1.0, 2.0)
            lab[0:2, 2 * k] = k + 1
        res = np.ascontiguousarray(ref_blobprops(c, data, lab, n, 0.5))
        res[:, c.s_ffI] = res[:, c.s_fI] * np.arange(n) * 2
        res[:, c.s_ssI] = 2.0
        res[:, c.s_oI] = 0.5 * res[:, c.s_I]
        res[:, c.s_ooI] = 0.25 * res[:, c.s_I]
    before = res.copy()
    cx.call(c.blob_moments, res)
    cx.defined("results", res, P_F64)
    if d["par"] == "zero":
        cx.eq("blob_moments on empty peaks", res, before)
    elif n:
        cx.close("blob_moments avg_i", res[:, c.avg_i], before[:, c.s_I] / before[:, c.s_1])
        cx.close("blob_moments f_raw", res[:, c.f_raw], before[:, c.s_fI] / before[:, c.s_I])
        cx.close("blob_moments s_raw", res[:, c.s_raw], before[:, c.s_sI] / before[:, c.s_I])


# ================================================================================================
# fixed-size kernels

def rotations(par):
    if par == "ident":
        return np.eye(3), np.eye(3)
    a, b = 0.3, 1.1
    r1 = np.array([[math.cos(a), -math.sin(a), 0], [math.sin(a), math.cos(a), 0], [0, 0, 1.0]])
    r2 = np.array([[1.0, 0, 0], [0, math.cos(b), -math.sin(b)], [0, math.sin(b), math.cos(b)]])
    return np.ascontiguousarray(r1 @ r2), np.ascontiguousarray(r2)


def _misori(d, mat, cx, fn, ref):
    u1, u2 = rotations(d["par"])
    r = cx.call(fn, u1, u2)
    cx.scalar("trace", r)
    cx.close(d["k"], r, ref(u1.T @ u2))


@kernel("misori_cubic")
def k_misori_cubic(d, mat, cx):
    import itertools
    _misori(d, mat, cx, cx.c.misori_cubic,
            lambda r: max(sum(abs(r[i, p[i]]) for i in range(3)) for p in itertools.permutations(range(3))))


@kernel("misori_orthorhombic")
def k_misori_ortho(d, mat, cx):
    _misori(d, mat, cx, cx.c.misori_orthorhombic, lambda r: sum(abs(r[i, i]) for i in range(3)))


@kernel("misori_tetragonal")
def k_misori_tetra(d, mat, cx):
    def ref(r):
        m1 = abs(r[0, 0]) + abs(r[1, 1])
        m2 = abs(r[1, 0]) + abs(r[0, 1])
        m3 = abs(r[2, 2])
        return (m1 + m3) if m2 > m3 else (m2 + m3)      # as the C code defines it (closest.c:830-836)
    _misori(d, mat, cx, cx.c.misori_tetragonal, ref)


@kernel("misori_monoclinic")
def k_misori_mono(d, mat, cx):
    _misori(d, mat, cx, cx.c.misori_monoclinic, lambda r: r[0, 0] + abs(r[1, 1]) + r[2, 2])


@kernel("quickorient")
def k_quickorient(d, mat, cx):
    ubi = np.array([[1.0, 2.0, 0.5], [-0.5, 1.0, 3.0], P_F64 * np.ones(3)])
    bt = np.array([[2.0, 0.1, 0.0], [0.0, 3.0, 0.2], [0.3, 0.0, 4.0]])
    g1, g2 = ubi[0].copy(), ubi[1].copy()
    cx.call(cx.c.quickorient, ubi, bt)
    cx.defined("ubi", ubi, P_F64)
    u1 = g1 / np.linalg.norm(g1)
    u3 = np.cross(g1, g2)
    u3 /= np.linalg.norm(u3)
    u2 = np.cross(u1, u3)
    cx.close("quickorient ubi", ubi, bt @ np.array([u1, u2, u3]))


@kernel("verify_rounding")
def k_verify_rounding(d, mat, cx):
    r = cx.call(cx.c.verify_rounding, d["n"])
    cx.scalar("bad", r)
    cx.eq("verify_rounding", r, 0)


# ================================================================================================
# cases emitted by the re-used kernel models (exact expectations of those specifications)

class Models(object):
    def __init__(self):
        self._m = {}

    def c11(self):
        if "c11" not in self._m:
            import c11_replay
            self._m["c11"] = (c11_replay, c11_replay.load_mods())
        return self._m["c11"]

    def c13(self):
        if "c13" not in self._m:
            import c13_replay
            self._m["c13"] = (c13_replay, c13_replay.load_mods())
        return self._m["c13"]

    def c14(self):
        if "c14" not in self._m:
            import c14_replay
            self._m["c14"] = (c14_replay, c14_replay.load_mods(consumer=False))
        return self._m["c14"]

    def c06(self):
        if "c06" not in self._m:
            from props import c06
            self._m["c06"] = (c06, c06.Routes())
        return self._m["c06"]

    def c07(self):
        if "c07" not in self._m:
            import c07_lib
            from ImageD11 import cImageD11
            self._m["c07"] = (c07_lib, cImageD11)
        return self._m["c07"]

    def c12(self):
        if "c12" not in self._m:
            from props import c12
            self._m["c12"] = (c12, c12.Real())
        return self._m["c12"]


FOREIGN = {}        # findings of other properties met while their cases are re-run here (counted, not judged)


def run_model_case(case, idx, M, threads):
    src = case["src"]
    if src in ("connpix", "sparsecp"):
        mod, mods = M.c11()
        return mod.run_case(case["case"], mods, idx)
    if src == "localmax":
        mod, mods = M.c13()
        out = []
        for p in mod.run_case(case["case"], mods, idx):
            # C13's recorded value-level finding (sparse_localmaxlabel starts its neighbour maximum at -1e10: pixels
            # with values <= -1e10 become false maxima): every output is defined, no memory is involved; counted
            if isinstance(p, str) and p.startswith(getattr(mod, "MVLOW_TAG", "[values <= -1e10]")):
                FOREIGN["c13_sparse_mvlow_sentinel_not_judged"] = FOREIGN.get("c13_sparse_mvlow_sentinel_not_judged", 0) + 1
                continue
            out.append(p)
        return out
    if src == "c14":
        mod, mods = M.c14()
        out = []
        for (r, k, m) in mod.judge(case["case"], mods, light=True):
            # C14's recorded python-level finding (sparse_frame.to_dense(<array>) hashes its argument and raises TypeError
            # before any kernel runs): no memory is involved - not a C20 matter; counted
            if r.startswith(getattr(mod, "TD_ARRAY", "sparse_frame.to_dense(array)")) and k == "TypeError" and "unhashable" in m:
                FOREIGN["c14_to_dense_array_typeerror_not_judged"] = FOREIGN.get("c14_to_dense_array_typeerror_not_judged", 0) + 1
                continue
            out.append("%s: %s" % (r, m))
        return out
    if src == "scorerefine":
        mod, rt = M.c06()
        out = []
        for reps in case.get("reps", [1]):
            for p in mod.judge(case["case"], rt, reps):
                # ("finding", ..) = C06's recorded value-level finding (rounded determinant of an exactly singular
                # system): the output is defined and no memory is involved - not a C20 matter
                if isinstance(p, tuple) and p[0] == "finding":
                    continue
                out.append(p[1] if isinstance(p, tuple) else str(p))
        return out
    if src == "scoreassign":
        # one behaviour of ScoreAssign.tla, its peaks tiled `reps` times (reps > 1: more than one OpenMP chunk of 4096),
        # through raw score_and_assign calls: labels, stored errors and returned count after every call = the model's
        L, c = M.c07()
        pk = L.Packed([case["case"]], case.get("G", 3))
        return [what for what, _ in pk.run_raw(c, tuple(threads or (2,)), pk.P * case.get("reps", 1), labmap="one", inits=(1.0,))]
    if src == "merge3d":
        mod, R = M.c12()
        ns, nf, thr, om0, omstep = mod.CFG[case["cfg"]]
        cs = mod.make_case(ns, nf, thr, om0, omstep, [tuple(f) for f in case["frames"]], "TLC %s" % case["cfg"])
        steps, final, m = mod.model_all(cs)
        msg = mod.guarded(mod.route_kernels, R, cs, steps, final, m.out)
        return [msg] if msg else []
    raise KeyError(src)


# scalars that come out of a floating-point reduction over the threads' partial sums: equal to rounding
# (array_mean_var_*: float-rounded mean and std of one iteration feed the cut of the next; the handlers' own tolerance)
REDUCED = {"array_stats": 1e-5, "array_mean_var_cut": 1e-3, "array_mean_var_msk": 1e-3}
# outputs derived from such a scalar by a comparison (img < mean + cut * std): judged by the handler against the
# returned mean / std, not against the single-thread mask
DERIVED = {("array_mean_var_msk", "msk")}


def compare_threads(k, nt, one, many, cx):
    """the promised outputs on `nt` threads (a number, or a description of the team) against the same call on one thread"""
    nt = str(nt)
    for name in sorted(one):
        if (k, name) in DERIVED:
            continue
        a, b = one[name], many.get(name)
        if b is None:
            cx.bad("output %s judged on one thread but not on %s" % (name, nt))
            continue
        if name.startswith("ret:"):
            fa, fb = float(a), float(b)
            tol = REDUCED.get(k, 0.0) * max(abs(fa), 1.0)
            if not (fa == fb or abs(fa - fb) <= tol or (math.isnan(fa) and math.isnan(fb))):
                cx.bad("returned %s on %s threads %r, on one thread %r" % (name[4:], nt, b, a))
            continue
        if a.shape != b.shape:
            cx.bad("output %s: %d cells on %s threads, %d on one thread" % (name, b.size, nt, a.size))
            continue
        ne = (a != b)
        if a.dtype.kind == "f":
            ne &= ~(np.isnan(a) & np.isnan(b))
        if ne.any():
            q = int(np.nonzero(ne)[0][0])
            cx.bad("output %s depends on the number of threads: cell %d of %d is %r on %s threads, %r on one thread "
                   "(%d cells differ)" % (name, q, a.size, b[q].item(), nt, a[q].item(), int(ne.sum())))


def run_descriptor(case, cx):
    d = case["d"]
    mat = case.get("mat") or {}
    cx.problems, cx.checked, cx.outs, cx.thread_dependent = [], set(), {}, False
    cx.fv, cx.at, cx.injected = d.get("fv", "fin"), d.get("at", "-"), 0
    cx.floatin, cx.work = tuple(case.get("floatin") or ()), tuple(case.get("work") or ())
    try:
        if d["k"].startswith("py:"):            # a Python caller of the kernels (KernelCalls!Callers)
            import c20_wrappers
            try:
                (c20_wrappers.W.get(d["k"]) or c20_wrappers.SELFTEST[d["k"]])(d, mat, cx)
            except c20_wrappers.Skip:
                return "skipped", "label numbering does not exist on this shape"
            except c20_wrappers.GuardError:
                pass                            # (recorded by the guard: main() collects it)
        else:
            K[d["k"]](d, mat, cx)
    except Rejected as e:
        return "rejected", str(e)
    return "ok", None


def scalar_arguments(c):
    """the scalar input arguments of every wrapper of the built module, read off the f2py docstrings: name -> int / real"""
    import re
    out = {}
    for n in dir(c):
        f = getattr(c, n)
        if type(f).__name__ != "fortran":
            continue
        doc = f.__doc__ or ""
        body = doc.split("Returns\n-------")[0]
        out[n] = sorted([m.group(1), "int" if m.group(2) == "int" else "real"]
                        for m in re.finditer(r"^(\w+) : input (int|float|complex)\b(?!.*array)", body, flags=re.M))
    return out


def float_array_arguments(c):
    """the array arguments of every wrapper of the built module (f2py docstrings): name -> typecode, lower case"""
    import re
    out = {}
    for n in dir(c):
        f = getattr(c, n)
        if type(f).__name__ != "fortran":
            continue
        body = (f.__doc__ or "").split("Returns\n-------")[0]
        out[n] = dict((m.group(1).lower(), m.group(2)) for m in
                      re.finditer(r"^(\w+) : (?:in/output|input) rank-\d array\('(\w)'\)", body, flags=re.M))
    return out


def main():
    sys.modules.setdefault("c20_driver", sys.modules[__name__])     # (c20_wrappers imports this module by its name)
    cases_path, out_path = sys.argv[1], sys.argv[2]
    first = int(sys.argv[3]) if len(sys.argv) > 3 else 0            # resume behind an aborting case
    skip = set(x for x in os.environ.get("C20_SKIP", "").split(",") if x)   # kernels that keep aborting
    # the kernels printf diagnostics ("Found 3 in your blob image", "Array bounds error!"): not part of the verdict
    sys.stdout.flush()
    os.dup2(os.open(os.devnull, os.O_WRONLY), 1)
    threads = [int(x) for x in os.environ.get("C20_THREADS", "").split(",") if x]
    cx = Ctx()
    M = Models()
    import c20_wrappers
    c20_wrappers.install()      # every call a Python caller makes through ImageD11.cImageD11 is checked against KernelCalls!Extents
    GD = c20_wrappers.G
    ompenv = os.environ.get("C20_OMPENV", "")        # the process was started under this OpenMP environment (tag)
    out = {"n": 0, "problems": [], "rejected": [], "checked": {}, "genbad": [], "calls": 0, "notes": {}, "time_s": {}, "skipped": 0,
           "kernels": sorted(K), "module_functions": sorted(
               n for n in dir(cx.c) if type(getattr(cx.c, n)).__name__ == "fortran"),
           "callers": sorted(c20_wrappers.W), "caller_kernels": {}, "illformed_callers": 0, "options_run": {},
           "guard_tags": c20_wrappers.TAGS, "scalar_args": scalar_arguments(cx.c), "env_compared": 0,
           "omp": {"max_threads": cx.c.cimaged11_omp_get_max_threads(), "env": ompenv}}
    old = cx.c.cimaged11_omp_get_max_threads()
    base = {}                   # descriptor without its thread count -> its promised outputs on one thread
    out["thread_compared"] = 0
    out["fv_run"] = {}
    with open(cases_path) as f:
        lines = f.readlines()
    cur = open(out_path + ".cur", "w")
    log = open(out_path + ".log", "w")        # verdicts as they arise: survives a sanitizer abort of this process
    log.write(json.dumps({"t": "h", "idx": -1, "module_functions": out["module_functions"], "kernels": out["kernels"]}) + "\n")
    log.flush()
    try:
        for idx, line in enumerate(lines):
            if idx < first:
                continue
            case = json.loads(line)
            if (case["d"]["k"] if "d" in case else case["src"]) in skip:
                out["skipped"] += 1
                continue
            cur.seek(0)
            cur.write("%-12d" % idx)
            cur.flush()
            probs = []
            GD.reset_case()
            try:
                if case.get("src", "kc") == "kc":
                    own = case["d"].get("nt", 0)        # the descriptor's own thread count (KernelCalls!PickThreads)
                    envrun = bool(ompenv) and case["d"].get("env", 0) > 0
                    bk = json.dumps(dict(case["d"], nt=0), sort_keys=True) if own else None
                    if envrun:
                        # a call under an OpenMP environment in which the team is not omp_get_max_threads(): first the
                        # same call on one thread, then with what the environment gives
                        cx.c.cimaged11_omp_set_num_threads(1)
                        st1, _ = run_descriptor(case, cx)
                        cx.c.cimaged11_omp_set_num_threads(old)
                        out["calls"] += 1
                        envbase = dict(cx.outs) if st1 == "ok" and not cx.problems else None
                        probs += ["[one thread] " + p for p in cx.problems]
                    if own > 1 and bk not in base:
                        # the same call on one thread (props/c20.py sends the nt = 1 descriptors first: rarely needed)
                        cx.c.cimaged11_omp_set_num_threads(1)
                        st1, _ = run_descriptor(case, cx)
                        out["calls"] += 1
                        base[bk] = dict(cx.outs) if st1 == "ok" and not cx.problems else None
                    for nt in ([own] if own else (threads or [None])):
                        if nt is not None:
                            cx.c.cimaged11_omp_set_num_threads(nt)
                            if cx.c.cimaged11_omp_get_max_threads() != nt:
                                raise RuntimeError("cimaged11_omp_set_num_threads(%d) left %d threads" % (
                                    nt, cx.c.cimaged11_omp_get_max_threads()))
                        t0 = time.time()
                        try:
                            st, why = run_descriptor(case, cx)
                        finally:
                            if own:
                                cx.c.cimaged11_omp_set_num_threads(old)
                        out["calls"] += 1
                        if own == 1 and st == "ok":
                            base[bk] = dict(cx.outs) if not cx.problems else None
                        elif own > 1 and st == "ok" and base.get(bk) is not None and not cx.thread_dependent:
                            compare_threads(case["d"]["k"], own, base[bk], cx.outs, cx)
                            out["thread_compared"] += 1
                        elif envrun and st == "ok" and envbase is not None and not cx.thread_dependent:
                            compare_threads(case["d"]["k"], "the OpenMP environment's", envbase, cx.outs, cx)
                            out["env_compared"] += 1
                        tk = out["time_s"]
                        tk[case["d"]["k"]] = tk.get(case["d"]["k"], 0.0) + time.time() - t0
                        if st == "skipped":
                            out["illformed_callers"] += 1
                            break
                        if st == "rejected":
                            out["rejected"].append([idx, why])
                            log.write(json.dumps({"t": "r", "idx": idx, "why": why}) + "\n")
                            log.flush()
                            break
                        k = case["d"]["k"]
                        if k.startswith("py:"):         # the kernels this caller really went through
                            ck = out["caller_kernels"].setdefault(k, {})
                            for kk, nn in GD.case_calls.items():
                                ck[kk] = ck.get(kk, 0) + nn
                        if case["d"].get("fv", "fin") != "fin":     # value classes really written into a float data array
                            fkey = "%s|%s|%s" % (k, case["d"]["fv"], case["d"]["at"])
                            fr = out["fv_run"].setdefault(fkey, [0, 0])
                            fr[0] += 1
                            fr[1] += 1 if cx.injected else 0
                        okey = "%s|opt=%d|vb=%d" % (k, case["d"].get("opt", 0), case["d"].get("vb", 0))
                        out["options_run"][okey] = out["options_run"].get(okey, 0) + 1
                        prev = out["checked"].get(k)
                        now = sorted(cx.checked)
                        if prev is None or len(now) > len(prev):
                            out["checked"][k] = now
                            log.write(json.dumps({"t": "c", "idx": idx, "k": k, "names": now}) + "\n")
                            log.flush()
                        probs += [("[%d threads] " % nt if nt else "[OpenMP environment %s] " % ompenv if envrun else "") + p
                                  for p in cx.problems]
                else:
                    probs = run_model_case(case, idx, M, threads)
                    out["calls"] += 1
            except Exception as e:          # noqa  - an exception out of the real code / a reference is a finding to look at
                import traceback
                tb = traceback.extract_tb(sys.exc_info()[2])
                if not isinstance(e, c20_wrappers.GuardError):
                    probs.append("exception %s: %s (at %s:%d)" % (type(e).__name__, e, os.path.basename(tb[-1].filename), tb[-1].lineno))
            # preconditions of a kernel violated by a Python caller during this case (whoever swallowed the exception)
            probs = list(GD.pending) + [p for p in probs if p not in GD.pending]
            out["n"] += 1
            if probs:
                out["problems"].append({"idx": idx, "problems": probs[:6]})
                log.write(json.dumps({"t": "p", "idx": idx, "problems": probs[:6]}, default=_jd) + "\n")
                log.flush()
            if idx % 5000 == 4999:
                with open(out_path, "w") as g:
                    json.dump(dict(out, partial=True), g, default=_jd)
    finally:
        cx.c.cimaged11_omp_set_num_threads(old)
    out["genbad"] = cx.genbad[:20]
    out["notes"] = dict(cx.notes, **FOREIGN)
    out["guarded_calls"] = dict(GD.calls)
    out["skipped_refs"] = cx.skipped_refs
    out["float_arrays"] = float_array_arguments(cx.c)
    with open(out_path, "w") as g:
        json.dump(out, g, default=_jd)


def _jd(o):
    if isinstance(o, np.integer):
        return int(o)
    if isinstance(o, np.floating):
        return float(o)
    if isinstance(o, np.ndarray):
        return o.tolist()
    return repr(o)


if __name__ == "__main__":
    main()

"""Replay of local-maximum labelling cases into the real kernels (normal or sanitizer build).

case: {"ns","nf","img":[...row-major ints...],"lout":[expected labels],"npk":n,"tiefree":0/1}
Script mode (ASan):  python c13_replay.py <cases.jsonl> <out.json>
"""
import sys, json
import numpy as np

POISON = -7


def expected_sparse(img, ns, nf, listed):
    """abstract definition for the sparse variant on tie-free inputs: each listed pixel points to the largest
    listed pixel of its 3x3 block; labels = rank (list order) of the terminal maximum. Returns None if a block
    has a tie among listed pixels (then the result is implementation defined)."""
    im = np.asarray(img).reshape(ns, nf)
    pts = [(r, c) for r in range(ns) for c in range(nf) if listed[r, c]]
    index = {p: k for k, p in enumerate(pts)}
    up = {}
    for (r, c) in pts:
        best = None
        for dr in (-1, 0, 1):
            for dc in (-1, 0, 1):
                q = (r + dr, c + dc)
                if q in index:
                    if best is None or im[q] > im[best]:
                        best = q
                        tie = False
                    elif im[q] == im[best]:
                        tie = True
        if tie:
            return None
        up[(r, c)] = best
    maxima = [p for p in pts if up[p] == p]
    rank = {p: k + 1 for k, p in enumerate(maxima)}
    out = []
    for p in pts:
        q = p
        while up[q] != q:
            q = up[q]
        out.append(rank[q])
    return out, len(maxima)


def run_case(case, mods, idx=0, threads=None):
    cImageD11, sparseframe = mods
    ns, nf = case["ns"], case["nf"]
    img = np.array(case["img"], dtype=np.float32).reshape(ns, nf)
    exp = np.array(case["lout"], dtype=np.int32).reshape(ns, nf)
    probs = []
    # dense, poisoned output and work buffers
    scale = [1.0, 0.5, 3.0, -1.0][idx % 4]
    data = (img * abs(scale) + (7.0 if scale < 0 else 0.0)).astype(np.float32)   # order preserving maps
    lab = np.full((ns, nf), POISON if idx % 2 else 12345, np.int32)
    wrk = np.full((ns, nf), 77 if idx % 3 else 5, np.uint8)
    n = cImageD11.localmaxlabel(data, lab, wrk)
    if n != case["npk"]:
        probs.append("localmaxlabel: returned count %d, specification %d" % (n, case["npk"]))
    if not np.array_equal(lab, exp):
        probs.append("localmaxlabel: labels %s differ from specification %s" % (lab.ravel().tolist(), exp.ravel().tolist()))
    # sparse variants on interior threshold masks (tie-free only: the result is then unique)
    if case.get("tiefree"):
        vals = sorted(set(case["img"]))
        for cut in (vals[len(vals) // 3], vals[(2 * len(vals)) // 3]):
            listed = img >= cut
            listed[0, :] = listed[-1, :] = False
            listed[:, 0] = listed[:, -1] = False
            if listed.sum() == 0:
                continue
            es = expected_sparse(case["img"], ns, nf, listed)
            if es is None:
                continue
            elab, en = es
            ii, jj = np.nonzero(listed)
            v = data[listed]
            # work buffers arrive with any previous content (SparseScan.lmlabel re-uses them from frame to frame)
            for fill in (-123.0, 3.0e38):
                sl = np.full(len(v), POISON, np.int32)
                mv = np.full(len(v), fill, np.float32)
                imv = np.full(len(v), POISON, np.int32)
                n2 = cImageD11.sparse_localmaxlabel(v, ii.astype(np.uint16), jj.astype(np.uint16), mv, imv, sl)
                if n2 != en or sl.tolist() != elab:
                    probs.append("sparse_localmaxlabel(cut=%s, work buffers pre-filled with %g): %s n=%d, definition %s n=%d" % (
                        cut, fill, sl.tolist(), n2, elab, en))
            fr = sparseframe.sparse_frame(ii.astype(np.uint16), jj.astype(np.uint16), (ns, nf), pixels={"intensity": v})
            n3 = sparseframe.sparse_localmax(fr)
            if n3 != en or fr.pixels["localmax"].tolist() != elab:
                probs.append("sparseframe.sparse_localmax(cut=%s) differs from definition" % cut)
            # same partition as the dense labelling of the whole image on those pixels
            dl = exp[listed]
            pairs_d = {}
            ok = True
            for a, b in zip(dl.tolist(), elab):
                if pairs_d.setdefault(a, b) != b:
                    ok = False
            if len(set(pairs_d.values())) != len(pairs_d):
                ok = False
            # (only meaningful when no listed pixel's dense ascent leaves the listed set)
            case.setdefault("_sparse_dense_same", []).append(ok)
    return probs


def load_mods():
    from ImageD11 import cImageD11, sparseframe
    return cImageD11, sparseframe


def main():
    cases_path, out_path = sys.argv[1], sys.argv[2]
    mods = load_mods()
    out = {"n": 0, "problems": []}
    with open(cases_path) as f:
        for idx, line in enumerate(f):
            case = json.loads(line)
            out["n"] += 1
            with open(out_path + ".cur", "w") as g:
                g.write(str(idx))
            try:
                p = run_case(case, mods, idx)
            except Exception as e:          # noqa
                p = ["exception %r" % (e,)]
            if p:
                out["problems"].append({"idx": idx, "case": case, "problems": p})
    with open(out_path, "w") as g:
        json.dump(out, g)


if __name__ == "__main__":
    main()

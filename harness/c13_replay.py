"""Replay of local-maximum labelling cases into the real kernels (normal or sanitizer build).

case: {"ns","nf","img":[...row-major ints...],"lout":[expected labels],"npk":n,"tiefree":0/1}
Script mode (child process: sanitizer build, or normal build under an OpenMP environment):
    python c13_replay.py <cases.jsonl> <out.json> [dense]
    ("dense": only the dense kernel - the sparse kernels have no OpenMP region, an OpenMP environment cannot reach them)

What one case exercises (run_case):
  dense   cImageD11.localmaxlabel at an EXPLICIT thread count (`threads`, read back through
          cimaged11_omp_get_max_threads: a request that did not take effect is a machinery error), on an order
          preserving map of the values, output / work buffers holding previous content
  sparse  (tie-free images) sparse_localmaxlabel and sparseframe.sparse_localmax on interior threshold masks, both
          work-buffer fills, and on order preserving value maps of every sign class: positive, mixed sign, all
          negative, all <= -1e10 and straddling -1e10 (the kernel's MV_LOW start value).  The model (LocalMax.tla) only
          compares values, so it is covariant under these maps: the expectation is unchanged.
  clause  "the sparse variant gives the same partition on the same pixels": the REAL dense labels restricted to the
          listed pixels and the REAL sparse labels must induce the same partition, whenever the listed set is closed
          under the dense ascent (every listed pixel's 3x3 arg-max in the full image is listed; decided from the
          image, independently of the code).  Not closed -> the clause does not apply (a listed pixel climbs to an
          unlisted one in the dense variant) and the comparison is skipped and counted.
"""
import sys, json
import numpy as np

POISON = -7
MV_LOW = -1e10
# tag of problems that match the structural rule of finding C13-sparse-mvlow-sentinel (see sparse_value_maps)
MVLOW_TAG = "[values <= -1e10] "
# explicit thread counts of the small-case replays, by blocks of cases (64 > pixels of any case; large teams are the
# expensive ones on tiny images, so they get fewer blocks)
SMALL_THREADS = [1, 3, 2, 7, 16, 64, 1, 5, 2, 3, 16, 7]
ASAN_THREADS = [2, 1, 3, 2, 7, 1, 2, 3, 64, 1, 2, 5, 1, 2, 3, 1]     # sanitizer build: large teams are slow to start, few blocks


def block_threads(idx, table=SMALL_THREADS, block=97):
    """thread count of case number idx: constant over blocks of cases (changing the team size on every call makes the
    OpenMP runtime rebuild its pool every time)"""
    return table[(idx // block) % len(table)]


def expected_sparse(img, ns, nf, listed):
    """abstract definition for the sparse variant on tie-free inputs: each listed pixel points to the largest
    listed pixel of its 3x3 block; labels = rank (list order) of the terminal maximum. Returns None if a block
    has a tie among listed pixels (then the result is implementation defined)."""
    im = np.asarray(img).reshape(ns, nf)
    pts = [(r, c) for r in range(ns) for c in range(nf) if listed[r, c]]
    index = {p: k for k, p in enumerate(pts)}
    up = {}
    for (r, c) in pts:
        best = None
        for dr in (-1, 0, 1):
            for dc in (-1, 0, 1):
                q = (r + dr, c + dc)
                if q in index:
                    if best is None or im[q] > im[best]:
                        best = q
                        tie = False
                    elif im[q] == im[best]:
                        tie = True
        if tie:
            return None
        up[(r, c)] = best
    maxima = [p for p in pts if up[p] == p]
    rank = {p: k + 1 for k, p in enumerate(maxima)}
    out = []
    for p in pts:
        q = p
        while up[q] != q:
            q = up[q]
        out.append(rank[q])
    return out, len(maxima)


def closed_under_ascent(img, listed):
    """every listed pixel's dense uphill pointer (arg-max of its 3x3 block in the FULL image; listed pixels are
    interior) is listed again.  Decided from the image alone."""
    ns, nf = img.shape
    for r, c in zip(*np.nonzero(listed)):
        if r == 0 or c == 0 or r == ns - 1 or c == nf - 1:
            return False
        blk = img[r - 1:r + 2, c - 1:c + 2]
        k = int(np.argmax(blk))
        if (blk == blk.ravel()[k]).sum() != 1:
            return False
        if not listed[r - 1 + k // 3, c - 1 + k % 3]:
            return False
    return True


def same_partition(a, b):
    """two label lists induce the same partition of their (common) index set"""
    fwd, bwd = {}, {}
    for x, y in zip(a, b):
        if fwd.setdefault(x, y) != y or bwd.setdefault(y, x) != x:
            return False
    return True


def sparse_value_maps(img, idx):
    """order preserving maps of the (small non-negative integer) image values, one per sign class.  The results stay
    distinct and ordered in binary32 (rounding is monotone, the spacing of the mapped values exceeds an ulp by far)."""
    im = np.asarray(img, np.float64)
    hi = float(im.max())
    mid = float(np.median(im))
    return [("mixed", im - mid - 0.5),                 # both signs, no zero
            ("negative", im - hi - 1.0),               # all < 0
            ("zero_top", im - hi),                     # all <= 0, the largest value is 0
            ("below_mvlow", (im - hi - 1.0) * 1.0e10),            # all <= -1e10
            ("straddle_mvlow", (im - mid - 0.5) * 4.0e9 - 1.0e10)]   # some below, some above -1e10


class ThreadsNotSet(Exception):
    """the requested thread count did not take effect: the sweep would be void (machinery, not a violation)"""


def set_threads(cImageD11, nt):
    """request nt OpenMP threads and READ THE REQUEST BACK (vacuity guard of every thread sweep)"""
    cImageD11.cimaged11_omp_set_num_threads(int(nt))
    got = cImageD11.cimaged11_omp_get_max_threads()
    if got != int(nt):
        raise ThreadsNotSet("cimaged11_omp_set_num_threads(%d) did not take effect: cimaged11_omp_get_max_threads() = %d"
                            % (nt, got))


def bump(stats, key, sub=None, n=1):
    if stats is None:
        return
    if sub is None:
        stats[key] = stats.get(key, 0) + n
    else:
        d = stats.setdefault(key, {})
        d[str(sub)] = d.get(str(sub), 0) + n


def run_case(case, mods, idx=0, threads=None, stats=None, dense_only=False):
    cImageD11, sparseframe = mods
    ns, nf = case["ns"], case["nf"]
    img = np.array(case["img"], dtype=np.float32).reshape(ns, nf)
    exp = np.array(case["lout"], dtype=np.int32).reshape(ns, nf)
    probs = []
    # dense, poisoned output and work buffers
    scale = [1.0, 0.5, 3.0, -1.0][idx % 4]
    data = (img * abs(scale) + (7.0 if scale < 0 else 0.0)).astype(np.float32)   # order preserving maps
    lab = np.full((ns, nf), POISON if idx % 2 else 12345, np.int32)
    # previous content of the work buffer: 77 (no direction code), 5 ("maximum"), and every other direction code 1..9
    wfill = [77, 5, 77, 1, 77, 2, 3, 77, 4, 6, 77, 7, 8, 9, 0][idx % 15]
    wrk = np.full((ns, nf), wfill, np.uint8)
    old = None
    if threads is not None:
        old = cImageD11.cimaged11_omp_get_max_threads()
        set_threads(cImageD11, threads)
    try:
        n = cImageD11.localmaxlabel(data, lab, wrk)
    finally:
        if old is not None:
            cImageD11.cimaged11_omp_set_num_threads(old)
    bump(stats, "small_dense_threads", threads)
    if threads is not None and threads > ns * nf:
        bump(stats, "small_dense_more_threads_than_pixels")
    tn = "" if threads is None else " (%d threads)" % threads
    if n != case["npk"]:
        probs.append("localmaxlabel%s: returned count %d, specification %d" % (tn, n, case["npk"]))
    if not np.array_equal(lab, exp):
        probs.append("localmaxlabel%s: labels %s differ from specification %s" % (tn, lab.ravel().tolist(), exp.ravel().tolist()))
    # sparse variants on interior threshold masks (tie-free only: the result is then unique)
    if case.get("tiefree") and not dense_only:
        vals = sorted(set(case["img"]))
        for cut in (vals[len(vals) // 3], vals[(2 * len(vals)) // 3]):
            listed = img >= cut
            listed[0, :] = listed[-1, :] = False
            listed[:, 0] = listed[:, -1] = False
            if listed.sum() == 0:
                continue
            es = expected_sparse(case["img"], ns, nf, listed)
            if es is None:
                continue
            elab, en = es
            ii, jj = np.nonzero(listed)
            ii, jj = ii.astype(np.uint16), jj.astype(np.uint16)
            v = data[listed]
            pos_ok = True
            sl_pos = None
            # work buffers arrive with any previous content (SparseScan.lmlabel re-uses them from frame to frame)
            for fill in (-123.0, 3.0e38):
                sl = np.full(len(v), POISON, np.int32)
                mv = np.full(len(v), fill, np.float32)
                imv = np.full(len(v), POISON, np.int32)
                n2 = cImageD11.sparse_localmaxlabel(v, ii, jj, mv, imv, sl)
                if n2 != en or sl.tolist() != elab:
                    pos_ok = False
                    probs.append("sparse_localmaxlabel(cut=%s, work buffers pre-filled with %g): %s n=%d, definition %s n=%d" % (
                        cut, fill, sl.tolist(), n2, elab, en))
                sl_pos = sl
            fr = sparseframe.sparse_frame(ii, jj, (ns, nf), pixels={"intensity": v})
            n3 = sparseframe.sparse_localmax(fr)
            if n3 != en or fr.pixels["localmax"].tolist() != elab:
                probs.append("sparseframe.sparse_localmax(cut=%s) differs from definition" % cut)
            # every sign class of the values (order preserving maps: same expectation)
            for km, (mname, mvals) in enumerate(sparse_value_maps(case["img"], idx)):
                vm = np.asarray(mvals, np.float32).reshape(ns, nf)[listed]
                if len(set(vm.tolist())) != len(set(v.tolist())):
                    continue                                    # (cannot happen: exact maps)
                fill = (-123.0, 3.0e38, -3.0e38, 0.0)[(idx + km) % 4]
                sl = np.full(len(vm), POISON, np.int32)
                mv = np.full(len(vm), fill, np.float32)
                imv = np.full(len(vm), POISON, np.int32)
                n2 = cImageD11.sparse_localmaxlabel(vm, ii, jj, mv, imv, sl)
                bump(stats, "sparse_sign_classes", mname)
                if (vm <= MV_LOW).any():
                    bump(stats, "sparse_cases_with_values_le_mvlow")
                if n2 != en or sl.tolist() != elab:
                    # structural rule of the finding: values <= -1e10 among the listed pixels AND the same pattern
                    # with the same order of values above -1e10 is labelled as the definition says
                    tag = MVLOW_TAG if ((vm <= MV_LOW).any() and pos_ok) else ""
                    probs.append("%ssparse_localmaxlabel(cut=%s, values mapped order-preservingly to class '%s' %s, work buffers "
                                 "pre-filled with %g): %s n=%d, definition %s n=%d" % (
                                     tag, cut, mname, vm.tolist(), fill, sl.tolist(), n2, elab, en))
            # clause: same partition as the dense labelling of the whole image on those pixels (real code both sides)
            if closed_under_ascent(img, listed):
                bump(stats, "partition_clause_judged")
                dl = lab[listed].tolist()
                if len(set(dl)) > 1:
                    bump(stats, "partition_clause_judged_two_or_more_basins")
                if not same_partition(dl, sl_pos.tolist()):
                    probs.append("sparse and dense variants give different partitions of the listed pixels (cut=%s, listed set "
                                 "closed under the ascent): dense labels there %s, sparse labels %s" % (cut, dl, sl_pos.tolist()))
                if 0 in dl:
                    probs.append("dense variant gives background to an interior pixel whose ascent stays in the interior "
                                 "(cut=%s): dense labels on the listed pixels %s" % (cut, dl))
            else:
                bump(stats, "partition_clause_not_applicable_ascent_leaves_listed_set")
    return probs


def load_mods():
    from ImageD11 import cImageD11, sparseframe
    return cImageD11, sparseframe


def main():
    cases_path, out_path = sys.argv[1], sys.argv[2]
    dense_only = len(sys.argv) > 3 and sys.argv[3] == "dense"
    mods = load_mods()
    out = {"n": 0, "problems": [], "stats": {}}
    with open(cases_path) as f:
        for idx, line in enumerate(f):
            case = json.loads(line)
            out["n"] += 1
            with open(out_path + ".cur", "w") as g:
                g.write(str(idx))
            try:
                p = run_case(case, mods, idx, threads=block_threads(idx, ASAN_THREADS, 64), stats=out["stats"], dense_only=dense_only)
            except ThreadsNotSet as e:
                out["machinery"] = str(e)
                break
            except Exception as e:          # noqa
                p = ["exception %r" % (e,)]
            if p:
                out["problems"].append({"idx": idx, "case": case, "problems": p})
    with open(out_path, "w") as g:
        json.dump(out, g)


if __name__ == "__main__":
    main()

"""C15 child process: the same observations and judges as harness/props/c15.py, run under another numba
configuration (NUMBA_NUM_THREADS above the default, another threading layer) given in the environment.
usage: c15_child.py <job.json>   ->  one line  @@RESULT {json}  on stdout"""
import os, sys
HERE = os.path.dirname(os.path.abspath(__file__))
sys.path.insert(0, HERE)
from props import c15

if __name__ == "__main__":
    c15.child_main(sys.argv[1])

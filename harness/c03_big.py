"""C03, BIG instances: replay of one `EmitBig` record of specs/HklWalk.tla into the real code.

The instance (form, limit, centring) has a candidate box of 1e5 .. 2e6 hkl, lists of 2e4 .. 1e6
reflections with indices up to +-199, and thousands of rings: everything in unitcell.gethkls /
makerings that depends on SIZE.  Expectations are exact and independent of the code under test:
c03_lib.Brute (vectorised numpy over the integer box, exact int64 reciprocal form, textbook centring
rules), which must first reproduce the count / checksums / shell count TLC computed for the record.

One case =
  gethkls(d)                on a fresh object (route unitcell(...) or unitcell_from_parameters(...))
                            list = brute-force set, no duplicates, ascending, no (0,0,0), ds = |B.hkl|
  gethkls(d) again          same answer; unitcell.peaks / unitcell.limit state
  makerings(limit, tol)     limit + tol == d bit for bit (the cached list), tol below every exact gap:
                            rings = Q shells; partition clauses; windows of the table go to TraceRings
  makerings(limit2, tol2)   same object, a tolerance that merges shells: partition clauses + grouping rule
  gethkls(small), gethkls(medium)   (option history) the same object asked for smaller limits
  indexer.assigntorings     (option indexer) table and list on a fresh object, ra / na

Run as a program (`python c03_big.py in.json out.json`) by props/c03.py: several shards in parallel.
A failure CAUSED BY THE TREE UNDER TEST (an exception inside ImageD11, the import included; a list or ring
table the judge cannot read; a crash of the process while a case is replayed) is reported as a failed
clause of that case - a violation with the case as replay object - never as a machinery error.
"""
from __future__ import print_function
import sys, os, json, math, time
import numpy as np
import c03_lib as L


def _fail(out, label, what, case, size=0):
    out["fails"].append({"label": label, "what": what, "case": case, "size": size})


def exact_tol(lim, scale):
    """a tolerance below every gap between distinct exact d-stars sqrt(q/scale), q = 1..lim"""
    gap = (math.sqrt(lim) - math.sqrt(lim - 1)) / math.sqrt(float(scale))
    return min(1e-3, gap / 4.0)


def split_limit(d, tol):
    """limit with limit + tol == d in floating point (makerings then asks gethkls for exactly d)"""
    lim = d - tol
    for _ in range(64):
        s = lim + tol
        if s == d:
            return lim
        lim = np.nextafter(lim, np.inf if s < d else -np.inf)
    return None


def make_cell(ucmod, cell, cen, via_parameters):
    if via_parameters:
        from ImageD11 import parameters
        p = parameters.parameters(cell__a=cell[0], cell__b=cell[1], cell__c=cell[2],
                                  cell_alpha=cell[3], cell_beta=cell[4], cell_gamma=cell[5])
        p.set("cell_lattice_[P,A,B,C,I,F,R]", cen)
        return ucmod.unitcell_from_parameters(p)
    return ucmod.unitcell(cell, cen)


def describe(rec, cell, d, opts):
    return ("BIG cell=(%.4f %.4f %.4f %.3f %.3f %.3f) %s dsmax=%.6f (%s; largest limit dsmax^2*scale=%d-1/2 has box %s = %d candidates; scale %s)"
            % (cell + (rec["cen"], d, opts.get("note", "the largest limit"), rec["lim"], rec["box"], rec["nbox"], opts.get("mode", "lo"))))


def list_clauses(out, rec, brute, peaks, uc, d, scale, route, case, cell, opts):
    """judge one list; returns True when the membership is right"""
    fails, det = L.judge_list_np(brute, peaks, uc.B, scale)
    if uc.peaks is not peaks and [list(p) for p in uc.peaks] != [list(p) for p in peaks]:
        fails.append("state(unitcell.peaks)")
    if uc.limit != d:
        fails.append("state(unitcell.limit)")
    out["lists"] += 1
    if fails:
        cause = "unexplained"
        if set(fails) <= {"incomplete", "unsound"} and rec["rule"] != rec["cen"]:
            alt = L.Brute(brute.g, brute.lim, rec["rule"])
            f2, _ = L.judge_list_np(alt, peaks, uc.B, scale)
            if not f2:
                cause = "centring-table"
        _fail(out, cause, "gethkls[%s] %s: %s; %d listed, %d expected; missing %s (%d) extra %s (%d)"
              % (route, describe(rec, cell, d, opts), ",".join(fails), det.get("n_real", -1), det.get("n_brute", -1),
                 det.get("missing", []), det.get("n_missing", 0), det.get("extra", []), det.get("n_extra", 0)),
              case, det.get("n_real", 0))
    return not fails


def rings_clauses(out, uc, tol, limit, q, scale, route, case, what, nwin):
    fails, starts = L.judge_rings_np(uc, tol, q=q, scale=scale)
    out["ringtables"] += 1
    if fails:
        _fail(out, "rings:" + fails[0], "%s %s (limit=%r, tol=%r): %s; %d reflections, %d rings"
              % (route, what, limit, tol, fails, len(uc.peaks), len(uc.ringds)), case, len(uc.peaks))
        return None
    for t in L.ring_windows(uc, starts, tol, 0, "makerings", want=nwin):
        out["ring_traces"].append({"trace": t, "params": dict(case, window=t["window"], limit=limit, tol=tol,
                                                              cell=case["cell"], cen=case["cen"], route=route)})
    return starts


def big_case(ucmod, idxmod, rec, opts):
    """replay one BIG record; returns {"fails": [...], "ring_traces": [...], counters}"""
    t0 = time.time()
    out = {"fails": [], "ring_traces": [], "lists": 0, "ringtables": 0, "skipped": {}, "key": [rec["g"], rec["lim"], rec["cen"]]}
    g, lim, cen = rec["g"], rec["lim"], rec["cen"]
    mode = opts.get("mode", "lo")
    cell, scale = L.cell_from_form(g, mode=mode)
    case = {"kind": "big", "rec": rec, "opts": opts, "cell": list(cell), "cen": cen}
    brute = L.Brute(g, lim, cen)
    sm = brute.summary()
    for k in ("nb", "hq", "hc", "nsh"):
        if k in rec and rec[k] != sm[k] and not (k == "nsh" and rec[k] == -1):
            out["machinery"] = "specification's brute-force summary %s=%s disagrees with the harness' %s for %s" % (k, rec[k], sm[k], out["key"])
            return out
    tol = exact_tol(lim, scale)
    d0 = L.dsmax_for(lim, scale, False)
    limit = split_limit(d0, tol)
    d = float(limit + tol) if limit is not None else d0
    # ---- the list
    uc = make_cell(ucmod, cell, cen, opts.get("via_parameters"))
    route = "unitcell_from_parameters" if opts.get("via_parameters") else "unitcell"
    peaks = uc.gethkls(d)
    ok = list_clauses(out, rec, brute, peaks, uc, d, scale, route, case, cell, opts)
    again = uc.gethkls(d)
    if again is not peaks and [list(p) for p in again] != [list(p) for p in peaks]:
        _fail(out, "second-call", "gethkls %s: the second call with the same limit returns another list (%d entries, first call %d)"
              % (describe(rec, cell, d, opts), len(again), len(peaks)), case, len(peaks))
    out["n"] = len(peaks)
    # ---- rings on this list
    if ok and limit is not None and len(peaks):
        hkl, _ = L.list_arrays(peaks)
        q = L.q_np(g, hkl)
        uc.makerings(limit, tol)
        if uc.peaks is not peaks:
            out["skipped"]["makerings did not reuse the cached list (recomputed)"] = 1
            list_clauses(out, rec, brute, uc.peaks, uc, d, scale, "makerings", case, cell, opts)
        rings_clauses(out, uc, tol, limit, q, scale, "makerings", case,
                      "on the %d-reflection list of %s" % (len(peaks), describe(rec, cell, d, opts)), opts.get("windows", 3))
        # a tolerance that merges shells, same object, same list (limit2 + tol2 == d)
        tol2 = tol * (9.0 + 31.0 * ((rec["lim"] * 7 + opts.get("seed", 1) * 13) % 17) / 17.0)
        limit2 = split_limit(d, tol2)
        if limit2 is not None:
            uc.makerings(limit2, tol2)
            if uc.peaks is not peaks and [tuple(p[1]) for p in uc.peaks] != [tuple(p[1]) for p in peaks]:
                _fail(out, "rings:list changed", "makerings(limit=%r, tol=%r) after makerings(%r, %r) on %s: the list changed (%d -> %d entries) although limit + tol is the same number"
                      % (limit2, tol2, limit, tol, describe(rec, cell, d, opts), len(peaks), len(uc.peaks)), case, len(peaks))
            else:
                rings_clauses(out, uc, tol2, limit2, None, scale, "makerings (second tolerance, same object)", case,
                              "on the %d-reflection list of %s" % (len(peaks), describe(rec, cell, d, opts)), opts.get("windows", 3))
        else:
            out["skipped"]["no float limit2 with limit2 + tol2 == d"] = 1
    elif limit is None:
        out["skipped"]["no float limit with limit + tol == d"] = 1
    # ---- history: the same object asked for a small, then a medium limit
    if opts.get("history"):
        for lim2 in (max(2, lim // 4), max(3, lim // 2)):
            d2 = L.dsmax_for(lim2, scale, False)
            p2 = uc.gethkls(d2)
            list_clauses(out, rec, brute.below(lim2), p2, uc, d2, scale,
                         "gethkls after larger limits on the same object (history big, small, medium)", case, cell,
                         dict(opts, note="dsmax^2*scale=%d-1/2" % lim2))
    # ---- indexer.assigntorings on a fresh object
    if opts.get("indexer") and ok and limit is not None:
        indexer_big(out, ucmod, idxmod, rec, brute, cell, cen, scale, limit, tol, d, case, opts)
    out["secs"] = time.time() - t0
    return out


def indexer_big(out, ucmod, idxmod, rec, brute, cell, cen, scale, limit, tol, d, case, opts):
    rng = np.random.RandomState(opts.get("seed", 1) * 31 + rec["lim"])
    e = np.sqrt(np.unique(brute.q) / float(scale))                     # exact ring positions
    pick = e[rng.choice(len(e), size=min(40, len(e)), replace=False)]
    gl = [limit]
    for r in pick:
        for f in (0.0, 0.31, -0.27, 0.83, -0.77, 1.29, -1.41):
            x = r + f * tol
            if 0 < x < limit:
                gl.append(x)
    gl = np.array(gl)
    dirs = rng.normal(size=(len(gl), 3))
    dirs /= np.sqrt((dirs ** 2).sum(axis=1))[:, None]
    gv = dirs * gl[:, None]
    uc = ucmod.unitcell(cell, cen)
    ind = idxmod.indexer(unitcell=uc, gv=gv, ds_tol=tol, wavelength=0.05)
    ind.assigntorings()
    lim_i = float(np.amax(ind.ds))
    d_i = lim_i + tol
    if not (rec["lim"] - 1 < d_i * d_i * float(scale) < rec["lim"]):
        out["skipped"]["assigntorings: recomputed limit left the half-integer margin"] = 1
        return
    ok = list_clauses(out, rec, brute, uc.peaks, uc, d_i, scale, "indexer.assigntorings", case, cell, opts)
    if not ok:
        return
    hkl, _ = L.list_arrays(uc.peaks)
    starts = rings_clauses(out, uc, tol, lim_i, L.q_np(rec["g"], hkl), scale, "indexer.assigntorings", case,
                           "ring table of %s" % describe(rec, cell, d_i, opts), 1)
    if starts is None:
        return
    rds = np.array(uc.ringds, float)
    gds = np.asarray(ind.ds, float)
    err = np.abs(gds[:, None] - rds[None, :])
    near = err < tol
    # decisions within the quantisation margin of the threshold / ties between two rings are not judged
    safe = ~((np.abs(err - tol) < L.MARGIN).any(axis=1)) & (near.sum(axis=1) <= 1)
    want = np.where(near.any(axis=1), np.argmin(np.where(near, err, np.inf), axis=1), -1)
    ra = np.asarray(ind.ra)
    bad = np.flatnonzero(safe & (ra != want))
    na = np.asarray(ind.na)
    fails = []
    if len(bad):
        fails.append("ra[%d]=%d, nearest ring within ds_tol is %d" % (bad[0], ra[bad[0]], want[bad[0]]))
    if len(na) != len(rds) or (na != np.bincount(ra[ra >= 0], minlength=len(rds))).any():
        fails.append("na is not the count of ra")
    if fails:
        _fail(out, "assigntorings:" + fails[0].split(",")[0].split("[")[0], "indexer.assigntorings on %s ds_tol=%r: %s"
              % (describe(rec, cell, d_i, opts), tol, fails), case, len(uc.peaks))


def load_modules():
    import common
    common.use_shadow(common.build_shadow("normal"))
    import logging
    logging.disable(logging.CRITICAL)
    from ImageD11 import unitcell as ucmod, indexing as idxmod
    idxmod.loglevel = 3
    return ucmod, idxmod


def _blank(job):
    return {"fails": [], "ring_traces": [], "lists": 0, "ringtables": 0, "skipped": {},
            "key": [job["rec"]["g"], job["rec"]["lim"], job["rec"]["cen"]]}


def _case_of(job):
    cell, _ = L.cell_from_form(job["rec"]["g"], mode=job["opts"].get("mode", "lo"))
    return {"kind": "big", "rec": job["rec"], "opts": job["opts"], "cell": list(cell), "cen": job["rec"]["cen"]}


def _blame(job, e, what):
    """result for a job that ended in an exception: raised inside the code under test (a frame of the
    traceback lies in ImageD11, or the harness' judge tripped over what the code returned: ValueError /
    TypeError / IndexError / KeyError / OverflowError / AssertionError while handling the real list or
    ring table) -> a violation with the BIG case as replay object; anything else -> machinery"""
    import traceback
    r = _blank(job)
    tb = traceback.extract_tb(e.__traceback__)
    inside = [fr for fr in tb if "/ImageD11/" in fr.filename]
    judge = [fr for fr in tb if fr.name in ("list_clauses", "rings_clauses", "judge_list_np", "judge_rings_np", "ring_starts",
                                            "ring_windows", "list_arrays", "indexer_big")]
    if inside:
        r["fails"].append({"label": "exception:big", "size": 0, "case": _case_of(job),
                           "what": "BIG case %s %s: raised %r at %s:%d" % (r["key"], what, e, inside[-1].filename, inside[-1].lineno)})
    elif judge and isinstance(e, (ValueError, TypeError, IndexError, KeyError, OverflowError, AssertionError, AttributeError)):
        r["fails"].append({"label": "malformed:big", "size": 0, "case": _case_of(job),
                           "what": "BIG case %s %s: what the code returned cannot be read as a list of [ds, (h,k,l)] / a ring table: "
                                   "%r in %s" % (r["key"], what, e, judge[-1].name)})
    else:
        r["machinery"] = "BIG case %s %s: %s" % (r["key"], what, "".join(traceback.format_exception(type(e), e, e.__traceback__))[-1500:])
    return r


def _dump(path, obj):
    tmp = path + ".tmp"
    with open(tmp, "w") as f:
        json.dump(obj, f, default=lambda o: o.item() if hasattr(o, "item") else str(o))
    os.replace(tmp, path)


def main(argv):
    """results are written after every job and the job in progress is named in <out>.current, so that the
    parent can attribute a hard crash (signal) of this process to the case that was being replayed"""
    with open(argv[1]) as f:
        jobs = json.load(f)
    res = []
    try:
        ucmod, idxmod = load_modules()
    except BaseException as e:                      # the tree under test does not import: every case fails
        for job in jobs:
            res.append(_blame(job, e, "(import of the code under test)"))
        _dump(argv[2], res)
        return 0
    for n, job in enumerate(jobs):
        with open(argv[2] + ".current", "w") as f:
            f.write("%d" % n)
        try:
            res.append(big_case(ucmod, idxmod, job["rec"], job["opts"]))
        except KeyboardInterrupt:
            raise
        except BaseException as e:                  # (SystemExit raised by the code under test included)
            res.append(_blame(job, e, ""))
        _dump(argv[2], res)
    os.unlink(argv[2] + ".current")
    return 0


if __name__ == "__main__":
    sys.exit(main(sys.argv))

"""Shared machinery of the C01 / C02 checks (specification specs/Geometry.tla).

 * run_geometry()      : run one Geometry_*.cfg through TLC and return the parsed JSON records
 * Oracle              : finishes the irrational step (sqrt, atan2) of a forward record in 40-digit decimals
 * Routes / judge_fwd  : feeds a batch of forward records (one parameter set, many peaks) to every implementation
                         route and compares each output with the oracle (C01); SUBSETS / subset_history: histories of one
                         object between whose two updates only a subset of the parameters changes
 * Oracle(unit=u)      : the same records written in another length unit (UnitLaw: lengths times u, angles / g / pixels
                         unchanged); unit_scales() lists the units
 * judge_laws / judge_internal / judge_project / judge_inverse / judge_axis : reference-free laws (incl. the round trip of
                         the forward routes through uncompute_g_vectors), Bragg's law of every route incl. the numba one,
                         the arctan-free sin^2(theta) and PixelLUT (judge_lut), detector projection and the two round
                         trips through every route, g -> angles and the gv_general conventions on the SpecAx records (C02)

Comparison rule everywhere: |x - e| <= 1e-9 * scale + 1e-12 (scale = largest magnitude of the expected vector; for a
length the absolute term is 1e-12 times the batch's length unit when that is below 1),
angles modulo 360 at 1e-6 degree, eta not compared where (dy, dz) = (0, 0) exactly.
"""
import os, io, json, math, contextlib
from fractions import Fraction as F
from decimal import Decimal as D, getcontext
import numpy as np
import common

getcontext().prec = 40
SPEC = "Geometry"
REL = 1e-9
ABS = 1e-12
ANGTOL = 1e-6
INVARIANTS = ("TypeOK", "StackOrtho", "NormLaw", "OmegaLaw", "OriginLaw", "Roundtrip", "EwaldBound", "BraggLaw", "AxisLaw", "Emit")
FWD_ACTIONS = ("PickSwitches", "PickDetector", "PickPeak", "Place", "Flip", "Tilt", "Shift", "Origin", "Diff",
               "RotateG", "Project")
INV_ACTIONS = ("Origin", "Diff", "RotateG", "Uncompute")
RAW_ACTIONS = ("Uncompute",)
SWITCHES = ("tilt_x", "tilt_y", "tilt_z", "wedge", "chi", "t_x", "t_y", "t_z")


# ------------------------------------------------------------------------------------------------
# TLC

EXPECTED_RECORDS = {"fwd_corner": 2048, "fwd_t": 262144}


def run_geometry(chk, name, cfg, workers=16, simulate=None, depth=None, coverage=False, actions=(), timeout=2400):
    """run specs/Geometry_<cfg>.cfg; account it; return the list of emitted records"""
    path = os.path.join(common.SPECS, "Geometry_%s.cfg" % cfg)
    res = common.run_tlc(SPEC, path, workers=workers, simulate=simulate, depth=depth, coverage=coverage,
                         timeout=timeout, seed_=common.seed())
    chk.add_tlc(name, res, require_cover=actions if coverage else ())
    if res.violated:
        raise common.MachineryError("Geometry model (%s) violates its own invariant %s\n%s" % (
            cfg, res.violated, "\n".join(l for l in res.stdout.splitlines() if not l.startswith('"@@'))[-3000:]))
    if not res.finished:
        raise common.MachineryError("TLC run %s did not finish: %s" % (name, res.stdout[-1500:]))
    recs, bad = [], 0
    for line in res.printed:
        try:
            recs.append(json.loads(line))
        except ValueError:
            bad += 1
    if bad:
        raise common.MachineryError("%d unparsable TLC output lines in run %s" % (bad, name))
    want = EXPECTED_RECORDS.get(cfg) if simulate is None else simulate * workers
    if want is not None and len(recs) != want:
        raise common.MachineryError("run %s emitted %d records, expected %d" % (name, len(recs), want))
    if coverage:
        chk.notes.setdefault("action_coverage", {})[name] = {a: res.coverage.get(a, (0, 0))[1] for a in actions}
    return recs


# ------------------------------------------------------------------------------------------------
# angles and parameters

def ang_rad(a):
    return math.atan2(a[1], a[0])


_RIGHT = {(1, 0): 0.0, (0, 1): 90.0, (-1, 0): 180.0, (0, -1): -90.0}


def ang_deg(a):
    if a[2] == 1:
        return _RIGHT[(a[0], a[1])]
    return math.degrees(math.atan2(a[1], a[0]))


LENGTHS = ("y_size", "z_size", "distance", "t_x", "t_y", "t_z")


def unit_scales(recs):
    """the length units in which a forward record is replayed (UnitLaw of the specification: homogeneity of degree one,
    so it composes): u^-1 and u^-2 for the specification's large factors u (1000: a geometry written in microns read as
    mm and as metres; 1024: the same steps without rounding of the parameters), and 1000 (nanometres)"""
    us = [u for u in recs[0].get("units", (1000, 1024)) if u >= 1000]
    return tuple(F(1, u) for u in us) + tuple(F(1, u * u) for u in us) + (F(1000),)


def pars_of(par, unit=1):
    """ImageD11 parameter dictionary of a configuration (tilts in radians, wedge/chi in degrees); every length of the
    configuration (pixel sizes, distance, translation) is multiplied by `unit` (the nearest double of the exact product)"""
    o = par["o"]
    u = F(unit)
    return {
        "y_center": float(par["yc"]), "z_center": float(par["zc"]),
        "y_size": float(par["ys"] * u), "z_size": float(par["zs"] * u),
        "distance": float(par["dist"] * u),
        "tilt_x": ang_rad(par["tilt_x"]), "tilt_y": ang_rad(par["tilt_y"]), "tilt_z": ang_rad(par["tilt_z"]),
        "o11": float(o[0]), "o12": float(o[1]), "o21": float(o[2]), "o22": float(o[3]),
        "wedge": ang_deg(par["wedge"]), "chi": ang_deg(par["chi"]),
        "omegasign": float(par["sgn"]),
        "wavelength": par["wl"][0] / float(par["wl"][1]),
        "t_x": float(par["t"][0] * u), "t_y": float(par["t"][1] * u), "t_z": float(par["t"][2] * u),
    }


def group_key(par):
    return json.dumps([par[k] for k in ("sw", "flip", "sgn", "zs", "ys", "zc", "yc", "dist", "wl", "tilt_x", "tilt_y",
                                        "tilt_z", "wedge", "chi", "t", "o")])


def group_records(recs):
    groups = {}
    for r in recs:
        groups.setdefault(group_key(r["par"]), []).append(r)
    return list(groups.values())


# ------------------------------------------------------------------------------------------------
# the oracle: finishing step in 40-digit decimals from the exact integers of the specification

class Oracle(object):
    """expected values of a batch of forward records (rows = peaks).  unit (a Fraction): the batch is written in a length
    unit 1/unit times the specification's - the parameters P carry pixel sizes, distance and translation times unit, the
    expected xyz, org and d are the record's times unit, every angle, k, g, ds, sin^2(theta) and the pixel (sc, fc) are
    the record's own (UnitLaw)"""

    def __init__(self, recs, perturb=None, unit=None):
        n = len(recs)
        self.n = n
        self.recs = recs
        self.par = recs[0]["par"]
        self.unit = F(1) if unit is None else F(unit)
        self.unitf = float(self.unit)
        self.P = pars_of(self.par, self.unit)
        self.lam = self.P["wavelength"]
        # peak positions are rationals sc/pden (the nearest double is handed to the code)
        self.sc = np.array([r["par"]["sc"] / float(r["par"]["pden"]) for r in recs])
        self.fc = np.array([r["par"]["fc"] / float(r["par"]["pden"]) for r in recs])
        self.omega = np.array([ang_deg(r["par"]["omega"]) for r in recs])      # as stored in a peak file
        self.oms = self.omega * self.P["omegasign"]                             # signed, what the slow routes get
        self.xyz = np.zeros((n, 3))
        self.org = np.zeros((n, 3))
        self.d = np.zeros((n, 3))
        self.k = np.zeros((n, 3))
        self.g = np.zeros((n, 3))
        self.tth = np.zeros(n)
        self.eta = np.full(n, np.nan)
        self.ds = np.zeros(n)
        self.sinsqth = np.zeros(n)
        self.cosinc = np.zeros(n)
        self.ok = np.ones(n, bool)
        lam = D(self.par["wl"][0]) / D(self.par["wl"][1])
        for i, r in enumerate(recs):
            xn, xd = r["xyz"]
            on, od = r["org"]
            dn, dd = r["d"]
            An, Ad = r["A"]
            Bn, Bd = r["Bx"]
            Gn, Gd = r["G"]
            # independent re-check of the record in unbounded integers (TLC forms the norms only where they fit)
            if sum(a * a for a in An) * (Gd * dd) ** 2 != Gd * Gd * sum(x * x for x in dn) * Ad * Ad:
                raise common.MachineryError("record violates |G d| = |d|: %r" % (r,))
            for j in range(3):
                if F(xn[j], xd) - F(on[j], od) != F(dn[j], dd):
                    raise common.MachineryError("record violates d = xyz - o: %r" % (r,))
                if F(sum(Gn[j][c] * dn[c] for c in range(3)), Gd * dd) != F(An[j], Ad):
                    raise common.MachineryError("record violates A = G d: %r" % (r,))
            n2 = sum(x * x for x in dn)
            self.xyz[i] = [xn[j] / float(xd) for j in range(3)]
            self.org[i] = [on[j] / float(od) for j in range(3)]
            if n2 == 0:                     # the grain sits on the pixel: no direction, the row is not judged
                self.ok[i] = False
                continue
            absd = D(n2).sqrt() / D(dd)
            dv = [D(x) / D(dd) for x in dn]
            self.d[i] = [float(x) for x in dv]
            u = [x / absd for x in dv]
            kk = [(u[0] - 1) / lam, u[1] / lam, u[2] / lam]
            self.k[i] = [float(x) for x in kk]
            gg = [(D(An[j]) / D(Ad) / absd - D(Bn[j]) / D(Bd)) / lam for j in range(3)]
            self.g[i] = [float(x) for x in gg]
            gam2 = 2 - 2 * u[0]
            if gam2 < 0:
                gam2 = D(0)
            self.ds[i] = float(gam2.sqrt() / lam)
            self.sinsqth[i] = float(gam2 / 4)
            perp = (dv[1] * dv[1] + dv[2] * dv[2]).sqrt()
            self.tth[i] = math.degrees(math.atan2(float(perp), float(dv[0])))
            if dn[1] != 0 or dn[2] != 0:
                self.eta[i] = math.degrees(math.atan2(-float(dv[1]), float(dv[2])))
            # cosine of incidence of the ray on the detector plane, n.d / |d|   (n.d = sden / snd[1])
            self.cosinc[i] = abs(float(D(r["sden"]) / D(r["snd"][1]) / absd))
        if self.unit != 1:
            self.xyz *= self.unitf
            self.org *= self.unitf
            self.d *= self.unitf
        # rows beyond two-theta = 90 degrees (d_x < 0), and the conditioning of the arctan-free sin^2(theta) there
        self.back = self.ok & (self.d[:, 0] < 0)
        self.sswiden = arctanfree_widen(self.d.T)
        self._lab = None
        if perturb == "xyz":
            self.xyz[0, 1] += 1e-6 * max(1.0, abs(self.xyz[0]).max())
        elif perturb == "g":
            self.g[0, 2] += 1e-7 * max(abs(self.g[0]).max(), 1e-3)
        elif perturb == "eta":
            self.eta[np.isfinite(self.eta)] += 1e-4

    def lab_only(self):
        """expected values of the pixel's lab vector alone (no grain translation: what a per-pixel look-up table holds):
        dictionary of tth, eta (NaN where undefined), sinsqth, k (rows, 3), ok - finished in decimals from the exact xyz"""
        if self._lab is None:
            m = len(self.recs)
            tth, eta, ssq, kk, ok = np.zeros(m), np.full(m, np.nan), np.zeros(m), np.zeros((m, 3)), np.ones(m, bool)
            lam = D(self.par["wl"][0]) / D(self.par["wl"][1])
            for i, r in enumerate(self.recs):
                xn, xd = r["xyz"]
                n2 = sum(x * x for x in xn)
                if n2 == 0:
                    ok[i] = False
                    continue
                absx = D(n2).sqrt()
                u = [D(x) / absx for x in xn]
                kk[i] = [float((u[0] - 1) / lam), float(u[1] / lam), float(u[2] / lam)]
                ssq[i] = float((1 - u[0]) / 2)
                tth[i] = math.degrees(math.atan2(float(D(xn[1] * xn[1] + xn[2] * xn[2]).sqrt()), float(xn[0])))
                if xn[1] != 0 or xn[2] != 0:
                    eta[i] = math.degrees(math.atan2(-float(xn[1]), float(xn[2])))
            idx = np.arange(self.n) % m
            self._lab = {"tth": tth[idx], "eta": eta[idx], "sinsqth": ssq[idx], "k": kk[idx], "ok": ok[idx]}
        return self._lab

    def tiled(self, length):
        """the same batch repeated up to `length` rows (crosses the OpenMP chunking of the C loops)"""
        o = Oracle.__new__(Oracle)
        o.__dict__.update(self.__dict__)
        idx = np.arange(length) % self.n
        for name in ("sc", "fc", "omega", "oms", "xyz", "org", "d", "k", "g", "tth", "eta", "ds", "sinsqth", "cosinc", "ok", "back",
                     "sswiden"):
            setattr(o, name, np.ascontiguousarray(getattr(self, name)[idx]))
        o._lab = None
        o.n = length
        o.recs = self.recs
        return o


def arctanfree_widen(xyz):
    """conditioning of the documented arctan-free form sin^2(theta) = R / (2 (Q + x sqrt(Q))), R = y^2 + z^2, Q = x^2 + R:
    beyond two-theta = 90 degrees (x < 0) the denominator sqrt(Q) (sqrt(Q) + x) cancels, a rounding error eps becomes
    eps 2 x^2 / R (1e-14 at two-theta = 170 degrees, unbounded towards 180).  The tolerance is widened by 1 + 4e-6 x^2/R
    there (ten times that amplification at the 1e-9 tolerance); an error of the order of cos(two-theta) stays far outside"""
    x, y, z = np.asarray(xyz, float)
    R = y * y + z * z
    with np.errstate(invalid="ignore", divide="ignore"):
        w = np.where((x < 0) & (R > 0), 1.0 + 4e-6 * x * x / R, 1.0)
    return w


def arctanfree_undefined(xyz):
    """the documented formula is 0/0 on the beam axis behind the sample (y = z = 0, x <= 0) and has lost every digit within
    1e-6 rad of it (x^2/R >= 1e12: binary64 returns anything from 0.5 to inf there): not compared"""
    x, y, z = np.asarray(xyz, float)
    R = y * y + z * z
    return (x <= 0) & (R * 1e12 <= x * x)


class Judge(object):
    def __init__(self, ok, unit=1.0):
        self.ok = ok
        self.problems = []
        self.worst = 0.0          # worst |x-e| / (REL*scale+ABS) seen (<= 1 passes)
        self.ncmp = 0
        self.findings = []        # (finding id, text): failures that match a recorded defect of ImageD11 structurally
        self.unit = unit          # length unit of the batch: the absolute term of a LENGTH comparison is ABS * unit

    def _report(self, label, bad, got, exp):
        i = int(np.argmax(bad))
        self.problems.append("%s: row %d got %s expected %s" % (label, i, np.asarray(got)[i].tolist(),
                                                                np.asarray(exp)[i].tolist()))

    def vec(self, label, got, exp, widen=None, length=False):
        got = np.asarray(got, float)
        exp = np.asarray(exp, float)
        if got.shape != exp.shape:
            self.problems.append("%s: shape %s, expected %s" % (label, got.shape, exp.shape))
            return
        err = np.abs(got - exp)
        scale = np.abs(exp)
        if exp.ndim == 2:
            err = err.max(axis=1)
            scale = scale.max(axis=1)
        tol = REL * scale + (ABS * min(self.unit, 1.0) if length else ABS)
        if widen is not None:
            tol = tol * widen
        ok = self.ok
        with np.errstate(invalid="ignore"):
            ratio = err / tol
            bad = ~(ratio <= 1.0) & ok               # a NaN where a number is expected is a disagreement
        r = ratio[ok]
        self.ncmp += r.size
        if r.size:
            m = float(np.fmax.reduce(r))             # (ignores NaN: those rows are reported as bad)
            if m > self.worst:
                self.worst = m
        if bad.any():
            self._report(label, bad, got, exp)

    def sub(self, ok):
        """a judge over another set of rows (e.g. the pixels of a look-up table); fold it back with absorb()"""
        return Judge(np.asarray(ok, bool), self.unit)

    def absorb(self, other):
        self.problems += other.problems
        self.findings += other.findings
        self.ncmp += other.ncmp
        self.worst = max(self.worst, other.worst)

    def ang(self, label, got, exp, modulo=True, extra=None):
        got = np.asarray(got, float)
        exp = np.asarray(exp, float)
        if got.shape != exp.shape:
            self.problems.append("%s: shape %s, expected %s" % (label, got.shape, exp.shape))
            return
        diff = got - exp
        if modulo:
            diff = (diff + 180.0) % 360.0 - 180.0
        sel = self.ok & np.isfinite(exp)
        tol = ANGTOL if extra is None else ANGTOL + extra
        with np.errstate(invalid="ignore"):
            bad = ~(np.abs(diff) <= tol) & sel
        self.ncmp += int(sel.sum())
        if bad.any():
            self._report(label, bad, got, exp)


# ------------------------------------------------------------------------------------------------
# implementation routes (C01)

class Routes(object):
    """imports ImageD11 (after common.use_shadow) and compiles the numba copies once"""

    def __init__(self, numba_routes=True):
        from ImageD11 import transform, cImageD11, columnfile, parameters, refinegrains, gv_general, grain
        self.transform = transform
        self.c = cImageD11
        self.columnfile = columnfile
        self.parameters = parameters
        self.refinegrains = refinegrains
        self.gv_general = gv_general
        self.grain = grain
        self.pbp = None
        if numba_routes:
            with contextlib.redirect_stdout(io.StringIO()):
                from ImageD11.sinograms import point_by_point
            self.pbp = point_by_point
        with contextlib.redirect_stdout(io.StringIO()):
            self.rg_plain = refinegrains.refinegrains(OmFloat=False)
            self.rg_float = refinegrains.refinegrains(OmFloat=True, OmSlop=0.0)
        self._parfile = None

    def parfile(self):
        """one parameter file under the scratch directory, rewritten for every use"""
        if self._parfile is None:
            self._parfile = os.path.join(common.scratch(), "c01_geometry.par")
        return self._parfile


class _Grain(object):
    pass


class omp_threads(object):
    """context manager: run the OpenMP kernels with n threads, restore the previous setting afterwards"""

    def __init__(self, rt, n):
        self.c = rt.c
        self.n = n

    def __enter__(self):
        self.old = self.c.cimaged11_omp_get_max_threads()
        if self.n:
            self.c.cimaged11_omp_set_num_threads(int(self.n))
        return self

    def __exit__(self, *a):
        self.c.cimaged11_omp_set_num_threads(self.old)
        return False


def exact_rmat(par):
    """dot(detector_rotation_matrix, flip matrix) formed from the exact rationals (independent packing for the raw
    C call): rows of Rx.Ry.Rz times [[1,0,0],[0,o22,o21],[0,o12,o11]]"""
    def R(axis, a):
        c, s = F(a[0], a[2]), F(a[1], a[2])
        if axis == "x":
            return [[1, 0, 0], [0, c, -s], [0, s, c]]
        if axis == "y":
            return [[c, 0, s], [0, 1, 0], [-s, 0, c]]
        return [[c, -s, 0], [s, c, 0], [0, 0, 1]]

    def mm(a, b):
        return [[sum(a[i][k] * b[k][j] for k in range(3)) for j in range(3)] for i in range(3)]
    o11, o12, o21, o22 = par["o"]
    fm = [[1, 0, 0], [0, o22, o21], [0, o12, o11]]
    m = mm(mm(mm(R("x", par["tilt_x"]), R("y", par["tilt_y"])), R("z", par["tilt_z"])), fm)
    return np.array([[float(x) for x in row] for row in m]).ravel()


def typed_pars(rt, P, how):
    """The same parameter values with the Python types a parameter file yields (parameters.dumbtypecheck): integral
    values are ints ("o11 1", "omegasign -1", "wedge 0", "distance 60"), the others floats.
      how = "int": the dictionary is built directly
      how = "str": every value is written as text ('1', '-90', repr(float)) and goes through
                   parameters.set_parameters -> dumbtypecheck
    returns (dictionary, problem or None)"""
    want = {k: (int(v) if float(v).is_integer() else float(v)) for k, v in P.items()}
    if how == "int":
        return want, None
    po = rt.parameters.parameters()
    po.set_parameters({k: (str(v) if isinstance(v, int) else repr(v)) for k, v in want.items()})
    got = dict(po.parameters)
    for k in want:
        if type(got.get(k)) is not type(want[k]) or got[k] != want[k]:
            return want, "parameters.set_parameters / dumbtypecheck turned %s = %r into %r" % (k, want[k], got.get(k))
    return got, None


def shifted_g(orc, offsets, which, use_origin):
    """expected g-vectors when the diffraction origin of row i is moved by offsets[which[i]] (Fractions) along the beam:
    d = xyz - xoff e_x (- o if use_origin), g = G (d/|d| - e_x)/lambda; exact up to the final square root.
    Rows of a tiled batch repeat the records: each (record, offset) pair is evaluated once.  returns (g, ok)"""
    n = orc.n
    m = len(orc.recs)
    which = np.asarray(which, int)
    pair = (np.arange(n) % m) * len(offsets) + which
    uniq, inv = np.unique(pair, return_inverse=True)
    ug = np.zeros((len(uniq), 3))
    uok = np.ones(len(uniq), bool)
    for j, pr in enumerate(uniq):
        r = orc.recs[int(pr) // len(offsets)]
        xoff = offsets[int(pr) % len(offsets)]
        xn, xd = r["xyz"]
        dloc = [F(xn[0], xd) - xoff, F(xn[1], xd), F(xn[2], xd)]
        if use_origin:
            on, od = r["org"]
            dloc = [dloc[c] - F(on[c], od) for c in range(3)]
        n2 = sum(x * x for x in dloc)
        if n2 == 0:
            uok[j] = False
            continue
        Gn, Gd = r["G"]
        absd = (D(n2.numerator) / D(n2.denominator)).sqrt()
        u = [D(x.numerator) / D(x.denominator) / absd for x in dloc]
        kk = [u[0] - 1, u[1], u[2]]
        lamd = D(r["par"]["wl"][0]) / D(r["par"]["wl"][1])
        ug[j] = [float(sum(D(Gn[c][e]) * kk[e] for e in range(3)) / D(Gd) / lamd) for c in range(3)]
    return ug[inv], orc.ok & uok[inv]


LOCAL_GRIDS = ((2, -3, F(1, 2)), (0, 0, F(1, 2)), (-1, 4, F(-1, 4)))
GEOCOLS = ("xl", "yl", "zl", "tth", "eta", "ds", "gx", "gy", "gz")
# options: cf_file = cf also runs the history through a parameter file on disk; cf_nohist = cf without the histories of
# one object; al_last / al_first = only that position of the batch's grain in assignlabels (default: both);
# numba_1grid = get_local_gv on the first grid only
ALL_ROUTES = ("py", "c", "ct", "cf", "cf_file", "cfx", "numba", "rg", "al")
REPLAY_ROUTES = ALL_ROUTES + ("hist_all",)      # hist_all = every subset history, not the next few of the rotation
FAMILIES = ("cfx_xc_yc", "cfx_array2d_prefilled", "cfx_array2d_bare", "cfx_copy", "cfx_filter", "cfx_bigarray_after_update",
            "assignlabels_gv_rows", "assignlabels_per_grain_rows", "typed_batches", "typed_numba", "gve_per_row_xpos_rows",
            "local_gv_grids", "ctransform_out_buffers", "ctransform_reset", "ctransform_source_edit", "xlylzl_dist_yz",
            "inputs_intact_checks", "ctransform_subset_edit", "cf_subset_histories")


# Histories of ONE object between whose two updates only a SUBSET of the parameters changes (what a fit of the wavelength,
# of the wedge, of the detector position ... does): every single parameter (the four flip elements as one), and the
# groups a program could treat alike.  The first parameter set is the batch's own with the subset taken from P0.
_DETECTOR = ("y_center", "z_center", "y_size", "z_size", "distance", "tilt_x", "tilt_y", "tilt_z", "o11", "o12", "o21", "o22")
_FLIP = ("o11", "o12", "o21", "o22")
SUBSETS = tuple((k, (k,)) for k in ("wavelength", "wedge", "chi", "omegasign", "t_x", "t_y", "t_z", "y_center", "z_center",
                                    "y_size", "z_size", "distance", "tilt_x", "tilt_y", "tilt_z")) + (
    ("flip", _FLIP), ("wedge+chi", ("wedge", "chi")), ("wavelength+omegasign", ("wavelength", "omegasign")),
    ("translation", ("t_x", "t_y", "t_z")), ("detector", _DETECTOR),
    ("non-detector", ("wavelength", "wedge", "chi", "omegasign", "t_x", "t_y", "t_z")),
    ("sample stage", ("wedge", "chi", "omegasign")), ("tilts", ("tilt_x", "tilt_y", "tilt_z")),
    ("pixel sizes+distance", ("y_size", "z_size", "distance")), ("centre", ("y_center", "z_center")))
SUBSETS_PER_BATCH = 3
_rotation = {}


def pick_subsets(who, every=False, k=SUBSETS_PER_BATCH):
    """the next k subsets of the rotation (all of them when a saved case is replayed); each comes with a running number
    from which the history's shape (which call first / second, how the parameters are edited, fast or slow) is drawn"""
    if every:
        return [(i, nm, keys) for i, (nm, keys) in enumerate(SUBSETS)]
    out = []
    for _ in range(k):
        i = _rotation.get(who, 0)
        _rotation[who] = i + 1
        nm, keys = SUBSETS[i % len(SUBSETS)]
        out.append((i + 2 * (i // len(SUBSETS)), nm, keys))      # (odd step per round: every shape comes up)
    return out


def subset_history(rt, cf, PS, P, keys, v, translation=None):
    """cf is updated for the parameters PS, then only `keys` are edited to the values of P and cf is updated again.
    The shape is drawn from the running number v: which call comes first / second (updateGeometry, updateGV), the
    compiled or the Python route (three in four compiled), and how the edit is made (parameters.set on the kept object,
    dictionary item assignment, a new parameters object, a new object through the pars= argument).
    returns (description, only_g: the second call was updateGV and fills gx, gy, gz only)"""
    first, second = (("updateGeometry", "updateGeometry"), ("updateGV", "updateGV"), ("updateGV", "updateGeometry"),
                     ("updateGeometry", "updateGV"))[v % 4]
    fast = (v // 4) % 4 != 3
    edit = ("parameters.set", "dictionary item", "new parameters object", "pars= argument")[(v // 16 + v) % 4]
    po = rt.parameters.parameters(**PS)
    getattr(cf, first)(pars=po, translation=translation, fast=fast)
    arg = None
    if edit == "parameters.set":
        for k in keys:
            po.set(k, P[k])
    elif edit == "dictionary item":
        for k in keys:
            po.parameters[k] = P[k]
    elif edit == "new parameters object":
        cf.parameters = rt.parameters.parameters(**P)
    else:
        arg = rt.parameters.parameters(**P)
    getattr(cf, second)(pars=arg, translation=translation, fast=fast)
    return "%s(fast=%s) after %s(fast=%s) on the same columnfile" % (second, fast, first, fast) + \
           ", only %%s edited in between (%s)" % edit, second == "updateGV"


def other_pars(P, Q, U=1.0):
    """a parameter set that differs from Q in EVERY parameter (keys and types of P; U = the batch's length unit)"""
    P0 = dict(P)
    P0.update(o11=-Q["o11"], o12=Q["o21"], o21=Q["o12"], tilt_x=Q["tilt_y"] + 0.1, tilt_y=Q["tilt_z"] - 0.05,
              tilt_z=Q["tilt_x"] + 0.02, wedge=Q["wedge"] + 7.0, chi=Q["chi"] - 3.0, distance=Q["distance"] * 1.5,
              y_center=Q["y_center"] + 31.0, z_center=Q["z_center"] - 17.0, y_size=Q["y_size"] * 2, z_size=-Q["z_size"],
              omegasign=-Q["omegasign"], wavelength=Q["wavelength"] * 1.25, t_x=Q["t_x"] + 5.0 * U, t_y=Q["t_y"] - 7.0 * U,
              t_z=Q["t_z"] + 3.0 * U)
    return P0


class _Ctx(object):
    """one batch on its way through the route families"""

    def __init__(self, rt, orc, J, P, typing, count, parfile=True):
        self.rt, self.orc, self.J, self.P, self.typing = rt, orc, J, P, typing
        self.parfile = parfile          # also run the history that goes through a parameter file on disk
        self.histories = True           # histories of one columnfile object
        self.all_subsets = False        # every subset history instead of the next few of the rotation (replay of a case)
        self.orders = ("last", "first")  # position of this batch's grain among the two of assignlabels
        self.grids = len(LOCAL_GRIDS)    # how many (si, sj, ystep) grids of get_local_gv
        self.tag = "" if typing is None else " [parameters typed as a parameter file yields: %s]" % typing
        self.t = (P["t_x"], P["t_y"], P["t_z"])
        self.count = count if count is not None else {}
        self.pristine = {k: getattr(orc, k).copy() for k in ("sc", "fc", "omega", "oms", "xyz")}
        # a second, different parameter set (histories: computed first, must not survive)
        self.P0 = other_pars(P, orc.P, orc.unitf)

    def hit(self, family, k=1):
        self.count[family] = self.count.get(family, 0) + k

    def vec(self, label, got, exp, **kw):
        self.J.vec(label + self.tag, got, exp, **kw)

    def ang(self, label, got, exp, **kw):
        self.J.ang(label + self.tag, got, exp, **kw)

    def geometry_cols(self, label, xyz, tth, eta, ds, g):
        orc = self.orc
        if xyz is not None:
            self.vec(label + " xl,yl,zl", xyz, orc.xyz, length=True)
        if tth is not None:
            self.ang(label + " tth", tth, orc.tth, modulo=False)
            self.ang(label + " eta", eta, orc.eta)
        if ds is not None:
            self.vec(label + " ds", ds, orc.ds)
        if g is not None:
            self.vec(label + " gx,gy,gz", g, orc.g)

    def same_bits(self, a, name):
        a = np.asarray(a)
        b = self.pristine[name]
        return a.shape == b.shape and a.dtype == b.dtype and a.tobytes() == b.tobytes()

    def inputs_intact(self, where):
        """the arrays handed to the routes of a family are bit-identical afterwards (restored if not)"""
        for name in ("sc", "fc", "omega", "oms", "xyz"):
            a = getattr(self.orc, name)
            self.hit("inputs_intact_checks")
            if not self.same_bits(a, name):
                self.J.problems.append("%s%s modified its input array %s in place" % (where, self.tag, name))
                setattr(self.orc, name, self.pristine[name].copy())

    def colfile(self, names=("sc", "fc")):
        o = self.orc
        return self.rt.columnfile.colfile_from_dict({names[0]: o.sc.copy(), names[1]: o.fc.copy(), "omega": o.omega.copy()})

    def cf_cols(self, label, cf, names=("sc", "fc"), only_g=False, views=1):
        """the nine geometry columns of a columnfile (attribute, getcolumn and - where the storage is one 2-D array -
        the array rows must all show the same numbers) and its untouched input columns"""
        J = self.J
        for col, name in zip(names + ("omega",), ("sc", "fc", "omega")):
            self.hit("inputs_intact_checks")
            if not self.same_bits(np.asarray(getattr(cf, col), float), name):
                J.problems.append("%s%s changed the input column %s" % (label, self.tag, col))
        want = ("gx", "gy", "gz") if only_g else GEOCOLS
        for k in want:
            if k not in cf.titles:
                J.problems.append("%s%s: column %s missing" % (label, self.tag, k))
                return
        for vt, get in (("", lambda k: getattr(cf, k)), (" [getcolumn]", lambda k: cf.getcolumn(k)))[:views]:
            g = np.array([get("gx"), get("gy"), get("gz")]).T
            if only_g:
                self.vec(label + vt + " gx,gy,gz", g, self.orc.g)
            else:
                self.geometry_cols(label + vt, np.array([get("xl"), get("yl"), get("zl")]).T, get("tth"), get("eta"),
                                   get("ds"), g)


def _with_pars(ctx, cf, PP):
    cf.parameters = ctx.rt.parameters.parameters(**PP)
    return cf


# ---- (1) the documented Python reference, stage by stage
def _sec_py(ctx):
    rt, orc, J, P, t = ctx.rt, ctx.orc, ctx.J, ctx.P, ctx.t
    tr = rt.transform
    sc, fc, oms = orc.sc, orc.fc, orc.oms
    lam = P["wavelength"]
    tkw = dict(t_x=t[0], t_y=t[1], t_z=t[2], wedge=P["wedge"], chi=P["chi"])
    xyz = tr.compute_xyz_lab(np.array([sc, fc]), **P)
    ctx.vec("transform.compute_xyz_lab", xyz.T, orc.xyz, length=True)
    tth, eta = tr.compute_tth_eta_from_xyz(xyz, oms, **tkw)
    ctx.ang("transform.compute_tth_eta_from_xyz tth", tth, orc.tth, modulo=False)
    ctx.ang("transform.compute_tth_eta_from_xyz eta", eta, orc.eta)
    tth2, eta2 = tr.compute_tth_eta(np.array([sc, fc]), omega=oms, **P)
    ctx.ang("transform.compute_tth_eta tth", tth2, orc.tth, modulo=False)
    ctx.ang("transform.compute_tth_eta eta", eta2, orc.eta)
    go = tr.compute_grain_origins(oms, wedge=P["wedge"], chi=P["chi"], t_x=t[0], t_y=t[1], t_z=t[2])
    ctx.vec("transform.compute_grain_origins", go.T, orc.org, length=True)
    k = tr.compute_k_vectors(tth, eta, lam)
    ctx.vec("transform.compute_k_vectors", k.T, orc.k)
    g = tr.compute_g_from_k(k, oms, P["wedge"], P["chi"])
    ctx.vec("transform.compute_g_from_k", g.T, orc.g)
    g2 = tr.compute_g_vectors(tth, eta, oms, lam, wedge=P["wedge"], chi=P["chi"])
    ctx.vec("transform.compute_g_vectors", g2.T, orc.g)
    # fed with the oracle's angles (not the route's own), where eta is defined
    e0 = np.where(np.isfinite(orc.eta), orc.eta, 0.0)
    g3 = tr.compute_g_vectors(orc.tth, e0, oms, lam, wedge=P["wedge"], chi=P["chi"])
    ctx.vec("transform.compute_g_vectors(oracle tth, eta)", g3.T, orc.g)
    with np.errstate(invalid="ignore", divide="ignore"):
        s2 = tr.compute_sinsqth_from_xyz((xyz - go))
    back = (orc.d[:, 1] == 0) & (orc.d[:, 2] == 0) & (orc.d[:, 0] < 0)     # 0/0 in the documented formula
    keep = J.ok
    J.ok = J.ok & ~back
    ctx.vec("transform.compute_sinsqth_from_xyz", s2, orc.sinsqth, widen=orc.sswiden)
    J.ok = keep


# ---- (2) the compiled fast path through Ctransform and raw
def _sec_c(ctx):
    rt, orc, P, t = ctx.rt, ctx.orc, ctx.P, ctx.t
    tr = rt.transform
    n = orc.n
    sc, fc, om = orc.sc, orc.fc, orc.omega
    lam = P["wavelength"]
    ct = tr.Ctransform(dict(P))
    xyz = ct.sf2xyz(sc, fc)
    ctx.vec("Ctransform.sf2xyz", xyz, orc.xyz, length=True)
    gv = ct.xyz2gv(xyz, om, t[0], t[1], t[2])
    ctx.vec("Ctransform.xyz2gv", gv, orc.g)
    geo = ct.xyz2geometry(xyz, om, t[0], t[1], t[2])
    ctx.geometry_cols("Ctransform.xyz2geometry", None, geo[:, 0], geo[:, 1], geo[:, 2], geo[:, 3:6])
    gv2 = ct.sf2gv(sc, fc, om, t[0], t[1], t[2])
    ctx.vec("Ctransform.sf2gv", gv2, orc.g)
    # raw kernels with a packing made by the harness from the exact rationals
    cen = np.array([P["z_center"], P["y_center"], P["z_size"], P["y_size"]], float)
    out = np.full((n, 3), 7.25)
    rt.c.compute_xlylzl(sc, fc, cen, exact_rmat(orc.par), np.array([P["distance"], 0.0, 0.0]), out)
    ctx.vec("cImageD11.compute_xlylzl", out, orc.xyz, length=True)
    # the documented "3D distance" arm: dist = [distance, dy, dz] moves the detector sideways and up
    out = np.full((n, 3), 7.25)
    U = orc.unitf                    # (lengths chosen by the harness are written in the batch's unit too)
    rt.c.compute_xlylzl(sc, fc, cen, exact_rmat(orc.par), np.array([P["distance"], 2.5 * U, -1.75 * U]), out)
    ctx.vec("cImageD11.compute_xlylzl(dist = [distance, 2.5, -1.75])", out, orc.xyz + np.array([0.0, 2.5 * U, -1.75 * U]),
            length=True)
    ctx.hit("xlylzl_dist_yz")
    xe = np.ascontiguousarray(orc.xyz)
    gout = np.full((n, 3), 7.25)
    rt.c.compute_gv(xe, om, P["omegasign"], lam, P["wedge"], P["chi"], np.array(t, float), gout)
    ctx.vec("cImageD11.compute_gv", gout, orc.g)
    geo = np.full((n, 6), 7.25)
    rt.c.compute_geometry(xe, om, P["omegasign"], lam, P["wedge"], P["chi"], np.array(t, float), geo)
    ctx.geometry_cols("cImageD11.compute_geometry", None, geo[:, 0], geo[:, 1], geo[:, 2], geo[:, 3:6])


# ---- (2b) Ctransform: caller-supplied out= buffers, histories of one object
def _sec_ct(ctx):
    rt, orc, J, P, t = ctx.rt, ctx.orc, ctx.J, ctx.P, ctx.t
    tr = rt.transform
    n = orc.n
    sc, fc, om = orc.sc, orc.fc, orc.omega
    xe = np.ascontiguousarray(orc.xyz)

    def buffers(ct, what):
        for name, shape, call, judge in (
                ("sf2xyz", (n, 3), lambda o: ct.sf2xyz(sc, fc, out=o), lambda o: ctx.vec(what + "sf2xyz(out=)", o, orc.xyz, length=True)),
                ("xyz2gv", (n, 3), lambda o: ct.xyz2gv(xe, om, t[0], t[1], t[2], out=o),
                 lambda o: ctx.vec(what + "xyz2gv(out=)", o, orc.g)),
                ("sf2gv", (n, 3), lambda o: ct.sf2gv(sc, fc, om, t[0], t[1], t[2], out=o),
                 lambda o: ctx.vec(what + "sf2gv(out=)", o, orc.g)),
                ("xyz2geometry", (n, 6), lambda o: ct.xyz2geometry(xe, om, t[0], t[1], t[2], out=o),
                 lambda o: ctx.geometry_cols(what + "xyz2geometry(out=)", None, o[:, 0], o[:, 1], o[:, 2], o[:, 3:6]))):
            buf = np.full(shape, 7.25)
            r = call(buf)
            if r is not buf:
                J.problems.append("%s%s(out=buffer)%s does not return the caller's buffer" % (what, name, ctx.tag))
            judge(buf)
            ctx.hit("ctransform_out_buffers")

    buffers(tr.Ctransform(dict(P)), "Ctransform.")
    # an object made for other parameters, .pars edited in place, reset(): nothing of the earlier packing may survive
    ct = tr.Ctransform(dict(ctx.P0))             # (copies: the harness's own dictionaries are never shared)
    ct.sf2gv(sc, fc, om, 1.0, 2.0, 3.0)
    for k in ct.pnames:
        ct.pars[k] = P[k]
    ct.reset()
    buffers(ct, "Ctransform after .pars edited and reset(): ")
    ctx.hit("ctransform_reset")
    # ... and with only a subset of the parameters edited before reset()
    for v, nm, keys in pick_subsets("ct", ctx.all_subsets, 2):
        PS = dict(P)
        PS.update({k: ctx.P0[k] for k in keys})
        ct = tr.Ctransform(PS)
        ct.sf2gv(sc, fc, om, 1.0, 2.0, 3.0)
        ct.xyz2geometry(xe, om, 1.0, 2.0, 3.0)
        for k in keys:
            if k in ct.pars:
                ct.pars[k] = P[k]
        ct.reset()
        lab = "Ctransform after only %s edited in .pars and reset(): " % nm
        ctx.vec(lab + "sf2gv", ct.sf2gv(sc, fc, om, t[0], t[1], t[2]), orc.g)
        geo = ct.xyz2geometry(ct.sf2xyz(sc, fc), om, t[0], t[1], t[2])
        ctx.geometry_cols(lab + "xyz2geometry", None, geo[:, 0], geo[:, 1], geo[:, 2], geo[:, 3:6])
        ctx.hit("ctransform_subset_edit")
    # the constructor copies its parameters: editing the source dictionary afterwards changes nothing
    src = dict(P)
    ct = tr.Ctransform(src)
    src.update(dict(ctx.P0))
    ctx.vec("Ctransform.sf2gv after the source dictionary was edited", ct.sf2gv(sc, fc, om, t[0], t[1], t[2]), orc.g)
    geo = ct.xyz2geometry(ct.sf2xyz(sc, fc), om, t[0], t[1], t[2])
    ctx.geometry_cols("Ctransform.xyz2geometry after the source dictionary was edited", None, geo[:, 0], geo[:, 1],
                      geo[:, 2], geo[:, 3:6])
    ctx.hit("ctransform_source_edit")


# ---- (3) columnfile fast / slow, translation by parameter and by argument
def _sec_cf(ctx):
    rt, orc, P, t = ctx.rt, ctx.orc, ctx.P, ctx.t
    for how in ("parameter", "argument"):
        PP = dict(P)
        trans = None
        if how == "argument":
            PP["t_x"], PP["t_y"], PP["t_z"] = 11.0, -13.0, 17.0     # must be overridden by the argument
            trans = t
        for fast in (True, False):
            cf = _with_pars(ctx, ctx.colfile(), PP)
            cf.updateGeometry(translation=trans, fast=fast)
            ctx.cf_cols("columnfile.updateGeometry(fast=%s, translation by %s)" % (fast, how), cf)
            cf2 = ctx.colfile()
            cf2.updateGV(pars=rt.parameters.parameters(**PP), translation=trans, fast=fast)
            ctx.cf_cols("columnfile.updateGV(fast=%s, translation by %s)" % (fast, how), cf2, only_g=True)

    # histories on ONE columnfile object: an update with other parameters first, then the parameters are edited in
    # place (parameters.set / dictionary update - the idiom of dataset.update_colfile_pars and of fitting loops) and the
    # object is updated again; nothing computed for the earlier parameters may survive
    if not ctx.histories:
        return
    P0 = ctx.P0
    for fast in (True, False):
        for edit in ("set", "dict.update", "loadparameters") if ctx.parfile else ("set", "dict.update"):
            cf = _with_pars(ctx, ctx.colfile(), P0)
            cf.updateGeometry(fast=fast)
            if edit == "set":
                for k in sorted(P):
                    cf.parameters.set(k, P[k])
            elif edit == "dict.update":
                cf.parameters.parameters.update(P)
            else:
                fn = rt.parfile()
                rt.parameters.parameters(**P).saveparameters(fn)
                cf.parameters.loadparameters(fn)
                if any(cf.parameters.get(k) != P[k] for k in P):
                    continue                # (a value that does not survive the text file: not this property)
            cf.updateGeometry(fast=fast)
            ctx.cf_cols("columnfile.updateGeometry(fast=%s) after an update with other parameters and an in-place edit (%s)"
                        % (fast, edit), cf)
        cf2 = ctx.colfile()
        po = rt.parameters.parameters(**P0)
        cf2.updateGV(pars=po, fast=fast)
        for k in sorted(P):
            po.set(k, P[k])
        cf2.updateGV(pars=po, fast=fast)
        ctx.cf_cols("columnfile.updateGV(fast=%s) twice with one parameter object edited in between" % fast, cf2, only_g=True)
    # ... and histories in which only a subset of the parameters changes between the two updates
    for v, nm, keys in pick_subsets("cf", ctx.all_subsets):
        PS = dict(P)
        PS.update({k: P0[k] for k in keys})
        cf = ctx.colfile()
        trans = None
        if (v // 64 + v) % 3 == 2:                  # a third with the translation by argument in both calls
            PS["t_x"], PS["t_y"], PS["t_z"] = 11.0, -13.0, 17.0
            trans = ctx.t
        PP = dict(PS, **{k: P[k] for k in keys})     # (= P, but for an overridden translation)
        lab, only_g = subset_history(rt, cf, PS, PP, keys, v, translation=trans)
        ctx.cf_cols("columnfile." + lab % nm, cf, only_g=only_g)
        ctx.hit("cf_subset_histories")
        ctx.hit("cf_subset_history:" + nm)


# ---- (3b) columnfile storage and naming variants (the model does not know how a columnfile stores its columns:
#           harness-only instance family, same oracle)
def _sec_cfx(ctx):
    rt, orc, P = ctx.rt, ctx.orc, ctx.P
    n = orc.n
    CF = rt.columnfile
    for fast in (True, False):
        # (a) peak positions under the titles xc, yc
        cf = _with_pars(ctx, ctx.colfile(("xc", "yc")), P)
        cf.updateGeometry(fast=fast)
        ctx.cf_cols("columnfile with xc,yc titles .updateGeometry(fast=%s)" % fast, cf, names=("xc", "yc"), views=2)
        cf = ctx.colfile(("xc", "yc"))
        cf.updateGV(pars=rt.parameters.parameters(**P), fast=fast)
        ctx.cf_cols("columnfile with xc,yc titles .updateGV(fast=%s)" % fast, cf, names=("xc", "yc"), only_g=True, views=2)
        ctx.hit("cfx_xc_yc")
        # (b) one 2-D array behind the columns which already holds the nine geometry columns (as after reading a file
        #     written by an earlier session): the update must overwrite every one of them, in the array too
        titles = ["sc", "fc", "omega"] + list(GEOCOLS)
        big = np.full((len(titles), n), 7.25)
        big[0], big[1], big[2] = orc.sc, orc.fc, orc.omega
        cf = CF.newcolumnfile(titles=list(titles))
        cf.nrows = n
        cf.set_bigarray(big)
        _with_pars(ctx, cf, P)
        cf.updateGeometry(fast=fast)
        lab = "columnfile on a 2-D array pre-filled with old geometry columns .updateGeometry(fast=%s)" % fast
        ctx.cf_cols(lab, cf, views=2)
        ba = cf.bigarray
        ctx.geometry_cols(lab + " [bigarray rows]", np.array([ba[3], ba[4], ba[5]]).T, ba[6], ba[7], ba[8],
                          np.array([ba[9], ba[10], ba[11]]).T)
        ctx.hit("cfx_array2d_prefilled")
        # (c) a bare 2-D array (sc, fc, omega only): the new columns are appended
        cf = CF.newcolumnfile(titles=["sc", "fc", "omega"])
        cf.nrows = n
        cf.set_bigarray(np.array([orc.sc, orc.fc, orc.omega]))
        cf.updateGeometry(pars=rt.parameters.parameters(**P), fast=fast)          # (parameters through the pars= argument)
        ctx.cf_cols("columnfile on a bare 2-D array .updateGeometry(fast=%s)" % fast, cf, views=2)
        ctx.hit("cfx_array2d_bare")
        # (d) updated with other parameters, copied; the copy is updated with these parameters
        cf0 = _with_pars(ctx, ctx.colfile(), ctx.P0)
        cf0.updateGeometry(fast=fast)
        cf = cf0.copy()
        _with_pars(ctx, cf, P)
        cf.updateGeometry(fast=fast)
        ctx.cf_cols("columnfile.copy() of an updated columnfile .updateGeometry(fast=%s)" % fast, cf, views=2)
        ctx.hit("cfx_copy")
        # (e) ... filtered with an all-true mask, then updated
        cf0.filter(np.ones(n, bool))
        _with_pars(ctx, cf0, P)
        cf0.updateGeometry(fast=fast)
        ctx.cf_cols("columnfile.filter(all true) of an updated columnfile .updateGeometry(fast=%s)" % fast, cf0, views=2)
        ctx.hit("cfx_filter")
        # (f) ... looked at as one array (get_bigarray) between two updates
        cf = _with_pars(ctx, ctx.colfile(), ctx.P0)
        cf.updateGeometry(fast=fast)
        cf.bigarray
        _with_pars(ctx, cf, P)
        cf.updateGeometry(fast=fast)
        lab = "columnfile.bigarray taken between two updates .updateGeometry(fast=%s)" % fast
        ctx.cf_cols(lab, cf, views=2)
        ba = cf.bigarray
        ix = [cf.titles.index(k) for k in GEOCOLS]
        ctx.geometry_cols(lab + " [bigarray rows]", np.array([ba[ix[0]], ba[ix[1]], ba[ix[2]]]).T, ba[ix[3]], ba[ix[4]],
                          ba[ix[5]], np.array([ba[ix[6]], ba[ix[7]], ba[ix[8]]]).T)
        ctx.hit("cfx_bigarray_after_update")


# ---- (4) numba point-by-point copies (no omegasign argument: callers pre-multiply) and get_local_gv
def _sec_numba(ctx):
    rt, orc, J, P, t = ctx.rt, ctx.orc, ctx.J, ctx.P, ctx.t
    if rt.pbp is None:
        return
    pbp = rt.pbp
    n = orc.n
    sc, fc, om, oms = orc.sc, orc.fc, orc.omega, orc.oms
    lam = P["wavelength"]
    if ctx.typing is not None:
        # the typed replay reaches the numba copies through three leaf functions in ONE type pattern each (every
        # further pattern costs a compilation; compute_gve alone would re-specialise its whole call tree, ~10 s):
        # compute_xyz_lab with the flips, centres, pixel sizes and the distance as ints (tilts as floats),
        # compute_grain_origins and compute_g_vectors with wedge, chi and the translation as ints (batches whose wedge or
        # chi is not integral are not sent there)
        ints = ("o11", "o12", "o21", "o22", "y_center", "z_center", "y_size", "z_size", "distance")
        if all(isinstance(P[k], int) for k in ints):
            xyz = pbp.compute_xyz_lab(sc, fc, tilt_x=float(P["tilt_x"]), tilt_y=float(P["tilt_y"]), tilt_z=float(P["tilt_z"]),
                                      **{k: P[k] for k in ints})
            ctx.vec("point_by_point.compute_xyz_lab", xyz.T, orc.xyz, length=True)
            ctx.hit("typed_numba")
        ints = ("wedge", "chi", "t_x", "t_y", "t_z")
        if all(isinstance(P[k], int) for k in ints):
            go = pbp.compute_grain_origins(oms, P["wedge"], P["chi"], t[0], t[1], t[2])
            ctx.vec("point_by_point.compute_grain_origins", go.T, orc.org, length=True)
            e0 = np.where(np.isfinite(orc.eta), orc.eta, 0.0)
            g = pbp.compute_g_vectors(orc.tth, e0, oms, float(lam), wedge=P["wedge"], chi=P["chi"])
            ctx.vec("point_by_point.compute_g_vectors(oracle tth, eta)", g.T, orc.g)
            ctx.hit("typed_numba")
        return
    det = dict(y_center=P["y_center"], y_size=P["y_size"], tilt_y=P["tilt_y"], z_center=P["z_center"],
               z_size=P["z_size"], tilt_z=P["tilt_z"], tilt_x=P["tilt_x"], distance=P["distance"],
               o11=P["o11"], o12=P["o12"], o21=P["o21"], o22=P["o22"])
    xyz = pbp.compute_xyz_lab(sc, fc, **det)
    ctx.vec("point_by_point.compute_xyz_lab", xyz.T, orc.xyz, length=True)
    go = pbp.compute_grain_origins(oms, P["wedge"], P["chi"], t[0], t[1], t[2])
    ctx.vec("point_by_point.compute_grain_origins", go.T, orc.org, length=True)
    tth, eta = pbp.compute_tth_eta(sc, fc, oms, t_x=t[0], t_y=t[1], t_z=t[2], wedge=P["wedge"], chi=P["chi"], **det)
    ctx.ang("point_by_point.compute_tth_eta tth", tth, orc.tth, modulo=False)
    ctx.ang("point_by_point.compute_tth_eta eta", eta, orc.eta)
    tth3, eta3 = pbp.compute_tth_eta_from_xyz(xyz, oms, t_x=t[0], t_y=t[1], t_z=t[2], wedge=P["wedge"], chi=P["chi"])
    ctx.ang("point_by_point.compute_tth_eta_from_xyz tth", tth3, orc.tth, modulo=False)
    ctx.ang("point_by_point.compute_tth_eta_from_xyz eta", eta3, orc.eta)
    k = pbp.compute_k_vectors(tth, eta, lam)
    ctx.vec("point_by_point.compute_k_vectors", k.T, orc.k)
    g = pbp.compute_g_vectors(tth, eta, oms, lam, wedge=P["wedge"], chi=P["chi"])
    ctx.vec("point_by_point.compute_g_vectors", g.T, orc.g)

    def gve(xpos, distance):
        return pbp.compute_gve(sc, fc, oms, xpos, distance, P["y_center"], P["y_size"], P["tilt_y"], P["z_center"],
                               P["z_size"], P["tilt_z"], P["tilt_x"], P["o11"], P["o12"], P["o21"], P["o22"],
                               t[0], t[1], t[2], P["wedge"], P["chi"], lam).T
    U = orc.unitf                    # (the offsets below are lengths: written in the batch's unit)
    for x0 in (0.0, 2.5):
        ctx.vec("point_by_point.compute_gve(xpos=%g)" % x0, gve(np.full(n, x0 * U), P["distance"] + x0 * U), orc.g)
    # one xpos per peak (as the refinement passes it): row i is computed at distance - xpos[i]
    xvals = [F(a - 2) * F(5, 4) + b * F(3, 8) for b in (0, 1) for a in range(5)]       # -5/2 .. 5/2 (+ 3/8), incl. 0
    ii = np.arange(n)
    xwhich = (ii * 7) % 5 + 5 * (ii % 3 == 1)
    eg, okx = shifted_g(orc, xvals, xwhich, use_origin=True)
    keep = J.ok
    J.ok = okx
    ctx.vec("point_by_point.compute_gve(one xpos per peak)", gve(np.array([float(x * orc.unit) for x in xvals])[xwhich], P["distance"]), eg)
    J.ok = keep
    ctx.hit("gve_per_row_xpos_rows", int(okx.sum()))
    # get_local_gv: origin moved along x by sx cos(omega) - sy sin(omega), t = 0, then cImageD11.compute_gv
    m = len(orc.recs)
    angs = [r["par"]["omega"] for r in orc.recs]
    rec_of_row = np.arange(n) % m
    cs = np.array([a[0] / float(a[2]) for a in angs])[rec_of_row]
    sn = np.array([a[1] / float(a[2]) for a in angs])[rec_of_row]
    for si, sj, ystep in LOCAL_GRIDS[:ctx.grids]:
        sx, sy = F(si) * ystep, -F(sj) * ystep
        eg, okl = shifted_g(orc, [sx * F(a[0], a[2]) - sy * F(a[1], a[2]) for a in angs], rec_of_row, use_origin=False)
        old = pbp.parglobal
        try:
            pbp.parglobal = rt.parameters.parameters(**P)
            gv, gx, gy, gz = pbp.get_local_gv(si, sj, float(ystep * orc.unit), om, sn, cs, orc.xyz[:, 0].copy(), orc.xyz[:, 1].copy(),
                                              orc.xyz[:, 2].copy())
        finally:
            pbp.parglobal = old
        keep = J.ok
        J.ok = okl
        lab = "point_by_point.get_local_gv(si=%d, sj=%d, ystep=%g)" % (si, sj, float(ystep))
        ctx.vec(lab, gv, eg)
        ctx.vec(lab + " (gx,gy,gz)", np.array([gx, gy, gz]).T, eg)
        J.ok = keep
        ctx.hit("local_gv_grids")


# ---- (5) refinegrains.compute_gv
def _sec_rg(ctx):
    rt, orc, P = ctx.rt, ctx.orc, ctx.P
    n = orc.n
    for rg, lab in ((rt.rg_plain, "refinegrains.compute_gv(OmFloat=False)"),
                    (rt.rg_float, "refinegrains.compute_gv(OmFloat=True, OmSlop=0)")):
        rg.parameterobj = rt.parameters.parameters(**P)
        gr = _Grain()
        gr.peaks_xyz = np.ascontiguousarray(orc.xyz)
        gr.om = orc.omega
        gr.omega_calc = np.zeros(n)
        gr.ubi = np.eye(3) * 3.0
        gr.name = "0:0"
        rg.tolerance = 0.05
        with contextlib.redirect_stdout(io.StringIO()), np.errstate(invalid="ignore", divide="ignore"):
            rg.compute_gv(gr)
        ctx.vec(lab + " gv", rg.gv, orc.g)
        ctx.ang(lab + " tth", rg.tth, orc.tth, modulo=False)
        ctx.ang(lab + " eta", rg.eta, orc.eta)


# ---- (6) refinegrains.assignlabels: the peak-to-grain assignment calls cImageD11.compute_gv once per grain with that
#          grain's translation, into ONE g-vector buffer, with its own packing of the peak positions and parameters
def _sec_al(ctx):
    rt, orc, J, P, t = ctx.rt, ctx.orc, ctx.J, ctx.P, ctx.t
    n = orc.n
    other = (ctx.P0["t_x"], ctx.P0["t_y"], ctx.P0["t_z"])
    for order in ctx.orders:
        rg = rt.rg_plain
        PP = dict(P)
        PP["t_x"], PP["t_y"], PP["t_z"] = 11.0, -13.0, 17.0          # a third translation: the grains' own must be used
        rg.parameterobj = rt.parameters.parameters(**PP)
        cf = rt.columnfile.colfile_from_dict({"sc": orc.sc.copy(), "fc": orc.fc.copy(), "omega": orc.omega.copy(),
                                              "drlv2": np.ones(n), "labels": np.full(n, -1.0)})
        rg.scannames, rg.scantitles, rg.scandata = ["scan"], {"scan": list(cf.titles)}, {"scan": cf}
        rg.grainnames = [0, 1]
        mine = 1 if order == "last" else 0
        rg.grains = {}
        for gi in (0, 1):
            # the grain at this batch's translation indexes everything (h = ubi.g ~ 0), the other one next to nothing
            gr = rt.grain.grain(np.eye(3) * (1e-9 if gi == mine else 2.9), translation=(t if gi == mine else other))
            gr.name = "%d:scan" % gi
            rg.grains[(gi, "scan")] = gr
        rg.tolerance = 0.05
        with contextlib.redirect_stdout(io.StringIO()), np.errstate(invalid="ignore", divide="ignore"):
            rg.assignlabels(quiet=True)
        lab = "refinegrains.assignlabels (this batch's grain %s of two)" % order
        for col, name in (("sc", "sc"), ("fc", "fc"), ("omega", "omega")):
            ctx.hit("inputs_intact_checks")
            if not ctx.same_bits(np.asarray(getattr(cf, col), float), name):
                J.problems.append("%s%s changed the input column %s" % (lab, ctx.tag, col))
        if order == "last":
            # the buffer was filled for the other grain first: every row must have been overwritten
            ctx.vec(lab + " .gv", rg.gv, orc.g)
            ctx.vec(lab + " gx,gy,gz columns", np.array([cf.gx, cf.gy, cf.gz]).T, orc.g)
            ctx.hit("assignlabels_gv_rows", int(J.ok.sum()))
        # per-grain angles of the peaks given to this batch's grain (stored as float32 by assignlabels)
        sel = np.asarray(cf.labels) == mine
        keep = J.ok
        J.ok = keep & sel
        ctx.ang(lab + " tth_per_grain", cf.tth_per_grain, orc.tth, modulo=False, extra=5e-5)
        ctx.ang(lab + " eta_per_grain", cf.eta_per_grain, orc.eta, extra=5e-5)
        ctx.hit("assignlabels_per_grain_rows", int(J.ok.sum()))
        J.ok = keep


SECTIONS = (("py", _sec_py), ("c", _sec_c), ("ct", _sec_ct), ("cf", _sec_cf), ("cfx", _sec_cfx), ("numba", _sec_numba),
            ("rg", _sec_rg), ("al", _sec_al))


def judge_fwd(rt, orc, routes=ALL_ROUTES, typing=None, count=None):
    """run one batch through the implementation routes; returns the Judge (problems, worst ratio, comparisons).
    typing = None: parameters are Python floats; "int" / "str": see typed_pars.  count: dictionary of vacuity counters"""
    J = Judge(orc.ok, orc.unitf)
    P = orc.P
    if typing is not None:
        P, problem = typed_pars(rt, orc.P, typing)
        if problem:
            J.problems.append(problem)
    ctx = _Ctx(rt, orc, J, P, typing, count, parfile=("cf_file" in routes))
    ctx.histories = "cf_nohist" not in routes
    ctx.all_subsets = "hist_all" in routes
    if "numba_1grid" in routes:
        ctx.grids = 1
    if "al_last" in routes or "al_first" in routes:
        ctx.orders = tuple(o for o in ("last", "first") if "al_" + o in routes)
    if typing is not None:
        ctx.hit("typed_batches")
    for name, fn in SECTIONS:
        if name not in routes:
            continue
        try:
            fn(ctx)
        except common.MachineryError:
            raise
        except Exception as e:                      # a route that raises is a disagreement, not a machinery error
            J.problems.append("route family '%s'%s raised %s: %s" % (name, ctx.tag, type(e).__name__, str(e)[:300]))
        ctx.inputs_intact("route family '%s'" % name)
    return J


# ------------------------------------------------------------------------------------------------
# C02 (i): reference-free laws on code output

def rotz(deg, v):
    c, s = np.cos(np.radians(deg)), np.sin(np.radians(deg))
    return np.array([c * v[:, 0] - s * v[:, 1], s * v[:, 0] + c * v[:, 1], v[:, 2]]).T


def roundtrip_uncompute(rt, J, label, gv, oms, orc, lam, wedge, chi, shift=0.0):
    """gv (n,3) computed by a forward route for the signed omegas `oms` of a t = 0 batch -> uncompute_g_vectors.
    Rows where the two solutions (nearly) coincide, g = 0 or eta is undefined are skipped.  returns rows judged"""
    n = orc.n
    margin, s = uncompute_margin(gv, lam, wedge, chi)
    sel = J.ok & np.isfinite(orc.eta) & (margin > 1e-6) & (s > 1e-9) & (s < 1 - 1e-9)
    if not sel.any():
        return 0
    with np.errstate(invalid="ignore", divide="ignore"):
        tth, (eta1, eta2), (o1, o2) = rt.transform.uncompute_g_vectors(np.ascontiguousarray(gv.T), lam, wedge=wedge, chi=chi)
    cond = 1.0 / np.sqrt(np.maximum(margin, 1e-12))
    keep = J.ok
    J.ok = sel
    J.ang("uncompute_g_vectors(g from %s) tth" % label, tth, orc.tth + shift, modulo=False,
          extra=ANGTOL * (1.0 / np.sqrt(np.maximum(1 - np.minimum(s, 1.0) ** 2, 1e-12))))
    J.ok = keep
    tol = ANGTOL * 10 * cond
    d = lambda a, b: np.abs((a - b + 180.0) % 360.0 - 180.0)
    with np.errstate(invalid="ignore"):
        hit1 = (d(o1, oms) <= tol) & (d(eta1, orc.eta) <= tol)
        hit2 = (d(o2, oms) <= tol) & (d(eta2, orc.eta) <= tol)
    bad = sel & ~(hit1 | hit2)
    J.ncmp += int(sel.sum())
    if bad.any():
        i = int(np.argmax(bad))
        J.problems.append("uncompute_g_vectors(g from %s): neither (omega, eta) = (%r, %r), (%r, %r) is the peak's (%r, %r); "
                          "g = %s" % (label, o1[i], eta1[i], o2[i], eta2[i], float(oms[i]), float(orc.eta[i]), gv[i].tolist()))
    return int(sel.sum())


LUT_SHAPE = (31, 32)        # covers the four peak positions of the lattice (two of them are whole pixels)
# transform.compute_xyz_lab keeps the dtype of its peak arrays (np.array(peaks)): PixelLUT hands it the INTEGER pixel indices
# of np.mgrid (no dxfile / spline), so (index - centre) * pixel size is truncated to a whole number of length units when it
# is stored back - invisible with integer centres and integer pixel sizes (microns), total in mm or metres
F_LUT_TRUNC = "C02-pixellut-integer-pixel-grid-truncated"


def _det_of(P):
    return {k: P[k] for k in ("y_center", "y_size", "tilt_y", "z_center", "z_size", "tilt_z", "tilt_x", "distance",
                              "o11", "o12", "o21", "o22")}


def numba_gve(rt, P, sc, fc, oms, t=None):
    """g-vectors of the numba route point_by_point.compute_gve (rows, 3); oms = signed omega"""
    t = (P["t_x"], P["t_y"], P["t_z"]) if t is None else t
    return rt.pbp.compute_gve(np.ascontiguousarray(sc, float), np.ascontiguousarray(fc, float), np.ascontiguousarray(oms, float),
                              np.zeros(len(sc)), P["distance"], P["y_center"], P["y_size"], P["tilt_y"], P["z_center"],
                              P["z_size"], P["tilt_z"], P["tilt_x"], P["o11"], P["o12"], P["o21"], P["o22"],
                              t[0], t[1], t[2], P["wedge"], P["chi"], P["wavelength"]).T


def judge_lut(rt, J, orc, stats=None, perturb=None):
    """transform.PixelLUT of the batch's parameters (one value per detector pixel, no grain translation): at the whole
    pixels of the lattice xyz, tth, eta, k, sinthsq are the record's exact values; on EVERY pixel of the table the three
    quantities it holds obey Bragg's law among themselves: sinthsq = sin^2(tth/2), |k| = 2 sqrt(sinthsq)/lambda"""
    P = orc.P
    lam = P["wavelength"]
    pars = dict(P, shape=LUT_SHAPE)
    try:
        with np.errstate(invalid="ignore", divide="ignore"):         # (0/0 on the beam axis behind the sample)
            lut = rt.transform.PixelLUT(pars)
    except Exception as e:
        J.problems.append("transform.PixelLUT raised %s: %s" % (type(e).__name__, str(e)[:300]))
        return
    lab = orc.lab_only()
    si, fi = np.round(orc.sc).astype(int), np.round(orc.fc).astype(int)
    whole = orc.ok & (si == orc.sc) & (fi == orc.fc) & (si >= 0) & (fi >= 0) & (si < LUT_SHAPE[0]) & (fi < LUT_SHAPE[1]) & lab["ok"]
    si, fi = np.where(whole, si, 0), np.where(whole, fi, 0)
    keep = J.ok
    Jx = J.sub(whole)
    Jx.vec("PixelLUT.xyz at the whole pixels", lut.xyz[:, si, fi].T, orc.xyz, length=True)
    if Jx.problems and whole.any():
        # does the table hold exactly what the truncation of (index - centre) * size to whole length units gives?
        pz, py = np.trunc((si - P["z_center"]) * P["z_size"]), np.trunc((fi - P["y_center"]) * P["y_size"])
        xt = exact_rmat(orc.par).reshape(3, 3).dot(np.array([np.zeros(len(pz)), py, pz])).T + np.array([P["distance"], 0.0, 0.0])
        Jt = J.sub(whole)
        Jt.vec("PixelLUT.xyz", lut.xyz[:, si, fi].T, xt, length=True)
        if not Jt.problems:
            J.findings.append((F_LUT_TRUNC, "transform.PixelLUT built from the integer pixel grid (no dxfile / spline): "
                               "compute_xyz_lab stores (index - centre) * pixel size back into the integer array, the positions "
                               "are truncated to whole length units (y_size = %r: %s)" % (P["y_size"], Jx.problems[0][:200])))
            if stats is not None:
                stats["lut_integer_grid_truncated_batches"] = stats.get("lut_integer_grid_truncated_batches", 0) + 1
            whole = np.zeros_like(whole)           # the values at the whole pixels follow the truncated positions: not judged
            Jx = J.sub(whole)
    J.absorb(Jx)
    J.ok = whole
    J.ang("PixelLUT.tth at the whole pixels", lut.tth[si, fi], lab["tth"], modulo=False)
    J.ang("PixelLUT.eta at the whole pixels", lut.eta[si, fi], lab["eta"])
    J.vec("PixelLUT.k at the whole pixels", lut.k[:, si, fi].T, lab["k"])
    und = arctanfree_undefined(orc.xyz.T)
    J.ok = whole & ~und
    J.vec("PixelLUT.sinthsq at the whole pixels = sin^2(theta) of the model", lut.sinthsq[si, fi],
          lab["sinsqth"] * (1 + 1e-7 if perturb == "lut" else 1), widen=arctanfree_widen(orc.xyz.T))
    J.ok = keep
    # every pixel of the table
    xyz = lut.xyz.reshape(3, -1)
    ok = ~arctanfree_undefined(xyz)
    JL = J.sub(ok)
    wd = arctanfree_widen(xyz)
    ssq = lut.sinthsq.ravel()
    with np.errstate(invalid="ignore"):
        JL.vec("PixelLUT: sinthsq = sin^2(tth/2) on every pixel", ssq, np.sin(np.radians(lut.tth.ravel()) / 2) ** 2, widen=wd)
        modk = np.sqrt((lut.k.reshape(3, -1) ** 2).sum(axis=0))
        JL.vec("PixelLUT: |k| = 2 sqrt(sinthsq)/lambda on every pixel", modk, 2 * np.sqrt(ssq) / lam, widen=wd)
    J.absorb(JL)
    if stats is not None:
        stats["lut_whole_pixel_rows"] = stats.get("lut_whole_pixel_rows", 0) + int(whole.sum())
        stats["lut_pixels"] = stats.get("lut_pixels", 0) + int(ok.sum())
        stats["lut_pixels_beyond_90"] = stats.get("lut_pixels_beyond_90", 0) + int((ok & (xyz[0] < 0)).sum())


def judge_internal(rt, orc, stats=None, perturb=None, dear=True, subsets=2):
    """Bragg's law on every batch, whatever the grain translation and on both sides of two-theta = 90 degrees:
    ds = 2 sin(tth/2)/lambda = |g| on the columns of columnfile fast / slow, Ctransform.xyz2geometry, the raw
    compute_geometry kernel, refinegrains.compute_gv (tth, gv) and the numba route (compute_tth_eta, compute_gve), and
    each of them equal to the model's exact 2 sin(theta)/lambda; the arctan-free sin^2(theta) (compute_sinsqth_from_xyz,
    sinth2_sqrt_deriv) of the exact lab vector and of the route's own chain; transform.PixelLUT.
    dear = False leaves out the columnfile / refinegrains / PixelLUT objects (for seeded subsets of the one-peak batches);
    subsets = how many subset histories of one columnfile (the next ones of the rotation SUBSETS)"""
    J = Judge(orc.ok, orc.unitf)
    P = orc.P
    n = orc.n
    tr = rt.transform
    lam = P["wavelength"]
    t = (P["t_x"], P["t_y"], P["t_z"])
    eds = orc.ds * (1 + 1e-7 if perturb == "ds" else 1)

    def law(label, tth, ds, g):
        modg = np.sqrt((np.asarray(g, float) ** 2).sum(axis=1))
        if tth is None:
            J.vec("%s: |g| = 2 sin(theta)/lambda of the model" % label, modg, eds)
            return
        bragg = 2 * np.sin(np.radians(np.asarray(tth, float)) / 2) / lam
        if ds is not None:
            J.vec("%s: ds = 2 sin(tth/2)/lambda" % label, ds, bragg)
            J.vec("%s: |g| = ds" % label, modg, ds)
        else:
            J.vec("%s: |g| = 2 sin(tth/2)/lambda" % label, modg, bragg)
        J.vec("%s: |g| = 2 sin(theta)/lambda of the model" % label, modg, eds)
    if dear:
        for fast in (True, False):
            cf = rt.columnfile.colfile_from_dict({"sc": orc.sc.copy(), "fc": orc.fc.copy(), "omega": orc.omega.copy()})
            cf.parameters = rt.parameters.parameters(**P)
            cf.updateGeometry(fast=fast)
            law("columnfile.updateGeometry(fast=%s)" % fast, cf.tth, cf.ds, np.array([cf.gx, cf.gy, cf.gz]).T)
        # the law holds on the SECOND update of one columnfile as well, when only a subset of the parameters (only the
        # wavelength, only the wedge, only the detector ...) has changed since the first: the columns obey it for the
        # CURRENT parameters
        P0 = other_pars(P, P, orc.unitf)
        for v, nm, keys in pick_subsets("internal", False, subsets):
            PS = dict(P)
            PS.update({k: P0[k] for k in keys})
            cf = rt.columnfile.colfile_from_dict({"sc": orc.sc.copy(), "fc": orc.fc.copy(), "omega": orc.omega.copy()})
            lab, only_g = subset_history(rt, cf, PS, dict(P), keys, v)
            g = np.array([cf.gx, cf.gy, cf.gz]).T
            if only_g:
                law("columnfile." + lab % nm, None, None, g)
            else:
                law("columnfile." + lab % nm, cf.tth, cf.ds, g)
            if stats is not None:
                stats["internal_subset_histories"] = stats.get("internal_subset_histories", 0) + 1
                stats["internal_subset_history:" + nm] = stats.get("internal_subset_history:" + nm, 0) + 1
    ct = tr.Ctransform(dict(P))
    xyz = ct.sf2xyz(orc.sc, orc.fc)
    geo = ct.xyz2geometry(xyz, orc.omega, t[0], t[1], t[2])
    law("Ctransform.xyz2geometry", geo[:, 0], geo[:, 2], geo[:, 3:6])
    geo = np.zeros((n, 6))
    rt.c.compute_geometry(np.ascontiguousarray(orc.xyz), orc.omega, P["omegasign"], lam, P["wedge"], P["chi"], np.array(t), geo)
    law("cImageD11.compute_geometry", geo[:, 0], geo[:, 2], geo[:, 3:6])
    for rg, lab in ((rt.rg_plain, "refinegrains.compute_gv(OmFloat=False)"),
                    (rt.rg_float, "refinegrains.compute_gv(OmFloat=True, OmSlop=0)")) if dear else ():
        rg.parameterobj = rt.parameters.parameters(**P)
        gr = _Grain()
        gr.peaks_xyz = np.ascontiguousarray(orc.xyz)
        gr.om = orc.omega.copy()
        gr.omega_calc = np.zeros(n)
        gr.ubi = np.eye(3) * 3.0
        gr.name = "0:0"
        rg.tolerance = 0.05
        with contextlib.redirect_stdout(io.StringIO()), np.errstate(invalid="ignore", divide="ignore"):
            rg.compute_gv(gr)
        law(lab, rg.tth, None, rg.gv)
    # the numba route, with the batch's own translation, wedge and chi (exact zeros where a switch is off)
    if rt.pbp is not None:
        tthn, etan = rt.pbp.compute_tth_eta(orc.sc, orc.fc, orc.oms, t_x=t[0], t_y=t[1], t_z=t[2], wedge=P["wedge"],
                                            chi=P["chi"], **_det_of(P))
        law("point_by_point.compute_tth_eta / compute_gve", tthn, None, numba_gve(rt, P, orc.sc, orc.fc, orc.oms))
        if stats is not None:
            stats["numba_internal_rows"] = stats.get("numba_internal_rows", 0) + int(J.ok.sum())
            if any(t):
                stats["numba_internal_rows_t_nonzero"] = stats.get("numba_internal_rows_t_nonzero", 0) + int(J.ok.sum())
    # the arctan-free sin^2(theta): of the model's exact lab vector d, and of the route's own chain xyz - origin
    und = arctanfree_undefined(orc.d.T)
    keep = J.ok
    J.ok = keep & ~und
    dd = np.ascontiguousarray(orc.d.T)
    essq = orc.sinsqth * (1 + 1e-7 if perturb == "ssq" else 1)
    with np.errstate(invalid="ignore", divide="ignore"):
        s2 = tr.compute_sinsqth_from_xyz(dd)
        s2d = tr.sinth2_sqrt_deriv(dd)[0]
        xyzp = tr.compute_xyz_lab(np.array([orc.sc, orc.fc]), **P)
        s2c = tr.compute_sinsqth_from_xyz(xyzp - tr.compute_grain_origins(orc.oms, wedge=P["wedge"], chi=P["chi"], t_x=t[0],
                                                                           t_y=t[1], t_z=t[2]))
        tthp, etap = tr.compute_tth_eta_from_xyz(dd, None)
    J.vec("transform.compute_sinsqth_from_xyz(d) = sin^2(theta) of the model", s2, essq, widen=orc.sswiden)
    J.vec("transform.sinth2_sqrt_deriv(d)[0] = sin^2(theta) of the model", s2d, essq, widen=orc.sswiden)
    J.vec("transform.compute_sinsqth_from_xyz(compute_xyz_lab - compute_grain_origins) = sin^2(theta) of the model", s2c, essq,
          widen=orc.sswiden)
    with np.errstate(invalid="ignore"):
        J.vec("2 sqrt(compute_sinsqth_from_xyz(d))/lambda = 2 sin(theta)/lambda of the model", 2 * np.sqrt(s2) / lam, eds,
              widen=orc.sswiden)
    J.vec("compute_sinsqth_from_xyz(d) = sin^2(tth/2) of compute_tth_eta_from_xyz(d)", s2, np.sin(np.radians(tthp) / 2) ** 2,
          widen=orc.sswiden)
    J.ok = keep
    if stats is not None:
        stats["sinsqth_rows"] = stats.get("sinsqth_rows", 0) + int((keep & ~und).sum())
        stats["sinsqth_rows_beyond_90"] = stats.get("sinsqth_rows_beyond_90", 0) + int((keep & ~und & orc.back).sum())
    if dear:
        judge_lut(rt, J, orc, stats=stats, perturb=perturb)
    return J


def judge_laws(rt, orc, rng, perturb=None, stats=None):
    """for a batch with t = 0: |g| = 2 sin(theta)/lambda = oracle ds, independent of omega, wedge, chi, omegasign (and
    scaling with 1/lambda at another wavelength); g(omega2) = Rz(-(omega2-omega1)*sign) g(omega1).  Siblings use arbitrary
    (not rational-trig) angles too.  Besides a fresh object per sibling setting, ONE columnfile per route is kept through
    all of them (updateGV / updateGeometry alternately, parameters edited in place / replaced): from one setting to the
    next only the wavelength, only the omega sign, only the wedge, only chi changes - the laws and the round trip through
    uncompute_g_vectors must hold for the CURRENT setting after every update."""
    J = Judge(orc.ok, orc.unitf)
    P = orc.P
    tr = rt.transform
    n = orc.n
    lam = P["wavelength"]
    sc, fc = orc.sc, orc.fc
    xyz = np.ascontiguousarray(orc.xyz)
    zero = np.zeros(3)
    # sibling settings (wedge, chi, omegasign, wavelength).  Their ORDER matters for the columnfiles that are kept through
    # all of them (below): from one to the next only the wavelength, only the omega sign, ..., only the wedge, only chi changes
    lam2 = lam * float(rng.uniform(1.1, 1.6))
    r1, r2, r3 = float(rng.uniform(-170, 170)), float(rng.uniform(-40, 40)), float(rng.uniform(-170, 170))
    variants = [(P["wedge"], P["chi"], P["omegasign"], lam), (P["wedge"], P["chi"], P["omegasign"], lam2),
                (P["wedge"], P["chi"], -P["omegasign"], lam2), (0.0, 0.0, 1.0, lam), (r1, 0.0, 1.0, lam), (r1, r2, 1.0, lam),
                (0.0, r3, -1.0, lam)]
    om1 = orc.omega
    dom = np.where(np.arange(n) % 2 == 0, 37.0, float(rng.uniform(-180, 180)))
    om2 = om1 + dom
    # columnfiles kept through all the settings (one per route and omega list); their parameter object is kept as well
    kept = {(fast, which): (rt.columnfile.colfile_from_dict({"sc": sc.copy(), "fc": fc.copy(), "omega": omv.copy()}),
                            rt.parameters.parameters(**dict(P, t_x=0.0, t_y=0.0, t_z=0.0)))
            for fast in (True, False) for which, omv in (("omega1", om1), ("omega2", om2))}
    KEPT = "one columnfile kept through the settings (fast=%s)"
    # theta from the detector position alone (t = 0): tth of the documented arctan recipe
    tth_c, eta_c = tr.compute_tth_eta_from_xyz(xyz.T.copy(), None)
    bragg0 = 2 * np.sin(np.radians(tth_c) / 2) / lam
    if perturb == "bragg":
        bragg0 = bragg0 * (1 + 1e-7)
    J.vec("Bragg: 2 sin(theta)/lambda from compute_tth_eta_from_xyz vs the oracle's ds", bragg0, orc.ds)
    und = arctanfree_undefined(xyz.T)
    keep = J.ok
    J.ok = keep & ~und
    with np.errstate(invalid="ignore", divide="ignore"):
        J.vec("Bragg: 2 sqrt(compute_sinsqth_from_xyz)/lambda vs the oracle's ds",
              2 * np.sqrt(tr.compute_sinsqth_from_xyz(xyz.T.copy())) / lam, orc.ds, widen=orc.sswiden)
    J.ok = keep
    for vi, (w, c, sg, lamv) in enumerate(variants):
        tag = "(wedge=%.6g chi=%.6g omegasign=%g wavelength=%.6g)" % (w, c, sg, lamv)
        bragg = bragg0 * (lam / lamv)
        for which, omv in (("omega1", om1), ("omega2", om2)):
            g = np.zeros((n, 3))
            rt.c.compute_gv(xyz, omv, sg, lamv, w, c, zero, g)
            J.vec("|g| from cImageD11.compute_gv %s %s" % (which, tag), np.sqrt((g * g).sum(axis=1)), bragg)
            geo = np.zeros((n, 6))
            rt.c.compute_geometry(xyz, omv, sg, lamv, w, c, zero, geo)
            J.vec("ds column of compute_geometry = 2 sin(tth/2)/lambda %s" % tag,
                  geo[:, 2], 2 * np.sin(np.radians(geo[:, 0]) / 2) / lamv)
            J.vec("|g| of compute_geometry = its ds %s" % tag, np.sqrt((geo[:, 3:6] ** 2).sum(axis=1)), geo[:, 2])
            gp = tr.compute_g_vectors(tth_c, eta_c, omv * sg, lamv, wedge=w, chi=c).T
            J.vec("|g| from transform.compute_g_vectors %s %s" % (which, tag), np.sqrt((gp * gp).sum(axis=1)), bragg)
            if which == "omega1":
                g1, gp1 = g, gp
            else:
                J.vec("omega law (C): g(omega2) = Rz(-(omega2-omega1) sign) g(omega1) %s" % tag, g, rotz(-dom * sg, g1))
                J.vec("omega law (Python): g(omega2) = Rz(-(omega2-omega1) sign) g(omega1) %s" % tag, gp,
                      rotz(-dom * sg, gp1))
        if rt.pbp is not None:
            gn = rt.pbp.compute_g_vectors(tth_c, eta_c, om1 * sg, lamv, wedge=w, chi=c).T
            J.vec("|g| from point_by_point.compute_g_vectors %s" % tag, np.sqrt((gn * gn).sum(axis=1)), bragg)
            gn2 = rt.pbp.compute_g_vectors(tth_c, eta_c, om2 * sg, lamv, wedge=w, chi=c).T
            J.vec("|g| from point_by_point.compute_g_vectors omega2 %s" % tag, np.sqrt((gn2 * gn2).sum(axis=1)), bragg)
            J.vec("omega law (numba): g(omega2) = Rz(-(omega2-omega1) sign) g(omega1) %s" % tag, gn2, rotz(-dom * sg, gn))
            if stats is not None:
                stats["numba_law_rows"] = stats.get("numba_law_rows", 0) + 2 * int(J.ok.sum())
        # the packed fast path and the columnfile g-vector route obey the same two laws
        PV = dict(P, wedge=w, chi=c, omegasign=sg, wavelength=lamv, t_x=0.0, t_y=0.0, t_z=0.0)
        ct = tr.Ctransform(dict(PV))
        res = {}
        for which, omv in (("omega1", om1), ("omega2", om2)):
            res[("sf2gv", which)] = np.array(ct.sf2gv(sc.copy(), fc.copy(), omv.copy(), 0.0, 0.0, 0.0))
            res[("xyz2gv", which)] = np.array(ct.xyz2gv(np.array(ct.sf2xyz(sc.copy(), fc.copy())), omv.copy(), 0.0, 0.0, 0.0))
            res[("xyz2geometry", which)] = np.array(ct.xyz2geometry(np.array(ct.sf2xyz(sc.copy(), fc.copy())), omv.copy(), 0.0, 0.0, 0.0))[:, 3:6]
            for fast in (True, False):
                cfv = rt.columnfile.colfile_from_dict({"sc": sc.copy(), "fc": fc.copy(), "omega": omv.copy()})
                cfv.updateGV(pars=rt.parameters.parameters(**PV), fast=fast)
                res[("columnfile.updateGV(fast=%s)" % fast, which)] = np.array([cfv.gx, cfv.gy, cfv.gz]).T
                # the kept columnfile: this setting differs from the previous one in a subset of the non-detector
                # parameters only; alternately its parameter object is edited in place / replaced through pars=, and
                # updateGV / updateGeometry is called
                cfk, pok = kept[(fast, which)]
                if vi % 4 < 2:
                    for k in ("wedge", "chi", "omegasign", "wavelength"):
                        pok.set(k, PV[k])
                    arg = pok if vi == 0 else None
                else:
                    arg = pok = rt.parameters.parameters(**PV)
                    kept[(fast, which)] = (cfk, pok)
                if vi % 2 == 0:
                    cfk.updateGV(pars=arg, fast=fast)
                else:
                    cfk.updateGeometry(pars=arg, fast=fast)
                    J.vec("%s %s: ds = 2 sin(tth/2)/lambda %s" % (KEPT % fast, which, tag), cfk.ds,
                          2 * np.sin(np.radians(cfk.tth) / 2) / lamv)
                    J.vec("%s %s: ds = 2 sin(theta)/lambda %s" % (KEPT % fast, which, tag), cfk.ds, bragg)
                res[(KEPT % fast, which)] = np.array([cfk.gx, cfk.gy, cfk.gz]).T
                if stats is not None and vi:
                    stats["law_kept_columnfile_updates"] = stats.get("law_kept_columnfile_updates", 0) + 1
        for (name, which), gv in sorted(res.items()):
            J.vec("|g| from %s %s %s" % (name, which, tag), np.sqrt((gv * gv).sum(axis=1)), bragg)
            if which == "omega2":
                J.vec("omega law (%s): g(omega2) = Rz(-(omega2-omega1) sign) g(omega1) %s" % (name, tag), gv,
                      rotz(-dom * sg, res[(name, "omega1")]))
        # code-level round trip: the g-vectors of the real forward routes, at this wedge / chi / omega sign / wavelength
        # (rational and arbitrary), go back through uncompute_g_vectors: one of the two solutions must be (omega * sign,
        # eta) of the peak, tth the two-theta of the peak at this wavelength's own Bragg angle (the detector position
        # fixes two-theta, whatever the wavelength)
        for name in ("sf2gv", "columnfile.updateGV(fast=True)", "columnfile.updateGV(fast=False)", KEPT % True, KEPT % False):
            for which, omv in (("omega1", om1), ("omega2", om2)):
                k = roundtrip_uncompute(rt, J, "%s %s %s" % (name, which, tag), res[(name, which)], omv * sg, orc, lamv, w, c,
                                        shift=(1e-4 if perturb == "roundtrip" else 0.0))
                if stats is not None:
                    stats["roundtrip_rows"] = stats.get("roundtrip_rows", 0) + k
                    if sg < 0:
                        stats["roundtrip_rows_negative_sign"] = stats.get("roundtrip_rows_negative_sign", 0) + k
                    if name.startswith("one columnfile"):
                        stats["roundtrip_rows_kept_columnfile"] = stats.get("roundtrip_rows_kept_columnfile", 0) + k
    # columnfile columns: ds = 2 sin(tth/2)/lambda = |g|
    for fast in (True, False):
        cf = rt.columnfile.colfile_from_dict({"sc": sc.copy(), "fc": fc.copy(), "omega": om1.copy()})
        cf.parameters = rt.parameters.parameters(**P)
        cf.updateGeometry(fast=fast)
        J.vec("columnfile(fast=%s) ds = 2 sin(tth/2)/lambda" % fast, cf.ds, 2 * np.sin(np.radians(cf.tth) / 2) / lam)
        J.vec("columnfile(fast=%s) |g| = ds" % fast, np.sqrt(cf.gx ** 2 + cf.gy ** 2 + cf.gz ** 2), cf.ds)
        J.vec("columnfile(fast=%s) ds = oracle" % fast, cf.ds, orc.ds)
    return J


# ------------------------------------------------------------------------------------------------
# C02 (iii): projection onto the detector and back

def uncompute_margin(gv, lam, wedge, chi):
    """conditioning of g -> omega: 1 - c^2/(a^2 + b^2) of a sin x + b cos x = c (0 where a = b = 0) and |lambda g|/2"""
    cw, sw = math.cos(math.radians(wedge)), math.sin(math.radians(wedge))
    cc, sc = math.cos(math.radians(chi)), math.sin(math.radians(chi))
    rx, ry, rz = cw, -sw * sc, -sw * cc                   # first row of WI.CI = Ry(-wedge).Rx(chi)
    gam = lam * np.asarray(gv, float)
    ab2 = (rx * rx + ry * ry) * (gam[:, 0] ** 2 + gam[:, 1] ** 2)
    cq = -(gam ** 2).sum(axis=1) / 2 - rz * gam[:, 2]
    with np.errstate(invalid="ignore", divide="ignore"):
        margin = np.where(ab2 > 1e-12, 1.0 - cq * cq / ab2, 0.0)
        s = np.sqrt((gam ** 2).sum(axis=1)) / 2
    return margin, s


def judge_project(rt, orc, perturb=None, stats=None, dear=True):
    """(tth, eta, omega, grain position) -> compute_xyz_from_tth_eta -> pixel -> back to the angles through every route
    (reference, Ctransform, columnfile fast / slow, numba), and g -> uncompute_g_vectors -> the peak's solution ->
    compute_xyz_from_tth_eta -> pixel -> forward through every route -> g.  Runs on every forward batch, i.e. with the
    batch's own wedge / chi / translation (exact zeros where a switch is off).  dear = False leaves out the columnfile
    objects"""
    J = Judge(orc.ok, orc.unitf)
    P = orc.P
    tr = rt.transform
    n = orc.n
    lam = P["wavelength"]
    sgn = P["omegasign"]
    t = (P["t_x"], P["t_y"], P["t_z"])
    sel = orc.ok & (orc.cosinc > 0)
    if not sel.any():
        return J, 0
    J.ok = sel
    eta = np.where(np.isfinite(orc.eta), orc.eta, 0.0)
    det = _det_of(P)
    with np.errstate(invalid="ignore", divide="ignore"):
        fc, sc = tr.compute_xyz_from_tth_eta(orc.tth, eta, orc.oms, t_x=P["t_x"], t_y=P["t_y"], t_z=P["t_z"],
                                             wedge=P["wedge"], chi=P["chi"], **det)
    # conditioning of the ray / plane intersection: 1 / cos(incidence); lengths measured in pixels
    pix = min(abs(P["y_size"]), abs(P["z_size"]))
    absd = np.sqrt((orc.d ** 2).sum(axis=1))
    widen = np.where(sel, (1.0 + absd / pix / np.maximum(np.abs(orc.sc), 1.0)) / np.maximum(orc.cosinc, 1e-300), 1.0)
    esc = orc.sc + (1e-5 if perturb == "pixel" else 0.0)
    J.vec("compute_xyz_from_tth_eta slow pixel", sc, esc, widen=widen)
    J.vec("compute_xyz_from_tth_eta fast pixel", fc, orc.fc, widen=widen)
    pxs, pxf = np.where(sel, sc, 0.0), np.where(sel, fc, 0.0)
    # an error dp of the pixel moves the angles by about dp * pixel / |d|
    extra = np.degrees((REL * np.maximum(np.abs(orc.sc), np.abs(orc.fc)) + ABS) * widen * max(abs(P["y_size"]),
                       abs(P["z_size"])) / np.maximum(absd * np.maximum(np.sin(np.radians(orc.tth)), 1e-3), 1e-300))

    def back(label, tth2, eta2):
        J.ang("%s(compute_xyz_from_tth_eta) tth" % label, tth2, orc.tth + (1e-4 if perturb == "back" else 0.0), modulo=False,
              extra=extra)
        J.ang("%s(compute_xyz_from_tth_eta) eta" % label, eta2, orc.eta, extra=extra)
    with np.errstate(invalid="ignore", divide="ignore"):
        back("compute_tth_eta", *tr.compute_tth_eta(np.array([pxs, pxf]), omega=orc.oms, **P))
        ct = tr.Ctransform(dict(P))
        geo = ct.xyz2geometry(ct.sf2xyz(pxs.copy(), pxf.copy()), orc.omega.copy(), t[0], t[1], t[2])
        back("Ctransform.xyz2geometry", geo[:, 0], geo[:, 1])
        for fast in (True, False) if dear else ():
            cf = rt.columnfile.colfile_from_dict({"sc": pxs.copy(), "fc": pxf.copy(), "omega": orc.omega.copy()})
            cf.parameters = rt.parameters.parameters(**P)
            cf.updateGeometry(fast=fast)
            back("columnfile.updateGeometry(fast=%s)" % fast, cf.tth, cf.eta)
        if rt.pbp is not None:
            back("point_by_point.compute_tth_eta", *rt.pbp.compute_tth_eta(pxs, pxf, orc.oms, t_x=t[0], t_y=t[1], t_z=t[2],
                                                                           wedge=P["wedge"], chi=P["chi"], **det))
            if stats is not None:
                stats["projection_numba_rows"] = stats.get("projection_numba_rows", 0) + int(sel.sum())
                if any(t):
                    stats.setdefault("projection_numba_switch_sets_t_nonzero", set()).add(tuple(orc.par["sw"]))
    # edge arm: the same ray alone (a batch of one row) lands on the same pixel
    i0 = int(np.nonzero(sel)[0][-1])
    with np.errstate(invalid="ignore", divide="ignore"):
        f1, s1 = tr.compute_xyz_from_tth_eta(orc.tth[i0:i0 + 1], eta[i0:i0 + 1], orc.oms[i0:i0 + 1], t_x=P["t_x"], t_y=P["t_y"],
                                             t_z=P["t_z"], wedge=P["wedge"], chi=P["chi"], **det)
    one = np.zeros(orc.n, bool)
    one[i0] = True
    J.ok = one
    J.vec("compute_xyz_from_tth_eta (one-row batch) slow pixel", np.where(one, s1[0], 0.0), esc, widen=widen)
    J.vec("compute_xyz_from_tth_eta (one-row batch) fast pixel", np.where(one, f1[0], 0.0), orc.fc, widen=widen)
    J.ok = sel
    # g -> angles -> detector -> g : the model's exact g-vector goes through uncompute_g_vectors (the batch's wedge, chi),
    # the solution at the peak's omega is projected with the grain position, and the pixel goes forward again
    margin, shalf = uncompute_margin(orc.g, lam, P["wedge"], P["chi"])
    selg = sel & np.isfinite(orc.eta) & (margin > 1e-6) & (shalf > 1e-9) & (shalf < 1 - 1e-9)
    if selg.any():
        with np.errstate(invalid="ignore", divide="ignore"):
            tthu, (e1, e2), (o1, o2) = tr.uncompute_g_vectors(np.ascontiguousarray(orc.g.T), lam, wedge=P["wedge"], chi=P["chi"])
        cond = 1.0 / np.sqrt(np.maximum(margin, 1e-12))
        tol = ANGTOL * 10 * cond
        dd = lambda a, b: np.abs((a - b + 180.0) % 360.0 - 180.0)
        with np.errstate(invalid="ignore"):
            hit1 = (dd(o1, orc.oms) <= tol) & (dd(e1, orc.eta) <= tol)
            hit2 = (dd(o2, orc.oms) <= tol) & (dd(e2, orc.eta) <= tol)
        bad = selg & ~(hit1 | hit2)
        J.ncmp += int(selg.sum())
        if bad.any():
            i = int(np.argmax(bad))
            J.problems.append("uncompute_g_vectors(model g): neither (omega, eta) = (%r, %r), (%r, %r) is the peak's (%r, %r); g = %s"
                              % (o1[i], e1[i], o2[i], e2[i], float(orc.oms[i]), float(orc.eta[i]), orc.g[i].tolist()))
        selg = selg & (hit1 | hit2)
        oms_u = np.where(selg, np.where(hit1, o1, o2), 0.0)
        eta_u = np.where(selg, np.where(hit1, e1, e2), 0.0)
        tth_u = np.where(selg, tthu, 0.0)
        with np.errstate(invalid="ignore", divide="ignore"):
            fg, sg = tr.compute_xyz_from_tth_eta(tth_u, eta_u, oms_u, t_x=t[0], t_y=t[1], t_z=t[2], wedge=P["wedge"],
                                                 chi=P["chi"], **det)
        fg, sg = np.where(selg, fg, 0.0), np.where(selg, sg, 0.0)
        J.ok = selg
        wg = widen * cond * 10
        J.vec("compute_xyz_from_tth_eta(uncompute_g_vectors(model g)) slow pixel", sg, esc, widen=wg)
        J.vec("compute_xyz_from_tth_eta(uncompute_g_vectors(model g)) fast pixel", fg, orc.fc, widen=wg)
        # a pixel error dp moves g by about dp * pixel / (|d| lambda)
        gscale = np.maximum(np.abs(orc.g).max(axis=1), 1e-300)
        wgg = wg * (1.0 + np.maximum(np.abs(orc.sc), np.abs(orc.fc)) * max(abs(P["y_size"]), abs(P["z_size"]))
                    / np.where(selg, absd * lam * gscale, 1.0))
        eg = orc.g * (1 + 1e-6 if perturb == "ground" else 1)
        omf = oms_u * sgn                       # omega as a peak file stores it
        lab = "g -> uncompute_g_vectors -> compute_xyz_from_tth_eta -> %s -> g"
        with np.errstate(invalid="ignore", divide="ignore"):
            t2, e2_ = tr.compute_tth_eta(np.array([sg, fg]), omega=oms_u, **P)
            J.vec(lab % "compute_tth_eta, compute_g_vectors", tr.compute_g_vectors(t2, e2_, oms_u, lam, wedge=P["wedge"],
                                                                                   chi=P["chi"]).T, eg, widen=wgg)
            J.vec(lab % "Ctransform.sf2gv", ct.sf2gv(sg.copy(), fg.copy(), omf.copy(), t[0], t[1], t[2]), eg, widen=wgg)
            for fast in (True, False) if dear else ():
                cf = rt.columnfile.colfile_from_dict({"sc": sg.copy(), "fc": fg.copy(), "omega": omf.copy()})
                cf.updateGV(pars=rt.parameters.parameters(**P), fast=fast)
                J.vec(lab % ("columnfile.updateGV(fast=%s)" % fast), np.array([cf.gx, cf.gy, cf.gz]).T, eg, widen=wgg)
            if rt.pbp is not None:
                J.vec(lab % "point_by_point.compute_gve", numba_gve(rt, P, sg, fg, oms_u), eg, widen=wgg)
        J.ok = sel
        if stats is not None:
            k = int(selg.sum())
            stats["g_roundtrip_rows"] = stats.get("g_roundtrip_rows", 0) + k
            stats["g_roundtrip_rows_beyond_90"] = stats.get("g_roundtrip_rows_beyond_90", 0) + int((selg & orc.back).sum())
            if any(t):
                stats["g_roundtrip_rows_t_nonzero"] = stats.get("g_roundtrip_rows_t_nonzero", 0) + k
                if rt.pbp is not None and k:
                    stats.setdefault("g_roundtrip_numba_switch_sets_t_nonzero", set()).add(tuple(orc.par["sw"]))
    if stats is not None:
        stats["projection_single_row_calls"] = stats.get("projection_single_row_calls", 0) + 1
        stats["projected_beyond_90"] = stats.get("projected_beyond_90", 0) + int((sel & orc.back).sum())
        inplane = orc.ok & ~sel
        if inplane.any():
            # rays in the detector plane share the batch with ordinary ones: the ordinary rows were judged above
            stats["projection_mixed_batches"] = stats.get("projection_mixed_batches", 0) + 1
            stats["projection_inplane_rows_masked_to_0_0"] = stats.get("projection_inplane_rows_masked_to_0_0", 0) + int(
                (inplane & (np.asarray(fc) == 0) & (np.asarray(sc) == 0)).sum())
    return J, int(sel.sum())


# ------------------------------------------------------------------------------------------------
# C02 (ii): g -> (tth, eta, omega), validity, both solutions forward again

def forward_model(tth, eta, omega, wedge_a, chi_a, lam):
    """g = Rz(-omega) Rx(-chi) Ry(wedge) k(tth, eta) with the exact sine/cosine of wedge and chi (independent of the
    code's formulas); omega, tth, eta are floats in degrees"""
    t, e, o = np.radians(tth), np.radians(eta), np.radians(omega)
    u = np.array([np.cos(t), -np.sin(t) * np.sin(e), np.sin(t) * np.cos(e)])
    k = np.array([u[0] - 1.0, u[1], u[2]]) / lam
    cw, sw = wedge_a[0] / float(wedge_a[2]), wedge_a[1] / float(wedge_a[2])
    cc, sc = chi_a[0] / float(chi_a[2]), chi_a[1] / float(chi_a[2])
    k1 = np.array([cw * k[0] + sw * k[2], k[1], -sw * k[0] + cw * k[2]])          # Ry(wedge)
    k2 = np.array([k1[0], cc * k1[1] + sc * k1[2], -sc * k1[1] + cc * k1[2]])     # Rx(-chi)
    co, so = np.cos(o), np.sin(o)
    return np.array([co * k2[0] + so * k2[1], -so * k2[0] + co * k2[1], k2[2]]).T  # Rz(-omega)


def _rot(axis, c, s):
    if axis == "x":
        return np.array([[1, 0, 0], [0, c, -s], [0, s, c]], float)
    if axis == "y":
        return np.array([[c, 0, s], [0, 1, 0], [-s, 0, c]], float)
    return np.array([[c, -s, 0], [s, c, 0], [0, 0, 1]], float)


# exact rotations handed to g_to_k as `pre`: a quarter turn, a product of right-angle turns, a Pythagorean turn
PRE_ARMS = (("Rx(90)", _rot("x", 0.0, 1.0)), ("Ry(-90).Rz(180)", _rot("y", 0.0, -1.0).dot(_rot("z", -1.0, 0.0))),
            ("Rz(atan2(-4,3)).Rx(atan2(5,12))", _rot("z", 0.6, -0.8).dot(_rot("x", 12 / 13., 5 / 13.))))


def inverse_key(r):
    p = r["par"]
    return json.dumps([p["wedge"], p["chi"], p["wl"]])


def judge_inverse(rt, recs, perturb=None):
    """one batch of inverse records sharing wedge, chi, wavelength.  returns (Judge, statistics dict)"""
    tr = rt.transform
    n = len(recs)
    p0 = recs[0]["par"]
    lam = p0["wl"][0] / float(p0["wl"][1])
    wedge, chi = ang_deg(p0["wedge"]), ang_deg(p0["chi"])
    g = np.zeros((3, n))
    valid = np.zeros(n, bool)
    judge_flag = np.ones(n, bool)
    margin = np.ones(n)
    stats = {"valid": 0, "invalid": 0, "blind": 0, "toolong": 0, "tangent": 0, "degenerate": 0, "near_tangent": 0,
             "generated": 0}
    for i, r in enumerate(recs):
        gn, gd = r["gam"]
        g[:, i] = [x / float(gd) / lam for x in gn]
        valid[i] = bool(r["valid"])
        a, b, c = r["an"], r["bn"], r["cn"]
        if r["degenerate"] or r["tangent"]:
            judge_flag[i] = False
            stats["degenerate" if r["degenerate"] else "tangent"] += 1
            margin[i] = 0.0
            continue
        if a * a + b * b > 0:
            q2 = F(c * c, a * a + b * b)
            margin[i] = abs(1.0 - float(q2))
            if margin[i] < 1e-6:
                judge_flag[i] = False            # arcsin is ill conditioned: neither flag nor angles are judged
                stats["near_tangent"] += 1
                continue
        if valid[i]:
            stats["valid"] += 1
        else:
            stats["invalid"] += 1
            if sum(x * x for x in gn) > 4 * gd * gd:
                stats["toolong"] += 1
            else:
                stats["blind"] += 1
    if perturb == "flag":
        i = int(np.argmax(judge_flag & valid))
        valid[i] = False
    J = Judge(judge_flag.copy())
    modg = np.sqrt((g * g).sum(axis=0))
    scale = np.maximum(modg, 1e-300)
    post = None if (wedge == 0 and chi == 0) else rt.gv_general.wedgechi(wedge=wedge, chi=chi)
    with np.errstate(invalid="ignore", divide="ignore"):
        o1, o2, v = rt.gv_general.g_to_k(g, lam, axis=[0, 0, -1], pre=None, post=post)
        tth, (eta1, eta2), (om1, om2) = tr.uncompute_g_vectors(g, lam, wedge=wedge, chi=chi)
    v = np.asarray(v, bool)
    for i in np.nonzero(judge_flag & (v != valid))[0][:3]:
        J.problems.append("g_to_k valid flag %s, exact Ewald inequality says %s for g = %s (lambda %g wedge %g chi %g)" % (
            bool(v[i]), bool(valid[i]), g[:, i].tolist(), lam, wedge, chi))
    # the pre arm and the default axis of g_to_k (the model is covariant: harness-only family).  g_to_k applies `pre` to
    # g, so handing it A^T g together with pre = A (A an exact rotation) must give the same flags and the same two
    # solutions; about +z (the default axis) the same vectors diffract at the opposite angles
    cond0 = 1.0 / np.sqrt(np.maximum(margin, 1e-12))
    arms = []
    for name, A in PRE_ARMS:
        arms.append(("g_to_k(A^T g, axis=-z, pre=A: %s, post)" % name, np.dot(A.T, g), dict(axis=[0, 0, -1], pre=A, post=post), 1.0))
    arms.append(("g_to_k(g, default axis +z, pre=None, post)", g, dict(pre=None, post=post), -1.0))
    arms.append(("g_to_k(g, axis=+z, pre=identity, post)", g, dict(axis=np.array([0, 0, 1.0]), pre=np.eye(3), post=post), -1.0))
    for lab, gin, kw, sign in arms:
        with np.errstate(invalid="ignore", divide="ignore"):
            a1, a2, va = rt.gv_general.g_to_k(gin, lam, **kw)
        va = np.asarray(va, bool)
        stats["pre_axis_arm_rows"] = stats.get("pre_axis_arm_rows", 0) + int(judge_flag.sum())
        for i in np.nonzero(judge_flag & (va != valid))[0][:2]:
            J.problems.append("%s valid flag %s, exact Ewald inequality says %s for g = %s (lambda %g wedge %g chi %g)" % (
                lab, bool(va[i]), bool(valid[i]), g[:, i].tolist(), lam, wedge, chi))
        both = judge_flag & valid & v & va
        d = lambda x, y: np.abs((x - y + 180.0) % 360.0 - 180.0)
        tol = ANGTOL * 10 * cond0
        bad = both & ~((d(sign * a1, o1) <= tol) & (d(sign * a2, o2) <= tol)) & ~((d(sign * a1, o2) <= tol) & (d(sign * a2, o1) <= tol))
        for i in np.nonzero(bad)[0][:2]:
            J.problems.append("%s gives the angles (%r, %r), the plain call (%r, %r) for g = %s (lambda %g wedge %g chi %g)" % (
                lab, a1[i], a2[i], o1[i], o2[i], g[:, i].tolist(), lam, wedge, chi))
    inval = judge_flag & ~valid
    for name, arr in (("tth", tth), ("eta1", eta1), ("eta2", eta2), ("omega1", om1), ("omega2", om2)):
        # "flagged, not given angles": the masked value is 0; for |g| > 2/lambda the code's arcsin yields NaN for tth,
        # which is not an angle either - both are accepted, any finite non-zero value is not
        arr = np.asarray(arr, float)
        bad = inval & np.isfinite(arr) & (arr != 0)
        for i in np.nonzero(bad)[0][:2]:
            J.problems.append("uncompute_g_vectors gives %s = %r to a g-vector that can never diffract: g = %s "
                              "(lambda %g wedge %g chi %g)" % (name, float(arr[i]), g[:, i].tolist(), lam, wedge, chi))
    val = judge_flag & valid
    if perturb == "flag":
        val = val & v
    J.ok = val
    if val.any():
        cond = 1.0 / np.sqrt(np.maximum(margin, 1e-12))
        e_tth = np.degrees(2 * np.arcsin(np.minimum(modg * lam / 2, 1.0)))
        if perturb == "tth":
            e_tth = e_tth + 1e-4
        # arcsin near 1 (backscattering) is ill conditioned as well
        J.ang("uncompute_g_vectors tth = 2 asin(|g| lambda/2)", tth, e_tth, modulo=False,
              extra=ANGTOL * (1.0 / np.sqrt(np.maximum(1 - np.minimum(modg * lam / 2, 1.0) ** 2, 1e-12)) - 1))
        for lab, e, o in (("first", eta1, om1), ("second", eta2, om2)):
            gm = forward_model(tth, e, o, p0["wedge"], p0["chi"], lam)
            J.vec("%s solution pushed forward through the model" % lab, gm, g.T, widen=cond)
            gc = tr.compute_g_vectors(tth, e, o, lam, wedge=wedge, chi=chi)
            J.vec("%s solution pushed forward through compute_g_vectors" % lab, gc.T, g.T, widen=cond)
        # the generating omega / eta must be one of the two solutions
        for i in np.nonzero(val)[0]:
            r = recs[i]
            if r["mode"] != "inv" or r["m"] != 1:
                continue
            stats["generated"] += 1
            og = ang_deg(r["par"]["omega"])          # omegasign = +1 in the inverse machine
            dn = r["d"][0]
            eg = math.degrees(math.atan2(-dn[1], dn[2])) if (dn[1] or dn[2]) else None
            tol = ANGTOL * cond[i] * 10
            hit = False
            for e, o in ((eta1[i], om1[i]), (eta2[i], om2[i])):
                do = (o - og + 180.0) % 360.0 - 180.0
                de = 0.0 if eg is None else (e - eg + 180.0) % 360.0 - 180.0
                if abs(do) <= tol and abs(de) <= tol:
                    hit = True
            if not hit:
                J.problems.append("neither solution (omega, eta) = (%r, %r), (%r, %r) is the generating (%r, %r) for g = %s "
                                  "(lambda %g wedge %g chi %g)" % (om1[i], eta1[i], om2[i], eta2[i], og, eg,
                                                                   g[:, i].tolist(), lam, wedge, chi))
        # both solutions forward through the numba copy as well (the batch's wedge / chi, exact zeros included)
        if rt.pbp is not None:
            for lab, e, o in (("first", eta1, om1), ("second", eta2, om2)):
                ok3 = np.isfinite(tth) & np.isfinite(e) & np.isfinite(o)
                gn = rt.pbp.compute_g_vectors(np.where(ok3, tth, 0.0), np.where(ok3, e, 0.0), np.where(ok3, o, 0.0), lam,
                                              wedge=float(wedge), chi=float(chi))
                J.vec("%s solution pushed forward through point_by_point.compute_g_vectors" % lab,
                      np.where(ok3, gn, np.nan).T, g.T, widen=cond)
            stats["numba_forward_rows"] = stats.get("numba_forward_rows", 0) + 2 * int(val.sum())
    # Bragg's law on the lab vector d of the inverse machine (BraggLaw of the model: |lambda g|^2 = 4 m^2 sin^2(theta),
    # sin^2(theta) = ssq exactly, on both sides of two-theta = 90 degrees): the arctan-free forms and the arctan recipe
    inv = np.array([r["mode"] == "inv" for r in recs])
    if inv.any():
        dq = np.array([[x / float(r["d"][1]) for x in r["d"][0]] if r["mode"] == "inv" else [1.0, 0.0, 0.0] for r in recs]).T
        essq = np.array([r["ssq"][0] / float(r["ssq"][1]) if r["mode"] == "inv" else 0.0 for r in recs])
        mm = np.array([float(r["m"]) for r in recs])
        for i in np.nonzero(inv)[0]:
            # (harness guard: the record's own numbers obey the law in unbounded integers)
            gn_, gd_ = recs[i]["gam"]
            if sum(x * x for x in gn_) * recs[i]["ssq"][1] != 4 * recs[i]["m"] ** 2 * recs[i]["ssq"][0] * gd_ * gd_:
                raise common.MachineryError("record violates |lambda g|^2 = 4 m^2 sin^2(theta): %r" % (recs[i],))
        und = arctanfree_undefined(dq)
        wd = arctanfree_widen(dq)
        if perturb == "ssq":
            essq = essq * (1 + 1e-7)
        J.ok = inv & ~und
        with np.errstate(invalid="ignore", divide="ignore"):
            s2 = tr.compute_sinsqth_from_xyz(dq.copy())
            J.vec("transform.compute_sinsqth_from_xyz(d) = (|d| - d_x)/(2|d|)", s2, essq, widen=wd)
            J.vec("transform.sinth2_sqrt_deriv(d)[0] = (|d| - d_x)/(2|d|)", tr.sinth2_sqrt_deriv(dq.copy())[0], essq, widen=wd)
            J.vec("|g| = 2 m sqrt(compute_sinsqth_from_xyz(d))/lambda", 2 * mm * np.sqrt(s2) / lam, modg, widen=wd)
        J.ok = inv
        tq, eq = tr.compute_tth_eta_from_xyz(dq.copy(), None)
        J.vec("sin^2(tth/2) of transform.compute_tth_eta_from_xyz(d) = (|d| - d_x)/(2|d|)", np.sin(np.radians(tq) / 2) ** 2, essq)
        if rt.pbp is not None:
            tq, eq = rt.pbp.compute_tth_eta_from_xyz(dq.copy(), np.zeros(n), 0.0, 0.0, 0.0, 0.0, 0.0)
            J.vec("sin^2(tth/2) of point_by_point.compute_tth_eta_from_xyz(d) = (|d| - d_x)/(2|d|)",
                  np.sin(np.radians(tq) / 2) ** 2, essq)
        stats["bragg_rows"] = stats.get("bragg_rows", 0) + int(inv.sum())
        stats["bragg_rows_beyond_90"] = stats.get("bragg_rows_beyond_90", 0) + int((inv & (dq[0] < 0)).sum())
    onoff = "wedge %s chi %s" % ("on" if p0["wedge"] != [1, 0, 1] else "exactly 0", "on" if p0["chi"] != [1, 0, 1] else "exactly 0")
    stats["batches with " + onoff] = 1
    return J, stats


# ------------------------------------------------------------------------------------------------
# C02 (iv): the conventions of gv_general (rotation_axis, k_to_g, g_to_k with pre / post) on the SpecAx records

AX_ACTIONS = ("RotateAx",)


def _sv(sv):
    return np.array(sv[0], float) / float(sv[1])


def exact_chiwedge(par):
    """chiwedge = chimat(chi) . wedgemat(wedge) = Rx(-chi) . Ry(wedge) from the exact sines and cosines (the harness's own
    transcription of the documented stack g = omega . chi . wedge . k); wedgechi = wedgemat . chimat likewise"""
    cw, sw = par["wedge"][0] / float(par["wedge"][2]), par["wedge"][1] / float(par["wedge"][2])
    cc, sc = par["chi"][0] / float(par["chi"][2]), par["chi"][1] / float(par["chi"][2])
    W = np.array([[cw, 0, sw], [0, 1, 0], [-sw, 0, cw]])
    C = np.array([[1, 0, 0], [0, cc, sc], [0, -sc, cc]])
    return W, C


def axis_key(r):
    p = r["par"]
    return json.dumps([r["ai"], r["pi"], p["wedge"], p["chi"], p["wl"]])


def _mat_problem(J, label, got, exp, tol=1e-12):
    got = np.asarray(got, float)
    exp = np.asarray(exp, float)
    J.ncmp += 1
    if got.shape != exp.shape or not (np.abs(got - exp) <= tol + REL * np.abs(exp).max()).all():
        J.problems.append("%s: got %s expected %s" % (label, got.tolist(), exp.tolist()))


def judge_axis(rt, recs, perturb=None):
    """one batch of SpecAx records sharing axis, pre-rotation, wedge, chi, wavelength; rows = rotation angle x k-vector.
    returns (Judge, statistics)"""
    gg = rt.gv_general
    n = len(recs)
    r0 = recs[0]
    p0 = r0["par"]
    lam = p0["wl"][0] / float(p0["wl"][1])
    wedge, chi = ang_deg(p0["wedge"]), ang_deg(p0["chi"])
    ax = _sv(r0["axis"])
    pre = _sv(r0["pre"])
    ident_pre = r0["pi"] == 1
    flat = (p0["wedge"] == [1, 0, 1] and p0["chi"] == [1, 0, 1])
    W, C = exact_chiwedge(p0)
    post = C.dot(W)
    stats = {"rows": n, "k_to_g": 0, "rotate_vectors": 0, "matrix_arm": 0, "axis_from_matrix": 0, "g_to_k_pre_post": 0,
             "g_to_k_default_axis": 0, "g_to_k_skipped_conditioning": 0, "half_turns_not_representable": 0,
             "oblique_axis_g_to_k_misses": 0, "oblique_axis_g_to_k_rows": 0}
    J = Judge(np.ones(n, bool))
    tag = " [axis %s pre #%d wedge %g chi %g]" % (r0["axis"][0], r0["pi"], wedge, chi)
    # the wedge / chi matrices of gv_general against the exact ones
    _mat_problem(J, "gv_general.wedgemat(%g)" % wedge, gg.wedgemat(wedge), W)
    _mat_problem(J, "gv_general.chimat(%g)" % chi, gg.chimat(chi), C)
    _mat_problem(J, "gv_general.chiwedge(chi=%g, wedge=%g)" % (chi, wedge), gg.chiwedge(chi=chi, wedge=wedge), C.dot(W))
    _mat_problem(J, "gv_general.wedgechi(wedge=%g, chi=%g)" % (wedge, chi), gg.wedgechi(wedge=wedge, chi=chi), W.dot(C))
    angles = np.array([ang_deg(r["par"]["omega"]) for r in recs])
    k = np.array([_sv(r["lk"]) for r in recs]).T / lam
    pk = np.array([_sv(r["pk"]) for r in recs]).T / lam
    rpk = np.array([_sv(r["rpk"]) for r in recs]).T / lam
    g = np.array([_sv(r["g"]) for r in recs]).T / lam
    if perturb == "g":
        g = g * (1 + 1e-7)
    # ---- k_to_g : g = pre . rot(axis, angle) . post . k   (docstring), every None / matrix arm
    calls = [("k_to_g(axis, pre, post)", dict(axis=ax, pre=pre, post=post))]
    if ident_pre:
        calls.append(("k_to_g(axis, pre=None, post)", dict(axis=ax, pre=None, post=post)))
    if flat:
        calls.append(("k_to_g(axis, pre, post=None)", dict(axis=ax, pre=pre, post=None)))
    if r0["ai"] == 1:
        calls.append(("k_to_g(default axis, pre, post)", dict(pre=pre, post=post)))
    calls.append(("k_to_g(axis as a list, pre, post = gv_general.chiwedge)", dict(axis=ax.tolist(), pre=pre,
                                                                               post=gg.chiwedge(chi=chi, wedge=wedge))))
    for lab, kw in calls:
        J.vec("gv_general." + lab + tag, gg.k_to_g(k.copy(), angles.copy(), **kw).T, g.T)
        stats["k_to_g"] += n
    # ---- rotation_axis: per-vector angles, and the matrix arm (angles=None) per distinct angle
    o0 = gg.rotation_axis(ax)
    J.vec("rotation_axis.rotate_vectors(vectors, angles)" + tag, o0.rotate_vectors(pk.copy(), angles.copy()).T, rpk.T)
    J.vec("rotation_axis.rotate_vectors_inverse(vectors, angles)" + tag,
          o0.rotate_vectors_inverse(rpk.copy(), angles.copy()).T, pk.T)
    stats["rotate_vectors"] += 2 * n
    seen = {}
    for i, r in enumerate(recs):
        seen.setdefault(json.dumps(r["par"]["omega"]), []).append(i)
    keep = J.ok
    for key, rows in seen.items():
        r = recs[rows[0]]
        a = angles[rows[0]]
        R, Ri = _sv(r["R"]), _sv(r["Rinv"])
        o = gg.rotation_axis(ax, a)
        _mat_problem(J, "rotation_axis(axis, %g).matrix%s" % (a, tag), o.matrix, R)
        _mat_problem(J, "rotation_axis(axis, %g).to_matrix()%s" % (a, tag), o.to_matrix(), R)
        _mat_problem(J, "rotation_axis(axis, %g).inversematrix%s" % (a, tag), o.inversematrix, Ri)
        sel = np.zeros(n, bool)
        sel[rows] = True
        J.ok = sel
        full = np.zeros((3, n))
        full[:, rows] = o.rotate_vectors(pk[:, rows].copy())
        J.vec("rotation_axis(axis, %g).rotate_vectors(vectors) [matrix arm]%s" % (a, tag), full.T, rpk.T)
        full = np.zeros((3, n))
        full[:, rows] = o.rotate_vectors_inverse(rpk[:, rows].copy())
        J.vec("rotation_axis(axis, %g).rotate_vectors_inverse(vectors) [matrix arm]%s" % (a, tag), full.T, pk.T)
        stats["matrix_arm"] += 2 * len(rows)
        # axis_from_matrix: half turns have no antisymmetric part (the direction is 0/0): not representable, not judged
        if r["par"]["omega"][:2] == [-1, 0]:
            stats["half_turns_not_representable"] += 1
        else:
            try:
                with contextlib.redirect_stdout(io.StringIO()):
                    om = gg.axis_from_matrix(R)
                _mat_problem(J, "axis_from_matrix(R(axis, %g)).matrix%s" % (a, tag), om.matrix, R, tol=1e-9)
                stats["axis_from_matrix"] += 1
            except Exception as e:
                J.problems.append("axis_from_matrix(R(axis, %g))%s raised %s" % (a, tag, str(e)[:200]))
    J.ok = keep
    # ---- g_to_k: the angle of rot(axis, angle) must be one of the two solutions, for axes perpendicular to the beam as
    #      the pipeline uses them (+-z); pre of g_to_k is applied to g (so it is the inverse of the pre that built g);
    #      post of g_to_k is wedgechi where k_to_g takes chiwedge
    rx, ry, rz = _sv(r0["wc1"])
    # a sin x + b cos x = c :  a^2 + b^2 = (rx^2 + ry^2)(gx^2 + gy^2),  c = -lambda |g|^2/2 - rz gz   (g before pre)
    ab2 = (rx * rx + ry * ry) * (rpk[0] ** 2 + rpk[1] ** 2) * lam * lam
    cc = -(lam * lam) * (rpk ** 2).sum(axis=0) / 2 - rz * rpk[2] * lam
    with np.errstate(invalid="ignore", divide="ignore"):
        margin = np.where(ab2 > 1e-12, 1.0 - cc * cc / ab2, 0.0)
    if r0["ai"] in (1, 2):
        okc = margin > 1e-6
        stats["g_to_k_skipped_conditioning"] += int((~okc).sum())
        cond = 1.0 / np.sqrt(np.maximum(margin, 1e-12))
        gcalls = [("g_to_k(axis, pre, post)", dict(axis=ax, pre=pre.T, post=W.dot(C)))]
        if ident_pre:
            gcalls.append(("g_to_k(axis, pre=None, post)", dict(axis=ax, pre=None, post=W.dot(C))))
        if flat:
            gcalls.append(("g_to_k(axis, pre, post=None)", dict(axis=ax, pre=pre.T, post=None)))
        if r0["ai"] == 1:
            gcalls.append(("g_to_k(default axis, pre, post)", dict(pre=pre.T, post=W.dot(C))))
        for lab, kw in gcalls:
            with np.errstate(invalid="ignore", divide="ignore"):
                s1, s2, v = gg.g_to_k(g.copy(), lam, **kw)
            v = np.asarray(v, bool)
            for i in np.nonzero(okc)[0]:
                d1 = abs((s1[i] - angles[i] + 180.0) % 360.0 - 180.0)
                d2 = abs((s2[i] - angles[i] + 180.0) % 360.0 - 180.0)
                J.ncmp += 1
                if not v[i]:
                    J.problems.append("gv_general.%s%s flags invalid a g-vector built to diffract at angle %r: g = %s" % (
                        lab, tag, angles[i], g[:, i].tolist()))
                elif not min(d1, d2) <= ANGTOL * 10 * cond[i]:
                    J.problems.append("gv_general.%s%s: neither solution %r, %r is the generating angle %r for g = %s" % (
                        lab, tag, s1[i], s2[i], angles[i], g[:, i].tolist()))
            stats["g_to_k_default_axis" if "default" in lab else "g_to_k_pre_post"] += int(okc.sum())
    else:
        # observation only (outside the property's quantifier: the rotation axis of the instrument is z): for an axis
        # that is not perpendicular to the beam g_to_k does not invert k_to_g
        with np.errstate(invalid="ignore", divide="ignore"):
            s1, s2, v = gg.g_to_k(g.copy(), lam, axis=ax, pre=pre.T, post=W.dot(C))
        d1 = np.abs((s1 - angles + 180.0) % 360.0 - 180.0)
        d2 = np.abs((s2 - angles + 180.0) % 360.0 - 180.0)
        stats["oblique_axis_g_to_k_rows"] += n
        stats["oblique_axis_g_to_k_misses"] += int((~(np.minimum(d1, d2) <= 1e-3) | ~np.asarray(v, bool)).sum())
    return J, stats

"""Shared machinery of the C01 / C02 checks (specification specs/Geometry.tla).

 * run_geometry()      : run one Geometry_*.cfg through TLC and return the parsed JSON records
 * Oracle              : finishes the irrational step (sqrt, atan2) of a forward record in 40-digit decimals
 * Routes / judge_fwd  : feeds a batch of forward records (one parameter set, many peaks) to every implementation
                         route and compares each output with the oracle (C01)
 * judge_laws / judge_project / judge_inverse : reference-free laws, detector projection and g -> angles (C02)

Comparison rule everywhere: |x - e| <= 1e-9 * scale + 1e-12 (scale = largest magnitude of the expected vector),
angles modulo 360 at 1e-6 degree, eta not compared where (dy, dz) = (0, 0) exactly.
"""
import os, io, json, math, contextlib
from fractions import Fraction as F
from decimal import Decimal as D, getcontext
import numpy as np
import common

getcontext().prec = 40
SPEC = "Geometry"
REL = 1e-9
ABS = 1e-12
ANGTOL = 1e-6
INVARIANTS = ("TypeOK", "StackOrtho", "NormLaw", "OmegaLaw", "OriginLaw", "Roundtrip", "EwaldBound", "Emit")
FWD_ACTIONS = ("PickSwitches", "PickDetector", "PickPeak", "Place", "Flip", "Tilt", "Shift", "Origin", "Diff",
               "RotateG", "Project")
INV_ACTIONS = ("Origin", "Diff", "RotateG", "Uncompute")
RAW_ACTIONS = ("Uncompute",)
SWITCHES = ("tilt_x", "tilt_y", "tilt_z", "wedge", "chi", "t_x", "t_y", "t_z")


# ------------------------------------------------------------------------------------------------
# TLC

EXPECTED_RECORDS = {"fwd_corner": 2048, "fwd_t": 262144}


def run_geometry(chk, name, cfg, workers=16, simulate=None, depth=None, coverage=False, actions=(), timeout=2400):
    """run specs/Geometry_<cfg>.cfg; account it; return the list of emitted records"""
    path = os.path.join(common.SPECS, "Geometry_%s.cfg" % cfg)
    res = common.run_tlc(SPEC, path, workers=workers, simulate=simulate, depth=depth, coverage=coverage,
                         timeout=timeout, seed_=common.seed())
    chk.add_tlc(name, res, require_cover=actions if coverage else ())
    if res.violated:
        raise common.MachineryError("Geometry model (%s) violates its own invariant %s\n%s" % (
            cfg, res.violated, "\n".join(l for l in res.stdout.splitlines() if not l.startswith('"@@'))[-3000:]))
    if not res.finished:
        raise common.MachineryError("TLC run %s did not finish: %s" % (name, res.stdout[-1500:]))
    recs, bad = [], 0
    for line in res.printed:
        try:
            recs.append(json.loads(line))
        except ValueError:
            bad += 1
    if bad:
        raise common.MachineryError("%d unparsable TLC output lines in run %s" % (bad, name))
    want = EXPECTED_RECORDS.get(cfg) if simulate is None else simulate * workers
    if want is not None and len(recs) != want:
        raise common.MachineryError("run %s emitted %d records, expected %d" % (name, len(recs), want))
    if coverage:
        chk.notes.setdefault("action_coverage", {})[name] = {a: res.coverage.get(a, (0, 0))[1] for a in actions}
    return recs


# ------------------------------------------------------------------------------------------------
# angles and parameters

def ang_rad(a):
    return math.atan2(a[1], a[0])


_RIGHT = {(1, 0): 0.0, (0, 1): 90.0, (-1, 0): 180.0, (0, -1): -90.0}


def ang_deg(a):
    if a[2] == 1:
        return _RIGHT[(a[0], a[1])]
    return math.degrees(math.atan2(a[1], a[0]))


def pars_of(par):
    """ImageD11 parameter dictionary of a configuration (tilts in radians, wedge/chi in degrees)"""
    o = par["o"]
    return {
        "y_center": float(par["yc"]), "z_center": float(par["zc"]),
        "y_size": float(par["ys"]), "z_size": float(par["zs"]),
        "distance": float(par["dist"]),
        "tilt_x": ang_rad(par["tilt_x"]), "tilt_y": ang_rad(par["tilt_y"]), "tilt_z": ang_rad(par["tilt_z"]),
        "o11": float(o[0]), "o12": float(o[1]), "o21": float(o[2]), "o22": float(o[3]),
        "wedge": ang_deg(par["wedge"]), "chi": ang_deg(par["chi"]),
        "omegasign": float(par["sgn"]),
        "wavelength": par["wl"][0] / float(par["wl"][1]),
        "t_x": float(par["t"][0]), "t_y": float(par["t"][1]), "t_z": float(par["t"][2]),
    }


def group_key(par):
    return json.dumps([par[k] for k in ("sw", "flip", "sgn", "zs", "ys", "zc", "yc", "dist", "wl", "tilt_x", "tilt_y",
                                        "tilt_z", "wedge", "chi", "t", "o")])


def group_records(recs):
    groups = {}
    for r in recs:
        groups.setdefault(group_key(r["par"]), []).append(r)
    return list(groups.values())


# ------------------------------------------------------------------------------------------------
# the oracle: finishing step in 40-digit decimals from the exact integers of the specification

class Oracle(object):
    """expected values of a batch of forward records (rows = peaks)"""

    def __init__(self, recs, perturb=None):
        n = len(recs)
        self.n = n
        self.recs = recs
        self.par = recs[0]["par"]
        self.P = pars_of(self.par)
        self.lam = self.P["wavelength"]
        # peak positions are rationals sc/pden (the nearest double is handed to the code)
        self.sc = np.array([r["par"]["sc"] / float(r["par"]["pden"]) for r in recs])
        self.fc = np.array([r["par"]["fc"] / float(r["par"]["pden"]) for r in recs])
        self.omega = np.array([ang_deg(r["par"]["omega"]) for r in recs])      # as stored in a peak file
        self.oms = self.omega * self.P["omegasign"]                             # signed, what the slow routes get
        self.xyz = np.zeros((n, 3))
        self.org = np.zeros((n, 3))
        self.d = np.zeros((n, 3))
        self.k = np.zeros((n, 3))
        self.g = np.zeros((n, 3))
        self.tth = np.zeros(n)
        self.eta = np.full(n, np.nan)
        self.ds = np.zeros(n)
        self.sinsqth = np.zeros(n)
        self.cosinc = np.zeros(n)
        self.ok = np.ones(n, bool)
        lam = D(self.par["wl"][0]) / D(self.par["wl"][1])
        for i, r in enumerate(recs):
            xn, xd = r["xyz"]
            on, od = r["org"]
            dn, dd = r["d"]
            An, Ad = r["A"]
            Bn, Bd = r["Bx"]
            Gn, Gd = r["G"]
            # independent re-check of the record in unbounded integers (TLC forms the norms only where they fit)
            if sum(a * a for a in An) * (Gd * dd) ** 2 != Gd * Gd * sum(x * x for x in dn) * Ad * Ad:
                raise common.MachineryError("record violates |G d| = |d|: %r" % (r,))
            for j in range(3):
                if F(xn[j], xd) - F(on[j], od) != F(dn[j], dd):
                    raise common.MachineryError("record violates d = xyz - o: %r" % (r,))
                if F(sum(Gn[j][c] * dn[c] for c in range(3)), Gd * dd) != F(An[j], Ad):
                    raise common.MachineryError("record violates A = G d: %r" % (r,))
            n2 = sum(x * x for x in dn)
            if n2 == 0:
                self.ok[i] = False
                continue
            absd = D(n2).sqrt() / D(dd)
            dv = [D(x) / D(dd) for x in dn]
            self.xyz[i] = [xn[j] / float(xd) for j in range(3)]
            self.org[i] = [on[j] / float(od) for j in range(3)]
            self.d[i] = [float(x) for x in dv]
            u = [x / absd for x in dv]
            kk = [(u[0] - 1) / lam, u[1] / lam, u[2] / lam]
            self.k[i] = [float(x) for x in kk]
            gg = [(D(An[j]) / D(Ad) / absd - D(Bn[j]) / D(Bd)) / lam for j in range(3)]
            self.g[i] = [float(x) for x in gg]
            gam2 = 2 - 2 * u[0]
            if gam2 < 0:
                gam2 = D(0)
            self.ds[i] = float(gam2.sqrt() / lam)
            self.sinsqth[i] = float(gam2 / 4)
            perp = (dv[1] * dv[1] + dv[2] * dv[2]).sqrt()
            self.tth[i] = math.degrees(math.atan2(float(perp), float(dv[0])))
            if dn[1] != 0 or dn[2] != 0:
                self.eta[i] = math.degrees(math.atan2(-float(dv[1]), float(dv[2])))
            # cosine of incidence of the ray on the detector plane, n.d / |d|   (n.d = sden / snd[1])
            self.cosinc[i] = abs(float(D(r["sden"]) / D(r["snd"][1]) / absd))
        if perturb == "xyz":
            self.xyz[0, 1] += 1e-6 * max(1.0, abs(self.xyz[0]).max())
        elif perturb == "g":
            self.g[0, 2] += 1e-7 * max(abs(self.g[0]).max(), 1e-3)
        elif perturb == "eta":
            self.eta[np.isfinite(self.eta)] += 1e-4

    def tiled(self, length):
        """the same batch repeated up to `length` rows (crosses the OpenMP chunking of the C loops)"""
        o = Oracle.__new__(Oracle)
        o.__dict__.update(self.__dict__)
        idx = np.arange(length) % self.n
        for name in ("sc", "fc", "omega", "oms", "xyz", "org", "d", "k", "g", "tth", "eta", "ds", "sinsqth", "cosinc", "ok"):
            setattr(o, name, np.ascontiguousarray(getattr(self, name)[idx]))
        o.n = length
        o.recs = self.recs
        return o


class Judge(object):
    def __init__(self, ok):
        self.ok = ok
        self.problems = []
        self.worst = 0.0          # worst |x-e| / (REL*scale+ABS) seen (<= 1 passes)
        self.ncmp = 0

    def _report(self, label, bad, got, exp):
        i = int(np.argmax(bad))
        self.problems.append("%s: row %d got %s expected %s" % (label, i, np.asarray(got)[i].tolist(),
                                                                np.asarray(exp)[i].tolist()))

    def vec(self, label, got, exp, widen=None):
        got = np.asarray(got, float)
        exp = np.asarray(exp, float)
        if got.shape != exp.shape:
            self.problems.append("%s: shape %s, expected %s" % (label, got.shape, exp.shape))
            return
        scale = np.abs(exp).max(axis=1) if exp.ndim == 2 else np.abs(exp)
        tol = REL * scale + ABS
        if widen is not None:
            tol = tol * widen
        err = np.abs(got - exp)
        if exp.ndim == 2:
            err = err.max(axis=1)
        with np.errstate(invalid="ignore"):
            bad = ~(err <= tol) & self.ok
        self.ncmp += int(self.ok.sum())
        if self.ok.any():
            self.worst = max(self.worst, float(np.nanmax(np.where(self.ok, err / tol, 0.0))))
        if bad.any():
            self._report(label, bad, got, exp)

    def ang(self, label, got, exp, modulo=True, extra=None):
        got = np.asarray(got, float)
        exp = np.asarray(exp, float)
        if got.shape != exp.shape:
            self.problems.append("%s: shape %s, expected %s" % (label, got.shape, exp.shape))
            return
        diff = got - exp
        if modulo:
            diff = (diff + 180.0) % 360.0 - 180.0
        sel = self.ok & np.isfinite(exp)
        tol = ANGTOL if extra is None else ANGTOL + extra
        with np.errstate(invalid="ignore"):
            bad = ~(np.abs(diff) <= tol) & sel
        self.ncmp += int(sel.sum())
        if bad.any():
            self._report(label, bad, got, exp)


# ------------------------------------------------------------------------------------------------
# implementation routes (C01)

class Routes(object):
    """imports ImageD11 (after common.use_shadow) and compiles the numba copies once"""

    def __init__(self, numba_routes=True):
        from ImageD11 import transform, cImageD11, columnfile, parameters, refinegrains, gv_general
        self.transform = transform
        self.c = cImageD11
        self.columnfile = columnfile
        self.parameters = parameters
        self.refinegrains = refinegrains
        self.gv_general = gv_general
        self.pbp = None
        if numba_routes:
            with contextlib.redirect_stdout(io.StringIO()):
                from ImageD11.sinograms import point_by_point
            self.pbp = point_by_point
        with contextlib.redirect_stdout(io.StringIO()):
            self.rg_plain = refinegrains.refinegrains(OmFloat=False)
            self.rg_float = refinegrains.refinegrains(OmFloat=True, OmSlop=0.0)


class _Grain(object):
    pass


class omp_threads(object):
    """context manager: run the OpenMP kernels with n threads, restore the previous setting afterwards"""

    def __init__(self, rt, n):
        self.c = rt.c
        self.n = n

    def __enter__(self):
        self.old = self.c.cimaged11_omp_get_max_threads()
        if self.n:
            self.c.cimaged11_omp_set_num_threads(int(self.n))
        return self

    def __exit__(self, *a):
        self.c.cimaged11_omp_set_num_threads(self.old)
        return False


def exact_rmat(par):
    """dot(detector_rotation_matrix, flip matrix) formed from the exact rationals (independent packing for the raw
    C call): rows of Rx.Ry.Rz times [[1,0,0],[0,o22,o21],[0,o12,o11]]"""
    def R(axis, a):
        c, s = F(a[0], a[2]), F(a[1], a[2])
        if axis == "x":
            return [[1, 0, 0], [0, c, -s], [0, s, c]]
        if axis == "y":
            return [[c, 0, s], [0, 1, 0], [-s, 0, c]]
        return [[c, -s, 0], [s, c, 0], [0, 0, 1]]

    def mm(a, b):
        return [[sum(a[i][k] * b[k][j] for k in range(3)) for j in range(3)] for i in range(3)]
    o11, o12, o21, o22 = par["o"]
    fm = [[1, 0, 0], [0, o22, o21], [0, o12, o11]]
    m = mm(mm(mm(R("x", par["tilt_x"]), R("y", par["tilt_y"])), R("z", par["tilt_z"])), fm)
    return np.array([[float(x) for x in row] for row in m]).ravel()


def judge_fwd(rt, orc, routes=("py", "c", "cf", "numba", "rg")):
    """run one batch through the implementation routes; returns (problems, worst ratio, comparisons)"""
    J = Judge(orc.ok)
    P = orc.P
    tr = rt.transform
    n = orc.n
    sc, fc, om, oms = orc.sc, orc.fc, orc.omega, orc.oms
    t = (P["t_x"], P["t_y"], P["t_z"])
    tkw = dict(t_x=t[0], t_y=t[1], t_z=t[2], wedge=P["wedge"], chi=P["chi"])
    lam = P["wavelength"]

    def geometry_cols(label, xyz, tth, eta, ds, g):
        if xyz is not None:
            J.vec(label + " xl,yl,zl", xyz, orc.xyz)
        if tth is not None:
            J.ang(label + " tth", tth, orc.tth, modulo=False)
            J.ang(label + " eta", eta, orc.eta)
        if ds is not None:
            J.vec(label + " ds", ds, orc.ds)
        if g is not None:
            J.vec(label + " gx,gy,gz", g, orc.g)

    # ---- (1) the documented Python reference, stage by stage
    if "py" in routes:
        xyz = tr.compute_xyz_lab(np.array([sc, fc]), **P)
        J.vec("transform.compute_xyz_lab", xyz.T, orc.xyz)
        tth, eta = tr.compute_tth_eta_from_xyz(xyz, oms, **tkw)
        J.ang("transform.compute_tth_eta_from_xyz tth", tth, orc.tth, modulo=False)
        J.ang("transform.compute_tth_eta_from_xyz eta", eta, orc.eta)
        tth2, eta2 = tr.compute_tth_eta(np.array([sc, fc]), omega=oms, **P)
        J.ang("transform.compute_tth_eta tth", tth2, orc.tth, modulo=False)
        J.ang("transform.compute_tth_eta eta", eta2, orc.eta)
        go = tr.compute_grain_origins(oms, wedge=P["wedge"], chi=P["chi"], t_x=t[0], t_y=t[1], t_z=t[2])
        J.vec("transform.compute_grain_origins", go.T, orc.org)
        k = tr.compute_k_vectors(tth, eta, lam)
        J.vec("transform.compute_k_vectors", k.T, orc.k)
        g = tr.compute_g_from_k(k, oms, P["wedge"], P["chi"])
        J.vec("transform.compute_g_from_k", g.T, orc.g)
        g2 = tr.compute_g_vectors(tth, eta, oms, lam, wedge=P["wedge"], chi=P["chi"])
        J.vec("transform.compute_g_vectors", g2.T, orc.g)
        # fed with the oracle's angles (not the route's own), where eta is defined
        e0 = np.where(np.isfinite(orc.eta), orc.eta, 0.0)
        g3 = tr.compute_g_vectors(orc.tth, e0, oms, lam, wedge=P["wedge"], chi=P["chi"])
        J.vec("transform.compute_g_vectors(oracle tth, eta)", g3.T, orc.g)
        with np.errstate(invalid="ignore", divide="ignore"):
            s2 = tr.compute_sinsqth_from_xyz((xyz - go))
        back = (orc.d[:, 1] == 0) & (orc.d[:, 2] == 0) & (orc.d[:, 0] < 0)     # 0/0 in the documented formula
        keep = J.ok
        J.ok = J.ok & ~back
        J.vec("transform.compute_sinsqth_from_xyz", s2, orc.sinsqth)
        J.ok = keep

    # ---- (2) the compiled fast path through Ctransform and raw
    if "c" in routes:
        ct = tr.Ctransform(P)
        xyz = ct.sf2xyz(sc, fc)
        J.vec("Ctransform.sf2xyz", xyz, orc.xyz)
        gv = ct.xyz2gv(xyz, om, t[0], t[1], t[2])
        J.vec("Ctransform.xyz2gv", gv, orc.g)
        geo = ct.xyz2geometry(xyz, om, t[0], t[1], t[2])
        geometry_cols("Ctransform.xyz2geometry", None, geo[:, 0], geo[:, 1], geo[:, 2], geo[:, 3:6])
        gv2 = ct.sf2gv(sc, fc, om, t[0], t[1], t[2])
        J.vec("Ctransform.sf2gv", gv2, orc.g)
        # raw kernels with a packing made by the harness from the exact rationals
        out = np.full((n, 3), 7.25)
        rt.c.compute_xlylzl(sc, fc, np.array([P["z_center"], P["y_center"], P["z_size"], P["y_size"]]),
                            exact_rmat(orc.par), np.array([P["distance"], 0.0, 0.0]), out)
        J.vec("cImageD11.compute_xlylzl", out, orc.xyz)
        xe = np.ascontiguousarray(orc.xyz)
        gout = np.full((n, 3), 7.25)
        rt.c.compute_gv(xe, om, P["omegasign"], lam, P["wedge"], P["chi"], np.array(t), gout)
        J.vec("cImageD11.compute_gv", gout, orc.g)
        geo = np.full((n, 6), 7.25)
        rt.c.compute_geometry(xe, om, P["omegasign"], lam, P["wedge"], P["chi"], np.array(t), geo)
        geometry_cols("cImageD11.compute_geometry", None, geo[:, 0], geo[:, 1], geo[:, 2], geo[:, 3:6])

    # ---- (3) columnfile fast / slow, translation by parameter and by argument
    if "cf" in routes:
        for how in ("parameter", "argument"):
            PP = dict(P)
            trans = None
            if how == "argument":
                PP["t_x"], PP["t_y"], PP["t_z"] = 11.0, -13.0, 17.0     # must be overridden by the argument
                trans = t
            for fast in (True, False):
                cf = rt.columnfile.colfile_from_dict({"sc": sc.copy(), "fc": fc.copy(), "omega": om.copy()})
                cf.parameters = rt.parameters.parameters(**PP)
                cf.updateGeometry(translation=trans, fast=fast)
                lab = "columnfile.updateGeometry(fast=%s, translation by %s)" % (fast, how)
                geometry_cols(lab, np.array([cf.xl, cf.yl, cf.zl]).T, cf.tth, cf.eta, cf.ds,
                              np.array([cf.gx, cf.gy, cf.gz]).T)
                cf2 = rt.columnfile.colfile_from_dict({"sc": sc.copy(), "fc": fc.copy(), "omega": om.copy()})
                cf2.updateGV(pars=rt.parameters.parameters(**PP), translation=trans, fast=fast)
                J.vec("columnfile.updateGV(fast=%s, translation by %s)" % (fast, how),
                      np.array([cf2.gx, cf2.gy, cf2.gz]).T, orc.g)

        # histories on ONE columnfile object: an update with other parameters first, then the parameters are edited in
        # place (parameters.set / dictionary update - the idiom of dataset.update_colfile_pars and of fitting loops) and the
        # object is updated again; nothing computed for the earlier parameters may survive
        P0 = dict(P)
        P0.update(o11=-P["o11"], o12=P["o21"], o21=P["o12"], tilt_x=P["tilt_y"] + 0.1, tilt_y=P["tilt_z"] - 0.05,
                  tilt_z=P["tilt_x"] + 0.02, wedge=P["wedge"] + 7.0, chi=P["chi"] - 3.0, distance=P["distance"] * 1.5,
                  y_center=P["y_center"] + 31.0, z_center=P["z_center"] - 17.0, y_size=P["y_size"] * 2, z_size=-P["z_size"],
                  omegasign=-P["omegasign"], wavelength=P["wavelength"] * 1.25, t_x=P["t_x"] + 5.0, t_y=P["t_y"] - 7.0,
                  t_z=P["t_z"] + 3.0)
        for fast in (True, False):
            for edit in ("set", "dict.update", "loadparameters"):
                cf = rt.columnfile.colfile_from_dict({"sc": sc.copy(), "fc": fc.copy(), "omega": om.copy()})
                cf.parameters = rt.parameters.parameters(**P0)
                cf.updateGeometry(fast=fast)
                if edit == "set":
                    for k in sorted(P):
                        cf.parameters.set(k, P[k])
                elif edit == "dict.update":
                    cf.parameters.parameters.update(P)
                else:
                    import tempfile
                    fd, fn = tempfile.mkstemp(suffix=".par")
                    os.close(fd)
                    try:
                        rt.parameters.parameters(**P).saveparameters(fn)
                        cf.parameters.loadparameters(fn)
                    finally:
                        os.unlink(fn)
                    if any(cf.parameters.get(k) != P[k] for k in P):
                        continue                # (a value that does not survive the text file: not this property)
                cf.updateGeometry(fast=fast)
                lab = "columnfile.updateGeometry(fast=%s) after an update with other parameters and an in-place edit (%s)" % (fast, edit)
                geometry_cols(lab, np.array([cf.xl, cf.yl, cf.zl]).T, cf.tth, cf.eta, cf.ds,
                              np.array([cf.gx, cf.gy, cf.gz]).T)
            cf2 = rt.columnfile.colfile_from_dict({"sc": sc.copy(), "fc": fc.copy(), "omega": om.copy()})
            po = rt.parameters.parameters(**P0)
            cf2.updateGV(pars=po, fast=fast)
            for k in sorted(P):
                po.set(k, P[k])
            cf2.updateGV(pars=po, fast=fast)
            J.vec("columnfile.updateGV(fast=%s) twice with one parameter object edited in between" % fast,
                  np.array([cf2.gx, cf2.gy, cf2.gz]).T, orc.g)

    # ---- (4) numba point-by-point copies (no omegasign argument: callers pre-multiply) and get_local_gv
    if "numba" in routes and rt.pbp is not None:
        pbp = rt.pbp
        det = dict(y_center=P["y_center"], y_size=P["y_size"], tilt_y=P["tilt_y"], z_center=P["z_center"],
                   z_size=P["z_size"], tilt_z=P["tilt_z"], tilt_x=P["tilt_x"], distance=P["distance"],
                   o11=P["o11"], o12=P["o12"], o21=P["o21"], o22=P["o22"])
        xyz = pbp.compute_xyz_lab(sc, fc, **det)
        J.vec("point_by_point.compute_xyz_lab", xyz.T, orc.xyz)
        go = pbp.compute_grain_origins(oms, P["wedge"], P["chi"], t[0], t[1], t[2])
        J.vec("point_by_point.compute_grain_origins", go.T, orc.org)
        tth, eta = pbp.compute_tth_eta(sc, fc, oms, t_x=t[0], t_y=t[1], t_z=t[2], wedge=P["wedge"], chi=P["chi"], **det)
        J.ang("point_by_point.compute_tth_eta tth", tth, orc.tth, modulo=False)
        J.ang("point_by_point.compute_tth_eta eta", eta, orc.eta)
        tth3, eta3 = pbp.compute_tth_eta_from_xyz(xyz, oms, t_x=t[0], t_y=t[1], t_z=t[2], wedge=P["wedge"], chi=P["chi"])
        J.ang("point_by_point.compute_tth_eta_from_xyz tth", tth3, orc.tth, modulo=False)
        J.ang("point_by_point.compute_tth_eta_from_xyz eta", eta3, orc.eta)
        k = pbp.compute_k_vectors(tth, eta, lam)
        J.vec("point_by_point.compute_k_vectors", k.T, orc.k)
        g = pbp.compute_g_vectors(tth, eta, oms, lam, wedge=P["wedge"], chi=P["chi"])
        J.vec("point_by_point.compute_g_vectors", g.T, orc.g)
        for x0 in (0.0, 2.5):
            gve = pbp.compute_gve(sc, fc, oms, np.full(n, x0), P["distance"] + x0, P["y_center"], P["y_size"],
                                  P["tilt_y"], P["z_center"], P["z_size"], P["tilt_z"], P["tilt_x"],
                                  P["o11"], P["o12"], P["o21"], P["o22"], t[0], t[1], t[2], P["wedge"], P["chi"], lam)
            J.vec("point_by_point.compute_gve(xpos=%g)" % x0, gve.T, orc.g)
        # get_local_gv: origin moved along x by sx cos(omega) - sy sin(omega), t = 0, then cImageD11.compute_gv
        si, sj, ystep = 2, -3, 0.5
        sx, sy = F(si) * F(1, 2), -F(sj) * F(1, 2)
        eg = np.zeros((n, 3))
        okl = orc.ok.copy()
        cs = np.zeros(n)
        sn = np.zeros(n)
        uniq = {}
        for i in range(n):
            r = orc.recs[i % len(orc.recs)]
            a = r["par"]["omega"]
            cs[i], sn[i] = a[0] / float(a[2]), a[1] / float(a[2])
            key = (i % len(orc.recs))
            if key not in uniq:
                xoff = sx * F(a[0], a[2]) - sy * F(a[1], a[2])
                xn, xd = r["xyz"]
                dloc = [F(xn[0], xd) - xoff, F(xn[1], xd), F(xn[2], xd)]
                n2 = sum(x * x for x in dloc)
                if n2 == 0:
                    uniq[key] = None
                else:
                    Gn, Gd = r["G"]
                    absd = (D(n2.numerator) / D(n2.denominator)).sqrt()
                    u = [D(x.numerator) / D(x.denominator) / absd for x in dloc]
                    kk = [u[0] - 1, u[1], u[2]]
                    lamd = D(r["par"]["wl"][0]) / D(r["par"]["wl"][1])
                    uniq[key] = [float(sum(D(Gn[j][c]) * kk[c] for c in range(3)) / D(Gd) / lamd) for j in range(3)]
            if uniq[key] is None:
                okl[i] = False
            else:
                eg[i] = uniq[key]
        old = pbp.parglobal
        try:
            pbp.parglobal = rt.parameters.parameters(**P)
            gv, gx, gy, gz = pbp.get_local_gv(si, sj, ystep, om, sn, cs, orc.xyz[:, 0].copy(), orc.xyz[:, 1].copy(),
                                              orc.xyz[:, 2].copy())
        finally:
            pbp.parglobal = old
        keep = J.ok
        J.ok = okl
        J.vec("point_by_point.get_local_gv", gv, eg)
        J.vec("point_by_point.get_local_gv (gx,gy,gz)", np.array([gx, gy, gz]).T, eg)
        J.ok = keep

    # ---- (5) refinegrains.compute_gv
    if "rg" in routes:
        for rg, lab in ((rt.rg_plain, "refinegrains.compute_gv(OmFloat=False)"),
                        (rt.rg_float, "refinegrains.compute_gv(OmFloat=True, OmSlop=0)")):
            rg.parameterobj = rt.parameters.parameters(**P)
            gr = _Grain()
            gr.peaks_xyz = np.ascontiguousarray(orc.xyz)
            gr.om = om.copy()
            gr.omega_calc = np.zeros(n)
            gr.ubi = np.eye(3) * 3.0
            gr.name = "0:0"
            rg.tolerance = 0.05
            with contextlib.redirect_stdout(io.StringIO()), np.errstate(invalid="ignore", divide="ignore"):
                rg.compute_gv(gr)
            J.vec(lab + " gv", rg.gv, orc.g)
            J.ang(lab + " tth", rg.tth, orc.tth, modulo=False)
            J.ang(lab + " eta", rg.eta, orc.eta)
    return J


# ------------------------------------------------------------------------------------------------
# C02 (i): reference-free laws on code output

def rotz(deg, v):
    c, s = np.cos(np.radians(deg)), np.sin(np.radians(deg))
    return np.array([c * v[:, 0] - s * v[:, 1], s * v[:, 0] + c * v[:, 1], v[:, 2]]).T


def judge_laws(rt, orc, rng, perturb=None):
    """for a batch with t = 0: |g| = 2 sin(theta)/lambda = oracle ds, independent of omega, wedge, chi, omegasign;
    g(omega2) = Rz(-(omega2-omega1)*sign) g(omega1).  Siblings use arbitrary (not rational-trig) angles too."""
    J = Judge(orc.ok)
    P = orc.P
    tr = rt.transform
    n = orc.n
    lam = P["wavelength"]
    sc, fc = orc.sc, orc.fc
    xyz = np.ascontiguousarray(orc.xyz)
    zero = np.zeros(3)
    variants = [(P["wedge"], P["chi"], P["omegasign"]), (P["wedge"], P["chi"], -P["omegasign"]), (0.0, 0.0, 1.0),
                (float(rng.uniform(-40, 40)), float(rng.uniform(-40, 40)), 1.0),
                (float(rng.uniform(-170, 170)), 0.0, -1.0), (0.0, float(rng.uniform(-170, 170)), 1.0)]
    om1 = orc.omega
    dom = np.where(np.arange(n) % 2 == 0, 37.0, float(rng.uniform(-180, 180)))
    om2 = om1 + dom
    # theta from the detector position alone (t = 0): tth of the documented arctan recipe
    tth_c, eta_c = tr.compute_tth_eta_from_xyz(xyz.T.copy(), None)
    bragg = 2 * np.sin(np.radians(tth_c) / 2) / lam
    if perturb == "bragg":
        bragg = bragg * (1 + 1e-7)
    J.vec("Bragg: 2 sin(theta)/lambda from compute_tth_eta_from_xyz vs the oracle's ds", bragg, orc.ds)
    for (w, c, sg) in variants:
        tag = "(wedge=%.6g chi=%.6g omegasign=%g)" % (w, c, sg)
        for which, omv in (("omega1", om1), ("omega2", om2)):
            g = np.zeros((n, 3))
            rt.c.compute_gv(xyz, omv, sg, lam, w, c, zero, g)
            J.vec("|g| from cImageD11.compute_gv %s %s" % (which, tag), np.sqrt((g * g).sum(axis=1)), bragg)
            geo = np.zeros((n, 6))
            rt.c.compute_geometry(xyz, omv, sg, lam, w, c, zero, geo)
            J.vec("ds column of compute_geometry = 2 sin(tth/2)/lambda %s" % tag,
                  geo[:, 2], 2 * np.sin(np.radians(geo[:, 0]) / 2) / lam)
            J.vec("|g| of compute_geometry = its ds %s" % tag, np.sqrt((geo[:, 3:6] ** 2).sum(axis=1)), geo[:, 2])
            gp = tr.compute_g_vectors(tth_c, eta_c, omv * sg, lam, wedge=w, chi=c).T
            J.vec("|g| from transform.compute_g_vectors %s %s" % (which, tag), np.sqrt((gp * gp).sum(axis=1)), bragg)
            if which == "omega1":
                g1, gp1 = g, gp
            else:
                J.vec("omega law (C): g(omega2) = Rz(-(omega2-omega1) sign) g(omega1) %s" % tag, g, rotz(-dom * sg, g1))
                J.vec("omega law (Python): g(omega2) = Rz(-(omega2-omega1) sign) g(omega1) %s" % tag, gp,
                      rotz(-dom * sg, gp1))
        if rt.pbp is not None:
            gn = rt.pbp.compute_g_vectors(tth_c, eta_c, om1 * sg, lam, wedge=w, chi=c).T
            J.vec("|g| from point_by_point.compute_g_vectors %s" % tag, np.sqrt((gn * gn).sum(axis=1)), bragg)
        # the packed fast path and the columnfile g-vector route obey the same two laws
        PV = dict(P, wedge=w, chi=c, omegasign=sg, t_x=0.0, t_y=0.0, t_z=0.0)
        ct = tr.Ctransform(PV)
        res = {}
        for which, omv in (("omega1", om1), ("omega2", om2)):
            res[("sf2gv", which)] = np.array(ct.sf2gv(sc.copy(), fc.copy(), omv.copy(), 0.0, 0.0, 0.0))
            res[("xyz2gv", which)] = np.array(ct.xyz2gv(np.array(ct.sf2xyz(sc.copy(), fc.copy())), omv.copy(), 0.0, 0.0, 0.0))
            res[("xyz2geometry", which)] = np.array(ct.xyz2geometry(np.array(ct.sf2xyz(sc.copy(), fc.copy())), omv.copy(), 0.0, 0.0, 0.0))[:, 3:6]
            for fast in (True, False):
                cfv = rt.columnfile.colfile_from_dict({"sc": sc.copy(), "fc": fc.copy(), "omega": omv.copy()})
                cfv.updateGV(pars=rt.parameters.parameters(**PV), fast=fast)
                res[("columnfile.updateGV(fast=%s)" % fast, which)] = np.array([cfv.gx, cfv.gy, cfv.gz]).T
        for (name, which), gv in sorted(res.items()):
            J.vec("|g| from %s %s %s" % (name, which, tag), np.sqrt((gv * gv).sum(axis=1)), bragg)
            if which == "omega2":
                J.vec("omega law (%s): g(omega2) = Rz(-(omega2-omega1) sign) g(omega1) %s" % (name, tag), gv,
                      rotz(-dom * sg, res[(name, "omega1")]))
    # columnfile columns: ds = 2 sin(tth/2)/lambda = |g|
    for fast in (True, False):
        cf = rt.columnfile.colfile_from_dict({"sc": sc.copy(), "fc": fc.copy(), "omega": om1.copy()})
        cf.parameters = rt.parameters.parameters(**P)
        cf.updateGeometry(fast=fast)
        J.vec("columnfile(fast=%s) ds = 2 sin(tth/2)/lambda" % fast, cf.ds, 2 * np.sin(np.radians(cf.tth) / 2) / lam)
        J.vec("columnfile(fast=%s) |g| = ds" % fast, np.sqrt(cf.gx ** 2 + cf.gy ** 2 + cf.gz ** 2), cf.ds)
        J.vec("columnfile(fast=%s) ds = oracle" % fast, cf.ds, orc.ds)
    return J


# ------------------------------------------------------------------------------------------------
# C02 (iii): projection onto the detector and back

def judge_project(rt, orc, perturb=None):
    J = Judge(orc.ok)
    P = orc.P
    tr = rt.transform
    sel = orc.ok & (orc.cosinc > 0)
    if not sel.any():
        return J, 0
    J.ok = sel
    eta = np.where(np.isfinite(orc.eta), orc.eta, 0.0)
    det = {k: P[k] for k in ("y_center", "y_size", "tilt_y", "z_center", "z_size", "tilt_z", "tilt_x", "distance",
                             "o11", "o12", "o21", "o22")}
    with np.errstate(invalid="ignore", divide="ignore"):
        fc, sc = tr.compute_xyz_from_tth_eta(orc.tth, eta, orc.oms, t_x=P["t_x"], t_y=P["t_y"], t_z=P["t_z"],
                                             wedge=P["wedge"], chi=P["chi"], **det)
    # conditioning of the ray / plane intersection: 1 / cos(incidence); lengths measured in pixels
    pix = min(abs(P["y_size"]), abs(P["z_size"]))
    absd = np.sqrt((orc.d ** 2).sum(axis=1))
    widen = np.where(sel, (1.0 + absd / pix / np.maximum(np.abs(orc.sc), 1.0)) / np.maximum(orc.cosinc, 1e-300), 1.0)
    esc = orc.sc + (1e-5 if perturb == "pixel" else 0.0)
    J.vec("compute_xyz_from_tth_eta slow pixel", sc, esc, widen=widen)
    J.vec("compute_xyz_from_tth_eta fast pixel", fc, orc.fc, widen=widen)
    with np.errstate(invalid="ignore", divide="ignore"):
        tth2, eta2 = tr.compute_tth_eta(np.array([np.where(sel, sc, 0.0), np.where(sel, fc, 0.0)]), omega=orc.oms, **P)
    # an error dp of the pixel moves the angles by about dp * pixel / |d|
    extra = np.degrees((REL * np.maximum(np.abs(orc.sc), np.abs(orc.fc)) + ABS) * widen * max(abs(P["y_size"]),
                       abs(P["z_size"])) / np.maximum(absd * np.maximum(np.sin(np.radians(orc.tth)), 1e-3), 1e-300))
    J.ang("compute_tth_eta(compute_xyz_from_tth_eta) tth", tth2, orc.tth, modulo=False, extra=extra)
    J.ang("compute_tth_eta(compute_xyz_from_tth_eta) eta", eta2, orc.eta, extra=extra)
    return J, int(sel.sum())


# ------------------------------------------------------------------------------------------------
# C02 (ii): g -> (tth, eta, omega), validity, both solutions forward again

def forward_model(tth, eta, omega, wedge_a, chi_a, lam):
    """g = Rz(-omega) Rx(-chi) Ry(wedge) k(tth, eta) with the exact sine/cosine of wedge and chi (independent of the
    code's formulas); omega, tth, eta are floats in degrees"""
    t, e, o = np.radians(tth), np.radians(eta), np.radians(omega)
    u = np.array([np.cos(t), -np.sin(t) * np.sin(e), np.sin(t) * np.cos(e)])
    k = np.array([u[0] - 1.0, u[1], u[2]]) / lam
    cw, sw = wedge_a[0] / float(wedge_a[2]), wedge_a[1] / float(wedge_a[2])
    cc, sc = chi_a[0] / float(chi_a[2]), chi_a[1] / float(chi_a[2])
    k1 = np.array([cw * k[0] + sw * k[2], k[1], -sw * k[0] + cw * k[2]])          # Ry(wedge)
    k2 = np.array([k1[0], cc * k1[1] + sc * k1[2], -sc * k1[1] + cc * k1[2]])     # Rx(-chi)
    co, so = np.cos(o), np.sin(o)
    return np.array([co * k2[0] + so * k2[1], -so * k2[0] + co * k2[1], k2[2]]).T  # Rz(-omega)


def inverse_key(r):
    p = r["par"]
    return json.dumps([p["wedge"], p["chi"], p["wl"]])


def judge_inverse(rt, recs, perturb=None):
    """one batch of inverse records sharing wedge, chi, wavelength.  returns (Judge, statistics dict)"""
    tr = rt.transform
    n = len(recs)
    p0 = recs[0]["par"]
    lam = p0["wl"][0] / float(p0["wl"][1])
    wedge, chi = ang_deg(p0["wedge"]), ang_deg(p0["chi"])
    g = np.zeros((3, n))
    valid = np.zeros(n, bool)
    judge_flag = np.ones(n, bool)
    margin = np.ones(n)
    stats = {"valid": 0, "invalid": 0, "blind": 0, "toolong": 0, "tangent": 0, "degenerate": 0, "near_tangent": 0,
             "generated": 0}
    for i, r in enumerate(recs):
        gn, gd = r["gam"]
        g[:, i] = [x / float(gd) / lam for x in gn]
        valid[i] = bool(r["valid"])
        a, b, c = r["an"], r["bn"], r["cn"]
        if r["degenerate"] or r["tangent"]:
            judge_flag[i] = False
            stats["degenerate" if r["degenerate"] else "tangent"] += 1
            margin[i] = 0.0
            continue
        if a * a + b * b > 0:
            q2 = F(c * c, a * a + b * b)
            margin[i] = abs(1.0 - float(q2))
            if margin[i] < 1e-6:
                judge_flag[i] = False            # arcsin is ill conditioned: neither flag nor angles are judged
                stats["near_tangent"] += 1
                continue
        if valid[i]:
            stats["valid"] += 1
        else:
            stats["invalid"] += 1
            if sum(x * x for x in gn) > 4 * gd * gd:
                stats["toolong"] += 1
            else:
                stats["blind"] += 1
    if perturb == "flag":
        i = int(np.argmax(judge_flag & valid))
        valid[i] = False
    J = Judge(judge_flag.copy())
    modg = np.sqrt((g * g).sum(axis=0))
    scale = np.maximum(modg, 1e-300)
    post = None if (wedge == 0 and chi == 0) else rt.gv_general.wedgechi(wedge=wedge, chi=chi)
    with np.errstate(invalid="ignore", divide="ignore"):
        o1, o2, v = rt.gv_general.g_to_k(g, lam, axis=[0, 0, -1], pre=None, post=post)
        tth, (eta1, eta2), (om1, om2) = tr.uncompute_g_vectors(g, lam, wedge=wedge, chi=chi)
    v = np.asarray(v, bool)
    for i in np.nonzero(judge_flag & (v != valid))[0][:3]:
        J.problems.append("g_to_k valid flag %s, exact Ewald inequality says %s for g = %s (lambda %g wedge %g chi %g)" % (
            bool(v[i]), bool(valid[i]), g[:, i].tolist(), lam, wedge, chi))
    inval = judge_flag & ~valid
    for name, arr in (("tth", tth), ("eta1", eta1), ("eta2", eta2), ("omega1", om1), ("omega2", om2)):
        # "flagged, not given angles": the masked value is 0; for |g| > 2/lambda the code's arcsin yields NaN for tth,
        # which is not an angle either - both are accepted, any finite non-zero value is not
        arr = np.asarray(arr, float)
        bad = inval & np.isfinite(arr) & (arr != 0)
        for i in np.nonzero(bad)[0][:2]:
            J.problems.append("uncompute_g_vectors gives %s = %r to a g-vector that can never diffract: g = %s "
                              "(lambda %g wedge %g chi %g)" % (name, float(arr[i]), g[:, i].tolist(), lam, wedge, chi))
    val = judge_flag & valid
    if perturb == "flag":
        val = val & v
    J.ok = val
    if val.any():
        cond = 1.0 / np.sqrt(np.maximum(margin, 1e-12))
        e_tth = np.degrees(2 * np.arcsin(np.minimum(modg * lam / 2, 1.0)))
        if perturb == "tth":
            e_tth = e_tth + 1e-4
        # arcsin near 1 (backscattering) is ill conditioned as well
        J.ang("uncompute_g_vectors tth = 2 asin(|g| lambda/2)", tth, e_tth, modulo=False,
              extra=ANGTOL * (1.0 / np.sqrt(np.maximum(1 - np.minimum(modg * lam / 2, 1.0) ** 2, 1e-12)) - 1))
        for lab, e, o in (("first", eta1, om1), ("second", eta2, om2)):
            gm = forward_model(tth, e, o, p0["wedge"], p0["chi"], lam)
            J.vec("%s solution pushed forward through the model" % lab, gm, g.T, widen=cond)
            gc = tr.compute_g_vectors(tth, e, o, lam, wedge=wedge, chi=chi)
            J.vec("%s solution pushed forward through compute_g_vectors" % lab, gc.T, g.T, widen=cond)
        # the generating omega / eta must be one of the two solutions
        for i in np.nonzero(val)[0]:
            r = recs[i]
            if r["mode"] != "inv" or r["m"] != 1:
                continue
            stats["generated"] += 1
            og = ang_deg(r["par"]["omega"])          # omegasign = +1 in the inverse machine
            dn = r["d"][0]
            eg = math.degrees(math.atan2(-dn[1], dn[2])) if (dn[1] or dn[2]) else None
            tol = ANGTOL * cond[i] * 10
            hit = False
            for e, o in ((eta1[i], om1[i]), (eta2[i], om2[i])):
                do = (o - og + 180.0) % 360.0 - 180.0
                de = 0.0 if eg is None else (e - eg + 180.0) % 360.0 - 180.0
                if abs(do) <= tol and abs(de) <= tol:
                    hit = True
            if not hit:
                J.problems.append("neither solution (omega, eta) = (%r, %r), (%r, %r) is the generating (%r, %r) for g = %s "
                                  "(lambda %g wedge %g chi %g)" % (om1[i], eta1[i], om2[i], eta2[i], og, eg,
                                                                   g[:, i].tolist(), lam, wedge, chi))
    return J, stats

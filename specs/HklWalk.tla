------------------------------- MODULE HklWalk -------------------------------
(***************************************************************************)
(* C03 - reflection lists are complete, sound (and sorted).                *)
(*                                                                         *)
(* MODELS   ImageD11/unitcell.py                                           *)
(*   77-112   absence functions P A B C I F R and the table `outif`        *)
(*   420-482  unitcell.gethkls : signed axis walk with early-exit counter  *)
(*   484-486  unitcell.ds      : ds^2 = h^T gi h                           *)
(*                                                                         *)
(* ARITHMETIC  the reciprocal metric is an integer symmetric positive      *)
(* definite form  G = <<g11,g22,g33,g23,g13,g12>> ( = gi * scale ), so     *)
(* ds(h)^2 * scale = Q(h) is an integer and the test `ds < dsmax` is       *)
(* Q(h) < L.  The harness calls the code with dsmax^2 = (L - 1/2)/scale    *)
(* (half-integer margin: no floating point tie decides membership), or     *)
(* - in the TIE configuration, dyadic diagonal forms only, where the       *)
(* code's own arithmetic is exact - with dsmax^2 = L/scale exactly.        *)
(*                                                                         *)
(* VARIABLES  G, L, cen : the instance (form, limit, centring letter)      *)
(*   h,k,l,hs,ks,ls,b  : the seven variables of the loop nest              *)
(*   pc    : "H" "K" "L" loop heads, "afterL" "afterK" loop tails,         *)
(*           "sort", "oracle" (ghost), "done"; "big" (SpecBig only)        *)
(*   sphere : ghost, all non-zero hkl with Q < L (set at "oracle")         *)
(*   hits  : every in-range hkl in visiting order as <<h,k,l,p>>, p = 1    *)
(*           when the code appended it to `peaks`, 0 when `absent` said no *)
(*   nvis, vh : number of ds() evaluations and a rolling checksum of the   *)
(*           visited hkl sequence (bound to the code's ds() call trace)    *)
(*   sorted : model of `peaks.sort()` (by Q then hkl tuple)                *)
(*                                                                         *)
(* ACTIONS  one per branch of the loop nest, named after the branch:       *)
(*   HEnter HExhaust | KEnter KExhaust | LHitPresent LHitAbsent LFlip      *)
(*   LBreak LExhaust | KNext KFlip KBreak | HNext HFlip HBreak | Sort      *)
(*   | Oracle (ghost: evaluates the brute-force sphere once)               *)
(*                                                                         *)
(* PROPERTY (stated independently, textbook centring rules, brute force    *)
(* over the Cauchy-Schwarz box that contains the ellipsoid):               *)
(*   Complete, Sound, NoDup, Sorted  at pc = "done".                       *)
(* The walk as written in the code does NOT satisfy Complete: for oblique  *)
(* forms, for hexagonal metrics at some limits (loses (-2,1,l)) and for    *)
(* right-angled cells whose a axis is the long one (the h = 0 plane or a   *)
(* k = +-1 row is empty while larger h still has reflections); and the     *)
(* table binds "A" to the I rule.  TLC reports these as counterexamples    *)
(* (HklWalk_prop.cfg); OrthComplete (HklWalk_orth.cfg) is the positive     *)
(* theorem: right-angled with a <= b is complete.  The invariants that do  *)
(* hold for the model (WalkInv) are checked in every configuration.        *)
(* BoxInv proves, on the same instances, that enumeration over the         *)
(* bounding box |h_i| <= floor(dsmax * a_i) (the repair, since adopted in  *)
(* /repo: gethkls at HEAD is this enumeration; algo "box" in the harness)  *)
(* finds exactly the brute-force set.                                      *)
(*                                                                         *)
(* BIG INSTANCES (SpecBig, HklWalk_big_*.cfg).  The small forms above      *)
(* produce candidate boxes of at most a few thousand hkl; code paths that  *)
(* depend on SIZE (number of candidates (2hmax+1)(2kmax+1)(2lmax+1), list  *)
(* length, |h|,|k|,|l| beyond 127 and up to the documented cap 199, number *)
(* of rings) are out of their reach.  BigCases is a set of <<form, limit,  *)
(* centring>> with boxes of 1.1e5 .. 2.0e6 candidates: cubic, orthorhombic,*)
(* long-axis (an index reaches +-199 on each axis in turn), hexagonal,     *)
(* monoclinic, rhombohedral (acute and obtuse) and triclinic metrics.      *)
(* For these the loop nest is not stepped through; the single action       *)
(* BigRun stands for the whole enumeration and the model is the candidate  *)
(* box of the code at HEAD (hmax = min(int(dsmax a),199), ..., origin      *)
(* skipped, `outif` table).  TLC evaluates, with exact integers,           *)
(*   BigBoxInv : the box enumeration yields the brute-force set (count and *)
(*               identity checksum over the Cauchy-Schwarz box agree),     *)
(*   EmitBig   : count, two checksums and (up to 1.2e6 candidates) the     *)
(*               number of Q shells of the textbook brute-force set.       *)
(* The harness judges the real list against its own vectorised brute force *)
(* (complete, sound, no duplicates, ascending, no (0,0,0), ds = |B.hkl|)   *)
(* which must reproduce the numbers emitted here, and the ring tables made *)
(* from these lists (rings = Q shells for a tolerance below every gap).    *)
(*                                                                         *)
(* OUT OF THIS MODULE'S REACH (covered elsewhere in the C03 check):         *)
(*  - the object state (limit, peaks, ring table) under histories of       *)
(*    public calls, calls left by an exception and re-entrant requests     *)
(*    included: specs/HklObject.tla (this module models ONE call);         *)
(*  - NEAR-degenerate metrics (angles 1e-4 .. 0.05 degrees off 90 / 120,   *)
(*    edges 1e-6 relative off each other, at edges up to 30 A): an integer *)
(*    form with such ratios does not fit 32 bits; the harness judges these *)
(*    float cells against its own reciprocal metric at a tolerance         *)
(*    relative to d-star (c03_lib.near_cells / judge_float_list).          *)
(*                                                                         *)
(* BOUNDS   Forms / Limits / Centrings are chosen in the .cfg files        *)
(* (quick: diagonal 1..3, off-diagonal -1..1; thorough: 1..4 / -2..2;      *)
(* named lattices; TIE: dyadic diagonal; CAP: the |l| < 200 guard;         *)
(* BIG: BigQuick = one or two centrings per form, BigThorough = all 7).    *)
(* HMAX = 200 as in the code.                                              *)
(***************************************************************************)
EXTENDS Integers, Sequences, FiniteSets, FiniteSetsExt, TLC, Json

CONSTANTS HMAX,        \* 200 in the code
          Forms, Limits, Centrings,
          Outif,       \* centring letter -> name of the rule the code applies
          TIE,         \* TRUE: the harness passes dsmax^2 = L/scale exactly
          ORACLE,      \* FALSE only in the CAP configuration (numbers beyond 32 bit): no brute force
          BigCases     \* set of <<form, limit, centring>> for SpecBig ({} in the walk configurations)

VARIABLES G, L, cen, h, k, l, hs, ks, ls, b, pc, hits, nvis, vh, sorted, sphere
vars == <<G, L, cen, h, k, l, hs, ks, ls, b, pc, hits, nvis, vh, sorted, sphere>>

Abs(x) == IF x < 0 THEN -x ELSE x

(* ---------------- quadratic form, positive definiteness, adjugate ----------------- *)
Q(g, x, y, z) == g[1]*x*x + g[2]*y*y + g[3]*z*z + 2*g[4]*y*z + 2*g[5]*x*z + 2*g[6]*x*y
Det(g) == g[1]*(g[2]*g[3] - g[4]*g[4]) - g[6]*(g[6]*g[3] - g[4]*g[5]) + g[5]*(g[6]*g[4] - g[2]*g[5])
PD(g) == g[1] > 0 /\ g[1]*g[2] - g[6]*g[6] > 0 /\ Det(g) > 0
\* diagonal of the adjugate: direct metric = Adj/Det * scale, so a_i^2 = scale*AdjD(g)[i]/Det(g)
AdjD(g) == << g[2]*g[3] - g[4]*g[4], g[1]*g[3] - g[5]*g[5], g[1]*g[2] - g[6]*g[6] >>
\* off-diagonal adjugate entries 23, 13, 12 (direct-cell angle cosines)
AdjO(g) == << g[5]*g[6] - g[1]*g[4], g[4]*g[6] - g[2]*g[5], g[4]*g[5] - g[3]*g[6] >>

RECURSIVE GCD(_, _)
GCD(x, y) == IF y = 0 THEN x ELSE GCD(y, x % y)            \* arguments >= 0
GCD6(a1, a2, a3, a4, a5, a6) == GCD(GCD(GCD(Abs(a1), Abs(a2)), GCD(Abs(a3), Abs(a4))), GCD(Abs(a5), Abs(a6)))

\* The property is quantified over cells with angles in [55,125] degrees and edges in [2,30] A.
\* cos^2(55 deg) = 0.32898...; 328/1000 is just inside.  Edge ratio <= sqrt(200) < 15 so a scale exists.
\* (homogeneous in the adjugate: its entries are divided by their common factor first, 32-bit safety)
InDomain(g) ==
  LET c == GCD6(AdjD(g)[1], AdjD(g)[2], AdjD(g)[3], AdjO(g)[1], AdjO(g)[2], AdjO(g)[3])
      d == << AdjD(g)[1] \div c, AdjD(g)[2] \div c, AdjD(g)[3] \div c >>
      o == << AdjO(g)[1] \div c, AdjO(g)[2] \div c, AdjO(g)[3] \div c >> IN
  /\ o[1]*o[1]*1000 <= 328*d[2]*d[3]
  /\ o[2]*o[2]*1000 <= 328*d[1]*d[3]
  /\ o[3]*o[3]*1000 <= 328*d[1]*d[2]
  /\ \A i, j \in 1..3 : d[i] <= 200*d[j]

(* ---------------- instance families (selected by `Forms <- ...` in the cfg) -------- *)
Family(dhi, off) == { g \in (1..dhi) \X (1..dhi) \X (1..dhi) \X (-off..off) \X (-off..off) \X (-off..off) : PD(g) }
FormsQuick    == Family(3, 1)
FormsThorough == Family(4, 2)
\* named lattices (reciprocal metric, integer): cubic, tetragonal, orthorhombic, hexagonal
\* (gamma* = 60), monoclinic-b, rhombohedral (alpha* = 60 and obtuse), triclinic
FormsNamed == { <<1,1,1,0,0,0>>, <<2,2,1,0,0,0>>, <<1,1,3,0,0,0>>, <<1,2,3,0,0,0>>, <<3,4,5,0,0,0>>,
                <<2,2,1,0,0,1>>, <<2,2,3,0,0,1>>, <<4,4,1,0,0,2>>, <<2,2,5,0,0,-1>>,
                <<2,3,4,0,1,0>>, <<3,2,5,0,-1,0>>, <<4,3,5,0,2,0>>,
                <<2,2,2,1,1,1>>, <<3,3,3,-1,-1,-1>>, <<4,4,4,1,1,1>>,
                <<3,4,5,1,-1,1>>, <<4,5,6,-2,1,-1>>, <<5,4,3,1,2,-1>> }
\* dyadic diagonal forms: cells with edges 16, 8, 4 A at scale 256 (exact in double precision)
FormsTie == { <<p, q, r, 0, 0, 0>> : p, q, r \in {1, 4, 16} }
\* one instance that reaches the `abs(l) < 200` guard: c* tiny, a* = b* large
FormsCap == { <<40000, 40000, 1, 0, 0, 0>> }
\* right-angled and hexagonal-like metrics for the positive theorems (HklWalk_orth.cfg)
FormsOrth == { g \in Family(6, 3) : g[4] = 0 /\ g[5] = 0 /\ (g[6] = 0 \/ (g[1] = g[2] /\ g[1] = 2*g[6])) }

(* ---------------- absence rules (unitcell.py:77-102), by rule name ------------------ *)
Rule(r, x, y, z) ==
  CASE r = "P" -> FALSE
    [] r = "A" -> (y + z) % 2 # 0
    [] r = "B" -> (x + z) % 2 # 0
    [] r = "C" -> (x + y) % 2 # 0
    [] r = "I" -> (x + y + z) % 2 # 0
    [] r = "F" -> (x + y) % 2 # 0 \/ (x + z) % 2 # 0 \/ (y + z) % 2 # 0
    [] r = "R" -> (-x + y + z) % 3 # 0
AllLetters == {"P", "A", "B", "C", "I", "F", "R"}
\* the table as bound at the pinned commit (unitcell.py:105-112) and as it should be
OutifPinned   == [c \in AllLetters |-> IF c = "A" THEN "I" ELSE c]
OutifTextbook == [c \in AllLetters |-> c]
CodeAbsent(c, x, y, z) == Rule(Outif[c], x, y, z)      \* what the code does
Allowed(c, x, y, z) == ~Rule(c, x, y, z)               \* what the property says (textbook)

(* ---------------- the walk (unitcell.py:432-476) --------------------------------------- *)
Code(x, y, z) == ((x + HMAX)*(2*HMAX + 1) + (y + HMAX))*(2*HMAX + 1) + (z + HMAX)
Visit == /\ nvis' = nvis + 1
         /\ vh' = (vh*31 + Code(h, k, l)) % 1000003
InRange == Q(G, h, k, l) < L

Init == /\ G \in Forms /\ L \in Limits /\ cen \in Centrings
        /\ h = 0 /\ k = 0 /\ l = 1            \* skip 0,0,0
        /\ hs = 1 /\ ks = 1 /\ ls = 1 /\ b = 0
        /\ pc = "H" /\ hits = <<>> /\ nvis = 0 /\ vh = 0 /\ sorted = <<>> /\ sphere = {}

Inst == <<G, L, cen>>

\* while abs(h) < 200:
HEnter   == /\ pc = "H" /\ Abs(h) < HMAX /\ pc' = "K"
            /\ UNCHANGED <<Inst, h, k, l, hs, ks, ls, b, hits, nvis, vh, sorted, sphere>>
HExhaust == /\ pc = "H" /\ ~(Abs(h) < HMAX) /\ pc' = "sort"
            /\ UNCHANGED <<Inst, h, k, l, hs, ks, ls, b, hits, nvis, vh, sorted, sphere>>
\* while abs(k) < 200:
KEnter   == /\ pc = "K" /\ Abs(k) < HMAX /\ pc' = "L"
            /\ UNCHANGED <<Inst, h, k, l, hs, ks, ls, b, hits, nvis, vh, sorted, sphere>>
KExhaust == /\ pc = "K" /\ ~(Abs(k) < HMAX) /\ pc' = "afterK"
            /\ UNCHANGED <<Inst, h, k, l, hs, ks, ls, b, hits, nvis, vh, sorted, sphere>>
\* while abs(l) < 200:  ds < dsmax, not absent -> append ; b = 0 ; l = l + ls
LHitPresent == /\ pc = "L" /\ Abs(l) < HMAX /\ InRange /\ ~CodeAbsent(cen, h, k, l)
               /\ hits' = Append(hits, <<h, k, l, 1>>) /\ b' = 0 /\ l' = l + ls /\ Visit
               /\ UNCHANGED <<Inst, h, k, hs, ks, ls, pc, sorted, sphere>>
\* ds < dsmax, absent -> pass ; b = 0 ; l = l + ls
LHitAbsent  == /\ pc = "L" /\ Abs(l) < HMAX /\ InRange /\ CodeAbsent(cen, h, k, l)
               /\ hits' = Append(hits, <<h, k, l, 0>>) /\ b' = 0 /\ l' = l + ls /\ Visit
               /\ UNCHANGED <<Inst, h, k, hs, ks, ls, pc, sorted, sphere>>
\* ds >= dsmax, ls == 1 -> ls = -1 ; l = 0 ; (l = l + ls)
LFlip  == /\ pc = "L" /\ Abs(l) < HMAX /\ ~InRange /\ ls = 1
          /\ ls' = -1 /\ l' = 0 + (-1) /\ Visit
          /\ UNCHANGED <<Inst, h, k, hs, ks, b, pc, hits, sorted, sphere>>
\* ds >= dsmax, ls == -1 -> ls = 1 ; l = 0 ; b = b + 1 ; break
LBreak == /\ pc = "L" /\ Abs(l) < HMAX /\ ~InRange /\ ls = -1
          /\ ls' = 1 /\ l' = 0 /\ b' = b + 1 /\ pc' = "afterL" /\ Visit
          /\ UNCHANGED <<Inst, h, k, hs, ks, hits, sorted, sphere>>
\* loop condition abs(l) < 200 false: fall out of the L loop, l and ls keep their values
LExhaust == /\ pc = "L" /\ ~(Abs(l) < HMAX) /\ pc' = "afterL"
            /\ UNCHANGED <<Inst, h, k, l, hs, ks, ls, b, hits, nvis, vh, sorted, sphere>>
\* k = k + ks ; if b > 1: ...
KNext  == /\ pc = "afterL" /\ ~(b > 1) /\ k' = k + ks /\ pc' = "K"
          /\ UNCHANGED <<Inst, h, l, hs, ks, ls, b, hits, nvis, vh, sorted, sphere>>
KFlip  == /\ pc = "afterL" /\ b > 1 /\ ks = 1 /\ ks' = -1 /\ k' = -1 /\ pc' = "K"
          /\ UNCHANGED <<Inst, h, l, hs, ls, b, hits, nvis, vh, sorted, sphere>>
KBreak == /\ pc = "afterL" /\ b > 1 /\ ks = -1 /\ ks' = 1 /\ k' = 0 /\ b' = b + 1 /\ pc' = "afterK"
          /\ UNCHANGED <<Inst, h, l, hs, ls, hits, nvis, vh, sorted, sphere>>
\* h = h + hs ; if b > 3: ...
HNext  == /\ pc = "afterK" /\ ~(b > 3) /\ h' = h + hs /\ pc' = "H"
          /\ UNCHANGED <<Inst, k, l, hs, ks, ls, b, hits, nvis, vh, sorted, sphere>>
HFlip  == /\ pc = "afterK" /\ b > 3 /\ hs = 1 /\ hs' = -1 /\ h' = -1 /\ pc' = "H"
          /\ UNCHANGED <<Inst, k, l, ks, ls, b, hits, nvis, vh, sorted, sphere>>
HBreak == /\ pc = "afterK" /\ b > 3 /\ hs = -1 /\ hs' = 1 /\ h' = 0 /\ pc' = "sort"
          /\ UNCHANGED <<Inst, k, l, ks, ls, b, hits, nvis, vh, sorted, sphere>>

(* peaks.sort(): [ds, (h,k,l)] lists compare by ds, then by the tuple *)
T3(x) == <<x[1], x[2], x[3]>>
QT(x) == Q(G, x[1], x[2], x[3])
TupLess(a, c) == \/ a[1] < c[1]
                 \/ a[1] = c[1] /\ a[2] < c[2]
                 \/ a[1] = c[1] /\ a[2] = c[2] /\ a[3] < c[3]
RECURSIVE SortSet(_)
SortSet(S) == IF S = {} THEN <<>>
              ELSE LET m == CHOOSE x \in S : \A y \in S : y = x \/ TupLess(x, y)
                   IN <<m>> \o SortSet(S \ {m})
Peaks == SelectSeq(hits, LAMBDA x : x[4] = 1)              \* the list the code appended
PeakSet == { T3(hits[i]) : i \in { j \in 1..Len(hits) : hits[j][4] = 1 } }
HitSet  == { T3(hits[i]) : i \in 1..Len(hits) }            \* in range and visited, centring ignored
RECURSIVE SortByQ(_)      \* shell of smallest Q first, tuples ascending inside a shell
SortByQ(S) == IF S = {} THEN <<>>
              ELSE LET qs == { QT(x) : x \in S }
                       q  == CHOOSE v \in qs : \A w \in qs : v <= w
                       sh == { x \in S : QT(x) = q }
                   IN SortSet(sh) \o SortByQ(S \ sh)
Sort == /\ pc = "sort" /\ pc' = "oracle"
        /\ sorted' = SortByQ(PeakSet)
        /\ UNCHANGED <<Inst, h, k, l, hs, ks, ls, b, hits, nvis, vh, sphere>>

(* Ghost step (not code): evaluate the brute-force oracle once and keep it in `sphere`, so that
   the invariants at "done" share it.  The box is the Cauchy-Schwarz bound
   x_i^2 <= Q(x) (G^-1)_ii = Q(x) AdjD_i / Det with Q <= L - 1; the harness re-derives the set
   over a fixed larger cube for every emitted case. *)
ISqrt(num, den) == CHOOSE n \in 0..(2*HMAX) : n*n*den <= num /\ (n + 1)*(n + 1)*den > num
\* AdjD_i / Det in lowest terms (keeps limit * numerator inside 32 bits for the BIG instances)
Frac(i) == LET d == GCD(AdjD(G)[i], Det(G)) IN << AdjD(G)[i] \div d, Det(G) \div d >>
LB == IF TIE THEN L ELSE L - 1          \* TIE: also collect the points exactly on the limit
Bnd(i) == ISqrt(LB*Frac(i)[1], Frac(i)[2])
InSphere == { x \in (-Bnd(1)..Bnd(1)) \X (-Bnd(2)..Bnd(2)) \X (-Bnd(3)..Bnd(3)) :
                x # <<0, 0, 0>> /\ QT(x) <= LB }
Oracle == /\ pc = "oracle" /\ pc' = "done" /\ sphere' = IF ORACLE THEN InSphere ELSE {}
          /\ UNCHANGED <<Inst, h, k, l, hs, ks, ls, b, hits, nvis, vh, sorted>>

Next == \/ HEnter \/ HExhaust \/ KEnter \/ KExhaust
        \/ LHitPresent \/ LHitAbsent \/ LFlip \/ LBreak \/ LExhaust
        \/ KNext \/ KFlip \/ KBreak \/ HNext \/ HFlip \/ HBreak \/ Sort \/ Oracle
Spec == Init /\ [][Next]_vars

(* ---------------- the property, stated without reference to the walk ------------------- *)
Brute == { x \in sphere : QT(x) < L /\ Allowed(cen, x[1], x[2], x[3]) }          \* textbook
BruteCode == { x \in sphere : QT(x) < L /\ ~CodeAbsent(cen, x[1], x[2], x[3]) }  \* under the code's table
\* TIE configuration: points exactly on the limit (excluded: "below the limit" is strict).  The
\* code's arithmetic is exact for them only when they lie on an axis (cos(90 deg) is 6e-17, not 0).
TiePts == { x \in sphere : QT(x) = L }
Axial(x) == Cardinality({ i \in 1..3 : x[i] # 0 }) = 1
Done == pc = "done"
Complete == Done => Brute \subseteq PeakSet
Sound    == Done => PeakSet \subseteq Brute
NoDup    == Done => Len(Peaks) = Cardinality(PeakSet)
Sorted   == Done => /\ Len(sorted) = Len(Peaks)
                    /\ \A i \in 1..(Len(sorted) - 1) : QT(sorted[i]) <= QT(sorted[i + 1])
\* restricted forms of the property for the positive theorems
IsDiag(g) == g[4] = 0 /\ g[5] = 0 /\ g[6] = 0
PropertyHolds == Complete /\ Sound /\ NoDup /\ Sorted
\* Candidate theorems for HklWalk_orth.cfg (textbook table): where IS the walk complete?
\* OrthAny is false (TLC: G = <<1,3,3,0,0,0>>, L = 3 loses (1,0,0); <<1,9,9,0,0,0>>, L = 10 loses
\* (2,0,0),(3,0,0)): a long a axis defeats the early-exit counters even at right angles.
OrthAny      == IsDiag(G) => PropertyHolds
\* a* >= b* (a <= b): rows and planes empty out monotonically, the exits are harmless
OrthComplete == (IsDiag(G) /\ G[1] >= G[2]) => PropertyHolds
\* hexagonal metric (gamma* = 60 degrees) <<2n,2n,m,0,0,n>>: FALSE as well - TLC: <<4,4,4,0,0,2>>,
\* L = 15 (and <<2,2,5,0,0,1>>, L = 8) lose (-2,1,0).  Kept as a documented non-theorem.
HexComplete  == (G[4] = 0 /\ G[5] = 0 /\ G[1] = G[2] /\ G[1] = 2*G[6]) => PropertyHolds

(* ---------------- invariants the walk model itself satisfies --------------------------- *)
TypeOK == /\ h \in -HMAX..HMAX /\ k \in -HMAX..HMAX /\ l \in -HMAX..HMAX
          /\ hs \in {-1, 1} /\ ks \in {-1, 1} /\ ls \in {-1, 1} /\ b \in 0..12
          /\ pc \in {"H", "K", "L", "afterL", "afterK", "sort", "oracle", "big", "done"}
\* TypeOK in every state; the rest once per instance at "done" (hits only grows, so checking the
\* final sequence covers every prefix)
WalkInv == /\ TypeOK
           /\ pc \in {"afterL", "afterK", "sort", "oracle", "done"} => (Abs(l) < HMAX => l = 0)   \* "l is always zero here"
           /\ Done =>
                \* everything recorded is in range, non-zero, and flagged as the code's table says
                /\ \A i \in 1..Len(hits) :
                      LET x == hits[i] IN /\ QT(x) < L /\ T3(x) # <<0, 0, 0>>
                                          /\ (x[4] = 1) = ~CodeAbsent(cen, x[1], x[2], x[3])
                \* no hkl is visited twice
                /\ Cardinality(HitSet) = Len(hits)
                /\ Len(sorted) = Len(Peaks)
                /\ { sorted[i] : i \in 1..Len(sorted) } = PeakSet

(* ---------------- the proposed repair: enumerate the bounding box ---------------------- *)
\* hm_i = min(int(dsmax * a_i), 199) with (dsmax a_i)^2 = (2L-1) AdjD_i / (2 Det)   [TIE: L AdjD_i / Det]
BoxNum(i) == IF TIE THEN L*Frac(i)[1] ELSE (2*L - 1)*Frac(i)[1]
BoxDen(i) == IF TIE THEN Frac(i)[2] ELSE 2*Frac(i)[2]
BoxHalf(i) == LET n == ISqrt(BoxNum(i), BoxDen(i)) IN IF n > HMAX - 1 THEN HMAX - 1 ELSE n
BoxTie == \E i \in 1..3 : LET n == ISqrt(BoxNum(i), BoxDen(i)) IN n*n*BoxDen(i) = BoxNum(i)
BoxGot == { x \in (-BoxHalf(1)..BoxHalf(1)) \X (-BoxHalf(2)..BoxHalf(2)) \X (-BoxHalf(3)..BoxHalf(3)) :
              x # <<0, 0, 0>> /\ QT(x) < L /\ ~CodeAbsent(cen, x[1], x[2], x[3]) }
\* checked only at "done" (once per instance): the box enumeration finds exactly the brute-force set
BoxInv == Done => BoxGot = BruteCode

(* ---------------- BIG instances: size-dependent code paths (SpecBig) ------------------- *)
\* <<reciprocal form, limit>>; candidate boxes (2hmax+1)(2kmax+1)(2lmax+1) in brackets
BigTable == { << <<1, 1, 1, 0, 0, 0>>, 1089 >>,           \* cubic, 30 A at d* < 1.1        [65^3 = 2.7e5]
              << <<1, 1, 1, 0, 0, 0>>, 3970 >>,           \* cubic                          [127^3 = 2.0e6]
              << <<1, 2, 3, 0, 0, 0>>, 4540 >>,           \* orthorhombic                   [135.95.77 = 9.9e5]
              << <<1, 9, 25, 0, 0, 0>>, 4000 >>,          \* orthorhombic, long a           [127.43.25 = 1.4e5]
              << <<1, 200, 200, 0, 0, 0>>, 39800 >>,      \* h reaches +-199                [399.29.29 = 3.4e5]
              << <<200, 1, 200, 0, 0, 0>>, 39800 >>,      \* k reaches +-199
              << <<180, 180, 1, 0, 0, 90>>, 39800 >>,     \* hexagonal, l reaches +-199     [35.35.399 = 4.9e5]
              << <<4, 4, 1, 0, 0, 2>>, 3700 >>,           \* hexagonal                      [71.71.121 = 6.1e5]
              << <<2, 3, 4, 0, 1, 0>>, 1600 >>,           \* monoclinic                     [61.47.43 = 1.2e5]
              << <<3, 3, 3, -1, -1, -1>>, 2900 >>,        \* rhombohedral, alpha = 60       [77^3 = 4.6e5]
              << <<2, 2, 2, 1, 1, 1>>, 1500 >>,           \* rhombohedral, alpha = 109.5    [67^3 = 3.0e5]
              << <<4, 5, 6, -2, 1, -1>>, 6000 >>,         \* triclinic                      [4.2e5]
              << <<7, 9, 11, -3, 2, -4>>, 7000 >>  }      \* triclinic                      [2.7e5]
BigNone     == {}
BigThorough == { <<p[1], p[2], c>> : p \in BigTable, c \in AllLetters }
\* quick tier: every centring at least once on a box > 2e5, every metric class, all three axes
BigQuick == { << <<1, 1, 1, 0, 0, 0>>, 1089, "F" >>,  << <<1, 1, 1, 0, 0, 0>>, 3970, "I" >>,
              << <<1, 2, 3, 0, 0, 0>>, 4540, "C" >>,  << <<1, 200, 200, 0, 0, 0>>, 39800, "A" >>,
              << <<200, 1, 200, 0, 0, 0>>, 39800, "I" >>, << <<180, 180, 1, 0, 0, 90>>, 39800, "P" >>,
              << <<4, 4, 1, 0, 0, 2>>, 3700, "R" >>,  << <<2, 3, 4, 0, 1, 0>>, 1600, "R" >>,
              << <<3, 3, 3, -1, -1, -1>>, 2900, "B" >>, << <<4, 5, 6, -2, 1, -1>>, 6000, "F" >>,
              << <<7, 9, 11, -3, 2, -4>>, 7000, "P" >> }

InitBig == /\ \E c \in BigCases : G = c[1] /\ L = c[2] /\ cen = c[3]
           /\ h = 0 /\ k = 0 /\ l = 0 /\ hs = 1 /\ ks = 1 /\ ls = 1 /\ b = 0
           /\ pc = "big" /\ hits = <<>> /\ nvis = 0 /\ vh = 0 /\ sorted = <<>> /\ sphere = {}
\* the whole enumeration in one step (nothing of the instance changes; the sets are evaluated,
\* by counting, in the invariants below)
BigRun == /\ pc = "big" /\ pc' = "done"
          /\ UNCHANGED <<Inst, h, k, l, hs, ks, ls, b, hits, nvis, vh, sorted, sphere>>
SpecBig == InitBig /\ [][BigRun]_vars

\* One pass over a box bx = <<hmax, kmax, lmax>>: for every row (x, y, .) the members are filtered once
\* (Q(x,y,z) = c0 + z (g33 z + c1), the row constants c0, c1 are hoisted) and summarised as
\* <<count, sum of Q, sum of hkl codes>>; sums are taken modulo HP, row by row, so that no set of
\* 1e6 tuples is ever built and every intermediate number stays inside 32 bits.
HP == 1000003
NonZero(x, y, z) == ~(x = 0 /\ y = 0 /\ z = 0)
AbsBrute(x, y, z) == ~Allowed(cen, x, y, z)          \* the property: textbook rule of the named centring
AbsCode(x, y, z)  == CodeAbsent(cen, x, y, z)        \* the code's table
Row(x, y, bz, absent(_, _, _)) ==
  LET c0 == G[1]*x*x + G[2]*y*y + 2*G[6]*x*y
      c1 == 2*(G[4]*y + G[5]*x)
  IN { z \in (-bz)..bz : c0 + z*(G[3]*z + c1) < L /\ NonZero(x, y, z) /\ ~absent(x, y, z) }
RowSum(x, y, bz, absent(_, _, _)) ==
  LET row == Row(x, y, bz, absent)
  IN << Cardinality(row),
        FoldSet(LAMBDA z, a : a + Q(G, x, y, z), 0, row) % HP,
        FoldSet(LAMBDA z, a : a + (Code(x, y, z) % HP), 0, row) % HP >>
Add3(r, a) == << a[1] + r[1], (a[2] + r[2]) % HP, (a[3] + r[3]) % HP >>
BoxSum(bx, absent(_, _, _)) ==
  FoldSet(LAMBDA x, a1 : Add3(FoldSet(LAMBDA y, a2 : Add3(RowSum(x, y, bx[3], absent), a2),
                                      <<0, 0, 0>>, (-bx[2])..bx[2]), a1),
          <<0, 0, 0>>, (-bx[1])..bx[1])
\* number of distinct Q values (= number of shells = number of rings for a tolerance below every gap)
BoxShells(bx, absent(_, _, _)) ==
  Cardinality(UNION { UNION { { Q(G, x, y, z) : z \in Row(x, y, bx[3], absent) } : y \in (-bx[2])..bx[2] }
                      : x \in (-bx[1])..bx[1] })
SphereBox == <<Bnd(1), Bnd(2), Bnd(3)>>             \* Cauchy-Schwarz: contains every hkl with Q <= L - 1
CodeBox   == <<BoxHalf(1), BoxHalf(2), BoxHalf(3)>> \* what gethkls enumerates
IsBig == BigCases # {}
\* the enumeration over the code's box finds exactly what the brute force over the sphere box finds
\* (count and both checksums; when the two boxes coincide the two sides are the same expression)
BigBoxInv == (IsBig /\ Done) =>
   (CodeBox = SphereBox \/ BoxSum(CodeBox, AbsCode) = BoxSum(SphereBox, AbsCode))
EmitBig == ~(IsBig /\ Done) \/
  LET s == BoxSum(SphereBox, AbsBrute) IN
  PrintT("@@" \o ToJson(
     [ g |-> G, lim |-> L, cen |-> cen, tie |-> FALSE, big |-> TRUE, dom |-> InDomain(G), rule |-> Outif[cen],
       box |-> CodeBox, boxtie |-> BoxTie, bnd |-> SphereBox,
       nbox |-> (2*BoxHalf(1) + 1)*(2*BoxHalf(2) + 1)*(2*BoxHalf(3) + 1),
       nb  |-> s[1],                                  \* size of the brute-force set
       hq  |-> s[2],                                  \* sum of Q  (mod HP)
       hc  |-> s[3],                                  \* sum of the hkl codes (mod HP)
       \* number of shells (a second pass over the box: left to the harness alone, -1, beyond 1.2e6 candidates)
       nsh |-> IF (2*Bnd(1) + 1)*(2*Bnd(2) + 1)*(2*Bnd(3) + 1) > 1200000 THEN -1
               ELSE BoxShells(SphereBox, AbsBrute) ]))

(* ---------------- emission: one JSON record per finished walk -------------------------- *)
Emit == ~Done \/
  LET Br == Brute
      Ps == PeakSet
      Hs == HitSet
  IN PrintT("@@" \o ToJson(
          [ g |-> G, lim |-> L, cen |-> cen, tie |-> TIE, dom |-> InDomain(G),
            hits |-> hits, srt |-> sorted, nvis |-> nvis, vh |-> vh,
            nb |-> Cardinality(Br), miss |-> Br \ Ps, extra |-> Ps \ Br,
            lost |-> { x \in Br : x \notin Hs },    \* allowed, in range, never reached by the walk
            rule |-> Outif[cen], ntie |-> Cardinality(TiePts),
            tieaxial |-> \A x \in TiePts : Axial(x),
            box |-> <<BoxHalf(1), BoxHalf(2), BoxHalf(3)>>, boxtie |-> BoxTie ]))
\* CAP configuration (numbers too large for Det / Brute): the walk's own record only
EmitCap == ~Done \/ PrintT("@@" \o ToJson(
          [ g |-> G, lim |-> L, cen |-> cen, tie |-> TIE, cap |-> TRUE, rule |-> Outif[cen],
            hits |-> hits, srt |-> sorted, nvis |-> nvis, vh |-> vh ]))
=============================================================================

\* Strain.tla, machine HSpec, kind "map" only, both tiers: EVERY history of 3 operations on a TensorMap that may be
\* INCOMPLETE for a strain request (no phase_ids map / a phase_ids map of another shape / a phases entry that is no
\* unitcell: one dictionary each; a malformed UBI map assigned on the way), with the requests that RAISE (MReadFail), the
\* repairs (MRepair, MSetDz, MAssign) and the normal reads: the law "a request that raises leaves no trace".
\* Exhaustive; the harness replays the histories in which a request that raised is followed by one that is answered.
SPECIFICATION HSpec
CONSTANTS
  REFS <- RefsQ
  STRETCHES <- StretchQ
  ROTS <- RotsQ
  OBJROTS <- ObjRots
  OBJU0 <- ObjU0
  OBJU0R <- ObjU0R
  HKINDS <- HKindsMap
  HREFS <- HRefsQ
  HSTRETCHES <- HStretchQ
  HROTS <- HRotsQ
  HU0R <- HU0RAll
  HSCALES <- HScalesAll
  MTOUCHES <- MTouchNone
  MFAILS <- MFailAll
  GFAILS <- MFailNone
  HLEN = 2
  PHASEDICTS <- PhaseDictsFail
  NVER = 2
  MLEN = 4
INVARIANT MapExpCurrent
INVARIANT MapRepairedCurrent
INVARIANT MapNoTrace
INVARIANT MapRaisesIffBlocked
INVARIANT DzeroByKey
INVARIANT DzSourceOK
INVARIANT HEmit
CHECK_DEADLOCK FALSE

---------------------------- MODULE TraceIndexer ----------------------------
(***************************************************************************)
(* Trace validation (code -> spec) of ImageD11.indexing.indexer runs, C08. *)
(* Each line of TRACE_FILE is one recorded run on real g-vectors, through  *)
(* indexer.score_all_pairs (also with n / rmulmax / rings_to_use and       *)
(* repeated with other minpks / hkl_tol), indexing.index,                  *)
(* indexing.do_index, or a session on one indexer (readgvfile,             *)
(* assigntorings / find / scorethem by hand, pair loops, and between them  *)
(* saveindexing / fight_over_peaks / saveubis / reset):                    *)
(*   id, NP, unum/uden (uniqueness threshold), maxgrains,                  *)
(*   mode   "closest" (cosine_tol > 0) or "all" (cosine_tol < 0)           *)
(*   passes[k] = [minpks]  the minimum REQUESTED for pass k (from the      *)
(*          harness's plan, not read back from the object)                 *)
(*   ra[p]  ring of each peak (-1 none), ga0[p] initial grain assignment,  *)
(*   ev[k]  events                                                         *)
(*     [t |-> "pass", k]        pass k begins (index / do_index change      *)
(*            minpks and hkl_tol between pair loops on the same indexer)    *)
(*     [t |-> "sap", n, pairs, unordered]  a pair loop begins: pairs = the  *)
(*            ring pairs it may and (n = -1) must try, computed by the      *)
(*            harness from ra, its own ring multiplicities, rings_to_use    *)
(*            and rmulmax; unordered: do_index tries one order of each pair *)
(*     [t |-> "find", r1, r2, early, hits]   hits = <<i,j>> list produced   *)
(*     [t |-> "pop", i, j, kind, npk, sc, score, nind, nun, ind]            *)
(*            kind in skip/low/reject/accept as observed: no score call /   *)
(*            score call only / getind call without new grain / new grain;  *)
(*            npk = first score after the pop; sc = all scores taken for    *)
(*            this hit (first + re-orientation candidates); score = the     *)
(*            value appended to .scores on accept; nind, nun = peaks        *)
(*            indexed by getind and how many of them were unassigned;       *)
(*            ind = those peaks                                             *)
(*     [t |-> "end", left]                   scorethem returned             *)
(*     [t |-> "fight", fit, amb, ga, gas]    fight_over_peaks returned       *)
(*            (saveindexing calls it first): fit[p] = the accepted grains   *)
(*            whose lattice holds peak p within the hkl_tol in force, as    *)
(*            <<position in the accepted list, rank of its error on p>>     *)
(*            by the harness's OWN hkl errors on the reported matrices;     *)
(*            amb = peaks where two of those errors, or an error and the    *)
(*            tolerance, are too close to order in floating point;          *)
(*            ga, gas = indexer.ga / indexer.gas as observed afterwards     *)
(*     [t |-> "reset", ga, nubis, nscores, nhits]   indexer.reset()         *)
(*            returned (and, for an indexer built without g-vectors, the    *)
(*            file was read again): ga = indexer.ga, the numbers of          *)
(*            orientations, scores and hits held, as observed               *)
(*   gaF[p] final grain assignment, nubisF final number of grains,         *)
(*   scoresF final .scores                                                 *)
(* The actions are those of Indexer.tla with the abstract functions bound  *)
(* to the logged values: the SPECIFICATION decides what each pop must be   *)
(* (skip iff a peak is assigned or i = j; else low iff npk <= the minimum   *)
(* of the pass; else accept iff nun/nind > uniqueness), that hits are       *)
(* popped from the end, that find only offers unassigned peaks of the two   *)
(* rings (one partner per first peak in closest mode), that a pair loop     *)
(* tries only permitted ring pairs, each once, all of them unless n cuts    *)
(* it short and then not more than n + 1, that at most maxgrains are        *)
(* accepted per scorethem call, that the score stored for a grain is the    *)
(* best one taken, what ga / scores become, and that fight_over_peaks      *)
(* leaves every peak with the accepted grain that fits it best (the        *)
(* earlier one on a tie; numbered from 0 as the code does), with none iff  *)
(* no accepted grain indexes it, and gas = the peaks per grain             *)
(* (Indexer.tla Save / SaveOK, ScoreAssign.tla BestGrain), and that after  *)
(* reset() no peak has a grain and nothing is held (Indexer.tla Reset /    *)
(* ResetOK): the searches that follow are judged from that state.          *)
(* One verdict per trace, naming the failing clause.                       *)
(***************************************************************************)
EXTENDS Integers, Sequences, FiniteSets, TLC, Json, IOUtils

Trace == ndJsonDeserialize(IOEnv.TRACE_FILE)

VARIABLES t, e, ga, nub, hits, ng, inscore, why, pass, scores, call, tried
vars == <<t, e, ga, nub, hits, ng, inscore, why, pass, scores, call, tried>>

NoCall == [on |-> FALSE, n |-> -1, pairs |-> {}, unordered |-> FALSE, nfind |-> 0, stopped |-> FALSE, reached |-> FALSE]
Rec == Trace[t]
Start(r) == /\ ga' = r.ga0 /\ nub' = r.nubis0 /\ hits' = <<>> /\ ng' = 0 /\ inscore' = FALSE
            /\ pass' = 1 /\ scores' = r.scores0 /\ call' = NoCall /\ tried' = {}

Init == /\ t = 1 /\ e = 0 /\ why = "ok"
        /\ ga = IF Len(Trace) > 0 THEN Trace[1].ga0 ELSE <<>>
        /\ nub = IF Len(Trace) > 0 THEN Trace[1].nubis0 ELSE 0
        /\ scores = IF Len(Trace) > 0 THEN Trace[1].scores0 ELSE <<>>
        /\ hits = <<>> /\ ng = 0 /\ inscore = FALSE /\ pass = 1 /\ call = NoCall /\ tried = {}

Ev == Rec.ev[e + 1]
Consume == e' = e + 1 /\ t' = t
MinP(r) == r.passes[pass].minpks
SeqMax(s) == CHOOSE x \in {s[k] : k \in 1..Len(s)} : \A k \in 1..Len(s) : s[k] <= x

\* ---- the pair loop ----------------------------------------------------------------------------
\* a loop that has ended: every permitted pair was tried, unless n cut it short (then at least n were tried)
Covered(pr) == pr \in tried \/ (call.unordered /\ <<pr[2], pr[1]>> \in tried)
CallDoneWhy == IF ~call.on THEN "ok"
               ELSE IF (\A pr \in call.pairs : Covered(pr)) THEN "ok"
               ELSE IF call.n < 0 THEN "the pair loop ended without trying every permitted ring pair"
               ELSE IF ~call.reached THEN "the pair loop ended before n ring pairs had been tried"
               ELSE "ok"
PassEv == /\ t <= Len(Trace) /\ e < Len(Rec.ev) /\ why = "ok" /\ Ev.t = "pass"
          /\ why' = IF Ev.k \notin 1..Len(Rec.passes) THEN "pass number outside the plan" ELSE CallDoneWhy
          /\ pass' = Ev.k /\ call' = NoCall /\ tried' = {}
          /\ UNCHANGED <<ga, nub, hits, ng, inscore, scores>> /\ Consume
SapEv == /\ t <= Len(Trace) /\ e < Len(Rec.ev) /\ why = "ok" /\ Ev.t = "sap"
         /\ why' = CallDoneWhy
         /\ call' = [on |-> TRUE, n |-> Ev.n, pairs |-> {<<Ev.pairs[k][1], Ev.pairs[k][2]>> : k \in 1..Len(Ev.pairs)},
                     unordered |-> Ev.unordered, nfind |-> 0, stopped |-> FALSE, reached |-> (Ev.n = 0)]
         /\ tried' = {}
         /\ UNCHANGED <<ga, nub, hits, ng, inscore, scores, pass>> /\ Consume

\* ---- find ---------------------------------------------------------------------------------
PairWhy(v) ==
  IF ~call.on THEN "ok"
  ELSE IF call.stopped THEN "the pair loop went on after more than n ring pairs"
  ELSE IF <<v.r1, v.r2>> \notin call.pairs /\ ~(call.unordered /\ <<v.r2, v.r1>> \in call.pairs)
       THEN "a ring pair outside rings_to_use / rmulmax / the rings holding peaks was tried"
  ELSE IF Covered(<<v.r1, v.r2>>) THEN "a ring pair was tried twice in one pair loop" ELSE "ok"
FindWhy(r, v) ==
  IF PairWhy(v) # "ok" THEN PairWhy(v)
  ELSE IF v.early
  THEN IF \E p \in 1..r.NP : r.ra[p] = v.r1 /\ ga[p] = -1
          /\ \E q \in 1..r.NP : r.ra[q] = v.r2 /\ ga[q] = -1
       THEN "find returned early although both rings have unassigned peaks" ELSE "ok"
  ELSE IF \E k \in 1..Len(v.hits) : r.ra[v.hits[k][1]] # v.r1 \/ r.ra[v.hits[k][2]] # v.r2
       THEN "find offers a peak that is not on the requested ring"
       ELSE IF \E k \in 1..Len(v.hits) : ga[v.hits[k][1]] # -1 \/ ga[v.hits[k][2]] # -1
       THEN "find offers a peak that is already assigned to a grain"
       ELSE IF r.mode = "closest" /\ \E k, m \in 1..Len(v.hits) : k # m /\ v.hits[k][1] = v.hits[m][1]
       THEN "closest-angle find offers two partners for one peak" ELSE "ok"
Find == /\ t <= Len(Trace) /\ e < Len(Rec.ev) /\ why = "ok" /\ Ev.t = "find"
        /\ why' = FindWhy(Rec, Ev)
        /\ hits' = IF Ev.early THEN hits ELSE Ev.hits   \* an early return leaves self.hits as it was
        /\ tried' = tried \cup {<<Ev.r1, Ev.r2>>}
        /\ call' = IF call.on THEN [call EXCEPT !.nfind = @ + 1, !.reached = (call.n >= 0 /\ call.nfind + 1 >= call.n)] ELSE call
        /\ UNCHANGED <<ga, nub, ng, inscore, pass, scores>> /\ Consume

\* ---- pop ----------------------------------------------------------------------------------
MustSkip(v) == ga[v.i] > -1 \/ ga[v.j] > -1 \/ v.i = v.j
Expected(r, v) == IF MustSkip(v) THEN "skip"
                  ELSE IF v.npk <= MinP(r) THEN "low"
                  ELSE IF v.nind > 0 /\ v.nun * r.uden > r.unum * v.nind THEN "accept" ELSE "reject"
PopWhy(r, v) ==
  IF Len(hits) = 0 THEN "a hit was popped from an empty hit list"
  ELSE IF hits[Len(hits)] # <<v.i, v.j>> THEN "the hit examined is not the last one of the hit list"
  ELSE IF ng >= r.maxgrains THEN "a hit was examined after max_grains grains had been accepted in this call"
  ELSE IF v.kind = "skip" /\ ~MustSkip(v) THEN "a usable hit (both peaks unassigned) was skipped"
  ELSE IF v.kind # "skip" /\ MustSkip(v) THEN "a hit with an assigned peak (or i = j) was not skipped"
  ELSE IF v.kind # Expected(r, v) THEN "decision " \o v.kind \o " differs from the specification's " \o Expected(r, v)
  ELSE IF v.kind = "accept" /\ v.nun # Cardinality({p \in 1..r.NP : p \in {v.ind[k] : k \in 1..Len(v.ind)} /\ ga[p] = -1})
       THEN "uniqueness was not computed from the current grain assignments"
  ELSE IF v.kind = "accept" /\ (Len(v.sc) = 0 \/ v.sc[1] # v.npk \/ v.score # SeqMax(v.sc))
       THEN "the score stored for an accepted grain is not the best score taken for its hit"
  ELSE IF v.kind = "accept" /\ v.score <= MinP(r) THEN "a grain was stored with a score that is not above the minimum of the pass"
  ELSE "ok"
Pop == /\ t <= Len(Trace) /\ e < Len(Rec.ev) /\ why = "ok" /\ Ev.t = "pop"
       /\ why' = PopWhy(Rec, Ev)
       /\ hits' = IF Len(hits) > 0 THEN SubSeq(hits, 1, Len(hits) - 1) ELSE hits
       /\ IF Ev.kind = "accept"
          THEN /\ ga' = [p \in 1..Rec.NP |-> IF p \in {Ev.ind[k] : k \in 1..Len(Ev.ind)} THEN nub + 1 ELSE ga[p]]
               /\ nub' = nub + 1 /\ ng' = ng + 1 /\ scores' = Append(scores, Ev.score)
          ELSE UNCHANGED <<ga, nub, ng, scores>>
       /\ inscore' = TRUE /\ UNCHANGED <<pass, call, tried>> /\ Consume

\* ---- fight_over_peaks (saveindexing) ------------------------------------------------------------
\* the competing-owner rule on the harness's ranked errors: smallest rank, the earlier grain on a tie; labels from 0
Win(s) == IF Len(s) = 0 THEN -1
          ELSE LET i == CHOOSE i \in 1..Len(s) : \A m \in 1..Len(s) :
                              s[i][2] < s[m][2] \/ (s[i][2] = s[m][2] /\ s[i][1] <= s[m][1])
               IN s[i][1] - 1
AmbSet(v) == {v.amb[k] : k \in 1..Len(v.amb)}
FightWhy(r, v) ==
  IF Len(v.ga) # r.NP \/ Len(v.fit) # r.NP THEN "fight_over_peaks left a grain assignment of the wrong length"
  ELSE IF \E p \in 1..r.NP : \E m \in 1..Len(v.fit[p]) : v.fit[p][m][1] \notin 1..nub
       THEN "fight_over_peaks was judged with a grain that was never accepted"
  ELSE IF \E p \in 1..r.NP : p \notin AmbSet(v) /\ v.ga[p] # Win(v.fit[p])
       THEN IF \E p \in 1..r.NP : p \notin AmbSet(v) /\ v.ga[p] = -1 /\ Win(v.fit[p]) # -1
            THEN "fight_over_peaks left a peak without a grain although an accepted grain indexes it"
            ELSE "fight_over_peaks did not give a peak to the accepted grain that fits it best"
  ELSE IF \E p \in AmbSet(v) : v.ga[p] # -1 /\ v.ga[p] \notin {v.fit[p][m][1] - 1 : m \in 1..Len(v.fit[p])}
       THEN "fight_over_peaks gave a peak to a grain that does not index it"
  ELSE IF Len(v.gas) # nub \/ \E k \in 1..nub : v.gas[k] # Cardinality({p \in 1..r.NP : v.ga[p] = k - 1})
       THEN "gas is not the number of peaks each grain holds after fight_over_peaks"
  ELSE "ok"
Fight == /\ t <= Len(Trace) /\ e < Len(Rec.ev) /\ why = "ok" /\ Ev.t = "fight"
         /\ why' = FightWhy(Rec, Ev)
         /\ ga' = IF Len(Ev.ga) = Rec.NP THEN Ev.ga ELSE ga
         /\ UNCHANGED <<nub, hits, ng, inscore, pass, scores, call, tried>> /\ Consume

\* ---- reset() (Indexer.tla Reset / ResetOK) ------------------------------------------------------
\* the object is as the constructor left it: no peak has a grain, no orientation / score / hit is held; the specification's
\* state goes there whatever was observed, so a search that still sees the old assignments is rejected at its next find
ResetWhy(r, v) ==
  IF CallDoneWhy # "ok" THEN CallDoneWhy
  ELSE IF Len(v.ga) # r.NP THEN "reset left a grain assignment of the wrong length"
  ELSE IF \E p \in 1..r.NP : v.ga[p] # -1 THEN "reset left peaks assigned to a grain"
  ELSE IF v.nubis # 0 \/ v.nscores # 0 THEN "reset left orientations or scores behind"
  ELSE IF v.nhits # 0 THEN "reset left a hit list behind"
  ELSE "ok"
ResetEv == /\ t <= Len(Trace) /\ e < Len(Rec.ev) /\ why = "ok" /\ Ev.t = "reset"
           /\ why' = ResetWhy(Rec, Ev)
           /\ ga' = [p \in 1..Rec.NP |-> -1] /\ nub' = 0 /\ scores' = <<>> /\ hits' = <<>> /\ ng' = 0 /\ inscore' = FALSE
           /\ call' = NoCall /\ tried' = {}
           /\ UNCHANGED pass /\ Consume

\* ---- end of scorethem -------------------------------------------------------------------------
End == /\ t <= Len(Trace) /\ e < Len(Rec.ev) /\ why = "ok" /\ Ev.t = "end"
       /\ why' = IF Len(hits) > 0 /\ ng < Rec.maxgrains THEN "scorethem returned with hits left and fewer than max_grains grains"
                 ELSE IF Ev.left # Len(hits) THEN "number of hits left differs from the specification's" ELSE "ok"
       /\ call' = IF call.on /\ call.n >= 0 /\ call.nfind > call.n THEN [call EXCEPT !.stopped = TRUE] ELSE call
       /\ ng' = 0 /\ inscore' = FALSE /\ UNCHANGED <<ga, nub, hits, pass, scores, tried>> /\ Consume

FinalWhy(r) == IF CallDoneWhy # "ok" THEN CallDoneWhy
               ELSE IF \E p \in 1..r.NP : ga[p] # r.gaF[p] THEN "final grain assignment differs from the specification's"
               ELSE IF nub # r.nubisF THEN "final number of grains differs from the specification's"
               ELSE IF scores # r.scoresF THEN "final scores differ from the specification's"
               ELSE IF Len(scores) # nub THEN "scores and ubis have different lengths"
               ELSE IF \E p \in 1..r.NP : ga[p] \notin -1..nub THEN "a peak is assigned to a grain that was never accepted"
               ELSE "ok"
Finish == /\ t <= Len(Trace) /\ (e = Len(Rec.ev) \/ why # "ok")
          /\ LET w == IF why # "ok" THEN why ELSE FinalWhy(Rec)
             IN PrintT("@@" \o ToJson([id |-> Rec.id, ok |-> (w = "ok"), why |-> w, consumed |-> e]))
          /\ t' = t + 1 /\ e' = 0 /\ why' = "ok"
          /\ IF t + 1 <= Len(Trace) THEN Start(Trace[t + 1])
             ELSE /\ ga' = <<>> /\ nub' = 0 /\ hits' = <<>> /\ ng' = 0 /\ inscore' = FALSE
                  /\ pass' = 1 /\ scores' = <<>> /\ call' = NoCall /\ tried' = {}

Next == Find \/ Pop \/ End \/ Fight \/ ResetEv \/ PassEv \/ SapEv \/ Finish
Spec == Init /\ [][Next]_vars
=============================================================================

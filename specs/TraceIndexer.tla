---------------------------- MODULE TraceIndexer ----------------------------
(***************************************************************************)
(* Trace validation (code -> spec) of ImageD11.indexing.indexer runs, C08. *)
(* Each line of TRACE_FILE is one recorded run of score_all_pairs / find + *)
(* scorethem on real g-vectors:                                            *)
(*   id, NP, minpks, unum/uden (uniqueness threshold), maxgrains,          *)
(*   ra[p]  ring of each peak (-1 none), ga0[p] initial grain assignment,  *)
(*   ev[k]  events                                                         *)
(*     [t |-> "find", r1, r2, early, hits]   hits = <<i,j>> list produced   *)
(*     [t |-> "pop", i, j, kind, npk, nind, nun, ind]                       *)
(*            kind in skip/low/reject/accept as observed: no score call /   *)
(*            score call only / getind call without new grain / new grain;  *)
(*            npk = first score after the pop; nind, nun = peaks indexed by *)
(*            getind and how many of them were unassigned; ind = those peaks*)
(*     [t |-> "end", left]                   scorethem returned             *)
(*   gaF[p] final grain assignment, nubis final number of grains           *)
(* The actions are those of Indexer.tla with the abstract functions bound  *)
(* to the logged values: the SPECIFICATION decides what each pop must be   *)
(* (skip iff a peak is assigned or i = j; else low iff npk <= minpks; else  *)
(* accept iff nun/nind > uniqueness), that hits are popped from the end,   *)
(* that find only offers unassigned peaks of the two rings, that at most   *)
(* maxgrains are accepted per scorethem call, and what ga becomes.         *)
(* One verdict per trace, naming the failing clause.                       *)
(***************************************************************************)
EXTENDS Integers, Sequences, FiniteSets, TLC, Json, IOUtils

Trace == ndJsonDeserialize(IOEnv.TRACE_FILE)

VARIABLES t, e, ga, nub, hits, ng, inscore, why
vars == <<t, e, ga, nub, hits, ng, inscore, why>>

Rec == Trace[t]
Start(r) == /\ ga' = r.ga0 /\ nub' = r.nubis0 /\ hits' = <<>> /\ ng' = 0 /\ inscore' = FALSE

Init == /\ t = 1 /\ e = 0 /\ why = "ok"
        /\ ga = IF Len(Trace) > 0 THEN Trace[1].ga0 ELSE <<>>
        /\ nub = IF Len(Trace) > 0 THEN Trace[1].nubis0 ELSE 0
        /\ hits = <<>> /\ ng = 0 /\ inscore = FALSE

Ev == Rec.ev[e + 1]
Consume == e' = e + 1 /\ t' = t

\* ---- find ---------------------------------------------------------------------------------
FindWhy(r, v) ==
  IF v.early
  THEN IF \E p \in 1..r.NP : r.ra[p] = v.r1 /\ ga[p] = -1
          /\ \E q \in 1..r.NP : r.ra[q] = v.r2 /\ ga[q] = -1
       THEN "find returned early although both rings have unassigned peaks" ELSE "ok"
  ELSE IF \E k \in 1..Len(v.hits) : r.ra[v.hits[k][1]] # v.r1 \/ r.ra[v.hits[k][2]] # v.r2
       THEN "find offers a peak that is not on the requested ring"
       ELSE IF \E k \in 1..Len(v.hits) : ga[v.hits[k][1]] # -1 \/ ga[v.hits[k][2]] # -1
       THEN "find offers a peak that is already assigned to a grain" ELSE "ok"
Find == /\ t <= Len(Trace) /\ e < Len(Rec.ev) /\ why = "ok" /\ Ev.t = "find"
        /\ why' = FindWhy(Rec, Ev)
        /\ hits' = IF Ev.early THEN hits ELSE Ev.hits
        /\ UNCHANGED <<ga, nub, ng, inscore>> /\ Consume

\* ---- pop ----------------------------------------------------------------------------------
MustSkip(v) == ga[v.i] > -1 \/ ga[v.j] > -1 \/ v.i = v.j
Expected(r, v) == IF MustSkip(v) THEN "skip"
                  ELSE IF v.npk <= r.minpks THEN "low"
                  ELSE IF v.nind > 0 /\ v.nun * r.uden > r.unum * v.nind THEN "accept" ELSE "reject"
PopWhy(r, v) ==
  IF Len(hits) = 0 THEN "a hit was popped from an empty hit list"
  ELSE IF hits[Len(hits)] # <<v.i, v.j>> THEN "the hit examined is not the last one of the hit list"
  ELSE IF ng >= r.maxgrains THEN "a hit was examined after max_grains grains had been accepted in this call"
  ELSE IF v.kind = "skip" /\ ~MustSkip(v) THEN "a usable hit (both peaks unassigned) was skipped"
  ELSE IF v.kind # "skip" /\ MustSkip(v) THEN "a hit with an assigned peak (or i = j) was not skipped"
  ELSE IF v.kind # Expected(r, v) THEN "decision " \o v.kind \o " differs from the specification's " \o Expected(r, v)
  ELSE IF v.kind = "accept" /\ v.nun # Cardinality({p \in 1..r.NP : p \in {v.ind[k] : k \in 1..Len(v.ind)} /\ ga[p] = -1})
       THEN "uniqueness was not computed from the current grain assignments" ELSE "ok"
Pop == /\ t <= Len(Trace) /\ e < Len(Rec.ev) /\ why = "ok" /\ Ev.t = "pop"
       /\ why' = PopWhy(Rec, Ev)
       /\ hits' = IF Len(hits) > 0 THEN SubSeq(hits, 1, Len(hits) - 1) ELSE hits
       /\ IF Ev.kind = "accept"
          THEN /\ ga' = [p \in 1..Rec.NP |-> IF p \in {Ev.ind[k] : k \in 1..Len(Ev.ind)} THEN nub + 1 ELSE ga[p]]
               /\ nub' = nub + 1 /\ ng' = ng + 1
          ELSE UNCHANGED <<ga, nub, ng>>
       /\ inscore' = TRUE /\ Consume

\* ---- end of scorethem -------------------------------------------------------------------------
End == /\ t <= Len(Trace) /\ e < Len(Rec.ev) /\ why = "ok" /\ Ev.t = "end"
       /\ why' = IF Len(hits) > 0 /\ ng < Rec.maxgrains THEN "scorethem returned with hits left and fewer than max_grains grains"
                 ELSE IF Ev.left # Len(hits) THEN "number of hits left differs from the specification's" ELSE "ok"
       /\ ng' = 0 /\ inscore' = FALSE /\ UNCHANGED <<ga, nub, hits>> /\ Consume

FinalWhy(r) == IF \E p \in 1..r.NP : ga[p] # r.gaF[p] THEN "final grain assignment differs from the specification's"
               ELSE IF nub # r.nubisF THEN "final number of grains differs from the specification's"
               ELSE IF \E p \in 1..r.NP : ~(ga[p] = -1 \/ ga[p] \in 1..nub) THEN "a peak is assigned to a grain that was never accepted"
               ELSE "ok"
Finish == /\ t <= Len(Trace) /\ (e = Len(Rec.ev) \/ why # "ok")
          /\ LET w == IF why # "ok" THEN why ELSE FinalWhy(Rec)
             IN PrintT("@@" \o ToJson([id |-> Rec.id, ok |-> (w = "ok"), why |-> w, consumed |-> e]))
          /\ t' = t + 1 /\ e' = 0 /\ why' = "ok"
          /\ IF t + 1 <= Len(Trace) THEN Start(Trace[t + 1])
             ELSE ga' = <<>> /\ nub' = 0 /\ hits' = <<>> /\ ng' = 0 /\ inscore' = FALSE

Next == Find \/ Pop \/ End \/ Finish
Spec == Init /\ [][Next]_vars
=============================================================================

SPECIFICATION Spec
CONSTANTS
  G = 2
  R = 2
  K = 1
  E = 3
  N = 2
  LInitU = TRUE
  LInitNN = {0, 1, 2}
  DInit = {3}
  EmitOn = TRUE
  GvLayouts = {"C", "F", "rows2", "cols2", "rev", "f32", "f32F", "i64", "i32F", "be", "unaligned", "readonly"}
  UbiLayouts = {"C", "F", "strided", "f32", "list", "i64"}
  Builds = {"indexer", "from_colfile", "from_colfile_and_ucell", "set_gv", "readgvfile"}
  Preps = {"direct", "rings"}
  Flatten = "wrapper"
INVARIANT LayoutBlind
INVARIANT ClosedForm
INVARIANT Counts
INVARIANT Represent
INVARIANT BestGrain
INVARIANT Unassigned
INVARIANT StoredError
INVARIANT ReturnedCounts
INVARIANT Histogram
INVARIANT Sane
INVARIANT OrderIndependent
INVARIANT Emit
CHECK_DEADLOCK FALSE

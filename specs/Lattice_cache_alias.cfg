SPECIFICATION Spec
CONSTANTS
  PART = "cache"
  CELLS <- CELLS_q
  GENS <- GENS_q
  ROTS <- ROTS_id
  MaxDepth = 6
  FORGET = {}
  NOCOPY = {}
  OBJ = "grain"
  ALIASARG = TRUE
  SAMEKEEP = FALSE
  UNWRITTEN = {}
  EmitMode = 0
INVARIANT Coherent
INVARIANT ReadFresh
INVARIANT DepClosed
INVARIANT CacheType
INVARIANT UbiOwn
VIEW View
CHECK_DEADLOCK FALSE

\* all laws to depth 3 on the model of the repaired code
SPECIFICATION Spec
CONSTANTS
  MaxDepth = 3
  DsNames = {"R180", "F2D", "E360"}
  StartForms = {"imported", "saved", "cached"}
  EmitMode = 3
  BUG_SINOHIST = FALSE
  BUG_LOAD360 = FALSE
  BUG_YSTEP = FALSE
  BUG_BADSCAN = FALSE
  BUG_SAVEDEF = FALSE
  BUG_SAVESHAPE = FALSE
  BUG_STALEBINS = FALSE
  BUG_COMPARE = FALSE
INVARIANT TypeOK
INVARIANT Partition
INVARIANT HistTotal
INVARIANT HistMatchesEdges
INVARIANT CentresAreMotors
INVARIANT SaveTotal
INVARIANT SaveTarget
INVARIANT BadScanBest
INVARIANT CompareSound
INVARIANT RoundTripAll
INVARIANT CacheNoMix
PROPERTY PathsKept
PROPERTY MonitorResets
PROPERTY DiskFrame
PROPERTY WellFormedAfter
VIEW View
CHECK_DEADLOCK FALSE

SPECIFICATION Spec
CONSTANTS
  M2CShapes = {}
  NnzExtra = {0}
  ParRows = FALSE
  CutShapes = {}
  CutVals = 1
  Cuts = {0}
  SortedGrid = 0
  SortedLen = 1
  SortShapes = {12}
  ThreshShapes = {}
  ThreshVals = 1
  ThreshNames = {"intensity", "labels"}
  FIXED = FALSE
  TDFIXED = TRUE
INVARIANT InBounds
INVARIANT SortTotal
INVARIANT DenseTotal
INVARIANT SortOK
CHECK_DEADLOCK FALSE

\* BIG instances, quick tier: candidate boxes of 1.2e5 .. 2.0e6 hkl, every centring, every metric class
SPECIFICATION SpecBig
CONSTANTS
  HMAX = 200
  Forms = {}
  Limits = {}
  Centrings = {}
  Outif <- OutifPinned
  TIE = FALSE
  ORACLE = TRUE
  BigCases <- BigQuick
INVARIANT TypeOK
INVARIANT BigBoxInv
INVARIANT EmitBig
CHECK_DEADLOCK FALSE

SPECIFICATION Spec
CONSTANTS
  PART = "alg"
  CELLS <- CELLS_t
  GENS <- GENS_t
  ROTS <- ROTS_t
  MaxDepth = 0
  FORGET = {}
  NOCOPY = {}
  OBJ = "grain"
  ALIASARG = FALSE
  SAMEKEEP = FALSE
  UNWRITTEN = {}
  EmitMode = 0
INVARIANT UOrtho
INVARIANT UDet
INVARIANT BUpperPos
INVARIANT BtB
INVARIANT B33
INVARIANT MtSym
INVARIANT MtRmt
INVARIANT RightHanded
INVARIANT MtFromUbi
INVARIANT UBxUBI
INVARIANT Cayley
INVARIANT RodLen
INVARIANT EmitAlg
CHECK_DEADLOCK FALSE

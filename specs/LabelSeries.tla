----------------------------- MODULE LabelSeries -----------------------------
(***************************************************************************)
(* ONE ImageD11.labelimage.labelimage object driven over a SERIES of       *)
(* frames (ImageD11/labelimage.py:152-228): the dense labelling as the     *)
(* peak search scripts reach it.  The object owns two label buffers,       *)
(* `blim` (current) and `lastbl` (previous), which mergelast swaps; every  *)
(* labelling call must leave in `blim` the labelling of THAT call's frame  *)
(* and in `npk` its count, whatever the buffers held before - in           *)
(* particular label 0 on every pixel of a frame with nothing above the     *)
(* threshold, at any position of the series.                               *)
(*                                                                         *)
(* frames     a frame is [code, kind]: code = the thresholded image as a   *)
(*            binary number (bit p = pixel p strictly above), a member of  *)
(*            CODES; kind = the value class of the frame for the harness:  *)
(*            frames without a pixel above (code 0) come as "below" (every *)
(*            pixel strictly below the threshold), "equal" (every pixel    *)
(*            EQUAL to the threshold) and "zero" (every pixel exactly 0,   *)
(*            threshold >= 0), members of EKINDS; the others are "mixed"   *)
(*            (not-above pixels equal to / just below / below).            *)
(* variables  cur, last  contents of blim / lastbl (label per pixel; a new *)
(*                       object holds zeros, the harness also starts from  *)
(*                       poisoned buffers)                                 *)
(*            npk        the object's count; lastnp (-1 = "FIRST")         *)
(*            pend       a peaksearch whose mergelast has not been called  *)
(*            mode       how the series is driven (member of MODES):       *)
(*                       "scripts" peaksearch, mergelast, peaksearch, ...  *)
(*                       "search"  peaksearch only                         *)
(*                       "label"   labelpeaks only (labelling, no          *)
(*                                 measurement)                            *)
(*                       "free"    any mixture: peaksearch / labelpeaks    *)
(*                                 per frame, mergelast or not after a     *)
(*                                 peaksearch                              *)
(*            hist       the calls so far, each labelling call with the    *)
(*                       labels and the count its frame must give          *)
(* actions    Search(f)  peaksearch (labelimage.py:152-161): astype,       *)
(*                       labelpeaks, measurepeaks                          *)
(*            Label(f)   labelpeaks (163-168): cImageD11.connectedpixels   *)
(*                       into self.blim.  The kernel writes EVERY pixel of *)
(*                       the array it is given and numbers the components  *)
(*                       in raster order of their first pixel (ConnPix.tla *)
(*                       Defined, Background, Partition, Numbering): here  *)
(*                       it is one step, cur' = Canon(frame).              *)
(*            Merge      mergelast (185-221), only after a peaksearch (it  *)
(*                       reads the properties measurepeaks made): swaps    *)
(*                       the two buffers, lastnp = npk.  bloboverlaps may  *)
(*                       renumber non-zero labels of the buffer that       *)
(*                       becomes `lastbl` (connectedpixels.c:432-443) and  *)
(*                       the count: zero stays zero, non-zero non-zero;    *)
(*                       the model keeps array and count as they are (they *)
(*                       are C12's matter and not judged after Merge).     *)
(*            SKIP_EMPTY = TRUE is NOT the code: a wrapper that returns    *)
(*            early on a frame with nothing above the threshold (npk = 0,  *)
(*            buffers untouched).  Fresh must fail for it (vacuity run).   *)
(* checked    Fresh: after every labelling call (Search / Label) and until *)
(*            the next call, stated independently of the actions: cur is 0 *)
(*            exactly on the pixels not above, two pixels share a label    *)
(*            exactly when joined by a path of 8-neighbours above (closure *)
(*            of adjacency), labels are 1..n in raster order of first      *)
(*            pixels, npk = n.  Emit: at the end of a series (L labelling  *)
(*            calls) the behaviour is printed; the harness replays it on   *)
(*            ONE real object and judges blim / npk after EVERY labelling  *)
(*            call against hist's labels.                                  *)
(* bounds     every series of L frames over CODES x kinds, every MODE;     *)
(*            NS x NF pixels, 8-connected (labelpeaks passes no con8)      *)
(***************************************************************************)
EXTENDS Integers, Sequences, FiniteSets, TLC, Json

CONSTANTS NS, NF, CODES, EKINDS, L, MODES, SKIP_EMPTY, EmitOn
N == NS * NF
Px == 0..(N - 1)
Row(p) == p \div NF
ColOf(p) == p % NF
Bit(c, p) == (c \div (2 ^ p)) % 2

\* ---- the labelling of a frame, stated independently (as in ConnPix.tla) ---------------------
Adj(c, p, q) == /\ p # q /\ Bit(c, p) = 1 /\ Bit(c, q) = 1
                /\ (Row(p) - Row(q)) \in {-1, 0, 1} /\ (ColOf(p) - ColOf(q)) \in {-1, 0, 1}
RECURSIVE Reach(_, _)
Reach(c, set) == LET nxt == set \cup {q \in Px : \E p \in set : Adj(c, p, q)}
                 IN IF nxt = set THEN set ELSE Reach(c, nxt)
MinOf(set) == CHOOSE m \in set : \A x \in set : m <= x
AboveOf(c) == {p \in Px : Bit(c, p) = 1}
FirstOf(c, p) == MinOf(Reach(c, {p}))
CanonOf(c) == LET F == {FirstOf(c, p) : p \in AboveOf(c)}
              IN [p \in Px |-> IF Bit(c, p) = 0 THEN 0 ELSE Cardinality({f \in F : f <= FirstOf(c, p)})]
\* constant-level tables (TLC evaluates them once)
Canon == [c \in CODES |-> CanonOf(c)]
NComp == [c \in CODES |-> Cardinality({FirstOf(c, p) : p \in AboveOf(c)})]

Frames == {[code |-> c, kind |-> k] : c \in CODES, k \in EKINDS \cup {"mixed"}}
FrameOK(f) == (f.code = 0) <=> (f.kind \in EKINDS)

VARIABLES cur, last, npk, lastnp, pend, mode, hist, nlab, fr
vars == <<cur, last, npk, lastnp, pend, mode, hist, nlab, fr>>

Zeros == [p \in Px |-> 0]
Init == /\ cur = Zeros /\ last = Zeros /\ npk = 0 /\ lastnp = -1 /\ pend = FALSE
        /\ mode \in MODES /\ hist = <<>> /\ nlab = 0 /\ fr = -1

AsSeq(a) == [p \in 1..N |-> a[p - 1]]
Call(op, f) == [op |-> op, code |-> f.code, kind |-> f.kind, labels |-> AsSeq(Canon[f.code]), n |-> NComp[f.code]]

\* labelpeaks: self.npk = cImageD11.connectedpixels(data.astype(float32), self.blim, threshold, self.verbose)
Labelling(f) == IF SKIP_EMPTY /\ f.code = 0
                THEN npk' = 0 /\ cur' = cur
                ELSE npk' = NComp[f.code] /\ cur' = Canon[f.code]

Search(f) == /\ nlab < L /\ mode \in {"scripts", "search", "free"}
             /\ (mode = "scripts" => ~pend)
             /\ Labelling(f)
             /\ pend' = TRUE /\ fr' = f.code /\ nlab' = nlab + 1
             /\ hist' = Append(hist, Call("peaksearch", f))
             /\ UNCHANGED <<last, lastnp, mode>>

Label(f) == /\ nlab < L /\ mode \in {"label", "free"}
            /\ Labelling(f)
            /\ pend' = FALSE /\ fr' = f.code /\ nlab' = nlab + 1
            /\ hist' = Append(hist, Call("labelpeaks", f))
            /\ UNCHANGED <<last, lastnp, mode>>

\* mergelast: self.lastbl, self.blim = self.blim, self.lastbl ; self.lastnp = self.npk (both branches)
Merge == /\ pend /\ nlab < L /\ mode \in {"scripts", "free"}
         /\ cur' = last /\ last' = cur /\ lastnp' = npk
         /\ pend' = FALSE /\ fr' = -1
         /\ hist' = Append(hist, [op |-> "mergelast"])
         /\ UNCHANGED <<npk, mode, nlab>>

Next == \/ \E f \in Frames : FrameOK(f) /\ (Search(f) \/ Label(f))
        \/ Merge
Spec == Init /\ [][Next]_vars

\* ---- the property ---------------------------------------------------------------------------
\* fr = the frame of the labelling call just made (-1 after Merge / at the start: nothing to judge)
Fresh == fr # -1 =>
           LET A == AboveOf(fr)
           IN /\ \A p \in Px : (cur[p] = 0) <=> (p \notin A)
              /\ \A p \in A : {q \in A : cur[q] = cur[p]} = Reach(fr, {p})
              /\ LET F == {FirstOf(fr, p) : p \in A}
                 IN /\ npk = Cardinality(F)
                    /\ {cur[p] : p \in A} = 1..npk
                    /\ \A p \in A : cur[p] = Cardinality({f \in F : f <= FirstOf(fr, p)})

TypeOK == /\ nlab \in 0..L /\ lastnp >= -1 /\ npk >= 0
          /\ (mode \in {"search", "label"} => lastnp = -1)

Emit == (EmitOn /\ nlab = L) =>
          PrintT("@@" \o ToJson([ns |-> NS, nf |-> NF, mode |-> mode, calls |-> hist]))
=============================================================================

\* X07: pinned tree (BUG_INHERIT): TLC must report DefaultNoHang violated
SPECIFICATION Spec
CONSTANTS
  EnvOmp = {0}
  Cores = {2}
  Slurm = {0}
  PutVals = {}
  SetVals = {1}
  NbVals = {}
  Starts = {}
  Hows = {"default"}
  POps = {"import", "kernel", "launch"}
  COps = {"import", "kernel"}
  NW = 0
  MaxDepth = 5
  BUG_INHERIT = TRUE
  BUG_NBRESET = TRUE
  EmitMode = 0
PROPERTY DefaultNoHang
VIEW View
CHECK_DEADLOCK FALSE

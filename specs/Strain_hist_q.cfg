\* Strain.tla, machine HSpec, quick tier: histories on one grain / DeformationGradientTensor / TensorMap object,
\* drawn by `tlc -simulate` (seed = VERIF_SEED); every invariant is checked along each behaviour
SPECIFICATION HSpec
CONSTANTS
  REFS <- RefsQ
  STRETCHES <- StretchQ
  ROTS <- RotsQ
  OBJROTS <- ObjRots
  OBJU0 <- ObjU0
  OBJU0R <- ObjU0R
  HKINDS <- HKindsAll
  HREFS <- HRefsQ
  HSTRETCHES <- HStretchQ
  HROTS <- HRotsQ
  HU0R <- HU0RAll
  HLEN = 10
  PHASEDICTS <- PhaseDicts
  NVER = 3
  MLEN = 8
INVARIANT HAnswersCurrent
INVARIANT HPolarOK
INVARIANT MapExpCurrent
INVARIANT MapRepairedCurrent
INVARIANT DzeroByKey
INVARIANT HEmit
CHECK_DEADLOCK FALSE

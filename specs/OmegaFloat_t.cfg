SPECIFICATION Spec
CONSTANTS
  TURN = 14400
  SLOPS = {2, 10}
  LOS <- LOS_T
  IDEALS <- IDEALS_T
  DELTAS <- DELTAS_T
  WRAP = "round"
INVARIANT ObsInRange
INVARIANT FloatedRight
INVARIANT Emit
CHECK_DEADLOCK FALSE

\* X07 quick: the core of the process model, every transition emitted (mode B)
SPECIFICATION Spec
CONSTANTS
  EnvOmp = {0}
  Cores = {3}
  Slurm = {0}
  PutVals = {}
  SetVals = {}
  NbVals = {}
  Starts = {}
  Hows = {"default", "spawn"}
  POps = {"import", "kernel", "launch"}
  COps = {"import", "kernel"}
  NW = 0
  MaxDepth = 4
  BUG_INHERIT = TRUE
  BUG_NBRESET = TRUE
  EmitMode = 1
INVARIANT TypeOK
INVARIANT RegPositive
INVARIANT SafeNeverStuck
INVARIANT StopBound
INVARIANT LateNoWork
PROPERTY SetGet
PROPERTY WarnRule
PROPERTY PatchSafe
PROPERTY OneThreadNeverStuck
PROPERTY Restore
PROPERTY StopSticky
PROPERTY DoneIsFinal
PROPERTY RaiseStops
PROPERTY FlagPerProcess
PROPERTY PbpOneThread
ACTION_CONSTRAINT EmitTransition
VIEW View
CHECK_DEADLOCK FALSE

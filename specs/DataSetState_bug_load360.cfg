\* pinned model: RoundTripOfb is expected to be VIOLATED (counterexample replayed on the real code)
SPECIFICATION Spec
CONSTANTS
  MaxDepth = 1
  DsNames = {"E360"}
  StartForms = {"imported"}
  EmitMode = 0
  BUG_SINOHIST = TRUE
  BUG_LOAD360 = TRUE
  BUG_YSTEP = TRUE
  BUG_BADSCAN = TRUE
  BUG_SAVEDEF = TRUE
  BUG_SAVESHAPE = TRUE
  BUG_STALEBINS = TRUE
  BUG_COMPARE = TRUE
INVARIANT RoundTripOfb
VIEW View
CHECK_DEADLOCK FALSE

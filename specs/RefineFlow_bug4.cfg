SPECIFICATION Spec
CONSTANTS
  NG = 2
  MAXCALLS = 2
  MAXFIT = 1
  NP = 3
  E = 2
  LAST_WINS = FALSE
  SORT_OBJ_ONLY = FALSE
  BLOCK = 2
  TAIL_COUNT = TRUE
  START_INT = FALSE
  KEEP_DTYPE = FALSE
  DROP_SETT = FALSE
INVARIANT NoBad
INVARIANT BestOwner
INVARIANT StoredError
CHECK_DEADLOCK FALSE

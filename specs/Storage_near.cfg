\* both tiers: overwriting with NEARLY EQUAL data.  Table 8 in both objects, one path, one group, depth 3:
\* writer ; Nudge ; writer (same object, same group, same length: every value moved in the 9th digit, zero
\* changed sign, integer typed values + 1) and every other order; the file must hold exactly the new values.
\* VIEW ViewAll: every history is its own state (under View the representative of the state reached by
\* writer ; Nudge ; writer could be Nudge ; writer ; writer, an overwrite with identical data)
SPECIFICATION Spec
CONSTANTS
  Family = "table"
  Paths = {"p1"}
  Groups = {"peaks"}
  SeedTuples <- SeedsNear
  OpNames = {"WriteText", "ReadText", "WriteHdf", "WriteHdfObj", "ReadHdf", "Nudge"}
  MaxDepth = 3
  EmitOn = TRUE
INVARIANT TypeOK
INVARIANT InvFixed
INVARIANT InvAsIs
INVARIANT Emit
VIEW ViewAll
CHECK_DEADLOCK FALSE

------------------------------ MODULE LocalMax ------------------------------
(***************************************************************************)
(* cImageD11.localmaxlabel (src/localmaxlabel.c:21-210), sequential        *)
(* meaning, phase by phase:                                                *)
(*   Borders   first/last row of lout and l zeroed                         *)
(*   NbrRow(r) neighbormax for row r: l[p] = k in 1..9 of the largest of   *)
(*             the 3x3 block (column-wise mx0/mx1/mx2 reuse, `pick` is a   *)
(*             strict >, so ties go to the smaller k), row ends zeroed,    *)
(*             lout[row start] = number of maxima (k = 5) on the row       *)
(*   CumSum    lout[row start] := number of maxima on earlier rows         *)
(*   LabelRow  maxima get labels offset+1.. and l = 0 ("done")             *)
(*   FrontZero lout[row start] := 0                                        *)
(*   Walk(i)   follow the offsets to a pixel with l = 0, copy its label,   *)
(*             relabel the path (as written: the in-range branch stops     *)
(*             after the first path pixel because l[q] was just cleared)   *)
(* lout and l start as POISON: "any previous content of the buffers".      *)
(*                                                                         *)
(* checked  NoPoisonRead (every cell read was written first), InBounds,    *)
(*          at the end Defined, and for images where every 3x3 block has   *)
(*          a unique maximum (TieFree): labels = steepest-ascent basins,   *)
(*          maxima numbered in raster order, count = number of interior    *)
(*          maxima, border = 0; sparse definition agrees with dense on     *)
(*          interior threshold masks.                                      *)
(* images   FAMILY "all": every image over 0..V-1 ; "quad": the images     *)
(*          p |-> (a p^2 + b p + c) mod P  for all a,b,c in 0..P-1         *)
(* covariance (used by the harness, harness/c13_replay.py): the model only *)
(*          COMPARES pixel values, so every emitted case stands for all    *)
(*          order preserving maps of its values (scaled, shifted to mixed  *)
(*          sign / all negative / below the sparse kernel's start value    *)
(*          -1e10) with the same labels, and it does not mention threads:  *)
(*          the replay runs each case at an explicit thread count 1..64.   *)
(*          SparseAgrees is judged here on the model; on the real code the *)
(*          harness compares the real dense and sparse outputs whenever    *)
(*          the listed set is closed under Up (no listed pixel climbs to   *)
(*          an unlisted one; with L = Listed(cut) inside Interior this is  *)
(*          automatic, the harness' masks drop border pixels so it is      *)
(*          tested there from the image).                                  *)
(***************************************************************************)
EXTENDS Integers, Sequences, FiniteSets, TLC, Json

CONSTANTS NS, NF, FAMILY, V, P, EmitOn
POISON == -7
LPOISON == 77
N == NS * NF
Px == 0..(N - 1)
Row(p) == p \div NF
ColOf(p) == p % NF
Border(p) == Row(p) = 0 \/ Row(p) = NS - 1 \/ ColOf(p) = 0 \/ ColOf(p) = NF - 1
Interior == {p \in Px : ~Border(p)}
\* o[k] of the code
Off(k) == CASE k = 0 -> 0 [] k = 1 -> -1 - NF [] k = 2 -> -1 [] k = 3 -> -1 + NF [] k = 4 -> -NF
            [] k = 5 -> 0 [] k = 6 -> NF [] k = 7 -> 1 - NF [] k = 8 -> 1 [] k = 9 -> 1 + NF

VARIABLES img, l, lout, npk, pc, cur, bad
vars == <<img, l, lout, npk, pc, cur, bad>>

Images == IF FAMILY = "all" THEN [Px -> 0..(V - 1)]
          ELSE {[p \in Px |-> (a * p * p + b * p + c) % P] : a \in 0..(P - 1), b \in 0..(P - 1), c \in 0..(P - 1)}

Init == /\ img \in Images
        /\ l = [p \in Px |-> LPOISON] /\ lout = [p \in Px |-> POISON]
        /\ npk = -1 /\ pc = "borders" /\ cur = 0 /\ bad = ""

\* ---- neighbormax ---------------------------------------------------------------------
\* best of a column (up, mid, down) with strict >: <<value, k>>
ColBest(p, dc, base) ==
  LET u == img[p + dc - NF]  m == img[p + dc]  d == img[p + dc + NF]
      s1 == IF m > u THEN <<m, base + 1>> ELSE <<u, base>>
  IN IF d > s1[1] THEN <<d, base + 2>> ELSE s1
\* pick(mx1, mx0, k0, k1) ; pick(mx2, mx0, k0, k2)
NbrK(p) == LET c0 == ColBest(p, -1, 1)  c1 == ColBest(p, 0, 4)  c2 == ColBest(p, 1, 7)
               s == IF c1[1] > c0[1] THEN c1 ELSE c0
           IN IF c2[1] > s[1] THEN c2[2] ELSE s[2]

Borders == /\ pc = "borders"
           /\ l' = [p \in Px |-> IF Row(p) = 0 \/ Row(p) = NS - 1 THEN 0 ELSE l[p]]
           /\ lout' = [p \in Px |-> IF Row(p) = 0 \/ Row(p) = NS - 1 THEN 0 ELSE lout[p]]
           /\ pc' = "nbr" /\ cur' = 1 /\ UNCHANGED <<img, npk, bad>>

NbrRow == /\ pc = "nbr" /\ cur <= NS - 2
          /\ LET r == cur
                 nmax == Cardinality({p \in Px : Row(p) = r /\ ~Border(p) /\ NbrK(p) = 5})
             IN /\ l' = [p \in Px |-> IF Row(p) # r THEN l[p] ELSE IF Border(p) THEN 0 ELSE NbrK(p)]
                /\ lout' = [p \in Px |-> IF Row(p) # r THEN lout[p]
                                         ELSE IF ColOf(p) = 0 THEN nmax
                                         ELSE IF ColOf(p) = NF - 1 THEN 0 ELSE lout[p]]
          /\ cur' = cur + 1 /\ UNCHANGED <<img, npk, pc, bad>>
NbrDone == /\ pc = "nbr" /\ cur = NS - 1 /\ pc' = "cumsum" /\ UNCHANGED <<img, l, lout, npk, cur, bad>>

\* for (i = 0; i < dim0*dim1; i += dim1) { t = npk; npk += lout[i]; lout[i] = t; }
CumSum == /\ pc = "cumsum"
          /\ LET F[r \in -1..(NS - 1)] == IF r = -1 THEN 0 ELSE F[r - 1] + lout[r * NF]
             IN /\ lout' = [p \in Px |-> IF ColOf(p) = 0 THEN (IF Row(p) = 0 THEN 0 ELSE F[Row(p) - 1]) ELSE lout[p]]
                /\ npk' = F[NS - 1]
                /\ bad' = IF \E r \in 0..(NS - 1) : lout[r * NF] = POISON THEN "cumsum reads poison" ELSE bad
          /\ pc' = "label" /\ cur' = 0 /\ UNCHANGED <<img, l>>

\* rows 0..NS-2 : maxima of the row get t+1, t+2, ... ; l := 0
LabelRow == /\ pc = "label" /\ cur <= NS - 2
            /\ LET r == cur   t == lout[r * NF]
                   rank(p) == Cardinality({q \in Px : Row(q) = r /\ q <= p /\ ColOf(q) >= 1 /\ ColOf(q) <= NF - 2 /\ l[q] = 5})
                   ismax(p) == Row(p) = r /\ ColOf(p) >= 1 /\ ColOf(p) <= NF - 2 /\ l[p] = 5
               IN /\ lout' = [p \in Px |-> IF ismax(p) THEN t + rank(p) ELSE lout[p]]
                  /\ l' = [p \in Px |-> IF ismax(p) THEN 0 ELSE l[p]]
                  /\ bad' = IF \E p \in Px : Row(p) = r /\ ColOf(p) >= 1 /\ ColOf(p) <= NF - 2 /\ l[p] = LPOISON
                            THEN "label reads poison" ELSE bad
            /\ cur' = cur + 1 /\ UNCHANGED <<img, npk, pc>>
LabelDone == /\ pc = "label" /\ cur = NS - 1 /\ pc' = "front" /\ UNCHANGED <<img, l, lout, npk, cur, bad>>

FrontZero == /\ pc = "front"
             /\ lout' = [p \in Px |-> IF ColOf(p) = 0 THEN 0 ELSE lout[p]]
             /\ pc' = "walk" /\ cur' = 0 /\ UNCHANGED <<img, l, npk, bad>>

\* ---- walk to the maximum (one thread: lo = 0, hi = N) ------------------------------------
RECURSIVE Climb(_, _, _)
\* returns <<q, k>> or <<-1, why>> : while (l[q]) { q += o[l[q]]; k++ }
Climb(ll, q, k) == IF q \notin Px THEN <<-1, 1>>
                   ELSE IF ll[q] = LPOISON THEN <<-1, 2>>
                   ELSE IF k > N THEN <<-1, 3>>
                   ELSE IF ll[q] = 0 THEN <<q, k>> ELSE Climb(ll, q + Off(ll[q]), k + 1)

Walk == /\ pc = "walk" /\ cur < N
        /\ LET i == cur IN
           IF l[i] = 0 THEN UNCHANGED <<l, lout, bad>>
           ELSE IF l[i] = LPOISON THEN bad' = "walk reads poison l" /\ UNCHANGED <<l, lout>>
           ELSE LET c == Climb(l, i + Off(l[i]), 0) IN
                IF c[1] = -1 THEN bad' = (IF c[2] = 1 THEN "walk leaves the image" ELSE IF c[2] = 2
                                          THEN "walk reads poison l" ELSE "walk does not terminate")
                                  /\ UNCHANGED <<l, lout>>
                ELSE LET lab == lout[c[1]]
                         q1 == i + Off(l[i])
                         \* relabel: first path pixel only (see header); q1 is a path pixel iff k > 0
                         l1 == IF c[2] > 0 THEN [l EXCEPT ![q1] = 0] ELSE l
                         lo1 == IF c[2] > 0 THEN [lout EXCEPT ![i] = lab, ![q1] = lab] ELSE [lout EXCEPT ![i] = lab]
                     IN /\ lout' = lo1 /\ l' = [l1 EXCEPT ![i] = 0]
                        /\ bad' = IF lab = POISON THEN "walk copies poison label" ELSE bad
        /\ cur' = cur + 1 /\ UNCHANGED <<img, npk, pc>>
WalkDone == /\ pc = "walk" /\ cur = N /\ pc' = "done" /\ UNCHANGED <<img, l, lout, npk, cur, bad>>

Next == Borders \/ NbrRow \/ NbrDone \/ CumSum \/ LabelRow \/ LabelDone \/ FrontZero \/ Walk \/ WalkDone
Spec == Init /\ [][Next]_vars

\* ---- the property, stated independently ---------------------------------------------------
Block(p) == {p + dr * NF + dc : dr \in {-1, 0, 1}, dc \in {-1, 0, 1}}
MaxIn(set) == CHOOSE m \in set : \A x \in set : img[m] >= img[x]
UniqueMax(set) == Cardinality({m \in set : \A x \in set : img[m] >= img[x]}) = 1
TieFree == \A p \in Interior : UniqueMax(Block(p))
Up(p) == MaxIn(Block(p))
RECURSIVE Term(_)
Term(p) == IF Border(p) THEN p ELSE IF Up(p) = p THEN p ELSE Term(Up(p))
Maxima == {p \in Interior : Up(p) = p}
Basin(p) == IF Border(p) \/ Border(Term(p)) THEN 0 ELSE Cardinality({m \in Maxima : m <= Term(p)})

Done == pc = "done"
NoPoisonRead == bad = ""
Defined == Done => \A p \in Px : lout[p] # POISON
BorderZero == Done => \A p \in Px : Border(p) => lout[p] = 0
SteepestAscent == (Done /\ TieFree) => /\ \A p \in Px : lout[p] = Basin(p)
                                       /\ npk = Cardinality(Maxima)
Count == Done => npk = Cardinality({p \in Interior : NbrK(p) = 5})

\* sparse variant on the pixels >= cut, when those are all interior: same partition (tie free)
Listed(cut) == {p \in Px : img[p] >= cut}
SUp(p, L) == MaxIn(Block(p) \cap L)
RECURSIVE STerm(_, _)
STerm(p, L) == IF SUp(p, L) = p THEN p ELSE STerm(SUp(p, L), L)
SLabel(p, L) == Cardinality({m \in L : SUp(m, L) = m /\ m <= STerm(p, L)})
SparseAgrees == (Done /\ TieFree) =>
   \A cut \in 1..2 : LET L == Listed((cut * (IF FAMILY = "all" THEN V ELSE P)) \div 3)
                     IN (L \subseteq Interior) => \A p \in L, q \in L : (lout[p] = lout[q]) <=> (SLabel(p, L) = SLabel(q, L))

Emit == (Done /\ EmitOn) =>
          PrintT("@@" \o ToJson([ns |-> NS, nf |-> NF, img |-> [p \in 1..N |-> img[p - 1]],
                                 lout |-> [p \in 1..N |-> lout[p - 1]], npk |-> npk,
                                 tiefree |-> IF TieFree THEN 1 ELSE 0]))
=============================================================================

INIT InitRecon
NEXT NextRecon
CONSTANTS
  Depth = 4
  WAng <- AngQuick
  WCombo <- ComboQuick
  WStart <- Frames
  WRepeat = FALSE
  RNy <- RNyAll
  ROffH <- ROffAll
  RPosQ <- RPosSet
  RYstep <- YstepAll
  RScan <- RScanAll
  RPadMode <- RPadModes
  RYminMode <- RYminModes
  PMaxN = 12
  PMaxW = 16
  PMaxP = 16
INVARIANT TypeRecon
INVARIANT PadNonNegative
INVARIANT GridCoversScan
INVARIANT PredictedInFrame
INVARIANT IradonAgreesWithGeometry
INVARIANT RowWithinOne
INVARIANT RowCoordIndependentOfDiagonal
INVARIANT WholeScanInFrame
INVARIANT XiZeroCharacterised
INVARIANT XiEdgeIncreasing
INVARIANT FitInverts
INVARIANT EmitRecon
CHECK_DEADLOCK FALSE

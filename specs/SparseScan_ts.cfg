SPECIFICATION Spec
CONSTANTS
  NS = 1
  NF = 3
  Vals = {2}
  MaxFrames = 3
  Cap1 = 3
  Cap2 = 3
  Cap3 = 3
  Thr = 1
  Stages = {1}
  BlobStages = {1}
  SubRanges = TRUE
  MotorCfgs = {0, 18, 36, 72, 129, 250, 15, 240, 102, 153, 255, 20}
  FIXED = TRUE
INVARIANT InBounds
INVARIANT PtrOK
INVARIANT LoadOK
INVARIANT GetOK
INVARIANT CpLabelsOK
INVARIANT SmoothOK
INVARIANT LmLabelsOK
INVARIANT CountsOK
INVARIANT MomentsTotal
INVARIANT MomentsOK
INVARIANT BlobOK
INVARIANT Emit
CHECK_DEADLOCK FALSE

------------------------------- MODULE Storage -------------------------------
(***************************************************************************)
(* C18 - saved peaks, parameters and grains read back as written.          *)
(*                                                                         *)
(* WHAT CODE IS MODELLED (pinned tree /repo)                               *)
(*   ImageD11/columnfile.py                                                *)
(*     38-130   FLOATS / INTS / LONGFLOATS / EXPONENTIALS -> FORMATS       *)
(*     262-287  columnfile.writefile   (header "# k = v", title line, rows)*)
(*     289-342  columnfile.readfile    (magic dispatch to hdf, header      *)
(*                                      parsing, dumbtypecheck)            *)
(*     556-602  colfile_to_hdf         (group reused, dataset overwritten  *)
(*                                      in place, TypeError on a length    *)
(*                                      mismatch, other datasets untouched)*)
(*     604-624  colfileobj_to_hdf      (create_group: fails when present)  *)
(*     626-679  colfile_from_hdf       (name / auto group, title order)    *)
(*     682-725  mmap_h5colf            (alphabetical titles, dtype kept)   *)
(*   ImageD11/parameters.py 492-556    saveparameters / loadparameters /   *)
(*                                      dumbtypecheck (coercion by spelling)*)
(*   ImageD11/grain.py 243-412         write_grain_file / read_grain_file, *)
(*                                      to/from_h5py_group, *_h5            *)
(*   ImageD11/indexing.py 89-114       write_ubi_file / readubis           *)
(*   ImageD11/sparseframe.py 174-200, 437-449  to_hdf_group/from_hdf_group *)
(*                                                                         *)
(* NUMBERS.  A value is <<s, m, e>> = s * m * 10^e, s in {1,-1}, m >= 0    *)
(* (so -0 is <<-1,0,0>>).  Printing with "%.pf" is QFix(v,p), with n       *)
(* significant digits ("%.4e" n=5, "%.9g" n=9, "%g" n=6) is QSig(v,n);     *)
(* both round half to even, which is what C/Python printf does for values  *)
(* that are exactly representable (all model ties are dyadic rationals).   *)
(* The property ("to the print precision documented for that column") is   *)
(* stated independently as BoundFix / BoundSig (|q - v| <= half a unit in  *)
(* the last printed place) and checked for the whole alphabet in ASSUME    *)
(* QuantLaws; the harness re-checks the same bound with exact rationals    *)
(* on arbitrary doubles.                                                   *)
(*                                                                         *)
(* STATE.  Two worlds evolve in lock step under the same operations:       *)
(*   wa  "as is": colfile_to_hdf / to_hdf_group leave datasets of names    *)
(*       the new object lacks in a re-used group (DESIGN F11)              *)
(*   wf  "intended": those datasets are removed                            *)
(* A world is [fs, mem, res]: fs[path] abstract file, mem[obj] in-memory   *)
(* object, res "ok"/"err" of the last operation.  Everything else          *)
(* (sparse-frame meta attributes F10, grain names containing "UBI",        *)
(* to_h5py_group into an existing group) is modelled as intended only.     *)
(*   fs[p]  [k |-> "none"]                                                 *)
(*        | [k |-> "text", pars (name -> spelling), titles (ordered),      *)
(*           cols (title -> decimals as printed), src]                     *)
(*        | [k |-> "hdf", groups (name -> [tag "peaks", ds (title ->       *)
(*           [ty "i"/"f", data]), src] | [tag "grains", gl, src]           *)
(*           | [tag "sparse", shape, row, col, px, src])]                  *)
(*        | [k |-> "par", pars, src] | [k |-> "gtext", gl, src]            *)
(*        | [k |-> "utext", ubis, src]                                     *)
(*          (src = ghost: the object given to the last successful writer)  *)
(*   mem[o] [k |-> "table", pars (name -> typed value), titles, cols, dt]  *)
(*        | [k |-> "pars", pars] | [k |-> "grains", gl] | [k |-> "sparse"..]*)
(*   hist  = sequence of operations (first element = seeds of mem)         *)
(*   depth = Len(hist) - 1.   VIEW <<wa, wf, depth, last op name>> : one   *)
(*   representative history per distinct view; the set of representative   *)
(*   histories is prefix closed (the harness replays the maximal ones and  *)
(*   compares after every step).                                           *)
(*                                                                         *)
(* ACTIONS (one per public operation; OpNames in the cfg selects a family) *)
(*   table : WriteText ReadText WriteHdf WriteHdfObj ReadHdf ReadAuto      *)
(*           ReadMmap DropRow ConvHdf Nudge                                *)
(*           (Nudge = the user edits an object in memory so that every     *)
(*           value becomes NEARLY equal to what it was: 9th significant    *)
(*           digit + 1, sign of zero flipped, + 1 in integer typed columns:*)
(*           a write after it overwrites nearly equal data and must store  *)
(*           exactly the new values - Storage_near.cfg)                    *)
(*           (ConvHdf = colfile_to_hdf(<name of a text columnfile>, hdf,   *)
(*           name=g): the writer reads the other path's text file itself)  *)
(*   pars  : SavePars LoadFresh LoadInto                                   *)
(*   grains: WriteGrains ReadGrains WriteUbis ReadUbis WriteGrainsH5       *)
(*           ReadGrainsH5 PutGrainH5 Reverse                               *)
(*   sparse: WriteSparse ReadSparse                                        *)
(* An operation is offered when it is meaningful (the file exists, the     *)
(* group exists for group reads); wrong lengths, existing groups, several  *)
(* groups, ragged groups, text where hdf is expected are offered and the   *)
(* model says "err" and what is left behind.                               *)
(*                                                                         *)
(* INVARIANTS                                                              *)
(*   InvFixed  all laws on wf: TextRT (Read(Write x) = Quantise x: titles, *)
(*             order, header parameters with types, values within the      *)
(*             bound), TextIdem (Write o Read o Write = Write, modulo the  *)
(*             reader's "filename" parameter), HdfRT (every written title  *)
(*             present, dtype class, exact values), HdfTitles (set of      *)
(*             titles preserved), HdfReadable, HdfIdem, MemOK, ParRT,      *)
(*             ParIdem, GrainRT, GrainIdem, GrainH5RT, UbiRT, SparseRT,    *)
(*             SparseNames                                                 *)
(*   InvAsIs   the same laws on wa except the ones F11 breaks              *)
(*   InvStale  HdfTitles /\ HdfReadable /\ SparseNames on wa: EXPECTED TO  *)
(*             BE VIOLATED (Storage_stale.cfg) by WriteHdf{T1};WriteHdf{T2}*)
(*   TypeOK, Emit (prints one JSON record per distinct view)               *)
(*   ASSUME QuantLaws: bound, idempotence, oddness of the quantisers on    *)
(*             the whole alphabet x every format; ties round to even       *)
(*                                                                         *)
(* OBSERVATIONS the model makes explicit (not part of the property):       *)
(*   - a failed colfile_to_hdf (length mismatch) keeps what it wrote       *)
(*     before the failing title: a group can become ragged and then no     *)
(*     reader accepts it (HdfReadable is only claimed after a success)     *)
(*   - a failed to_hdf_group (nnz mismatch) has already updated the shape  *)
(*     attributes of the group                                             *)
(*   - integer typed columns are truncated (astype(int64)) in hdf: the     *)
(*     exactness law is stated for integral values                         *)
(*   - readers add a "filename" parameter; loadparameters merges into the  *)
(*     existing dictionary and renames "-" to "_"                          *)
(*                                                                         *)
(* BOUNDS  2 paths, 2 objects, <= 2 groups, seed objects from Tables /     *)
(* ParSets / GLists / Frames (<= 3 titles (7 in table 7), <= 2 rows, <= 3  *)
(* grains, <= 3 pixels), depth MaxDepth = 2..5 (cfg files).  Integers      *)
(* < 2^31.                                                                 *)
(*                                                                         *)
(*   Storage_tab_q   quick   table, 1 group, depth 3, emitted + replayed   *)
(*   Storage_tab_t   thorough table, 2 groups, depth 3, emitted + replayed *)
(*   Storage_tab_t4  thorough table, 1 group, depth 4, emitted + replayed  *)
(*   Storage_tab_d5  thorough table, core operations, depth 5, invariants  *)
(*   Storage_title   both tiers: table 7, one path, depth 2, emitted; the  *)
(*                   write-then-read leaves are replayed per title batch   *)
(*   Storage_near    both tiers: table 8 in both objects, one path, depth  *)
(*                   3, Nudge between the writers (overwrite with nearly   *)
(*                   equal data, same length), emitted + replayed          *)
(*   Storage_par_q/t, Storage_gr_q/t, Storage_sp_q/t  other families       *)
(*   Storage_stale   expected violation of InvStale (F11 counterexample)   *)
(*                                                                         *)
(* WHAT THE MODEL IS COVARIANT IN (instance families of the harness, the   *)
(* model's expected worlds are transported by the same substitution):      *)
(*   - the NAME of a title inside its format class: FmtOf / IsInt depend   *)
(*     on the class only.  Storage_title.cfg (table 7: one column per      *)
(*     class, three for EXPONENTIALS) is replayed once per batch k with    *)
(*     the model titles replaced by the k-th titles of the harness's       *)
(*     PINNED copies of FLOATS / INTS / LONGFLOATS / EXPONENTIALS (179     *)
(*     titles, harness/c18_widen.py) and of a list of unknown names: every *)
(*     title of the table is written and read by every route and compared  *)
(*     with this model's decimals (a title moved between classes, dropped  *)
(*     from FORMATS or from the INTS test of an hdf writer differs).       *)
(*   - the dtype of sparse pixel arrays and of the row/col indices: "i" /  *)
(*     "f" stand for one integer / one float dtype per history (int32,     *)
(*     uint16, int64, uint8 / float64, float32; itype uint16, uint32,      *)
(*     int32); the harness compares dtype.str and the itype attribute.     *)
(*   - the python TYPE that carries a parameter-like value (header         *)
(*     parameters, parameter dictionaries, sparse meta attributes, grain   *)
(*     names and peak counts): TI / TF / TS say int / float / str; the     *)
(*     harness hands every history's values to the writers as one of       *)
(*     python objects, numpy float64 / int64 / str_ scalars, 0-d arrays,   *)
(*     float32 / int32 scalars where the value is one (c18_replay.         *)
(*     PAR_KINDS, rotating with the history; c18_extra.value_kinds has the *)
(*     full kind x route matrix): str() of all of them spells the same     *)
(*     text, so the worlds of this model are expected unchanged.           *)
(*   - the VALUES of the second seed object relative to the first: in the  *)
(*     widened pass every second history is a "near twin" (o2's values =   *)
(*     o1's at the same position changed in the last bit / 6th digit /     *)
(*     +-1 / sign of zero), so every overwrite of the emitted histories    *)
(*     (hdf tables, grains, sparse frames, text files in place) is also    *)
(*     run with nearly equal data; the step laws demand the new values.    *)
(*   - the dtype of in-memory table columns (float32 columns in the        *)
(*     widened pass), compression options of colfile_to_hdf, default group *)
(*     names (harness/c18_extra.py).                                       *)
(***************************************************************************)
EXTENDS Integers, Sequences, FiniteSets, TLC, Json

CONSTANTS Family,     \* "table" | "pars" | "grains" | "sparse"
          Paths,      \* e.g. {"p1","p2"}
          Groups,     \* HDF group names used by the writers, e.g. {"peaks","other"}
          SeedTuples, \* set of tuples of indices into Tables / ParSets / GLists / Frames: initial mem
                      \* (cfg: SeedTuples <- one of the Seeds* definitions at the end of this module)
          OpNames,    \* enabled operations
          MaxDepth,
          EmitOn

VARIABLES wa, wf, hist, depth
vars == <<wa, wf, hist, depth>>
\* the name of the last operation is part of the view: operations that lead to the same state
\* (ReadAuto / ReadHdf on a file with one group) each get their own representative history
View == <<wa, wf, depth, hist[Len(hist)].op>>
\* Storage_title.cfg: every history is its own state (both hdf writers leave the same file, and the
\* harness wants every writer followed by every reader)
ViewAll == <<wa, wf, depth, hist>>

-----------------------------------------------------------------------------
\* generic helpers
Range(s) == {s[i] : i \in DOMAIN s}
ObjSeq == <<"o1", "o2">>
Objs == Range(ObjSeq)
MinOf(S) == CHOOSE x \in S : \A y \in S : x <= y
Abs(x) == IF x < 0 THEN -x ELSE x
Sel(s, S) == SelectSeq(s, LAMBDA t : t \in S)
Empty == [x \in {} |-> 0]
Rev(s) == [i \in 1..Len(s) |-> s[Len(s) + 1 - i]]

-----------------------------------------------------------------------------
\* decimal values and printf quantisation
V(s, m, e) == <<s, m, e>>
Zero == V(1, 0, 0)
NegZero == V(-1, 0, 0)
P10 == <<10, 100, 1000, 10000, 100000, 1000000, 10000000, 100000000, 1000000000>>
Pow10(n) == IF n = 0 THEN 1 ELSE P10[n]

RECURSIVE Canon(_)
Canon(v) == IF v[2] = 0 THEN V(v[1], 0, 0)
            ELSE IF v[2] % 10 = 0 THEN Canon(V(v[1], v[2] \div 10, v[3] + 1))
            ELSE v
RECURSIVE NDig(_)
NDig(m) == IF m < 10 THEN 1 ELSE 1 + NDig(m \div 10)

\* m / 10^d rounded half to even, 1 <= d <= 9
RHE(m, d) == LET P == Pow10(d)
                 q == m \div P
                 r == m % P
                 h == P \div 2
             IN IF r > h \/ (r = h /\ q % 2 = 1) THEN q + 1 ELSE q

\* "%.pf"
QFix(v, p) == IF v[3] >= -p THEN Canon(v)
              ELSE LET d == -p - v[3]
                   IN IF d > 9 THEN V(v[1], 0, 0)          \* |v| < 0.22 * 10^-p
                      ELSE Canon(V(v[1], RHE(v[2], d), -p))
\* n significant digits ("%.(n-1)e", "%.ng")
QSig(v, n) == IF v[2] = 0 THEN Canon(v)
              ELSE LET dg == NDig(v[2])
                   IN IF dg <= n THEN Canon(v)
                      ELSE Canon(V(v[1], RHE(v[2], dg - n), v[3] + dg - n))

Q(fmt, v) == CASE fmt = "f0"  -> QFix(v, 0)
               [] fmt = "f4"  -> QFix(v, 4)
               [] fmt = "f6"  -> QFix(v, 6)
               [] fmt = "f12" -> QFix(v, 12)
               [] fmt = "e4"  -> QSig(v, 5)
               [] fmt = "g6"  -> QSig(v, 6)
               [] fmt = "g9"  -> QSig(v, 9)

\* numerator of v on the grid 10^e (requires e <= v[3], difference <= 9)
OnGrid(v, e) == IF v[2] = 0 THEN 0 ELSE v[2] * Pow10(v[3] - e)

\* the property, stated without reference to the rounding procedure:
\* q is a multiple of 10^-p (resp. has <= n digits) and |q - v| <= half a unit
BoundFix(v, q, p) ==
    /\ q[1] = v[1]
    /\ q[2] = 0 \/ q[3] >= -p
    /\ LET g == -p - v[3]
       IN IF g <= 0 THEN Canon(q) = Canon(v)
          ELSE IF g > 9 THEN q[2] = 0
          ELSE 2 * Abs(v[2] - OnGrid(q, v[3])) <= Pow10(g)
BoundSig(v, q, n) ==
    /\ q[1] = v[1]
    /\ IF v[2] = 0 THEN q[2] = 0
       ELSE LET dg == NDig(v[2])
            IN IF dg <= n THEN Canon(q) = Canon(v)
               ELSE /\ q[3] >= v[3]
                    /\ 2 * Abs(v[2] - OnGrid(q, v[3])) <= Pow10(dg - n)
                    /\ NDig(q[2]) <= n
Bound(fmt, v, q) == CASE fmt = "f0"  -> BoundFix(v, q, 0)
                      [] fmt = "f4"  -> BoundFix(v, q, 4)
                      [] fmt = "f6"  -> BoundFix(v, q, 6)
                      [] fmt = "f12" -> BoundFix(v, q, 12)
                      [] fmt = "e4"  -> BoundSig(v, q, 5)
                      [] fmt = "g6"  -> BoundSig(v, q, 6)
                      [] fmt = "g9"  -> BoundSig(v, q, 9)

\* astype(int64): truncation towards zero, no signed zero
Trunc(v) == IF v[2] = 0 THEN Zero
            ELSE IF v[3] >= 0 THEN Canon(v)
            ELSE IF -v[3] > 9 THEN Zero
            ELSE LET q == v[2] \div Pow10(-v[3]) IN IF q = 0 THEN Zero ELSE Canon(V(v[1], q, 0))
Integral(v) == Canon(v)[3] >= 0
SameNum(a, b) == \/ Canon(a) = Canon(b)
                 \/ (a[2] = 0 /\ b[2] = 0)

\* the value alphabet: 0, -0, exact ties of every format class, the 12345.67891 class,
\* 1e-12, 1e12, integers
Alphabet == {
    Zero, NegZero,
    V(1, 5, -1), V(1, 15, -1), V(1, 25, -1), V(-1, 5, -1),             \* f0 ties 0.5 1.5 2.5 -0.5
    V(1, 3125, -5), V(1, 9375, -5), V(-1, 3125, -5),                   \* f4 ties 1/32 3/32
    V(1, 78125, -7), V(1, 234375, -7),                                 \* f6 ties 1/128 3/128
    V(1, 1220703125, -13),                                             \* f12 tie 1/8192
    V(1, 100005, 0), V(1, 100015, 0),                                  \* e4 ties
    V(1, 1000005, 0), V(1, 1000015, 0), V(1, 1015625, -6), V(1, 1046875, -6),   \* g6 ties
    V(1, 1001953125, -9), V(1, 1005859375, -9),                        \* g9 ties 513/512 515/512
    V(1, 1234567891, -5), V(-1, 1234567891, -5), V(1, 1234567891, -9),
    V(1, 1, -12), V(-1, 1, -12), V(1, 1, 12), V(-1, 1, 12),
    V(1, 3, 0), V(-1, 7, 0), V(1, 17, 0), V(1, 123, -3) }

Formats == {"f0", "f4", "f6", "f12", "e4", "g6", "g9"}

QuantLaws == \A v \in Alphabet : \A f \in Formats :
                 LET q == Q(f, v)
                 IN /\ Bound(f, v, q)
                    /\ Q(f, q) = q                       \* idempotent
                    /\ Q(f, V(-v[1], v[2], v[3])) = V(-q[1], q[2], q[3])   \* odd
                    /\ Trunc(Trunc(v)) = Trunc(v)
ASSUME QuantLaws
\* the ties really round to even
ASSUME /\ Q("f0", V(1, 5, -1)) = Zero /\ Q("f0", V(1, 15, -1)) = V(1, 2, 0) /\ Q("f0", V(1, 25, -1)) = V(1, 2, 0)
       /\ Q("f4", V(1, 3125, -5)) = V(1, 312, -4) /\ Q("f4", V(1, 9375, -5)) = V(1, 938, -4)
       /\ Q("f6", V(1, 78125, -7)) = V(1, 7812, -6) /\ Q("f6", V(1, 234375, -7)) = V(1, 23438, -6)
       /\ Q("f12", V(1, 1220703125, -13)) = V(1, 122070312, -12)
       /\ Q("e4", V(1, 100005, 0)) = V(1, 1, 5) /\ Q("e4", V(1, 100015, 0)) = V(1, 10002, 1)
       /\ Q("g9", V(1, 1001953125, -9)) = V(1, 100195312, -8)
       /\ Q("g9", V(1, 1005859375, -9)) = V(1, 100585938, -8)
       /\ Q("g6", V(1, 1000005, 0)) = V(1, 1, 6) /\ Q("g6", V(1, 1015625, -6)) = V(1, 101562, -5)
       /\ Q("f4", V(1, 1, -12)) = Zero /\ Q("f4", V(-1, 1, -12)) = NegZero
       /\ Q("f4", V(1, 1234567891, -5)) = V(1, 123456789, -4)
       /\ Q("e4", V(1, 1234567891, -5)) = V(1, 12346, 0)

-----------------------------------------------------------------------------
\* typed parameter values, their spelling by str(), and the reader's coercion
TI(v) == [ty |-> "int", n |-> v, s |-> ""]
TF(v) == [ty |-> "float", n |-> v, s |-> ""]
TS(s) == [ty |-> "str", n |-> Zero, s |-> s]
\* a spelling is classified by what float() / int() accept (parameters.py:529-553)
Spell(tv) == IF tv.ty = "int" THEN [sp |-> "I", n |-> tv.n, s |-> ""]
             ELSE IF tv.ty = "float" THEN [sp |-> "F", n |-> tv.n, s |-> ""]
             ELSE IF tv.s = "12" THEN [sp |-> "I", n |-> V(1, 12, 0), s |-> ""]    \* numeric looking string
             ELSE IF tv.s = "1e5" THEN [sp |-> "F", n |-> V(1, 1, 5), s |-> ""]
             ELSE IF tv.s = "1_000" THEN [sp |-> "I", n |-> V(1, 1000, 0), s |-> ""]   \* int("1_000") = 1000
             ELSE [sp |-> "S", n |-> Zero, s |-> tv.s]
Coerce(sp) == IF sp.sp = "I" THEN TI(sp.n) ELSE IF sp.sp = "F" THEN TF(sp.n) ELSE TS(sp.s)
\* domain of the parameter clause: identifier-like names, strings that do not parse as numbers
NameIn(n) == IF n = "t-u" THEN "t_u" ELSE n
InDomainPar(n, tv) == /\ n \notin {"t-u", "filename"}
                      /\ ~(tv.ty = "str" /\ tv.s \in {"12", "1e5", "1_000"})
ParsPreserved(a, b) == /\ \A n \in DOMAIN a : InDomainPar(n, a[n]) => (n \in DOMAIN b /\ b[n] = a[n])
                       /\ \A n \in DOMAIN b : n \in {NameIn(m) : m \in DOMAIN a} \cup {"filename"}
NoFilename(f) == [n \in (DOMAIN f) \ {"filename"} |-> f[n]]

-----------------------------------------------------------------------------
\* worlds
NoFile == [k |-> "none"]
NoObj == [k |-> "none"]
World(fs, mem, res) == [fs |-> fs, mem |-> mem, res |-> res]
SetFs(w, p, f, r) == [fs |-> [w.fs EXCEPT ![p] = f], mem |-> w.mem, res |-> r]
SetMem(w, o, x, r) == [fs |-> w.fs, mem |-> [w.mem EXCEPT ![o] = x], res |-> r]
Fail(w) == [fs |-> w.fs, mem |-> w.mem, res |-> "err"]
EmptyHdf == [k |-> "hdf", groups |-> Empty]
IsTextLike(f) == f.k \in {"text", "par", "gtext", "utext"}
PathTok(p) == "@" \o p


-----------------------------------------------------------------------------
\* ============================ family "table" ==============================
\* titles of the model and their documented format class (columnfile.py:38-130)
FmtOf(t) == CASE t = "sc" -> "f4"                      \* FLOATS       "%.4f"
              [] t = "Number_of_pixels" -> "f0"        \* INTS         "%.0f"
              [] t \in {"eps11", "e11e12_s", "s22s33"} -> "e4"   \* EXPONENTIALS "%.4e"
              [] t = "UBI11" -> "f12"                  \* LONGFLOATS   "%.12f"
              [] OTHER -> "f6"                         \* unknown      "%f"
IsInt(t) == t \in {"Number_of_pixels"}
\* colfile_from_hdf: hard wired order first (columnfile.py:659-664), the rest alphabetically
HardWired == << "sc", "fc", "omega", "Number_of_pixels", "avg_intensity", "s_raw", "f_raw", "sigs",
                "sigf", "covsf", "sigo", "covso", "covfo", "sum_intensity", "sum_intensity^2",
                "IMax_int", "IMax_s", "IMax_f", "IMax_o", "Min_s", "Max_s", "Min_f", "Max_f", "Min_o",
                "Max_o", "dety", "detz", "onfirst", "onlast", "spot3d_id", "xl", "yl", "zl", "tth",
                "eta", "gx", "gy", "gz" >>
AlphaOrder == << "Number_of_pixels", "UBI11", "e11e12_s", "eps11", "foo", "s22s33", "sc" >>   \* ASCII order of the model titles
GroupAlpha == << "other", "peaks" >>
HdfOrder(S) == Sel(HardWired, S) \o Sel(AlphaOrder, S \ Range(HardWired))

Tab(pars, titles, cols) == [k |-> "table", pars |-> pars, titles |-> titles, cols |-> cols,
                            dt |-> [t \in Range(titles) |-> "f"]]
Pars4 == ("wavelength" :> TF(V(1, 123, -3))) @@ ("n" :> TI(V(1, 3, 0))) @@ ("s" :> TS("abc"))
Pars6 == ("s" :> TS("a=b c")) @@ ("z" :> TF(NegZero))
Tables == <<
  \* 1: two titles, unknown + FLOATS, ties
  Tab(Empty, <<"foo", "sc">>,
      ("foo" :> <<V(1, 78125, -7), NegZero>>) @@ ("sc" :> <<V(1, 3125, -5), V(1, 1234567891, -5)>>)),
  \* 2: strict subset of 1, same length
  Tab(Empty, <<"foo">>, ("foo" :> <<V(1, 1, 12), V(-1, 1, -12)>>)),
  \* 3: subset of 1, different length
  Tab(Empty, <<"foo">>, ("foo" :> <<V(1, 234375, -7)>>)),
  \* 4: INTS + EXPONENTIALS + unknown, header parameters of the three types
  Tab(Pars4, <<"Number_of_pixels", "eps11", "foo">>,
      ("Number_of_pixels" :> <<V(1, 25, -1), V(-1, 7, 0)>>)
      @@ ("eps11" :> <<V(1, 100005, 0), V(-1, 1, -12)>>)
      @@ ("foo" :> <<Zero, V(-1, 1234567891, -5)>>)),
  \* 5: hard-wired pair in non hard-wired order, integer valued INTS, superset order test
  Tab(Empty, <<"Number_of_pixels", "sc">>,
      ("Number_of_pixels" :> <<V(1, 1, 12), V(1, 3, 0)>>) @@ ("sc" :> <<V(1, 9375, -5), V(-1, 3125, -5)>>)),
  \* 6: LONGFLOATS, one row, string parameter with "=" and blank inside
  Tab(Pars6, <<"foo", "UBI11">>,
      ("foo" :> <<V(1, 15, -1)>>) @@ ("UBI11" :> <<V(1, 1220703125, -13)>>)),
  \* 7: one column per format class (three EXPONENTIALS), values that tell every class from every other
  \*    (title enumeration, Storage_title.cfg: the harness substitutes every pinned title of the class)
  Tab(Empty, <<"Number_of_pixels", "sc", "eps11", "e11e12_s", "s22s33", "UBI11", "foo">>,
      ("Number_of_pixels" :> <<V(1, 25, -1), V(1, 1, 12)>>)
      @@ ("sc" :> <<V(1, 3125, -5), V(1, 1234567891, -5)>>)
      @@ ("eps11" :> <<V(1, 100005, 0), V(-1, 1, -12)>>)
      @@ ("e11e12_s" :> <<V(1, 1234567891, -9), V(1, 100015, 0)>>)
      @@ ("s22s33" :> <<V(-1, 1234567891, -5), V(1, 1, -12)>>)
      @@ ("UBI11" :> <<V(1, 1220703125, -13), V(1, 1234567891, -9)>>)
      @@ ("foo" :> <<V(1, 78125, -7), NegZero>>)),
  \* 8: overwrite with nearly equal data (Storage_near.cfg): an integer typed column above 1e5, the
  \*    12345.67891 class, zero and 1e12, header parameters of the three types
  Tab(Pars4, <<"Number_of_pixels", "sc", "foo">>,
      ("Number_of_pixels" :> <<V(1, 25, 4), V(1, 3, 0)>>)
      @@ ("sc" :> <<V(1, 1234567891, -5), V(1, 5, -1)>>)
      @@ ("foo" :> <<Zero, V(1, 1, 12)>>))
>>

Nrows(x) == IF Len(x.titles) = 0 THEN 0 ELSE Len(x.cols[x.titles[1]])

\* ---- text route (writefile / readfile)
RenderText(x) ==
    [k |-> "text",
     pars |-> [n \in DOMAIN x.pars |-> Spell(x.pars[n])],
     titles |-> x.titles,
     cols |-> [t \in Range(x.titles) |-> [i \in 1..Nrows(x) |-> Q(FmtOf(t), x.cols[t][i])]],
     src |-> x]
ParseText(f, p) ==
    [k |-> "table",
     pars |-> [n \in (DOMAIN f.pars) \cup {"filename"} |->
                 IF n \in DOMAIN f.pars THEN Coerce(f.pars[n]) ELSE TS(PathTok(p))],
     titles |-> f.titles,
     cols |-> f.cols,
     dt |-> [t \in Range(f.titles) |-> "f"]]

\* ---- hdf route
ToHdf(t, col) == IF IsInt(t) THEN [ty |-> "i", data |-> [i \in 1..Len(col) |-> Trunc(col[i])]]
                 ELSE [ty |-> "f", data |-> col]
PeaksGroups(f) == {g \in DOMAIN f.groups : f.groups[g].tag = "peaks"}
Rect(grp) == \A t1, t2 \in DOMAIN grp.ds : Len(grp.ds[t1].data) = Len(grp.ds[t2].data)
Readable(grp) == DOMAIN grp.ds # {} /\ Rect(grp)
HdfTable(grp, titles, fname) ==
    [k |-> "table",
     pars |-> IF fname = "" THEN Empty ELSE ("filename" :> TS(fname)),
     titles |-> titles,
     cols |-> [t \in DOMAIN grp.ds |-> grp.ds[t].data],
     dt |-> [t \in DOMAIN grp.ds |-> grp.ds[t].ty]]

WriteTextOp(w, o, p) == IF w.mem[o].k # "table" THEN Fail(w)
                        ELSE SetFs(w, p, RenderText(w.mem[o]), "ok")

ReadAutoFrom(w, p, o, fname) ==
    LET f == w.fs[p]
        pg == PeaksGroups(f)
    IN IF Cardinality(pg) # 1 THEN Fail(w)
       ELSE LET g == CHOOSE g \in pg : TRUE
                grp == f.groups[g]
            IN IF ~Readable(grp) THEN Fail(w)
               ELSE SetMem(w, o, HdfTable(grp, HdfOrder(DOMAIN grp.ds), IF fname = "" THEN PathTok(g) ELSE fname), "ok")

ReadTextOp(w, p, o) == LET f == w.fs[p]
                       IN IF f.k = "text" THEN SetMem(w, o, ParseText(f, p), "ok")
                          ELSE IF f.k = "hdf" THEN ReadAutoFrom(w, p, o, PathTok(p))   \* magic number dispatch
                          ELSE Fail(w)
ReadAutoOp(w, p, o) == IF w.fs[p].k # "hdf" THEN Fail(w) ELSE ReadAutoFrom(w, p, o, "")
ReadHdfOp(w, p, g, o) ==
    LET f == w.fs[p]
    IN IF f.k # "hdf" \/ g \notin PeaksGroups(f) THEN Fail(w)
       ELSE LET grp == f.groups[g]
            IN IF ~Readable(grp) THEN Fail(w)
               ELSE SetMem(w, o, HdfTable(grp, HdfOrder(DOMAIN grp.ds), PathTok(g)), "ok")
ReadMmapOp(w, p, g, o) ==
    LET f == w.fs[p]
    IN IF f.k # "hdf" \/ PeaksGroups(f) = {} THEN Fail(w)
       ELSE LET gg == IF g \in DOMAIN f.groups THEN g ELSE Sel(GroupAlpha, PeaksGroups(f))[1]
                grp == f.groups[gg]
            IN IF ~Readable(grp) THEN Fail(w)
               ELSE SetMem(w, o, HdfTable(grp, Sel(AlphaOrder, DOMAIN grp.ds), ""), "ok")

\* colfile_to_hdf (columnfile.py:556-602).  Titles are processed in order; the first existing
\* dataset of another length raises TypeError, what was written before stays.
WriteHdfFrom(w, x, p, g, fix) ==
    LET f == w.fs[p]
    IN IF x.k # "table" \/ IsTextLike(f) THEN Fail(w)
       ELSE LET base == IF f.k = "none" THEN EmptyHdf ELSE f
                old == IF g \in DOMAIN base.groups THEN base.groups[g].ds ELSE Empty
                n == Nrows(x)
                bad == {i \in 1..Len(x.titles) :
                          x.titles[i] \in DOMAIN old /\ Len(old[x.titles[i]].data) # n}
                stop == IF bad = {} THEN Len(x.titles) + 1 ELSE MinOf(bad)
                wr == {x.titles[i] : i \in 1..(stop - 1)}
                keep == IF fix /\ bad = {} THEN wr ELSE (DOMAIN old) \cup wr
                ds == [t \in keep |-> IF t \in wr THEN ToHdf(t, x.cols[t]) ELSE old[t]]
                grp == [tag |-> "peaks", ds |-> ds, src |-> IF bad = {} THEN x ELSE NoObj]
                nf == [k |-> "hdf", groups |-> [h \in (DOMAIN base.groups) \cup {g} |->
                                                   IF h = g THEN grp ELSE base.groups[h]]]
            IN SetFs(w, p, nf, IF bad = {} THEN "ok" ELSE "err")
WriteHdfOp(w, o, p, g, fix) == WriteHdfFrom(w, w.mem[o], p, g, fix)
\* colfile_to_hdf(<file name>, hdffile, name=g) (columnfile.py:574-577): the first argument is not a
\* columnfile object, the writer reads it with columnfile(name).  Source = the text file at the other path.
Other(p) == CHOOSE q \in Paths : q # p
ConvHdfOp(w, p, g, fix) == IF w.fs[Other(p)].k # "text" THEN Fail(w)
                           ELSE WriteHdfFrom(w, ParseText(w.fs[Other(p)], Other(p)), p, g, fix)
\* colfileobj_to_hdf (columnfile.py:604-624): create_group, refuses an existing group
WriteHdfObjOp(w, o, p, g) ==
    LET x == w.mem[o]
        f == w.fs[p]
    IN IF x.k # "table" \/ IsTextLike(f) THEN Fail(w)
       ELSE LET base == IF f.k = "none" THEN EmptyHdf ELSE f
            IN IF g \in DOMAIN base.groups THEN SetFs(w, p, base, "err")
               ELSE LET grp == [tag |-> "peaks",
                                ds |-> [t \in Range(x.titles) |-> ToHdf(t, x.cols[t])],
                                src |-> x]
                    IN SetFs(w, p, [k |-> "hdf", groups |-> [h \in (DOMAIN base.groups) \cup {g} |->
                                        IF h = g THEN grp ELSE base.groups[h]]], "ok")
\* cf.filter(mask) dropping the last row
DropRowOp(w, o) == LET x == w.mem[o]
                   IN IF x.k # "table" \/ Nrows(x) < 2 THEN Fail(w)
                      ELSE SetMem(w, o, [x EXCEPT !.cols = [t \in DOMAIN x.cols |-> SubSeq(x.cols[t], 1, Nrows(x) - 1)]], "ok")

\* ---- nearly equal values.  Grow9 rescales the mantissa to 9 digits, NudgeV adds one unit there (relative
\* change 1e-9..1e-8: far inside numpy.allclose's 1e-5, far outside a double's 1e-16); zero changes sign.
\* NudgeI adds 1 to an integral value (integer typed columns: 250000 -> 250001 is "close", 3 -> 4 is not).
Grow9(v) == LET k == 9 - NDig(v[2]) IN IF k <= 0 THEN v ELSE V(v[1], v[2] * Pow10(k), v[3] - k)
NudgeV(v) == IF v[2] = 0 THEN V(-v[1], 0, 0)
             ELSE LET s == Grow9(v) IN Canon(V(s[1], s[2] + 1, s[3]))
NudgeI(v) == LET c == Canon(v)
             IN IF c[2] = 0 THEN V(1, 1, 0)
                ELSE IF c[3] < 0 \/ c[3] > 4 \/ c[2] >= 100000 THEN NudgeV(v)
                ELSE LET n == c[1] * c[2] * Pow10(c[3]) + 1
                     IN IF n = 0 THEN Zero ELSE Canon(V(IF n < 0 THEN -1 ELSE 1, Abs(n), 0))
NudgeOp(w, o) == LET x == w.mem[o]
                 IN IF x.k # "table" THEN Fail(w)
                    ELSE SetMem(w, o, [x EXCEPT !.cols = [t \in DOMAIN x.cols |-> [i \in 1..Len(x.cols[t]) |->
                                          IF IsInt(t) \/ x.dt[t] = "i" THEN NudgeI(x.cols[t][i])
                                          ELSE NudgeV(x.cols[t][i])]]], "ok")
ASSUME /\ NudgeV(V(1, 5, -1)) = V(1, 500000001, -9) /\ NudgeV(Zero) = NegZero /\ NudgeV(NegZero) = Zero
       /\ NudgeV(V(1, 1234567891, -5)) = V(1, 1234567892, -5) /\ NudgeV(V(1, 1, 12)) = V(1, 100000001, 4)
       /\ NudgeI(V(1, 25, 4)) = V(1, 250001, 0) /\ NudgeI(V(-1, 1, 0)) = Zero /\ NudgeI(V(1, 3, 0)) = V(1, 4, 0)

\* ---- laws of the table family on one world
TextFiles(w) == {p \in Paths : w.fs[p].k = "text"}
TextRT(w) == \A p \in TextFiles(w) :
    LET f == w.fs[p]
        x == f.src
        r == ParseText(f, p)
    IN /\ r.titles = x.titles
       /\ Nrows(r) = Nrows(x)
       /\ \A t \in Range(x.titles) : \A i \in 1..Nrows(x) :
             /\ Bound(FmtOf(t), x.cols[t][i], r.cols[t][i])
             /\ r.cols[t][i] = Q(FmtOf(t), x.cols[t][i])
       /\ ParsPreserved(x.pars, r.pars)
StripT(f) == [pars |-> NoFilename(f.pars), titles |-> f.titles, cols |-> f.cols]
TextIdem(w) == \A p \in TextFiles(w) :
    StripT(RenderText(ParseText(w.fs[p], p))) = StripT(w.fs[p])
WrittenGroups(w) == {pg \in Paths \X Groups :
                       /\ w.fs[pg[1]].k = "hdf"
                       /\ pg[2] \in PeaksGroups(w.fs[pg[1]])
                       /\ w.fs[pg[1]].groups[pg[2]].src.k = "table"}
Grp(w, pg) == w.fs[pg[1]].groups[pg[2]]
HdfRT(w) == \A pg \in WrittenGroups(w) :
    LET grp == Grp(w, pg)
        x == grp.src
    IN \A t \in Range(x.titles) :
          /\ t \in DOMAIN grp.ds
          /\ grp.ds[t].ty = (IF IsInt(t) THEN "i" ELSE "f")
          /\ Len(grp.ds[t].data) = Nrows(x)
          /\ \A i \in 1..Nrows(x) :
                (~IsInt(t) \/ Integral(x.cols[t][i])) => SameNum(grp.ds[t].data[i], x.cols[t][i])
                /\ (~IsInt(t) => grp.ds[t].data[i] = x.cols[t][i])
HdfTitles(w) == \A pg \in WrittenGroups(w) : DOMAIN Grp(w, pg).ds = Range(Grp(w, pg).src.titles)
HdfReadable(w) == \A pg \in WrittenGroups(w) : Readable(Grp(w, pg))
HdfIdem(w) == \A pg \in WrittenGroups(w) :
    LET grp == Grp(w, pg) IN \A t \in DOMAIN grp.ds : (grp.ds[t].ty = "i") = IsInt(t) /\ ToHdf(t, grp.ds[t].data) = grp.ds[t]
\* an object read from any file is rectangular and typed as the file says
MemOK(w) == \A o \in Objs : w.mem[o].k = "table" =>
    LET x == w.mem[o] IN /\ DOMAIN x.cols = Range(x.titles)
                         /\ \A t \in DOMAIN x.cols : Len(x.cols[t]) = Nrows(x)
                         /\ Len(x.titles) = Cardinality(Range(x.titles))

TableOps == {"WriteText", "ReadText", "WriteHdf", "WriteHdfObj", "ReadHdf", "ReadAuto", "ReadMmap", "DropRow", "ConvHdf", "Nudge"}

-----------------------------------------------------------------------------
\* ============================ family "pars" ===============================
ParObj(f) == [k |-> "pars", pars |-> f]
ParSets == <<
  ParObj(("a" :> TI(V(1, 1, 0))) @@ ("b" :> TF(V(1, 5, -1))) @@ ("c" :> TS("abc"))),
  ParObj(("a" :> TI(V(-1, 3, 0))) @@ ("d" :> TF(NegZero)) @@ ("e" :> TF(V(1, 1, 12)))
         @@ ("f" :> TF(V(1, 1, -12))) @@ ("g" :> TF(V(1, 1234567891, -5)))),
  ParObj(("c" :> TS("a=b")) @@ ("h" :> TS("12")) @@ ("j" :> TF(V(1, 3, 0))) @@ ("k" :> TI(V(1, 1, 12)))
         @@ ("l" :> TS("P21/c")) @@ ("m" :> TS("1e5"))
         \* "0x10" is accepted by neither float() nor int(): a string; "1_000" is an int for python 3
         @@ ("x" :> TS("0x10")) @@ ("y" :> TS("1_000"))),
  ParObj(("t-u" :> TI(V(1, 5, 0))) @@ ("b" :> TF(V(1, 3, 0))) @@ ("z" :> TI(Zero)))
>>
RenderPars(x) == [k |-> "par", pars |-> [n \in DOMAIN x.pars |-> Spell(x.pars[n])], src |-> x]
\* loadparameters: name.replace("-","_"), update of the existing dictionary, dumbtypecheck of everything
LoadedNames(f) == {NameIn(n) : n \in DOMAIN f.pars}
Loaded(f) == [m \in LoadedNames(f) |-> Coerce(f.pars[CHOOSE n \in DOMAIN f.pars : NameIn(n) = m])]
Recheck(tv) == Coerce(Spell(tv))      \* dumbtypecheck on values already typed: strings are re-examined
SaveParsOp(w, o, p) == IF w.mem[o].k # "pars" THEN Fail(w) ELSE SetFs(w, p, RenderPars(w.mem[o]), "ok")
LoadFreshOp(w, p, o) == IF w.fs[p].k # "par" THEN Fail(w)
                        ELSE SetMem(w, o, ParObj(Loaded(w.fs[p])), "ok")
LoadIntoOp(w, p, o) ==
    IF w.fs[p].k # "par" \/ w.mem[o].k # "pars" THEN Fail(w)
    ELSE LET old == w.mem[o].pars
             new == Loaded(w.fs[p])
         IN SetMem(w, o, ParObj([n \in (DOMAIN old) \cup (DOMAIN new) |->
                                   IF n \in DOMAIN new THEN new[n] ELSE Recheck(old[n])]), "ok")
ParFiles(w) == {p \in Paths : w.fs[p].k = "par"}
ParRT(w) == \A p \in ParFiles(w) : ParsPreserved(w.fs[p].src.pars, Loaded(w.fs[p]))
ParIdem(w) == \A p \in ParFiles(w) :
    \* the "-" -> "_" renaming is outside the domain; on the domain the file is a fixed point
    (\A n \in DOMAIN w.fs[p].pars : NameIn(n) = n) => RenderPars(ParObj(Loaded(w.fs[p]))).pars = w.fs[p].pars
ParOps == {"SavePars", "LoadFresh", "LoadInto"}

-----------------------------------------------------------------------------
\* ============================ family "grains" =============================
\* ii = the optional intensity_info string (grain.py:326 / STRINGATTRS), "" = attribute absent.  The
\* property names UBI, translation, names and peak counts; intensity_info is carried because its
\* line sits between #name and #npks in the text file (a damaged line damages its neighbours).
\* The "#Rod" line that write_grain_file always emits is derived from the UBI and is not modelled.
Gr7(ubi, tr, hasnm, nm, npks, nuniq, ii) ==
    [ubi |-> ubi, tr |-> tr, hasnm |-> hasnm, nm |-> nm, npks |-> npks, nuniq |-> nuniq, ii |-> ii]
Gr(ubi, tr, hasnm, nm, npks, nuniq) == Gr7(ubi, tr, hasnm, nm, npks, nuniq, "")
I(n) == V(1, n, 0)
UbiA == << V(1, 1234567891, -9), V(1, 5, -1), NegZero,
           Zero, V(1, 1001953125, -9), V(1, 3125, -5),
           V(1, 1, -12), V(1, 25, -2), V(1, 1005859375, -9) >>
UbiB == << I(3), Zero, Zero, Zero, I(3), Zero, Zero, Zero, I(3) >>
UbiC == << I(2), V(-1, 78125, -7), Zero, V(1, 78125, -7), I(2), Zero, Zero, Zero, V(1, 4123457, -6) >>
GrA == Gr7(UbiA, << V(1, 1000005, 0), NegZero, V(1, 1, -12) >>, TRUE, "g one", 17, 12,
           "sum_of_all = 123.5 , middle 4 = 1e3")
GrB == Gr(UbiB, << >>, TRUE, "0:UBI_2.flt", -1, -1)
GrC == Gr(UbiC, << V(1, 1015625, -6), V(-1, 1046875, -6), V(1, 1234567891, -5) >>, FALSE, "", 5, -1)
GrD == Gr7(UbiB, << >>, FALSE, "", -1, -1, "no_name mean = 2")
GLists == << [k |-> "grains", gl |-> <<GrA, GrB, GrC>>],
             [k |-> "grains", gl |-> <<GrC, GrD>>],
             [k |-> "grains", gl |-> <<GrB>>] >>
QGrain(g) == [g EXCEPT !.ubi = [i \in 1..9 |-> Q("g9", g.ubi[i])],
                       !.tr = [i \in 1..Len(g.tr) |-> Q("g6", g.tr[i])]]
Bare(u) == Gr(u, << >>, FALSE, "", -1, -1)
RenderGrains(x) == [k |-> "gtext", gl |-> [i \in 1..Len(x.gl) |-> QGrain(x.gl[i])], src |-> x]
RenderUbis(x) == [k |-> "utext", ubis |-> [i \in 1..Len(x.gl) |-> [j \in 1..9 |-> Q("f6", x.gl[i].ubi[j])]], src |-> x]
GObj(gl) == [k |-> "grains", gl |-> gl]
WriteGrainsOp(w, o, p) == IF w.mem[o].k # "grains" THEN Fail(w) ELSE SetFs(w, p, RenderGrains(w.mem[o]), "ok")
WriteUbisOp(w, o, p) == IF w.mem[o].k # "grains" THEN Fail(w) ELSE SetFs(w, p, RenderUbis(w.mem[o]), "ok")
ReadGrainsOp(w, p, o) == LET f == w.fs[p]
                         IN IF f.k = "gtext" THEN SetMem(w, o, GObj(f.gl), "ok")
                            ELSE IF f.k = "utext" THEN SetMem(w, o, GObj([i \in 1..Len(f.ubis) |-> Bare(f.ubis[i])]), "ok")
                            ELSE Fail(w)
ReadUbisOp(w, p, o) == LET f == w.fs[p]
                       IN IF f.k = "gtext" THEN SetMem(w, o, GObj([i \in 1..Len(f.gl) |-> Bare(f.gl[i].ubi)]), "ok")
                          ELSE IF f.k = "utext" THEN SetMem(w, o, GObj([i \in 1..Len(f.ubis) |-> Bare(f.ubis[i])]), "ok")
                          ELSE Fail(w)
\* write_grain_file_h5: create_group(group_name) -> refuses an existing group
WriteGrainsH5Op(w, o, p, g) ==
    LET x == w.mem[o]
        f == w.fs[p]
    IN IF x.k # "grains" \/ IsTextLike(f) THEN Fail(w)
       ELSE LET base == IF f.k = "none" THEN EmptyHdf ELSE f
            IN IF g \in DOMAIN base.groups THEN SetFs(w, p, base, "err")
               ELSE SetFs(w, p, [k |-> "hdf", groups |-> [h \in (DOMAIN base.groups) \cup {g} |->
                         IF h = g THEN [tag |-> "grains", gl |-> x.gl, src |-> x] ELSE base.groups[h]]], "ok")
ReadGrainsH5Op(w, p, g, o) ==
    LET f == w.fs[p]
    IN IF f.k # "hdf" \/ g \notin DOMAIN f.groups THEN Fail(w)
       ELSE SetMem(w, o, GObj(f.groups[g].gl), "ok")
\* grain.to_h5py_group(parent, "0") for the first grain of o into an existing grains group
\* (docstring: "Uses require_group to modify existing data if present").  Intended: what the
\* new grain has replaces what is stored; what it lacks (translation None, no name, no npks)
\* is left alone (nothing in the writer removes datasets).
MergeGrain(old, new) ==
    [ubi |-> new.ubi,
     tr |-> IF Len(new.tr) = 0 THEN old.tr ELSE new.tr,
     hasnm |-> old.hasnm \/ new.hasnm,
     nm |-> IF new.hasnm THEN new.nm ELSE old.nm,
     npks |-> IF new.npks < 0 THEN old.npks ELSE new.npks,
     nuniq |-> IF new.nuniq < 0 THEN old.nuniq ELSE new.nuniq,
     ii |-> IF new.ii = "" THEN old.ii ELSE new.ii]
PutGrainH5Op(w, o, p, g) ==
    LET x == w.mem[o]
        f == w.fs[p]
    IN IF x.k # "grains" \/ f.k # "hdf" \/ g \notin DOMAIN f.groups THEN Fail(w)
       ELSE LET old == f.groups[g]
                ngl == [i \in 1..Len(old.gl) |-> IF i = 1 THEN MergeGrain(old.gl[1], x.gl[1]) ELSE old.gl[i]]
            IN SetFs(w, p, [f EXCEPT !.groups[g] = [tag |-> "grains", gl |-> ngl, src |-> GObj(ngl)]], "ok")
ReverseOp(w, o) == IF w.mem[o].k # "grains" THEN Fail(w) ELSE SetMem(w, o, GObj(Rev(w.mem[o].gl)), "ok")

GrainRT(w) == \A p \in Paths : w.fs[p].k = "gtext" =>
    LET f == w.fs[p]
        x == f.src
    IN /\ Len(f.gl) = Len(x.gl)
       /\ \A i \in 1..Len(x.gl) :
            /\ \A j \in 1..9 : Bound("g9", x.gl[i].ubi[j], f.gl[i].ubi[j])
            /\ Len(f.gl[i].tr) = Len(x.gl[i].tr)
            /\ \A j \in 1..Len(x.gl[i].tr) : Bound("g6", x.gl[i].tr[j], f.gl[i].tr[j])
            /\ f.gl[i].hasnm = x.gl[i].hasnm /\ f.gl[i].nm = x.gl[i].nm
            /\ f.gl[i].npks = x.gl[i].npks /\ f.gl[i].nuniq = x.gl[i].nuniq
            /\ f.gl[i].ii = x.gl[i].ii
GrainIdem(w) == \A p \in Paths : w.fs[p].k = "gtext" => RenderGrains(GObj(w.fs[p].gl)).gl = w.fs[p].gl
UbiRT(w) == \A p \in Paths : w.fs[p].k = "utext" =>
    LET f == w.fs[p] IN /\ Len(f.ubis) = Len(f.src.gl)
                        /\ \A i \in 1..Len(f.ubis) : \A j \in 1..9 : Bound("f6", f.src.gl[i].ubi[j], f.ubis[i][j])
                        /\ RenderUbis(GObj([i \in 1..Len(f.ubis) |-> Bare(f.ubis[i])])).ubis = f.ubis
GrainH5RT(w) == \A p \in Paths : w.fs[p].k = "hdf" =>
    \A g \in DOMAIN w.fs[p].groups : w.fs[p].groups[g].gl = w.fs[p].groups[g].src.gl
GrainOps == {"WriteGrains", "ReadGrains", "WriteUbis", "ReadUbis", "WriteGrainsH5", "ReadGrainsH5", "PutGrainH5", "Reverse"}

-----------------------------------------------------------------------------
\* ============================ family "sparse" =============================
Px(ty, data, hasmeta, meta) == [ty |-> ty, data |-> data, hasmeta |-> hasmeta, meta |-> meta]
Frame(shape, row, col, pxo, px) == [k |-> "sparse", shape |-> shape, row |-> row, col |-> col, pxo |-> pxo, px |-> px]
MetaI == ("threshold" :> TI(I(3))) @@ ("filename" :> TS("x.edf"))
Frames == <<
  \* 1: two pixel arrays, no meta
  Frame(<<4, 5>>, <<0, 1>>, <<2, 3>>, <<"intensity", "labels">>,
        ("intensity" :> Px("f", <<V(1, 15, -1), NegZero>>, FALSE, Empty))
        @@ ("labels" :> Px("i", <<I(1), I(2)>>, FALSE, Empty))),
  \* 2: one pixel array (strict subset of 1), same nnz, other positions
  Frame(<<4, 5>>, <<0, 2>>, <<1, 1>>, <<"intensity">>,
        ("intensity" :> Px("f", <<V(1, 95, -1), I(10)>>, FALSE, Empty))),
  \* 3: other nnz, other shape
  Frame(<<8, 9>>, <<0, 1, 3>>, <<2, 3, 4>>, <<"intensity">>,
        ("intensity" :> Px("f", <<V(1, 15, -1), V(1, 1, -12), I(4)>>, FALSE, Empty))),
  \* 4: with meta (the from_data_mask / from_data_cut shape of frame)
  Frame(<<4, 5>>, <<1, 3>>, <<0, 4>>, <<"intensity">>,
        ("intensity" :> Px("f", <<I(7), V(1, 1234567891, -5)>>, TRUE, MetaI)))
>>
Nnz(x) == Len(x.row)
WriteSparseOp(w, o, p, g, fix) ==
    LET x == w.mem[o]
        f == w.fs[p]
    IN IF x.k # "sparse" \/ IsTextLike(f) THEN Fail(w)
       ELSE LET base == IF f.k = "none" THEN EmptyHdf ELSE f
                isold == g \in DOMAIN base.groups
                old == IF isold THEN base.groups[g] ELSE [tag |-> "sparse", shape |-> x.shape, row |-> << >>, col |-> << >>, px |-> Empty, src |-> NoObj]
                mismatch == isold /\ Len(old.row) # Nnz(x)
                wr == Range(x.pxo)
                keep == IF fix THEN wr ELSE (DOMAIN old.px) \cup wr
                npx == [n \in keep |-> IF n \in wr
                                       THEN [ty |-> x.px[n].ty, data |-> x.px[n].data,
                                             \* attrs.update(): keys of the new meta override, others stay
                                             meta |-> LET om == IF n \in DOMAIN old.px THEN old.px[n].meta ELSE Empty
                                                          nm == IF x.px[n].hasmeta THEN x.px[n].meta ELSE Empty
                                                      IN [q \in (DOMAIN om) \cup (DOMAIN nm) |->
                                                            IF q \in DOMAIN nm THEN nm[q] ELSE om[q]]]
                                       ELSE old.px[n]]
                \* group.attrs (shape) are written before the first require_dataset can fail
                grp == IF mismatch THEN [old EXCEPT !.shape = x.shape, !.src = NoObj]
                       ELSE [tag |-> "sparse", shape |-> x.shape, row |-> x.row, col |-> x.col, px |-> npx, src |-> x]
            IN SetFs(w, p, [k |-> "hdf", groups |-> [h \in (DOMAIN base.groups) \cup {g} |->
                               IF h = g THEN grp ELSE base.groups[h]]], IF mismatch THEN "err" ELSE "ok")
ReadSparseOp(w, p, g, o) ==
    LET f == w.fs[p]
    IN IF f.k # "hdf" \/ g \notin DOMAIN f.groups THEN Fail(w)
       ELSE LET grp == f.groups[g]
                names == Sel(<<"intensity", "labels">>, DOMAIN grp.px)       \* list(group): alphabetical
            IN SetMem(w, o, Frame(grp.shape, grp.row, grp.col, names,
                        [n \in DOMAIN grp.px |-> Px(grp.px[n].ty, grp.px[n].data, TRUE, grp.px[n].meta)]), "ok")
SparseGroups(w) == {pg \in Paths \X Groups : /\ w.fs[pg[1]].k = "hdf" /\ pg[2] \in DOMAIN w.fs[pg[1]].groups
                                             /\ w.fs[pg[1]].groups[pg[2]].src.k = "sparse"}
SparseRT(w) == \A pg \in SparseGroups(w) :
    LET grp == Grp(w, pg)
        x == grp.src
    IN /\ grp.shape = x.shape /\ grp.row = x.row /\ grp.col = x.col
       /\ \A n \in Range(x.pxo) : /\ n \in DOMAIN grp.px
                                  /\ grp.px[n].ty = x.px[n].ty /\ grp.px[n].data = x.px[n].data
                                  /\ \A q \in DOMAIN x.px[n].meta :
                                        q \in DOMAIN grp.px[n].meta /\ grp.px[n].meta[q] = x.px[n].meta[q]
SparseNames(w) == \A pg \in SparseGroups(w) : DOMAIN Grp(w, pg).px = Range(Grp(w, pg).src.pxo)
SparseOps == {"WriteSparse", "ReadSparse"}

-----------------------------------------------------------------------------
\* ============================ the state machine ===========================
SeedObj(i) == CASE Family = "table" -> Tables[i]
                [] Family = "pars" -> ParSets[i]
                [] Family = "grains" -> GLists[i]
                [] Family = "sparse" -> Frames[i]

Op(name, o, p, g) == [op |-> name, o |-> o, p |-> p, g |-> g, sd |-> << >>]

Apply(w, a, fix) ==
    CASE a.op = "WriteText"     -> WriteTextOp(w, a.o, a.p)
      [] a.op = "ReadText"      -> ReadTextOp(w, a.p, a.o)
      [] a.op = "WriteHdf"      -> WriteHdfOp(w, a.o, a.p, a.g, fix)
      [] a.op = "WriteHdfObj"   -> WriteHdfObjOp(w, a.o, a.p, a.g)
      [] a.op = "ReadHdf"       -> ReadHdfOp(w, a.p, a.g, a.o)
      [] a.op = "ReadAuto"      -> ReadAutoOp(w, a.p, a.o)
      [] a.op = "ReadMmap"      -> ReadMmapOp(w, a.p, a.g, a.o)
      [] a.op = "DropRow"       -> DropRowOp(w, a.o)
      [] a.op = "ConvHdf"       -> ConvHdfOp(w, a.p, a.g, fix)
      [] a.op = "Nudge"         -> NudgeOp(w, a.o)
      [] a.op = "SavePars"      -> SaveParsOp(w, a.o, a.p)
      [] a.op = "LoadFresh"     -> LoadFreshOp(w, a.p, a.o)
      [] a.op = "LoadInto"      -> LoadIntoOp(w, a.p, a.o)
      [] a.op = "WriteGrains"   -> WriteGrainsOp(w, a.o, a.p)
      [] a.op = "ReadGrains"    -> ReadGrainsOp(w, a.p, a.o)
      [] a.op = "WriteUbis"     -> WriteUbisOp(w, a.o, a.p)
      [] a.op = "ReadUbis"      -> ReadUbisOp(w, a.p, a.o)
      [] a.op = "WriteGrainsH5" -> WriteGrainsH5Op(w, a.o, a.p, a.g)
      [] a.op = "ReadGrainsH5"  -> ReadGrainsH5Op(w, a.p, a.g, a.o)
      [] a.op = "PutGrainH5"    -> PutGrainH5Op(w, a.o, a.p, a.g)
      [] a.op = "Reverse"       -> ReverseOp(w, a.o)
      [] a.op = "WriteSparse"   -> WriteSparseOp(w, a.o, a.p, a.g, fix)
      [] a.op = "ReadSparse"    -> ReadSparseOp(w, a.p, a.g, a.o)

\* an operation is offered when it is meaningful in both worlds: files that do not exist are not
\* read, reads of a group need an hdf file, DropRow needs two rows.  Everything else (wrong
\* lengths, existing groups, several groups, ragged groups) is offered and may fail.
Exists(p) == wa.fs[p].k # "none"
IsHdf(p) == wa.fs[p].k = "hdf"
Step(a) == /\ depth < MaxDepth
           /\ wa' = Apply(wa, a, FALSE)
           /\ wf' = Apply(wf, a, TRUE)
           /\ hist' = Append(hist, a)
           /\ depth' = depth + 1

WriteText == "WriteText" \in OpNames /\ \E o \in Objs, p \in Paths : Step(Op("WriteText", o, p, ""))
ReadText == "ReadText" \in OpNames /\ \E o \in Objs, p \in Paths : Exists(p) /\ Step(Op("ReadText", o, p, ""))
WriteHdf == "WriteHdf" \in OpNames /\ \E o \in Objs, p \in Paths, g \in Groups : Step(Op("WriteHdf", o, p, g))
WriteHdfObj == "WriteHdfObj" \in OpNames /\ \E o \in Objs, p \in Paths, g \in Groups : Step(Op("WriteHdfObj", o, p, g))
ReadHdf == "ReadHdf" \in OpNames /\ \E o \in Objs, p \in Paths, g \in Groups : IsHdf(p) /\ Step(Op("ReadHdf", o, p, g))
ReadAuto == "ReadAuto" \in OpNames /\ \E o \in Objs, p \in Paths : IsHdf(p) /\ Step(Op("ReadAuto", o, p, ""))
ReadMmap == "ReadMmap" \in OpNames /\ \E o \in Objs, p \in Paths, g \in Groups : IsHdf(p) /\ Step(Op("ReadMmap", o, p, g))
DropRow == "DropRow" \in OpNames /\ \E o \in Objs : /\ wa.mem[o].k = "table" /\ wf.mem[o].k = "table"
                           /\ Nrows(wa.mem[o]) >= 2 /\ Nrows(wf.mem[o]) >= 2
                           /\ Step(Op("DropRow", o, "", ""))
ConvHdf == "ConvHdf" \in OpNames /\ \E p \in Paths, g \in Groups :
               /\ Cardinality(Paths) = 2 /\ wa.fs[Other(p)].k = "text" /\ wf.fs[Other(p)].k = "text"
               /\ Step(Op("ConvHdf", "", p, g))
Nudge == "Nudge" \in OpNames /\ \E o \in Objs : /\ wa.mem[o].k = "table" /\ wf.mem[o].k = "table"
                                               /\ Step(Op("Nudge", o, "", ""))
SavePars == "SavePars" \in OpNames /\ \E o \in Objs, p \in Paths : Step(Op("SavePars", o, p, ""))
LoadFresh == "LoadFresh" \in OpNames /\ \E o \in Objs, p \in Paths : Exists(p) /\ Step(Op("LoadFresh", o, p, ""))
LoadInto == "LoadInto" \in OpNames /\ \E o \in Objs, p \in Paths : Exists(p) /\ Step(Op("LoadInto", o, p, ""))
WriteGrains == "WriteGrains" \in OpNames /\ \E o \in Objs, p \in Paths : Step(Op("WriteGrains", o, p, ""))
ReadGrains == "ReadGrains" \in OpNames /\ \E o \in Objs, p \in Paths : Exists(p) /\ ~IsHdf(p) /\ Step(Op("ReadGrains", o, p, ""))
WriteUbis == "WriteUbis" \in OpNames /\ \E o \in Objs, p \in Paths : Step(Op("WriteUbis", o, p, ""))
ReadUbis == "ReadUbis" \in OpNames /\ \E o \in Objs, p \in Paths : Exists(p) /\ ~IsHdf(p) /\ Step(Op("ReadUbis", o, p, ""))
WriteGrainsH5 == "WriteGrainsH5" \in OpNames /\ \E o \in Objs, p \in Paths, g \in Groups : Step(Op("WriteGrainsH5", o, p, g))
ReadGrainsH5 == "ReadGrainsH5" \in OpNames /\ \E o \in Objs, p \in Paths, g \in Groups :
                   IsHdf(p) /\ g \in DOMAIN wa.fs[p].groups /\ Step(Op("ReadGrainsH5", o, p, g))
PutGrainH5 == "PutGrainH5" \in OpNames /\ \E o \in Objs, p \in Paths, g \in Groups :
                   IsHdf(p) /\ g \in DOMAIN wa.fs[p].groups /\ Step(Op("PutGrainH5", o, p, g))
Reverse == "Reverse" \in OpNames /\ \E o \in Objs : Len(wa.mem[o].gl) >= 2 /\ Step(Op("Reverse", o, "", ""))
WriteSparse == "WriteSparse" \in OpNames /\ \E o \in Objs, p \in Paths, g \in Groups : Step(Op("WriteSparse", o, p, g))
ReadSparse == "ReadSparse" \in OpNames /\ \E o \in Objs, p \in Paths, g \in Groups :
                   IsHdf(p) /\ g \in DOMAIN wa.fs[p].groups /\ Step(Op("ReadSparse", o, p, g))

Init == \E sd \in SeedTuples :
           /\ wa = World([p \in Paths |-> NoFile],
                         [o \in Objs |-> SeedObj(sd[CHOOSE i \in DOMAIN ObjSeq : ObjSeq[i] = o])], "ok")
           /\ wf = wa
           /\ hist = << [op |-> "init", o |-> "", p |-> "", g |-> "", sd |-> sd] >>
           /\ depth = 0

\* a plain disjunction of named actions (TLC reports coverage per action); OpNames selects the family
Next == \/ WriteText \/ ReadText \/ WriteHdf \/ WriteHdfObj \/ ReadHdf \/ ReadAuto \/ ReadMmap \/ DropRow \/ ConvHdf \/ Nudge
        \/ SavePars \/ LoadFresh \/ LoadInto
        \/ WriteGrains \/ ReadGrains \/ WriteUbis \/ ReadUbis \/ WriteGrainsH5 \/ ReadGrainsH5 \/ PutGrainH5 \/ Reverse
        \/ WriteSparse \/ ReadSparse
Spec == Init /\ [][Next]_vars

-----------------------------------------------------------------------------
\* invariants
Laws(w, strict) ==
    CASE Family = "table" -> /\ TextRT(w) /\ TextIdem(w) /\ HdfRT(w) /\ HdfIdem(w) /\ MemOK(w)
                             /\ (strict => HdfTitles(w) /\ HdfReadable(w))
      [] Family = "pars" -> ParRT(w) /\ ParIdem(w)
      [] Family = "grains" -> GrainRT(w) /\ GrainIdem(w) /\ UbiRT(w) /\ GrainH5RT(w)
      [] Family = "sparse" -> SparseRT(w) /\ (strict => SparseNames(w))
InvFixed == Laws(wf, TRUE)
InvAsIs == Laws(wa, FALSE)
InvStale == Laws(wa, TRUE)          \* expected to be violated (F11)
TypeOK == /\ depth = Len(hist) - 1
          /\ wa.res \in {"ok", "err"} /\ wf.res \in {"ok", "err"}
          /\ \A p \in Paths : (wa.fs[p].k = "none") = (wf.fs[p].k = "none")

\* ---- seed tuples (initial contents of o1, o2) used by the cfg files
SeedsTabQ == {<<1, 2>>, <<1, 3>>, <<4, 5>>, <<6, 3>>}
SeedsTabT == {<<1, 2>>, <<1, 3>>, <<4, 5>>, <<6, 3>>, <<5, 1>>, <<2, 4>>}
SeedsStale == {<<1, 2>>}
SeedsTitle == {<<7, 7>>}
SeedsNear == {<<8, 8>>}
SeedsPar == {<<1, 2>>, <<3, 4>>, <<2, 3>>, <<4, 1>>}
SeedsGr == {<<1, 2>>, <<2, 3>>, <<3, 1>>}
SeedsSp == {<<1, 2>>, <<1, 3>>, <<4, 2>>, <<3, 4>>}

\* ---- emission: one JSON record per distinct (state, depth)
StripGroup(g) == [f \in (DOMAIN g) \ {"src"} |-> g[f]]
StripFile(f) == IF f.k = "hdf" THEN [k |-> "hdf", groups |-> [g \in DOMAIN f.groups |-> StripGroup(f.groups[g])]]
                ELSE [x \in (DOMAIN f) \ {"src"} |-> f[x]]
Proj(w) == [fs |-> [p \in Paths |-> StripFile(w.fs[p])], mem |-> w.mem, res |-> w.res]
Emit == ~EmitOn \/ PrintT("@@" \o ToJson([h |-> hist, a |-> Proj(wa),
                                          f |-> IF wf = wa THEN [same |-> TRUE] ELSE Proj(wf)]))
=============================================================================

\* self-test of the invariants: second store dropped must violate SweepLegal (no progress with nbad > 0)
SPECIFICATION Spec
CONSTANTS
  NSet = {1,2,3}
  ESet = {0,1,2}
  Threads = {t1, t2}
  Static = FALSE
  OrdSet = {0}
  History = TRUE
  DoEmit = FALSE
  Bug = "onewrite"
  Hist = 0
  DsHist = 0
  DsOps = {}
  NMon = 0
  Neg = FALSE
  Shape = "sorted"
SYMMETRY Sym
INVARIANT TypeOK
INVARIANT InComp
INVARIANT MinFixed
INVARIANT LocalsOK
INVARIANT ZeroAgree
INVARIANT Fixpoint
INVARIANT FixReadsRoot
INVARIANT CleanOK
INVARIANT MergeOK
INVARIANT SweepLegal
INVARIANT SeqExact
INVARIANT EmitInv
CHECK_DEADLOCK FALSE

------------------------------ MODULE SparseCP ------------------------------
(***************************************************************************)
(* cImageD11.sparse_connectedpixels and sparse_connectedpixels_splat       *)
(* (src/sparse_image.c:164-377) on a sorted coordinate list, and the       *)
(* argument handling of their Python wrapper                               *)
(* sparseframe.sparse_connected_pixels (ImageD11/sparseframe.py:585-603).  *)
(*                                                                         *)
(* input     tern : pixel -> 0 absent / 1 listed, not above threshold /    *)
(*                           2 listed, above threshold                     *)
(*           the coo list (ii, jj, vv) is the row-major list of listed     *)
(*           pixels; 8-connectivity only (as the kernels)                  *)
(*           "threshold" in tern is the threshold of the STATEMENT: the    *)
(*           number the caller requested (see Stated below)                *)
(* variables alg ("sparse" | "splat" | "frame" = the wrapper: it resolves  *)
(*           its arguments and then runs the sparse kernel), k (next list  *)
(*           position), pp (the persistent row-above pointer),             *)
(*           labels (inout, POISON), S, Z                                  *)
(*           (the caller's scratch for splat: (NS+ZPI+2)x(NF+ZPJ+2), any   *)
(*           previous content = POISON; ZPI, ZPJ >= 0 model a caller that  *)
(*           passes ni, nj larger than the frame, as a reused work buffer  *)
(*           for a bigger detector does: the stride changes, the cells     *)
(*           read must still all have been zeroed first), pc               *)
(*           oob (an index left its array), rdpoison (an undefined cell    *)
(*           was read)                                                     *)
(*           option arguments of the wrapper call (alg = "frame"; the      *)
(*           kernels themselves have none - NOISY is a compile-time 0):    *)
(*           targ  class of the `threshold` argument, a member of TARGS:   *)
(*                 "none" (None: the documented default, the cut recorded  *)
(*                 in frame.meta[data_name]["threshold"]), "zero" (exactly *)
(*                 0: int 0, 0.0, -0.0, numpy scalars; what                *)
(*                 lima_segmenter.clean passes), "neg", "pos"              *)
(*           rec   the cut recorded in the frame's meta data, a member of  *)
(*                 RECS, relative to the requested number: "absent" (no    *)
(*                 record), "same", "below", "above" (a different number;  *)
(*                 the harness puts listed pixels on both sides of it)     *)
(*           names member of NAMES: "default" (label_name, data_name       *)
(*                 omitted) or "named" (data_name="f32", label_name="cp"   *)
(*                 next to an "intensity" array that is a decoy)           *)
(*           used  which number the kernel receives: "unset" until Wrap,   *)
(*                 then "requested" or "recorded"                          *)
(* actions   Wrap (sparseframe.py:596-597 `if threshold is None:           *)
(*           threshold = frame.meta[data_name]["threshold"]`),             *)
(*           SpSkip / SpFirst / SpRow0 / SpNoRowAbove / SpWalk (branches   *)
(*           of the sparse loop body incl. its three `goto newlabel`),     *)
(*           ZeroZ / SplatSkip / SplatPixel, Compress, Relabel             *)
(* checked   InBounds, NoPoisonRead, DsInv everywhere; WrapOK: once the    *)
(*           wrapper has resolved its arguments the kernel is given the    *)
(*           number of the statement (Stated: the requested threshold,     *)
(*           whatever its value; the recorded cut only when None was       *)
(*           passed) - independent definition "label 0 iff value <= the    *)
(*           threshold REQUESTED"; at done: labels 0                       *)
(*           exactly on the not-above pixels, partition = 8-connected      *)
(*           components, numbering 1..n in raster order (=> identical to   *)
(*           the dense kernel), np = n                                     *)
(* not modelled  threshold=None on a frame without a recorded cut (the     *)
(*           statement names no threshold there; the code raises KeyError) *)
(* options   every emitted case carries its option arguments (targ, rec,   *)
(*           names for "frame"); the enumeration is images x ALGS x TARGS  *)
(*           x RECS x NAMES and the harness replays each case with exactly *)
(*           these classes (numbers, Python types and the way the frame is *)
(*           built rotate with the case index).                            *)
(* BUG_SPLAT = TRUE models the pinned tree: splat leaves labels of         *)
(*           sub-threshold entries unwritten (finding F14)                 *)
(* WRAP_FALSY = TRUE models a wrapper that tests `not threshold` instead   *)
(*           of `threshold is None` (vacuity of WrapOK: it must fail)      *)
(***************************************************************************)
EXTENDS Dset, Json

CONSTANTS NS, NF, CAP, ALGS, BUG_SPLAT, EmitOn, ZPI, ZPJ, TARGS, RECS, NAMES, WRAP_FALSY
POISON == -7
N == NS * NF
Px == 0..(N - 1)
Row(p) == p \div NF
ColOf(p) == p % NF

VARIABLES tern, px, alg, k, pp, labels, S, Z, pc, T, np, oob, rdpoison, targ, rec, names, used
vars == <<tern, px, alg, k, pp, labels, S, Z, pc, T, np, oob, rdpoison, targ, rec, names, used>>

\* px : the row-major list of listed pixels (computed once in Init; 1-based sequence)
PixList(t) == LET F[p \in -1..(N - 1)] == IF p = -1 THEN <<>>
                                          ELSE IF t[p] > 0 THEN Append(F[p - 1], p) ELSE F[p - 1]
              IN F[N - 1]
nnz == Len(px)
PixAtF == [e \in 0..(nnz - 1) |-> px[e + 1]]
ii(e) == Row(px[e + 1])
jj(e) == ColOf(px[e + 1])
above(e) == tern[px[e + 1]] = 2

JD == NF + 2 + ZPJ
ZN == (NS + 2 + ZPI) * JD
ZPos(e) == (ii(e) + 1) * JD + (jj(e) + 1)

Init == /\ tern \in [Px -> {0, 1, 2}]
        /\ px = PixList(tern)
        /\ alg \in ALGS
        /\ k = 0 /\ pp = 0
        /\ labels = [e \in 0..(Len(PixList(tern)) - 1) |-> POISON]
        /\ S = DsInit(CAP)
        /\ Z = [z \in 0..(ZN - 1) |-> POISON]
        /\ pc = IF alg = "splat" THEN "zero" ELSE IF alg = "frame" THEN "wrap" ELSE "scan"
        /\ T = <<>> /\ np = -1 /\ oob = FALSE /\ rdpoison = FALSE
        /\ used = "unset"
        /\ IF alg = "frame"
           THEN /\ targ \in TARGS /\ rec \in RECS /\ names \in NAMES
                \* None: the recorded cut IS the threshold of the statement (and there has to be one)
                /\ (targ = "none") => (rec = "same")
           ELSE targ = "direct" /\ rec = "absent" /\ names = "direct"

Same == UNCHANGED <<tern, px, alg, T, np, targ, rec, names, used>>

\* ---------------- sparseframe.sparse_connected_pixels: argument handling --------------------
\* the threshold the statement speaks of: the one requested; None requests the recorded cut
Stated(ta) == IF ta = "none" THEN "recorded" ELSE "requested"
\* Python: `threshold is None` holds for None only; `not threshold` also for every zero
IsNone(ta) == ta = "none"
Falsy(ta) == ta \in {"none", "zero"}
Wrap == /\ pc = "wrap" /\ pc' = "scan"
        /\ used' = IF (IF WRAP_FALSY THEN Falsy(targ) ELSE IsNone(targ)) THEN "recorded" ELSE "requested"
        /\ UNCHANGED <<tern, px, alg, k, pp, labels, S, Z, T, np, oob, rdpoison, targ, rec, names>>

\* ---------------- sparse_connectedpixels --------------------------------------------------
Finish(lab0, st, newpp) ==
  /\ pp' = newpp /\ k' = k + 1 /\ oob' = oob
  /\ IF st.x = 0
     THEN LET nw == DsNew(st.S) IN labels' = [lab0 EXCEPT ![k] = nw[2]] /\ S' = nw[1]
     ELSE labels' = [lab0 EXCEPT ![k] = st.x] /\ S' = st.S
OutOfBounds == oob' = TRUE /\ UNCHANGED <<k, pp, labels, S>>

SpScan == pc = "scan" /\ alg \in {"sparse", "frame"} /\ k < nnz /\ ~oob
\* west neighbour: previous list entry, same row, adjacent column, labelled
West(lab0) == IF k > 0 /\ jj(k - 1) + 1 = jj(k) /\ ii(k - 1) = ii(k) /\ lab0[k - 1] > 0
              THEN lab0[k - 1] ELSE 0

\* while (ir > i[pp]) pp++     (-1 = ran off the end of the list)
RECURSIVE W1(_, _)
W1(q, ir) == IF q >= nnz THEN -1 ELSE IF ir > ii(q) THEN W1(q + 1, ir) ELSE q
\* while (((j[k] - j[pp]) > 1) && (i[pp] == ir)) pp++
RECURSIVE W2(_, _)
W2(q, ir) == IF q >= nnz THEN -1 ELSE IF (jj(k) - jj(q)) > 1 /\ ii(q) = ir THEN W2(q + 1, ir) ELSE q
\* for (p = pp; j[p] <= j[k] + 1; p++) { if (i[p] == ir) { if (labels[p] > 0) match } else break }
RECURSIVE ForP(_, _, _, _)
ForP(p, ir, lab0, st) ==
  IF p >= nnz THEN [st EXCEPT !.bad = TRUE]
  ELSE IF jj(p) <= jj(k) + 1
       THEN IF ii(p) = ir
            THEN ForP(p + 1, ir, lab0, IF lab0[p] > 0 THEN [Match(st, lab0[p]) EXCEPT !.rd = st.rd \/ lab0[p] = POISON]
                                        ELSE [st EXCEPT !.rd = st.rd \/ lab0[p] = POISON])
            ELSE st
       ELSE st

SpSkip == /\ SpScan /\ ~above(k)
          /\ labels' = [labels EXCEPT ![k] = 0] /\ k' = k + 1
          /\ UNCHANGED <<pp, S, Z, pc, oob, rdpoison>> /\ Same
SpFirst == /\ SpScan /\ above(k) /\ k = 0
           /\ Finish([labels EXCEPT ![k] = 0], [x |-> 0, S |-> S], pp)
           /\ UNCHANGED <<Z, pc, rdpoison>> /\ Same
SpRow0 == /\ SpScan /\ above(k) /\ k > 0 /\ ii(k) = 0
          /\ LET lab0 == [labels EXCEPT ![k] = 0]
             IN Finish(lab0, [x |-> West(lab0), S |-> S], pp)
          /\ UNCHANGED <<Z, pc, rdpoison>> /\ Same
SpNoRowAbove ==
  /\ SpScan /\ above(k) /\ k > 0 /\ ii(k) > 0
  /\ LET lab0 == [labels EXCEPT ![k] = 0]
         q1 == W1(pp, ii(k) - 1)
     IN /\ q1 # -1 /\ ii(q1) = ii(k)
        /\ Finish(lab0, [x |-> West(lab0), S |-> S], q1)
  /\ UNCHANGED <<Z, pc, rdpoison>> /\ Same
SpWalk ==
  /\ SpScan /\ above(k) /\ k > 0 /\ ii(k) > 0
  /\ LET lab0 == [labels EXCEPT ![k] = 0]
         ir == ii(k) - 1
         q1 == W1(pp, ir)
     IN IF q1 = -1 THEN OutOfBounds /\ UNCHANGED rdpoison
        ELSE /\ ii(q1) # ii(k)
             /\ LET q2 == W2(q1, ir)
                IN IF q2 = -1 THEN OutOfBounds /\ UNCHANGED rdpoison
                   ELSE LET st == ForP(q2, ir, lab0, [x |-> West(lab0), S |-> S, bad |-> FALSE, rd |-> FALSE])
                        IN IF st.bad THEN OutOfBounds /\ UNCHANGED rdpoison
                           ELSE Finish(lab0, st, q2) /\ rdpoison' = (rdpoison \/ st.rd)
  /\ UNCHANGED <<Z, pc>> /\ Same

\* ---------------- sparse_connectedpixels_splat --------------------------------------------
ZCells(e) == {ZPos(e), ZPos(e) - 1, ZPos(e) - JD - 1, ZPos(e) - JD, ZPos(e) - JD + 1}
ZeroZ == /\ pc = "zero"
         /\ IF \E e \in 0..(nnz - 1) : \E z \in ZCells(e) : z \notin 0..(ZN - 1)
            THEN oob' = TRUE /\ UNCHANGED Z
            ELSE oob' = oob /\ Z' = [z \in 0..(ZN - 1) |-> IF \E e \in 0..(nnz - 1) : z \in ZCells(e) THEN 0 ELSE Z[z]]
         /\ pc' = "scan" /\ UNCHANGED <<k, pp, labels, S, rdpoison>> /\ Same
SplScan == pc = "scan" /\ alg = "splat" /\ k < nnz /\ ~oob
SplatSkip == /\ SplScan /\ ~above(k) /\ k' = k + 1
             /\ UNCHANGED <<pp, labels, S, Z, pc, oob, rdpoison>> /\ Same
SplatPixel ==
  /\ SplScan /\ above(k)
  /\ LET p == ZPos(k)
         ir == p - JD
         reads == <<p - 1, ir - 1, ir, ir + 1>>
     IN IF \E r \in 1..4 : reads[r] \notin 0..(ZN - 1)
        THEN oob' = TRUE /\ UNCHANGED <<Z, S, rdpoison>>
        ELSE LET x0 == IF Z[p - 1] > 0 THEN Z[p - 1] ELSE Z[p]
                 F[r \in 1..4] == IF r = 1 THEN [x |-> x0, S |-> S]
                                  ELSE IF Z[reads[r]] > 0 THEN Match(F[r - 1], Z[reads[r]]) ELSE F[r - 1]
                 st == F[4]
             IN /\ oob' = oob
                /\ rdpoison' = (rdpoison \/ Z[p] = POISON \/ \E r \in 1..4 : Z[reads[r]] = POISON)
                /\ IF st.x = 0
                   THEN LET nw == DsNew(st.S) IN Z' = [Z EXCEPT ![p] = nw[2]] /\ S' = nw[1]
                   ELSE Z' = [Z EXCEPT ![p] = st.x] /\ S' = st.S
  /\ k' = k + 1 /\ UNCHANGED <<pp, labels, pc>> /\ Same

\* ---------------- common tail ---------------------------------------------------------------
Compress == /\ pc = "scan" /\ k = nnz /\ ~oob
            /\ LET c == DsCompress(S) IN T' = c[1] /\ np' = c[2] /\ S' = c[3]
            /\ pc' = "relabel" /\ UNCHANGED <<tern, px, alg, k, pp, labels, Z, oob, rdpoison, targ, rec, names, used>>
Relabel ==
  /\ pc = "relabel"
  /\ IF alg \in {"sparse", "frame"}
     THEN labels' = [e \in 0..(nnz - 1) |-> IF labels[e] > 0 THEN T[labels[e]] ELSE labels[e]]
     ELSE labels' = [e \in 0..(nnz - 1) |-> IF Z[ZPos(e)] > 0 THEN T[Z[ZPos(e)]]
                                           ELSE IF BUG_SPLAT THEN labels[e] ELSE 0]
  /\ pc' = "done" /\ UNCHANGED <<tern, px, alg, k, pp, S, Z, T, np, oob, rdpoison, targ, rec, names, used>>

Next == Wrap \/ SpSkip \/ SpFirst \/ SpRow0 \/ SpNoRowAbove \/ SpWalk
        \/ ZeroZ \/ SplatSkip \/ SplatPixel \/ Compress \/ Relabel
Spec == Init /\ [][Next]_vars

\* ---- the property ------------------------------------------------------------------------------
Adj(p, q) == /\ p # q /\ tern[p] = 2 /\ tern[q] = 2
             /\ (Row(p) - Row(q)) \in {-1, 0, 1} /\ (ColOf(p) - ColOf(q)) \in {-1, 0, 1}
RECURSIVE Reach(_)
Reach(set) == LET nxt == set \cup {q \in Px : \E p \in set : Adj(p, q)}
              IN IF nxt = set THEN set ELSE Reach(nxt)
MinOf(set) == CHOOSE m \in set : \A x \in set : m <= x
AboveE == {e \in 0..(nnz - 1) : above(e)}

InBounds == ~oob
NoPoisonRead == ~rdpoison
DsInv == DsOK(S)
\* the kernel is handed the threshold the caller requested (a differing recorded cut is never used for it)
WrapOK == (alg = "frame" /\ pc # "wrap") => (used = Stated(targ) \/ rec = "same")
Done == pc = "done"
Defined == Done => \A e \in 0..(nnz - 1) : labels[e] # POISON
Background == Done => \A e \in 0..(nnz - 1) : (labels[e] = 0) <=> ~above(e)
Partition == Done => LET C == [e \in AboveE |-> Reach({PixAtF[e]})]
                     IN \A e \in AboveE : {PixAtF[f] : f \in {g \in AboveE : labels[g] = labels[e]}} = C[e]
Numbering == Done => LET C == [e \in AboveE |-> MinOf(Reach({PixAtF[e]}))]
                         F == {C[e] : e \in AboveE}
                     IN /\ np = Cardinality(F)
                        /\ {labels[e] : e \in AboveE} = 1..np
                        /\ \A e \in AboveE : labels[e] = Cardinality({f \in F : f <= C[e]})

Emit == (Done /\ EmitOn) =>
          PrintT("@@" \o ToJson([ns |-> NS, nf |-> NF, alg |-> alg,
                                 tern |-> [p \in 1..N |-> tern[p - 1]],
                                 labels |-> [e \in 1..nnz |-> labels[e - 1]], np |-> np,
                                 zpi |-> ZPI, zpj |-> ZPJ,
                                 targ |-> targ, rec |-> rec, names |-> names]))
=============================================================================

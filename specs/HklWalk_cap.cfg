\* the abs(l) < 200 guard: conformance only (the docstring's assumption |h|,|k|,|l| < 200)
SPECIFICATION Spec
CONSTANTS
  HMAX = 200
  Forms <- FormsCap
  Limits = {40001}
  Centrings = {"P", "I"}
  Outif <- OutifPinned
  TIE = FALSE
  ORACLE = FALSE
  BigCases <- BigNone
INVARIANT TypeOK
INVARIANT EmitCap
CHECK_DEADLOCK FALSE

--------------------------- MODULE DataSetState ---------------------------
(***************************************************************************)
(* The scanning-experiment bookkeeping object of ImageD11 (extension X06)  *)
(*   ImageD11/sinograms/dataset.py : class DataSet 71-1084 (constructor    *)
(*   123-194, update_paths 196-235, compare 249-279, import_all 286-299,   *)
(*   import_from_sparse 301-335, import_scans 337-378, import_imagefiles   *)
(*   380-412, import_motors_from_master 414-461, guess_shape 463-531,      *)
(*   guessbins 533-594, correct_bins_for_half_scan 596-630, get_monitor    *)
(*   647-663, reset_peaks_cache 665-684, set_monitor 686-700,              *)
(*   get_monitor_pk2d 703-715, sinohist 770-810, peaks_table/pk2d/pk4d     *)
(*   817-847, import_nnz 920-938, save 985-1043, load 1045-1084), module   *)
(*   functions guess_chunks 33, guess_omega_step 41, load 1087, check 1101 *)
(*   and ImageD11/sinograms/assemble_label.py harvest_masterfile 104-204.  *)
(*                                                                         *)
(* Numbers: every motor position / bin quantity is an integer numerator    *)
(* over DEN = 144 (exact rational arithmetic; Div asserts exactness, so TLC  *)
(* itself proves that the dataset alphabet never needs rounding).  Counts  *)
(* (nnz, frames, monitor readings) are plain integers.                     *)
(*                                                                         *)
(* Variables                                                               *)
(*   s.d     name of the synthetic experiment (bliss master file) in use   *)
(*   s.x     the working DataSet object, s.y a second object made by       *)
(*           dataset.load(file) (NOOBJ until then); an object is a record  *)
(*           of the attributes a user relies on: the path strings          *)
(*           (dataroot .. masterfile, analysispath, dsfile, the 12 derived *)
(*           file names, parfile), scans / imagefiles / sparsefiles,       *)
(*           frames_per_scan / frames_per_file (with container kind list / *)
(*           ndarray), shape, omega / dty (None, list of rows, 2-D array), *)
(*           nnz (+ dtype), monitor, monitor_ref, the bins (obincens,      *)
(*           obinedges, ybincens, ybinedges, omega_for_bins, omin, omax,   *)
(*           ostep, ymin, ymax, ystep with the scalar kind python / numpy),*)
(*           imageshape set or not, and the caches _peaks_table _pk2d _pk4d*)
(*           as provenance tokens (what they were computed from)           *)
(*   s.disk  files the operations write: dataset files (attrs, string      *)
(*           lists, arrays, exactly as h5py holds them), assembled sparse  *)
(*           files (harvest_masterfile), peak table files (environment)    *)
(*   hist    history of <<op, ret, projected state>>                       *)
(*                                                                         *)
(* Actions = public operations: the constructor (Init: start forms fresh / *)
(* imported = import_all() / saved = + save, load / cached = + pk2d, pk4d  *)
(* / sparse = harvest + import_from_sparse),                               *)
(* UpdatePaths(force), SetName / SetAnalysisPath (user edits), ImportScans,*)
(* ImportImagefiles, ImportMotors, GuessShape, GuessBins, ImportNnz,       *)
(* ImportAll, Harvest, ImportFromSparse, HalfScan(y0), SetMonitor, Save,   *)
(* Load (in place), LoadNew (module load -> s.y), Poke (user writes one    *)
(* element of dty), WritePks (environment), PeaksTable, Pk2d, Pk4d,        *)
(* ResetCache.  Observers evaluated in EVERY projected state: sinohist()   *)
(* and sinohist(weights) by the numpy and the fast route, get_monitor(),   *)
(* compare(x,y), compare(y,x), the digitize() cell of every sample.        *)
(*                                                                         *)
(* Laws (invariants unless said otherwise)                                 *)
(*   WellFormedAfter (action property) a successful import_all /            *)
(*                   import_from_sparse / load leaves shapes that agree     *)
(*   Partition       bins defined => every (omega_for_bins, dty) sample is *)
(*                   in exactly one (obinedges, ybinedges) cell (with      *)
(*                   BUG_STALEBINS a re-import can leave samples outside)  *)
(*   HistTotal       sinohist sums to the number (weight) of samples       *)
(*   HistMatchesEdges  sinohist()[i][j] = number of samples whose digitize *)
(*                   cell is (i,j)   (so row i belongs to obincens[i], which*)
(*                   is how run_iradon(sino, ds.obincens) uses it)         *)
(*   CentresAreMotors regular grid, not padded: obincens / ybincens are the*)
(*                   distinct motor positions                              *)
(*   RoundTripLoads / RoundTripPersist / RoundTripDerived / RoundTripOfb / *)
(*   RoundTripYstep  load(save(x)) into a fresh object reproduces every    *)
(*                   persisted attribute and every derived bin quantity    *)
(*   LoadIdempotent  a second save/load generation changes nothing         *)
(*   (RoundTripPinned = the part of these that the pinned code satisfies,  *)
(*    RoundTripAll = all of them + CompareRoundTrip, with the round trip   *)
(*    evaluated once: what the conformance / depth 3 configurations check) *)
(*   SaveTotal       save() of an object whose arrays are rectangular      *)
(*                   succeeds (also onto the file it was loaded from)      *)
(*   SaveTarget      save() without a name writes the file the object was  *)
(*                   loaded from / last saved to                           *)
(*   BadScanBest     a scan with corrupted omega gets the omega of the good*)
(*                   scan whose first angle is nearest                     *)
(*   CompareSound    compare(a,b) = True => persisted attributes equal;    *)
(*                   CompareRoundTrip: compare(load(save(x)), x) = True    *)
(*   PathsKept (action property) update_paths(force=False) never changes a *)
(*                   name that is set; force=True sets all 12 to defaults  *)
(*   MonitorResets (action property) set_monitor clears _pk2d and _pk4d    *)
(*   CacheNoMix      a cached pk2d / pk4d was computed from the cached     *)
(*                   peaks table                                           *)
(* Dropped / weakened laws (the code does not promise them): an operation  *)
(* that raises may leave the object half updated (guess_shape without      *)
(* imageshape, import_imagefiles / import_motors on sliced scan names, a   *)
(* failed save leaves a half written file); caches are NOT invalidated when*)
(* pksfile / omega / dty change (only set_monitor / reset_peaks_cache do); *)
(* container kinds change across save/load (list -> ndarray).              *)
(*                                                                         *)
(* BUG_* = TRUE models the pinned tree, FALSE the proposed repair:         *)
(*   BUG_SINOHIST  sinohist takes the omega range from omega_for_bins and  *)
(*                 not from obinedges (multi-turn: rows shifted)           *)
(*   BUG_LOAD360   guessbins, loaded branch: obincens range >= 360 folds   *)
(*                 omega (first time: omega range > 360)                   *)
(*   BUG_YSTEP     guessbins, loaded ybincens: ystep from shape[0]         *)
(*   BUG_BADSCAN   np.argmin(dom[0][1]) is always 0                        *)
(*   BUG_SAVEDEF   save(): h5name = dsfile is overwritten by the default   *)
(*   BUG_SAVESHAPE save(): require_dataset on an array whose shape changed *)
(*   BUG_STALEBINS import_all / import_from_sparse keep bins of an earlier *)
(*                 import (guessbins treats them as loaded)                *)
(*   BUG_COMPARE   compare: attribute set of self twice, (s != o).all()    *)
(* Experiments (Scans): R180 regular 3x3, M360 / M72 multi-turn (steps 90  *)
(* and 72), E360 both 0 and 360, ZIG zig-zag + array / wrong-length dty +  *)
(* a scan with corrupted omega, IRR 3 and 2 frames, RPT a repeated angle,  *)
(* F2D one fscan2d scan of 2x3, BADS a counter group and a 2-D detector.   *)
(* Ghosts (not compared): o.pad (ybincens padded), file.whole (the last    *)
(* save into the file did not fail half way).                              *)
(* Bounds: MaxDepth operations; datasets DsNames; import_scans /           *)
(* import_imagefiles / import_nnz / harvest only while masterfile is the   *)
(* bliss master; no scan with a single frame; f2scan not modelled.         *)
(***************************************************************************)
EXTENDS Integers, Sequences, FiniteSets, TLC, Json

CONSTANTS MaxDepth, DsNames, StartForms, EmitMode,
          BUG_SINOHIST, BUG_LOAD360, BUG_YSTEP, BUG_BADSCAN, BUG_SAVEDEF, BUG_SAVESHAPE,
          BUG_STALEBINS, BUG_COMPARE

VARIABLES s, hist
vars == <<s, hist>>

DEN == 144
NONE == "<None>"
UNSET == "<unset>"

\* ---- sequences ---------------------------------------------------------------------------
Range(q) == {q[i] : i \in 1..Len(q)}
RECURSIVE SumSeq(_)
SumSeq(q) == IF q = <<>> THEN 0 ELSE Head(q) + SumSeq(Tail(q))
RECURSIVE Concat(_)
Concat(qq) == IF qq = <<>> THEN <<>> ELSE Head(qq) \o Concat(Tail(qq))
MinSeq(q) == CHOOSE m \in Range(q) : \A z \in Range(q) : m <= z
MaxSeq(q) == CHOOSE m \in Range(q) : \A z \in Range(q) : m >= z
Has(q, e) == \E i \in 1..Len(q) : q[i] = e
IndexOf(q, e) == CHOOSE i \in 1..Len(q) : q[i] = e /\ \A j \in 1..(i-1) : q[j] # e
MapSeq(q, f(_)) == [i \in 1..Len(q) |-> f(q[i])]
RowsOf(v, n, m) == [i \in 1..n |-> [j \in 1..m |-> v[(i-1)*m + j]]]
Abs(a) == IF a < 0 THEN -a ELSE a
Div(a, b) == IF b > 0 /\ a % b = 0 THEN a \div b ELSE Assert(FALSE, <<"inexact division", a, b>>)
CeilDiv(a, b) == -((-a) \div b)
\* insertion sort (sequences of at most a dozen numbers)
RECURSIVE SortNum(_)
Insert(q, e) == LET k == Cardinality({i \in 1..Len(q) : q[i] <= e})
                IN SubSeq(q, 1, k) \o <<e>> \o SubSeq(q, k+1, Len(q))
SortNum(q) == IF q = <<>> THEN <<>> ELSE Insert(SortNum(Tail(q)), Head(q))
Linspace(a, b, n) == IF n = 1 THEN <<a>> ELSE [i \in 1..n |-> a + Div((i-1)*(b-a), n-1)]
Arange(a, cnt, st) == [i \in 1..cnt |-> a + (i-1)*st]
Join(a, b) == a \o "/" \o b

\* ---- array values ------------------------------------------------------------------------
NoneA == [k |-> "none"]
UnsetA == [k |-> "unset"]
Arr(sh, v, dt) == [k |-> "arr", sh |-> sh, v |-> v, dt |-> dt]
ListA(rows, n) == [k |-> "list", rows |-> rows, n |-> n]   \* python list of n entries: the rows, then None
IsArr(a) == a.k = "arr"
Arr2(rows, dt) == Arr(<<Len(rows), IF Len(rows) = 0 THEN 0 ELSE Len(rows[1])>>, Concat(rows), dt)
Arr1(v, dt) == Arr(<<Len(v)>>, v, dt)
Size(a) == Len(a.v)
Homog(rows) == \A i \in 1..Len(rows) : Len(rows[i]) = Len(rows[1])
\* np.asarray of an attribute value: [ok, a]
AsArr(a) == IF a.k = "arr" THEN [ok |-> TRUE, a |-> a]
            ELSE IF a.k = "list" /\ a.n = Len(a.rows) /\ a.n > 0 /\ Homog(a.rows) THEN [ok |-> TRUE, a |-> Arr2(a.rows, "f8")]
            ELSE [ok |-> FALSE, a |-> a]
NoneN == [k |-> "none"]
UnsetN == [k |-> "unset"]
Num(n, t) == [k |-> "num", n |-> n, t |-> t]          \* t: "np" numpy.float64, "py" python float, "int" python int
Rat(a, b) == [k |-> "rat", a |-> a, b |-> b]          \* a / b, not reduced (monitor_ref)

\* ---- the synthetic experiments (bliss master files) ----------------------------------------
Sc(name, title, det, om, dty, dsc, files, slow, fast) ==
  [name |-> name, title |-> title, det |-> det, nfr |-> IF det = "3d" THEN SumSeq(files) ELSE Len(om),
   om |-> om, dty |-> dty, dsc |-> dsc, files |-> files, slow |-> slow, fast |-> fast]
F3 == <<0, 60, 120>>
B3 == <<120, 60, 0>>
Scans(d) ==
  CASE d = "R180" -> << Sc("1.1", "fscan", "3d", F3, <<-1>>, TRUE, <<3>>, 0, 0),
                        Sc("2.1", "fscan", "3d", F3, <<0>>, TRUE, <<2, 1>>, 0, 0),
                        Sc("3.1", "fscan", "3d", F3, <<1>>, TRUE, <<3>>, 0, 0) >>
    [] d = "M360" -> << Sc("1.1", "fscan", "3d", <<0, 90, 180, 270, 360, 450>>, <<0>>, TRUE, <<6>>, 0, 0),
                        Sc("2.1", "fscan", "3d", <<0, 90, 180, 270, 360, 450>>, <<2>>, TRUE, <<4, 2>>, 0, 0) >>
    [] d = "M72"  -> << Sc("1.1", "fscan", "3d", <<0, 72, 144, 216, 288, 360, 432>>, <<0>>, TRUE, <<7>>, 0, 0),
                        Sc("2.1", "fscan", "3d", <<0, 72, 144, 216, 288, 360, 432>>, <<1>>, TRUE, <<3, 4>>, 0, 0) >>
    [] d = "E360" -> << Sc("1.1", "fscan", "3d", <<0, 90, 180, 270, 360>>, <<0>>, TRUE, <<5>>, 0, 0),
                        Sc("2.1", "fscan", "3d", <<0, 90, 180, 270, 360>>, <<1>>, TRUE, <<5>>, 0, 0) >>
    [] d = "ZIG"  -> << Sc("1.1", "fscan", "3d", F3, <<0>>, TRUE, <<3>>, 0, 0),
                        Sc("2.1", "fscan", "3d", B3, <<1, 1, 1>>, FALSE, <<3>>, 0, 0),
                        Sc("3.1", "fscan", "3d", F3, <<2, 2>>, FALSE, <<3>>, 0, 0),
                        Sc("4.1", "fscan", "3d", <<120, 60>>, <<3>>, TRUE, <<3>>, 0, 0) >>
    [] d = "IRR"  -> << Sc("1.1", "fscan", "3d", F3, <<0>>, TRUE, <<3>>, 0, 0),
                        Sc("2.1", "fscan", "3d", <<0, 60>>, <<1>>, TRUE, <<2>>, 0, 0) >>
    [] d = "RPT"  -> << Sc("1.1", "fscan", "3d", <<0, 30, 30, 120>>, <<0>>, TRUE, <<4>>, 0, 0),
                        Sc("2.1", "fscan", "3d", <<0, 30, 30, 120>>, <<1>>, TRUE, <<4>>, 0, 0) >>
    [] d = "F2D"  -> << Sc("1.1", "fscan2d", "3d", <<0, 60, 120, 120, 60, 0>>, <<0, 0, 0, 1, 1, 1>>, FALSE, <<6>>, 2, 3) >>
    [] d = "BADS" -> << Sc("1.1", "fscan", "3d", F3, <<0>>, TRUE, <<3>>, 0, 0),
                        Sc("1.2", "fscan", "none", F3, <<0>>, TRUE, <<>>, 0, 0),
                        Sc("2.1", "fscan", "2d", F3, <<0>>, TRUE, <<>>, 0, 0),
                        Sc("3.1", "fscan", "3d", F3, <<1>>, TRUE, <<1, 2>>, 0, 0) >>
AllDs == {"R180", "M360", "M72", "E360", "ZIG", "IRR", "RPT", "F2D", "BADS"}
\* monitor readings and segmentation pixel counts of scan number k (position in the master file)
Mon(k, n) == [i \in 1..n |-> 100 + 10 * k + i]
Nnz(k, n) == [i \in 1..n |-> 1 + ((i + k) % 3)]
ScanIdx(d, name) == CHOOSE k \in 1..Len(Scans(d)) : Scans(d)[k].name = name
InMaster(d, name) == \E k \in 1..Len(Scans(d)) : Scans(d)[k].name = name
\* what the harness needs to materialise the files
DsTable == [d \in DsNames |->
              [k \in 1..Len(Scans(d)) |->
                 LET c == Scans(d)[k] IN
                 [name |-> c.name, title |-> c.title, det |-> c.det, nfr |-> c.nfr, om |-> c.om, dty |-> c.dty,
                  dtyscalar |-> c.dsc, files |-> c.files, slow |-> c.slow, fast |-> c.fast,
                  mon |-> Mon(k, c.nfr), nnz |-> Nnz(k, c.nfr)]]]
\* explicit scans= arguments explored per experiment (besides None)
ScanArgs(d) == CASE d = "R180" -> {<<"3.1", "1.1">>, <<"9.1">>}
                 [] d = "ZIG" -> {<<"1.1", "2.1", "4.1">>}
                 [] OTHER -> {}

\* ---- peak tables the environment may put at ds.pksfile: <<s1, sI, srI, scI, frame, glabel>> -------
Peaks(v) == IF v = 1 THEN << <<2, 10, 20, 30, 0, 0>>, <<3, 20, 40, 60, 1, 0>>, <<1, 6, 6, 12, 4, 1>> >>
            ELSE << <<1, 8, 8, 16, 2, 0>>, <<2, 4, 12, 8, 3, 1>> >>
PkVersions == {1, 2}

\* ---- paths -----------------------------------------------------------------------------------
N12seq == <<"pksfile", "col4dfile", "col3dfile", "col2dfile", "grainsfile", "sparsefile", "icolfile", "pbpfile",
            "refmanfile", "refpeaksfile", "refmapfile", "refoutfile">>
N12 == Range(N12seq)
Persisted12 == {"pksfile", "col4dfile", "col3dfile", "col2dfile", "grainsfile", "sparsefile", "icolfile", "pbpfile"}
Ext(n) == CASE n = "pksfile" -> "_peaks_table.h5" [] n = "col4dfile" -> "_peaks_4d.h5"
            [] n = "col3dfile" -> "_peaks_3d.h5" [] n = "col2dfile" -> "_peaks_2d.h5"
            [] n = "grainsfile" -> "_grains.h5" [] n = "sparsefile" -> "_sparse.h5"
            [] n = "icolfile" -> "_icolf.h5" [] n = "pbpfile" -> "_pbp.txt"
            [] n = "refmanfile" -> "_refine_manager.h5" [] n = "refpeaksfile" -> "_refine_peaks.h5"
            [] n = "refmapfile" -> "_refine_map_in.h5" [] n = "refoutfile" -> "_refine_map_out.h5"
RawMaster(d) == Join(Join(Join("raw", "smp"), "smp_" \o d), "smp_" \o d \o ".h5")
DefaultAP(d) == Join(Join("ana", "smp"), "smp_" \o d)
LIMA == "/entry_0000/measurement/data"
LimaName(k, f) == "scan000" \o ToString(k) \o "/eiger_000" \o ToString(f-1) \o ".h5"
SparseName(k, f) == "sparsefiles/scan000" \o ToString(k) \o "_eiger_000" \o ToString(f-1) \o "_sparse.h5"

NoneL == [k |-> "none"]
SL(v) == [k |-> "seq", v |-> v]
PList(v) == [k |-> "plist", v |-> v]                      \* python list of ints
NoTab == [k |-> "none"]

\* DataSet.__init__ up to (not including) the load / update_paths calls            dataset.py:139-184
Blank(dataroot, analysisroot, sample, dset) ==
  LET dsname == sample \o "_" \o dset
      datapath == Join(Join(dataroot, sample), dsname)
  IN [dataroot |-> dataroot, analysisroot |-> analysisroot, sample |-> sample, dset |-> dset, dsname |-> dsname,
      datapath |-> datapath, masterfile |-> Join(datapath, dsname \o ".h5"),
      analysispath |-> NONE, apdef |-> UNSET, dsfile |-> NONE, dsfdef |-> UNSET,
      names |-> [n \in N12 |-> NONE], parfile |-> UNSET, limapath |-> NONE, imageshape |-> FALSE,
      scans |-> NoneL, imagefiles |-> NoneL, sparsefiles |-> NoneL, fps |-> NoneA, fpf |-> NoneA,
      shape |-> <<0, 0>>, omega |-> NoneA, dty |-> NoneA, nnz |-> UnsetA, monitor |-> NoneA, mref |-> NoneN,
      obincens |-> NoneA, obinedges |-> NoneA, ybincens |-> NoneA, ybinedges |-> NoneA, ofb |-> UnsetA,
      omin |-> UnsetN, omax |-> UnsetN, ostep |-> UnsetN, ymin |-> UnsetN, ymax |-> UnsetN, ystep |-> UnsetN,
      pt |-> 0, pk2d |-> NoTab, pk4d |-> NoTab,
      pad |-> FALSE]                                  \* ghost: ybincens were padded by correct_bins_for_half_scan

\* update_paths(force)                                                               dataset.py:196-235
UpdPaths(o, force) ==
  LET apdef == Join(Join(o.analysisroot, o.sample), o.dsname)
      ap == IF o.analysispath = NONE THEN apdef ELSE o.analysispath
      dsfdef == Join(ap, o.dsname \o "_dataset.h5")
  IN [o EXCEPT !.apdef = apdef, !.analysispath = ap, !.dsfdef = dsfdef,
               !.dsfile = IF o.dsfile = NONE THEN dsfdef ELSE o.dsfile,
               !.names = [n \in N12 |-> IF o.names[n] = NONE \/ force THEN Join(ap, o.dsname \o Ext(n)) ELSE o.names[n]]]

NewObj(d, ap) == UpdPaths([Blank("raw", "ana", "smp", d) EXCEPT !.analysispath = ap], FALSE)

\* ---- the disk --------------------------------------------------------------------------------
DGetIdx(disk, p) == {i \in 1..Len(disk) : disk[i].p = p}
DExists(disk, p) == DGetIdx(disk, p) # {}
DGet(disk, p) == disk[CHOOSE i \in DGetIdx(disk, p) : TRUE].c
DPut(disk, p, c) == IF DExists(disk, p)
                    THEN [i \in 1..Len(disk) |-> IF disk[i].p = p THEN [p |-> p, c |-> c] ELSE disk[i]]
                    ELSE Append(disk, [p |-> p, c |-> c])
\* segmented (per Lima file) sparse files exist below the default analysis path only
SegExists(d, ap) == ap = DefaultAP(d)
\* a path is the bliss master of experiment d
IsRaw(d, p) == p = RawMaster(d)

\* ---- scan names --------------------------------------------------------------------------------
\* an entry of DataSet.scans: "1.1" or the slice form "1.1::[lo:hi]" that guess_shape / import_from_sparse make
Sn(b) == [b |-> b, lo |-> -1, hi |-> -1]
Sl(b, lo, hi) == [b |-> b, lo |-> lo, hi |-> hi]
Render(e) == IF e.lo < 0 THEN e.b ELSE e.b \o "::[" \o ToString(e.lo) \o ":" \o ToString(e.hi) \o "]"
Dot1(name) == name # "1.2"                                  \* name.endswith(".1")
R(o, ret) == [o |-> o, ret |-> ret]
Scale(q) == [i \in 1..Len(q) |-> q[i] * DEN]
Full(n, v) == [i \in 1..n |-> v]

\* which scans a master-like file holds: the bliss master, or an assembled sparse file (harvest_masterfile
\* copies the scan motors, the positioners and nnz; no title, no detector)
MKind(d, disk, p) == IF IsRaw(d, p) THEN "raw"
                     ELSE IF DExists(disk, p) /\ DGet(disk, p).kind = "sparse" THEN "sparse" ELSE "missing"
MHas(d, disk, p, e) == /\ e.lo < 0
                       /\ IF IsRaw(d, p) THEN InMaster(d, e.b) ELSE Has(DGet(disk, p).names, e.b)

\* import_scans(scans)   (explored while masterfile is the bliss master)            dataset.py:337-378
ImportScansOp(d, o, arg) ==
  LET all == Scans(d)
      want == IF arg = NoneL
              THEN MapSeq(SelectSeq(all, LAMBDA c : Dot1(c.name) /\ c.det # "none"), LAMBDA c : c.name)
              ELSE arg.v
      missing == \E i \in 1..Len(want) : ~InMaster(d, want[i])
      good == SelectSeq(want, LAMBDA nm : Scans(d)[ScanIdx(d, nm)].det = "3d")
  IN IF missing THEN R(o, "KeyError")
     ELSE R([o EXCEPT !.scans = SL(MapSeq(good, Sn)),
                      !.fps = PList(MapSeq(good, LAMBDA nm : Scans(d)[ScanIdx(d, nm)].nfr))], "ok")

\* import_imagefiles()                                                                dataset.py:380-412
RECURSIVE ImgFold(_, _, _)
ImgFold(d, sc, acc) ==
  IF sc = <<>> \/ acc.failed THEN acc
  ELSE LET e == Head(sc) IN
       IF e.lo >= 0 \/ ~InMaster(d, e.b) THEN [acc EXCEPT !.failed = TRUE]
       ELSE LET k == ScanIdx(d, e.b)   c == Scans(d)[k] IN
            ImgFold(d, Tail(sc),
                    [acc EXCEPT !.imgs = @ \o [f \in 1..Len(c.files) |-> LimaName(k, f)],
                                !.sps = @ \o [f \in 1..Len(c.files) |-> SparseName(k, f)],
                                !.fpf = @ \o c.files, !.seen = TRUE])
ImportImagefilesOp(d, o) ==
  IF o.scans.k = "none"
  THEN R([o EXCEPT !.imagefiles = SL(<<>>), !.fpf = PList(<<>>)], "TypeError")
  ELSE LET a == ImgFold(d, o.scans.v, [imgs |-> <<>>, sps |-> <<>>, fpf |-> <<>>, failed |-> FALSE, seen |-> FALSE])
           o1 == [o EXCEPT !.limapath = IF a.seen /\ @ = NONE THEN LIMA ELSE @,
                           !.imageshape = @ \/ a.seen, !.imagefiles = SL(a.imgs)]
       IN IF a.failed THEN R([o1 EXCEPT !.fpf = PList(a.fpf)], "KeyError")
          ELSE R([o1 EXCEPT !.fpf = Arr1(a.fpf, "i8"), !.sparsefiles = SL(a.sps)], "ok")

\* import_motors_from_master()                                                        dataset.py:414-461
RECURSIVE MotFold(_, _, _, _, _, _)
MotFold(d, disk, o, sc, i, acc) ==
  IF sc = <<>> \/ acc.exc # "ok" THEN acc
  ELSE LET e == Head(sc) IN
       IF ~MHas(d, disk, o.masterfile, e) THEN [acc EXCEPT !.exc = "KeyError"]
       ELSE IF o.fps.k = "none" THEN [acc EXCEPT !.exc = "TypeError"]
       ELSE IF i > Len(o.fps.v) THEN [acc EXCEPT !.exc = "IndexError"]
       ELSE LET c == Scans(d)[ScanIdx(d, e.b)]
                n == o.fps.v[i]
                okom == Len(c.om) = n
                om == IF okom THEN Scale(c.om) ELSE <<c.om[1] * DEN>>
                dt == IF c.dsc \/ Len(c.dty) # n THEN Full(n, c.dty[1] * DEN) ELSE Scale(c.dty)
            IN MotFold(d, disk, o, Tail(sc), i + 1,
                       [acc EXCEPT !.om = Append(@, om), !.dty = Append(@, dt),
                                   !.bad = IF okom THEN @ ELSE Append(@, i)])
\* replacement of the omega of corrupted scans, in the order the code visits them
RECURSIVE FixBad(_, _, _)
FixBad(om, bad, allbad) ==
  IF bad = <<>> THEN om
  ELSE LET b == Head(bad)
           good == {i \in 1..Len(om) : ~Has(allbad, i)}
           dist(i) == Abs(om[i][1] - om[b][1])
           j == IF BUG_BADSCAN THEN 1
                ELSE CHOOSE i \in good : /\ \A z \in good : dist(i) <= dist(z)
                                         /\ \A z \in good : (dist(z) = dist(i)) => i <= z
       IN IF good = {} THEN om
          ELSE FixBad([om EXCEPT ![b] = om[j]], Tail(bad), allbad)
ImportMotorsOp(d, disk, o) ==
  IF o.scans.k = "none" THEN R(o, "TypeError")
  ELSE LET n == Len(o.scans.v)
           o0 == [o EXCEPT !.omega = ListA(<<>>, n), !.dty = ListA(<<>>, n)]
       IN IF MKind(d, disk, o.masterfile) = "missing" THEN R(o0, "FileNotFoundError")
          ELSE LET a == MotFold(d, disk, o, o.scans.v, 1, [om |-> <<>>, dty |-> <<>>, bad |-> <<>>, exc |-> "ok"])
               IN IF a.exc # "ok"
                  THEN R([o EXCEPT !.omega = ListA(a.om, n), !.dty = ListA(a.dty, n)], a.exc)
                  ELSE R([o EXCEPT !.omega = ListA(FixBad(a.om, a.bad, a.bad), n), !.dty = ListA(a.dty, n)], "ok")

\* guess_shape()                                                                      dataset.py:463-531
RECURSIVE Dedup(_, _)
Dedup(q, seen) == IF q = <<>> THEN <<>>
                  ELSE IF Head(q) \in seen THEN Dedup(Tail(q), seen)
                  ELSE <<Head(q)>> \o Dedup(Tail(q), seen \cup {Head(q)})
Rotations(d, b) ==
  LET c == Scans(d)[ScanIdx(d, b)] IN
  IF c.title = "fscan2d" /\ c.slow > 1
  THEN [r \in 1..c.slow |-> Sl(b, (r-1) * c.fast, r * c.fast)]
  ELSE <<Sn(b)>>
\* np.array(x).reshape((s0, s1))
Reshape(a, s0, s1) ==
  LET aa == AsArr(a) IN
  IF aa.ok /\ Size(aa.a) = s0 * s1 THEN [ok |-> TRUE, a |-> Arr(<<s0, s1>>, aa.a.v, aa.a.dt)]
  ELSE [ok |-> FALSE, a |-> a]
GuessShapeOp(d, disk, o) ==
  IF o.scans.k = "none" THEN R(o, "TypeError")
  ELSE
  LET mk == MKind(d, disk, o.masterfile)
      bases == Dedup(MapSeq(o.scans.v, LAMBDA e : e.b), {})
      npts == IF o.fps.k = "none" THEN 0 ELSE SumSeq(o.fps.v)        \* np.sum(None) is None: fails at npts // s0
  IN IF mk = "sparse" /\ bases # <<>> THEN R(o, "KeyError")                 \* no title in an assembled sparse file
     ELSE IF mk = "raw" /\ \E i \in 1..Len(bases) : ~InMaster(d, bases[i]) THEN R(o, "KeyError")
     ELSE
     LET rot == IF mk = "raw" THEN Concat(MapSeq(bases, LAMBDA b : Rotations(d, b))) ELSE o.scans.v
         s0 == Len(rot)
         s1 == IF s0 >= 1 THEN npts \div s0 ELSE 0
         o1 == [o EXCEPT !.scans = SL(rot), !.shape = <<s0, s1>>]
         ro == Reshape(o.omega, s0, s1)
         rd == Reshape(o.dty, s0, s1)
     IN IF o.fps.k = "none" THEN R([o EXCEPT !.scans = SL(rot)], "TypeError")
        ELSE IF ~ro.ok THEN R(o1, "ValueError")
        ELSE IF ~rd.ok THEN R([o1 EXCEPT !.omega = ro.a], "ValueError")
        ELSE IF ~o.imageshape THEN R([o1 EXCEPT !.omega = ro.a, !.dty = rd.a], "AttributeError")
        ELSE R([o1 EXCEPT !.omega = ro.a, !.dty = rd.a], "ok")

\* ---- bins ----------------------------------------------------------------------------------------
T360 == 360 * DEN
Mod360(a) == Arr(a.sh, [i \in 1..Len(a.v) |-> a.v[i] % T360], a.dt)
\* guess_omega_step(omega[0])                                                         dataset.py:41-69
GuessStep(row) ==
  LET mn == MinSeq(row)
      v == SortNum([i \in 1..Len(row) |-> (row[i] - mn) % T360])
      dv == [i \in 1..(Len(v)-1) |-> v[i+1] - v[i]]
      mx == MaxSeq(dv)
      big == SelectSeq(dv, LAMBDA x : 50 * x > mx)              \* dv > dv.max() * 0.02
  IN Div(SumSeq(big), Len(big))

\* guessbins()                                                                        dataset.py:533-594
GuessBinsY(o, o1) ==
  LET ny == o.shape[1]
      had == o.ybincens.k # "none"
  IN IF ~had /\ ~IsArr(o.dty) THEN R(o1, "AttributeError")
     ELSE IF ~had /\ Size(o.dty) = 0 THEN R(o1, "ValueError")
     ELSE
     LET ymin == IF had THEN o.ybincens.v[1] ELSE MinSeq(o.dty.v)
         ymax == IF had THEN o.ybincens.v[Len(o.ybincens.v)] ELSE MaxSeq(o.dty.v)
         ycen == IF had THEN o.ybincens ELSE Arr1(Linspace(ymin, ymax, ny), "f8")
         nyy == IF had /\ ~BUG_YSTEP THEN Len(o.ybincens.v) ELSE ny
         ystep == IF nyy > 1 THEN Num(Div(ymax - ymin, nyy - 1), "np") ELSE Num(DEN, "int")
         yedg == IF o.ybinedges.k # "none" THEN o.ybinedges
                 ELSE Arr1(Linspace(ymin - Div(ystep.n, 2), ymax + Div(ystep.n, 2), nyy + 1), "f8")
     IN R([o1 EXCEPT !.ymin = Num(ymin, "np"), !.ymax = Num(ymax, "np"), !.ybincens = ycen, !.ystep = ystep,
                     !.ybinedges = yedg], "ok")
GuessBinsOp(o) ==
  LET nomega == o.shape[2] IN
  IF o.obincens.k = "none" THEN
     IF ~IsArr(o.omega) THEN R(o, "AttributeError")
     ELSE IF Size(o.omega) = 0 THEN R(o, "ValueError")
     ELSE
     LET mn == MinSeq(o.omega.v)   mx == MaxSeq(o.omega.v) IN
     IF mx - mn > T360 THEN
        LET st == GuessStep(SubSeq(o.omega.v, 1, o.omega.sh[2]))
            ocen == Arange(0, CeilDiv(10 * T360 + st, 10 * st), st)
            oedg == IF o.obinedges.k # "none" THEN o.obinedges
                    ELSE Arr1(Arange(-Div(st, 2), CeilDiv(38 * T360 + 39 * st, 38 * st), st), "f8")
        IN GuessBinsY(o, [o EXCEPT !.omin = Num(0, "py"), !.omax = Num(T360, "py"), !.ofb = Mod360(o.omega),
                                   !.ostep = Num(st, "np"), !.obincens = Arr1(ocen, "f8"), !.obinedges = oedg])
     ELSE
        LET st == Div(mx - mn, nomega - 1)
            oedg == IF o.obinedges.k # "none" THEN o.obinedges
                    ELSE Arr1(Linspace(mn - Div(st, 2), mx + Div(st, 2), nomega + 1), "f8")
        IN GuessBinsY(o, [o EXCEPT !.omin = Num(mn, "np"), !.omax = Num(mx, "np"), !.ofb = o.omega,
                                   !.ostep = Num(st, "np"), !.obincens = Arr1(Linspace(mn, mx, nomega), "f8"),
                                   !.obinedges = oedg])
  ELSE
     LET oc == o.obincens.v
         mn == oc[1]    mx == oc[Len(oc)]
         st == Div(mx - mn, Len(oc) - 1)
         \* pinned: (omax - omin) >= 360 on the LOADED bin centres (true for a multi-turn scan, whose centres run
         \* 0..360, but also for a single turn that includes both 0 and 360); repaired: the criterion of the first
         \* call and of sinohist, (omega.max() - omega.min()) > 360
         fold == IF BUG_LOAD360 THEN mx - mn >= T360
                 ELSE IsArr(o.omega) /\ Size(o.omega) > 0 /\ MaxSeq(o.omega.v) - MinSeq(o.omega.v) > T360
         o1 == [o EXCEPT !.omin = Num(mn, "np"), !.omax = Num(mx, "np"), !.ostep = Num(st, "np")]
     IN IF ~BUG_LOAD360 /\ ~IsArr(o.omega) THEN R(o1, "AttributeError")
        ELSE IF fold /\ ~IsArr(o.omega) THEN R(o1, "TypeError")
        ELSE LET oedg == IF o.obinedges.k # "none" THEN o.obinedges
                         ELSE Arr1(Linspace(mn - Div(st, 2), mx + Div(st, 2), nomega + 1), "f8")
             IN GuessBinsY(o, [o1 EXCEPT !.ofb = IF fold THEN Mod360(o.omega) ELSE o.omega, !.obinedges = oedg])

\* correct_bins_for_half_scan(y0)                                                     dataset.py:596-630
HalfScanOp(o, y0) ==
  IF o.ybincens.k = "none" THEN R(o, "TypeError")
  ELSE IF o.ystep.k = "unset" THEN R(o, "AttributeError")
  ELSE
  LET yc == o.ybincens.v    n == Len(yc)    c0 == y0 * DEN    st == o.ystep.n
      cb == CHOOSE i \in 1..n : /\ \A z \in 1..n : Abs(yc[i] - c0) <= Abs(yc[z] - c0)
                                /\ \A z \in 1..n : Abs(yc[z] - c0) = Abs(yc[i] - c0) => i <= z
      cv == yc[cb]
      r0 == IF yc[n] - cv > cv - yc[1] THEN yc[n] - cv ELSE cv - yc[1]
      yr == CeilDiv(r0, st) * st
      ymin == cv - yr    ymax == cv + yr
      ny == ((ymax - ymin) \div st) + 1
  IN R([o EXCEPT !.ymin = Num(ymin, "np"), !.ymax = Num(ymax, "np"), !.pad = TRUE,
                 !.ybincens = Arr1(Linspace(ymin, ymax, ny), "f8"),
                 !.ybinedges = Arr1(Linspace(ymin - Div(st, 2), ymax + Div(st, 2), ny + 1), "f8")], "ok")

\* import_nnz(): from the per-Lima-file segmentation files below analysispath        dataset.py:920-929
SegNnz(d, name) ==
  LET kf == CHOOSE kf \in {<<k, f>> : k \in 1..Len(Scans(d)), f \in 1..3} :
                 kf[2] <= Len(Scans(d)[kf[1]].files) /\ SparseName(kf[1], kf[2]) = name
      k == kf[1]   f == kf[2]   files == Scans(d)[k].files
      lo == SumSeq(SubSeq(files, 1, f - 1))
  IN SubSeq(Nnz(k, Scans(d)[k].nfr), lo + 1, lo + files[f])
ImportNnzOp(d, o) ==
  IF o.sparsefiles.k = "none" \/ (o.sparsefiles.v # <<>> /\ o.analysispath = NONE) THEN R(o, "TypeError")
  ELSE IF o.sparsefiles.v # <<>> /\ ~SegExists(d, o.analysispath) THEN R(o, "FileNotFoundError")
  ELSE LET v == Concat(MapSeq(o.sparsefiles.v, LAMBDA nm : SegNnz(d, nm))) IN
       IF Len(v) # o.shape[1] * o.shape[2] \/ v = <<>> THEN R(o, "ValueError")
       ELSE R([o EXCEPT !.nnz = Arr(o.shape, v, "i4")], "ok")

\* import_all(scans)                                                                  dataset.py:286-299
ResetBins(o) == IF BUG_STALEBINS THEN o
                ELSE [o EXCEPT !.pad = FALSE, !.obincens = NoneA, !.obinedges = NoneA, !.ybincens = NoneA, !.ybinedges = NoneA]
ImportAllOp(d, disk, o, arg) ==
  LET r1 == ImportScansOp(d, o, arg) IN IF r1.ret # "ok" THEN r1 ELSE
  LET r2 == ImportImagefilesOp(d, r1.o) IN IF r2.ret # "ok" THEN r2 ELSE
  LET r3 == ImportMotorsOp(d, disk, r2.o) IN IF r3.ret # "ok" THEN r3 ELSE
  LET r4 == GuessShapeOp(d, disk, r3.o) IN IF r4.ret # "ok" THEN r4 ELSE
  LET r5 == GuessBinsOp(ResetBins(r4.o)) IN IF r5.ret # "ok" THEN r5 ELSE
  LET r6 == ImportNnzOp(d, r5.o) IN R(r6.o, "ok")                          \* try: import_nnz() except: pass

\* assemble_label.harvest_masterfile(ds, ds.sparsefile): explored when it can run to completion
CanHarvest(d, disk, o) ==
  /\ IsRaw(d, o.masterfile) /\ o.scans.k = "seq" /\ o.sparsefiles.k = "seq" /\ o.limapath # NONE
  /\ SegExists(d, o.analysispath)
  /\ \A i \in 1..Len(o.scans.v) : InMaster(d, o.scans.v[i].b)
  /\ Len(o.sparsefiles.v) = SumSeq(MapSeq(Dedup(MapSeq(o.scans.v, LAMBDA e : e.b), {}),
                                          LAMBDA b : Len(Scans(d)[ScanIdx(d, b)].files)))
  /\ (DExists(disk, o.names["sparsefile"]) => DGet(disk, o.names["sparsefile"]).kind = "sparse")
HarvestDisk(d, disk, o) ==
  LET p == o.names["sparsefile"]
      old == IF DExists(disk, p) THEN DGet(disk, p).names ELSE <<>>
      both == old \o MapSeq(o.scans.v, LAMBDA e : e.b)
      new == MapSeq(SelectSeq(Scans(d), LAMBDA c : Has(both, c.name)), LAMBDA c : c.name)    \* h5py lists names sorted
  IN DPut(disk, p, [kind |-> "sparse", names |-> new])

\* import_from_sparse(ds.sparsefile, scans, shape)                                    dataset.py:301-335
SparseNnz(d, names) == MapSeq(names, LAMBDA e : LET k == ScanIdx(d, e.b) IN Nnz(k, Scans(d)[k].nfr))
ImportFromSparseOp(d, disk, o, arg, sharg) ==
  LET p == o.names["sparsefile"]
      there == DExists(disk, p) /\ DGet(disk, p).kind = "sparse"
  IN IF arg = NoneL /\ ~there THEN R(o, "FileNotFoundError")
     ELSE
     LET hel == IF there THEN DGet(disk, p).names ELSE <<>>
         \* numerical order of the "%d.1" groups (scan numbers are single digits: name order)
         sc == IF arg = NoneL THEN MapSeq(hel, Sn) ELSE MapSeq(arg.v, Sn)
         nlocal == IF arg = NoneL THEN Len(hel) ELSE Len(arg.v)
         o1 == [o EXCEPT !.scans = SL(sc), !.masterfile = p]
     IN IF ~there THEN R(o1, "FileNotFoundError")
        ELSE IF \E i \in 1..Len(sc) : ~Has(hel, sc[i].b) THEN R(o1, "KeyError")
        ELSE LET rows == SparseNnz(d, sc) IN
             IF ~Homog(rows) THEN R(o1, "ValueError")
             ELSE
             LET o2 == [o1 EXCEPT !.nnz = Arr2(rows, "u4"), !.fps = PList(MapSeq(rows, Len))]
                 r3 == ImportMotorsOp(d, disk, o2)
             IN IF r3.ret # "ok" THEN r3 ELSE
                LET sh == IF sharg = <<>> THEN o2.nnz.sh ELSE sharg
                    okn == Size(o2.nnz) = sh[1] * sh[2]
                    o3 == [r3.o EXCEPT !.shape = sh, !.nnz = IF sharg = <<>> THEN @ ELSE Arr(sh, @.v, "u4")]
                    ro == Reshape(o3.omega, sh[1], sh[2])
                    rd == Reshape(o3.dty, sh[1], sh[2])
                 IN IF sharg # <<>> /\ ~okn THEN R([r3.o EXCEPT !.shape = sh], "ValueError")
                    ELSE IF ~ro.ok THEN R(o3, "ValueError")
                    ELSE IF ~rd.ok THEN R([o3 EXCEPT !.omega = ro.a], "ValueError")
                    ELSE
                    LET o4 == [o3 EXCEPT !.omega = ro.a, !.dty = rd.a,
                                         !.scans = IF nlocal = 1 /\ sh[1] > 1
                                                   THEN SL([r \in 1..sh[1] |-> Sl(sc[1].b, (r-1) * sh[2], r * sh[2])])
                                                   ELSE @]
                    IN GuessBinsOp(ResetBins(o4))

\* ---- monitor and the peak table caches ---------------------------------------------------------
\* get_monitor("fpico6")                                                               dataset.py:647-663
RECURSIVE MonFold(_, _, _, _, _)
MonFold(d, disk, hname, sc, acc) ==
  IF sc = <<>> \/ acc.exc # "ok" THEN acc
  ELSE LET e == Head(sc)
           there == IF IsRaw(d, hname) THEN InMaster(d, e.b) ELSE Has(DGet(disk, hname).names, e.b)
       IN IF ~there THEN [acc EXCEPT !.exc = "KeyError"]
          ELSE LET k == ScanIdx(d, e.b)
                   m == Mon(k, Scans(d)[k].nfr)
                   part == IF e.lo < 0 THEN m
                           ELSE SubSeq(m, e.lo + 1, IF e.hi > Len(m) THEN Len(m) ELSE e.hi)
               IN MonFold(d, disk, hname, Tail(sc), [acc EXCEPT !.v = @ \o part])
GetMon(d, disk, o) ==
  LET sp == o.names["sparsefile"]
      hname == IF DExists(disk, sp) THEN sp ELSE o.masterfile
      mk == MKind(d, disk, hname)
  IN IF mk = "missing" THEN [exc |-> "FileNotFoundError", a |-> NoneA]
     ELSE IF o.scans.k = "none" THEN [exc |-> "TypeError", a |-> NoneA]
     ELSE LET r == MonFold(d, disk, hname, o.scans.v, [v |-> <<>>, exc |-> "ok"]) IN
          IF r.exc # "ok" THEN [exc |-> r.exc, a |-> NoneA]
          ELSE IF o.scans.v = <<>> \/ Len(r.v) # o.shape[1] * o.shape[2] THEN [exc |-> "ValueError", a |-> NoneA]
          ELSE [exc |-> "ok", a |-> Arr(o.shape, r.v, "f8")]
ClearTabs(o) == [o EXCEPT !.pk2d = NoTab, !.pk4d = NoTab]
\* set_monitor(): monitor, monitor_ref = np.mean(monitor), reset_peaks_cache()            dataset.py:686-700
SetMonitorOp(d, disk, o) ==
  LET g == GetMon(d, disk, o) IN
  IF g.exc # "ok" THEN R(o, g.exc)
  ELSE R(ClearTabs([o EXCEPT !.monitor = g.a, !.mref = Rat(SumSeq(g.a.v), Len(g.a.v))]), "ok")

\* the peaks_table / pk2d / pk4d properties                                              dataset.py:817-847
PeaksTableOp(disk, o) ==
  IF o.pt # 0 THEN R(o, "ok")
  ELSE LET p == o.names["pksfile"] IN
       IF DExists(disk, p) /\ DGet(disk, p).kind = "pks" THEN R([o EXCEPT !.pt = DGet(disk, p).ver], "ok")
       ELSE R(o, "FileNotFoundError")
TabGuard(o) == o.ofb.k = "unset" \/ (IsArr(o.ofb) /\ IsArr(o.dty) /\ Size(o.ofb) > 4 /\ o.ofb.sh = o.dty.sh)
PkOp(disk, o, which) ==
  IF (IF which = "2d" THEN o.pk2d ELSE o.pk4d).k # "none" THEN R(o, "ok")
  ELSE LET r == PeaksTableOp(disk, o) IN
       IF r.ret # "ok" THEN r
       ELSE IF r.o.ofb.k = "unset" THEN R(r.o, "AttributeError")
       ELSE LET tab == [k |-> "tab", pt |-> r.o.pt, ofb |-> r.o.ofb, dty |-> r.o.dty, mon |-> r.o.monitor,
                        mref |-> r.o.mref]
            IN IF which = "2d" THEN R([r.o EXCEPT !.pk2d = tab], "ok") ELSE R([r.o EXCEPT !.pk4d = tab], "ok")

\* ---- the dataset file ------------------------------------------------------------------------------
ABSENT == "<absent>"
StrKeys == {"dataroot", "analysisroot", "sample", "dset", "dsname", "datapath", "analysispath", "masterfile",
            "limapath", "parfile"} \cup Persisted12
ListKeys == <<"scans", "imagefiles", "sparsefiles">>
NDseq == <<"omega", "omega_for_bins", "dty", "nnz", "frames_per_file", "frames_per_scan", "monitor",
           "ybinedges", "ybincens", "obinedges", "obincens">>                      \* NDNAMES order (nlm is never set)
EmptyDs == [kind |-> "ds", pad |-> FALSE, whole |-> TRUE, str |-> [k \in StrKeys |-> ABSENT], hasshape |-> FALSE, shape |-> <<0, 0>>, mref |-> NoneN,
            lists |-> [k \in Range(ListKeys) |-> NoneL], nd |-> [k \in Range(NDseq) |-> UnsetA]]
StrOf(o, k) == IF k \in Persisted12 THEN o.names[k]
               ELSE CASE k = "dataroot" -> o.dataroot [] k = "analysisroot" -> o.analysisroot [] k = "sample" -> o.sample
                      [] k = "dset" -> o.dset [] k = "dsname" -> o.dsname [] k = "datapath" -> o.datapath
                      [] k = "analysispath" -> o.analysispath [] k = "masterfile" -> o.masterfile
                      [] k = "limapath" -> o.limapath [] k = "parfile" -> o.parfile
ListOf(o, k) == CASE k = "scans" -> o.scans [] k = "imagefiles" -> o.imagefiles [] k = "sparsefiles" -> o.sparsefiles
NdOf(o, k) == CASE k = "omega" -> o.omega [] k = "omega_for_bins" -> o.ofb [] k = "dty" -> o.dty [] k = "nnz" -> o.nnz
                [] k = "frames_per_file" -> o.fpf [] k = "frames_per_scan" -> o.fps [] k = "monitor" -> o.monitor
                [] k = "ybinedges" -> o.ybinedges [] k = "ybincens" -> o.ybincens
                [] k = "obinedges" -> o.obinedges [] k = "obincens" -> o.obincens
\* np.asarray(attribute) as save() sees it: [exc, a]
SaveArr(a) ==
  IF a.k = "arr" THEN [exc |-> "ok", a |-> a]
  ELSE IF a.k = "plist" THEN (IF a.v = <<>> THEN [exc |-> "ValueError", a |-> a] ELSE [exc |-> "ok", a |-> Arr1(a.v, "i8")])
  ELSE IF a.k = "list" /\ a.n # Len(a.rows) THEN [exc |-> "TypeError", a |-> a]          \* object array of None
  ELSE IF AsArr(a).ok THEN [exc |-> "ok", a |-> AsArr(a).a]
  ELSE [exc |-> "ValueError", a |-> a]
RECURSIVE SaveLists(_, _, _)
SaveLists(o, c, ks) ==
  IF ks = <<>> THEN [c |-> c, exc |-> "ok"]
  ELSE LET k == Head(ks)   l == ListOf(o, k) IN
       IF l.k = "none" \/ l.v = <<>> THEN SaveLists(o, c, Tail(ks))
       ELSE IF c.lists[k].k # "none" /\ Len(c.lists[k].v) # Len(l.v) /\ BUG_SAVESHAPE THEN [c |-> c, exc |-> "TypeError"]
       ELSE SaveLists(o, [c EXCEPT !.lists[k] = l], Tail(ks))
RECURSIVE SaveNd(_, _, _)
SaveNd(o, c, ks) ==
  IF ks = <<>> THEN [c |-> c, exc |-> "ok"]
  ELSE LET k == Head(ks)   a == NdOf(o, k) IN
       IF a.k \in {"none", "unset"} THEN SaveNd(o, c, Tail(ks))
       ELSE LET sa == SaveArr(a)   old == c.nd[k] IN
            \* an empty list never replaces what the file holds (the repair deletes only for storable data)
            IF a.k = "plist" /\ a.v = <<>> /\ old.k = "arr" THEN [c |-> c, exc |-> "TypeError"]
            ELSE IF sa.exc # "ok" THEN [c |-> c, exc |-> sa.exc]
            ELSE IF old.k = "arr" /\ old.sh # sa.a.sh /\ BUG_SAVESHAPE THEN [c |-> c, exc |-> "TypeError"]
            ELSE IF old.k = "arr" /\ old.sh = sa.a.sh /\ old.dt # sa.a.dt /\ BUG_SAVESHAPE THEN [c |-> c, exc |-> "TypeError"]
            ELSE SaveNd(o, [c EXCEPT !.nd[k] = sa.a], Tail(ks))
\* save(h5name)                                                                         dataset.py:985-1043
CUSTOM == "custom.h5"
SavePath(disk, o, named) ==
  IF named THEN CUSTOM
  ELSE IF ~BUG_SAVEDEF /\ DExists(disk, o.dsfile) THEN o.dsfile ELSE o.dsfdef
SaveOp(disk, o, named) ==
  LET p == SavePath(disk, o, named)
      old == IF DExists(disk, p) THEN DGet(disk, p) ELSE EmptyDs
      c1 == [old EXCEPT !.str = [k \in StrKeys |-> IF StrOf(o, k) \in {NONE, UNSET} THEN old.str[k] ELSE StrOf(o, k)],
                        !.hasshape = TRUE, !.shape = o.shape, !.pad = IF o.ybincens.k = "arr" THEN o.pad ELSE @,
                        !.mref = IF o.mref.k = "none" THEN old.mref ELSE o.mref]
      r2 == SaveLists(o, c1, ListKeys)
      r3 == IF r2.exc = "ok" THEN SaveNd(o, r2.c, NDseq) ELSE r2
      \* ghost: a failed save leaves a half written file
  IN [o |-> IF r3.exc = "ok" THEN [o EXCEPT !.dsfile = p] ELSE o, ret |-> r3.exc,
      disk |-> DPut(disk, p, [r3.c EXCEPT !.whole = @ /\ r3.exc = "ok"])]

\* load(h5name) in place                                                                dataset.py:1045-1084
SetStr(o, k, v) == IF k \in Persisted12 THEN [o EXCEPT !.names[k] = v]
                   ELSE CASE k = "dataroot" -> [o EXCEPT !.dataroot = v] [] k = "analysisroot" -> [o EXCEPT !.analysisroot = v]
                          [] k = "sample" -> [o EXCEPT !.sample = v] [] k = "dset" -> [o EXCEPT !.dset = v]
                          [] k = "dsname" -> [o EXCEPT !.dsname = v] [] k = "datapath" -> [o EXCEPT !.datapath = v]
                          [] k = "analysispath" -> [o EXCEPT !.analysispath = v] [] k = "masterfile" -> [o EXCEPT !.masterfile = v]
                          [] k = "limapath" -> [o EXCEPT !.limapath = v] [] k = "parfile" -> [o EXCEPT !.parfile = v]
StrKeySeq == <<"dataroot", "analysisroot", "sample", "dset", "dsname", "datapath", "analysispath", "masterfile",
               "limapath", "parfile", "pksfile", "col4dfile", "col3dfile", "col2dfile", "grainsfile", "sparsefile",
               "icolfile", "pbpfile">>
RECURSIVE LoadStrs(_, _, _)
LoadStrs(o, c, ks) == IF ks = <<>> THEN o
                      ELSE LoadStrs(IF c.str[Head(ks)] = ABSENT THEN o ELSE SetStr(o, Head(ks), c.str[Head(ks)]), c, Tail(ks))
Pick(new, old) == IF new.k \in {"unset", "none"} THEN old ELSE new
LoadFields(o, c) ==
  LET o1 == LoadStrs(o, c, StrKeySeq) IN
  [o1 EXCEPT !.shape = IF c.hasshape THEN c.shape ELSE @, !.pad = IF c.nd["ybincens"].k = "arr" THEN c.pad ELSE @,
             !.mref = IF c.mref.k = "none" THEN @ ELSE c.mref,
             !.omega = Pick(c.nd["omega"], @), !.ofb = Pick(c.nd["omega_for_bins"], @), !.dty = Pick(c.nd["dty"], @),
             !.nnz = Pick(c.nd["nnz"], @), !.fpf = Pick(c.nd["frames_per_file"], @),
             !.fps = Pick(c.nd["frames_per_scan"], @), !.monitor = Pick(c.nd["monitor"], @),
             !.ybinedges = Pick(c.nd["ybinedges"], @), !.ybincens = Pick(c.nd["ybincens"], @),
             !.obinedges = Pick(c.nd["obinedges"], @), !.obincens = Pick(c.nd["obincens"], @),
             !.scans = Pick(c.lists["scans"], @), !.imagefiles = Pick(c.lists["imagefiles"], @),
             !.sparsefiles = Pick(c.lists["sparsefiles"], @)]
LoadFrom(disk, o, p) ==
  IF ~DExists(disk, p) THEN R(o, "FileNotFoundError")
  ELSE LET r == GuessBinsOp(LoadFields(o, DGet(disk, p))) IN
       IF r.ret # "ok" THEN r
       ELSE R([UpdPaths(r.o, FALSE) EXCEPT !.dsfile = p], "ok")
LoadOp(disk, o, named) ==
  IF named THEN LoadFrom(disk, o, CUSTOM)
  ELSE IF DExists(disk, o.dsfile) THEN LoadFrom(disk, o, o.dsfile)
  ELSE IF DExists(disk, o.dsfdef) THEN LoadFrom(disk, o, o.dsfdef)
  ELSE R(o, "Exception")
\* dataset.load(p) / DataSet(filename=p, analysispath=ap): a fresh object                 dataset.py:123-194,1087
FreshLoad(disk, p, ap) ==
  LET r == LoadFrom(disk, [Blank(".", ".", "sample", "dataset") EXCEPT !.dsfile = p], p) IN
  IF r.ret # "ok" THEN r
  ELSE R(UpdPaths(IF ap = NONE THEN r.o ELSE [r.o EXCEPT !.analysispath = ap], FALSE), "ok")

\* ---- compare(a, b)                                                                   dataset.py:249-279
C(p, tag, v) == [p |-> p, tag |-> tag, v |-> v]
CStr(x) == IF x = UNSET THEN C(FALSE, "-", "") ELSE IF x = NONE THEN C(TRUE, "NoneType", "") ELSE C(TRUE, "str", x)
CArr(a) == CASE a.k = "unset" -> C(FALSE, "-", a) [] a.k = "none" -> C(TRUE, "NoneType", NoneA)
             [] a.k = "arr" -> C(TRUE, "ndarray", a) [] OTHER -> C(TRUE, "list", a)
CNum(n) == CASE n.k = "unset" -> C(FALSE, "-", n) [] n.k = "none" -> C(TRUE, "NoneType", NoneN)
             [] n.k = "rat" -> C(TRUE, "np", n) [] OTHER -> C(TRUE, n.t, Num(n.n, "x"))
CmpStrNames == <<"dataroot", "analysisroot", "sample", "dset", "dsname", "datapath", "masterfile", "analysispath",
                 "apdef", "dsfile", "dsfdef", "limapath", "parfile">>
CmpOther == <<"scans", "imagefiles", "sparsefiles", "fps", "fpf", "omega", "dty", "nnz", "monitor", "ofb",
              "obincens", "obinedges", "ybincens", "ybinedges", "mref", "omin", "omax", "ostep", "ymin", "ymax", "ystep",
              "shape", "imageshape">>
CmpNames == Range(CmpStrNames) \cup Range(CmpOther) \cup N12
CellOf(o, n) ==
  IF n \in N12 THEN CStr(o.names[n]) ELSE
  CASE n = "dataroot" -> CStr(o.dataroot) [] n = "analysisroot" -> CStr(o.analysisroot) [] n = "sample" -> CStr(o.sample)
    [] n = "dset" -> CStr(o.dset) [] n = "dsname" -> CStr(o.dsname) [] n = "datapath" -> CStr(o.datapath)
    [] n = "masterfile" -> CStr(o.masterfile) [] n = "analysispath" -> CStr(o.analysispath) [] n = "apdef" -> CStr(o.apdef)
    [] n = "dsfile" -> CStr(o.dsfile) [] n = "dsfdef" -> CStr(o.dsfdef) [] n = "limapath" -> CStr(o.limapath)
    [] n = "parfile" -> CStr(o.parfile)
    [] n = "scans" -> C(TRUE, IF o.scans.k = "none" THEN "NoneType" ELSE "list", o.scans)
    [] n = "imagefiles" -> C(TRUE, IF o.imagefiles.k = "none" THEN "NoneType" ELSE "list", o.imagefiles)
    [] n = "sparsefiles" -> C(TRUE, IF o.sparsefiles.k = "none" THEN "NoneType" ELSE "list", o.sparsefiles)
    [] n = "fps" -> CArr(o.fps) [] n = "fpf" -> CArr(o.fpf) [] n = "omega" -> CArr(o.omega) [] n = "dty" -> CArr(o.dty)
    [] n = "nnz" -> CArr(o.nnz) [] n = "monitor" -> CArr(o.monitor) [] n = "ofb" -> CArr(o.ofb)
    [] n = "obincens" -> CArr(o.obincens) [] n = "obinedges" -> CArr(o.obinedges)
    [] n = "ybincens" -> CArr(o.ybincens) [] n = "ybinedges" -> CArr(o.ybinedges)
    [] n = "mref" -> CNum(o.mref) [] n = "omin" -> CNum(o.omin) [] n = "omax" -> CNum(o.omax) [] n = "ostep" -> CNum(o.ostep)
    [] n = "ymin" -> CNum(o.ymin) [] n = "ymax" -> CNum(o.ymax) [] n = "ystep" -> CNum(o.ystep)
    [] n = "shape" -> C(TRUE, "tuple", o.shape)
    [] n = "imageshape" -> C(o.imageshape, "tuple", "")
RatEq(a, b) == IF a.k = "rat" /\ b.k = "rat" THEN a.a * b.b = b.a * a.b ELSE a = b
Differ(ca, cb) ==
  IF ca.tag # cb.tag THEN TRUE
  ELSE IF ca.tag = "ndarray"
       THEN ca.v.sh # cb.v.sh \/ \A i \in 1..Len(ca.v.v) : ca.v.v[i] # cb.v.v[i]         \* (s != o).all()
  ELSE IF ca.tag = "np" THEN ~RatEq(ca.v, cb.v)
  ELSE ca.v # cb.v
\* persisted attributes equal by value (container kinds ignored)
SameArr(a, b) == IF a.k \in {"none", "unset"} \/ b.k \in {"none", "unset"}
                 THEN a.k \in {"none", "unset"} /\ b.k \in {"none", "unset"}
                 ELSE /\ SaveArr(a).exc = "ok" /\ SaveArr(b).exc = "ok"
                      /\ SaveArr(a).a.sh = SaveArr(b).a.sh /\ SaveArr(a).a.v = SaveArr(b).a.v
AbsentLike(x) == x \in {NONE, UNSET}
\* lax: a None / unset string of b is not persisted, so a (loaded from b's file) may hold any default
PersistEqG(a, b, lax) ==
  /\ \A k \in StrKeys : \/ (AbsentLike(StrOf(a, k)) /\ AbsentLike(StrOf(b, k))) \/ StrOf(a, k) = StrOf(b, k)
                         \/ (lax /\ AbsentLike(StrOf(b, k)))
  /\ a.shape = b.shape /\ RatEq(a.mref, b.mref)
  /\ \A k \in Range(ListKeys) : LET la == ListOf(a, k)  lb == ListOf(b, k) IN
                                   IF la.k = "none" \/ lb.k = "none" THEN la.k = lb.k \/ (la.k = "seq" /\ la.v = <<>>) \/ (lb.k = "seq" /\ lb.v = <<>>)
                                   ELSE la.v = lb.v
  /\ \A k \in Range(NDseq) : SameArr(NdOf(a, k), NdOf(b, k))
PersistEq(a, b) == PersistEqG(a, b, FALSE)
Cmp(a, b) ==
  IF ~BUG_COMPARE THEN (IF PersistEq(a, b) THEN {"True"} ELSE {"False"})
  ELSE LET miss == {n \in CmpNames : CellOf(a, n).p /\ ~CellOf(b, n).p}
           mism == {n \in CmpNames : CellOf(a, n).p /\ CellOf(b, n).p /\ Differ(CellOf(a, n), CellOf(b, n))}
       IN IF miss = {} /\ mism = {} THEN {"True"}
          ELSE (IF miss # {} THEN {"AttributeError"} ELSE {}) \cup (IF mism # {} THEN {"False"} ELSE {})

\* ---- observers -----------------------------------------------------------------------------------------
SumSet(S) == LET RECURSIVE F(_) F(T) == IF T = {} THEN 0 ELSE LET e == CHOOSE e \in T : TRUE IN e + F(T \ {e}) IN F(S)
Digit(x, edges) == Cardinality({i \in 1..Len(edges) : edges[i] <= x}) - 1       \* np.digitize(x, edges) - 1
BinsDone(o) == /\ IsArr(o.ofb) /\ IsArr(o.omega) /\ IsArr(o.dty) /\ Size(o.ofb) = Size(o.dty) /\ Size(o.ofb) > 0
               /\ IsArr(o.obincens) /\ IsArr(o.obinedges) /\ IsArr(o.ybincens) /\ IsArr(o.ybinedges)
               /\ o.ostep.k = "num" /\ o.ystep.k = "num" /\ o.omin.k = "num" /\ o.ymin.k = "num"
               /\ Len(o.obincens.v) > 0 /\ Len(o.ybincens.v) > 0
Cells(o) == [t \in 1..Size(o.ofb) |-> <<Digit(o.ofb.v[t], o.obinedges.v), Digit(o.dty.v[t], o.ybinedges.v)>>]
\* sinohist(weights, method): range and bin counts                                         dataset.py:770-810
HRange(o) ==
  LET olo == IF BUG_SINOHIST THEN MinSeq(o.ofb.v) - Div(o.ostep.n, 2) ELSE o.obinedges.v[1]
      ohi == IF BUG_SINOHIST THEN MaxSeq(o.ofb.v) + Div(o.ostep.n, 2) ELSE o.obinedges.v[Len(o.obinedges.v)]
  IN [olo |-> olo, ohi |-> ohi, ylo |-> o.ybinedges.v[1], yhi |-> o.ybinedges.v[Len(o.ybinedges.v)],
      nbo |-> Len(o.obincens.v), nby |-> Len(o.ybincens.v)]
HistDef(o) == BinsDone(o) /\ HRange(o).ohi > HRange(o).olo /\ HRange(o).yhi > HRange(o).ylo
BinIdx(x, lo, hi, nb) == IF x < lo \/ x > hi THEN 0 ELSE IF x = hi THEN nb ELSE ((x - lo) * nb) \div (hi - lo) + 1
OnEdge(x, lo, hi, nb) == x = hi \/ (x > lo /\ x < hi /\ ((x - lo) * nb) % (hi - lo) = 0)
OmMod(o) == IF MaxSeq(o.omega.v) - MinSeq(o.omega.v) > T360 THEN Mod360(o.ofb).v ELSE o.ofb.v
HistOf(o, weighted) ==
  LET h == HRange(o)    om == OmMod(o)    N == Size(o.ofb)
      bx(t) == BinIdx(om[t], h.olo, h.ohi, h.nbo)
      by(t) == BinIdx(o.dty.v[t], h.ylo, h.yhi, h.nby)
  IN [i \in 1..h.nbo |-> [j \in 1..h.nby |->
        LET S == {t \in 1..N : bx(t) = i /\ by(t) = j} IN IF weighted THEN SumSet(S) ELSE Cardinality(S)]]
EdgeHit(o) ==
  LET h == HRange(o)    om == OmMod(o) IN
  \E t \in 1..Size(o.ofb) : OnEdge(om[t], h.olo, h.ohi, h.nbo) \/ OnEdge(o.dty.v[t], h.ylo, h.yhi, h.nby)
Total(hh) == SumSeq(MapSeq(hh, SumSeq))
\* the histogram the bin edges define
EdgeHist(o) ==
  LET cs == Cells(o) IN
  [i \in 1..Len(o.obincens.v) |-> [j \in 1..Len(o.ybincens.v) |->
      Cardinality({t \in 1..Len(cs) : cs[t] = <<i - 1, j - 1>>})]]

\* ---- projection compared with the real objects after every step ------------------------------------------
PA(a) == CASE a.k = "arr" -> [k |-> "arr", sh |-> a.sh, v |-> a.v, dt |-> a.dt]
           [] a.k = "list" -> [k |-> "list", sh |-> <<a.n>>, v |-> a.rows, dt |-> ""]
           [] a.k = "plist" -> [k |-> "plist", sh |-> <<Len(a.v)>>, v |-> a.v, dt |-> ""]
           [] OTHER -> [k |-> a.k, sh |-> <<>>, v |-> <<>>, dt |-> ""]
PN(n) == CASE n.k = "num" -> [k |-> "num", a |-> n.n, b |-> DEN, t |-> n.t]
           [] n.k = "rat" -> [k |-> "num", a |-> n.a, b |-> n.b, t |-> "np"]
           [] OTHER -> [k |-> n.k, a |-> 0, b |-> 1, t |-> ""]
PL(l) == IF l.k = "none" THEN [k |-> "none", v |-> <<>>] ELSE [k |-> "seq", v |-> l.v]
PScans(l) == IF l.k = "none" THEN [k |-> "none", v |-> <<>>] ELSE [k |-> "seq", v |-> MapSeq(l.v, Render)]
PTab(t) == IF t.k = "none" THEN [k |-> "none"]
           ELSE [k |-> "tab", pt |-> t.pt, ofb |-> PA(t.ofb), dty |-> PA(t.dty), mon |-> PA(t.mon), mref |-> PN(t.mref)]
SetToSeq(S) == LET q == <<"AttributeError", "False", "True">> IN SelectSeq(q, LAMBDA e : e \in S)
NOOBJ == [Blank("", "", "", "") EXCEPT !.dataroot = ""]
ProjObj(d, disk, o, other) ==
  [dataroot |-> o.dataroot, analysisroot |-> o.analysisroot, sample |-> o.sample, dset |-> o.dset, dsname |-> o.dsname,
   datapath |-> o.datapath, masterfile |-> o.masterfile, analysispath |-> o.analysispath, apdef |-> o.apdef,
   dsfile |-> o.dsfile, dsfdef |-> o.dsfdef, names |-> MapSeq(N12seq, LAMBDA n : o.names[n]), parfile |-> o.parfile,
   limapath |-> o.limapath, imageshape |-> o.imageshape,
   scans |-> PScans(o.scans), imagefiles |-> PL(o.imagefiles), sparsefiles |-> PL(o.sparsefiles),
   fps |-> PA(o.fps), fpf |-> PA(o.fpf), shape |-> o.shape, omega |-> PA(o.omega), dty |-> PA(o.dty), nnz |-> PA(o.nnz),
   monitor |-> PA(o.monitor), mref |-> PN(o.mref),
   obincens |-> PA(o.obincens), obinedges |-> PA(o.obinedges), ybincens |-> PA(o.ybincens), ybinedges |-> PA(o.ybinedges),
   ofb |-> PA(o.ofb), omin |-> PN(o.omin), omax |-> PN(o.omax), ostep |-> PN(o.ostep),
   ymin |-> PN(o.ymin), ymax |-> PN(o.ymax), ystep |-> PN(o.ystep),
   pt |-> o.pt, pk2d |-> PTab(o.pk2d), pk4d |-> PTab(o.pk4d), pad |-> o.pad,
   \* observers
   histdef |-> HistDef(o),
   h |-> IF HistDef(o) THEN HistOf(o, FALSE) ELSE <<>>,
   wh |-> IF HistDef(o) THEN HistOf(o, TRUE) ELSE <<>>,
   edgehit |-> IF HistDef(o) THEN EdgeHit(o) ELSE FALSE,
   cells |-> IF BinsDone(o) THEN Cells(o) ELSE <<>>,
   celledge |-> BinsDone(o) /\ \E t \in 1..Size(o.ofb) : Has(o.obinedges.v, o.ofb.v[t]) \/ Has(o.ybinedges.v, o.dty.v[t]),
   mon |-> [exc |-> GetMon(d, disk, o).exc, a |-> PA(GetMon(d, disk, o).a)],
   cmp |-> IF other.dataroot = "" THEN <<>> ELSE SetToSeq(Cmp(o, other))]
PFile(e) == LET c == e.c IN
  IF c.kind = "ds" THEN [p |-> e.p, kind |-> "ds", str |-> MapSeq(StrKeySeq, LAMBDA k : c.str[k]),
                         shape |-> IF c.hasshape THEN c.shape ELSE <<>>, mref |-> PN(c.mref),
                         lists |-> <<PScans(c.lists["scans"]), PL(c.lists["imagefiles"]), PL(c.lists["sparsefiles"])>>,
                         nd |-> MapSeq(NDseq, LAMBDA k : PA(c.nd[k]))]
  ELSE IF c.kind = "sparse" THEN [p |-> e.p, kind |-> "sparse", names |-> c.names]
  ELSE [p |-> e.p, kind |-> "pks", ver |-> c.ver]
Proj(R0) == [d |-> R0.d, form |-> R0.form, x |-> ProjObj(R0.d, R0.disk, R0.x, R0.y),
             y |-> IF R0.y.dataroot = "" THEN [none |-> TRUE] ELSE ProjObj(R0.d, R0.disk, R0.y, R0.x),
             disk |-> MapSeq(R0.disk, PFile)]

\* ---- start forms ---------------------------------------------------------------------------------------
Chain(d, disk, o, form) ==
  IF form = "fresh" THEN [o |-> o, disk |-> disk]
  ELSE LET r1 == ImportAllOp(d, disk, o, NoneL) IN
       IF form = "imported" THEN [o |-> r1.o, disk |-> disk]
       ELSE IF form = "cached"                            \* import_all(); a peak table appears; ds.pk2d; ds.pk4d
       THEN LET dk == DPut(disk, r1.o.names["pksfile"], [kind |-> "pks", ver |-> 1])
                r2 == IF TabGuard(r1.o) THEN PkOp(dk, r1.o, "2d") ELSE r1
                r3 == IF TabGuard(r2.o) THEN PkOp(dk, r2.o, "4d") ELSE r2
            IN [o |-> r3.o, disk |-> dk]
       ELSE IF form = "saved"                                         \* import_all(); save(); load()
       THEN LET r2 == SaveOp(disk, r1.o, FALSE)
                r3 == IF r2.ret = "ok" THEN LoadOp(r2.disk, r2.o, FALSE) ELSE R(r2.o, r2.ret)
            IN [o |-> r3.o, disk |-> r2.disk]
       ELSE \* "sparse": import_all(); harvest_masterfile(ds, ds.sparsefile); a new object; import_from_sparse(ds.sparsefile)
            IF CanHarvest(d, disk, r1.o)
            THEN LET dk == HarvestDisk(d, disk, r1.o)
                 IN [o |-> ImportFromSparseOp(d, dk, o, NoneL, <<>>).o, disk |-> dk]
            ELSE [o |-> r1.o, disk |-> disk]
Start(d, form) == LET c == Chain(d, <<>>, NewObj(d, NONE), form)
                  IN [d |-> d, form |-> form, x |-> c.o, y |-> NOOBJ, disk |-> c.disk]
Init == /\ \E d \in DsNames, form \in StartForms : s = Start(d, form)
        /\ hist = <<>>

\* EmitMode: 0 keep the projection of every step in the history (small runs whose counterexample is replayed),
\* 1 print every transition (the projection is formed when printing), 2 print complete behaviours (simulation),
\* 3 neither (large invariant runs)
KeepSt == EmitMode \in {0, 2}
Commit(R1, op, ret) == /\ s' = R1
                       /\ hist' = Append(hist, [op |-> op, ret |-> ret, st |-> IF KeepSt THEN Proj(R1) ELSE <<>>])
En == Len(hist) < MaxDepth
OnRaw == IsRaw(s.d, s.x.masterfile)
ArgStr(a) == IF a = NoneL THEN <<"None">> ELSE a.v

\* ---- actions ----------------------------------------------------------------------------------------------
UpdatePaths(force) == En /\ Commit([s EXCEPT !.x = UpdPaths(s.x, force)], <<"update_paths", force>>, "ok")
SetName(n, v) == En /\ s.x.names[n] # v /\ Commit([s EXCEPT !.x.names[n] = v], <<"set_name", n, v>>, "ok")
SetParfile(v) == En /\ s.x.parfile # v /\ Commit([s EXCEPT !.x.parfile = v], <<"set_name", "parfile", v>>, "ok")
SetAnalysisPath(v) == En /\ s.x.analysispath # v
                      /\ Commit([s EXCEPT !.x.analysispath = v], <<"set_name", "analysispath", v>>, "ok")
Do(r, op) == Commit([s EXCEPT !.x = r.o], op, r.ret)
ImportScans(arg) == En /\ OnRaw /\ Do(ImportScansOp(s.d, s.x, arg), <<"import_scans", ArgStr(arg)>>)
ImportImagefiles == En /\ OnRaw /\ Do(ImportImagefilesOp(s.d, s.x), <<"import_imagefiles">>)
ImportMotors == En /\ Do(ImportMotorsOp(s.d, s.disk, s.x), <<"import_motors_from_master">>)
GuessShape == En /\ Do(GuessShapeOp(s.d, s.disk, s.x), <<"guess_shape">>)
GuessBins == En /\ Do(GuessBinsOp(s.x), <<"guessbins">>)
ImportNnz == En /\ OnRaw /\ Do(ImportNnzOp(s.d, s.x), <<"import_nnz">>)
ImportAll(arg) == En /\ OnRaw /\ Do(ImportAllOp(s.d, s.disk, s.x, arg), <<"import_all", ArgStr(arg)>>)
Harvest == En /\ CanHarvest(s.d, s.disk, s.x)
           /\ Commit([s EXCEPT !.disk = HarvestDisk(s.d, s.disk, s.x)], <<"harvest">>, "ok")
ImportFromSparse(arg, sh) == En /\ Do(ImportFromSparseOp(s.d, s.disk, s.x, arg, sh), <<"import_from_sparse", ArgStr(arg), sh>>)
\* (a zero ystep - stale single-centre bins on a two row shape - makes the real code produce NaNs: not explored)
HalfScan(y0) == En /\ (s.x.ystep.k = "num" => s.x.ystep.n # 0) /\ Do(HalfScanOp(s.x, y0), <<"correct_bins_for_half_scan", y0>>)
SetMonitor == En /\ Do(SetMonitorOp(s.d, s.disk, s.x), <<"set_monitor">>)
Save(named) == En /\ LET r == SaveOp(s.disk, s.x, named)
                     IN Commit([s EXCEPT !.x = r.o, !.disk = r.disk], <<"save", named>>, r.ret)
Load(named) == En /\ Do(LoadOp(s.disk, s.x, named), <<"load", named>>)
LoadNew(named, ap) == En /\ LET p == IF named THEN CUSTOM ELSE s.x.dsfile
                                r == FreshLoad(s.disk, p, ap)
                            IN Commit(IF r.ret = "ok" THEN [s EXCEPT !.y = r.o] ELSE s, <<"load_new", named, ap>>, r.ret)
\* the user writes one element:  y.dty[0, 0] += 1
Poke == En /\ s.y.dataroot # "" /\ IsArr(s.y.dty) /\ Size(s.y.dty) > 0
        /\ Commit([s EXCEPT !.y.dty.v[1] = @ + DEN], <<"poke">>, "ok")
WritePks(v) == En /\ LET p == s.x.names["pksfile"] IN
               /\ ~(DExists(s.disk, p) /\ DGet(s.disk, p) = [kind |-> "pks", ver |-> v])
               /\ (DExists(s.disk, p) => DGet(s.disk, p).kind = "pks")
               /\ Commit([s EXCEPT !.disk = DPut(s.disk, p, [kind |-> "pks", ver |-> v])], <<"write_pks", v>>, "ok")
PeaksTable == En /\ Do(PeaksTableOp(s.disk, s.x), <<"peaks_table">>)
Pk2d == En /\ TabGuard(s.x) /\ Do(PkOp(s.disk, s.x, "2d"), <<"pk2d">>)
Pk4d == En /\ TabGuard(s.x) /\ Do(PkOp(s.disk, s.x, "4d"), <<"pk4d">>)
ResetCache == En /\ Do(R(ClearTabs(s.x), "ok"), <<"reset_peaks_cache">>)

ShapeArgs == IF s.d = "F2D" THEN {<<>>, <<2, 3>>} ELSE {<<>>}
SparseArgs == IF s.d = "F2D" THEN {NoneL, SL(<<"1.1">>)}
              ELSE IF s.d = "R180" THEN {NoneL, SL(<<"3.1", "1.1">>)} ELSE {NoneL}
Next ==
  \/ \E f \in BOOLEAN : UpdatePaths(f)
  \/ SetName("pksfile", "ana/user_pks.h5") \/ SetName("sparsefile", "ana/user_sparse.h5") \/ SetName("refmanfile", "ana/user_ref.h5")
  \/ SetParfile("ana/pars.json")
  \/ \E v \in {"alt/x", NONE} : SetAnalysisPath(v)
  \/ \E a \in {NoneL} \cup {SL(q) : q \in ScanArgs(s.d)} : ImportScans(a) \/ ImportAll(a)
  \/ ImportImagefiles \/ ImportMotors \/ GuessShape \/ GuessBins \/ ImportNnz \/ Harvest
  \/ \E a \in SparseArgs, sh \in ShapeArgs : ImportFromSparse(a, sh)
  \/ \E y0 \in {0, -1, 1} : HalfScan(y0)
  \/ SetMonitor
  \/ \E nm \in BOOLEAN : Save(nm) \/ Load(nm)
  \/ \E nm \in BOOLEAN, ap \in {NONE, "alt/x"} : LoadNew(nm, ap)
  \/ Poke
  \/ \E v \in PkVersions : WritePks(v)
  \/ PeaksTable \/ Pk2d \/ Pk4d \/ ResetCache
Spec == Init /\ [][Next]_vars

\* ---- laws ---------------------------------------------------------------------------------------------------
X == s.x
HasY == s.y.dataroot # ""
TypeOK == /\ s.d \in DsNames /\ Len(s.x.shape) = 2
          /\ s.x.shape[1] >= 0 /\ s.x.shape[2] >= 0
\* after the bins were computed the shapes agree
WF(o) == /\ BinsDone(o) /\ Len(o.obinedges.v) = Len(o.obincens.v) + 1 /\ Len(o.ybinedges.v) = Len(o.ybincens.v) + 1
         /\ o.omega.sh = o.dty.sh /\ o.ofb.sh = o.omega.sh /\ o.shape = o.omega.sh
WellFormed == WF(X)
RowConstY(o) == LET rd == RowsOf(o.dty.v, o.dty.sh[1], o.dty.sh[2]) IN \A i \in 1..Len(rd) : Len(Dedup(rd[i], {})) = 1
\* (the half-scan padding works from ybincens: it presumes one dty per row, i.e. a proper sinogram shape)
InBins(o) == \A t \in 1..Size(o.ofb) : /\ Cells(o)[t][1] \in 0..(Len(o.obincens.v) - 1)
                                        /\ Cells(o)[t][2] \in 0..(Len(o.ybincens.v) - 1)
Partition == (WF(X) /\ (X.pad => RowConstY(X))) => InBins(X)
\* no float-ambiguous sample in the explored alphabet, apart from the stale-bins states (then the harness skips hist)
HistTotal == (HistDef(X) /\ WF(X) /\ InBins(X) /\ ~(BUG_SINOHIST \/ BUG_LOAD360)) =>
                /\ Total(HistOf(X, FALSE)) = Size(X.ofb)
                /\ Total(HistOf(X, TRUE)) = SumSeq([t \in 1..Size(X.ofb) |-> t])
HistMatchesEdges == (HistDef(X) /\ WF(X) /\ ~EdgeHit(X)) => HistOf(X, FALSE) = EdgeHist(X)
Distinct(v) == SortNum(Dedup(v, {}))
EqSpaced(q) == \A i \in 1..(Len(q) - 1) : q[i+1] - q[i] = q[2] - q[1]
\* the realised grid is regular: every rotation visits the same equally spaced angles once, every row has one dty,
\* the dty of the rows are distinct and equally spaced
RegularGrid(o) ==
  LET ro == RowsOf(o.ofb.v, o.ofb.sh[1], o.ofb.sh[2])    rd == RowsOf(o.dty.v, o.dty.sh[1], o.dty.sh[2]) IN
  /\ Len(o.ofb.sh) = 2 /\ o.ofb.sh[1] >= 1 /\ o.ofb.sh[2] >= 2
  /\ \A i \in 1..Len(ro) : SortNum(ro[i]) = SortNum(ro[1])
  /\ Len(Distinct(ro[1])) = o.ofb.sh[2] /\ EqSpaced(Distinct(ro[1]))
  /\ \A i \in 1..Len(rd) : Len(Distinct(rd[i])) = 1
  /\ Len(Distinct(o.dty.v)) = o.dty.sh[1] /\ EqSpaced(Distinct(o.dty.v))
CentresAreMotors == (WF(X) /\ ~X.pad /\ RegularGrid(X)) =>
                       /\ X.obincens.v = Distinct(X.ofb.v)
                       /\ X.ybincens.v = Distinct(X.dty.v)
\* save to a fresh file and load into a fresh object
Saveable(o) == \A k \in Range(NDseq) : NdOf(o, k).k \in {"none", "unset"} \/ SaveArr(NdOf(o, k)).exc = "ok"
RT(o) == LET r == SaveOp(<<>>, o, TRUE)
             l == FreshLoad(r.disk, CUSTOM, NONE)
         IN [saved |-> r.ret = "ok", loaded |-> r.ret = "ok" /\ l.ret = "ok", o |-> l.o, disk |-> r.disk]
DerivedEq(a, b) == /\ a.omin.n = b.omin.n /\ a.omax.n = b.omax.n /\ a.ostep.n = b.ostep.n
                   \* a single row whose dty varies (fscan2d imported without shape=) has one centre: ymax is then
                   \* dty.max() before and ybincens[-1] after the round trip; not promised
                   /\ a.ymin.n = b.ymin.n /\ (b.shape[1] > 1 => a.ymax.n = b.ymax.n)
RoundTripLoads == (WF(X) /\ Saveable(X)) => RT(X).loaded
RoundTripPersist == (WF(X) /\ Saveable(X) /\ RT(X).loaded) => PersistEqG([RT(X).o EXCEPT !.ofb = X.ofb], X, TRUE)
RoundTripDerived == (WF(X) /\ Saveable(X) /\ RT(X).loaded) => DerivedEq(RT(X).o, X)
RoundTripOfb == (WF(X) /\ Saveable(X) /\ RT(X).loaded) => SameArr(RT(X).o.ofb, X.ofb)
RoundTripYstep == (WF(X) /\ Saveable(X) /\ RT(X).loaded) => RT(X).o.ystep.n = X.ystep.n
\* second generation: load(save(load(save(x)))) = load(save(x))
LoadIdempotent == (WF(X) /\ Saveable(X) /\ RT(X).loaded) =>
                     LET g1 == RT(X).o    g2 == RT(g1) IN
                     g2.loaded /\ PersistEqG(g2.o, g1, TRUE) /\ DerivedEq(g2.o, g1) /\ g2.o.ystep.n = g1.ystep.n
\* the round trip laws with the round trip evaluated once (what the conformance configurations check)
RTCommon(r) == /\ r.loaded
               /\ PersistEqG([r.o EXCEPT !.ofb = X.ofb], X, TRUE) /\ DerivedEq(r.o, X)
               /\ LET g2 == RT(r.o) IN g2.loaded /\ PersistEqG(g2.o, r.o, TRUE) /\ DerivedEq(g2.o, r.o) /\ g2.o.ystep.n = r.o.ystep.n
RoundTripPinned == (WF(X) /\ Saveable(X)) => LET r == RT(X) IN RTCommon(r)
RoundTripAll == (WF(X) /\ Saveable(X)) =>
   LET r == RT(X) IN
   /\ RTCommon(r) /\ SameArr(r.o.ofb, X.ofb) /\ r.o.ystep.n = X.ystep.n
   /\ (X.analysispath # NONE => LET l == [r.o EXCEPT !.dsfile = X.dsfile] IN Cmp(l, X) = {"True"} /\ Cmp(X, l) = {"True"})
SaveTotal == (WF(X) /\ Saveable(X) /\ \A i \in 1..Len(s.disk) : s.disk[i].p = SavePath(s.disk, X, FALSE) => s.disk[i].c.kind = "ds")
                => SaveOp(s.disk, X, FALSE).ret = "ok"
SaveTarget == DExists(s.disk, X.dsfile) => SavePath(s.disk, X, FALSE) = X.dsfile
\* a scan with corrupted omega gets the omega of the good scan whose first angle is nearest (first one on ties)
BadScanBest ==
  LET d == s.d
      o == ImportScansOp(d, NewObj(d, NONE), NoneL).o
      r == ImportMotorsOp(d, <<>>, o)
      nm(i) == o.scans.v[i].b
      c(i) == Scans(d)[ScanIdx(d, nm(i))]
      n == Len(o.scans.v)
      good == {i \in 1..n : Len(c(i).om) = c(i).nfr}
      dist(i, b) == Abs(c(i).om[1] - c(b).om[1])
  IN \A b \in (1..n) \ good :
        good # {} =>
          LET j == CHOOSE i \in good : \A z \in good : dist(i, b) < dist(z, b) \/ (dist(i, b) = dist(z, b) /\ i <= z)
          IN r.ret = "ok" /\ r.o.omega.rows[b] = Scale(c(j).om)
CompareSound == HasY => /\ ("True" \in Cmp(s.x, s.y) => PersistEq(s.x, s.y))
                        /\ ("True" \in Cmp(s.y, s.x) => PersistEq(s.y, s.x))
CompareRoundTrip == (WF(X) /\ Saveable(X) /\ RT(X).loaded /\ X.analysispath # NONE
                     /\ PersistEqG(RT(X).o, X, TRUE) /\ DerivedEq(RT(X).o, X) /\ RT(X).o.ystep.n = X.ystep.n) =>
                       LET l == [RT(X).o EXCEPT !.dsfile = X.dsfile] IN Cmp(l, X) = {"True"} /\ Cmp(X, l) = {"True"}
CacheNoMix == /\ (X.pk2d.k = "tab" => X.pt # 0 /\ X.pk2d.pt = X.pt)
              /\ (X.pk4d.k = "tab" => X.pt # 0 /\ X.pk4d.pt = X.pt)

\* action properties
LastOp == hist'[Len(hist')].op
LastRet == hist'[Len(hist')].ret
PathsStep ==
  hist' # hist =>
    /\ (LastOp[1] = "update_paths" /\ ~LastOp[2]) =>
          \A n \in N12 : s.x.names[n] # NONE => s'.x.names[n] = s.x.names[n]
    /\ (LastOp[1] = "update_paths" /\ LastOp[2]) =>
          \A n \in N12 : s'.x.names[n] = Join(s'.x.analysispath, s'.x.dsname \o Ext(n))
    /\ LastOp[1] = "update_paths" => s'.x.analysispath # NONE /\ s'.x.dsfile # NONE
    /\ (LastOp[1] \notin {"update_paths", "set_name", "load"}) => s'.x.names = s.x.names
    /\ (LastOp[1] = "load" /\ LastRet = "ok") =>
          \A n \in N12 \ Persisted12 : s.x.names[n] # NONE => s'.x.names[n] = s.x.names[n]
PathsKept == [][PathsStep]_vars
\* a successful import / load leaves a well formed object (a failed operation may not: see the header)
WFStep == (hist' # hist /\ LastRet = "ok") =>
             /\ LastOp[1] \in {"import_all", "import_from_sparse"} => WF(s'.x)
             /\ (LastOp[1] = "load" /\ DGet(s.disk, s'.x.dsfile).whole) => WF(s'.x)
             /\ (LastOp[1] = "load_new" /\ DGet(s.disk, s'.y.dsfile).whole) => WF(s'.y)
             /\ (LastOp[1] \in {"correct_bins_for_half_scan", "set_monitor", "update_paths", "save"} /\ WF(s.x)) => WF(s'.x)
WellFormedAfter == [][WFStep]_vars
MonitorStep == (hist' # hist /\ LastOp[1] = "set_monitor" /\ LastRet = "ok") =>
                  s'.x.pk2d.k = "none" /\ s'.x.pk4d.k = "none" /\ IsArr(s'.x.monitor) /\ s'.x.mref.k = "rat"
MonitorResets == [][MonitorStep]_vars
\* an operation that fails inside the object leaves the files of other datasets alone; only save/harvest/write_pks write
DiskStep == (hist' # hist /\ LastOp[1] \notin {"save", "harvest", "write_pks"}) => s'.disk = s.disk
DiskFrame == [][DiskStep]_vars

\* ---- emission for the replay harness ----------------------------------------------------------------------------
Compact(h, last) == [i \in 1..Len(h) |-> IF i = Len(h) THEN [op |-> h[i].op, ret |-> h[i].ret, st |-> last]
                                         ELSE [op |-> h[i].op]]
Head0 == [d |-> s.d, form |-> s.form]
EmitTransition == EmitMode # 1 \/ PrintT("@@" \o ToJson([start |-> [d |-> s'.d, form |-> s'.form],
                                                         h |-> Compact(hist', Proj(s'))]))
EmitFinal == EmitMode # 2 \/ Len(hist) < MaxDepth \/ PrintT("@@" \o ToJson([start |-> Head0, h |-> hist]))
EmitTable == PrintT("@@N" \o ToString(DEN)) /\ PrintT("@@T" \o ToJson(DsTable)) /\ PrintT("@@P" \o ToJson([v \in PkVersions |-> Peaks(v)]))
View == <<s, Len(hist)>>
=============================================================================

\* pinned formulas: MonoAgrees is expected to be VIOLATED (the counterexample is replayed on the real kernel)
\* u1 = identity, u2 in the 40 rational rotations with quaternion components -1..1
SPECIFICATION Spec
CONSTANTS
  QMax1 = 0
  EAng1 <- EA_id
  QMax2 = 1
  EAng2 <- EA_none
  Kernels = "pinned"
INVARIANT TypeOK
INVARIANT MonoAgrees
CHECK_DEADLOCK FALSE

SPECIFICATION FairSpec
CONSTANTS
  K = 10
  BOX = 6
  Cases <- Cases_q
  FIXED = FALSE
PROPERTY Termination
CHECK_DEADLOCK FALSE

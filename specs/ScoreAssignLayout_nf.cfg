SPECIFICATION Spec
CONSTANTS
  G = 2
  R = 2
  K = 1
  E = 3
  N = 2
  LInitU = TRUE
  LInitNN = {0, 1, 2}
  DInit = {3}
  EmitOn = TRUE
  GvLayouts = {"C", "F", "cols2", "f32", "be"}
  UbiLayouts = {"C", "F"}
  Builds = {"indexer", "from_colfile", "from_colfile_and_ucell", "set_gv", "readgvfile"}
  Preps = {"direct"}
  NFKinds = {"nan_one", "nan_all", "pinf_one", "ninf_one", "inf_all"}
  Flatten = "wrapper"
INVARIANT LayoutBlind
INVARIANT ClosedForm
INVARIANT Counts
INVARIANT Represent
INVARIANT BestGrain
INVARIANT Unassigned
INVARIANT StoredError
INVARIANT ReturnedCounts
INVARIANT Histogram
INVARIANT Sane
INVARIANT OrderIndependent
INVARIANT Emit
CHECK_DEADLOCK FALSE

\* ownership of constructor arguments and of results handed out: every history of 5 caller operations (overwrite the
\* parameter array, makerings, orient with one of two observations in nearest / crange mode, overwrite the g arrays)
\* x what the constructor was given (a float64 array in four layouts, a list)
INIT InitOwn
NEXT NextOwn
CONSTANTS
  MODE = "rule"
  Cells <- Cells_q
  NR = 4
  NRC = 8
  PairSel = "upper"
  TieRules = {"fwd"}
  BugEnds = {FALSE}
  CRanges = {0}
  Rots <- Rots_q
  Scales <- Scales_q
INVARIANT TypeOK
INVARIANT Owned
INVARIANT ResultsStand
INVARIANT EmitOwn
CHECK_DEADLOCK FALSE

\* X07 quick: cimaged11_omp_set_num_threads(n) for n = -1, 0, 1, 3
SPECIFICATION Spec
CONSTANTS
  EnvOmp = {0}
  Cores = {2}
  Slurm = {0}
  PutVals = {}
  SetVals <- SetValsNeg
  NbVals = {}
  Starts = {}
  Hows = {}
  POps = {"import", "set"}
  COps = {}
  NW = 0
  MaxDepth = 3
  BUG_INHERIT = TRUE
  BUG_NBRESET = TRUE
  EmitMode = 1
INVARIANT TypeOK
INVARIANT RegPositive
INVARIANT SafeNeverStuck
INVARIANT StopBound
INVARIANT LateNoWork
PROPERTY SetGet
PROPERTY WarnRule
PROPERTY PatchSafe
PROPERTY OneThreadNeverStuck
PROPERTY Restore
PROPERTY StopSticky
PROPERTY DoneIsFinal
PROPERTY RaiseStops
PROPERTY FlagPerProcess
PROPERTY PbpOneThread
ACTION_CONSTRAINT EmitTransition
VIEW View
CHECK_DEADLOCK FALSE

SPECIFICATION Spec
CONSTANTS
  TURN = 14400
  SLOPS = {2, 10}
  LOS <- LOS_Q
  IDEALS <- IDEALS_Q
  DELTAS <- DELTAS_Q
  WRAP = "fmod"
INVARIANT ObsInRange
INVARIANT FloatedRight
CHECK_DEADLOCK FALSE

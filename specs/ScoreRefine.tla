---------------------------- MODULE ScoreRefine ----------------------------
(***************************************************************************)
(* Scoring and least-squares refinement kernels of src/closest.c           *)
(* (score 227-247, score_and_refine 264-345, refine_assigned 413-467) and  *)
(* their Python references (indexing.calc_drlv2 / refine), in exact        *)
(* dyadic arithmetic.                                                      *)
(*                                                                         *)
(* A case is: UBI = 2^S.D.M  (M unimodular integer, D = diag of powers of  *)
(* two <= 8, 2^S = diag(2^s1, 2^s2, 2^s3) a further power-of-two scaling of*)
(* the cell axes, S in SCALES, any integers), tolerance tol/64, and a list *)
(* of peaks drawn from POOL; a peak is <<h, d>> : integer hkl and an offset*)
(* in 64ths, its g-vector is g = UB (h + d/64) with UB = M^-1 D^-1 2^-S,   *)
(* so UBI.g = h + d/64 exactly, in the model and - every product and sum   *)
(* being a dyadic below 2^53 - in binary64 too.                            *)
(* All quantities are kept as integers:                                    *)
(*    G512 = 512 g  (at S = 0),  sumsq4096 = |d|^2 = 4096 * drlv2 ,        *)
(*    tol2 = tol^2 ,  x = 64 h + d  (= 64 UBI.g, scale free)               *)
(* The loop body of the kernels is one action (Iter: test the peak, add    *)
(* to the normal equations); Solve forms the answer or leaves UBI alone.   *)
(*                                                                         *)
(* Scale.  The property quantifies over all UBIs: cells of 1 A and of 1e3 A*)
(* (|det UB| = 1/volume from 1 down to 1e-9), anisotropic cells, g-vectors *)
(* in any unit.  Nothing the kernels are asked to compute depends on the   *)
(* scale: selection, n, sum of squares, H and X = sum x h^T are functions  *)
(* of (h, d, tol) only, and by linearity R = sum g h^T = UB.X/64, so       *)
(*    UB_fit = R H^-1 = UB.(X H^-1)/64,  UBI_fit = 64 H X^-1 . UBI         *)
(* for EVERY UBI = A.M with A diagonal.  TLC checks the linearity law      *)
(* (Covariant: the R accumulated peak by peak from the g-vectors, as the   *)
(* code does, equals UB512.X) at the integer scalings D in DS, and the     *)
(* fixed-point law (FixedPoint: peaks exactly on the lattice give X = 64 H,*)
(* i.e. UBI_fit = UBI).  S itself never enters TLC's integer arithmetic    *)
(* (2^S does not fit 32 bits): it is carried through the state and emitted;*)
(* the harness forms g = M^-1 (2^S D)^-1 x/64 and R = sum g h^T in exact   *)
(* fractions for the instance's S and re-checks R = UB.X/64 there.         *)
(*                                                                         *)
(* checked: H symmetric; Cauchy-Binet  det H = sum over triples of selected*)
(* peaks of det[ha hb hc]^2  (so "singular" <=> the selected hkl span less *)
(* than 3 dimensions); n <= number of peaks; the boundary sumsq = tol^2 is *)
(* NOT selected (strict <); Covariant and FixedPoint (above).  Emit hands  *)
(* the exact expectations to the harness.                                  *)
(*                                                                         *)
(* Non-finite values.  A peak list may hold entries that are not numbers   *)
(* (a column file with invalid geometry rows): list entries above          *)
(* Len(POOL) stand for a peak whose g-vector has a NaN / +inf / -inf       *)
(* component (KINDS; the component rotates with the position, the other    *)
(* components are those of a pool peak), and one element of UBI itself may *)
(* be NaN / +-inf (ub, UBADS).  "Within the tolerance" is `error < tol`:   *)
(* an error that is not a number is below nothing, so such a peak is never *)
(* selected, whatever its kind, and with a non-finite UBI element no peak  *)
(* is (every UBI.g then has a non-finite component).  Law SubList: count,  *)
(* sum of squares, X and H of the loop are those of the list with the      *)
(* non-finite entries deleted (a fold over the finite sub-list, written    *)
(* independently of Iter); with ub # "none" they are zero and the matrix   *)
(* stays as it is.  For refine_assigned the selection is the label: the    *)
(* emitted label pattern gives non-finite peaks the other label (they must *)
(* not touch the fit); nlb counts the non-finite peaks of the raw pattern  *)
(* (a second call that labels them too is only asked for its count: the    *)
(* definition's sums are not numbers then).                                *)
(*                                                                         *)
(* cfgs: _q / _t enumerate every peak list of POOL_std at S = 0;           *)
(*       _sq / _st enumerate the scale family SCALES_q / SCALES_t (cell    *)
(*       edges 1 A .. 4096 A, long-axis and plate-like cells, g in units   *)
(*       2^+-33 and 2^+-100 away) over the shorter pool POOL_s;            *)
(*       _nq / _nt enumerate every list over POOL_n and NBAD non-finite    *)
(*       kinds (MAXPK = 4: three independent finite peaks and a bad one    *)
(*       give regular normal equations) and the non-finite UBI elements.   *)
(*       Re-entrancy of the kernels (calls from several Python threads):   *)
(*       ScoreRefineCalls.tla.                                             *)
(***************************************************************************)
EXTENDS ExactLA, Json

CONSTANTS MS,        \* set of unimodular integer matrices M
          DS,        \* set of <<d1,d2,d3>>, each in {1,2,4,8}
          TOLS,      \* set of tolerances in 64ths (tol = t/64, 0 < t <= 32)
          POOL,      \* sequence of << <<h,k,l>>, <<d1,d2,d3>> >>
          MAXPK,     \* longest peak list
          SCALES,    \* set of <<s1,s2,s3>> (integers of either sign): UBI = diag(2^s1,2^s2,2^s3).D.M
          LABS,      \* label patterns for refine_assigned: subset of {"all","odd","sel","none"}
          NBAD,      \* number of non-finite peak kinds in the alphabet of the lists (first NBAD of KINDS; 0: finite lists only)
          UBADS      \* kinds of a non-finite UBI element: subset of {"none","nan","pinf","ninf"}

\* ---- constant sets used by the .cfg files (cfg syntax has no tuples: `MS <- MS_q`) -----------
MS_q == { I3, << <<1,1,0>>, <<0,1,0>>, <<0,-1,1>> >> }
MS_t == MS_q \cup { << <<0,1,0>>, <<0,0,1>>, <<1,0,0>> >>, << <<1,0,2>>, <<-1,1,0>>, <<0,1,1>> >> }   \* dets +1, +1, +1, +-1
DS_q == { <<2,2,2>>, <<2,4,8>> }
DS_t == DS_q \cup { <<8,8,8>>, <<4,2,1>> }
TOLS_std == { 1, 8, 16, 32 }
POOL_std == << << <<1,0,0>>, <<0,0,0>> >>,   << <<0,1,0>>, <<1,0,0>> >>,    << <<0,0,1>>, <<0,-8,0>> >>,
               << <<1,1,0>>, <<8,8,0>> >>,   << <<2,-1,0>>, <<16,0,0>> >>,  << <<-1,0,2>>, <<0,0,-31>> >>,
               << <<0,3,-3>>, <<32,0,0>> >>, << <<2,2,0>>, <<0,0,0>> >>,    << <<1,2,3>>, <<-1,1,-1>> >>,
               << <<100,-57,33>>, <<1,0,0>> >> >>
\* the shorter pool of the scale runs: on-lattice, 1/64 off, 1/8 off, two axes 1/8 off, exactly on the tolerance
\* boundary (16/64), generic, |h| ~ 100
POOL_s == << << <<1,0,0>>, <<0,0,0>> >>,   << <<0,1,0>>, <<1,0,0>> >>,    << <<0,0,1>>, <<0,-8,0>> >>,
             << <<1,1,0>>, <<8,8,0>> >>,   << <<2,-1,0>>, <<16,0,0>> >>,  << <<1,2,3>>, <<-1,1,-1>> >>,
             << <<100,-57,33>>, <<1,0,0>> >> >>
\* scale families (exponents of two; the cell edges are 2^s x D, D in 2..8, i.e. a "2 A" base cell):
SCALES_unit == { <<0,0,0>> }
SCALES_q == { <<-1,-1,-1>>, <<2,2,2>>, <<5,5,5>>, <<7,7,7>>, <<9,9,9>>,        \* 1 A ... 1024 A (x D)
              <<0,0,8>>, <<9,0,0>>, <<0,6,10>>, <<8,8,-1>>,                     \* long axis, plate
              <<-33,-33,-33>>, <<33,33,33>>, <<-100,-100,-100>>, <<100,100,100>> }   \* huge / tiny |g|
SCALES_t == SCALES_q \cup { <<0,0,0>>, <<1,1,1>>, <<3,3,3>>, <<4,4,4>>, <<6,6,6>>, <<8,8,8>>, <<11,11,11>>,
                            <<-4,-4,-4>>, <<7,0,7>>, <<-1,9,4>>, <<10,5,0>>, <<3,12,3>>,
                            <<-33,-33,-25>>, <<33,40,33>>, <<-300,-300,-300>>, <<300,300,300>> }
\* non-finite runs: on-lattice, 1/64 off, 1/8 off, generic (any three of them are independent)
POOL_n == << << <<1,0,0>>, <<0,0,0>> >>,   << <<0,1,0>>, <<1,0,0>> >>,    << <<0,0,1>>, <<0,-8,0>> >>,
             << <<1,2,3>>, <<-1,1,-1>> >> >>
\* one component NaN / +inf / -inf, all three NaN, +inf in one component and -inf in the next
KINDS == << "nan", "pinf", "ninf", "nanall", "mix" >>
UBADS_none == {"none"}
UBADS_all == {"none", "nan", "pinf", "ninf"}
LABS_n == {"odd"}
LABS_nt == {"odd", "all"}
LABS_q == {"all", "odd"}
LABS_s == {"all"}
LABS_st == {"all", "sel"}
TOLS_s == { 16, 32 }
DS_s == { <<2,4,8>> }
LABS_t == {"all", "odd", "sel", "none"}
ASSUME \A m \in MS_t : Det(m) \in {1, -1}

ASSUME NBAD \in 0..Len(KINDS) /\ UBADS \subseteq UBADS_all

VARIABLES M, D, S, tol, lab, ub, pk, k, n, ss, R, H, X, nl, ssl, Rl, Hl, Xl, pc
vars == <<M, D, S, tol, lab, ub, pk, k, n, ss, R, H, X, nl, ssl, Rl, Hl, Xl, pc>>

\* a list entry e <= Len(POOL) is the pool peak e; e = Len(POOL) + q is a peak of the non-finite kind KINDS[q]
Lists == UNION {[1..m -> 1..(Len(POOL) + NBAD)] : m \in 0..MAXPK}

Init == /\ M \in MS /\ D \in DS /\ S \in SCALES /\ tol \in TOLS /\ lab \in LABS /\ ub \in UBADS
        /\ pk \in Lists
        \* with a non-finite UBI element nothing is ever selected: finite lists one shorter are enough
        /\ ub # "none" => (Len(pk) < MAXPK /\ \A i \in 1..Len(pk) : pk[i] <= Len(POOL))
        /\ k = 1 /\ n = 0 /\ ss = 0 /\ R = Z3 /\ H = Z3 /\ X = Z3
        /\ nl = 0 /\ ssl = 0 /\ Rl = Z3 /\ Hl = Z3 /\ Xl = Z3 /\ pc = "loop"

Finite(i) == pk[i] <= Len(POOL)
Kind(i) == IF Finite(i) THEN "" ELSE KINDS[pk[i] - Len(POOL)]
Comp(i) == ((i + pk[i]) % 3) + 1                 \* the component that is not a number
\* the finite components of a non-finite peak are those of the pool peak of its position
Base(i) == IF Finite(i) THEN pk[i] ELSE ((i - 1) % Len(POOL)) + 1
Hk(i) == POOL[Base(i)][1]
Dk(i) == POOL[Base(i)][2]
SumSq(i) == Norm2(Dk(i))                         \* 4096 * drlv2   (of a finite peak)
\* strict, as `sumsq < tolsq`; an error that is not a number is not below the tolerance
Selected(i) == Finite(i) /\ ub = "none" /\ SumSq(i) < tol * tol
\* which element of UBI is not a number (row, column), when ub # "none"
UbAt == << (Len(pk) % 3) + 1, (IF Len(pk) > 0 THEN pk[1] % 3 ELSE 0) + 1 >>
\* x = 64 UBI.g = 64 h + d : the same at every scale
Xk(i) == VAdd(VScale(64, Hk(i)), Dk(i))
\* 512 * g = M^-1 . diag(8/D) . (64 h + d)     (M^-1 = Adj(M)/Det(M), Det(M) = +-1)     [at S = 0]
G512(i) == LET x == Xk(i)
               y == << (8 \div D[1]) * x[1], (8 \div D[2]) * x[2], (8 \div D[3]) * x[3] >>
           IN VScale(Det(M), MV(Adj(M), y))
\* 512/64 * UB = M^-1 . diag(8/D)  as an integer matrix: G512(i) = UB512 . Xk(i)
UB512 == M2T(MScale(Det(M), MM(Adj(M), Diag(8 \div D[1], 8 \div D[2], 8 \div D[3]))))
RawLabelled(i) == CASE lab = "all" -> TRUE [] lab = "odd" -> i % 2 = 1
                 [] lab = "sel" -> Selected(i) [] lab = "none" -> FALSE
Labelled(i) == RawLabelled(i) /\ Finite(i)       \* non-finite peaks carry the other label in the judged call

\* one iteration of `for (k = 0; k < ng; k++)` of score_and_refine AND of refine_assigned
Iter == /\ pc = "loop" /\ k <= Len(pk)
        /\ IF Selected(k)
           THEN /\ n' = n + 1 /\ ss' = ss + SumSq(k)
                /\ R' = M2T(MAdd(R, Outer(G512(k), Hk(k))))
                /\ H' = M2T(MAdd(H, Outer(Hk(k), Hk(k))))
                /\ X' = M2T(MAdd(X, Outer(Xk(k), Hk(k))))
           ELSE UNCHANGED <<n, ss, R, H, X>>
        /\ IF Labelled(k)
           THEN /\ nl' = nl + 1 /\ ssl' = ssl + SumSq(k)
                /\ Rl' = M2T(MAdd(Rl, Outer(G512(k), Hk(k))))
                /\ Hl' = M2T(MAdd(Hl, Outer(Hk(k), Hk(k))))
                /\ Xl' = M2T(MAdd(Xl, Outer(Xk(k), Hk(k))))
           ELSE UNCHANGED <<nl, ssl, Rl, Hl, Xl>>
        /\ k' = k + 1 /\ UNCHANGED <<M, D, S, tol, lab, ub, pk, pc>>

\* k = inverse3x3(H): singular -> ubi unchanged, else UB = R H^-1 (the harness finishes the division)
\* 32-bit guard: with |hkl| ~ 100 the determinant does not fit TLC's integers; then the harness forms it
Big(Q) == \E i, j \in Idx : Abs(Q[i][j]) > 1200
BIG == 2147483647
DetOrBig(Q) == IF Big(Q) THEN BIG ELSE Det(Q)
Solve == /\ pc = "loop" /\ k = Len(pk) + 1
         /\ pc' = IF Big(H) THEN "big" ELSE IF Det(H) = 0 THEN "unchanged" ELSE "refined"
         /\ UNCHANGED <<M, D, S, tol, lab, ub, pk, k, n, ss, R, H, X, nl, ssl, Rl, Hl, Xl>>

Next == Iter \/ Solve
Spec == Init /\ [][Next]_vars

\* ---- laws -----------------------------------------------------------------------------------
Done == pc # "loop"
SelSet == {i \in 1..Len(pk) : Selected(i)}
HSym == IsSym(H) /\ IsSym(Hl)
CountOK == n <= k - 1 /\ nl <= k - 1
CauchyBinet == (Done /\ ~Big(H)) =>
   Det(H) = LET T == {t \in SelSet \X SelSet \X SelSet : t[1] < t[2] /\ t[2] < t[3]}
                F[Z \in SUBSET T] == IF Z = {} THEN 0
                                     ELSE LET t == CHOOSE x \in Z : TRUE
                                              d == Det(<<Hk(t[1]), Hk(t[2]), Hk(t[3])>>)
                                          IN d * d + F[Z \ {t}]
            IN F[T]
StrictBoundary == \A i \in 1..Len(pk) : SumSq(i) = tol * tol => ~Selected(i)
ScoreDef == Done => n = Cardinality(SelSet)
\* scale covariance (linearity): the R summed from the g-vectors is the image under UB of the scale-free X, at every
\* step of the loop and for both kernels; hence R H^-1 = UB.(X H^-1) and UBI_fit = (X H^-1)^-1 . UBI
Covariant == R = M2T(MM(UB512, X)) /\ Rl = M2T(MM(UB512, Xl))
\* peaks exactly on the lattice of UBI leave UBI where it is (X = 64 H, so X H^-1 = 64 I)
FixedPoint == /\ (\A i \in 1..(k-1) : Selected(i) => Dk(i) = <<0,0,0>>) => X = M2T(MScale(64, H))
              /\ (\A i \in 1..(k-1) : Labelled(i) => Dk(i) = <<0,0,0>>) => Xl = M2T(MScale(64, Hl))

\* non-finite entries are ignored: the loop's sums are those of the finite sub-list (positions Fin, in order),
\* folded here without reference to Iter; a non-finite UBI element selects nothing and leaves the matrix alone
Fin == SelectSeq([i \in 1..Len(pk) |-> i], LAMBDA i : Finite(i))
FoldFin[j \in 0..Len(Fin)] ==
   IF j = 0 THEN <<0, 0, Z3, Z3>>
   ELSE LET i == Fin[j]
            p == FoldFin[j - 1]
        IN IF SumSq(i) < tol * tol
           THEN << p[1] + 1, p[2] + SumSq(i), M2T(MAdd(p[3], Outer(Xk(i), Hk(i)))), M2T(MAdd(p[4], Outer(Hk(i), Hk(i)))) >>
           ELSE p
SubList == Done => IF ub = "none" THEN <<n, ss, X, H>> = FoldFin[Len(Fin)]
                   ELSE <<n, ss, X, H>> = <<0, 0, Z3, Z3>> /\ pc = "unchanged"
Nlb == Cardinality({i \in 1..Len(pk) : RawLabelled(i) /\ ~Finite(i)})

Emit == Done =>
   PrintT("@@" \o ToJson([M |-> M, D |-> D, S |-> S, tol |-> tol, lab |-> lab, ub |-> ub, ubat |-> UbAt, nlb |-> Nlb,
          peaks |-> [i \in 1..Len(pk) |-> [h |-> Hk(i), d |-> Dk(i), g512 |-> G512(i),
                                          bad |-> Kind(i), comp |-> Comp(i),
                                          sel |-> IF Selected(i) THEN 1 ELSE 0,
                                          lab |-> IF Labelled(i) THEN 1 ELSE 0]],
          n |-> n, ss |-> ss, R |-> R, H |-> H, X |-> X, detH |-> DetOrBig(H),
          nl |-> nl, ssl |-> ssl, Rl |-> Rl, Hl |-> Hl, Xl |-> Xl, detHl |-> DetOrBig(Hl)]))
=============================================================================

---------------------------- MODULE ScoreRefine ----------------------------
(***************************************************************************)
(* Scoring and least-squares refinement kernels of src/closest.c           *)
(* (score 227-247, score_and_refine 264-345, refine_assigned 413-467) and  *)
(* their Python references (indexing.calc_drlv2 / refine), in exact        *)
(* dyadic arithmetic.                                                      *)
(*                                                                         *)
(* A case is: UBI = D.M  (M unimodular integer, D = diag of powers of two  *)
(* <= 8), tolerance tol/64, and a list of peaks drawn from POOL; a peak is *)
(* <<h, d>> : integer hkl and an offset in 64ths, its g-vector is          *)
(* g = UB (h + d/64) with UB = M^-1 D^-1, so UBI.g = h + d/64 exactly, in  *)
(* the model and - every product and sum being a dyadic below 2^53 - in    *)
(* binary64 too.  All quantities are kept as integers:                     *)
(*    G512 = 512 g ,  sumsq4096 = |d|^2 = 4096 * drlv2 ,  tol2 = tol^2     *)
(* The loop body of the kernels is one action (Iter: test the peak, add    *)
(* to the normal equations); Solve forms the answer or leaves UBI alone.   *)
(*                                                                         *)
(* checked: H symmetric; Cauchy-Binet  det H = sum over triples of selected*)
(* peaks of det[ha hb hc]^2  (so "singular" <=> the selected hkl span less *)
(* than 3 dimensions); n <= number of peaks; the boundary sumsq = tol^2 is *)
(* NOT selected (strict <).  Emit hands the exact expectations to the      *)
(* harness.                                                                *)
(***************************************************************************)
EXTENDS ExactLA, Json

CONSTANTS MS,        \* set of unimodular integer matrices M
          DS,        \* set of <<d1,d2,d3>>, each in {1,2,4,8}
          TOLS,      \* set of tolerances in 64ths (tol = t/64, 0 < t <= 32)
          POOL,      \* sequence of << <<h,k,l>>, <<d1,d2,d3>> >>
          MAXPK,     \* longest peak list
          LABS       \* label patterns for refine_assigned: subset of {"all","odd","sel","none"}

\* ---- constant sets used by the .cfg files (cfg syntax has no tuples: `MS <- MS_q`) -----------
MS_q == { I3, << <<1,1,0>>, <<0,1,0>>, <<0,-1,1>> >> }
MS_t == MS_q \cup { << <<0,1,0>>, <<0,0,1>>, <<1,0,0>> >>, << <<1,0,2>>, <<-1,1,0>>, <<0,1,1>> >> }   \* dets +1, +1, +1, +-1
DS_q == { <<2,2,2>>, <<2,4,8>> }
DS_t == DS_q \cup { <<8,8,8>>, <<4,2,1>> }
TOLS_std == { 1, 8, 16, 32 }
POOL_std == << << <<1,0,0>>, <<0,0,0>> >>,   << <<0,1,0>>, <<1,0,0>> >>,    << <<0,0,1>>, <<0,-8,0>> >>,
               << <<1,1,0>>, <<8,8,0>> >>,   << <<2,-1,0>>, <<16,0,0>> >>,  << <<-1,0,2>>, <<0,0,-31>> >>,
               << <<0,3,-3>>, <<32,0,0>> >>, << <<2,2,0>>, <<0,0,0>> >>,    << <<1,2,3>>, <<-1,1,-1>> >>,
               << <<100,-57,33>>, <<1,0,0>> >> >>
LABS_q == {"all", "odd"}
LABS_t == {"all", "odd", "sel", "none"}
ASSUME \A m \in MS_t : Det(m) \in {1, -1}

VARIABLES M, D, tol, lab, pk, k, n, ss, R, H, nl, ssl, Rl, Hl, pc
vars == <<M, D, tol, lab, pk, k, n, ss, R, H, nl, ssl, Rl, Hl, pc>>

Lists == UNION {[1..m -> 1..Len(POOL)] : m \in 0..MAXPK}

Init == /\ M \in MS /\ D \in DS /\ tol \in TOLS /\ lab \in LABS
        /\ pk \in Lists
        /\ k = 1 /\ n = 0 /\ ss = 0 /\ R = Z3 /\ H = Z3
        /\ nl = 0 /\ ssl = 0 /\ Rl = Z3 /\ Hl = Z3 /\ pc = "loop"

Hk(i) == POOL[pk[i]][1]
Dk(i) == POOL[pk[i]][2]
SumSq(i) == Norm2(Dk(i))                         \* 4096 * drlv2
Selected(i) == SumSq(i) < tol * tol              \* strict, as `sumsq < tolsq`
\* 512 * g = M^-1 . diag(8/D) . (64 h + d)     (M^-1 = Adj(M)/Det(M), Det(M) = +-1)
G512(i) == LET x == VAdd(VScale(64, Hk(i)), Dk(i))
               y == << (8 \div D[1]) * x[1], (8 \div D[2]) * x[2], (8 \div D[3]) * x[3] >>
           IN VScale(Det(M), MV(Adj(M), y))
Labelled(i) == CASE lab = "all" -> TRUE [] lab = "odd" -> i % 2 = 1
                 [] lab = "sel" -> Selected(i) [] lab = "none" -> FALSE

\* one iteration of `for (k = 0; k < ng; k++)` of score_and_refine AND of refine_assigned
Iter == /\ pc = "loop" /\ k <= Len(pk)
        /\ IF Selected(k)
           THEN /\ n' = n + 1 /\ ss' = ss + SumSq(k)
                /\ R' = M2T(MAdd(R, Outer(G512(k), Hk(k))))
                /\ H' = M2T(MAdd(H, Outer(Hk(k), Hk(k))))
           ELSE UNCHANGED <<n, ss, R, H>>
        /\ IF Labelled(k)
           THEN /\ nl' = nl + 1 /\ ssl' = ssl + SumSq(k)
                /\ Rl' = M2T(MAdd(Rl, Outer(G512(k), Hk(k))))
                /\ Hl' = M2T(MAdd(Hl, Outer(Hk(k), Hk(k))))
           ELSE UNCHANGED <<nl, ssl, Rl, Hl>>
        /\ k' = k + 1 /\ UNCHANGED <<M, D, tol, lab, pk, pc>>

\* k = inverse3x3(H): singular -> ubi unchanged, else UB = R H^-1 (the harness finishes the division)
\* 32-bit guard: with |hkl| ~ 100 the determinant does not fit TLC's integers; then the harness forms it
Big(X) == \E i, j \in Idx : Abs(X[i][j]) > 1200
BIG == 2147483647
DetOrBig(X) == IF Big(X) THEN BIG ELSE Det(X)
Solve == /\ pc = "loop" /\ k = Len(pk) + 1
         /\ pc' = IF Big(H) THEN "big" ELSE IF Det(H) = 0 THEN "unchanged" ELSE "refined"
         /\ UNCHANGED <<M, D, tol, lab, pk, k, n, ss, R, H, nl, ssl, Rl, Hl>>

Next == Iter \/ Solve
Spec == Init /\ [][Next]_vars

\* ---- laws -----------------------------------------------------------------------------------
Done == pc # "loop"
SelSet == {i \in 1..Len(pk) : Selected(i)}
HSym == IsSym(H) /\ IsSym(Hl)
CountOK == n <= k - 1 /\ nl <= k - 1
CauchyBinet == (Done /\ ~Big(H)) =>
   Det(H) = LET T == {t \in SelSet \X SelSet \X SelSet : t[1] < t[2] /\ t[2] < t[3]}
                F[S \in SUBSET T] == IF S = {} THEN 0
                                     ELSE LET t == CHOOSE x \in S : TRUE
                                              d == Det(<<Hk(t[1]), Hk(t[2]), Hk(t[3])>>)
                                          IN d * d + F[S \ {t}]
            IN F[T]
StrictBoundary == \A i \in 1..Len(pk) : SumSq(i) = tol * tol => ~Selected(i)
ScoreDef == Done => n = Cardinality(SelSet)

Emit == Done =>
   PrintT("@@" \o ToJson([M |-> M, D |-> D, tol |-> tol, lab |-> lab,
          peaks |-> [i \in 1..Len(pk) |-> [h |-> Hk(i), d |-> Dk(i), g512 |-> G512(i),
                                          sel |-> IF Selected(i) THEN 1 ELSE 0,
                                          lab |-> IF Labelled(i) THEN 1 ELSE 0]],
          n |-> n, ss |-> ss, R |-> R, H |-> H, detH |-> DetOrBig(H),
          nl |-> nl, ssl |-> ssl, Rl |-> Rl, Hl |-> Hl, detHl |-> DetOrBig(Hl)]))
=============================================================================

\* F11: HdfTitles on the as-is world is EXPECTED TO BE VIOLATED by WriteHdf{foo,sc} ; WriteHdf{foo}
\* (Emit is listed first so that the violating state is printed before TLC stops)
SPECIFICATION Spec
CONSTANTS
  Family = "table"
  Paths = {"p1", "p2"}
  Groups = {"peaks"}
  SeedTuples <- SeedsStale
  OpNames = {"WriteHdf", "ReadHdf"}
  MaxDepth = 3
  EmitOn = TRUE
INVARIANT TypeOK
INVARIANT Emit
INVARIANT InvStale
VIEW View
CHECK_DEADLOCK FALSE

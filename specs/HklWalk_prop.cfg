\* the PROPERTY on the model of the pinned code: expected to be violated (oblique walk, centring A)
SPECIFICATION Spec
CONSTANTS
  HMAX = 200
  Forms <- FormsNamed
  Limits = {8, 13}
  Centrings = {"P", "A", "B", "C", "I", "F", "R"}
  Outif <- OutifPinned
  TIE = FALSE
  ORACLE = TRUE
  BigCases <- BigNone
INVARIANT PropertyHolds
CHECK_DEADLOCK FALSE

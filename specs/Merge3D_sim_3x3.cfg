SPECIFICATION SimSpec
CONSTANTS
  NS = 3
  NF = 3
  MAXFR = 4
  VALS = {0, 1, 2, 3}
  THR = 2
  PATTERN = FALSE
  OM0 = 2
  OMSTEP = 1
  OMSEQ <- NoSeq
  VSHIFT = 0
  MAXFIX = FALSE
  NANV <- Neg1
  EMITSTEPS = FALSE
INVARIANT NoBad
INVARIANT ShapeOK
INVARIANT LinkOK
INVARIANT NoSame1
INVARIANT ScanLive
INVARIANT Conserved
INVARIANT KernelPost
INVARIANT PrefixOK
INVARIANT DoneOK
INVARIANT EmitDone
INVARIANT EmitStep
CHECK_DEADLOCK FALSE

SPECIFICATION Spec
CONSTANTS
  K = 10
  BOX = 6
  Cases <- Cases_q
  FIXED = TRUE
INVARIANT NoStaleErrors
INVARIANT RankOK
INVARIANT Textbook
INVARIANT NonDegenerate
INVARIANT EvalCount
INVARIANT ExitOK
INVARIANT IterMeaning
INVARIANT ReturnIsBestOnEps
INVARIANT ReturnIsBest
INVARIANT ReturnIsVertexValue
PROPERTY BestNeverIncreases
PROPERTY OnlyWorstMoves
CHECK_DEADLOCK FALSE

\* quick: ten groups, primitive quaternions in -2..2 (272 rational rotations per cell), hkl box -1..1
SPECIFICATION Spec
CONSTANTS
  Names = {"cubic", "hexagonal", "trigonal", "rhombohedralP", "tetragonal", "orthorhombic", "monoclinic_c", "monoclinic_a", "monoclinic_b", "triclinic"}
  QMax = 2
  HMax = 1
  MaxCalls = 1
  DoScan = TRUE
  TrigonalFixed = TRUE
INVARIANT TypeOK
INVARIANT GenOK
INVARIANT Closed
INVARIANT HasIdentity
INVARIANT HasInverses
INVARIANT DetOne
INVARIANT IntegerEntries
INVARIANT OrderOK
INVARIANT SpectrumOK
INVARIANT MetricPreserved
INVARIANT Holohedry
INVARIANT TransposeMatters
INVARIANT CacheOK
INVARIANT InOrbit
INVARIANT AttainsMax
INVARIANT Idempotent
INVARIANT CanonicalIfUnique
INVARIANT TieDependence
INVARIANT MetricKept
INVARIANT SameLattice
INVARIANT HklCanonical
INVARIANT HklNormKept
INVARIANT Emit
CHECK_DEADLOCK FALSE

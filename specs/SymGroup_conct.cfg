\* thorough: two threads, all 55 unordered pairs of named groups, every interleaving of every step
SPECIFICATION SpecC
CONSTANTS
  Names = {"cubic", "hexagonal", "trigonal", "rhombohedralP", "tetragonal", "orthorhombic", "monoclinic_c", "monoclinic_a", "monoclinic_b", "triclinic"}
  QMax = 1
  HMax = 1
  MaxCalls = 1
  DoScan = FALSE
  TrigonalFixed = TRUE
  BigHkls = {}
  BlockSize = 0
  ListMax = 0
  ListPool = {}
  ListSizes = {}
  ConcPairs <- AllConcPairs
  CoarseNames = {}
  Stride = 1
  PublishEarly = FALSE
INVARIANT ConcTypeOK
INVARIANT HeldFull
INVARIANT HeldClosedAlways
INVARIANT PublishedComplete
INVARIANT PublishedClosed
INVARIANT PrivateWhileBuilt
INVARIANT NoAliasC
INVARIANT HitIsCached
INVARIANT AllCached
INVARIANT EmitConc
PROPERTY Frozen
CHECK_DEADLOCK TRUE

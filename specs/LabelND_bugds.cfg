\* self-test of DsLaw / DsCacheOK: reset_peaks_cache with the second test made an elif of the first
\* must be refuted (both tables read, then set_monitor, then the merged table read again)
SPECIFICATION Spec
CONSTANTS
  NSet = {3}
  ESet = {1}
  Threads = {t1}
  Static = FALSE
  OrdSet = {0}
  History = FALSE
  DoEmit = FALSE
  Bug = "elifcache"
  Hist = 0
  DsHist = 3
  DsOps = {"pk2d", "pk4d", "setmon"}
  NMon = 1
  Neg = FALSE
  Shape = "simple"
INVARIANT TypeOK
INVARIANT DsLaw
CHECK_DEADLOCK FALSE

SPECIFICATION Spec
CONSTANTS
  NS = 1
  NF = 5
  MAXFR = 2
  VALS = {0, 1}
  THR = 0
  PATTERN = TRUE
  OM0 = 3
  OMSTEP = 2
  OMSEQ <- NoSeq
  VSHIFT = 0
  MAXFIX = FALSE
  NANV <- Neg1
  EMITSTEPS = TRUE
INVARIANT NoBad
INVARIANT ShapeOK
INVARIANT LinkOK
INVARIANT NoSame1
INVARIANT ScanLive
INVARIANT Conserved
INVARIANT KernelPost
INVARIANT PrefixOK
INVARIANT DoneOK
INVARIANT EmitDone
INVARIANT EmitStep
CHECK_DEADLOCK FALSE

\* thorough: ten groups, primitive quaternions in -3..3 (1120 rational rotations per cell), hkl box -2..2 and
\* eight hkl with entries up to 499 (the harness adds seeded ones; {1000+h, 11000+k, 21000+l} stands for (h,k,l));
\* every list of 1..3 columns over the five hkl of ListPool reduced as ONE array (mode l; (249,-250,1): h - k = 499 in
\* the hexagonal orbit); ListSizes = the lengths the harness scales the emitted hkl to
SPECIFICATION Spec
CONSTANTS
  Names = {"cubic", "hexagonal", "trigonal", "rhombohedralP", "tetragonal", "orthorhombic", "monoclinic_c", "monoclinic_a", "monoclinic_b", "triclinic"}
  QMax = 3
  HMax = 2
  MaxCalls = 1
  DoScan = TRUE
  TrigonalFixed = TRUE
  BigHkls = {{1499, 10501, 21499}, {501, 10501, 20501}, {1001, 11400, 20600}, {1000, 11499, 20502}, {999, 10700, 21499}, {1017, 10983, 21499}, {1250, 10750, 21251}, {1499, 11499, 21498}}
  BlockSize = 0
  ListMax = 3
  ListPool = {{1001, 10998, 21003}, {998, 11003, 21001}, {1000, 11000, 21000}, {1017, 10983, 21499}, {1249, 10750, 21001}}
  ListSizes = {1, 2, 3, 255, 256, 257, 1023, 1025, 4097, 16385, 32769, 65535, 65536, 65537, 131089, 300000, 1048577}
  ConcPairs = {}
  CoarseNames = {}
  Stride = 1
  PublishEarly = FALSE
INVARIANT TypeOK
INVARIANT CurOK
INVARIANT GenOK
INVARIANT Closed
INVARIANT HasIdentity
INVARIANT HasInverses
INVARIANT DetOne
INVARIANT IntegerEntries
INVARIANT OrderOK
INVARIANT SpectrumOK
INVARIANT MetricPreserved
INVARIANT Holohedry
INVARIANT TransposeMatters
INVARIANT CacheOK
INVARIANT InOrbit
INVARIANT AttainsMax
INVARIANT Idempotent
INVARIANT CanonicalIfUnique
INVARIANT TieDependence
INVARIANT MetricKept
INVARIANT SameLattice
INVARIANT HklCanonical
INVARIANT HklLexMax
INVARIANT HklKeyMax
INVARIANT KeyFits32
INVARIANT HklNormKept
INVARIANT ListColumnwise
INVARIANT ListPositionFree
INVARIANT ListIsMap
INVARIANT Emit
CHECK_DEADLOCK FALSE

------------------------------- MODULE ConnPix -------------------------------
(***************************************************************************)
(* cImageD11.connectedpixels, src/connectedpixels.c:65-191, transcribed    *)
(* statement for statement: the verbose banner, the hoisted first pixel,   *)
(* the first row, and for every later row the row start, the middle and    *)
(* the row end, each with its own list of previously seen neighbours; then *)
(* dset_compress and the relabel pass.                                     *)
(*                                                                         *)
(* variables  img     the thresholded image (1 = strictly above)           *)
(*            con8    the connectivity the CALLER requested (the con8      *)
(*                    argument is non-zero); the property is stated on it  *)
(*            verbose the caller's verbose argument (any member of VERBS)  *)
(*            eight   the kernel's own parameter variable `eightconnected` *)
(*                    (an int) as the statements of the body read it       *)
(*            labels  the caller's inout array (starts as POISON: any      *)
(*                    previous content)                                    *)
(*            S       disjoint set array (Dset.tla), initial capacity CAP  *)
(*            pos     next pixel (row-major index) ; pc ; T ; np           *)
(*            oob     set when a statement would index outside labels      *)
(*            todo    rows the relabel pass has not rewritten yet (ROWPAR)  *)
(* actions    Banner (connectedpixels.c:71-77: `if (verbose)` two printf   *)
(*            calls, the second chosen by `eightconnected`; it prints and  *)
(*            writes nothing else: every variable is left as it was)       *)
(*            FirstPixel FirstRow RowStart Mid RowEnd (their tests of the  *)
(*            connectivity read `eight`, not the caller's request)         *)
(*            Compress Relabel                                             *)
(*            RelabelRow(r): with ROWPAR = TRUE the relabel pass - the     *)
(*            `#pragma omp parallel for` over rows, connectedpixels.c:173  *)
(*            - is taken one row at a time in ANY order (every schedule of *)
(*            any number of threads is an interleaving of row steps: a     *)
(*            step reads T and its own row only and writes its own row);   *)
(*            with ROWPAR = FALSE it is one step (the result is the same   *)
(*            pointwise map, so the cases are emitted from that setting).  *)
(*            The harness binds this by sweeping the real thread count     *)
(*            (1, 2, 3, 7, 16, 61; more threads than rows included).       *)
(* checked    InBounds, DsInv, FlagKept (the kernel's flag still says what *)
(*            the caller asked for) in every state (C20); at pc = "done":  *)
(*            Defined (no poison left), Background, Partition = the        *)
(*            connected components under the independent definition        *)
(*            (closure of adjacency) for the connectivity REQUESTED,       *)
(*            Numbering = 1..n in raster order of first pixels, np = n     *)
(*            (C11).  Numbering fixes the labels as a function of (img,    *)
(*            con8) alone: the result may not depend on `verbose`.         *)
(* options    every emitted case carries the option arguments of the call  *)
(*            (con8, verbose): the enumeration is images x CONS x VERBS,   *)
(*            and the harness replays each case with exactly these         *)
(*            arguments (the kernel's banner goes to a swallowed stdout).  *)
(* bounds     every binary image of NS x NF, both connectivities, every    *)
(*            verbose value of VERBS (0 = silent, 1, 2)                    *)
(***************************************************************************)
EXTENDS Dset, Json

CONSTANTS NS, NF, CAP, CONS, VERBS, EmitOn, ROWPAR
POISON == -7
N == NS * NF
Px == 0..(N - 1)
Row(p) == p \div NF
ColOf(p) == p % NF

VARIABLES img, con8, verbose, eight, labels, S, pos, pc, T, np, oob, todo
vars == <<img, con8, verbose, eight, labels, S, pos, pc, T, np, oob, todo>>
opts == <<con8, verbose, eight>>

Init == /\ img \in [Px -> {0, 1}]
        /\ con8 \in CONS
        /\ verbose \in VERBS
        /\ eight = (IF con8 THEN 1 ELSE 0)
        /\ labels = [p \in Px |-> POISON]
        /\ S = DsInit(CAP)
        /\ pos = 0 /\ pc = "banner" /\ T = <<>> /\ np = -1 /\ oob = FALSE /\ todo = {}

\* one pixel: labels[ipx] = 0 ; if above threshold: match against nbrs (in order), else new label
FoldMatch(lab, st0, nbrs) ==
  LET F[k \in 0..Len(nbrs)] ==
        IF k = 0 THEN st0
        ELSE IF lab[nbrs[k]] > 0 THEN Match(F[k - 1], lab[nbrs[k]]) ELSE F[k - 1]
  IN F[Len(nbrs)]

Pixel(ipx, nbrs) ==
  IF \E k \in 1..Len(nbrs) : nbrs[k] \notin Px
  THEN /\ oob' = TRUE /\ UNCHANGED <<labels, S>>
  ELSE /\ oob' = oob
       /\ LET lab0 == [labels EXCEPT ![ipx] = 0]
          IN IF img[ipx] = 0
             THEN labels' = lab0 /\ S' = S
             ELSE LET st == FoldMatch(lab0, [x |-> 0, S |-> S], nbrs)
                  IN IF st.x = 0
                     THEN LET nw == DsNew(st.S)
                          IN labels' = [lab0 EXCEPT ![ipx] = nw[2]] /\ S' = nw[1]
                     ELSE labels' = [lab0 EXCEPT ![ipx] = st.x] /\ S' = st.S

\* if (verbose) { printf("Welcome to connectedpixels "); if (eightconnected) printf(..8) else printf(..4) }
Banner == /\ pc = "banner" /\ pc' = "scan"
          /\ UNCHANGED <<img, opts, labels, S, pos, T, np, oob, todo>>
E8 == eight # 0

Advance == /\ pos' = pos + 1 /\ UNCHANGED <<img, opts, pc, T, np, todo>>
Scanning == pc = "scan" /\ pos < N /\ ~oob

\* if (data[0] > threshold) dset_new else labels[0] = 0
FirstPixel == /\ Scanning /\ pos = 0
              /\ Pixel(0, <<>>) /\ Advance
\* for (j = 1; j < nf; j++) : west neighbour only
FirstRow == /\ Scanning /\ pos >= 1 /\ pos < NF
            /\ Pixel(pos, <<pos - 1>>) /\ Advance
\* first point of a row: N, then NE when eightconnected
RowStart == /\ Scanning /\ pos >= NF /\ ColOf(pos) = 0
            /\ LET ir == pos  irp == pos - NF
               IN Pixel(ir, IF E8 THEN <<irp, irp + 1>> ELSE <<irp>>)
            /\ Advance
\* for (j = 1; j < nf - 1; j++) : NW, N, NE, W
Mid == /\ Scanning /\ pos >= NF /\ ColOf(pos) >= 1 /\ ColOf(pos) < NF - 1
       /\ LET ipx == pos  irp == pos - NF
          IN Pixel(ipx, IF E8 THEN <<irp - 1, irp, irp + 1, ipx - 1>> ELSE <<irp, ipx - 1>>)
       /\ Advance
\* last pixel on the row: NW, N, W
RowEnd == /\ Scanning /\ pos >= NF /\ ColOf(pos) = NF - 1 /\ NF > 1
          /\ LET ipx == pos  irp == pos - NF
             IN Pixel(ipx, IF E8 THEN <<irp - 1, irp, ipx - 1>> ELSE <<irp, ipx - 1>>)
          /\ Advance

Compress == /\ pc = "scan" /\ pos = N /\ ~oob
            /\ LET c == DsCompress(S) IN T' = c[1] /\ np' = c[2] /\ S' = c[3]
            /\ pc' = "relabel" /\ todo' = (IF ROWPAR THEN 0..(NS - 1) ELSE {})
            /\ UNCHANGED <<img, opts, labels, pos, oob>>

Relabel == /\ pc = "relabel" /\ ~ROWPAR
           /\ labels' = [p \in Px |-> IF labels[p] > 0 THEN T[labels[p]] ELSE labels[p]]
           /\ pc' = "done" /\ UNCHANGED <<img, opts, S, pos, T, np, oob, todo>>
\* one row of the parallel relabel loop (any row still to do)
RelabelRow(r) == /\ pc = "relabel" /\ ROWPAR /\ r \in todo
                 /\ labels' = [p \in Px |-> IF Row(p) = r /\ labels[p] > 0 THEN T[labels[p]] ELSE labels[p]]
                 /\ todo' = todo \ {r}
                 /\ pc' = (IF todo \ {r} = {} THEN "done" ELSE "relabel")
                 /\ UNCHANGED <<img, opts, S, pos, T, np, oob>>

Next == Banner \/ FirstPixel \/ FirstRow \/ RowStart \/ Mid \/ RowEnd \/ Compress \/ Relabel
        \/ \E r \in 0..(NS - 1) : RelabelRow(r)
Spec == Init /\ [][Next]_vars

\* ---- the property, stated independently of the algorithm ----------------------------------
Adj(p, q) == /\ p # q /\ img[p] = 1 /\ img[q] = 1
             /\ LET dr == Row(p) - Row(q)  dc == ColOf(p) - ColOf(q)
                IN /\ dr \in {-1, 0, 1} /\ dc \in {-1, 0, 1}
                   /\ (con8 \/ dr = 0 \/ dc = 0)
RECURSIVE Reach(_)
Reach(set) == LET nxt == set \cup {q \in Px : \E p \in set : Adj(p, q)}
              IN IF nxt = set THEN set ELSE Reach(nxt)
Comp(p) == Reach({p})
MinOf(set) == CHOOSE m \in set : \A x \in set : m <= x
Above == {p \in Px : img[p] = 1}
Firsts == {MinOf(Comp(p)) : p \in Above}
\* components numbered in raster order of their first pixel
CanonLabel(p) == IF img[p] = 0 THEN 0 ELSE Cardinality({f \in Firsts : f <= MinOf(Comp(p))})

InBounds == ~oob
DsInv == DsOK(S)
\* the flag the body tests is what the caller asked for (no statement rewrites the parameter)
FlagKept == (eight # 0) <=> con8
Done == pc = "done"
Defined == Done => \A p \in Px : labels[p] # POISON
Background == Done => \A p \in Px : (labels[p] = 0) <=> (img[p] = 0)
Partition == Done => LET C == [p \in Above |-> Comp(p)]
                     IN \A p \in Above : {q \in Above : labels[q] = labels[p]} = C[p]
Numbering == Done => LET C == [p \in Above |-> MinOf(Comp(p))]
                         F == {C[p] : p \in Above}
                     IN /\ np = Cardinality(F)
                        /\ {labels[p] : p \in Above} = 1..np
                        /\ \A p \in Px : labels[p] = IF img[p] = 0 THEN 0
                                                      ELSE Cardinality({f \in F : f <= C[p]})

Emit == (Done /\ EmitOn) =>
          PrintT("@@" \o ToJson([ns |-> NS, nf |-> NF, con8 |-> IF con8 THEN 1 ELSE 0, verbose |-> verbose,
                                 img |-> [p \in 1..N |-> img[p - 1]],
                                 labels |-> [p \in 1..N |-> labels[p - 1]], np |-> np,
                                 slen |-> S[0]]))
=============================================================================

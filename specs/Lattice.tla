------------------------------- MODULE Lattice -------------------------------
(***************************************************************************)
(* UBI / UB / U / B / metric tensors / cell / Rodrigues vector (C04).      *)
(*                                                                         *)
(* Code modelled:                                                          *)
(*   ImageD11/grain.py:50-146        grain.__init__, set_ubi, clear_cache, *)
(*                                   properties UB ub B U u Rod mt rmt     *)
(*                                   unitcell (lazy caches, copies out)    *)
(*   ImageD11/unitcell.py:225-263    metric tensor, reciprocal cell,       *)
(*                                   Busing & Levy B (eq. 3)               *)
(*   ImageD11/indexing.py:117-169    ubitocellpars, ubitoU, ubitoRod,      *)
(*                                   ubitoB                                *)
(*   ImageD11/sinograms/tensor_map.py:23-187   fast_invert, ubi_to_mt,     *)
(*                   mt_to_unitcell, unitcell_to_b, ubi_and_b_to_u (each:  *)
(*                   `if isnan(x[0,0]): res = nan else: res = f(x)`) and   *)
(*                   TensorMap.UB/mt/unitcell/B/U :637-731                 *)
(*   ImageD11/sinograms/point_by_point.py:442-490  ubi_to_unitcell,        *)
(*                   ubi_and_ucell_to_u                                    *)
(*   xfab.tools.u_to_rod (sign convention of the Rodrigues vector)         *)
(*                                                                         *)
(* Three parts, selected by the constant PART (one TLC run each).          *)
(*                                                                         *)
(* PART = "alg"   (mode A, case oracle).  A lattice is                     *)
(*     - an exact upper-triangular B = Bn/bd with positive diagonal        *)
(*       (PickCell: by uniqueness of the Cholesky factor this IS the       *)
(*       Busing-Levy B of the cell whose reciprocal metric tensor is       *)
(*       B^T B), direct basis A = B^-1 ;  or                               *)
(*     - any rational direct basis A = An/ad with det > 0 (PickGen: rows   *)
(*       are a, b, c in the crystal Cartesian frame; reaches hexagonal,    *)
(*       rhombohedral, primitive fcc/bcc, which have no rational B).       *)
(*   PickRot multiplies by an exact rotation U = Rz(a1) Ry(a2) Rx(a3),     *)
(*   angles from ExactLA!Ang, at most two of them Pythagorean.             *)
(*       ubi = A U^T      UB = U A^-1      mt = A A^T     rmt = A^-T A^-1  *)
(*       Rod = (U23-U32, U31-U13, U12-U21) / (1 + tr U)    (xfab sign)     *)
(*   Every rational matrix is <<numerators, den>> reduced by the common    *)
(*   gcd.  Cell lengths / angles are sqrt / acos of exact mt entries: the  *)
(*   harness finishes them.  For PickGen lattices U and B are irrational;  *)
(*   the harness judges them by the characterisation (B upper triangular,  *)
(*   positive diagonal, B^T B = rmt exactly known; U = UB B^-1).           *)
(*   Invariants (checked in every state with pc = "done"):                 *)
(*     UOrtho  U U^T = I          UDet  det U = +1                         *)
(*     BUpperPos  B upper triangular, positive diagonal                    *)
(*     BtB  B^T B = rmt           B33  B[3][3] = 1/c                       *)
(*     MtSym, MtRmt  mt rmt = I   RightHanded  det ubi > 0                 *)
(*     MtFromUbi  ubi ubi^T = mt  UBxUBI  UB ubi = I   (when the products  *)
(*       fit 32 bits - else the harness forms them with python integers)   *)
(*     Cayley  (I - [r]x) U^T = (I + [r]x)  : r is the Rodrigues vector    *)
(*       of U^T (the xfab / GrainSpotter sign), whenever 1 + tr U # 0      *)
(*     EmitAlg  prints the case                                            *)
(*   Configurations: Lattice_alg_q (6 + 3 lattices x 117 rotations),       *)
(*   Lattice_alg_t (12 + 7 lattices x 784 rotations = 15680 cases).        *)
(*                                                                         *)
(* PART = "cache" (mode B, behaviour replay).  The lazy caches of `grain`. *)
(*   ver    number of set_ubi calls so far (the constructor is the first)  *)
(*   cur    which of the two matrices is current                           *)
(*   cache  field -> [has, prov] : prov = set of versions of self.ubi that *)
(*          went into the cached value; 0 in prov = the user scribbled on  *)
(*          an array that IS the cache                                     *)
(*   ret    provenance of the value handed out by the last Read            *)
(*   hist   operations so far                                              *)
(*   SetUbi(m)  set_ubi: ver+1, clear_cache (FORGET = fields it forgets)   *)
(*   Read(f)    property getter: real dependency chain                     *)
(*              rmt <- mt, unitcell <- mt, B <- unitcell, U <- B (+ ubi),  *)
(*              Rod <- U, UB and mt from ubi; ub / u are aliases; then the *)
(*              caller overwrites the returned array (NOCOPY = fields that *)
(*              hand out the cache itself)                                 *)
(*   The pinned code is FORGET = {}, NOCOPY = {}.                          *)
(*   Invariants: Coherent (cache[f] filled => made from the current ubi    *)
(*   only), ReadFresh (what Read returned was made from the current ubi),  *)
(*   DepClosed (a filled cache has its dependency filled).                 *)
(*   Bound: MaxDepth operations.                                           *)
(*                                                                         *)
(*   Configurations: Lattice_cache_q / _t (every behaviour of depth 4 / 5,  *)
(*   emitted), _d6 (depth 6, invariants only, 1.9e6 states), _tr (VIEW     *)
(*   View: every transition of the reduced graph, emitted with its         *)
(*   representative path), _forget / _nocopy (defect configurations: TLC   *)
(*   must find Coherent violated; the counterexample is replayed on the    *)
(*   real grain, which must not show it).                                  *)
(*                                                                         *)
(* PART = "map"  NaN-masked voxel maps: MapVoxel picks the mask of the     *)
(*   UBI map and an independent mask of a B map over a 2x3 map; every      *)
(*   vectorised kernel is pointwise with a NaN guard, so the output is NaN *)
(*   exactly on the mask (union of masks for the two-input kernel) and     *)
(*   the other voxels equal the unmasked run (NaNExact, Neighbours).       *)
(***************************************************************************)
EXTENDS ExactLA, Json

CONSTANTS PART,       \* "alg" | "cache" | "map"
          CELLS,      \* set of <<Bn, bd>> : upper triangular integer Bn, B = Bn / bd
          GENS,       \* set of <<An, ad>> : direct basis rows, det > 0
          ROTS,       \* set of <<a1, a2, a3>> (angles)  U = Rz(a1) Ry(a2) Rx(a3)
          MaxDepth,   \* cache part: number of operations
          FORGET,     \* cache part: fields clear_cache does not reset   (pinned code: {})
          NOCOPY,     \* cache part: fields whose getter returns the cache itself (pinned code: {})
          EmitMode    \* cache part: 0 none, 1 every transition (ACTION_CONSTRAINT), 2 final states
VARIABLES pc, lat, rot, ver, cur, cache, ret, hist, mku, mkb
vars == <<pc, lat, rot, ver, cur, cache, ret, hist, mku, mkb>>

\* ---- constant sets (cfg files cannot hold tuples: `CELLS <- CELLS_q`) --------------------------------
UT(a, b, c, d, e, f) == << <<a, b, c>>, <<0, d, e>>, <<0, 0, f>> >>
CELLS_q == { << UT(4,0,0, 4,0, 4), 16 >>,          \* cubic a = 4
             << UT(6,0,0, 4,0, 3), 24 >>,          \* orthorhombic 4, 6, 8
             << UT(5,0,-1, 4,0, 3), 20 >>,         \* monoclinic, beta # 90
             << UT(5,0,0, 4,1, 3), 20 >>,          \* alpha # 90  (exercises -c* sin(beta*) cos(alpha))
             << UT(6,1,-1, 5,2, 4), 24 >>,         \* triclinic
             << UT(4,-2,1, 5,-1, 3), 16 >> }       \* triclinic, other signs
CELLS_t == CELLS_q \cup
           { << UT(4,0,0, 4,0, 3), 16 >>,          \* tetragonal
             << UT(5,2,0, 4,0, 3), 20 >>,          \* gamma # 90
             << UT(5,-2,0, 4,0, 3), 20 >>,         \* gamma on the other side of 90
             << UT(3,1,1, 3,1, 3), 12 >>,          \* triclinic, all acute/obtuse the same way
             << UT(7,-3,2, 4,-3, 5), 32 >>,        \* triclinic, strongly oblique
             << UT(16,0,0, 16,0, 17), 64 >>,       \* cubic strained 6 % along c*
             << UT(16,1,0, 16,-1, 17), 64 >> }     \* cubic with shear + normal strain
GB(r1, r2, r3, d) == << <<r1, r2, r3>>, d >>
GENS_q == { GB(<<1,-1,0>>, <<0,1,-1>>, <<1,1,1>>, 1),      \* hexagonal: gamma = 120 exactly
            GB(<<0,1,1>>, <<1,0,1>>, <<1,1,0>>, 1),        \* primitive fcc (60 degree rhombohedron)
            GB(<<10,1,0>>, <<0,10,1>>, <<-1,0,10>>, 3) }   \* generic sheared, nothing triangular
GENS_t == GENS_q \cup
          { GB(<<2,1,1>>, <<1,2,1>>, <<1,1,2>>, 1),        \* rhombohedral
            GB(<<-1,1,1>>, <<1,-1,1>>, <<1,1,-1>>, 1),     \* primitive bcc (109.47 degrees)
            GB(<<3,-3,0>>, <<0,3,-3>>, <<5,5,5>>, 2),      \* hexagonal c/a # 1
            GB(<<0,0,5>>, <<4,0,0>>, <<0,3,0>>, 1) }       \* orthorhombic, axes permuted (not triangular)
A0 == <<1,0,1>>
ANGS_q == { <<1,0,1>>, <<0,1,1>>, <<-1,0,1>>, <<4,3,5>>, <<5,-12,13>> }
PythCount(r) == Cardinality({i \in 1..3 : r[i] \in PythAngles})
ROTS_q == { r \in ANGS_q \X ANGS_q \X ANGS_q : PythCount(r) <= 2 }
ROTS_t == { r \in Ang \X Ang \X Ang : PythCount(r) <= 2 }
ROTS_id == { <<A0, A0, A0>> }
NONE == {}

\* ---- rational matrices <<N, d>> ---------------------------------------------------------------------
MaxAbs(M) == LET S == {Abs(M[i][j]) : i \in Idx, j \in Idx} IN CHOOSE x \in S : \A y \in S : y <= x
G2(a, b) == GCD(Abs(a), Abs(b))                     \* ExactLA!GCD wants a non-negative second argument
GcdM(M) == G2(G2(G2(M[1][1], M[1][2]), G2(M[1][3], M[2][1])),
              G2(G2(G2(M[2][2], M[2][3]), G2(M[3][1], M[3][2])), M[3][3]))
DivM(M, g) == [i \in Idx |-> [j \in Idx |-> M[i][j] \div g]]
Reduce(N, d) == LET g == GCD(GcdM(N), d) IN << M2T(DivM(N, g)), d \div g >>
RInv(S) == Reduce(MScale(S[2], Adj(S[1])), Det(S[1]))          \* needs Det(S[1]) > 0
RMul(S, T) == Reduce(MM(S[1], T[1]), S[2] * T[2])
RT(S) == << M2T(Transpose(S[1])), S[2] >>

RotN(r) == M2T(MM(MM(Rz(r[1]), Ry(r[2])), Rx(r[3])))
RotD(r) == r[1][3] * r[2][3] * r[3][3]
RotS(r) == << RotN(r), RotD(r) >>

\* ---- the lattice record ------------------------------------------------------------------------------
NoLat == [tri |-> FALSE, B |-> <<Z3, 1>>, A |-> <<Z3, 1>>, IA |-> <<Z3, 1>>]
LatOfCell(c) == [tri |-> TRUE, B |-> c, A |-> RInv(c), IA |-> Reduce(c[1], c[2])]
LatOfGen(a) == [tri |-> FALSE, B |-> <<Z3, 1>>, A |-> Reduce(a[1], a[2]), IA |-> RInv(a)]

Ubi == << M2T(MM(lat.A[1], Transpose(RotN(rot)))), lat.A[2] * RotD(rot) >>     \* A U^T   (not reduced)
UB  == << M2T(MM(RotN(rot), lat.IA[1])), RotD(rot) * lat.IA[2] >>            \* U A^-1  (not reduced)
Mt  == RMul(lat.A, RT(lat.A))                   \* A A^T   (no rotation in it)
Rmt == RMul(RT(lat.IA), lat.IA)                 \* A^-T A^-1
RodN == LET U == RotN(rot) IN << U[2][3] - U[3][2], U[3][1] - U[1][3], U[1][2] - U[2][1] >>
RodD == RotD(rot) + Trace(RotN(rot))            \* 0 : rotation by 180 degrees, Rodrigues vector undefined
CrossM(v) == << <<0, -v[3], v[2]>>, <<v[3], 0, -v[1]>>, <<-v[2], v[1], 0>> >>

\* do the 32 bit products of the two "whole chain" laws fit ?
FitsMt  == MaxAbs(lat.A[1]) * RotD(rot) <= 26000
FitsInv == MaxAbs(lat.A[1]) * MaxAbs(lat.IA[1]) <= 200000000 \div (RotD(rot) * RotD(rot))

\* ---- cache part ----------------------------------------------------------------------------------------
Fields == {"UB", "mt", "rmt", "unitcell", "B", "U", "Rod"}
FieldSeq == <<"UB", "mt", "rmt", "unitcell", "B", "U", "Rod">>
ReadNames == Fields \cup {"ub", "u"}
Target(n) == IF n = "ub" THEN "UB" ELSE IF n = "u" THEN "U" ELSE n
Dep(f) == CASE f = "rmt" -> "mt" [] f = "unitcell" -> "mt" [] f = "B" -> "unitcell"
            [] f = "U" -> "B" [] f = "Rod" -> "U" [] OTHER -> "none"
UsesUbi(f) == f \in {"UB", "mt", "U"}
Empty == [has |-> FALSE, prov |-> {}]
EmptyCache == [f \in Fields |-> Empty]
UbiIds == {1, 2}

\* the getter of f:  if self._f is None: self._f = compute(deps through their getters) ; return copy
RECURSIVE Fill(_, _)
Fill(c, f) == IF c[f].has THEN c
              ELSE LET c1 == IF Dep(f) = "none" THEN c ELSE Fill(c, Dep(f))
                       p  == (IF UsesUbi(f) THEN {ver} ELSE {}) \cup
                             (IF Dep(f) = "none" THEN {} ELSE c1[Dep(f)].prov)
                   IN [c1 EXCEPT ![f] = [has |-> TRUE, prov |-> p]]

Occupancy(c) == [i \in 1..Len(FieldSeq) |-> IF c[FieldSeq[i]].has THEN 1 ELSE 0]

\* ---- map part ------------------------------------------------------------------------------------------
Vox == 1..6                                                 \* 2 x 3 map, row major
Kernels == {"inv", "mt", "cell", "b", "u"}                  \* fast_invert ubi_to_mt mt_to_unitcell unitcell_to_b
                                                            \* (on the chain ubi -> mt -> cell -> b) ; u = ubi_and_b_to_u(ubi, b2)
\* output of kernel k at voxel v when the UBI map is NaN on mu and the separate B map on mb
NaN == <<"nan", 0>>
Out(k, mu, mb) == [v \in Vox |-> IF v \in mu \/ (k = "u" /\ v \in mb) THEN NaN ELSE <<k, v>>]
Bits(S) == [v \in Vox |-> IF v \in S THEN 1 ELSE 0]

\* ---- behaviour -----------------------------------------------------------------------------------------
Init == /\ pc = (CASE PART = "alg" -> "cell" [] PART = "cache" -> "cache" [] PART = "map" -> "map0")
        /\ lat = NoLat /\ rot = <<A0, A0, A0>>
        /\ ver = 1 /\ cur = 1 /\ cache = EmptyCache /\ ret = {} /\ hist = <<>>
        /\ mku = {} /\ mkb = {}

PickCell == /\ pc = "cell" /\ \E c \in CELLS : lat' = LatOfCell(c)
            /\ pc' = "rot" /\ UNCHANGED <<rot, ver, cur, cache, ret, hist, mku, mkb>>
PickGen  == /\ pc = "cell" /\ \E a \in GENS : lat' = LatOfGen(a)
            /\ pc' = "rot" /\ UNCHANGED <<rot, ver, cur, cache, ret, hist, mku, mkb>>
PickRot  == /\ pc = "rot" /\ \E r \in ROTS : rot' = r
            /\ pc' = "done" /\ UNCHANGED <<lat, ver, cur, cache, ret, hist, mku, mkb>>

SetUbi(m) == /\ pc = "cache" /\ Len(hist) < MaxDepth
             /\ ver' = ver + 1 /\ cur' = m
             /\ cache' = [f \in Fields |-> IF f \in FORGET THEN cache[f] ELSE Empty]
             /\ ret' = {}
             /\ hist' = Append(hist, <<"set", m>>)
             /\ UNCHANGED <<pc, lat, rot, mku, mkb>>
Read(n) == /\ pc = "cache" /\ Len(hist) < MaxDepth
           /\ LET f == Target(n)
                  c2 == Fill(cache, f)
              IN /\ ret' = c2[f].prov
                 /\ cache' = IF f \in NOCOPY THEN [c2 EXCEPT ![f].prov = @ \cup {0}] ELSE c2
           /\ hist' = Append(hist, <<"read", n>>)
           /\ UNCHANGED <<pc, lat, rot, ver, cur, mku, mkb>>

MapVoxel == /\ pc = "map0" /\ \E mu \in SUBSET Vox, mb \in SUBSET Vox : mku' = mu /\ mkb' = mb
            /\ pc' = "map" /\ UNCHANGED <<lat, rot, ver, cur, cache, ret, hist>>

Next == PickCell \/ PickGen \/ PickRot
        \/ SetUbi(2) \/ SetUbi(1) \/ (\E n \in ReadNames : Read(n))
        \/ MapVoxel
Spec == Init /\ [][Next]_vars

\* ---- laws: algebra -------------------------------------------------------------------------------------
Done == pc = "done"
UOrtho == Done => IsOrthoScaled(RotN(rot), RotD(rot))
UDet == Done => Det(RotN(rot)) = RotD(rot) * RotD(rot) * RotD(rot)
BUpperPos == (Done /\ lat.tri) => /\ IsUpper(lat.B[1]) /\ lat.B[2] > 0
                                  /\ \A i \in Idx : lat.B[1][i][i] > 0
\* B^T B = rmt (cross-multiplied: Rmt is reduced)
BtB == (Done /\ lat.tri) =>
          M2T(MScale(Rmt[2], MM(Transpose(lat.B[1]), lat.B[1]))) = M2T(MScale(lat.B[2] * lat.B[2], Rmt[1]))
\* B[3][3] = 1 / c  <=>  B33^2 mt33 = 1
B33 == (Done /\ lat.tri) => lat.B[1][3][3] * lat.B[1][3][3] * Mt[1][3][3] = lat.B[2] * lat.B[2] * Mt[2]
MtSym == Done => IsSym(Mt[1]) /\ IsSym(Rmt[1]) /\ \A i \in Idx : Mt[1][i][i] > 0
MtRmt == Done => M2T(MM(Mt[1], Rmt[1])) = M2T(MScale(Mt[2] * Rmt[2], I3))
\* det(A U^T) = det A > 0
RightHanded == Done => Det(lat.A[1]) > 0 /\ lat.A[2] > 0 /\ Ubi[2] > 0
\* ubi ubi^T = mt with the rotation left in:  (A U^T)(A U^T)^T = un^2 A A^T
MtFromUbi == (Done /\ FitsMt) =>
     LET W == Ubi[1]
     IN M2T(MM(W, Transpose(W))) = M2T(MScale(RotD(rot) * RotD(rot), MM(lat.A[1], Transpose(lat.A[1]))))
\* UB . UBI = I :  (U A^-1)(A U^T) = I
UBxUBI == (Done /\ FitsInv) =>
     M2T(MM(UB[1], Ubi[1])) =
     M2T(MScale(RotD(rot) * RotD(rot) * lat.IA[2] * lat.A[2], I3))
\* Cayley: r = RodN / RodD is the Rodrigues vector of U^T:  (I - [r]x) U^T = I + [r]x
Cayley == (Done /\ RodD # 0) =>
     M2T(MM(MSub(MScale(RodD, I3), CrossM(RodN)), Transpose(RotN(rot)))) =
     M2T(MScale(RotD(rot), MAdd(MScale(RodD, I3), CrossM(RodN))))
\* and its length is tan(theta/2):  |r|^2 = (3 - tr U) / (1 + tr U)
RodLen == (Done /\ RodD # 0) => Norm2(RodN) = (3 * RotD(rot) - Trace(RotN(rot))) * RodD

EmitAlg == Done =>
   PrintT("@@" \o ToJson([tri |-> IF lat.tri THEN 1 ELSE 0,
          Bn |-> lat.B[1], Bd |-> lat.B[2], An |-> lat.A[1], Ad |-> lat.A[2],
          rot |-> rot, Un |-> RotN(rot), Ud |-> RotD(rot),
          ubin |-> Ubi[1], ubid |-> Ubi[2], UBn |-> UB[1], UBd |-> UB[2],
          mtn |-> Mt[1], mtd |-> Mt[2], rmtn |-> Rmt[1], rmtd |-> Rmt[2],
          rodn |-> RodN, rodd |-> RodD,
          fits |-> <<IF FitsMt THEN 1 ELSE 0, IF FitsInv THEN 1 ELSE 0>>]))

\* ---- laws: cache ---------------------------------------------------------------------------------------
Coherent == \A f \in Fields : cache[f].has => cache[f].prov = {ver}
ReadFresh == ret = {} \/ ret = {ver}
DepClosed == \A f \in Fields : (cache[f].has /\ Dep(f) # "none") => cache[Dep(f)].has
CacheType == /\ ver = 1 + Cardinality({i \in 1..Len(hist) : hist[i][1] = "set"})
             /\ cur \in UbiIds
Step(h) == [ops |-> h, cur |-> cur', ver |-> ver', occ |-> Occupancy(cache'),
            fresh |-> IF ret' = {} \/ ret' = {ver'} THEN 1 ELSE 0]
EmitTransition == EmitMode # 1 \/ PrintT("@@" \o ToJson(Step(hist')))
EmitFinal == EmitMode # 2 \/ Len(hist) < MaxDepth \/
             PrintT("@@" \o ToJson([ops |-> hist, cur |-> cur, ver |-> ver, occ |-> Occupancy(cache),
                                    fresh |-> IF ret = {} \/ ret = {ver} THEN 1 ELSE 0]))
\* VIEW for the transition run: history and absolute version numbers are not part of the state identity
View == <<pc, cur, [f \in Fields |-> <<cache[f].has, cache[f].prov = {ver}, 0 \in cache[f].prov>>],
          ret = {} \/ ret = {ver}>>

\* ---- laws: maps ----------------------------------------------------------------------------------------
Mapped == pc = "map"
NaNExact == Mapped => \A k \in Kernels : \A v \in Vox :
               (Out(k, mku, mkb)[v] = NaN) <=> (v \in mku \/ (k = "u" /\ v \in mkb))
Neighbours == Mapped => \A k \in Kernels : \A v \in Vox :
               Out(k, mku, mkb)[v] # NaN => Out(k, mku, mkb)[v] = Out(k, {}, {})[v]
EmitMap == Mapped =>
   PrintT("@@" \o ToJson([mu |-> Bits(mku), mb |-> Bits(mkb),
          nan1 |-> Bits({v \in Vox : Out("mt", mku, mkb)[v] = NaN}),
          nan2 |-> Bits({v \in Vox : Out("u", mku, mkb)[v] = NaN})]))

\* ---- sizes: everything formed above stays below 2^31 ------------------------------------------------------
ASSUME \A c \in CELLS_t : IsUpper(c[1]) /\ Det(c[1]) > 0 /\ MaxAbs(c[1]) <= 40 /\ c[2] <= 128
ASSUME \A a \in GENS_t : Det(a[1]) > 0 /\ MaxAbs(a[1]) <= 50 /\ a[2] <= 10
ASSUME \A r \in ROTS_t : RotD(r) <= 625
=============================================================================

------------------------------- MODULE Lattice -------------------------------
(***************************************************************************)
(* UBI / UB / U / B / metric tensors / cell / Rodrigues vector (C04).      *)
(*                                                                         *)
(* Code modelled:                                                          *)
(*   ImageD11/grain.py:50-146        grain.__init__, set_ubi, clear_cache, *)
(*                                   properties UB ub B U u Rod mt rmt     *)
(*                                   unitcell (lazy caches, copies out)    *)
(*   ImageD11/unitcell.py:225-263    metric tensor, reciprocal cell,       *)
(*                                   Busing & Levy B (eq. 3)               *)
(*   ImageD11/indexing.py:117-169    ubitocellpars, ubitoU, ubitoRod,      *)
(*                                   ubitoB                                *)
(*   ImageD11/sinograms/tensor_map.py:23-187   fast_invert, ubi_to_mt,     *)
(*                   mt_to_unitcell, unitcell_to_b, ubi_and_b_to_u (each:  *)
(*                   `if isnan(x[0,0]): res = nan else: res = f(x)`) and   *)
(*                   TensorMap.UB/mt/unitcell/B/U :637-731                 *)
(*   ImageD11/sinograms/point_by_point.py:442-490  ubi_to_unitcell,        *)
(*                   ubi_and_ucell_to_u                                    *)
(*   xfab.tools.u_to_rod (sign convention of the Rodrigues vector)         *)
(*                                                                         *)
(* Five parts, selected by the constants PART / OBJ (one TLC run each).    *)
(*                                                                         *)
(* PART = "alg"   (mode A, case oracle).  A lattice is                     *)
(*     - an exact upper-triangular B = Bn/bd with positive diagonal        *)
(*       (PickCell: by uniqueness of the Cholesky factor this IS the       *)
(*       Busing-Levy B of the cell whose reciprocal metric tensor is       *)
(*       B^T B), direct basis A = B^-1 ;  or                               *)
(*     - any rational direct basis A = An/ad with det > 0 (PickGen: rows   *)
(*       are a, b, c in the crystal Cartesian frame; reaches hexagonal,    *)
(*       rhombohedral, primitive fcc/bcc, which have no rational B).       *)
(*   PickRot multiplies by an exact rotation U = Rz(a1) Ry(a2) Rx(a3),     *)
(*   angles from ExactLA!Ang, at most two of them Pythagorean.             *)
(*       ubi = A U^T      UB = U A^-1      mt = A A^T     rmt = A^-T A^-1  *)
(*       Rod = (U23-U32, U31-U13, U12-U21) / (1 + tr U)    (xfab sign)     *)
(*   Every rational matrix is <<numerators, den>> reduced by the common    *)
(*   gcd.  Cell lengths / angles are sqrt / acos of exact mt entries: the  *)
(*   harness finishes them.  For PickGen lattices U and B are irrational;  *)
(*   the harness judges them by the characterisation (B upper triangular,  *)
(*   positive diagonal, B^T B = rmt exactly known; U = UB B^-1).           *)
(*   Invariants (checked in every state with pc = "done"):                 *)
(*     UOrtho  U U^T = I          UDet  det U = +1                         *)
(*     BUpperPos  B upper triangular, positive diagonal                    *)
(*     BtB  B^T B = rmt           B33  B[3][3] = 1/c                       *)
(*     MtSym, MtRmt  mt rmt = I   RightHanded  det ubi > 0                 *)
(*     MtFromUbi  ubi ubi^T = mt  UBxUBI  UB ubi = I   (when the products  *)
(*       fit 32 bits - else the harness forms them with python integers)   *)
(*     Cayley  (I - [r]x) U^T = (I + [r]x)  : r is the Rodrigues vector    *)
(*       of U^T (the xfab / GrainSpotter sign), whenever 1 + tr U # 0      *)
(*     EmitAlg  prints the case                                            *)
(*   Configurations: Lattice_alg_q (8 + 3 lattices x 117 rotations; the    *)
(*   tetragonal (a = b) and the sheared + strained cubic cell are in the   *)
(*   quick set), Lattice_alg_t (13 + 7 lattices x 784 rotations).          *)
(*   SCALE: the algebra is covariant under ubi -> s ubi (mt s^2, rmt s^-2, *)
(*   UB and B s^-1, lengths s; U, Rod, angles unchanged).  The harness     *)
(*   replays every emitted case also at s = 1/4 and s = 100 (cells of      *)
(*   about 1 A and 1000 A), scaling the emitted fractions in python        *)
(*   integers (re-checked there: ubi ubi^T = mt, UB ubi = I, B ubi = U^T)  *)
(*   and judging with purely relative tolerances; the numerators would not *)
(*   fit TLC's 32 bits.                                                    *)
(*                                                                         *)
(* PART = "cache" (mode B, behaviour replay).  The lazy caches of `grain`. *)
(*   ver    number of set_ubi calls so far (the constructor is the first)  *)
(*   cur    which of the two matrices is current                           *)
(*   cache  field -> [has, prov] : prov = set of versions of self.ubi that *)
(*          went into the cached value; 0 in prov = the user scribbled on  *)
(*          an array that IS the cache                                     *)
(*   ret    provenance of the value handed out by the last Read            *)
(*   hist   operations so far                                              *)
(*   ubip   provenance of self.ubi ({ver}; {0} = the caller edited an      *)
(*          array that IS self.ubi)                                        *)
(*   argl   the caller still holds, unedited, the array it handed to the   *)
(*          constructor / the last set_ubi                                 *)
(*   SetUbi(m, how, obj)  set_ubi: ver+1, clear_cache (FORGET = fields it  *)
(*              forgets), self.ubi = np.array(ubi, float) is a copy        *)
(*              (ALIASARG = TRUE: it is the caller's array).               *)
(*              obj = which array object carries the new values:           *)
(*                new  an array the grain has never seen                   *)
(*                arg  the very array handed to the constructor / the last *)
(*                     set_ubi, edited in place by the caller              *)
(*                own  the array the grain itself holds: a = g.ubi, edited *)
(*                     in place, g.set_ubi(a)                              *)
(*              Identity is not content: the same object with new values   *)
(*              IS a new matrix (SAMEKEEP = TRUE: set_ubi of the object    *)
(*              already stored keeps the caches).                          *)
(*   EditArg    the caller overwrites the array it handed in (with the     *)
(*              other matrix); every later read must still describe the    *)
(*              matrix as it was at the call                               *)
(*   Read(f)    property getter: real dependency chain                     *)
(*              rmt <- mt, unitcell <- mt, B <- unitcell, U <- B (+ ubi),  *)
(*              Rod <- U, UB and mt from ubi; ub / u are aliases; then the *)
(*              caller overwrites the returned array (NOCOPY = fields that *)
(*              hand out the cache itself)                                 *)
(*   The pinned code is FORGET = {}, NOCOPY = {}, ALIASARG = FALSE,        *)
(*   SAMEKEEP = FALSE.                                                     *)
(*   Invariants: Coherent (cache[f] filled => made from the current ubi    *)
(*   only), ReadFresh (what Read returned was made from the current ubi),  *)
(*   DepClosed (a filled cache has its dependency filled), UbiOwn (self.ubi*)
(*   is the matrix of the last set_ubi).                                   *)
(*   Bound: MaxDepth operations.                                           *)
(*   The model is covariant in the choice of the two matrices; the harness *)
(*   instantiates the pair in several classes (everything differs / same   *)
(*   lattice rotated: only UB, U, Rod differ / same U other cell / one     *)
(*   entry + 1e-7 / strains 5e-6, 1e-7, 3e-8 hydrostatic and shear): a     *)
(*   stale value is observable in exactly the fields that differ.          *)
(*                                                                         *)
(*   Configurations: Lattice_cache_q / _t (every behaviour of depth 4 / 5,  *)
(*   emitted), _d6 (depth 6, invariants only), _tr (VIEW                   *)
(*   View: every transition of the reduced graph, emitted with its         *)
(*   representative path), _forget / _nocopy / _alias (defect              *)
(*   configurations: TLC must find Coherent / UbiOwn violated; the         *)
(*   counterexample is replayed on the real grain, which must not show it),*)
(*   _same (defect configuration SAMEKEEP).                                *)
(*                                                                         *)
(* PART = "cache", OBJ = "tmap" (mode B).  The derived maps of TensorMap   *)
(*   (tensor_map.py:533-731: __init__, from_ubis, UBI setter, __setitem__, *)
(*   add_map, clear_cache, properties UB mt unitcell B U).  Same state     *)
(*   machine with Fields = {UB, mt, unitcell, B, U} (no rmt, no Rod, no    *)
(*   aliases), chain unitcell <- mt, B <- unitcell, U <- B (+ UBI).        *)
(*   New(how)   construction: TensorMap(maps = {UBI: m1}) or               *)
(*              TensorMap.from_ubis(m1 in reconstruction order: the map is *)
(*              then a flipped / axis-swapped, non-contiguous view)        *)
(*   SetUbi(m, how, obj)  how = setter (T.UBI = a) | item (T["UBI"] = a) | *)
(*              add_map (T.add_map("UBI", a)); all three clear_cache.      *)
(*              obj = new : a is an array the container has never seen ;   *)
(*              obj = same : a = T.UBI is the array the container holds    *)
(*              (the caller's own array, or the view from_ubis made); the  *)
(*              caller edits it IN PLACE (masks voxels, overwrites         *)
(*              lattices) and hands the SAME object back - the documented  *)
(*              way of telling the container that the UBI map changed ;    *)
(*              obj = view : the same, handed back as a NEW array object   *)
(*              that is a view of the memory the container holds           *)
(*              (a = T.UBI[...]).                                          *)
(*              Edit and hand-back are one step: between them the derived  *)
(*              maps are out of date by design (no read there).  After it  *)
(*              every read describes the values now in the array           *)
(*              (SAMEKEEP = TRUE: the caches survive when the object is    *)
(*              the one already stored / shares its memory).               *)
(*   Read(f)    T.f ; the map is handed out by reference by design and the *)
(*              container keeps the caller's UBI array, so the caller does *)
(*              not write into a derived map, and writes into the UBI      *)
(*              array only when he hands it back in the same step (no      *)
(*              EditArg, no scribble).  eps_* / sig_* maps belong to C10.  *)
(*   Configurations: Lattice_tmap_q / _t (every behaviour of depth 4 / 5   *)
(*   incl. New), _tr (every transition), _forget, _same (defect            *)
(*   configurations).                                                      *)
(*                                                                         *)
(* PART = "map"  NaN-masked voxel maps: MapVoxel picks the mask of the     *)
(*   UBI map and an independent mask of a B map over a 2x3 map; every      *)
(*   vectorised kernel is pointwise with a NaN guard, so the output is NaN *)
(*   exactly on the mask (union of masks for the two-input kernel) and     *)
(*   the other voxels equal the unmasked run (NaNExact, Neighbours).       *)
(*                                                                         *)
(* PART = "call"  how a vectorised kernel is called.  A guvectorize kernel *)
(*   gets a result block it did not allocate: numpy's np.empty (heap       *)
(*   content), or the array the caller passed positionally / as out=.      *)
(*   Every arm of every kernel stores every element of its block           *)
(*   (tensor_map.py:38-41, 60-63, 89-102, 127-158, 182-187); the model     *)
(*   keeps, per kernel and arm, the element classes stored                 *)
(*   (UNWRITTEN = classes an arm leaves out; pinned code: {}).             *)
(*   CallPick chooses kernel (the five + fast_invert on mt), how the       *)
(*   result is provided (alloc | pos | out), what the buffer held before   *)
(*   (7.25 everywhere | NaN everywhere), the layout (flat (6,) | grid      *)
(*   (1,2,3) | every second voxel of a (12,) stack, result into every      *)
(*   second slot of the buffer | the flipped, axis-swapped view from_ubis  *)
(*   makes | bare core dimensions of one voxel, as point_by_point.py:1186  *)
(*   calls unitcell_to_b | a map without voxels) and the NaN masks.        *)
(*   Invariant CallDefined: every element of every result voxel is "nan"   *)
(*   (exactly on the mask) or the value computed from the inputs - never   *)
(*   what the block held before.  Configurations: Lattice_call (all 10690  *)
(*   calls, emitted), Lattice_call_unwritten (defect configuration:        *)
(*   unitcell_to_b without the three zero stores; TLC must find            *)
(*   CallDefined violated, the real kernel must not show it).              *)
(***************************************************************************)
EXTENDS ExactLA, Json

CONSTANTS PART,       \* "alg" | "cache" | "map" | "call"
          OBJ,        \* cache part: "grain" | "tmap"
          CELLS,      \* set of <<Bn, bd>> : upper triangular integer Bn, B = Bn / bd
          GENS,       \* set of <<An, ad>> : direct basis rows, det > 0
          ROTS,       \* set of <<a1, a2, a3>> (angles)  U = Rz(a1) Ry(a2) Rx(a3)
          MaxDepth,   \* cache part: number of operations
          FORGET,     \* cache part: fields clear_cache does not reset   (pinned code: {})
          NOCOPY,     \* cache part: fields whose getter returns the cache itself (pinned code: {})
          ALIASARG,   \* cache part: set_ubi keeps the caller's array instead of a copy (pinned code: FALSE)
          SAMEKEEP,   \* cache part: assigning the array object already stored keeps the caches (pinned code: FALSE)
          UNWRITTEN,  \* call part: set of <<kernel, arm, element class>> an arm does not store (pinned code: {})
          EmitMode    \* cache part: 0 none, 1 every transition (ACTION_CONSTRAINT), 2 final states
VARIABLES pc, lat, rot, ver, cur, cache, ret, hist, mku, mkb, ubip, argl, cs
vars == <<pc, lat, rot, ver, cur, cache, ret, hist, mku, mkb, ubip, argl, cs>>

\* ---- constant sets (cfg files cannot hold tuples: `CELLS <- CELLS_q`) --------------------------------
UT(a, b, c, d, e, f) == << <<a, b, c>>, <<0, d, e>>, <<0, 0, f>> >>
CELLS_q == { << UT(4,0,0, 4,0, 4), 16 >>,          \* cubic a = 4
             << UT(6,0,0, 4,0, 3), 24 >>,          \* orthorhombic 4, 6, 8
             << UT(5,0,-1, 4,0, 3), 20 >>,         \* monoclinic, beta # 90
             << UT(5,0,0, 4,1, 3), 20 >>,          \* alpha # 90  (exercises -c* sin(beta*) cos(alpha))
             << UT(6,1,-1, 5,2, 4), 24 >>,         \* triclinic
             << UT(4,-2,1, 5,-1, 3), 16 >>,        \* triclinic, other signs
             << UT(4,0,0, 4,0, 3), 16 >>,          \* tetragonal (a = b)
             << UT(16,1,0, 16,-1, 17), 64 >> }     \* cubic with shear + normal strain ("small arbitrary strains")
CELLS_t == CELLS_q \cup
           { << UT(5,2,0, 4,0, 3), 20 >>,          \* gamma # 90
             << UT(5,-2,0, 4,0, 3), 20 >>,         \* gamma on the other side of 90
             << UT(3,1,1, 3,1, 3), 12 >>,          \* triclinic, all acute/obtuse the same way
             << UT(7,-3,2, 4,-3, 5), 32 >>,        \* triclinic, strongly oblique
             << UT(16,0,0, 16,0, 17), 64 >> }      \* cubic strained 6 % along c*
GB(r1, r2, r3, d) == << <<r1, r2, r3>>, d >>
GENS_q == { GB(<<1,-1,0>>, <<0,1,-1>>, <<1,1,1>>, 1),      \* hexagonal: gamma = 120 exactly
            GB(<<0,1,1>>, <<1,0,1>>, <<1,1,0>>, 1),        \* primitive fcc (60 degree rhombohedron)
            GB(<<10,1,0>>, <<0,10,1>>, <<-1,0,10>>, 3) }   \* generic sheared, nothing triangular
GENS_t == GENS_q \cup
          { GB(<<2,1,1>>, <<1,2,1>>, <<1,1,2>>, 1),        \* rhombohedral
            GB(<<-1,1,1>>, <<1,-1,1>>, <<1,1,-1>>, 1),     \* primitive bcc (109.47 degrees)
            GB(<<3,-3,0>>, <<0,3,-3>>, <<5,5,5>>, 2),      \* hexagonal c/a # 1
            GB(<<0,0,5>>, <<4,0,0>>, <<0,3,0>>, 1) }       \* orthorhombic, axes permuted (not triangular)
A0 == <<1,0,1>>
ANGS_q == { <<1,0,1>>, <<0,1,1>>, <<-1,0,1>>, <<4,3,5>>, <<5,-12,13>> }
PythCount(r) == Cardinality({i \in 1..3 : r[i] \in PythAngles})
ROTS_q == { r \in ANGS_q \X ANGS_q \X ANGS_q : PythCount(r) <= 2 }
ROTS_t == { r \in Ang \X Ang \X Ang : PythCount(r) <= 2 }
ROTS_id == { <<A0, A0, A0>> }
NONE == {}
UNW_b_lower == { <<"b", "val", "lower">> }            \* unitcell_to_b without res[1,0] = res[2,0] = res[2,1] = 0

\* ---- rational matrices <<N, d>> ---------------------------------------------------------------------
MaxAbs(M) == LET S == {Abs(M[i][j]) : i \in Idx, j \in Idx} IN CHOOSE x \in S : \A y \in S : y <= x
G2(a, b) == GCD(Abs(a), Abs(b))                     \* ExactLA!GCD wants a non-negative second argument
GcdM(M) == G2(G2(G2(M[1][1], M[1][2]), G2(M[1][3], M[2][1])),
              G2(G2(G2(M[2][2], M[2][3]), G2(M[3][1], M[3][2])), M[3][3]))
DivM(M, g) == [i \in Idx |-> [j \in Idx |-> M[i][j] \div g]]
Reduce(N, d) == LET g == GCD(GcdM(N), d) IN << M2T(DivM(N, g)), d \div g >>
RInv(S) == Reduce(MScale(S[2], Adj(S[1])), Det(S[1]))          \* needs Det(S[1]) > 0
RMul(S, T) == Reduce(MM(S[1], T[1]), S[2] * T[2])
RT(S) == << M2T(Transpose(S[1])), S[2] >>

RotN(r) == M2T(MM(MM(Rz(r[1]), Ry(r[2])), Rx(r[3])))
RotD(r) == r[1][3] * r[2][3] * r[3][3]
RotS(r) == << RotN(r), RotD(r) >>

\* ---- the lattice record ------------------------------------------------------------------------------
NoLat == [tri |-> FALSE, B |-> <<Z3, 1>>, A |-> <<Z3, 1>>, IA |-> <<Z3, 1>>]
LatOfCell(c) == [tri |-> TRUE, B |-> c, A |-> RInv(c), IA |-> Reduce(c[1], c[2])]
LatOfGen(a) == [tri |-> FALSE, B |-> <<Z3, 1>>, A |-> Reduce(a[1], a[2]), IA |-> RInv(a)]

Ubi == << M2T(MM(lat.A[1], Transpose(RotN(rot)))), lat.A[2] * RotD(rot) >>     \* A U^T   (not reduced)
UB  == << M2T(MM(RotN(rot), lat.IA[1])), RotD(rot) * lat.IA[2] >>            \* U A^-1  (not reduced)
Mt  == RMul(lat.A, RT(lat.A))                   \* A A^T   (no rotation in it)
Rmt == RMul(RT(lat.IA), lat.IA)                 \* A^-T A^-1
RodN == LET U == RotN(rot) IN << U[2][3] - U[3][2], U[3][1] - U[1][3], U[1][2] - U[2][1] >>
RodD == RotD(rot) + Trace(RotN(rot))            \* 0 : rotation by 180 degrees, Rodrigues vector undefined
CrossM(v) == << <<0, -v[3], v[2]>>, <<v[3], 0, -v[1]>>, <<-v[2], v[1], 0>> >>

\* do the 32 bit products of the two "whole chain" laws fit ?
FitsMt  == MaxAbs(lat.A[1]) * RotD(rot) <= 26000
FitsInv == MaxAbs(lat.A[1]) * MaxAbs(lat.IA[1]) <= 200000000 \div (RotD(rot) * RotD(rot))

\* ---- cache part ----------------------------------------------------------------------------------------
Fields == IF OBJ = "tmap" THEN {"UB", "mt", "unitcell", "B", "U"}
          ELSE {"UB", "mt", "rmt", "unitcell", "B", "U", "Rod"}
FieldSeq == IF OBJ = "tmap" THEN <<"UB", "mt", "unitcell", "B", "U">>
            ELSE <<"UB", "mt", "rmt", "unitcell", "B", "U", "Rod">>
ReadNames == IF OBJ = "tmap" THEN Fields ELSE Fields \cup {"ub", "u"}
SetHows == IF OBJ = "tmap" THEN {"setter", "item", "add_map"} ELSE {"set_ubi"}
NewHows == {"maps", "from_ubis"}
\* which array object carries the new values (identity, not content)
SetObjs == IF OBJ = "tmap" THEN {"new", "same", "view"} ELSE {"new", "arg", "own"}
\* is it the object the container / grain holds at the moment of the call ?
IsStored(o) == o \in {"same", "view", "own"} \/ (o = "arg" /\ ALIASARG)
Target(n) == IF n = "ub" THEN "UB" ELSE IF n = "u" THEN "U" ELSE n
Dep(f) == CASE f = "rmt" -> "mt" [] f = "unitcell" -> "mt" [] f = "B" -> "unitcell"
            [] f = "U" -> "B" [] f = "Rod" -> "U" [] OTHER -> "none"
UsesUbi(f) == f \in {"UB", "mt", "U"}
Empty == [has |-> FALSE, prov |-> {}]
EmptyCache == [f \in Fields |-> Empty]
UbiIds == {1, 2}

\* the getter of f:  if self._f is None: self._f = compute(deps through their getters) ; return copy
RECURSIVE Fill(_, _)
Fill(c, f) == IF c[f].has THEN c
              ELSE LET c1 == IF Dep(f) = "none" THEN c ELSE Fill(c, Dep(f))
                       p  == (IF UsesUbi(f) THEN ubip ELSE {}) \cup
                             (IF Dep(f) = "none" THEN {} ELSE c1[Dep(f)].prov)
                   IN [c1 EXCEPT ![f] = [has |-> TRUE, prov |-> p]]

Occupancy(c) == [i \in 1..Len(FieldSeq) |-> IF c[FieldSeq[i]].has THEN 1 ELSE 0]

\* ---- map part ------------------------------------------------------------------------------------------
Vox == 1..6                                                 \* 2 x 3 map, row major
Kernels == {"inv", "mt", "cell", "b", "u"}                  \* fast_invert ubi_to_mt mt_to_unitcell unitcell_to_b
                                                            \* (on the chain ubi -> mt -> cell -> b) ; u = ubi_and_b_to_u(ubi, b2)
\* output of kernel k at voxel v when the UBI map is NaN on mu and the separate B map on mb
NaN == <<"nan", 0>>
Out(k, mu, mb) == [v \in Vox |-> IF v \in mu \/ (k = "u" /\ v \in mb) THEN NaN ELSE <<k, v>>]
Bits(S) == [v \in Vox |-> IF v \in S THEN 1 ELSE 0]

\* ---- call part -----------------------------------------------------------------------------------------
CallKernels == Kernels \cup {"rmt"}                         \* rmt = fast_invert on the metric tensor map
Hows == {"alloc", "pos", "out"}
Priors == {"dirty", "nan"}
Layouts == {"flat", "grid", "sliced", "recon", "bare", "empty"}
NoCall == [k |-> "none", how |-> "none", prior |-> "none", lay |-> "none", bv |-> 0]
ElemClasses(k) == IF k = "b" THEN {"upper", "lower"} ELSE IF k = "cell" THEN {"len", "ang"} ELSE {"all"}
Arm(k, v, mu, mb) == IF v \in mu \/ (k = "u" /\ v \in mb) THEN "nan" ELSE "val"
Stored(k, arm) == {e \in ElemClasses(k) : <<k, arm, e>> \notin UNWRITTEN}
Before(c) == IF c.how = "alloc" THEN "heap" ELSE c.prior
Elem(c, v, e, mu, mb) == LET a == Arm(c.k, v, mu, mb) IN IF e \in Stored(c.k, a) THEN a ELSE Before(c)
CallVox(c) == CASE c.lay = "empty" -> {} [] c.lay = "bare" -> {c.bv} [] OTHER -> Vox
PriorChoices(how) == IF how = "alloc" THEN {"none"} ELSE Priors
BvChoices(lay) == IF lay = "bare" THEN Vox ELSE {1}
MuChoices(lay, bv) == CASE lay = "empty" -> {{}} [] lay = "bare" -> {{}, {bv}} [] OTHER -> SUBSET Vox
MbChoices(k, lay, bv) == IF k # "u" THEN {{}}
                         ELSE CASE lay = "empty" -> {{}} [] lay = "bare" -> {{}, {bv}} [] OTHER -> {{}, {1, 4}, Vox}

\* ---- behaviour -----------------------------------------------------------------------------------------
Init == /\ pc = (CASE PART = "alg" -> "cell" [] PART = "cache" -> (IF OBJ = "tmap" THEN "new" ELSE "cache")
                    [] PART = "map" -> "map0" [] PART = "call" -> "call0")
        /\ lat = NoLat /\ rot = <<A0, A0, A0>>
        /\ ver = 1 /\ cur = 1 /\ cache = EmptyCache /\ ret = {} /\ hist = <<>>
        /\ mku = {} /\ mkb = {} /\ ubip = {1} /\ argl = TRUE /\ cs = NoCall

PickCell == /\ pc = "cell" /\ \E c \in CELLS : lat' = LatOfCell(c)
            /\ pc' = "rot" /\ UNCHANGED <<rot, ver, cur, cache, ret, hist, mku, mkb, ubip, argl, cs>>
PickGen  == /\ pc = "cell" /\ \E a \in GENS : lat' = LatOfGen(a)
            /\ pc' = "rot" /\ UNCHANGED <<rot, ver, cur, cache, ret, hist, mku, mkb, ubip, argl, cs>>
PickRot  == /\ pc = "rot" /\ \E r \in ROTS : rot' = r
            /\ pc' = "done" /\ UNCHANGED <<lat, ver, cur, cache, ret, hist, mku, mkb, ubip, argl, cs>>

New(how) == /\ pc = "new" /\ Len(hist) < MaxDepth
            /\ pc' = "cache" /\ hist' = Append(hist, <<"new", how>>)
            /\ UNCHANGED <<lat, rot, ver, cur, cache, ret, mku, mkb, ubip, argl, cs>>
\* the values of matrix m arrive in the array object o (new: never seen before; arg / own / same: an array the
\* caller already shares with the object, edited in place beforehand); whatever the object, it is a new version
SetUbi(m, how, o) ==
             /\ pc = "cache" /\ Len(hist) < MaxDepth
             /\ ver' = ver + 1 /\ cur' = m
             /\ cache' = IF SAMEKEEP /\ IsStored(o) THEN cache
                         ELSE [f \in Fields |-> IF f \in FORGET THEN cache[f] ELSE Empty]
             /\ ret' = {}
             /\ ubip' = {ver + 1} /\ argl' = TRUE
             /\ hist' = Append(hist, <<"set", m, how, o>>)
             /\ UNCHANGED <<pc, lat, rot, mku, mkb, cs>>
\* the caller overwrites the array it handed to the constructor / the last set_ubi (grain only)
EditArg == /\ pc = "cache" /\ OBJ = "grain" /\ argl /\ Len(hist) < MaxDepth
           /\ argl' = FALSE
           /\ ubip' = IF ALIASARG THEN {0} ELSE ubip
           /\ hist' = Append(hist, <<"edit", 0>>)
           /\ UNCHANGED <<pc, lat, rot, ver, cur, cache, ret, mku, mkb, cs>>
Read(n) == /\ pc = "cache" /\ Len(hist) < MaxDepth
           /\ LET f == Target(n)
                  c2 == Fill(cache, f)
              IN /\ ret' = c2[f].prov
                 /\ cache' = IF f \in NOCOPY THEN [c2 EXCEPT ![f].prov = @ \cup {0}] ELSE c2
           /\ hist' = Append(hist, <<"read", n>>)
           /\ UNCHANGED <<pc, lat, rot, ver, cur, mku, mkb, ubip, argl, cs>>

MapVoxel == /\ pc = "map0" /\ \E mu \in SUBSET Vox, mb \in SUBSET Vox : mku' = mu /\ mkb' = mb
            /\ pc' = "map" /\ UNCHANGED <<lat, rot, ver, cur, cache, ret, hist, ubip, argl, cs>>

CallPick == /\ pc = "call0"
            /\ \E k \in CallKernels, how \in Hows, lay \in Layouts :
                 \E prior \in PriorChoices(how), bv \in BvChoices(lay) :
                   \E mu \in MuChoices(lay, bv), mb \in MbChoices(k, lay, bv) :
                      /\ cs' = [k |-> k, how |-> how, prior |-> prior, lay |-> lay, bv |-> bv]
                      /\ mku' = mu /\ mkb' = mb
            /\ pc' = "call" /\ UNCHANGED <<lat, rot, ver, cur, cache, ret, hist, ubip, argl>>

Next == PickCell \/ PickGen \/ PickRot
        \/ (\E h \in NewHows : New(h))
        \/ (\E m \in {2, 1}, h \in SetHows, o \in SetObjs : SetUbi(m, h, o)) \/ EditArg \/ (\E n \in ReadNames : Read(n))
        \/ MapVoxel \/ CallPick
Spec == Init /\ [][Next]_vars

\* ---- laws: algebra -------------------------------------------------------------------------------------
Done == pc = "done"
UOrtho == Done => IsOrthoScaled(RotN(rot), RotD(rot))
UDet == Done => Det(RotN(rot)) = RotD(rot) * RotD(rot) * RotD(rot)
BUpperPos == (Done /\ lat.tri) => /\ IsUpper(lat.B[1]) /\ lat.B[2] > 0
                                  /\ \A i \in Idx : lat.B[1][i][i] > 0
\* B^T B = rmt (cross-multiplied: Rmt is reduced)
BtB == (Done /\ lat.tri) =>
          M2T(MScale(Rmt[2], MM(Transpose(lat.B[1]), lat.B[1]))) = M2T(MScale(lat.B[2] * lat.B[2], Rmt[1]))
\* B[3][3] = 1 / c  <=>  B33^2 mt33 = 1
B33 == (Done /\ lat.tri) => lat.B[1][3][3] * lat.B[1][3][3] * Mt[1][3][3] = lat.B[2] * lat.B[2] * Mt[2]
MtSym == Done => IsSym(Mt[1]) /\ IsSym(Rmt[1]) /\ \A i \in Idx : Mt[1][i][i] > 0
MtRmt == Done => M2T(MM(Mt[1], Rmt[1])) = M2T(MScale(Mt[2] * Rmt[2], I3))
\* det(A U^T) = det A > 0
RightHanded == Done => Det(lat.A[1]) > 0 /\ lat.A[2] > 0 /\ Ubi[2] > 0
\* ubi ubi^T = mt with the rotation left in:  (A U^T)(A U^T)^T = un^2 A A^T
MtFromUbi == (Done /\ FitsMt) =>
     LET W == Ubi[1]
     IN M2T(MM(W, Transpose(W))) = M2T(MScale(RotD(rot) * RotD(rot), MM(lat.A[1], Transpose(lat.A[1]))))
\* UB . UBI = I :  (U A^-1)(A U^T) = I
UBxUBI == (Done /\ FitsInv) =>
     M2T(MM(UB[1], Ubi[1])) =
     M2T(MScale(RotD(rot) * RotD(rot) * lat.IA[2] * lat.A[2], I3))
\* Cayley: r = RodN / RodD is the Rodrigues vector of U^T:  (I - [r]x) U^T = I + [r]x
Cayley == (Done /\ RodD # 0) =>
     M2T(MM(MSub(MScale(RodD, I3), CrossM(RodN)), Transpose(RotN(rot)))) =
     M2T(MScale(RotD(rot), MAdd(MScale(RodD, I3), CrossM(RodN))))
\* and its length is tan(theta/2):  |r|^2 = (3 - tr U) / (1 + tr U)
RodLen == (Done /\ RodD # 0) => Norm2(RodN) = (3 * RotD(rot) - Trace(RotN(rot))) * RodD

EmitAlg == Done =>
   PrintT("@@" \o ToJson([tri |-> IF lat.tri THEN 1 ELSE 0,
          Bn |-> lat.B[1], Bd |-> lat.B[2], An |-> lat.A[1], Ad |-> lat.A[2],
          rot |-> rot, Un |-> RotN(rot), Ud |-> RotD(rot),
          ubin |-> Ubi[1], ubid |-> Ubi[2], UBn |-> UB[1], UBd |-> UB[2],
          mtn |-> Mt[1], mtd |-> Mt[2], rmtn |-> Rmt[1], rmtd |-> Rmt[2],
          rodn |-> RodN, rodd |-> RodD,
          fits |-> <<IF FitsMt THEN 1 ELSE 0, IF FitsInv THEN 1 ELSE 0>>]))

\* ---- laws: cache ---------------------------------------------------------------------------------------
Coherent == \A f \in Fields : cache[f].has => cache[f].prov = {ver}
ReadFresh == ret = {} \/ ret = {ver}
DepClosed == \A f \in Fields : (cache[f].has /\ Dep(f) # "none") => cache[Dep(f)].has
UbiOwn == ubip = {ver}
CacheType == /\ ver = 1 + Cardinality({i \in 1..Len(hist) : hist[i][1] = "set"})
             /\ cur \in UbiIds
Step(h) == [ops |-> h, cur |-> cur', ver |-> ver', occ |-> Occupancy(cache'),
            fresh |-> IF ret' = {} \/ ret' = {ver'} THEN 1 ELSE 0]
EmitTransition == EmitMode # 1 \/ PrintT("@@" \o ToJson(Step(hist')))
EmitFinal == EmitMode # 2 \/ Len(hist) < MaxDepth \/
             PrintT("@@" \o ToJson([ops |-> hist, cur |-> cur, ver |-> ver, occ |-> Occupancy(cache),
                                    fresh |-> IF ret = {} \/ ret = {ver} THEN 1 ELSE 0]))
\* VIEW for the transition run: history and absolute version numbers are not part of the state identity
View == <<pc, cur, [f \in Fields |-> <<cache[f].has, cache[f].prov = {ver}, 0 \in cache[f].prov>>],
          ret = {} \/ ret = {ver}, ubip = {ver}, argl>>

\* ---- laws: maps ----------------------------------------------------------------------------------------
Mapped == pc = "map"
NaNExact == Mapped => \A k \in Kernels : \A v \in Vox :
               (Out(k, mku, mkb)[v] = NaN) <=> (v \in mku \/ (k = "u" /\ v \in mkb))
Neighbours == Mapped => \A k \in Kernels : \A v \in Vox :
               Out(k, mku, mkb)[v] # NaN => Out(k, mku, mkb)[v] = Out(k, {}, {})[v]
EmitMap == Mapped =>
   PrintT("@@" \o ToJson([mu |-> Bits(mku), mb |-> Bits(mkb),
          nan1 |-> Bits({v \in Vox : Out("mt", mku, mkb)[v] = NaN}),
          nan2 |-> Bits({v \in Vox : Out("u", mku, mkb)[v] = NaN})]))

\* ---- laws: calls ---------------------------------------------------------------------------------------
Called == pc = "call"
CallDefined == Called => \A v \in CallVox(cs) : \A e \in ElemClasses(cs.k) :
                 /\ Elem(cs, v, e, mku, mkb) \in {"nan", "val"}
                 /\ (Elem(cs, v, e, mku, mkb) = "nan") <=> (v \in mku \/ (cs.k = "u" /\ v \in mkb))
EmitCall == Called =>
   PrintT("@@" \o ToJson([k |-> cs.k, how |-> cs.how, prior |-> cs.prior, lay |-> cs.lay, bv |-> cs.bv,
          mu |-> Bits(mku), mb |-> Bits(mkb), vox |-> Bits(CallVox(cs)),
          nan |-> Bits({v \in CallVox(cs) : Arm(cs.k, v, mku, mkb) = "nan"})]))

\* ---- sizes: everything formed above stays below 2^31 ------------------------------------------------------
ASSUME \A c \in CELLS_t : IsUpper(c[1]) /\ Det(c[1]) > 0 /\ MaxAbs(c[1]) <= 40 /\ c[2] <= 128
ASSUME \A a \in GENS_t : Det(a[1]) > 0 /\ MaxAbs(a[1]) <= 50 /\ a[2] <= 10
ASSUME \A r \in ROTS_t : RotD(r) <= 625
=============================================================================

SPECIFICATION Spec
CONSTANTS
  CELLS <- CELLS_tie
  SCR <- SCRWV_q
  SCRWV <- SCRWV_q
  CENTS <- CENTS_none
  PROBES <- PROBES_std
  TOLS <- TOLS_std
  TIES = "any"
  MODFIX = FALSE
  COLFIX = TRUE
  WVFIX = TRUE
  NTRYFIX = TRUE
  MAXIT = 10
INVARIANT SameLattice
INVARIANT NoFlaw
PROPERTY Variant
CHECK_DEADLOCK FALSE

SPECIFICATION Spec
CONSTANTS
  CELLS <- CELLS_t
  SCR <- SCR_t
  SCRWV <- SCRWV_t
  CENTS <- CENTS_std
  PROBES <- PROBES_std
  TOLS <- TOLS_std
  TIES = "even"
  MODFIX = FALSE
  COLFIX = TRUE
  WVFIX = TRUE
  NTRYFIX = TRUE
  MAXIT = 10
INVARIANT SameLattice
INVARIANT RightHanded
INVARIANT Reduced
INVARIANT Stable
INVARIANT NoFlaw
INVARIANT IndexIntegral
INVARIANT IndexRow
INVARIANT IndexCol
INVARIANT ScoreLaw
INVARIANT WithvecOK
INVARIANT MinkSane
INVARIANT Emit
PROPERTY Variant
CHECK_DEADLOCK FALSE

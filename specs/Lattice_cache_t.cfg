SPECIFICATION Spec
CONSTANTS
  PART = "cache"
  CELLS <- CELLS_q
  GENS <- GENS_q
  ROTS <- ROTS_id
  MaxDepth = 5
  FORGET = {}
  NOCOPY = {}
  OBJ = "grain"
  ALIASARG = FALSE
  SAMEKEEP = FALSE
  UNWRITTEN = {}
  EmitMode = 2
INVARIANT Coherent
INVARIANT ReadFresh
INVARIANT DepClosed
INVARIANT CacheType
INVARIANT UbiOwn
INVARIANT EmitFinal
CHECK_DEADLOCK FALSE

\* boundary instances: dsmax^2 = L/scale exactly, dyadic right-angled cells; strictness of ds < dsmax
SPECIFICATION Spec
CONSTANTS
  HMAX = 200
  Forms <- FormsTie
  Limits = {4, 8, 16, 20, 36}
  Centrings = {"P", "A", "B", "C", "I", "F", "R"}
  Outif <- OutifPinned
  TIE = TRUE
  ORACLE = TRUE
  BigCases <- BigNone
INVARIANT WalkInv
INVARIANT BoxInv
INVARIANT Emit
CHECK_DEADLOCK FALSE

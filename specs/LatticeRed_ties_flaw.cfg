SPECIFICATION Spec
CONSTANTS
  CELLS <- CELLS_flaw
  SCR <- SCR_one
  SCRWV <- SCRWV_q
  CENTS <- CENTS_none
  PROBES <- PROBES_std
  TOLS <- TOLS_std
  TIES = "any"
  MODFIX = FALSE
  COLFIX = TRUE
  WVFIX = TRUE
  NTRYFIX = TRUE
  MAXIT = 10
INVARIANT SameLattice
INVARIANT NoFlaw
VIEW ViewCore
CHECK_DEADLOCK FALSE

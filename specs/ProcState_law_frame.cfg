\* X07: pinned tree with numba's OpenMP layer (BUG_NBRESET): TLC must report RegFrame violated
SPECIFICATION Spec
CONSTANTS
  EnvOmp = {0}
  Cores = {2}
  Slurm = {0}
  PutVals = {}
  SetVals = {1}
  NbVals = {}
  Starts = {}
  Hows = {"default"}
  POps = {"import", "set", "nbget"}
  COps = {}
  NW = 0
  MaxDepth = 5
  BUG_INHERIT = TRUE
  BUG_NBRESET = TRUE
  EmitMode = 0
PROPERTY RegFrame
VIEW View
CHECK_DEADLOCK FALSE

SPECIFICATION SpecFwd
CONSTANTS
  SWITCHSETS <- SW_all
  FLIPS = {1}
  SIGNS <- SIGNS_all
  SIZES <- SIZES_pos
  PEAKS = {2,3}
  OMEGAS = {2,4}
  INVANG <- NONE
  RAWANG <- NONE
  QUADS = {}
  SCALES <- NONE
  AXQUADS = {}
INVARIANT TypeOK
INVARIANT StackOrtho
INVARIANT NormLaw
INVARIANT OmegaLaw
INVARIANT OriginLaw
INVARIANT Roundtrip
INVARIANT EwaldBound
INVARIANT BraggLaw
INVARIANT AxisLaw
INVARIANT UnitLaw
INVARIANT Emit
CHECK_DEADLOCK FALSE

\* quick: two threads make the first calls concurrently: every named group against itself, nine pairs of different groups;
\* every interleaving of the steps of generate_group, except that cubic and hexagonal are preempted inside makegroup only at rows 1, 9, 17
SPECIFICATION SpecC
CONSTANTS
  Names = {"cubic", "hexagonal", "trigonal", "rhombohedralP", "tetragonal", "orthorhombic", "monoclinic_c", "monoclinic_a", "monoclinic_b", "triclinic"}
  QMax = 1
  HMax = 1
  MaxCalls = 1
  DoScan = FALSE
  TrigonalFixed = TRUE
  BigHkls = {}
  BlockSize = 0
  ListMax = 0
  ListPool = {}
  ListSizes = {}
  ConcPairs = {{"cubic"}, {"hexagonal"}, {"trigonal"}, {"rhombohedralP"}, {"tetragonal"}, {"orthorhombic"}, {"monoclinic_c"}, {"monoclinic_a"}, {"monoclinic_b"}, {"triclinic"}, {"monoclinic_c", "orthorhombic"}, {"orthorhombic", "monoclinic_b"}, {"monoclinic_b", "tetragonal"}, {"monoclinic_a", "triclinic"}, {"trigonal", "rhombohedralP"}, {"hexagonal", "monoclinic_c"}, {"triclinic", "cubic"}, {"orthorhombic", "tetragonal"}, {"monoclinic_a", "monoclinic_b"}}
  CoarseNames = {"cubic", "hexagonal"}
  Stride = 8
  PublishEarly = FALSE
INVARIANT ConcTypeOK
INVARIANT HeldFull
INVARIANT HeldClosed
INVARIANT PublishedComplete
INVARIANT PublishedClosed
INVARIANT PrivateWhileBuilt
INVARIANT NoAliasC
INVARIANT HitIsCached
INVARIANT AllCached
INVARIANT EmitConc
PROPERTY Frozen
CHECK_DEADLOCK TRUE

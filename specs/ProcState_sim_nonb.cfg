\* X07: as ProcState_sim.cfg without numba operations (numba threading layer is not OpenMP)
SPECIFICATION Spec
CONSTANTS
  EnvOmp = {0, 2}
  Cores = {2, 3}
  Slurm = {0}
  PutVals = {1}
  SetVals = {0, 1, 3}
  NbVals = {1, 9}
  Starts = {"fork", "spawn", "forkserver"}
  Hows = {"default", "fork", "spawn", "forkserver"}
  POps = {"putenv", "setstart", "import", "set", "kernel", "checkmp", "launch", "user", "thread", "stopset"}
  COps = {"import", "set", "kernel", "checkmp", "stopset"}
  NW = 2
  MaxDepth = 8
  BUG_INHERIT = TRUE
  BUG_NBRESET = TRUE
  EmitMode = 2
INVARIANT TypeOK
INVARIANT RegPositive
INVARIANT SafeNeverStuck
INVARIANT StopBound
INVARIANT LateNoWork
PROPERTY SetGet
PROPERTY WarnRule
PROPERTY PatchSafe
PROPERTY OneThreadNeverStuck
PROPERTY Restore
PROPERTY StopSticky
PROPERTY DoneIsFinal
PROPERTY RaiseStops
PROPERTY FlagPerProcess
PROPERTY PbpOneThread
INVARIANT EmitFinal
CHECK_DEADLOCK FALSE

SPECIFICATION Spec
CONSTANTS
  PipeGrids = {}
  NLab = 3
  Surj = TRUE
  NExtra = {0, 2}
  NnzMax0 = 2
  NpkMax0 = 1
  CdLen = 0
  CdLab = 1
  CdSlack = {0}
  FIXED = TRUE
  HistGrids = {13, 22}
  HistLen = 6
  Chains = {FALSE, TRUE}
  HistPickInit = 4
  HistPickNext = 1
INVARIANT InBounds
INVARIANT SoExact
INVARIANT CdExact
INVARIANT LinExact
INVARIANT MatExact
INVARIANT LinEqMat
INVARIANT OvlTotal
INVARIANT OvlExact
INVARIANT Emit
CHECK_DEADLOCK FALSE

\* random behaviours of 9 operations (tlc -simulate -depth 10), pinned tree
SPECIFICATION Spec
CONSTANTS
  MaxDepth = 9
  DsNames = {"R180", "M360", "M72", "E360", "ZIG", "IRR", "RPT", "F2D", "BADS"}
  StartForms = {"fresh", "imported", "saved", "cached", "sparse"}
  EmitMode = 2
  BUG_SINOHIST = TRUE
  BUG_LOAD360 = TRUE
  BUG_YSTEP = TRUE
  BUG_BADSCAN = TRUE
  BUG_SAVEDEF = TRUE
  BUG_SAVESHAPE = TRUE
  BUG_STALEBINS = TRUE
  BUG_COMPARE = TRUE
INVARIANT TypeOK
INVARIANT RoundTripPinned
INVARIANT CacheNoMix
INVARIANT EmitFinal
VIEW View
CHECK_DEADLOCK FALSE

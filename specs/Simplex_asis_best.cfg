SPECIFICATION Spec
CONSTANTS
  K = 10
  BOX = 6
  Cases <- Cases_asis1
  FIXED = FALSE
INVARIANT ReturnIsBest
CHECK_DEADLOCK FALSE

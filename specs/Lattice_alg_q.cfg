SPECIFICATION Spec
CONSTANTS
  PART = "alg"
  CELLS <- CELLS_q
  GENS <- GENS_q
  ROTS <- ROTS_q
  MaxDepth = 0
  FORGET = {}
  NOCOPY = {}
  OBJ = "grain"
  ALIASARG = FALSE
  SAMEKEEP = FALSE
  UNWRITTEN = {}
  EmitMode = 0
INVARIANT UOrtho
INVARIANT UDet
INVARIANT BUpperPos
INVARIANT BtB
INVARIANT B33
INVARIANT MtSym
INVARIANT MtRmt
INVARIANT RightHanded
INVARIANT MtFromUbi
INVARIANT UBxUBI
INVARIANT Cayley
INVARIANT RodLen
INVARIANT EmitAlg
CHECK_DEADLOCK FALSE

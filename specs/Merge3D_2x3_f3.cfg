SPECIFICATION Spec
CONSTANTS
  NS = 2
  NF = 3
  MAXFR = 3
  VALS = {0, 1}
  THR = 0
  PATTERN = TRUE
  OM0 = 1
  OMSTEP = 1
  OMSEQ <- NoSeq
  VSHIFT = 0
  MAXFIX = FALSE
  NANV <- Neg1
  EMITSTEPS = FALSE
INVARIANT NoBad
INVARIANT ShapeOK
INVARIANT LinkOK
INVARIANT NoSame1
INVARIANT ScanLive
INVARIANT Conserved
INVARIANT KernelPost
INVARIANT PrefixOK
INVARIANT DoneOK
INVARIANT EmitDone
INVARIANT EmitStep
CHECK_DEADLOCK FALSE

\* table histories: after the first merge up to 2 operations out of find_uniq() again,
\* find_uniq(use_scipy=True) (every renumbering), save + load, pk2dmerge again; one thread (the
\* labelling itself is covered by the other configurations), every edge list over <= 3 nodes with
\* <= 2 positions; emits one record per (instance, history) at every merged state
SPECIFICATION Spec
CONSTANTS
  NSet = {1,2,3}
  ESet = {0,1,2}
  Threads = {t1}
  Static = TRUE
  OrdSet = {0}
  History = TRUE
  DoEmit = TRUE
  Bug = "none"
  Hist = 2
  DsHist = 0
  DsOps = {}
  NMon = 0
  Neg = TRUE
  Shape = "any"
INVARIANT TypeOK
INVARIANT InComp
INVARIANT MinFixed
INVARIANT LocalsOK
INVARIANT ZeroAgree
INVARIANT Fixpoint
INVARIANT FixReadsRoot
INVARIANT CleanOK
INVARIANT MergeOK
INVARIANT SweepLegal
INVARIANT SeqExact
INVARIANT EmitInv
CHECK_DEADLOCK FALSE

\* Strain.tla, machine HSpec, thorough tier: histories on one grain / DeformationGradientTensor / TensorMap object
\* (with decorations: carried ref_unitcell objects, touched caches, explicit dzero_unitcell maps, reference cells of other scales),
\* drawn by `tlc -simulate` (seed = VERIF_SEED); every invariant is checked along each behaviour
SPECIFICATION HSpec
CONSTANTS
  REFS <- RefsQ
  STRETCHES <- StretchQ
  ROTS <- RotsQ
  OBJROTS <- ObjRots
  OBJU0 <- ObjU0
  OBJU0R <- ObjU0R
  HKINDS <- HKindsAll
  HREFS <- HRefsT
  HSTRETCHES <- HStretchT
  HROTS <- HRotsT
  HU0R <- HU0RAll
  HSCALES <- HScalesAll
  MTOUCHES <- MTouchAll
  MFAILS <- MFailAll
  GFAILS <- GFailAll
  HLEN = 16
  PHASEDICTS <- PhaseDicts
  NVER = 3
  MLEN = 11
INVARIANT HAnswersCurrent
INVARIANT HPolarOK
INVARIANT HDecorTracked
INVARIANT HNoTrace
INVARIANT MapNoTrace
INVARIANT MapRaisesIffBlocked
INVARIANT MapExpCurrent
INVARIANT MapRepairedCurrent
INVARIANT DzeroByKey
INVARIANT DzSourceOK
INVARIANT HEmit
CHECK_DEADLOCK FALSE

\* Strain.tla, machine HSpec, thorough tier: histories on one grain / DeformationGradientTensor / TensorMap object,
\* drawn by `tlc -simulate` (seed = VERIF_SEED); every invariant is checked along each behaviour
SPECIFICATION HSpec
CONSTANTS
  REFS <- RefsQ
  STRETCHES <- StretchQ
  ROTS <- RotsQ
  OBJROTS <- ObjRots
  OBJU0 <- ObjU0
  OBJU0R <- ObjU0R
  HKINDS <- HKindsAll
  HREFS <- HRefsT
  HSTRETCHES <- HStretchT
  HROTS <- HRotsT
  HU0R <- HU0RAll
  HLEN = 14
  PHASEDICTS <- PhaseDicts
  NVER = 3
  MLEN = 10
INVARIANT HAnswersCurrent
INVARIANT HPolarOK
INVARIANT MapExpCurrent
INVARIANT MapRepairedCurrent
INVARIANT DzeroByKey
INVARIANT HEmit
CHECK_DEADLOCK FALSE

\* X07 quick: worker threads of ImageD11_thread and the global stop flag (two workers, one child)
SPECIFICATION Spec
CONSTANTS
  EnvOmp = {0}
  Cores = {2}
  Slurm = {0}
  PutVals = {}
  SetVals = {}
  NbVals = {}
  Starts = {}
  Hows = {"default", "spawn"}
  POps = {"thread", "stopset", "launch"}
  COps = {}
  NW = 2
  MaxDepth = 4
  BUG_INHERIT = TRUE
  BUG_NBRESET = TRUE
  EmitMode = 1
INVARIANT TypeOK
INVARIANT RegPositive
INVARIANT SafeNeverStuck
INVARIANT StopBound
INVARIANT LateNoWork
PROPERTY SetGet
PROPERTY WarnRule
PROPERTY PatchSafe
PROPERTY OneThreadNeverStuck
PROPERTY Restore
PROPERTY StopSticky
PROPERTY DoneIsFinal
PROPERTY RaiseStops
PROPERTY FlagPerProcess
PROPERTY PbpOneThread
ACTION_CONSTRAINT EmitTransition
VIEW View
CHECK_DEADLOCK FALSE

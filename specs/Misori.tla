------------------------------- MODULE Misori -------------------------------
(***************************************************************************)
(* Misorientation kernels of ImageD11 (extra check X01, specification      *)
(* growth: not one of the listed properties).                              *)
(*                                                                         *)
(* Code modelled (src/closest.c of the pinned tree, f2py-wrapped as        *)
(* ImageD11.cImageD11.misori_NAME):                                        *)
(*   misori_cubic         704-746  r = u1^T . u2 (r[i][j] = sum_k u1[k][i]  *)
(*                                 * u2[k][j]); the six permutation sums   *)
(*                                 t[0..5] of |r[i][s(i)]|; max tournament *)
(*   misori_orthorhombic  766-785  |r00| + |r11| + |r22|                   *)
(*   misori_tetragonal    804-837  m3 = |r22|, m1 = |r00|+|r11|,           *)
(*                                 m2 = |r10|+|r01|;                       *)
(*                                 if (m2 > m3) m1+m3 else m2+m3           *)
(*   misori_monoclinic    854-877  r00 + |r11| + r22                       *)
(* Intended meaning (docstrings "computes the trace of the smallest        *)
(* misorientation", test/test_misori.py misori_py: minimum over            *)
(* xfab.symmetry.rotations(crystal_system) of the angle of                 *)
(* rot^T . u1^T . u2):  the orientations U.g, g in the PROPER point group  *)
(* of the lattice, are the same crystal; the kernel returns                *)
(*      max over g in G of trace( (u1.g)^T . u2 ) = trace( g^T . r ).      *)
(* (u1^T . u2, not u1 . u2^T as the docstrings say: U maps crystal to      *)
(* sample axes, the symmetry acts on the crystal side.  The two products   *)
(* have the same trace, the maxima over G differ; FrameInvariant and the   *)
(* emitted field `wrong` separate them.)                                   *)
(*                                                                         *)
(* Variables                                                               *)
(*   pc     "pick" "scan" "kernel" "done"                                  *)
(*   u1,u2  the two orientations, scaled integer matrices <<M, n>>: U = M/n*)
(*   r      numerators of u1^T . u2 over the common denominator D = n1.n2  *)
(*   gi     which group is being scanned (index into GroupNames)           *)
(*   i      cursor of the scan over the group list                         *)
(*   best   best trace so far (numerator over D)                           *)
(*   res    results of the finished scans: res[k] for GroupNames[k]        *)
(*   kres   what the four kernels returned: <<name, branch, numerator>>    *)
(*                                                                         *)
(* Actions                                                                 *)
(*   Pick(a, b)           choose the pair, form r                          *)
(*   ScanKeep / ScanSkip  one group element tried: t = trace(g^T r),       *)
(*                        t > best or not (the reference scan: this is     *)
(*                        the definition the kernels short-cut)            *)
(*   KCubic, KTetraA, KTetraB, KTetra, KOrtho, KMono                       *)
(*                        one call of each kernel; the tetragonal kernel   *)
(*                        of the pinned tree has two branches (A: m2 > m3) *)
(*   Kernels = "pinned": the formulas of the pinned tree (above);          *)
(*   Kernels = "proper": closed forms of the maximum over the proper group *)
(*     (the repair proposed with this check):                              *)
(*       orthorhombic  max(d0+d1+d2, d0-d1-d2, -d0+d1-d2, -d0-d1+d2)       *)
(*       tetragonal    max( r22+|r00+r11|, r22+|r01-r10|,                  *)
(*                         -r22+|r00-r11|, -r22+|r01+r10| )                *)
(*       monoclinic    r11 + |r00 + r22|                                   *)
(*       cubic         unchanged                                           *)
(*                                                                         *)
(* Invariants (stated on the brute-force definition BestOf, independent of *)
(* the scan and of the kernels)                                            *)
(*   TypeOK, ROk (r is u1^T u2), ScanLoopInv (best = max of the tried)     *)
(*   ScanIsMax       res[k] = max over the group of trace(g^T u1^T u2)     *)
(*   Symmetric       same value for (u2, u1)                               *)
(*   GroupInvariant  same value when u1 or u2 is replaced by u.g, g in G   *)
(*   FrameInvariant  same value when both are rotated by a common Q        *)
(*   ZeroIffOrbit    value = 3 (angle 0)  <=>  u2 = u1.g for some g in G   *)
(*   Chain           cubic >= tetragonal >= orthorhombic >= monoclinic >=  *)
(*                   triclinic = trace(u1^T u2)   (subgroup chain)         *)
(*   FundZone        trace >= -1 ; cubic >= 1/2 + sqrt 2 (62.8 deg),       *)
(*                   tetragonal >= 1/sqrt 2 (98.4 deg), orthorhombic >= 0  *)
(*                   (120 deg)                                             *)
(*   CubicAgrees, TetraAgrees, OrthoAgrees, MonoAgrees                     *)
(*                   the kernel's value is the scan's value                *)
(*   PinnedExplained what the pinned formulas compute instead: the maximum *)
(*                   of |trace| (Laue class m-3m, mmm: improper elements   *)
(*                   included), monoclinic max(t(1), -t(2y)) (mirror       *)
(*                   instead of the two-fold)                              *)
(* The groups are defined as subsets of the 24 proper signed permutations  *)
(* (ExactLA) and tied by ASSUME to their orders, to the group axioms, to   *)
(* the subgroup chain and to the closures of the generators of             *)
(* ImageD11/sym_u.py (cubic, tetragonal, orthorhombic, monoclinic_b).      *)
(*                                                                         *)
(* Known departures of the pinned tree (TLC: TetraAgrees, OrthoAgrees,     *)
(* MonoAgrees violated with Kernels = "pinned", configurations             *)
(* Misori_pinned_tet/ort/mon.cfg; replayed on the real kernels by          *)
(* harness/props/x01.py):                                                  *)
(*   tetragonal   misori_tetragonal(I, I) = 1 : the branch compares m2     *)
(*                with m3 instead of m1 with m2                            *)
(*   monoclinic   misori_monoclinic(I, 2y) = -1 : b -> -b alone is the     *)
(*                mirror, not the two-fold                                 *)
(*   orthorhombic misori_orthorhombic(I, 180 deg about [111]) = 1, the     *)
(*                best proper trace is 1/3 (109.47 deg, not 90 deg)        *)
(*                                                                         *)
(* Bounds: u1 in rational rotations |q|^-2 R(q), q in -QMax1..QMax1, and   *)
(* Rz(a).Rx(b), a, b in EAng1 (right / Pythagorean angles); u2 likewise    *)
(* with QMax2, EAng2.  Denominators <= 625, D <= 390625, every intermediate *)
(* < 2^31 (largest: FundZone 1914 D, FrameInvariant 3 . 9375^2).           *)
(*                                                                         *)
(* Configurations                                                          *)
(*   Misori_q.cfg       proper, 49 x 49 pairs, all invariants   (quick)    *)
(*   Misori_t.cfg       proper, ~60 x ~360 pairs, all invariants (thorough)*)
(*   Misori_pinned.cfg  pinned, 41 x 42 pairs: every law of the scan,      *)
(*                      CubicAgrees, PinnedExplained; both tetragonal      *)
(*                      branches taken                                     *)
(*   Misori_pinned_tet / _ort / _mon.cfg   pinned, u1 = identity:          *)
(*                      TetraAgrees / OrthoAgrees / MonoAgrees VIOLATED    *)
(*   Misori_one.cfg     one pair (used by --replay for the group lists)    *)
(***************************************************************************)
EXTENDS ExactLA, Json

CONSTANTS QMax1, EAng1,    \* first orientation
          QMax2, EAng2,    \* second orientation
          Kernels          \* "pinned" | "proper"

VARIABLES pc, u1, u2, r, gi, i, best, res, kres
vars == << pc, u1, u2, r, gi, i, best, res, kres >>

\* angle sets for the configurations (a .cfg file cannot spell a tuple)
EA_none == {}
EA_id   == { <<1,0,1>> }                      \* Rz(0).Rx(0): the identity only
EA_one  == { <<4,3,5>> }
EA_two  == { <<4,3,5>>, <<12,5,13>> }
EA_q    == { <<4,3,5>>, <<3,-4,5>>, <<12,5,13>> }
EA_t    == { <<4,3,5>>, <<3,-4,5>>, <<12,5,13>>, <<0,1,1>>, <<-7,24,25>> }
EA_all  == Ang

ASSUME QMax1 \in 0..3 /\ QMax2 \in 0..3 /\ EAng1 \subseteq Ang /\ EAng2 \subseteq Ang
       /\ Kernels \in {"pinned", "proper"}

Mul(A, B) == M2T(MM(A, B))
T(A) == M2T(Transpose(A))
MaxOver(S) == CHOOSE m \in S : \A t \in S : t <= m
Max4(a, b, c, d) == Max2(Max2(a, b), Max2(c, d))

\* ---- the proper point groups ------------------------------------------------------------
\* Written out (TLC re-evaluates a definition on every use; the lists are the scan order).
\* Row i of a matrix is the image of basis vector i; the groups are closed under transposition,
\* so the reading of the rows does not matter here.
Seq432 == <<                                                     \* cubic
  << <<1,0,0>>, <<0,1,0>>, <<0,0,1>> >>,
  << <<1,0,0>>, <<0,-1,0>>, <<0,0,-1>> >>,
  << <<-1,0,0>>, <<0,1,0>>, <<0,0,-1>> >>,
  << <<-1,0,0>>, <<0,-1,0>>, <<0,0,1>> >>,
  << <<1,0,0>>, <<0,0,1>>, <<0,-1,0>> >>,
  << <<1,0,0>>, <<0,0,-1>>, <<0,1,0>> >>,
  << <<-1,0,0>>, <<0,0,1>>, <<0,1,0>> >>,
  << <<-1,0,0>>, <<0,0,-1>>, <<0,-1,0>> >>,
  << <<0,1,0>>, <<1,0,0>>, <<0,0,-1>> >>,
  << <<0,1,0>>, <<-1,0,0>>, <<0,0,1>> >>,
  << <<0,-1,0>>, <<1,0,0>>, <<0,0,1>> >>,
  << <<0,-1,0>>, <<-1,0,0>>, <<0,0,-1>> >>,
  << <<0,1,0>>, <<0,0,1>>, <<1,0,0>> >>,
  << <<0,1,0>>, <<0,0,-1>>, <<-1,0,0>> >>,
  << <<0,-1,0>>, <<0,0,1>>, <<-1,0,0>> >>,
  << <<0,-1,0>>, <<0,0,-1>>, <<1,0,0>> >>,
  << <<0,0,1>>, <<1,0,0>>, <<0,1,0>> >>,
  << <<0,0,1>>, <<-1,0,0>>, <<0,-1,0>> >>,
  << <<0,0,-1>>, <<1,0,0>>, <<0,-1,0>> >>,
  << <<0,0,-1>>, <<-1,0,0>>, <<0,1,0>> >>,
  << <<0,0,1>>, <<0,1,0>>, <<-1,0,0>> >>,
  << <<0,0,1>>, <<0,-1,0>>, <<1,0,0>> >>,
  << <<0,0,-1>>, <<0,1,0>>, <<1,0,0>> >>,
  << <<0,0,-1>>, <<0,-1,0>>, <<-1,0,0>> >>
>>
Seq422 == <<                                                     \* tetragonal, c unique
  << <<1,0,0>>, <<0,1,0>>, <<0,0,1>> >>,
  << <<1,0,0>>, <<0,-1,0>>, <<0,0,-1>> >>,
  << <<-1,0,0>>, <<0,1,0>>, <<0,0,-1>> >>,
  << <<-1,0,0>>, <<0,-1,0>>, <<0,0,1>> >>,
  << <<0,1,0>>, <<1,0,0>>, <<0,0,-1>> >>,
  << <<0,1,0>>, <<-1,0,0>>, <<0,0,1>> >>,
  << <<0,-1,0>>, <<1,0,0>>, <<0,0,1>> >>,
  << <<0,-1,0>>, <<-1,0,0>>, <<0,0,-1>> >>
>>
Seq222 == <<                                                     \* orthorhombic
  << <<1,0,0>>, <<0,1,0>>, <<0,0,1>> >>,
  << <<1,0,0>>, <<0,-1,0>>, <<0,0,-1>> >>,
  << <<-1,0,0>>, <<0,1,0>>, <<0,0,-1>> >>,
  << <<-1,0,0>>, <<0,-1,0>>, <<0,0,1>> >>
>>
Seq2b == <<                                                      \* monoclinic, b unique
  << <<1,0,0>>, <<0,1,0>>, <<0,0,1>> >>,
  << <<-1,0,0>>, <<0,1,0>>, <<0,0,-1>> >>
>>
Seq1 == << I3 >>                                                 \* triclinic

SeqToSet(q) == { q[k] : k \in 1..Len(q) }
G432 == SeqToSet(Seq432)
G422 == SeqToSet(Seq422)
G222 == SeqToSet(Seq222)
G2b  == SeqToSet(Seq2b)
G1   == SeqToSet(Seq1)

GroupNames == << "cubic", "tetragonal", "orthorhombic", "monoclinic", "triclinic" >>
NG == 5
GroupSeq(k) == CASE k = 1 -> Seq432 [] k = 2 -> Seq422 [] k = 3 -> Seq222 [] k = 4 -> Seq2b [] k = 5 -> Seq1
GroupSet(k) == SeqToSet(GroupSeq(k))

\* the lists are what they are meant to be: independent characterisations
PSP == { M2T(M) : M \in ProperSignedPerms }                      \* ExactLA: det +1 signed permutations
IsGroup(G) == /\ I3 \in G
              /\ \A X, Y \in G : Mul(X, Y) \in G
              /\ \A X \in G : T(X) \in G /\ Mul(X, T(X)) = I3 /\ Det(X) = 1

RECURSIVE Closure(_)
Closure(S) == LET S2 == S \cup { Mul(X, Y) : X, Y \in S } IN IF S2 = S THEN S ELSE Closure(S2)
\* m_from_string of sym_u.py: the operator matrix is the transpose of the coefficient table
\* one reads off the string (specs/SymGroup.tla, MFromString)
Gen(tab) == T(tab)
GenZXY  == Gen(<< <<0,0,1>>,  <<1,0,0>>,  <<0,1,0>> >>)          \* "z,x,y"
Gen4z   == Gen(<< <<0,-1,0>>, <<1,0,0>>,  <<0,0,1>> >>)          \* "-y,x,z"
Gen2y   == Gen(<< <<-1,0,0>>, <<0,1,0>>,  <<0,0,-1>> >>)         \* "-x,y,-z"
Gen2z   == Gen(<< <<-1,0,0>>, <<0,-1,0>>, <<0,0,1>> >>)          \* "-x,-y,z"

ASSUME \A k \in 1..NG : Len(GroupSeq(k)) = Cardinality(GroupSet(k)) /\ GroupSeq(k)[1] = I3
ASSUME Len(Seq432) = 24 /\ Len(Seq422) = 8 /\ Len(Seq222) = 4 /\ Len(Seq2b) = 2 /\ Len(Seq1) = 1
ASSUME \A k \in 1..NG : IsGroup(GroupSet(k))
ASSUME G1 \subseteq G2b /\ G2b \subseteq G222 /\ G222 \subseteq G422 /\ G422 \subseteq G432
ASSUME /\ G432 = PSP
       /\ G422 = { M \in PSP : M[3][3] # 0 }                                   \* c -> +-c
       /\ G222 = { M \in PSP : M[1][1] # 0 /\ M[2][2] # 0 /\ M[3][3] # 0 }     \* diagonal
       /\ G2b  = { I3, Diag(-1, 1, -1) }                                       \* 1 and 2y
ASSUME /\ Closure({I3, GenZXY, Gen4z}) = G432        \* sym_u.cubic()
       /\ Closure({I3, Gen4z, Gen2y}) = G422         \* sym_u.tetragonal()
       /\ Closure({I3, Gen2z, Gen2y}) = G222         \* sym_u.orthorhombic()
       /\ Closure({I3, Gen2y}) = G2b                 \* sym_u.monoclinic_b()

\* ---- exact orientations: scaled matrices <<M, n>>, U = M / n ----------------------------
Quats(m) == { q \in [1..4 -> -m..m] :
                /\ \E k \in 1..4 : q[k] > 0 /\ \A j \in 1..(k-1) : q[j] = 0
                /\ GCD(GCD(Abs(q[1]), Abs(q[2])), GCD(Abs(q[3]), Abs(q[4]))) = 1 }
QRot(q) == LET w == q[1] x == q[2] y == q[3] z == q[4] IN
  << << w*w + x*x - y*y - z*z, 2*(x*y - w*z),         2*(x*z + w*y) >>,
     << 2*(x*y + w*z),         w*w - x*x + y*y - z*z, 2*(y*z - w*x) >>,
     << 2*(x*z - w*y),         2*(y*z + w*x),         w*w - x*x - y*y + z*z >> >>
QN(q) == q[1]*q[1] + q[2]*q[2] + q[3]*q[3] + q[4]*q[4]

RowGCD(v) == GCD(GCD(Abs(v[1]), Abs(v[2])), Abs(v[3]))
Reduce(M, n) == LET g == GCD(GCD(RowGCD(M[1]), RowGCD(M[2])), GCD(RowGCD(M[3]), n)) IN
  << << << M[1][1] \div g, M[1][2] \div g, M[1][3] \div g >>,
        << M[2][1] \div g, M[2][2] \div g, M[2][3] \div g >>,
        << M[3][1] \div g, M[3][2] \div g, M[3][3] \div g >> >>, n \div g >>

QOris(m) == { Reduce(QRot(q), QN(q)) : q \in Quats(m) }
EOris(A) == { Reduce(Mul(Rz(a), Rx(b)), a[3] * b[3]) : a \in A, b \in A }
Oris1 == QOris(QMax1) \cup EOris(EAng1)
Oris2 == QOris(QMax2) \cup EOris(EAng2)

IsRot(o) == o[2] > 0 /\ M2T(MM(o[1], Transpose(o[1]))) = M2T(MScale(o[2]*o[2], I3))
            /\ Det(o[1]) = o[2]*o[2]*o[2]
ASSUME \A o \in Oris1 \cup Oris2 : IsRot(o)
ASSUME Reduce(QRot(<<1,1,1,1>>), 4) = << << <<0,0,1>>, <<1,0,0>>, <<0,1,0>> >>, 1 >>
ASSUME Reduce(QRot(<<2,0,0,1>>), 5) = << Rz(<<3,4,5>>), 5 >>

\* u . g (the symmetry acts on the crystal side) and Q . u (a rotation of the sample frame)
RMul(o, g) == << Mul(o[1], g), o[2] >>
LMul(Q, o) == << Mul(Q[1], o[1]), Q[2] * o[2] >>
SameOri(A, B) == M2T(MScale(B[2], A[1])) = M2T(MScale(A[2], B[1]))

\* ---- the definition ----------------------------------------------------------------------
RMat(A, B) == Mul(Transpose(A[1]), B[1])                      \* numerators of A^T B over A[2]*B[2]
TraceOp(g, R) == Dot(g[1], R[1]) + Dot(g[2], R[2]) + Dot(g[3], R[3])    \* trace(g^T . R)
BestOfR(R, G) == MaxOver({ TraceOp(g, R) : g \in G })
BestOf(A, B, G) == BestOfR(RMat(A, B), G)
\* the other reading of the docstring, u1 . u2^T: same trace, different maximum over G
WrongOf(A, B, G) == BestOfR(Mul(A[1], Transpose(B[1])), G)

\* ---- the kernels ---------------------------------------------------------------------------
\* (C indices 0..2 are 1..3 here)
CubT(R) == << Abs(R[1][1]) + Abs(R[2][2]) + Abs(R[3][3]),
              Abs(R[1][1]) + Abs(R[2][3]) + Abs(R[3][2]),
              Abs(R[1][2]) + Abs(R[2][1]) + Abs(R[3][3]),
              Abs(R[1][2]) + Abs(R[3][1]) + Abs(R[2][3]),
              Abs(R[1][3]) + Abs(R[2][1]) + Abs(R[3][2]),
              Abs(R[1][3]) + Abs(R[3][1]) + Abs(R[2][2]) >>
CubicVal(R) == LET t == CubT(R)
                   m1 == Max2(t[1], t[2])  m2 == Max2(t[3], t[4])  m3 == Max2(t[5], t[6])
               IN Max2(m1, Max2(m2, m3))

TetM1(R) == Abs(R[1][1]) + Abs(R[2][2])
TetM2(R) == Abs(R[2][1]) + Abs(R[1][2])
TetM3(R) == Abs(R[3][3])
TetBranchA(R) == TetM2(R) > TetM3(R)                           \* if (m2 > m3)
PinnedTetra(R) == IF TetBranchA(R) THEN TetM1(R) + TetM3(R) ELSE TetM2(R) + TetM3(R)
PinnedOrtho(R) == Abs(R[1][1]) + Abs(R[2][2]) + Abs(R[3][3])
PinnedMono(R)  == R[1][1] + Abs(R[2][2]) + R[3][3]

ProperTetra(R) == Max4( R[3][3] + Abs(R[1][1] + R[2][2]),  R[3][3] + Abs(R[1][2] - R[2][1]),
                       -R[3][3] + Abs(R[1][1] - R[2][2]), -R[3][3] + Abs(R[1][2] + R[2][1]))
ProperOrtho(R) == Max4( R[1][1] + R[2][2] + R[3][3],  R[1][1] - R[2][2] - R[3][3],
                       -R[1][1] + R[2][2] - R[3][3], -R[1][1] - R[2][2] + R[3][3])
ProperMono(R)  == R[2][2] + Abs(R[1][1] + R[3][3])

Pinned == Kernels = "pinned"

\* ---- behaviour -------------------------------------------------------------------------------
D == u1[2] * u2[2]
Sentinel(d) == -(3 * d) - 1            \* below the trace of every product of orthogonal matrices

Init == /\ pc = "pick" /\ u1 = << >> /\ u2 = << >> /\ r = << >>
        /\ gi = 0 /\ i = 0 /\ best = 0 /\ res = << >> /\ kres = << >>

Pick(a, b) ==
  /\ pc = "pick"
  /\ u1' = a /\ u2' = b
  /\ r' = Mul(Transpose(a[1]), b[1])             \* r[i][j] += u1[k][i] * u2[k][j]
  /\ pc' = "scan" /\ gi' = 1 /\ i' = 1 /\ best' = Sentinel(a[2] * b[2])
  /\ UNCHANGED << res, kres >>

Advance(b) ==
  IF i < Len(GroupSeq(gi))
  THEN i' = i + 1 /\ best' = b /\ UNCHANGED << gi, res, pc >>
  ELSE /\ res' = Append(res, b)
       /\ IF gi < NG
          THEN gi' = gi + 1 /\ i' = 1 /\ best' = Sentinel(D) /\ pc' = pc
          ELSE gi' = gi /\ i' = i /\ best' = b /\ pc' = "kernel"

ScanKeep ==
  /\ pc = "scan"
  /\ LET t == TraceOp(GroupSeq(gi)[i], r) IN t > best /\ Advance(t)
  /\ UNCHANGED << u1, u2, r, kres >>

ScanSkip ==
  /\ pc = "scan"
  /\ LET t == TraceOp(GroupSeq(gi)[i], r) IN ~(t > best) /\ Advance(best)
  /\ UNCHANGED << u1, u2, r, kres >>

Call(n, name, branch, val) ==
  /\ pc = "kernel" /\ Len(kres) = n
  /\ kres' = Append(kres, << name, branch, val >>)
  /\ pc' = IF n = 3 THEN "done" ELSE pc
  /\ UNCHANGED << u1, u2, r, gi, i, best, res >>

KCubic  == Call(0, "cubic", "-", CubicVal(r))
KTetraA == pc = "kernel" /\ Pinned /\ TetBranchA(r)  /\ Call(1, "tetragonal", "A", TetM1(r) + TetM3(r))
KTetraB == pc = "kernel" /\ Pinned /\ ~TetBranchA(r) /\ Call(1, "tetragonal", "B", TetM2(r) + TetM3(r))
KTetra  == pc = "kernel" /\ ~Pinned /\ Call(1, "tetragonal", "-", ProperTetra(r))
KOrtho  == Call(2, "orthorhombic", "-", IF Pinned THEN PinnedOrtho(r) ELSE ProperOrtho(r))
KMono   == Call(3, "monoclinic", "-", IF Pinned THEN PinnedMono(r) ELSE ProperMono(r))

Choose == \E a \in Oris1, b \in Oris2 : Pick(a, b)

Next == Choose \/ ScanKeep \/ ScanSkip \/ KCubic \/ KTetraA \/ KTetraB \/ KTetra \/ KOrtho \/ KMono

Spec == Init /\ [][Next]_vars

\* ======================================================================================
\* invariants
\* ======================================================================================
Picked == pc # "pick"
AtDone == pc = "done"

TypeOK ==
  /\ pc \in {"pick", "scan", "kernel", "done"}
  /\ Picked => /\ IsRot(u1) /\ IsRot(u2)
               /\ Len(res) <= NG /\ Len(kres) <= 4
               /\ \A k \in 1..Len(res) : res[k] \in Int
  /\ pc = "scan" => gi \in 1..NG /\ i \in 1..Len(GroupSeq(gi)) /\ Len(res) = gi - 1
  /\ pc \in {"kernel", "done"} => Len(res) = NG
  /\ AtDone => Len(kres) = 4

ROk == Picked => r = RMat(u1, u2)

\* loop invariant of the scan: best is the maximum over the elements tried so far
ScanLoopInv ==
  pc = "scan" => best = MaxOver({ Sentinel(D) } \cup { TraceOp(GroupSeq(gi)[k], r) : k \in 1..(i-1) })

\* (TLC re-evaluates a definition on every use: the group set is LET-bound once per k)
ScanIsMax == Picked => \A k \in 1..Len(res) : res[k] = BestOf(u1, u2, GroupSet(k))

Symmetric == AtDone => \A k \in 1..NG : BestOf(u2, u1, GroupSet(k)) = res[k]

GroupInvariant ==
  AtDone => \A k \in 1..NG : LET G == GroupSet(k) IN \A g \in G :
              /\ BestOf(RMul(u1, g), u2, G) = res[k]
              /\ BestOf(u1, RMul(u2, g), G) = res[k]

Frames == { << Rz(<<3,4,5>>), 5 >>, << Mul(Rx(<<0,1,1>>), Ry(<<4,3,5>>)), 5 >>,
            << QRot(<<1,1,1,0>>), 3 >> }
ASSUME \A Q \in Frames : IsRot(Q)
FrameInvariant ==
  AtDone => \A Q \in Frames : LET R == RMat(LMul(Q, u1), LMul(Q, u2)) IN
              \A k \in 1..NG : BestOfR(R, GroupSet(k)) = Q[2] * Q[2] * res[k]

InOrbit(k) == \E g \in GroupSet(k) : SameOri(RMul(u1, g), u2)
ZeroIffOrbit == AtDone => \A k \in 1..NG : (res[k] = 3 * D) <=> InOrbit(k)

Chain == AtDone => /\ \A k \in 1..(NG-1) : res[k] >= res[k+1]
                   /\ res[NG] = Trace(r)

\* the largest disorientation angles: 62.80 (432), 98.42 (422), 120 (222), 180 degrees
FundZone == AtDone => /\ \A k \in 1..NG : res[k] >= -D /\ res[k] <= 3 * D
                      /\ 1000 * res[1] >= 1914 * D
                      /\ 1000 * res[2] >= 707 * D
                      /\ res[3] >= 0

KVal(n) == kres[n][3]
CubicAgrees == AtDone => KVal(1) = res[1]
TetraAgrees == AtDone => KVal(2) = res[2]
OrthoAgrees == AtDone => KVal(3) = res[3]
MonoAgrees  == AtDone => KVal(4) = res[4]

\* what the pinned formulas are: |trace| maximised (the improper elements -g of the Laue
\* class are let in), the mirror my = -2y for monoclinic
AbsBest(G) == MaxOver({ Abs(TraceOp(g, r)) : g \in G })
PinnedExplained ==
  AtDone => /\ CubicVal(r) = AbsBest(G432)
            /\ PinnedOrtho(r) = AbsBest(G222)
            /\ PinnedMono(r) = Max2(TraceOp(I3, r), -TraceOp(Diag(-1, 1, -1), r))
            /\ PinnedOrtho(r) >= res[3]
            /\ (PinnedOrtho(r) > res[3] => res[3] < D)      \* only beyond 90 degrees

\* ---- emission for the harness ------------------------------------------------------------
EmitGroups ==
  pc = "pick" => PrintT("@@" \o ToJson(
      [ kind |-> "groups", names |-> GroupNames, groups |-> [k \in 1..NG |-> GroupSeq(k)] ]))

EmitPair ==
  AtDone => PrintT("@@" \o ToJson(
      [ kind |-> "pair", m1 |-> u1[1], n1 |-> u1[2], m2 |-> u2[1], n2 |-> u2[2], den |-> D,
        best |-> res,
        pinned |-> << CubicVal(r), PinnedTetra(r), PinnedOrtho(r), PinnedMono(r) >>,
        proper |-> << CubicVal(r), ProperTetra(r), ProperOrtho(r), ProperMono(r) >>,
        kernel |-> [n \in 1..4 |-> kres[n][3]],
        branch |-> IF TetBranchA(r) THEN "A" ELSE "B",
        wrong |-> [k \in 1..NG |-> WrongOf(u1, u2, GroupSet(k))],
        inorbit |-> [k \in 1..NG |-> InOrbit(k)] ]))

Emit == EmitGroups /\ EmitPair
=============================================================================

SPECIFICATION SpecFwd
CONSTANTS
  SWITCHSETS <- SW_all
  FLIPS = {1,2,3,4,5,6,7,8}
  SIGNS <- SIGNS_all
  SIZES <- SIZES_all
  PEAKS = {1,2,3,4}
  OMEGAS = {1,2,3,4}
  INVANG <- NONE
  RAWANG <- NONE
  QUADS = {}
  SCALES <- NONE
  AXQUADS = {}
INVARIANT TypeOK
INVARIANT StackOrtho
INVARIANT NormLaw
INVARIANT OmegaLaw
INVARIANT OriginLaw
INVARIANT Roundtrip
INVARIANT EwaldBound
INVARIANT BraggLaw
INVARIANT AxisLaw
INVARIANT UnitLaw
INVARIANT Emit
CHECK_DEADLOCK FALSE

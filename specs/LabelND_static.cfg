\* two threads, static ownership of prange indices: every owner function x every edge list (order matters here)
\* over <= 3 nodes, <= 3 positions; a thread runs its indices in increasing k
SPECIFICATION Spec
CONSTANTS
  NSet = {1,2,3}
  ESet = {0,1,2,3}
  Threads = {t1, t2}
  Static = TRUE
  OrdSet = {0}
  History = TRUE
  DoEmit = FALSE
  Bug = "none"
  Hist = 0
  DsHist = 0
  DsOps = {}
  NMon = 0
  Neg = FALSE
  Shape = "any"
SYMMETRY Sym
INVARIANT TypeOK
INVARIANT InComp
INVARIANT MinFixed
INVARIANT LocalsOK
INVARIANT ZeroAgree
INVARIANT Fixpoint
INVARIANT FixReadsRoot
INVARIANT CleanOK
INVARIANT MergeOK
INVARIANT SweepLegal
INVARIANT SeqExact
INVARIANT EmitInv
CHECK_DEADLOCK FALSE

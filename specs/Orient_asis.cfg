\* the block ends as written at the pinned commit (len(c2as) - 1): Complete is expected to FAIL
\* (design-level counterexample for finding F4; triclinic / monoclinic forms)
SPECIFICATION Spec
CONSTANTS
  MODE = "rule"
  Cells <- Cells_tri
  NR = 4
  NRC = 8
  PairSel = "upper"
  TieRules = {"fwd", "rev"}
  BugEnds = {TRUE}
  CRanges = {0}
  Rots <- Rots_q
  Scales <- Scales_q
INVARIANT TypeOK
INVARIANT CompleteAsIs
CHECK_DEADLOCK FALSE

\* X07: model of a repaired tree: all laws, all operations
SPECIFICATION Spec
CONSTANTS
  EnvOmp = {0, 2}
  Cores = {2}
  Slurm = {0}
  PutVals = {1}
  SetVals = {1, 3}
  NbVals = {1}
  Starts = {"fork", "spawn"}
  Hows = {"default", "fork", "spawn"}
  POps = {"putenv", "setstart", "import", "set", "kernel", "checkmp", "launch", "nbget", "nbset", "nbkernel", "user", "thread", "stopset", "pbp"}
  COps = {"import", "set", "kernel", "checkmp", "nbget", "nbset", "stopset", "nbkernel", "pbp"}
  NW = 2
  MaxDepth = 6
  BUG_INHERIT = FALSE
  BUG_NBRESET = FALSE
  EmitMode = 0
INVARIANT TypeOK
INVARIANT RegPositive
INVARIANT SafeNeverStuck
INVARIANT StopBound
INVARIANT LateNoWork
PROPERTY SetGet
PROPERTY WarnRule
PROPERTY PatchSafe
PROPERTY OneThreadNeverStuck
PROPERTY Restore
PROPERTY StopSticky
PROPERTY DoneIsFinal
PROPERTY RaiseStops
PROPERTY FlagPerProcess
PROPERTY PbpOneThread
PROPERTY ChildThreadsOne
PROPERTY DefaultNoHang
PROPERTY RegFrame
VIEW View
CHECK_DEADLOCK FALSE

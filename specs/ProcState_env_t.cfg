\* X07 thorough: environment, all values
SPECIFICATION Spec
CONSTANTS
  EnvOmp = {0, 3}
  Cores = {1, 2, 4}
  Slurm = {0, 8}
  PutVals = {1}
  SetVals <- SetValsNeg
  NbVals = {}
  Starts = {}
  Hows = {"default", "forkserver"}
  POps = {"putenv", "import", "set", "launch"}
  COps = {"import"}
  NW = 0
  MaxDepth = 3
  BUG_INHERIT = TRUE
  BUG_NBRESET = TRUE
  EmitMode = 1
INVARIANT TypeOK
INVARIANT RegPositive
INVARIANT SafeNeverStuck
INVARIANT StopBound
INVARIANT LateNoWork
PROPERTY SetGet
PROPERTY WarnRule
PROPERTY PatchSafe
PROPERTY OneThreadNeverStuck
PROPERTY Restore
PROPERTY StopSticky
PROPERTY DoneIsFinal
PROPERTY RaiseStops
PROPERTY FlagPerProcess
PROPERTY PbpOneThread
ACTION_CONSTRAINT EmitTransition
VIEW View
CHECK_DEADLOCK FALSE

SPECIFICATION Spec
CONSTANTS
  Thorough = FALSE
  EmitOn = TRUE
INVARIANT TypeOK
INVARIANT WellFormedInv
INVARIANT PartitionInv
INVARIANT ThreadInv
INVARIANT OptionInv
INVARIANT ValueInv
INVARIANT WrapperInv
INVARIANT Emit
INVARIANT EmitInterface
CHECK_DEADLOCK FALSE

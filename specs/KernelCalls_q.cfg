SPECIFICATION Spec
CONSTANTS
  Thorough = FALSE
  EmitOn = TRUE
INVARIANT TypeOK
INVARIANT WellFormedInv
INVARIANT Emit
INVARIANT EmitInterface
CHECK_DEADLOCK FALSE

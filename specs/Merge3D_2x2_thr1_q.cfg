SPECIFICATION Spec
CONSTANTS
  NS = 2
  NF = 2
  MAXFR = 2
  VALS = {0, 1, 2}
  THR = 1
  PATTERN = FALSE
  OM0 = 5
  OMSTEP <- Neg2
  OMSEQ <- NoSeq
  VSHIFT = 0
  MAXFIX = FALSE
  NANV <- Neg1
  EMITSTEPS = TRUE
INVARIANT NoBad
INVARIANT ShapeOK
INVARIANT LinkOK
INVARIANT NoSame1
INVARIANT ScanLive
INVARIANT Conserved
INVARIANT KernelPost
INVARIANT PrefixOK
INVARIANT DoneOK
INVARIANT EmitDone
INVARIANT EmitStep
CHECK_DEADLOCK FALSE

------------------------------ MODULE LatticeRed ------------------------------
(***************************************************************************)
(* Lattice basis reduction and indexing of ImageD11/lattice_reduction.py   *)
(* in exact integer arithmetic.                                            *)
(*                                                                         *)
(* code modelled (ImageD11/lattice_reduction.py):                          *)
(*   fparl 35-40, mod 42-57          -> RoundSet / Cand (one vector-pair   *)
(*                                      step  v_k := v_k - round(v_k.v_i / *)
(*                                      v_i.v_i) v_i ; numpy round = half  *)
(*                                      to even)                           *)
(*   rsweep 92-103                   -> StepEff / StepNop over PAIRS,      *)
(*                                      SweepEnd                           *)
(*   reduce 106-123                  -> TestConv / TestAgain (the while    *)
(*                                      loop, `i > 10` -> "Algorithmic     *)
(*                                      flaw"), SignFlip / SignKeep        *)
(*                                      (sortvec_xyz([v,-v])[0] = the      *)
(*                                      lexicographically larger of v,-v)  *)
(*   lattice.__init__ 131-217        -> HandSwap / HandKeep (rows 2,3 are  *)
(*                                      exchanged when det < 0); the       *)
(*                                      second reduce + assert allclose    *)
(*                                      ("Bad reduction") is invariant     *)
(*                                      Stable                             *)
(*   nearest 237-242, remainders 244-247, score 270-285                    *)
(*                                   -> NearestRow / NearestCol / ScoreRow *)
(*   withvec 249-268                 -> Withvec (remainder of x, argmax,   *)
(*                                      replace, lattice() again = phase 2 *)
(*                                      of the same machine)               *)
(*   iter3d 298-312, find_lattice 321-400 (triple enumeration; per triple: *)
(*   too short -> continue, BadVectors -> pass, score, fraction > 0.9 ->   *)
(*   return)                         -> Iter3d / FLStatus / FLRun          *)
(*                                                                         *)
(* A case: cell (reduced integer basis of a usual cell, rows) and a        *)
(* unimodular scrambling U; input basis v0 = U . CellB(cell).  Vectors     *)
(* are integer rows, so every quantity of the real code is an integer-     *)
(* valued binary64 below 2^53 and the code's steps are deterministic       *)
(* (ties of round() included).  In phase 2 (after Withvec) all vectors     *)
(* are stored DOUBLED (x = (h + c/2).B has half-integer coordinates).      *)
(*                                                                         *)
(* variables: cell, U, cent (centring numerators c, <<0,0,0>> = no         *)
(*   withvec), v0 (input basis of the current phase), v (current basis),   *)
(*   vl (basis at the start of the sweep), s (step in sweep / vector in    *)
(*   the sign loop), it (`i` of reduce), inloop, pc, phase, nsw / nties /  *)
(*   neff (sweeps, ties met, effective steps), sw1 (basis after the first  *)
(*   sweep), red (result of reduce), out (stored right-handed basis),      *)
(*   res1 (phase-1 result kept for phase 2), wv (withvec bookkeeping).     *)
(*                                                                         *)
(* switches (constants):                                                   *)
(*   TIES   "even": exact arithmetic (integer inputs).  "any": a tie       *)
(*          k+1/2 may round either way = abstraction of binary64 noise on  *)
(*          a lattice in general orientation.                              *)
(*   MODFIX FALSE: mod as written.  TRUE: a step is only taken when it     *)
(*          strictly shortens the vector (proposed repair).                *)
(*   COLFIX FALSE: nearest() for 'col' vectors as written (c2r . x ,       *)
(*          back with r2c . n).  TRUE: (c2r^T . x , r2c^T . n).            *)
(*   WVFIX  FALSE: withvec replaces the vector chosen by argmax|r| over    *)
(*          the CARTESIAN components of the remainder (as written).        *)
(*          TRUE: argmax over its fractional indices (as documented; any   *)
(*          of the equal maxima, the last bit of inv() decides).           *)
(*   NTRYFIX FALSE: find_lattice(vecs, n_try=None) takes n_try = len(vecs) *)
(*          (as written): 3 for 'col' vectors (shape 3 x N), so only the   *)
(*          triple (0,1,2) is tried.  TRUE: n_try = vecs.nvectors().       *)
(*                                                                         *)
(* invariants / properties (all stated without reference to the steps):    *)
(*   SameLattice  v = T.v0 with T integer, det T = +-1, in EVERY state     *)
(*   RightHanded  det(out) > 0                                             *)
(*   Reduced      no vector of red/out gets shorter by adding a multiple   *)
(*                n in -3..3 of another one; red is sign-canonical         *)
(*   Stable       reduce(red) = red (the "Bad reduction" assert)           *)
(*   NoFlaw       the `i > 10` exception is not reached                    *)
(*   Variant      (action property) every effective step strictly lowers   *)
(*                the sum of squared lengths; every other step keeps it    *)
(*                -> also: the "problem in mod" exception is unreachable   *)
(*   IndexIntegral / IndexRow / IndexCol / ScoreLaw : indices of vectors   *)
(*                m.v0 + d.out/16 are exactly m.T^-1, remainder d.out/16,  *)
(*                score = #{ |d|^2/256 < tol^2 }                           *)
(*   WithvecOK    withvec does not end in BadVectors and the new lattice   *)
(*                is exactly  L(B) + Z x   (index 2)                       *)
(*   FindLatticeOK  what find_lattice returns generates the lattice of all *)
(*                the vectors given (collinear / coplanar / sublattice /   *)
(*                too short / too small triples are passed over)           *)
(*   FindLatticeAnyDir  find_lattice with the default n_try does the same  *)
(*                for 'col' vectors as for 'row' vectors                   *)
(*   MinkAlways   NOT promised (LatticeRed_mink.cfg shows the counter-     *)
(*                example); Emit carries the flag `mink`.                  *)
(* laws that hold for the code AS WRITTEN (TIES = "even", MODFIX = FALSE): *)
(*   all but IndexCol (needs COLFIX), WithvecOK (needs WVFIX) and          *)
(*   FindLatticeAnyDir (needs NTRYFIX); with TIES = "any" Variant, NoFlaw  *)
(*   and Stable need MODFIX.  With TIES = "even" MODFIX changes nothing    *)
(*   (round half to even never takes a step of equal length): _q and _qf   *)
(*   emit the same records.  Configurations:                               *)
(*   _q / _t / _deep  code as written on exact input, with COLFIX, WVFIX,  *)
(*          NTRYFIX = TRUE (the as-written 'col' / n_try results are       *)
(*          emitted next to the law's)                                     *)
(*          (FindLatticeOK / FindLatticeAnyDir: _q, _qf, _deep only - they *)
(*          do not depend on the size of the scrambling)                   *)
(*   _qf    _q with MODFIX = TRUE        _ties_fixed  TIES = "any", MODFIX *)
(*   _asis_col / _asis_wv / _asis_ntry / _ties / _ties_flaw (VIEW ViewCore)*)
(*          one repair missing: TLC refutes IndexCol / WithvecOK /         *)
(*          FindLatticeAnyDir / Variant / NoFlaw; the harness replays the  *)
(*          counterexample on the real code                                *)
(*   _asis_wv_emit(_t)  the withvec records of the code as written         *)
(*   _mink  observation: MinkAlways refuted                                *)
(* Emit: one record per finished case: kind "red" (reduction, probes with  *)
(*   the as-written 'col' results nearcol_asis / coltie, scores <<tol, law,*)
(*   as-written col>>, iter3d, three find_lattice runs fl and their        *)
(*   as-written 'col' default flcol3) and kind "wv" (one per withvec       *)
(*   outcome: remainder sign e, replaced vector w, BadVectors or basis).   *)
(* bounds: |entries| < 100, MAXIT = 10, <= 2428 scramblings per cell.      *)
(***************************************************************************)
EXTENDS ExactLA, Json

CONSTANTS CELLS,     \* set of cell names (see CellB)
          SCR,       \* set of unimodular integer matrices (scramblings)
          SCRWV,     \* scramblings after which withvec is exercised
          CENTS,     \* set of centring numerators c in {0,1}^3 \ {0}:  x = (HWV + c/2) . B
          PROBES,    \* sequence of << m, d >> : vector  m.v0 + d.out/16
          TOLS,      \* sequence of score tolerances in tenths
          TIES, MODFIX, COLFIX, WVFIX, NTRYFIX,
          MAXIT      \* 10 in the code

\* ---- the usual cells: reduced integer bases (rows) ---------------------------------------
CellB(c) == CASE c = "cubicP" -> << <<1,0,0>>, <<0,1,0>>, <<0,0,1>> >>
              [] c = "fcc"    -> << <<0,1,1>>, <<1,0,1>>, <<1,1,0>> >>
              [] c = "bcc"    -> << <<-1,1,1>>, <<1,-1,1>>, <<1,1,-1>> >>
              [] c = "hex"    -> << <<1,-1,0>>, <<0,1,-1>>, <<1,1,1>> >>       \* a = b, 120 degrees, c normal
              [] c = "tet"    -> << <<2,0,0>>, <<0,2,0>>, <<0,0,3>> >>
              [] c = "ortho"  -> << <<2,0,0>>, <<0,3,0>>, <<0,0,5>> >>
              [] c = "mono"   -> << <<3,0,0>>, <<0,4,0>>, <<-1,0,5>> >>
              [] c = "tric"   -> << <<4,0,0>>, <<1,5,0>>, <<-1,2,6>> >>
              [] c = "rhoA"   -> << <<2,1,0>>, <<0,2,1>>, <<1,0,2>> >>          \* rhombohedral, alpha < 90
              [] c = "rhoO"   -> << <<2,1,0>>, <<-1,0,2>>, <<0,-2,-1>> >>       \* rhombohedral, alpha > 90
AllCells == {"cubicP", "fcc", "bcc", "hex", "tet", "ortho", "mono", "tric", "rhoA", "rhoO"}
CELLS_q == AllCells
CELLS_t == AllCells
CELLS_tie == {"fcc", "hex", "cubicP"}
CELLS_flaw == {"fcc"}
CELLS_cx == {"fcc", "mono"}

\* ---- unimodular scramblings (cfg files cannot hold tuples: `SCR <- SCR_q`) -----------------
Shear(i, j, k) == [a \in Idx |-> [b \in Idx |-> IF a = i /\ b = j THEN k ELSE I3[a][b]]]
Sh(S) == { M2T(Shear(p[1], p[2], p[3])) : p \in {q \in Idx \X Idx \X S : q[1] # q[2]} } \cup {I3}
PCyc  == << <<0,1,0>>, <<0,0,1>>, <<1,0,0>> >>
PSwap == << <<0,1,0>>, <<1,0,0>>, <<0,0,1>> >>        \* det -1: left-handed input
PNeg  == << <<-1,0,0>>, <<0,-1,0>>, <<0,0,-1>> >>     \* det -1
PRot  == << <<0,-1,0>>, <<1,0,0>>, <<0,0,1>> >>
PMir  == << <<1,0,0>>, <<0,0,-1>>, <<0,-1,0>> >>      \* det -1
Prod2(P, A, B) == M2T(MM(P, MM(A, B)))
SCR_q == { Prod2(P, A, B) : P \in {I3, PSwap, PRot}, A \in Sh({-1,1}), B \in Sh({-1,2}) }
SCR_t == { Prod2(P, A, B) : P \in {I3, PCyc, PSwap, PNeg, PRot, PMir}, A \in Sh({-1,1,2}), B \in Sh({-1,2,3}) }
          \cup { M2T(MM(A, Prod2(I3, B, C))) : A \in Sh({-1,1}), B \in Sh({-1,1}), C \in Sh({-1,1}) }
SCR_deep == { M2T(MM(Prod2(I3, A, B), Prod2(I3, A, B))) : A \in Sh({-3,2}), B \in Sh({-2,3}) }   \* large skews: sweep count
SCRWV_q == { I3, PSwap, Prod2(I3, M2T(Shear(1,2,1)), M2T(Shear(3,1,-1))) }
SCRWV_t == SCRWV_q \cup { PRot, PNeg, Prod2(PCyc, M2T(Shear(2,3,2)), I3) }
SCR_one == { I3 }
CENTS_std == { <<1,0,0>>, <<0,1,0>>, <<0,0,1>>, <<1,1,0>>, <<1,0,1>>, <<0,1,1>>, <<1,1,1>> }
CENTS_none == {}
HWV == <<1,-1,2>>
PROBES_std == << << <<1,0,0>>, <<0,0,0>> >>,  << <<0,1,0>>, <<0,0,0>> >>,   << <<0,0,1>>, <<0,0,0>> >>,
                 << <<1,1,0>>, <<1,0,0>> >>,  << <<2,-1,1>>, <<0,-1,1>> >>, << <<-1,2,3>>, <<1,1,1>> >>,
                 << <<3,0,-2>>, <<-3,0,0>> >>, << <<1,-1,1>>, <<0,7,0>> >>, << <<0,2,-1>>, <<2,0,0>> >>,
                 << <<-2,-3,1>>, <<0,0,0>> >> >>
TOLS_std == <<1, 2>>
ASSUME \A U \in SCR_t \cup SCR_q \cup SCR_deep \cup SCRWV_t : Det(U) \in {1, -1}
ASSUME SCRWV_t \subseteq SCR_t /\ SCRWV_q \subseteq SCR_q

VARIABLES cell, U, cent, v0, v, vl, s, it, inloop, pc, phase, nsw, nties, neff, sw1, red, out, res1, wv
vars == <<cell, U, cent, v0, v, vl, s, it, inloop, pc, phase, nsw, nties, neff, sw1, red, out, res1, wv>>

\* ---- arithmetic of the code ---------------------------------------------------------------
\* numpy.round(p/q), q > 0 : round half to even
FloorHalf(p, q) == (2*p + q) \div (2*q)
IsTie(p, q) == q > 0 /\ ((2*p + q) % (2*q)) = 0
RHE(p, q) == LET fl == FloorHalf(p, q) IN IF IsTie(p, q) /\ fl % 2 # 0 THEN fl - 1 ELSE fl
\* fparl returns 0 when |y|^2 <= 1e-9
RoundSet(p, q) == IF q = 0 THEN {0}
                  ELSE IF TIES = "any" /\ IsTie(p, q) THEN {FloorHalf(p, q) - 1, FloorHalf(p, q)}
                  ELSE {RHE(p, q)}
\* rsweep: (k, i) in the order  vn[k] = mod(vn[k], vn[i])
PAIRS == << <<2,1>>, <<3,1>>, <<3,2>>, <<1,2>>, <<1,3>>, <<2,3>> >>
RowComb(m, A) == MV(Transpose(A), m)                 \* m1 A1 + m2 A2 + m3 A3
LexGT(a, b) == a[1] > b[1] \/ (a[1] = b[1] /\ (a[2] > b[2] \/ (a[2] = b[2] /\ a[3] > b[3])))
Neg(u) == VScale(-1, u)
SumN2(A) == Norm2(A[1]) + Norm2(A[2]) + Norm2(A[3])
Swap23(A) == << A[1], A[3], A[2] >>
ZeroV == <<0,0,0>>

\* ---- relation between two bases ---------------------------------------------------------
Divides(A, B) == LET X == MM(A, Adj(B)) d == Abs(Det(B)) IN d # 0 /\ \A i, j \in Idx : X[i][j] % d = 0
TMat(A, B) == LET X == MM(A, Adj(B)) d == Det(B)             \* A = TMat . B
              IN << << (Sgn(d)*X[1][1]) \div Abs(d), (Sgn(d)*X[1][2]) \div Abs(d), (Sgn(d)*X[1][3]) \div Abs(d) >>,
                    << (Sgn(d)*X[2][1]) \div Abs(d), (Sgn(d)*X[2][2]) \div Abs(d), (Sgn(d)*X[2][3]) \div Abs(d) >>,
                    << (Sgn(d)*X[3][1]) \div Abs(d), (Sgn(d)*X[3][2]) \div Abs(d), (Sgn(d)*X[3][3]) \div Abs(d) >> >>
SameLat(A, B) == Divides(A, B) /\ Abs(Det(TMat(A, B))) = 1
\* numerators of the coordinates of the row vector g in the basis rows A (denominator Det(A))
CoordNum(g, A) == MV(Transpose(Adj(A)), g)

\* ---- the state machine --------------------------------------------------------------------
NoWv == [e |-> ZeroV, w |-> 0, x2 |-> ZeroV, r2 |-> ZeroV]
Init == /\ cell \in CELLS /\ U \in SCR
        /\ cent \in (IF U \in SCRWV THEN CENTS ELSE {}) \cup {ZeroV}
        /\ v0 = M2T(MM(U, CellB(cell))) /\ v = v0 /\ vl = v0
        /\ s = 0 /\ it = 0 /\ inloop = FALSE /\ pc = "sweep" /\ phase = 1
        /\ nsw = 0 /\ nties = 0 /\ neff = 0 /\ sw1 = Z3 /\ red = Z3 /\ out = Z3 /\ res1 = Z3 /\ wv = NoWv

Cand(k, i, n) == VSub(v[k], VScale(n, v[i]))
Moves(k, i, n) == n # 0 /\ (~MODFIX \/ Norm2(Cand(k, i, n)) < Norm2(v[k]))
StepK(eff) ==
   /\ pc = "sweep" /\ s < 6
   /\ LET k == PAIRS[s+1][1]
          i == PAIRS[s+1][2]
          p == Dot(v[k], v[i])
          q == Norm2(v[i])
      IN /\ \E n \in RoundSet(p, q) :
               /\ Moves(k, i, n) = eff
               /\ v' = IF eff THEN [v EXCEPT ![k] = Cand(k, i, n)] ELSE v
         /\ nties' = IF IsTie(p, q) THEN nties + 1 ELSE nties
   /\ neff' = IF eff THEN neff + 1 ELSE neff
   /\ s' = s + 1
   /\ UNCHANGED <<cell, U, cent, v0, vl, it, inloop, pc, phase, nsw, sw1, red, out, res1, wv>>
StepEff == StepK(TRUE)
StepNop == StepK(FALSE)

\* end of rsweep; inside the while loop: i += 1; if i > 10: raise Exception("Algorithmic flaw")
SweepEnd == /\ pc = "sweep" /\ s = 6
            /\ nsw' = nsw + 1
            /\ sw1' = IF nsw = 0 /\ phase = 1 THEN v ELSE sw1
            /\ it' = IF inloop THEN it + 1 ELSE it
            /\ pc' = IF inloop /\ it + 1 > MAXIT THEN "flaw" ELSE "test"
            /\ UNCHANGED <<cell, U, cent, v0, v, vl, s, inloop, phase, nties, neff, red, out, res1, wv>>
\* while not allclose(vn, vl)
TestConv == /\ pc = "test" /\ v = vl
            /\ pc' = "sign" /\ s' = 0
            /\ UNCHANGED <<cell, U, cent, v0, v, vl, it, inloop, phase, nsw, nties, neff, sw1, red, out, res1, wv>>
TestAgain == /\ pc = "test" /\ v # vl
             /\ vl' = v /\ s' = 0 /\ inloop' = TRUE /\ pc' = "sweep"
             /\ UNCHANGED <<cell, U, cent, v0, v, it, phase, nsw, nties, neff, sw1, red, out, res1, wv>>
\* vn[i] = sortvec_xyz([vn[i], -vn[i]])[0]
SignK(flip) == /\ pc = "sign" /\ s < 3
               /\ LexGT(Neg(v[s+1]), v[s+1]) = flip
               /\ v' = IF flip THEN [v EXCEPT ![s+1] = Neg(v[s+1])] ELSE v
               /\ s' = s + 1
               /\ IF s = 2 THEN pc' = "hand" /\ red' = v' ELSE UNCHANGED <<pc, red>>
               /\ UNCHANGED <<cell, U, cent, v0, vl, it, inloop, phase, nsw, nties, neff, sw1, out, res1, wv>>
SignFlip == SignK(TRUE)
SignKeep == SignK(FALSE)
\* if det(...) < 0: [vl[0], vl[2], vl[1]]
HandK(swap) == /\ pc = "hand"
               /\ (Det(v) < 0) = swap
               /\ out' = IF swap THEN Swap23(v) ELSE v
               /\ pc' = IF phase = 1 /\ cent # ZeroV THEN "wv" ELSE "done"
               /\ UNCHANGED <<cell, U, cent, v0, v, vl, s, it, inloop, phase, nsw, nties, neff, sw1, red, res1, wv>>
HandSwap == HandK(TRUE)
HandKeep == HandK(FALSE)

\* lattice.withvec(x),  x = (HWV + cent/2) . out : the fractional indices of x are half-integers, so every
\* rounding in nearest() is a tie decided by the last bit of inv(): e[i] = +-cent[i] are the possible remainders
ArgMaxFirst(key) == CHOOSE j \in Idx : (\A i \in Idx : key[j] >= key[i]) /\ (\A i \in Idx : i < j => key[i] < key[j])
ArgMaxSet(key) == { j \in Idx : \A i \in Idx : key[j] >= key[i] }
AbsV(u) == << Abs(u[1]), Abs(u[2]), Abs(u[3]) >>
\* as written the key is |r| (cartesian, exact: first maximum).  Repaired, the key is |fractional index| = 1/2 for every
\* non-zero one, computed with inv(): which of the equal maxima wins is decided by the last bit -> any of them
WvChoice(e, r2) == IF WVFIX THEN ArgMaxSet(AbsV(e)) ELSE {ArgMaxFirst(AbsV(r2))}
Withvec == /\ pc = "wv"
           /\ \E e \in { f \in {-1,0,1} \X {-1,0,1} \X {-1,0,1} : AbsV(f) = cent } :
              \E w \in WvChoice(e, RowComb(e, out)) :
                LET r2 == RowComb(e, out)                       \* 2 r, cartesian
                    W  == [j \in Idx |-> IF j = w THEN r2 ELSE VScale(2, out[j])]
                    WT == << W[1], W[2], W[3] >>
                IN /\ wv' = [e |-> e, w |-> w, r2 |-> r2,
                             x2 |-> RowComb(VAdd(VScale(2, HWV), cent), out)]
                   /\ res1' = out
                   /\ IF Det(WT) = 0
                      THEN /\ pc' = "badvec" /\ UNCHANGED <<v0, v, vl, s, it, inloop, phase>>
                      ELSE /\ v0' = WT /\ v' = WT /\ vl' = WT /\ s' = 0 /\ it' = 0 /\ inloop' = FALSE
                           /\ phase' = 2 /\ pc' = "sweep"
           /\ UNCHANGED <<cell, U, cent, nsw, nties, neff, sw1, red, out>>

Next == StepEff \/ StepNop \/ SweepEnd \/ TestConv \/ TestAgain \/ SignFlip \/ SignKeep \/ HandSwap \/ HandKeep \/ Withvec
Spec == Init /\ [][Next]_vars
\* VIEW for the TIES = "any" searches: the counters and sw1 do not influence the behaviour
ViewCore == <<cell, U, cent, v0, v, vl, s, it, inloop, pc, phase>>

\* ---- nearest / remainders / score, as written --------------------------------------------
\* vectors are passed 16-fold (g16); indices are  round( num / (16 det) )
RoundV(num, d) == << RHE(Sgn(d)*num[1], 16*Abs(d)), RHE(Sgn(d)*num[2], 16*Abs(d)), RHE(Sgn(d)*num[3], 16*Abs(d)) >>
\* 'row' vectors: hkl = r2c . g  with r2c = inv(c2r), c2r = A^T   ->  g . A^-1 ; back: c2r . hkl = hkl . A
HklRow(A, g16) == RoundV(CoordNum(g16, A), Det(A))
NearestRow(A, g16) == RowComb(HklRow(A, g16), A)
\* 'col' vectors: as written  c2r . x  with  c2r = inv(r2c), r2c = A  ->  A^-1 . x ; back: r2c . n = A . n
HklColAsIs(A, x16) == RoundV(MV(Adj(A), x16), Det(A))
NearestColAsIs(A, x16) == MV(A, HklColAsIs(A, x16))
NearestCol(A, x16) == IF COLFIX THEN NearestRow(A, x16) ELSE NearestColAsIs(A, x16)
\* a component of A^-1 . x is exactly k + 1/2: the real rounding is decided by the last bit of inv()
ColTie(A, x16) == LET num == MV(Adj(A), x16) IN \E j \in Idx : IsTie(Sgn(Det(A))*num[j], 16*Abs(Det(A)))
\* score: diffs = vecs - nearest ; int_err = flip(diffs) ; count |int_err|^2 < tol^2   (16ths, tol = t/10)
ScoreRow(A, t) == Cardinality({ n \in 1..Len(PROBES) :
                     LET g16 == VAdd(VScale(16, RowComb(PROBES[n][1], v0)), RowComb(PROBES[n][2], A))
                         rem == VSub(g16, VScale(16, NearestRow(A, g16)))
                         num == CoordNum(rem, A)                   \* int_err * 16 * det
                     IN 100 * Norm2(num) < 256 * t * t * Det(A) * Det(A) })
\* score of 'col' vectors as written: int_err = c2r . (x - r2c . round(c2r . x)),  c2r = A^-1
ScoreColAsIs(A, t) == Cardinality({ n \in 1..Len(PROBES) :
                     LET x16 == VAdd(VScale(16, RowComb(PROBES[n][1], v0)), RowComb(PROBES[n][2], A))
                         rem == VSub(x16, VScale(16, NearestColAsIs(A, x16)))
                         num == MV(Adj(A), rem)
                     IN 100 * Norm2(num) < 256 * t * t * Det(A) * Det(A) })

\* ---- iter3d / find_lattice ---------------------------------------------------------------
B2I(b) == IF b THEN 1 ELSE 0
\* for k in range(2,n): for j in range(1,k): for i in range(j): yield i,j,k     (0-based)
RECURSIVE Iter3dK(_, _)
\* JI(k) = all (i, j, k) with 0 <= i < j < k, j ascending, then i ascending
JI(k) == LET F[j \in 0..(k-1)] == IF j = 0 THEN << >> ELSE F[j-1] \o [a \in 1..j |-> <<a-1, j, k>>]
         IN F[k-1]
Iter3dK(k, n) == IF k >= n THEN << >> ELSE JI(k) \o Iter3dK(k+1, n)
Iter3d(n) == Iter3dK(2, n)
ASSUME Iter3d(4) = << <<0,1,2>>, <<0,1,3>>, <<0,2,3>>, <<1,2,3>> >>
ASSUME \A n \in 0..7 : /\ Len(Iter3d(n)) = (n * (n-1) * (n-2)) \div 6
                       /\ { Iter3d(n)[a] : a \in 1..Len(Iter3d(n)) } = { t \in (0..(n-1)) \X (0..(n-1)) \X (0..(n-1)) : t[1] < t[2] /\ t[2] < t[3] }
\* find_lattice(vecs, min_vec2 = n/d, tol, fraction_indexed = 0.9), test_vecs = vecs.  Per triple (in iter3d order):
\*   -2  a vector shorter than min_vec2: `continue`        -1  lattice() raises BadVectors (coplanar, or checkvol:
\*   |volume| <= min_vec2^1.5)         n >= 0  the score = number of vecs that are points of the triple's lattice
\*   (a vector outside has a half-integer index here, so its error 1/2 exceeds every tol used)
\* the first triple with  score / nvecs > 0.9  is returned, None when there is none
FLVecs == << v0[1], VScale(2, v0[1]), v0[2], VAdd(v0[1], v0[2]), v0[3], VSub(v0[3], v0[2]) >>   \* collinear / coplanar first
FL2Vecs == << VScale(2, v0[1]), v0[2], v0[3], v0[1] >>                                           \* a sublattice first
InLat(g, A) == \A j \in Idx : CoordNum(g, A)[j] % Abs(Det(A)) = 0
FLB(vecs, t) == << vecs[t[1]+1], vecs[t[2]+1], vecs[t[3]+1] >>
FLStatus(vecs, t, n, d) == LET b == FLB(vecs, t)
                               dt == Abs(Det(b))
                               ad == Transpose(Adj(b))          \* CoordNum(g, b) = MV(ad, g)
                           IN IF \E j \in Idx : d * Norm2(b[j]) < n THEN -2
                              ELSE IF d*d*d * dt * dt <= n*n*n THEN -1
                              ELSE Cardinality({ a \in 1..Len(vecs) :
                                      LET c == MV(ad, vecs[a]) IN c[1] % dt = 0 /\ c[2] % dt = 0 /\ c[3] % dt = 0 })
IT4 == Iter3d(4)
IT6 == Iter3d(6)
IT3 == Iter3d(3)
FLRun(vecs, n, d, ntry) ==
   LET T == IF ntry = 3 THEN IT3 ELSE IF ntry = 4 THEN IT4 ELSE IT6
       vv == vecs
       \* the statuses up to and including the first accepted triple (all of them when there is none)
       Go[a \in 1..Len(T)] == LET st == FLStatus(vv, T[a], n, d)
                              IN IF 10 * st > 9 * Len(vv) \/ a = Len(T) THEN <<st>> ELSE <<st>> \o Go[a+1]
       St == Go[1]
       last == Len(St)
       ok == 10 * St[last] > 9 * Len(vv)
   IN [vecs |-> vv, mv2 |-> <<n, d>>, tried |-> SubSeq(T, 1, last), status |-> St,
       found |-> B2I(ok), basis |-> IF ok THEN FLB(vv, T[last]) ELSE Z3]
FLRuns == << FLRun(FLVecs, 1, 4, 6), FLRun(FL2Vecs, 1, 4, 4), FLRun(FLVecs, 5, 2, 6) >>
\* n_try = None with 'col' vectors as written: len() of a 3 x N array
FLRunsCol3 == << FLRun(FLVecs, 1, 4, 3), FLRun(FL2Vecs, 1, 4, 3), FLRun(FLVecs, 5, 2, 3) >>
FLRunsColDefault == IF NTRYFIX THEN FLRuns ELSE FLRunsCol3
\* ---- laws ---------------------------------------------------------------------------------
Fin1 == (pc = "done" /\ phase = 1) \/ pc = "wv"
Fin2 == pc = "done" /\ phase = 2
Alive == pc \notin {"badvec"}
SameLattice == Alive => SameLat(v, v0)
RightHanded == pc \in {"done", "wv"} => Det(out) > 0
PairReduced(A) == \A i, j \in Idx : i # j =>
                     \A n \in {-3,-2,-1,1,2,3} : Norm2(VAdd(A[i], VScale(n, A[j]))) >= Norm2(A[i])
SignCanon(A) == \A i \in Idx : ~LexGT(Neg(A[i]), A[i])
Reduced == /\ pc = "hand" => PairReduced(red) /\ SignCanon(red) /\ red = v
           /\ pc \in {"done", "wv"} => PairReduced(out) /\ SameLat(out, red)
\* reduce(red) = red : every step of a sweep over red is a no-op (under either rounding of a tie when MODFIX)
Stable == pc = "hand" =>
            /\ \A a \in 1..6 : LET k == PAIRS[a][1] i == PAIRS[a][2]
                               IN \A n \in RoundSet(Dot(red[k], red[i]), Norm2(red[i])) :
                                     n = 0 \/ (MODFIX /\ Norm2(VSub(red[k], VScale(n, red[i]))) >= Norm2(red[k]))
            /\ SignCanon(red)
NoFlaw == pc # "flaw"
\* termination variant; also: mod's  `b4 < af and n != 0`  never holds
Variant == [][ /\ (pc = "sweep" /\ v' # v /\ pc' = "sweep") => SumN2(v') < SumN2(v)
               /\ (pc \in {"sign", "hand"}) => SumN2(v') = SumN2(v) ]_vars
\* indices
TT == TMat(out, v0)                                   \* out = TT . v0, unimodular
HExp(m) == VScale(Det(TT), MV(Transpose(Adj(TT)), m)) \* m . TT^-1
G16(n) == VAdd(VScale(16, RowComb(PROBES[n][1], v0)), RowComb(PROBES[n][2], out))
SmallD(n) == \A i \in Idx : Abs(PROBES[n][2][i]) < 8
IndexIntegral == Fin1 => \A n \in 1..Len(PROBES) :
                   /\ \A j \in Idx : CoordNum(RowComb(PROBES[n][1], v0), out)[j] % Abs(Det(out)) = 0
                   /\ RowComb(HExp(PROBES[n][1]), out) = RowComb(PROBES[n][1], v0)
IndexRow == Fin1 => \A n \in 1..Len(PROBES) : SmallD(n) =>
                   /\ HklRow(out, G16(n)) = HExp(PROBES[n][1])
                   /\ NearestRow(out, G16(n)) = RowComb(PROBES[n][1], v0)
IndexCol == Fin1 => \A n \in 1..Len(PROBES) : SmallD(n) =>
                   NearestCol(out, G16(n)) = RowComb(PROBES[n][1], v0)
ScoreExp(t) == Cardinality({ n \in 1..Len(PROBES) : 100 * Norm2(PROBES[n][2]) < 256 * t * t })
ScoreLaw == Fin1 => \A a \in 1..Len(TOLS) : ScoreRow(out, TOLS[a]) = ScoreExp(TOLS[a])
\* withvec: new lattice = old lattice + Z x  (doubled coordinates; out is the phase-2 result)
WithvecOK == /\ pc # "badvec"
             /\ Fin2 => /\ Divides(MScale(2, res1), out)
                        /\ \A j \in Idx : CoordNum(wv.x2, out)[j] % Abs(Det(out)) = 0
                        /\ 2 * Abs(Det(out)) = 8 * Abs(Det(res1))
\* find_lattice on the three lists: a returned triple generates the lattice of ALL the vectors handed in (here L(v0)),
\* the collinear / coplanar / sublattice triples before it are passed over, and the first two runs do find one
FindLatticeOK == Fin1 =>
   LET R == FLRuns
   IN /\ \A a \in 1..3 : R[a].found = 1 => SameLat(R[a].basis, v0)
      /\ R[1].found = 1 /\ R[2].found = 1
      /\ Len(R[1].tried) = 6 /\ Len(R[2].tried) = 4
      \* FLStatus counts lattice membership: right because no triple has index > 2
      /\ \A t \in {IT6[a] : a \in 1..Len(IT6)} : Abs(Det(FLB(FLVecs, t))) <= 2 * Abs(Det(v0))
      /\ \A t \in {IT4[a] : a \in 1..Len(IT4)} : Abs(Det(FLB(FL2Vecs, t))) <= 2 * Abs(Det(v0))
FindLatticeAnyDir == Fin1 => (NTRYFIX \/ FLRunsColDefault = FLRuns)      \* (NTRYFIX: FLRunsColDefault is FLRuns)
\* Minkowski reduction (brute force over coefficients -1..1, sorted by length) - not promised by the code
LenPerm(A) == CHOOSE p \in {q \in Idx \X Idx \X Idx : q[1] # q[2] /\ q[1] # q[3] /\ q[2] # q[3]} :
                 Norm2(A[p[1]]) <= Norm2(A[p[2]]) /\ Norm2(A[p[2]]) <= Norm2(A[p[3]])
IsMink(A) == LET p == LenPerm(A)
                 b == << A[p[1]], A[p[2]], A[p[3]] >>
                 C == {-1, 0, 1}
             IN \A x \in C \X C \X C :
                  LET y == Norm2(RowComb(x, b))
                  IN /\ (x # ZeroV) => y >= Norm2(b[1])
                     /\ (x[2] # 0 \/ x[3] # 0) => y >= Norm2(b[2])
                     /\ (x[3] # 0) => y >= Norm2(b[3])
\* first minimum by brute force over a box: a Minkowski reduced basis contains a shortest vector
Lambda1(A) == LET B == -2..2
                  S == { Norm2(RowComb(x, A)) : x \in (B \X B \X B) \ {ZeroV} }
              IN CHOOSE m \in S : \A y \in S : m <= y
MinkSane == Fin1 /\ IsMink(out) => Norm2(out[LenPerm(out)[1]]) = Lambda1(out)
MinkAlways == Fin1 => IsMink(out)
SortedLen(A) == Norm2(A[1]) >= Norm2(A[2]) /\ Norm2(A[2]) >= Norm2(A[3])
ASSUME \A c \in AllCells : PairReduced(CellB(c)) /\ Det(CellB(c)) # 0
ASSUME \A c \in AllCells \ {"rhoO"} : IsMink(CellB(c))
ASSUME ~IsMink(CellB("rhoO"))
ASSUME RHE(1, 2) = 0 /\ RHE(3, 2) = 2 /\ RHE(-1, 2) = 0 /\ RHE(-3, 2) = -2 /\ RHE(5, 2) = 2 /\ RHE(7, 3) = 2 /\ RHE(-7, 3) = -2 /\ RHE(-5, 2) = -2

\* ---- emission -----------------------------------------------------------------------------
ProbeRec(n) == [m |-> PROBES[n][1], d |-> PROBES[n][2], g16 |-> G16(n), h |-> HExp(PROBES[n][1]),
                near |-> RowComb(PROBES[n][1], v0), rem16 |-> RowComb(PROBES[n][2], out),
                nearcol_asis |-> NearestColAsIs(out, G16(n)), coltie |-> B2I(ColTie(out, G16(n)))]
Emit == /\ Fin1 /\ cent = ZeroV =>
             PrintT("@@" \o ToJson([kind |-> "red", cell |-> cell, U |-> U, v0 |-> v0, sw1 |-> sw1, red |-> red, out |-> out,
                    T |-> TT, nsw |-> nsw, nties |-> nties, neff |-> neff, swapped |-> B2I(out # red),
                    mink |-> B2I(IsMink(out)), sorted |-> B2I(SortedLen(out)),
                    probes |-> [n \in 1..Len(PROBES) |-> ProbeRec(n)],
                    score |-> [a \in 1..Len(TOLS) |-> <<TOLS[a], ScoreExp(TOLS[a]), ScoreColAsIs(out, TOLS[a])>>],
                    modfix |-> B2I(MODFIX), iter3d |-> IT6, fl |-> FLRuns, flcol3 |-> FLRunsCol3]))
        /\ (Fin2 \/ pc = "badvec") =>
             PrintT("@@" \o ToJson([kind |-> "wv", cell |-> cell, U |-> U, cent |-> cent, B |-> res1, x2 |-> wv.x2,
                    e |-> wv.e, w |-> wv.w, r2 |-> wv.r2, wvfix |-> B2I(WVFIX), bad |-> B2I(pc = "badvec"),
                    red2 |-> IF pc = "badvec" THEN Z3 ELSE red, out2 |-> IF pc = "badvec" THEN Z3 ELSE out]))
=============================================================================

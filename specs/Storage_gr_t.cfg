\* thorough: grain files (text, ubi, h5), one group, depth 4
SPECIFICATION Spec
CONSTANTS
  Family = "grains"
  Paths = {"p1", "p2"}
  Groups = {"grains"}
  SeedTuples <- SeedsGr
  OpNames = {"WriteGrains", "ReadGrains", "WriteUbis", "ReadUbis", "WriteGrainsH5", "ReadGrainsH5", "PutGrainH5", "Reverse"}
  MaxDepth = 4
  EmitOn = TRUE
INVARIANT TypeOK
INVARIANT InvFixed
INVARIANT InvAsIs
INVARIANT Emit
VIEW View
CHECK_DEADLOCK FALSE

-------------------------- MODULE ScoreRefineCalls --------------------------
(***************************************************************************)
(* Re-entrancy of the scoring / refinement kernels (property C06).         *)
(*                                                                         *)
(* score_and_refine and refine_assigned are declared `threadsafe` in       *)
(* src/_cImageD11.pyf: the f2py wrapper releases the GIL, so several       *)
(* Python threads (a ThreadPool over grains) are inside the C code at the  *)
(* same time, each call with its own ubi, g-vectors and labels.  The       *)
(* property is stated per call: the count, the mean squared error and the  *)
(* fitted matrix of a call are functions of ITS arguments.                 *)
(*                                                                         *)
(* Model: NT threads; thread t runs the kernel plan[t] over its own list   *)
(* of NPK peaks.  A call is Enter (zero the normal equations), NPK times   *)
(* Add (one peak into the sums), Return (solve, hand the answer back);     *)
(* the steps of different threads interleave freely.  The contribution of  *)
(* a peak of thread t is 10^(t-1): the decimal digits of a sum say how     *)
(* many peaks of each thread went into it.  The accumulators of a call     *)
(* live in Store(t): the call's own automatic storage (SHARED = FALSE, the *)
(* design the property needs) or one file-scope cell used by every call    *)
(* (SHARED = TRUE: the design that is not re-entrant; the _neg.cfg run     *)
(* must violate Isolation, a test that the law bites).                     *)
(*                                                                         *)
(* Isolation: under every interleaving the answer of a call is the sum of  *)
(* its own NPK peaks.  Emit hands every plan [thread -> kernel] x pin      *)
(* (pin = 1: the threads share one core, overlap only by pre-emption) to   *)
(* the harness, which runs it on long seeded lists (6e4 peaks: a call      *)
(* lasts long enough to overlap) from NT Python threads for several rounds *)
(* and asks of every call the expectation of its own list, which comes from*)
(* ScoreRefine.tla's terminal states.                                      *)
(***************************************************************************)
EXTENDS Integers, Sequences, FiniteSets, TLC, Json

CONSTANTS NT,        \* number of Python threads
          KERNELS,   \* kernels a thread may run
          PINS,      \* subset of {0, 1}
          NPK,       \* peaks per call in the model (<= 9)
          SHARED     \* BOOLEAN: one accumulator for all calls (negative test)

KERNELS_all == {"score", "score_and_refine", "refine_assigned"}
PINS_both == {0, 1}
PINS_free == {0}
ASSUME NT \in 1..6 /\ NPK \in 1..9 /\ KERNELS \subseteq KERNELS_all /\ SHARED \in BOOLEAN

VARIABLES plan, pin, pc, k, acc, res
vars == <<plan, pin, pc, k, acc, res>>
T == 1..NT

RECURSIVE Pow10(_)
Pow10(e) == IF e = 0 THEN 1 ELSE 10 * Pow10(e - 1)
Item(t) == Pow10(t - 1)
Store(t) == IF SHARED THEN 1 ELSE t

Init == /\ plan \in [T -> KERNELS] /\ pin \in PINS
        /\ pc = [t \in T |-> "out"] /\ k = [t \in T |-> 0]
        /\ acc = [t \in T |-> 0] /\ res = [t \in T |-> -1]

Enter(t) == /\ pc[t] = "out"
            /\ pc' = [pc EXCEPT ![t] = "loop"] /\ k' = [k EXCEPT ![t] = 1]
            /\ acc' = [acc EXCEPT ![Store(t)] = 0]
            /\ UNCHANGED <<plan, pin, res>>
Add(t) == /\ pc[t] = "loop" /\ k[t] <= NPK
          /\ acc' = [acc EXCEPT ![Store(t)] = @ + Item(t)]
          /\ k' = [k EXCEPT ![t] = @ + 1]
          /\ UNCHANGED <<plan, pin, pc, res>>
Return(t) == /\ pc[t] = "loop" /\ k[t] = NPK + 1
             /\ res' = [res EXCEPT ![t] = acc[Store(t)]]
             /\ pc' = [pc EXCEPT ![t] = "done"]
             /\ UNCHANGED <<plan, pin, k, acc>>
Next == \E t \in T : Enter(t) \/ Add(t) \/ Return(t)
Spec == Init /\ [][Next]_vars

Isolation == \A t \in T : pc[t] = "done" => res[t] = NPK * Item(t)
Emit == (\A t \in T : pc[t] = "done") =>
   PrintT("@@" \o ToJson([plan |-> plan, pin |-> pin]))
=============================================================================

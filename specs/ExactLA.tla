------------------------------- MODULE ExactLA -------------------------------
(***************************************************************************)
(* Exact 3x3 integer / rational linear algebra for the numeric             *)
(* specifications (Geometry, Lattice, Orient, Strain, SymGroup, ScanGeom). *)
(*                                                                         *)
(* A vector is a 3-tuple of integers, a matrix a 3-tuple of rows.          *)
(* A *scaled* object is <<numerators, den>> with den > 0.                  *)
(* An angle is <<c, s, n>> with c*c + s*s = n*n, n > 0: cos = c/n,         *)
(* sin = s/n (right angles and Pythagorean angles only).                   *)
(* TLC integers are 32 bit: callers size their constant sets so that       *)
(* every intermediate stays below 2^31 (TLC aborts on overflow, which the  *)
(* harness reports as a machinery error, never as a violation).            *)
(***************************************************************************)
EXTENDS Integers, Sequences, FiniteSets, TLC

Abs(x) == IF x < 0 THEN -x ELSE x
Sgn(x) == IF x < 0 THEN -1 ELSE IF x > 0 THEN 1 ELSE 0
Max2(a, b) == IF a > b THEN a ELSE b
Min2(a, b) == IF a < b THEN a ELSE b

RECURSIVE GCD(_, _)
GCD(a, b) == IF b = 0 THEN Abs(a) ELSE GCD(b, a % b)

\* floor division for possibly negative numerators (TLC's \div floors already)
FloorDiv(a, b) == a \div b

I3 == << <<1,0,0>>, <<0,1,0>>, <<0,0,1>> >>
Z3 == << <<0,0,0>>, <<0,0,0>>, <<0,0,0>> >>
Idx == 1..3

Dot(u, v) == u[1]*v[1] + u[2]*v[2] + u[3]*v[3]
Cross(u, v) == << u[2]*v[3] - u[3]*v[2], u[3]*v[1] - u[1]*v[3], u[1]*v[2] - u[2]*v[1] >>
VAdd(u, v) == << u[1]+v[1], u[2]+v[2], u[3]+v[3] >>
VSub(u, v) == << u[1]-v[1], u[2]-v[2], u[3]-v[3] >>
VScale(k, u) == << k*u[1], k*u[2], k*u[3] >>
Norm2(u) == Dot(u, u)

Col(M, j) == << M[1][j], M[2][j], M[3][j] >>
Transpose(M) == << Col(M,1), Col(M,2), Col(M,3) >>
MV(M, v) == << Dot(M[1], v), Dot(M[2], v), Dot(M[3], v) >>
MM(A, B) == [i \in Idx |-> [j \in Idx |-> Dot(A[i], Col(B, j))]]
MAdd(A, B) == [i \in Idx |-> [j \in Idx |-> A[i][j] + B[i][j]]]
MSub(A, B) == [i \in Idx |-> [j \in Idx |-> A[i][j] - B[i][j]]]
MScale(k, A) == [i \in Idx |-> [j \in Idx |-> k * A[i][j]]]
Diag(a, b, c) == << <<a,0,0>>, <<0,b,0>>, <<0,0,c>> >>
Trace(M) == M[1][1] + M[2][2] + M[3][3]
Det(M) == Dot(M[1], Cross(M[2], M[3]))
\* adjugate:  M . Adj(M) = Det(M) . I
Adj(M) == Transpose(<< Cross(M[2], M[3]), Cross(M[3], M[1]), Cross(M[1], M[2]) >>)
IsSym(M) == \A i, j \in Idx : M[i][j] = M[j][i]
IsUpper(M) == M[2][1] = 0 /\ M[3][1] = 0 /\ M[3][2] = 0
IsOrthoScaled(M, n) == MM(M, Transpose(M)) = MScale(n*n, I3)
Outer(u, v) == [i \in Idx |-> [j \in Idx |-> u[i] * v[j]]]

\* sequences <-> tuples (MM etc. build functions with domain 1..3 = tuples in TLC)
M2T(M) == << <<M[1][1],M[1][2],M[1][3]>>, <<M[2][1],M[2][2],M[2][3]>>, <<M[3][1],M[3][2],M[3][3]>> >>

\* ---- angles -------------------------------------------------------------------
RightAngles == { <<1,0,1>>, <<0,1,1>>, <<-1,0,1>>, <<0,-1,1>> }
PythAngles  == { <<4,3,5>>, <<3,-4,5>>, <<12,5,13>>, <<5,-12,13>>, <<24,7,25>>, <<-7,24,25>> }
Ang == RightAngles \cup PythAngles
AngZero == <<1,0,1>>
IsAngle(a) == a[3] > 0 /\ a[1]*a[1] + a[2]*a[2] = a[3]*a[3]
AngNeg(a) == << a[1], -a[2], a[3] >>
\* sum of two angles (denominators multiply)
AngAdd(a, b) == << a[1]*b[1] - a[2]*b[2], a[2]*b[1] + a[1]*b[2], a[3]*b[3] >>

\* rotation matrices scaled by n = a[3]  (right handed, active)
Rx(a) == << <<a[3],0,0>>, <<0,a[1],-a[2]>>, <<0,a[2],a[1]>> >>
Ry(a) == << <<a[1],0,a[2]>>, <<0,a[3],0>>, <<-a[2],0,a[1]>> >>
Rz(a) == << <<a[1],-a[2],0>>, <<a[2],a[1],0>>, <<0,0,a[3]>> >>

\* ---- the 24 proper signed permutation matrices (cubic rotation group) -------------
SignedPerms == { M \in [Idx -> [Idx -> {-1,0,1}]] :
                   /\ \A i \in Idx : Cardinality({j \in Idx : M[i][j] # 0}) = 1
                   /\ \A j \in Idx : Cardinality({i \in Idx : M[i][j] # 0}) = 1 }
ProperSignedPerms == { M \in SignedPerms : Det(M) = 1 }

\* ---- self tests (evaluated once when a module extending this one is loaded) ------
ASSUME \A a \in Ang : IsAngle(a)
ASSUME \A a \in Ang : IsOrthoScaled(Rx(a), a[3]) /\ IsOrthoScaled(Ry(a), a[3]) /\ IsOrthoScaled(Rz(a), a[3])
ASSUME \A a \in Ang : Det(Rz(a)) = a[3]*a[3]*a[3]
ASSUME LET M == << <<2,1,0>>, <<0,3,1>>, <<1,0,4>> >> IN M2T(MM(M, Adj(M))) = M2T(MScale(Det(M), I3))
ASSUME Cardinality(ProperSignedPerms) = 24
ASSUME GCD(12, 18) = 6 /\ GCD(-4, 6) = 2 /\ GCD(0, 5) = 5
=============================================================================

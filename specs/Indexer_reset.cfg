SPECIFICATION Spec
CONSTANTS
  NOISY = FALSE
  PAIRS <- PAIRS_cross
  NP = 8
  NR = 2
  NC = 5
  MINPKS = 0
  MAXGRAINS = 3
  UNIQ_NUM = 1
  UNIQ_DEN = 2
  NPASS = 2
  MINPKS2 = 1
  NCAP = 0
  ALLHITS = FALSE
  NSAVE = 1
  FRESH = TRUE
  NRESET = 2
  SHARE = FALSE
INVARIANT GaRange
INVARIANT AcceptedScore
INVARIANT GrainCap
INVARIANT PairCap
INVARIANT NoRepeat
INVARIANT OwnPeaksKept
INVARIANT Completeness
PROPERTY Termination
PROPERTY Settles
PROPERTY SaveOK
PROPERTY ResetOK
CHECK_DEADLOCK FALSE

SPECIFICATION Spec
CONSTANTS
  G = 2
  R = 3
  K = 1
  E = 3
  N = 4
  LInitU = TRUE
  LInitNN = {0, 1, 2}
  DInit = {0, 1, 2, 3}
  EmitOn = TRUE
INVARIANT ClosedForm
INVARIANT Counts
INVARIANT Represent
INVARIANT BestGrain
INVARIANT Unassigned
INVARIANT StoredError
INVARIANT ReturnedCounts
INVARIANT Histogram
INVARIANT Sane
INVARIANT OrderIndependent
INVARIANT Emit
CHECK_DEADLOCK FALSE

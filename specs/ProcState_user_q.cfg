\* X07 quick: indexing.do_index restores the thread count (normal return and exception); emits the table of users
SPECIFICATION Spec
CONSTANTS
  EnvOmp = {0}
  Cores = {2}
  Slurm = {0}
  PutVals = {}
  SetVals = {3}
  NbVals = {}
  Starts = {}
  Hows = {}
  POps = {"import", "set", "user"}
  COps = {}
  NW = 0
  MaxDepth = 3
  BUG_INHERIT = TRUE
  BUG_NBRESET = TRUE
  EmitMode = 1
INVARIANT TypeOK
INVARIANT RegPositive
INVARIANT SafeNeverStuck
INVARIANT StopBound
INVARIANT LateNoWork
PROPERTY SetGet
PROPERTY WarnRule
PROPERTY PatchSafe
PROPERTY OneThreadNeverStuck
PROPERTY Restore
PROPERTY StopSticky
PROPERTY DoneIsFinal
PROPERTY RaiseStops
PROPERTY FlagPerProcess
PROPERTY PbpOneThread
ACTION_CONSTRAINT EmitTransition
INVARIANT EmitUsers
VIEW View
CHECK_DEADLOCK FALSE

\* one pair (u1 = u2 = identity): used by --replay to obtain the group lists
SPECIFICATION Spec
CONSTANTS
  QMax1 = 0
  EAng1 <- EA_id
  QMax2 = 0
  EAng2 <- EA_id
  Kernels = "proper"
INVARIANT TypeOK
INVARIANT ROk
INVARIANT ScanLoopInv
INVARIANT ScanIsMax
INVARIANT Symmetric
INVARIANT GroupInvariant
INVARIANT FrameInvariant
INVARIANT ZeroIffOrbit
INVARIANT Chain
INVARIANT FundZone
INVARIANT CubicAgrees
INVARIANT TetraAgrees
INVARIANT OrthoAgrees
INVARIANT MonoAgrees
INVARIANT PinnedExplained
INVARIANT Emit
CHECK_DEADLOCK FALSE

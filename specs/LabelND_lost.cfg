\* witness run: the lost-update race exists in the model - NeverRaises must be violated
SPECIFICATION Spec
CONSTANTS
  NSet = {3}
  ESet = {2}
  Threads = {t1, t2}
  Static = FALSE
  OrdSet = {0}
  History = TRUE
  DoEmit = FALSE
  Bug = "none"
  Hist = 0
  DsHist = 0
  DsOps = {}
  NMon = 0
  Neg = FALSE
  Shape = "sorted"
INVARIANT TypeOK
PROPERTY NeverRaises
CHECK_DEADLOCK FALSE

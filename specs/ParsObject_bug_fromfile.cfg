SPECIFICATION Spec
CONSTANTS
  MaxDepth = 3
  BUG_BOOL = FALSE
  BUG_FROMFILE = TRUE
  AllowReAdd = TRUE
  EmitMode = 0
  WithFiles = TRUE
  StartForms = {"kwds", "idx", "addpar", "rg"}
INVARIANT FromFilePhase
VIEW View
CHECK_DEADLOCK FALSE

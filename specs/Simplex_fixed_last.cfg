SPECIFICATION Spec
CONSTANTS
  K = 10
  BOX = 6
  Cases <- Cases_asis1
  FIXED = TRUE
INVARIANT LastEvalIsReturned
CHECK_DEADLOCK FALSE

SPECIFICATION Spec
CONSTANTS
  PART = "cache"
  CELLS <- CELLS_q
  GENS <- GENS_q
  ROTS <- ROTS_id
  MaxDepth = 6
  FORGET = {}
  NOCOPY = {"B"}
  OBJ = "grain"
  ALIASARG = FALSE
  SAMEKEEP = FALSE
  UNWRITTEN = {}
  EmitMode = 0
INVARIANT Coherent
INVARIANT ReadFresh
INVARIANT DepClosed
INVARIANT CacheType
INVARIANT UbiOwn
VIEW View
CHECK_DEADLOCK FALSE

SPECIFICATION Spec
CONSTANTS
  CELLS <- CELLS_cx
  SCR <- SCRWV_q
  SCRWV <- SCRWV_q
  CENTS <- CENTS_none
  PROBES <- PROBES_std
  TOLS <- TOLS_std
  TIES = "even"
  MODFIX = FALSE
  COLFIX = TRUE
  WVFIX = TRUE
  NTRYFIX = FALSE
  MAXIT = 10
INVARIANT FindLatticeOK
INVARIANT FindLatticeAnyDir
CHECK_DEADLOCK FALSE

----------------------------- MODULE TraceSparse -----------------------------
(***************************************************************************)
(* Property C14, binding mode C (code -> specification) for inputs that    *)
(* are too large to enumerate: the harness (harness/c14_big.py) runs the   *)
(* real code on seeded cases (uint16 / uint32 / float32 images, up to      *)
(* 65535 columns, label ids equal to the histogram length, frames ending   *)
(* together, identical / disjoint / partially overlapping frames), logs    *)
(* one ndjson event per call with the inputs and the outputs, and TLC      *)
(* evaluates the PROPERTY'S OWN DEFINITIONS (the same ones that are        *)
(* invariants of SparseCoo.tla / SparseOverlaps.tla) on the logged data.   *)
(* One verdict line per event names every clause and whether it holds.     *)
(*                                                                         *)
(* Numbers: TLC integers are 32 bit, so every pixel value is logged as a   *)
(* pair <<hi, lo>> = <<v div 65536, v mod 65536>> (float32 data are        *)
(* multiples of 1/4 and logged as 4*v); pairs compare lexicographically.   *)
(*                                                                         *)
(* Event "coo" (dense image -> sparse frame -> dense image):               *)
(*   ns nf, lit = [[r,c,hi,lo]..] the non-zero pixels of the image (any    *)
(*   order), on = [[r,c]..] pixels where the mask is set (mode "mask") or   *)
(*   off = [[r,c]..] where the detector mask is 0 (mode cut), cut=[hi,lo], *)
(*   out_row out_col out_val (out_val may be absent: hasval = FALSE), ret, *)
(*   dense = non-zero pixels of to_dense() (hasdense)                      *)
(*   modes: "mask"      selection = on                                     *)
(*          "cut"       selection = {lit : v > cut} \ off     (cut >= 0)   *)
(*                      with full = TRUE the whole image is in img and the *)
(*                      selection is {all pixels : v > cut} \ off (any cut;*)
(*                      the cut is logged as floor(scaled cut as the C     *)
(*                      kernel sees it): v > c <=> v > floor(c) for        *)
(*                      integer v)                                         *)
(*          "mask_cut"  selection = {p in on : v(p) > cut}    (threshold)  *)
(* Clauses: count, set (exactly the selected pixels with their values),    *)
(*   order (strictly increasing row-major => no duplicates), inimage,      *)
(*   dense (to_dense gives the selected non-zero pixels and nothing else), *)
(*   dense_out (the same into a caller's dirty array), dense_arr (the same  *)
(*   with the intensity array itself as argument)                          *)
(* The thread count of a call and the way the frames of an "ovl" event     *)
(* were obtained (fresh object, object with a history, pairrow over a scan *)
(* with unsorted omega) are not part of an event: each call is judged by   *)
(* the same definitions.                                                   *)
(*                                                                         *)
(* Event "ovl" (two labelled sorted frames): f1, f2 = [row, col, lab, n],  *)
(*   lin = [has, nedge, none, rcl], mat = [has, nov, res], ovl = [has,     *)
(*   trip] (non-zero entries of the matrix returned by overlaps())         *)
(* Clauses: pre (frames sorted, labels in 1..n: the harness' obligation),  *)
(*   lin_set / mat_set / ovl_set (answer = Brute as a set), lin_once /      *)
(*   mat_once / ovl_once (each pair once), lin_none, lin_eq_mat            *)
(*                                                                         *)
(* Variable: l (next line).  Action: Step.  The harness requires one       *)
(* verdict per logged event (a missing verdict is a machinery error).      *)
(***************************************************************************)
EXTENDS Integers, Sequences, FiniteSets, TLC, Json, IOUtils

Trace == ndJsonDeserialize(IOEnv.TRACE_FILE)

VARIABLE l

GT(a, b) == a[1] > b[1] \/ (a[1] = b[1] /\ a[2] > b[2])
Before(r1, c1, r2, c2) == r1 < r2 \/ (r1 = r2 /\ c1 < c2)
SeqSet(s) == {s[x] : x \in DOMAIN s}

\* ---- coo ---------------------------------------------------------------------------------
Lit(e) == SeqSet(e.lit)                         \* <<r, c, hi, lo>>
\* e.full: the whole image is logged row-major in e.img (small shapes: full-image selections, and cuts below
\* zero, which also select the pixels that hold 0); otherwise only its non-zero pixels are, in e.lit
ValAt(e, r, c) == IF e.full THEN <<e.img[r * e.nf + c + 1][1], e.img[r * e.nf + c + 1][2]>>
                  ELSE IF \E x \in Lit(e) : x[1] = r /\ x[2] = c
                  THEN LET x == CHOOSE x \in Lit(e) : x[1] = r /\ x[2] = c IN <<x[3], x[4]>>
                  ELSE <<0, 0>>
AllPix(e) == (0..(e.ns - 1)) \X (0..(e.nf - 1))
Selection(e) ==
    CASE e.mode = "mask" -> {<<p[1], p[2], ValAt(e, p[1], p[2])>> : p \in SeqSet(e.on)}
      [] e.mode = "cut" /\ ~e.full ->
                            {<<x[1], x[2], <<x[3], x[4]>>>> :
                                x \in {y \in Lit(e) : GT(<<y[3], y[4]>>, e.cut) /\ <<y[1], y[2]>> \notin SeqSet(e.off)}}
      [] e.mode = "cut" /\ e.full ->
                            LET offs == SeqSet(e.off) IN
                            {<<p[1], p[2], ValAt(e, p[1], p[2])>> :
                                p \in {q \in AllPix(e) : GT(ValAt(e, q[1], q[2]), e.cut) /\ <<q[1], q[2]>> \notin offs}}
      [] e.mode = "mask_cut" -> {s \in {<<p[1], p[2], ValAt(e, p[1], p[2])>> : p \in SeqSet(e.on)} : GT(s[3], e.cut)}

CooVerdict(e) ==
    LET sel == Selection(e)
        n == Len(e.out_row)
        got == IF e.hasval THEN {<<e.out_row[x], e.out_col[x], e.out_val[x]>> : x \in 1..n}
                           ELSE {<<e.out_row[x], e.out_col[x]>> : x \in 1..n}
        want == IF e.hasval THEN sel ELSE {<<s[1], s[2]>> : s \in sel}
    IN [id |-> e.id, kind |-> "coo",
        pre |-> /\ \A x, y \in DOMAIN e.lit : x # y => <<e.lit[x][1], e.lit[x][2]>> # <<e.lit[y][1], e.lit[y][2]>>
                /\ (e.mode = "cut" /\ ~e.full) => ~GT(<<0, 0>>, e.cut)
                /\ e.full => Len(e.img) = e.ns * e.nf,
        count |-> e.ret = Cardinality(sel) /\ n = e.ret /\ Len(e.out_col) = n,
        set |-> got = want,
        order |-> \A x \in 2..n : Before(e.out_row[x - 1], e.out_col[x - 1], e.out_row[x], e.out_col[x]),
        inimage |-> \A x \in 1..n : e.out_row[x] \in 0..(e.ns - 1) /\ e.out_col[x] \in 0..(e.nf - 1),
        dense |-> ~e.hasdense \/
                  {<<d[1], d[2], <<d[3], d[4]>>>> : d \in SeqSet(e.dense)} = {s \in sel : s[3] # <<0, 0>>},
        \* to_dense into a caller's array that was full of a poison value, and to_dense(<the intensity array>)
        dense_out |-> ~e.hasdense2 \/
                  {<<d[1], d[2], <<d[3], d[4]>>>> : d \in SeqSet(e.dense_out)} = {s \in sel : s[3] # <<0, 0>>},
        dense_arr |-> ~e.hasdense3 \/
                  {<<d[1], d[2], <<d[3], d[4]>>>> : d \in SeqSet(e.dense_arr)} = {s \in sel : s[3] # <<0, 0>>}]

\* ---- ovl ---------------------------------------------------------------------------------
Sorted(f) == \A x \in 2..Len(f.row) : Before(f.row[x - 1], f.col[x - 1], f.row[x], f.col[x])
CommonIdx(e) == {xy \in (1..Len(e.f1.row)) \X (1..Len(e.f2.row)) :
                    e.f1.row[xy[1]] = e.f2.row[xy[2]] /\ e.f1.col[xy[1]] = e.f2.col[xy[2]]}
Brute(e) ==
    LET ci == CommonIdx(e)
        pairs == {<<e.f1.lab[xy[1]], e.f2.lab[xy[2]]>> : xy \in ci}
    IN {<<p[1], p[2], Cardinality({xy \in ci : e.f1.lab[xy[1]] = p[1] /\ e.f2.lab[xy[2]] = p[2]})>> : p \in pairs}

OvlVerdict(e) ==
    LET b == Brute(e) IN
    [id |-> e.id, kind |-> "ovl",
     pre |-> /\ Sorted(e.f1) /\ Sorted(e.f2)
             /\ \A x \in DOMAIN e.f1.lab : e.f1.lab[x] \in 1..e.f1.n
             /\ \A x \in DOMAIN e.f2.lab : e.f2.lab[x] \in 1..e.f2.n,
     npairs |-> Cardinality(b),
     lin_set |-> ~e.lin.has \/ SeqSet(e.lin.rcl) = b,
     lin_once |-> ~e.lin.has \/ (Len(e.lin.rcl) = Cardinality(b) /\ e.lin.nedge = Cardinality(b)),
     lin_none |-> ~e.lin.has \/ (e.lin.none <=> CommonIdx(e) = {}),
     mat_set |-> ~e.mat.has \/ SeqSet(e.mat.res) = b,
     mat_once |-> ~e.mat.has \/ (Len(e.mat.res) = Cardinality(b) /\ e.mat.nov = Cardinality(b)),
     lin_eq_mat |-> ~(e.lin.has /\ e.mat.has) \/ SeqSet(e.lin.rcl) = SeqSet(e.mat.res),
     ovl_set |-> ~e.ovl.has \/ SeqSet(e.ovl.trip) = b,
     ovl_once |-> ~e.ovl.has \/ Len(e.ovl.trip) = Cardinality(b)]

Verdict(e) == IF e.kind = "coo" THEN CooVerdict(e) ELSE OvlVerdict(e)

Init == l = 1
Step == /\ l <= Len(Trace)
        /\ PrintT("@@" \o ToJson(Verdict(Trace[l])))
        /\ l' = l + 1
Spec == Init /\ [][Step]_l

=============================================================================

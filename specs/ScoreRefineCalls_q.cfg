SPECIFICATION Spec
CONSTANTS
  NT = 4
  KERNELS <- KERNELS_all
  PINS <- PINS_both
  NPK = 1
  SHARED = FALSE
INVARIANT Isolation
INVARIANT Emit
CHECK_DEADLOCK FALSE

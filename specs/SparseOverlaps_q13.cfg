SPECIFICATION Spec
CONSTANTS
  PipeGrids = {13}
  NLab = 3
  Surj = TRUE
  NExtra = {0, 1}
  NnzMax0 = 2
  NpkMax0 = 1
  CdLen = 0
  CdLab = 1
  CdSlack = {0}
  FIXED = TRUE
  HistGrids = {}
  HistLen = 1
  Chains = {FALSE}
  HistPickInit = 0
  HistPickNext = 0
INVARIANT InBounds
INVARIANT SoExact
INVARIANT CdExact
INVARIANT LinExact
INVARIANT MatExact
INVARIANT LinEqMat
INVARIANT OvlTotal
INVARIANT OvlExact
INVARIANT Emit
CHECK_DEADLOCK FALSE

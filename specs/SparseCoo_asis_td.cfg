SPECIFICATION Spec
CONSTANTS
  M2CShapes = {12}
  NnzExtra = {0}
  ParRows = FALSE
  CutShapes = {}
  CutVals = 1
  Cuts = {0}
  SortedGrid = 0
  SortedLen = 1
  SortShapes = {}
  ThreshShapes = {}
  ThreshVals = 1
  ThreshNames = {"intensity"}
  FIXED = TRUE
  TDFIXED = FALSE
INVARIANT InBounds
INVARIANT CooRowMajor
INVARIANT RoundTrip
INVARIANT KernelReturn
INVARIANT Defined
INVARIANT SortTotal
INVARIANT DenseTotal
CHECK_DEADLOCK FALSE

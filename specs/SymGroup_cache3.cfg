\* symcache behaviours: every sequence of three named-group calls
SPECIFICATION Spec
CONSTANTS
  Names = {"cubic", "hexagonal", "trigonal", "rhombohedralP", "tetragonal", "orthorhombic", "monoclinic_c", "monoclinic_a", "monoclinic_b", "triclinic"}
  QMax = 1
  HMax = 1
  MaxCalls = 3
  DoScan = FALSE
  TrigonalFixed = TRUE
  BigHkls = {}
  BlockSize = 0
  ListMax = 0
  ListPool = {}
  ListSizes = {}
  ConcPairs = {}
  CoarseNames = {}
  Stride = 1
  PublishEarly = FALSE
INVARIANT TypeOK
INVARIANT GenOK
INVARIANT Closed
INVARIANT OrderOK
INVARIANT CacheOK
INVARIANT Emit
CHECK_DEADLOCK FALSE

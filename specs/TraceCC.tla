------------------------------- MODULE TraceCC -------------------------------
(***************************************************************************)
(* Certificate validation for connected-pixel labelling of images beyond   *)
(* the scope TLC can enumerate (C11, mode C: code -> spec).                *)
(*                                                                         *)
(* Each line of the ndjson file named by the environment variable          *)
(* TRACE_FILE records one real kernel call:                                *)
(*   ns, nf, con8,                                                         *)
(*   vkey[p]  the float32 pixel value the kernel was given, as its         *)
(*            order-preserving integer key (the IEEE bit pattern b read as *)
(*            a signed 32-bit integer: b if b >= 0, -(b & 0x7fffffff)      *)
(*            otherwise; x < y <=> key(x) < key(y) for all non-NaN         *)
(*            float32 incl. +-inf, subnormals, key(-0) = key(+0) = 0),     *)
(*   tkey     the same key of the threshold as the kernel receives it      *)
(*            (its parameter is a float32: the caller's number rounded),   *)
(*   labels[p] (kernel output), n (returned count),                        *)
(*   parent[p], depth[p] : a spanning forest of the label classes          *)
(*   computed by the recorder (parent = -1 for a root)                     *)
(* "strictly above the threshold" is decided HERE, on the exact keys (no   *)
(* floating point, no boolean image supplied by the recorder):             *)
(*   Ab(c, p) == vkey[p] > tkey                                            *)
(* "labels = connected components" is equivalent to the local conditions   *)
(*   L1 background   labels[p] = 0  <=>  ~Ab(p)                            *)
(*   L2 closed       adjacent above pixels carry the same label            *)
(*   L3 connected    every non-root pixel's parent is an adjacent pixel of *)
(*                   the same label with depth one smaller; one root per   *)
(*                   label (so every class is connected)                   *)
(*   L4 numbering    labels used are exactly 1..n                          *)
(* which are linear in the image size.  One state per trace line; the      *)
(* verdict of every line is printed (`@@{"id":..,"ok":..,"why":..}`).      *)
(*                                                                         *)
(* The certificate does not say which route produced the labels: the       *)
(* harness sends the arrays of cImageD11.connectedpixels (any thread       *)
(* count), sparse_connectedpixels and _splat (scattered to the image);     *)
(* the Python wrappers (labelimage.labelpeaks for every input dtype and    *)
(* memory layout, sparseframe.sparse_connected_pixels with any array       *)
(* names, SparseScan.cplabel frame by frame) are judged by equality with   *)
(* an array this module accepted (label classes, numbering and count are   *)
(* covariant under those call shapes: the same kernel on the same float32  *)
(* values).  So are the option arguments: connectedpixels with verbose 1   *)
(* and 2 must return the certified verbose = 0 array, and                  *)
(* sparse_connected_pixels the array certified for the threshold REQUESTED *)
(* (tkey), whatever cut the frame's meta data record (None, 0, negative,   *)
(* positive arguments x absent / equal / lower / higher recorded cut).     *)
(* One labelimage object driven over a series of frames (peaksearch with   *)
(* and without mergelast, labelpeaks): after every call blim / npk must be *)
(* the certified array of that frame; for inserted frames with nothing     *)
(* above the threshold (all below / all equal / all zero) the wrapper's    *)
(* own blim, taken after two or more labelled frames, is sent here as a    *)
(* certificate of its own (L1 rejects labels left over from older frames). *)
(* NaN pixels are outside this module (no key; the property statement is   *)
(* silent on them).                                                        *)
(***************************************************************************)
EXTENDS Integers, Sequences, FiniteSets, TLC, Json, IOUtils

Trace == ndJsonDeserialize(IOEnv.TRACE_FILE)

VARIABLE l
Init == l = 1
Next == l <= Len(Trace) /\ l' = l + 1
Spec == Init /\ [][Next]_l

Ab(c, p) == c.vkey[p] > c.tkey

L1(c) == \A p \in 1..(c.ns * c.nf) : (c.labels[p] = 0) <=> ~Ab(c, p)
\* forward neighbours only (E, SW, S, SE): each adjacent pair is examined once
L2(c) ==
  \A p \in 1..(c.ns * c.nf) :
    Ab(c, p) =>
      LET r == (p - 1) \div c.nf   q == (p - 1) % c.nf
          ok(dr, dq) == LET r2 == r + dr  q2 == q + dq
                        IN (r2 < c.ns /\ q2 >= 0 /\ q2 < c.nf /\ Ab(c, r2 * c.nf + q2 + 1))
                             => c.labels[r2 * c.nf + q2 + 1] = c.labels[p]
      IN /\ ok(0, 1) /\ ok(1, 0)
         /\ (c.con8 = 1 => ok(1, -1) /\ ok(1, 1))
L3(c) ==
  /\ \A p \in 1..(c.ns * c.nf) :
       (Ab(c, p) /\ c.parent[p] # -1) =>
          LET m == c.parent[p] + 1
              dr == ((p - 1) \div c.nf) - ((m - 1) \div c.nf)
              dq == ((p - 1) % c.nf) - ((m - 1) % c.nf)
          IN /\ m \in 1..(c.ns * c.nf) /\ m # p
             /\ c.labels[m] = c.labels[p]
             /\ c.depth[m] = c.depth[p] - 1
             /\ dr \in {-1, 0, 1} /\ dq \in {-1, 0, 1}
             /\ (c.con8 = 1 \/ dr = 0 \/ dq = 0)
  /\ \A p \in 1..(c.ns * c.nf) : (Ab(c, p) /\ c.parent[p] = -1) => c.depth[p] = 0
  /\ LET roots == {p \in 1..(c.ns * c.nf) : Ab(c, p) /\ c.parent[p] = -1}
     IN /\ Cardinality(roots) = c.n
        /\ {c.labels[p] : p \in roots} = 1..c.n
L4(c) == \A p \in 1..(c.ns * c.nf) : c.labels[p] >= 0 /\ c.labels[p] <= c.n

Why(c) == IF ~L1(c) THEN "L1 background" ELSE IF ~L2(c) THEN "L2 adjacent pixels with different labels"
          ELSE IF ~L4(c) THEN "L4 label out of 1..n" ELSE IF ~L3(c) THEN "L3 a label class is not connected / roots # n"
          ELSE "ok"
Verdict == l > Len(Trace) \/
           LET c == Trace[l] w == Why(c)
           IN PrintT("@@" \o ToJson([id |-> c.id, ok |-> (w = "ok"), why |-> w]))
=============================================================================

------------------------------- MODULE TraceCC -------------------------------
(***************************************************************************)
(* Certificate validation for connected-pixel labelling of images beyond   *)
(* the scope TLC can enumerate (C11, mode C: code -> spec).                *)
(*                                                                         *)
(* Each line of the ndjson file named by the environment variable          *)
(* TRACE_FILE records one real kernel call:                                *)
(*   ns, nf, con8, above[p] (0/1), labels[p] (kernel output), n (returned  *)
(*   count), parent[p], depth[p] : a spanning forest of the label classes  *)
(*   computed by the recorder (parent = -1 for a root)                     *)
(* "labels = connected components" is equivalent to the local conditions   *)
(*   L1 background   labels[p] = 0  <=>  above[p] = 0                      *)
(*   L2 closed       adjacent above pixels carry the same label            *)
(*   L3 connected    every non-root pixel's parent is an adjacent pixel of *)
(*                   the same label with depth one smaller; one root per   *)
(*                   label (so every class is connected)                   *)
(*   L4 numbering    labels used are exactly 1..n                          *)
(* which are linear in the image size.  One state per trace line; the      *)
(* verdict of every line is printed (`@@{"id":..,"ok":..,"why":..}`).      *)
(***************************************************************************)
EXTENDS Integers, Sequences, FiniteSets, TLC, Json, IOUtils

Trace == ndJsonDeserialize(IOEnv.TRACE_FILE)

VARIABLE l
Init == l = 1
Next == l <= Len(Trace) /\ l' = l + 1
Spec == Init /\ [][Next]_l

L1(c) == \A p \in 1..(c.ns * c.nf) : (c.labels[p] = 0) <=> (c.above[p] = 0)
\* forward neighbours only (E, SW, S, SE): each adjacent pair is examined once
L2(c) ==
  \A p \in 1..(c.ns * c.nf) :
    c.above[p] = 1 =>
      LET r == (p - 1) \div c.nf   q == (p - 1) % c.nf
          ok(dr, dq) == LET r2 == r + dr  q2 == q + dq
                        IN (r2 < c.ns /\ q2 >= 0 /\ q2 < c.nf /\ c.above[r2 * c.nf + q2 + 1] = 1)
                             => c.labels[r2 * c.nf + q2 + 1] = c.labels[p]
      IN /\ ok(0, 1) /\ ok(1, 0)
         /\ (c.con8 = 1 => ok(1, -1) /\ ok(1, 1))
L3(c) ==
  /\ \A p \in 1..(c.ns * c.nf) :
       (c.above[p] = 1 /\ c.parent[p] # -1) =>
          LET m == c.parent[p] + 1
              dr == ((p - 1) \div c.nf) - ((m - 1) \div c.nf)
              dq == ((p - 1) % c.nf) - ((m - 1) % c.nf)
          IN /\ m \in 1..(c.ns * c.nf) /\ m # p
             /\ c.labels[m] = c.labels[p]
             /\ c.depth[m] = c.depth[p] - 1
             /\ dr \in {-1, 0, 1} /\ dq \in {-1, 0, 1}
             /\ (c.con8 = 1 \/ dr = 0 \/ dq = 0)
  /\ \A p \in 1..(c.ns * c.nf) : (c.above[p] = 1 /\ c.parent[p] = -1) => c.depth[p] = 0
  /\ LET roots == {p \in 1..(c.ns * c.nf) : c.above[p] = 1 /\ c.parent[p] = -1}
     IN /\ Cardinality(roots) = c.n
        /\ {c.labels[p] : p \in roots} = 1..c.n
L4(c) == \A p \in 1..(c.ns * c.nf) : c.labels[p] >= 0 /\ c.labels[p] <= c.n

Why(c) == IF ~L1(c) THEN "L1 background" ELSE IF ~L2(c) THEN "L2 adjacent pixels with different labels"
          ELSE IF ~L4(c) THEN "L4 label out of 1..n" ELSE IF ~L3(c) THEN "L3 a label class is not connected / roots # n"
          ELSE "ok"
Verdict == l > Len(Trace) \/
           LET c == Trace[l] w == Why(c)
           IN PrintT("@@" \o ToJson([id |-> c.id, ok |-> (w = "ok"), why |-> w]))
=============================================================================

SPECIFICATION Spec
CONSTANTS
  NG = 2
  MAXCALLS = 3
  MAXFIT = 1
  NP = 1
  E = 2
  LAST_WINS = FALSE
  SORT_OBJ_ONLY = FALSE
  BLOCK = 1
  TAIL_COUNT = FALSE
  START_INT = TRUE
  KEEP_DTYPE = TRUE
  DROP_SETT = FALSE
INVARIANT StoredIsFitted
CHECK_DEADLOCK FALSE

\* X07 quick: numba threading layer launch / get / set and the OpenMP register
SPECIFICATION Spec
CONSTANTS
  EnvOmp = {1}
  Cores = {3}
  Slurm = {0}
  PutVals = {}
  SetVals = {}
  NbVals = {2, 4}
  Starts = {}
  Hows = {"fork"}
  POps = {"import", "nbget", "nbset", "launch"}
  COps = {"nbget"}
  NW = 0
  MaxDepth = 4
  BUG_INHERIT = TRUE
  BUG_NBRESET = TRUE
  EmitMode = 1
INVARIANT TypeOK
INVARIANT RegPositive
INVARIANT SafeNeverStuck
INVARIANT StopBound
INVARIANT LateNoWork
PROPERTY SetGet
PROPERTY WarnRule
PROPERTY PatchSafe
PROPERTY OneThreadNeverStuck
PROPERTY Restore
PROPERTY StopSticky
PROPERTY DoneIsFinal
PROPERTY RaiseStops
PROPERTY FlagPerProcess
PROPERTY PbpOneThread
ACTION_CONSTRAINT EmitTransition
VIEW View
CHECK_DEADLOCK FALSE

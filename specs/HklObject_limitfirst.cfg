\* C03 object histories: documented NON-theorem: the limit recorded before the list exists (RetInv / CacheInv violated)
SPECIFICATION Spec
CONSTANTS
  NLIM = 2
  DEPTH = 3
  ORDER = "limit-first"
  EMIT = FALSE
INVARIANT TypeOK
INVARIANT RetInv
INVARIANT CacheInv
INVARIANT RingInv
INVARIANT Emit
CHECK_DEADLOCK FALSE

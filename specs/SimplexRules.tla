---------------------------- MODULE SimplexRules ----------------------------
(***************************************************************************)
(* Extension check X05.  The value-only part of ImageD11/simplex.py        *)
(* Simplex.minimize (lines 112-203): everything the loop body decides from *)
(* the stored function values alone.  Shared by                            *)
(*   Simplex.tla       exact model (coordinates and objective values are   *)
(*                     dyadic rationals, so the values are integers), and  *)
(*   TraceSimplex.tla  validation of recorded real runs with float         *)
(*                     objectives (values are order preserving ranks).     *)
(* No constants, no variables.  E is a function 0..N -> Int (N+1 vertex    *)
(* values), indices are the Python indices 0..N.                           *)
(*                                                                         *)
(* Transcriptions (statement by statement)                                 *)
(*   HiLo            lines 115-121  first maximum / first minimum          *)
(*   SecondHighest   lines 125-132  scan that starts at `lowest`           *)
(*   AcceptsTrial    lines 182 191 200   currenterror < errors[highest]    *)
(*   TriesExpansion  line 185            currenterror <= errors[lowest]    *)
(*   TriesContraction line 193 (elif)    currenterror >= errors[second..]  *)
(*   PyIdx           Python's negative list index (lowest = -1 after       *)
(*                   __init__, line 72, is used by the return at 208-210   *)
(*                   when the loop body never ran)                         *)
(* Definitions used by the laws (independent of the scans)                 *)
(*   MinOf MaxOf FirstArgMin FirstArgMax RankLaw                           *)
(***************************************************************************)
EXTENDS Integers, Sequences

RECURSIVE ScanHiLo(_, _, _, _, _)
ScanHiLo(E, N, v, h, l) ==
    IF v > N THEN <<h, l>>
    ELSE ScanHiLo(E, N, v + 1, IF E[v] > E[h] THEN v ELSE h, IF E[v] < E[l] THEN v ELSE l)
HiLo(E, N) == ScanHiLo(E, N, 1, 0, 0)

RECURSIVE ScanSh(_, _, _, _, _)
ScanSh(E, N, v, s, h) ==
    IF v > N THEN s
    ELSE ScanSh(E, N, v + 1,
                IF v = h THEN s ELSE IF v = s THEN s ELSE IF E[v] > E[s] THEN v ELSE s, h)
SecondHighest(E, N, h, l) == ScanSh(E, N, 0, l, h)

AcceptsTrial(cur, E, h) == cur < E[h]
TriesExpansion(cur, E, l) == cur <= E[l]
TriesContraction(cur, E, l, s) == ~(cur <= E[l]) /\ cur >= E[s]

PyIdx(i, len) == IF i < 0 THEN len + i ELSE i

\* ---- definitions for the laws ----------------------------------------------------------
MinOf(E, N) == CHOOSE m \in {E[v] : v \in 0..N} : \A v \in 0..N : m <= E[v]
MaxOf(E, N) == CHOOSE m \in {E[v] : v \in 0..N} : \A v \in 0..N : m >= E[v]
FirstArgMin(E, N) == CHOOSE v \in 0..N : E[v] = MinOf(E, N) /\ \A w \in 0..(v - 1) : E[w] > E[v]
FirstArgMax(E, N) == CHOOSE v \in 0..N : E[v] = MaxOf(E, N) /\ \A w \in 0..(v - 1) : E[w] < E[v]

\* what a reader expects of highest / lowest / secondhighest.  Ties: highest and lowest are the FIRST index (which
\* vertex moves and which is returned depends on it); of secondhighest only the value is ever used.
RankLaw(E, N, h, l, s) ==
    /\ h = FirstArgMax(E, N)
    /\ l = FirstArgMin(E, N)
    /\ s \in 0..N
    /\ \A v \in (0..N) \ {h} : E[v] <= E[s]
    /\ (h # l) => s # h
    /\ (h = l) => \A v \in 0..N : E[v] = E[0]

\* at most one reflection, one expansion or contraction and N re-evaluations per pass
EvalBudget(N, passes) == (N + 1) + passes * (N + 2)
=============================================================================

\* two threads, dynamic grab; every multiset of exactly 4 edges over 4 nodes (3876 instances, ~12.6e6 states)
SPECIFICATION Spec
CONSTANTS
  NSet = {4}
  ESet = {4}
  Threads = {t1, t2}
  Static = FALSE
  OrdSet = {0}
  History = TRUE
  DoEmit = FALSE
  Bug = "none"
  Hist = 0
  DsHist = 0
  DsOps = {}
  NMon = 0
  Neg = TRUE
  Shape = "sorted"
SYMMETRY Sym
INVARIANT TypeOK
INVARIANT InComp
INVARIANT MinFixed
INVARIANT LocalsOK
INVARIANT ZeroAgree
INVARIANT Fixpoint
INVARIANT FixReadsRoot
INVARIANT CleanOK
INVARIANT MergeOK
INVARIANT SweepLegal
INVARIANT SeqExact
INVARIANT EmitInv
CHECK_DEADLOCK FALSE

------------------------------- MODULE Simplex -------------------------------
(***************************************************************************)
(* Extension check X05 (specification growth, not one of the listed        *)
(* properties): the Nelder-Mead optimiser ImageD11/simplex.py              *)
(*   Simplex.__init__ 52-93, minimize 95-211, contract/expand/reflect      *)
(*   215-235, multiple_contract_simplex 239-246, accept_* 248-264,         *)
(*   calculate_errors_at_vertices 266-275                                  *)
(* as used by refinegrains.fit 588-624, refinegrains.refinepositions       *)
(* 636-660 and transformer.fit 372-432 (the three callers; all use the     *)
(* default kR kE kC and read the returned triple).                         *)
(*                                                                         *)
(* EXACT arithmetic.  A coordinate x is the integer x * 2^K, an objective  *)
(* value y is the integer y * 4^K.  The objectives (operator F) are        *)
(* quadratic forms, piecewise linear and piecewise constant functions with *)
(* small integer coefficients; kR kE are integers, kC a multiple of 1/4,   *)
(* the dimension N is 1, 2 or 4 (3 while the centroid sums divide), so     *)
(* every float operation of the real code on these inputs is exact in      *)
(* binary64 and the model predicts the real run bit for bit.  When a       *)
(* division would not be exact at 2^-K or a point leaves the box           *)
(* |x| <= BOX the behaviour stops in pc = "oos" (out of scope) and the     *)
(* harness compares the prefix.                                            *)
(* The stopping rule T = sqrt(sum (e - mean)^2 / N) <= epsilon is decided  *)
(* exactly as  sum_{v<w} (e_v - e_w)^2 <= floor(eps^2 N (N+1) 16^K):       *)
(* epsilon is negative (never stops), zero (stops iff all values are       *)
(* equal) or en / 2^ek with en odd and ek >= 2K+2, for which T = epsilon   *)
(* is impossible (ASSUME EpsOK), so the float decision cannot sit on the   *)
(* boundary (the harness re-checks the margin of every decision).          *)
(*                                                                         *)
(* Variables                                                               *)
(*   c      the case: objective fn, dimension n, guess x0 and increments   *)
(*          inc in quarter units, eps, maxit, kk = <<kR, kE, 4 kC>>        *)
(*   pc     "new" "top" "test" "branch" "ret" "done" "oos"                 *)
(*   S      self.simplex: 0..n vertices, n+1 centroid, n+2 reflected point *)
(*   E      self.errors 0..n      G  self.guess (the caller's list)        *)
(*   cur    self.currenterror     lo hi sh  self.lowest/highest/second..   *)
(*   it     the Python loop variable `iter`;  steps = completed passes     *)
(*   evals  history: every call of testfunc <<point, value>> in order      *)
(*   snaps  history: the state seen by the monitor test (line 151) of each *)
(*          pass; acts history: names of the actions taken                 *)
(*   top    <<S, E>> at the last Rank (for the Textbook law)               *)
(*   ret    the returned triple; exit "eps" / "maxit"                      *)
(* Actions (one per branch of the code)                                    *)
(*   Construct (__init__), Rank (115-132 + monitor), Converge (157 break), *)
(*   Exhaust (for loop ends), ReflectAccept / ReflectReject (168-183),     *)
(*   Keep (neither 185 nor 193), ExpandAccept / ExpandReject (185-192),    *)
(*   ContractAccept (197-201), MultiContract (203), Return (208-211),      *)
(*   Oos* (leaving the exact domain).                                      *)
(* FIXED = FALSE is the code as it is; FIXED = TRUE recomputes `lowest`    *)
(* before the return (the proposed patch).                                 *)
(*                                                                         *)
(* Laws (none mentions the steps of the loop body)                         *)
(*   NoStaleErrors     every stored value is F of its stored vertex        *)
(*   RankOK            highest / lowest are the FIRST vertex with the      *)
(*                     largest / smallest value, errors[secondhighest] is  *)
(*                     the largest value among the others (only its value  *)
(*                     is used, so its index is not compared)              *)
(*   BestNeverIncreases (action) min(E) never goes up                      *)
(*   OnlyWorstMoves    (action) a pass changes the highest vertex only,    *)
(*                     to a strictly better value, or (multiple            *)
(*                     contraction) keeps the lowest vertex                *)
(*   Textbook          after each pass the simplex equals one step of the  *)
(*                     amoeba of Numerical Recipes written as a function   *)
(*                     (TB).  Against Nelder & Mead 1965, named by the     *)
(*                     docstring, two documented differences remain and    *)
(*                     are NOT counted as defects: expansion is tried when *)
(*                     y* <= y_l (1965: <) and kept when y** < y* (1965:   *)
(*                     y** < y_l); the comments in the file say "agrees    *)
(*                     with NR".                                           *)
(*   NonDegenerate     n <= 2: the edge determinant is non-zero iff no     *)
(*                     increment is zero (n > 2: evaluated by the harness  *)
(*                     on the real vertices with fractions)                *)
(*   EvalCount         n+1+steps <= #evaluations <= n+1+steps(n+2)         *)
(*   ExitOK            "eps" exit: the stopping rule holds on the stored   *)
(*                     values and fewer than maxit passes ran; "maxit":    *)
(*                     exactly maxit passes ran                            *)
(*   IterMeaning       returned count = passes completed on the "eps"      *)
(*                     exit and max(maxit-1, 0) on the "maxit" exit.       *)
(*                     (The code promises no more: a run that stops on     *)
(*                     maxiters and one that converges at the top of its   *)
(*                     last pass return the same number.  Stated as is.)   *)
(*   ReturnIsVertexValue   returned value = F(returned point)              *)
(*   ReturnIsBest      the returned point is a vertex carrying the         *)
(*                     smallest stored value, on BOTH exits                *)
(*   LastEvalIsReturned the point testfunc saw last is the returned point  *)
(*                     (what refinepositions relies on when it reads the   *)
(*                     parameter object instead of the returned list).     *)
(*                     NOT promised by any Nelder-Mead; holds in neither   *)
(*                     variant, kept as Simplex_asis_last.cfg to show it   *)
(*   Termination       (temporal) every behaviour reaches "done" or "oos"  *)
(* With FIXED = FALSE TLC refutes ReturnIsBest (maxit >= 1 exit) and       *)
(* ReturnIsVertexValue (maxit = 0: lowest = -1 pairs x0 with the value of  *)
(* the last vertex): Simplex_asis_best.cfg / Simplex_asis_value.cfg.       *)
(*                                                                         *)
(* Bounds: K = 6..10, |x| <= BOX = 6, maxit <= 8 (n=1), 5 (n=2), 3 (n=3,4). *)
(* Case sets Cases_q (1460 cases, 12k states, 7 s), Cases_eps (2818 cases, *)
(* 20k states), Cases_t1 t2 t2k t3 t4 (thorough: 9720 + 4860 + 810 + 432 + *)
(* 2916 cases, ~230k states).  Emit prints one JSON record per finished    *)
(* behaviour: the case, the evaluation log, what every pass saw, the       *)
(* actions, the final state, the as-is return and the best vertex.         *)
(***************************************************************************)
EXTENDS SimplexRules, FiniteSets, TLC, Json

CONSTANTS K, BOX, Cases, FIXED

D == 2^K

VARIABLES c, pc, S, E, G, cur, lo, hi, sh, it, steps, evals, snaps, acts, top, ret, exit
vars == <<c, pc, S, E, G, cur, lo, hi, sh, it, steps, evals, snaps, acts, top, ret, exit>>

\* ---- exact objective functions ------------------------------------------------------------
Abs(a) == IF a < 0 THEN -a ELSE a
RECURSIVE Sum(_, _)
Sum(f, n) == IF n = 0 THEN 0 ELSE f[n] + Sum(f, n - 1)
MaxSeq(f, n) == CHOOSE m \in {f[i] : i \in 1..n} : \A i \in 1..n : f[i] <= m
Cc == <<3, -1, 2, -2>>
Ww == <<1, 2, 3, 2>>

\* value * 4^K at the point p / 2^K
F(fn, p) ==
  LET n == Len(p) IN
  CASE fn = "sph"  -> Sum([i \in 1..n |-> (p[i] - Cc[i] * D) * (p[i] - Cc[i] * D)], n)
    [] fn = "ell"  -> Sum([i \in 1..n |-> Ww[i] * p[i] * p[i]], n)
                      + Sum([i \in 1..(n - 1) |-> p[i] * p[i + 1]], n - 1) - 3 * D * p[1]
    [] fn = "sad"  -> p[1] * p[1] - Sum([i \in 1..(n - 1) |-> p[i + 1] * p[i + 1]], n - 1)
    [] fn = "abs"  -> D * Sum([i \in 1..n |-> Ww[i] * Abs(p[i] - Cc[i] * D)], n)
    [] fn = "cheb" -> D * MaxSeq([i \in 1..n |-> Abs(p[i] - Cc[i] * D)], n)
    [] fn = "flat" -> 5 * D * D
    [] fn = "plat" -> D * D * Cardinality({i \in 1..n : p[i] > Cc[i] * D})
    [] fn = "nabs" -> -(D * Sum([i \in 1..n |-> Abs(p[i])], n))
    [] fn = "lin"  -> D * Sum([i \in 1..n |-> Ww[i] * p[i]], n)

InBox(p) == \A i \in 1..Len(p) : p[i] >= -(BOX * D) /\ p[i] <= BOX * D

X0 == [i \in 1..c.n |-> c.x0[i] * (D \div 4)]
Inc == [i \in 1..c.n |-> c.inc[i] * (D \div 4)]
kR == c.kk[1]
kE == c.kk[2]
kC4 == c.kk[3]

\* ---- the stopping rule, lines 137-147 and 157, decided exactly ---------------------------
Thr(cs) == (cs.eps.en * cs.eps.en * cs.n * (cs.n + 1)) \div (2^(2 * (cs.eps.ek - 2 * K)))
Spread2(Ev, n) ==
    Sum([v \in 1..(n + 1) |->
            Sum([w \in 1..(n + 1) |-> IF v < w THEN (Ev[v - 1] - Ev[w - 1]) * (Ev[v - 1] - Ev[w - 1]) ELSE 0], n + 1)],
        n + 1)
Conv(cs, Ev) ==
    CASE cs.eps.kind = "neg"  -> FALSE
      [] cs.eps.kind = "zero" -> \A v \in 0..cs.n : Ev[v] = Ev[0]
      [] cs.eps.kind = "pos"  ->
            IF \E v, w \in 0..cs.n : Abs(Ev[v] - Ev[w]) >= 8192 THEN FALSE
            ELSE Spread2(Ev, cs.n) <= Thr(cs)

EpsOK == \A cs \in Cases :
            /\ cs.n \in 1..4 /\ Len(cs.x0) = cs.n /\ Len(cs.inc) = cs.n /\ cs.maxit >= 0 /\ K >= 2
            /\ cs.kk[1] < 0 /\ cs.kk[2] > 1 /\ cs.kk[3] \in 1..3
            /\ cs.eps.kind = "pos" =>
                  /\ cs.eps.en % 2 = 1 /\ cs.eps.ek >= 2 * K + 2 /\ cs.eps.en < 16384
                  /\ Thr(cs) < 67108864
ASSUME EpsOK

\* ---- helpers -----------------------------------------------------------------------------
Seq0(f, m) == [i \in 1..(m + 1) |-> f[i - 1]]
Others(n, l) == SelectSeq([k \in 1..(n + 1) |-> k - 1], LAMBDA v : v # l)
Last(s) == s[Len(s)]

\* calculate_errors_at_vertices (266-275) on the vertices Sx, skipping l
CalcE(Sx, Ex, l) == [v \in 0..c.n |-> IF v = l THEN Ex[v] ELSE F(c.fn, Sx[v])]
CalcEvals(Sx, l) == LET o == Others(c.n, l) IN [k \in 1..Len(o) |-> <<Sx[o[k]], F(c.fn, Sx[o[k]])>>]

\* centroid of all vertices but hi (168-174): the sums, and whether S / numvars is exact
CenSum == [x \in 1..c.n |-> Sum([k \in 1..(c.n + 1) |-> IF k - 1 = hi THEN 0 ELSE S[k - 1][x]], c.n + 1)]
CenExact == \A x \in 1..c.n : CenSum[x] % c.n = 0
Cen == [x \in 1..c.n |-> CenSum[x] \div c.n]
\* reflect_simplex (229-235)
RTrial == [x \in 1..c.n |-> kR * S[hi][x] + (1 - kR) * Cen[x]]
\* expand_simplex (222-225) works on self.guess and the stored centroid
ETrial == [x \in 1..c.n |-> kE * G[x] + (1 - kE) * S[c.n + 1][x]]
\* contract_simplex (215-218): kC * simplex[highest] + (1 - kC) * centroid
CNum == [x \in 1..c.n |-> kC4 * S[hi][x] + (4 - kC4) * S[c.n + 1][x]]
CExact == \A x \in 1..c.n : CNum[x] % 4 = 0
CTrial == [x \in 1..c.n |-> CNum[x] \div 4]
\* multiple_contract_simplex (239-246)
MExact == \A v \in 0..c.n : \A x \in 1..c.n : v # lo => (S[v][x] + S[lo][x]) % 2 = 0
MSimplex == [v \in 0..(c.n + 2) |->
                IF v <= c.n /\ v # lo THEN [x \in 1..c.n |-> (S[v][x] + S[lo][x]) \div 2] ELSE S[v]]

Snap == [it |-> steps, hi |-> HiLo(E, c.n)[1], lo |-> HiLo(E, c.n)[2],
         sh |-> SecondHighest(E, c.n, HiLo(E, c.n)[1], HiLo(E, c.n)[2]),
         E |-> Seq0(E, c.n), S |-> Seq0(S, c.n + 2), G |-> G, cur |-> cur]

\* ---- actions -----------------------------------------------------------------------------
Init == /\ c \in Cases /\ pc = "new"
        /\ S = <<>> /\ E = <<>> /\ G = <<>> /\ cur = 0
        /\ lo = -1 /\ hi = -1 /\ sh = -1 /\ it = 0 /\ steps = 0
        /\ evals = <<>> /\ snaps = <<>> /\ acts = <<>> /\ top = <<>> /\ ret = <<>> /\ exit = "none"

GoOos(name) == /\ pc' = "oos" /\ acts' = Append(acts, name)
               /\ UNCHANGED <<c, S, E, G, cur, lo, hi, sh, it, steps, evals, snaps, top, ret, exit>>

S0 == [v \in 0..(c.n + 2) |-> IF v \in 1..c.n THEN [X0 EXCEPT ![v] = X0[v] + Inc[v]] ELSE X0]
Construct ==
    /\ pc = "new" /\ \A v \in 0..c.n : InBox(S0[v])
    /\ S' = S0
    /\ E' = [v \in 0..c.n |-> F(c.fn, S0[v])]          \* lowest = -1: no vertex is skipped
    /\ evals' = [k \in 1..(c.n + 1) |-> <<S0[k - 1], F(c.fn, S0[k - 1])>>]
    /\ G' = S0[c.n] /\ cur' = F(c.fn, S0[c.n])
    /\ pc' = "top" /\ acts' = Append(acts, "Construct")
    /\ UNCHANGED <<c, lo, hi, sh, it, steps, snaps, top, ret, exit>>
OosConstruct == pc = "new" /\ ~(\A v \in 0..c.n : InBox(S0[v])) /\ GoOos("OosConstruct")

Exhaust == /\ pc = "top" /\ steps >= c.maxit
           /\ pc' = "ret" /\ exit' = "maxit" /\ acts' = Append(acts, "Exhaust")
           /\ UNCHANGED <<c, S, E, G, cur, lo, hi, sh, it, steps, evals, snaps, top, ret>>

Rank == /\ pc = "top" /\ steps < c.maxit
        /\ it' = steps
        /\ hi' = HiLo(E, c.n)[1] /\ lo' = HiLo(E, c.n)[2]
        /\ sh' = SecondHighest(E, c.n, HiLo(E, c.n)[1], HiLo(E, c.n)[2])
        /\ snaps' = Append(snaps, Snap) /\ top' = <<S, E>>
        /\ pc' = "test" /\ acts' = Append(acts, "Rank")
        /\ UNCHANGED <<c, S, E, G, cur, steps, evals, ret, exit>>

Converge == /\ pc = "test" /\ Conv(c, E)
            /\ pc' = "ret" /\ exit' = "eps" /\ acts' = Append(acts, "Converge")
            /\ UNCHANGED <<c, S, E, G, cur, lo, hi, sh, it, steps, evals, snaps, top, ret>>

ReflectInScope == CenExact /\ InBox(RTrial)
Reflected == [S EXCEPT ![c.n + 1] = Cen, ![c.n + 2] = RTrial]
ReflectAccept ==
    /\ pc = "test" /\ ~Conv(c, E) /\ ReflectInScope
    /\ AcceptsTrial(F(c.fn, RTrial), E, hi)
    /\ S' = [Reflected EXCEPT ![hi] = RTrial]          \* accept_reflected_point copies slot n+2
    /\ E' = [E EXCEPT ![hi] = F(c.fn, RTrial)]
    /\ G' = RTrial /\ cur' = F(c.fn, RTrial)
    /\ evals' = Append(evals, <<RTrial, F(c.fn, RTrial)>>)
    /\ pc' = "branch" /\ acts' = Append(acts, "ReflectAccept")
    /\ UNCHANGED <<c, lo, hi, sh, it, steps, snaps, top, ret, exit>>
ReflectReject ==
    /\ pc = "test" /\ ~Conv(c, E) /\ ReflectInScope
    /\ ~AcceptsTrial(F(c.fn, RTrial), E, hi)
    /\ S' = Reflected
    /\ G' = RTrial /\ cur' = F(c.fn, RTrial)
    /\ evals' = Append(evals, <<RTrial, F(c.fn, RTrial)>>)
    /\ pc' = "branch" /\ acts' = Append(acts, "ReflectReject")
    /\ UNCHANGED <<c, E, lo, hi, sh, it, steps, snaps, top, ret, exit>>
OosReflect == pc = "test" /\ ~Conv(c, E) /\ ~ReflectInScope /\ GoOos("OosReflect")

EndPass == steps' = steps + 1 /\ pc' = "top"

Keep == /\ pc = "branch" /\ ~TriesExpansion(cur, E, lo) /\ ~TriesContraction(cur, E, lo, sh)
        /\ EndPass /\ acts' = Append(acts, "Keep")
        /\ UNCHANGED <<c, S, E, G, cur, lo, hi, sh, it, evals, snaps, top, ret, exit>>

ExpandAccept ==
    /\ pc = "branch" /\ TriesExpansion(cur, E, lo) /\ InBox(ETrial)
    /\ AcceptsTrial(F(c.fn, ETrial), E, hi)            \* E[hi] may already hold the reflected value
    /\ S' = [S EXCEPT ![hi] = ETrial] /\ E' = [E EXCEPT ![hi] = F(c.fn, ETrial)]
    /\ G' = ETrial /\ cur' = F(c.fn, ETrial)
    /\ evals' = Append(evals, <<ETrial, F(c.fn, ETrial)>>)
    /\ EndPass /\ acts' = Append(acts, "ExpandAccept")
    /\ UNCHANGED <<c, lo, hi, sh, it, snaps, top, ret, exit>>
ExpandReject ==
    /\ pc = "branch" /\ TriesExpansion(cur, E, lo) /\ InBox(ETrial)
    /\ ~AcceptsTrial(F(c.fn, ETrial), E, hi)
    /\ G' = ETrial /\ cur' = F(c.fn, ETrial)
    /\ evals' = Append(evals, <<ETrial, F(c.fn, ETrial)>>)
    /\ EndPass /\ acts' = Append(acts, "ExpandReject")
    /\ UNCHANGED <<c, S, E, lo, hi, sh, it, snaps, top, ret, exit>>
OosExpand == pc = "branch" /\ TriesExpansion(cur, E, lo) /\ ~InBox(ETrial) /\ GoOos("OosExpand")

ContractAccept ==
    /\ pc = "branch" /\ TriesContraction(cur, E, lo, sh) /\ CExact
    /\ AcceptsTrial(F(c.fn, CTrial), E, hi)
    /\ S' = [S EXCEPT ![hi] = CTrial] /\ E' = [E EXCEPT ![hi] = F(c.fn, CTrial)]
    /\ G' = CTrial /\ cur' = F(c.fn, CTrial)
    /\ evals' = Append(evals, <<CTrial, F(c.fn, CTrial)>>)
    /\ EndPass /\ acts' = Append(acts, "ContractAccept")
    /\ UNCHANGED <<c, lo, hi, sh, it, snaps, top, ret, exit>>
MultiContract ==
    /\ pc = "branch" /\ TriesContraction(cur, E, lo, sh) /\ CExact /\ MExact
    /\ ~AcceptsTrial(F(c.fn, CTrial), E, hi)
    /\ S' = MSimplex /\ E' = CalcE(MSimplex, E, lo)
    /\ evals' = Append(evals, <<CTrial, F(c.fn, CTrial)>>) \o CalcEvals(MSimplex, lo)
    /\ G' = Last(CalcEvals(MSimplex, lo))[1] /\ cur' = Last(CalcEvals(MSimplex, lo))[2]
    /\ EndPass /\ acts' = Append(acts, "MultiContract")
    /\ UNCHANGED <<c, lo, hi, sh, it, snaps, top, ret, exit>>
OosContract ==
    /\ pc = "branch" /\ TriesContraction(cur, E, lo, sh)
    /\ ~CExact \/ (~AcceptsTrial(F(c.fn, CTrial), E, hi) /\ ~MExact)
    /\ GoOos("OosContract")

\* lines 208-211.  FIXED: `lowest` is recomputed from the stored values first
Return ==
    /\ pc = "ret"
    /\ LET l == IF FIXED THEN FirstArgMin(E, c.n) ELSE lo
           g == S[PyIdx(l, c.n + 3)]
           e == E[PyIdx(l, c.n + 1)]
       IN /\ lo' = l /\ G' = g /\ cur' = e
          /\ ret' = [x |-> g, err |-> e, it |-> it]
    /\ pc' = "done" /\ acts' = Append(acts, "Return")
    /\ UNCHANGED <<c, S, E, hi, sh, it, steps, evals, snaps, top, exit>>

Next == \/ Construct \/ OosConstruct \/ Exhaust \/ Rank \/ Converge
        \/ ReflectAccept \/ ReflectReject \/ OosReflect \/ Keep
        \/ ExpandAccept \/ ExpandReject \/ OosExpand
        \/ ContractAccept \/ MultiContract \/ OosContract \/ Return
Spec == Init /\ [][Next]_vars
FairSpec == Spec /\ WF_vars(Next)

\* ---- the laws ----------------------------------------------------------------------------
Live == pc \notin {"new", "oos"} \/ (pc = "oos" /\ Len(acts) > 1)     \* the simplex exists
Verts(Sx) == [v \in 0..c.n |-> Sx[v]]

NoStaleErrors == Live => \A v \in 0..c.n : E[v] = F(c.fn, S[v])

RankOK == pc \in {"test"} => RankLaw(E, c.n, hi, lo, sh)

BestNeverIncreases == [][(pc # "new" /\ pc' # "oos") => MinOf(E', c.n) <= MinOf(E, c.n)]_vars

OnlyWorstMoves ==
    [][(pc \in {"test", "branch"} /\ pc' \in {"branch", "top"}) =>
        \/ /\ \A v \in (0..c.n) \ {hi} : S'[v] = S[v] /\ E'[v] = E[v]
           /\ (E'[hi] < E[hi] \/ (E'[hi] = E[hi] /\ S'[hi] = S[hi]))
        \/ /\ Last(acts') = "MultiContract" /\ S'[lo] = S[lo] /\ E'[lo] = E[lo]]_vars

\* one pass of the amoeba written as a function of the vertices and their values
SumOver(Sx, x, skip) == Sum([k \in 1..(c.n + 1) |-> IF k - 1 = skip THEN 0 ELSE Sx[k - 1][x]], c.n + 1)
TB(Sv, Ev) ==
    LET n == c.n
        h == FirstArgMax(Ev, n)
        l == FirstArgMin(Ev, n)
        ynh == IF h = l THEN Ev[h] ELSE MaxOf([v \in 0..(n - 1) |-> IF v < h THEN Ev[v] ELSE Ev[v + 1]], n - 1)
        cen == [x \in 1..n |-> SumOver(Sv, x, h) \div n]
        r == [x \in 1..n |-> cen[x] + (-kR) * (cen[x] - Sv[h][x])]
        yr == F(c.fn, r)
        tookr == yr < Ev[h]
        Sr == IF tookr THEN [Sv EXCEPT ![h] = r] ELSE Sv
        Er == IF tookr THEN [Ev EXCEPT ![h] = yr] ELSE Ev
        e == [x \in 1..n |-> cen[x] + kE * (r[x] - cen[x])]
        ye == F(c.fn, e)
        k == [x \in 1..n |-> (4 * cen[x] + kC4 * (Sr[h][x] - cen[x])) \div 4]
        yk == F(c.fn, k)
        Ss == [v \in 0..n |-> IF v = l THEN Sr[v] ELSE [x \in 1..n |-> (Sr[v][x] + Sr[l][x]) \div 2]]
        Es == [v \in 0..n |-> IF v = l THEN Er[v] ELSE F(c.fn, Ss[v])]
    IN  IF yr <= Ev[l]
        THEN (IF ye < Er[h] THEN <<[Sr EXCEPT ![h] = e], [Er EXCEPT ![h] = ye]>> ELSE <<Sr, Er>>)
        ELSE IF yr >= ynh
        THEN (IF yk < Er[h] THEN <<[Sr EXCEPT ![h] = k], [Er EXCEPT ![h] = yk]>> ELSE <<Ss, Es>>)
        ELSE <<Sr, Er>>
Textbook == (pc = "top" /\ steps > 0) => <<Verts(S), E>> = TB(Verts(top[1]), top[2])

Det2 == (S[1][1] - S[0][1]) * (S[2][2] - S[0][2]) - (S[1][2] - S[0][2]) * (S[2][1] - S[0][1])
NonDegenerate ==
    (Live /\ c.n <= 2) =>
        ((IF c.n = 1 THEN S[1][1] - S[0][1] ELSE Det2) # 0) <=> (\A i \in 1..c.n : c.inc[i] # 0)

EvalCount == Live => /\ Len(evals) >= c.n + 1 + steps
                     /\ Len(evals) <= EvalBudget(c.n, steps + (IF pc \in {"branch", "oos"} THEN 1 ELSE 0))

ExitOK == pc \in {"ret", "done"} =>
            /\ exit = "eps" => (Conv(c, E) /\ steps < c.maxit)
            /\ exit = "maxit" => steps = c.maxit
            /\ exit \in {"eps", "maxit"}

IterMeaning == pc = "done" =>
    ret.it = IF exit = "eps" THEN steps ELSE IF c.maxit = 0 THEN 0 ELSE c.maxit - 1

ReturnIsVertexValue == pc = "done" => (ret.err = F(c.fn, ret.x) /\ G = ret.x /\ cur = ret.err)
ReturnIsBest == pc = "done" => /\ ret.err = MinOf(E, c.n)
                                /\ \E v \in 0..c.n : S[v] = ret.x /\ E[v] = ret.err
ReturnIsBestOnEps == (pc = "done" /\ exit = "eps") => /\ ret.err = MinOf(E, c.n)
                                                        /\ \E v \in 0..c.n : S[v] = ret.x /\ E[v] = ret.err
\* what the code as it is does promise on the other exit: the vertex that was best at the START of the last pass
\* (its value can only be lower than that minimum when all values were equal and it was itself replaced)
ReturnIsOldBest == (pc = "done" /\ exit = "maxit" /\ c.maxit > 0) =>
                        /\ ret.err = F(c.fn, ret.x) /\ ret.err <= MinOf(top[2], c.n)
                        /\ \E v \in 0..c.n : S[v] = ret.x /\ E[v] = ret.err
LastEvalIsReturned == pc = "done" => Last(evals)[1] = ret.x

Termination == <>(pc \in {"done", "oos"})

\* ---- what the harness replays -------------------------------------------------------------
BestRet == [x |-> S[FirstArgMin(E, c.n)], err |-> MinOf(E, c.n)]
Emit == (pc \in {"done", "oos"}) =>
    PrintT("@@" \o ToJson([K |-> K, fn |-> c.fn, n |-> c.n, x0 |-> c.x0, inc |-> c.inc, eps |-> c.eps,
                           maxit |-> c.maxit, kk |-> c.kk, fixed |-> FIXED,
                           oos |-> (pc = "oos"), exit |-> exit, steps |-> steps,
                           evals |-> evals, snaps |-> snaps, acts |-> acts,
                           S |-> IF Live THEN Seq0(S, c.n + 2) ELSE <<>>,
                           E |-> IF Live THEN Seq0(E, c.n) ELSE <<>>,
                           G |-> G, cur |-> cur, lo |-> lo, hi |-> hi, sh |-> sh, it |-> it,
                           ret |-> IF pc = "done" THEN ret ELSE [x |-> <<>>, err |-> 0, it |-> 0],
                           best |-> IF pc = "done" THEN BestRet ELSE [x |-> <<>>, err |-> 0]]))

\* ---- case sets ---------------------------------------------------------------------------
KDef == <<-1, 2, 2>>          \* kR = -1, kE = 2, kC = 0.5 (the defaults; every caller uses them)
KAlt == <<-2, 3, 1>>          \* kR = -2, kE = 3, kC = 0.25
EpsNeg == [kind |-> "neg", en |-> 0, ek |-> 0]
EpsZero == [kind |-> "zero", en |-> 0, ek |-> 0]
EpsP(num) == [kind |-> "pos", en |-> num, ek |-> 2 * K + 2]      \* epsilon = num / 2^(2K+2)
Mk(Fs, n, Xs, Is, Es, Ms, Ks) ==
    {[fn |-> f, n |-> n, x0 |-> x, inc |-> i, eps |-> e, maxit |-> m, kk |-> k] :
        f \in Fs, x \in Xs, i \in Is, e \in Es, m \in Ms, k \in Ks}
AllFn == {"sph", "ell", "sad", "abs", "cheb", "flat", "plat", "nabs", "lin"}

\* guesses and increments in quarter units
X1 == {<<0>>, <<12>>, <<-6>>, <<5>>}
I1 == {<<4>>, <<-8>>, <<0>>, <<2>>, <<12>>}
X2 == {<<0, 0>>, <<4, -4>>, <<12, -4>>, <<2, 6>>, <<-8, 8>>}
I2 == {<<4, 4>>, <<4, 0>>, <<0, 0>>, <<-4, 8>>, <<2, 2>>, <<8, 4>>}
X3 == {<<0, 0, 0>>, <<12, -12, 0>>}
I3 == {<<12, 12, 12>>, <<-12, 24, 12>>, <<12, 0, 12>>}
X4 == {<<0, 0, 0, 0>>, <<12, -4, 8, -8>>, <<4, 4, -4, 0>>}
I4 == {<<4, 4, 4, 4>>, <<8, -4, 4, 0>>, <<-4, 8, 8, 4>>}

\* K = 10
Cases_q ==
    Mk(AllFn, 1, {<<0>>, <<5>>}, {<<4>>, <<-8>>, <<0>>}, {EpsNeg, EpsZero}, {0, 1, 3, 7}, {KDef})
    \cup Mk(AllFn, 2, {<<0, 0>>, <<2, 6>>, <<12, -4>>}, {<<4, 4>>, <<4, 0>>, <<-4, 8>>}, {EpsNeg, EpsZero, EpsP(12001)},
            {0, 1, 2, 4}, {KDef})
    \cup Mk({"sph", "abs", "sad"}, 2, {<<4, -4>>}, {<<4, 4>>, <<2, 2>>}, {EpsNeg}, {3}, {KAlt})
    \cup Mk({"plat", "cheb"}, 2, {<<12, -4>>}, {<<4, 4>>}, {EpsNeg}, {1, 2, 3}, {KAlt})     \* multiple contraction with kC # 1/2
    \cup Mk({"plat"}, 1, {<<5>>}, {<<4>>}, {EpsNeg}, {1, 3}, {KAlt})
    \cup Mk({"sph", "cheb", "plat", "lin"}, 4, {<<0, 0, 0, 0>>}, {<<4, 4, 4, 4>>, <<8, -4, 4, 0>>}, {EpsNeg, EpsZero}, {0, 2}, {KDef})
Cases_t1 == Mk(AllFn, 1, X1, I1, {EpsNeg, EpsZero, EpsP(12001)}, 0..8, {KDef, KAlt})
Cases_t2 == Mk(AllFn, 2, X2, I2, {EpsNeg, EpsZero, EpsP(12001)}, 0..5, {KDef})
Cases_t2k == Mk(AllFn, 2, X2, {<<4, 4>>, <<4, 0>>, <<-4, 8>>}, {EpsNeg, EpsZero}, {1, 2, 3}, {KAlt})
Cases_t3 == Mk(AllFn, 3, X3, I3, {EpsNeg, EpsZero}, 0..3, {KDef})
Cases_t4 == Mk(AllFn, 4, X4, I4, {EpsNeg, EpsZero, EpsP(6001)}, 0..3, {KDef})
\* K = 6: epsilon = num / 2^14 (8193 -> 0.50006, 1639 -> 0.10004, 16383 -> 0.99994)
Cases_eps ==
    Mk(AllFn, 1, {<<0>>, <<12>>, <<8>>}, {<<4>>, <<-8>>, <<0>>}, {EpsP(8193), EpsP(1639), EpsP(16383)}, {0, 1, 2, 3, 4, 6}, {KDef})
    \cup Mk(AllFn, 2, {<<0, 0>>, <<12, -4>>, <<8, -4>>, <<4, 0>>}, {<<4, 4>>, <<4, 0>>, <<-4, 8>>, <<8, 4>>},
            {EpsP(8193), EpsP(1639), EpsP(9999)}, {1, 2, 3}, {KDef})
    \cup Mk({"sph", "abs", "plat", "cheb"}, 4, {<<12, -4, 8, -8>>, <<8, -4, 8, -8>>}, {<<4, 4, 4, 4>>, <<4, 0, -4, 4>>}, {EpsP(6001), EpsP(4097)}, {1, 2}, {KDef})
\* as-is counterexample hunting: small
Cases_asis == Mk({"sph", "abs"}, 2, {<<0, 0>>}, {<<4, 4>>}, {EpsNeg, EpsZero}, 0..3, {KDef})
Cases_asis1 == Mk({"sph", "abs"}, 2, {<<0, 0>>}, {<<4, 4>>}, {EpsNeg, EpsZero}, 1..3, {KDef})
=============================================================================

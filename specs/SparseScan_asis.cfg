SPECIFICATION Spec
CONSTANTS
  NS = 1
  NF = 2
  Vals = {2}
  MaxFrames = 2
  Cap1 = 2
  Cap2 = 2
  Cap3 = 2
  Thr = 1
  Stages = {1}
  BlobStages = {}
  SubRanges = FALSE
  MotorCfgs = {18}
  FIXED = FALSE
INVARIANT InBounds
INVARIANT PtrOK
INVARIANT LoadOK
INVARIANT GetOK
INVARIANT CpLabelsOK
INVARIANT SmoothOK
INVARIANT LmLabelsOK
INVARIANT CountsOK
INVARIANT MomentsTotal
INVARIANT MomentsOK
INVARIANT BlobOK
INVARIANT Emit
CHECK_DEADLOCK FALSE

SPECIFICATION Spec
CONSTANTS
  NG = 2
  MAXCALLS = 5
  MAXFIT = 2
  DROP_SETT = TRUE
INVARIANT NoBad
INVARIANT GvUsesOwnTranslation
INVARIANT KernelGvOwn
INVARIANT TolRestored
INVARIANT TolOneOnlyInSimplex
INVARIANT SavedWithOwn
INVARIANT EachGrainOncePerPass
PROPERTY OnlyCurrentGrainMoves
CHECK_DEADLOCK FALSE

\* C03 object histories: quick tier, write order of the code at HEAD; every history is emitted and replayed
SPECIFICATION Spec
CONSTANTS
  NLIM = 2
  DEPTH = 3
  ORDER = "list-first"
  EMIT = TRUE
INVARIANT TypeOK
INVARIANT RetInv
INVARIANT CacheInv
INVARIANT RingInv
INVARIANT Emit
CHECK_DEADLOCK FALSE

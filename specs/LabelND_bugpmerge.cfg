\* self-test of MergeOK: the merge loop turned into a prange with an unsynchronised
\* read-modify-write must be refuted (two threads holding members of one merged peak lose an update)
SPECIFICATION Spec
CONSTANTS
  NSet = {2,3}
  ESet = {1,2}
  Threads = {t1, t2}
  Static = FALSE
  OrdSet = {0}
  History = TRUE
  DoEmit = FALSE
  Bug = "pmerge"
  Hist = 0
  DsHist = 0
  DsOps = {}
  NMon = 0
  Neg = FALSE
  Shape = "sorted"
SYMMETRY Sym
INVARIANT TypeOK
INVARIANT CleanOK
INVARIANT MergeOK
CHECK_DEADLOCK FALSE

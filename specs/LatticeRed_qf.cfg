SPECIFICATION Spec
CONSTANTS
  CELLS <- CELLS_q
  SCR <- SCR_q
  SCRWV <- SCRWV_q
  CENTS <- CENTS_std
  PROBES <- PROBES_std
  TOLS <- TOLS_std
  TIES = "even"
  MODFIX = TRUE
  COLFIX = TRUE
  WVFIX = TRUE
  NTRYFIX = TRUE
  MAXIT = 10
INVARIANT SameLattice
INVARIANT RightHanded
INVARIANT Reduced
INVARIANT Stable
INVARIANT NoFlaw
INVARIANT IndexIntegral
INVARIANT IndexRow
INVARIANT IndexCol
INVARIANT ScoreLaw
INVARIANT WithvecOK
INVARIANT FindLatticeOK
INVARIANT FindLatticeAnyDir
INVARIANT MinkSane
INVARIANT Emit
PROPERTY Variant
CHECK_DEADLOCK FALSE

SPECIFICATION Spec
CONSTANTS
  PART = "call"
  CELLS <- CELLS_q
  GENS <- GENS_q
  ROTS <- ROTS_id
  MaxDepth = 0
  FORGET = {}
  NOCOPY = {}
  OBJ = "grain"
  ALIASARG = FALSE
  SAMEKEEP = FALSE
  UNWRITTEN <- UNW_b_lower
  EmitMode = 0
INVARIANT CallDefined
CHECK_DEADLOCK FALSE

\* X07 thorough: numba launch / get / set with OpenMP kernels, fork and spawn children
SPECIFICATION Spec
CONSTANTS
  EnvOmp = {0, 1}
  Cores = {3}
  Slurm = {0}
  PutVals = {}
  SetVals = {2}
  NbVals = {0, 4}
  Starts = {}
  Hows = {"fork", "spawn"}
  POps = {"import", "set", "kernel", "nbget", "nbset", "launch"}
  COps = {"import", "kernel", "nbget"}
  NW = 0
  MaxDepth = 4
  BUG_INHERIT = TRUE
  BUG_NBRESET = TRUE
  EmitMode = 1
INVARIANT TypeOK
INVARIANT RegPositive
INVARIANT SafeNeverStuck
INVARIANT StopBound
INVARIANT LateNoWork
PROPERTY SetGet
PROPERTY WarnRule
PROPERTY PatchSafe
PROPERTY OneThreadNeverStuck
PROPERTY Restore
PROPERTY StopSticky
PROPERTY DoneIsFinal
PROPERTY RaiseStops
PROPERTY FlagPerProcess
PROPERTY PbpOneThread
ACTION_CONSTRAINT EmitTransition
VIEW View
CHECK_DEADLOCK FALSE

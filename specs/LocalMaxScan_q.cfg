SPECIFICATION Spec
CONSTANTS
  NS = 2
  NF = 3
  LEVELS = 3
  MAXPIX = 3
  MAPS <- MAPS_q
  THRS <- THRS_q
  THRESHOLD = "ignored"
  EmitOn = TRUE
INVARIANT AllLabelled
INVARIANT MapCovariant
INVARIANT Emit
CHECK_DEADLOCK FALSE

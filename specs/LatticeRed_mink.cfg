SPECIFICATION Spec
CONSTANTS
  CELLS <- CELLS_q
  SCR <- SCR_q
  SCRWV <- SCRWV_q
  CENTS <- CENTS_none
  PROBES <- PROBES_std
  TOLS <- TOLS_std
  TIES = "even"
  MODFIX = FALSE
  COLFIX = TRUE
  WVFIX = TRUE
  MAXIT = 10
INVARIANT MinkAlways
CHECK_DEADLOCK FALSE

SPECIFICATION Spec
CONSTANTS
  NG = 2
  MAXCALLS = 5
  MAXFIT = 2
  NP = 1
  E = 3
  LAST_WINS = TRUE
  SORT_OBJ_ONLY = FALSE
  BLOCK = 1
  TAIL_COUNT = FALSE
  START_INT = TRUE
  KEEP_DTYPE = FALSE
  DROP_SETT = FALSE
INVARIANT NoBad
INVARIANT GvUsesOwnTranslation
INVARIANT KernelGvOwn
INVARIANT TolRestored
INVARIANT TolOneOnlyInSimplex
INVARIANT SavedWithOwn
INVARIANT EachGrainOncePerPass
INVARIANT BestOwner
INVARIANT StoredIsFitted
INVARIANT StoredError
INVARIANT OrderIndependent
INVARIANT IndIsOwned
INVARIANT SavedRowsDisjoint
INVARIANT SavedColumnsOwn
INVARIANT SaveOrder
PROPERTY OnlyCurrentGrainMoves
CHECK_DEADLOCK FALSE

\* finding C16-find-uniq-u-trace-tie: CanonicalAlways is expected to be VIOLATED (trace tie, 4-fold axis)
SPECIFICATION Spec
CONSTANTS
  Names = {"tetragonal"}
  QMax = 1
  HMax = 1
  MaxCalls = 1
  DoScan = TRUE
  TrigonalFixed = TRUE
  BigHkls = {}
  BlockSize = 0
  ListMax = 0
  ListPool = {}
  ListSizes = {}
  ConcPairs = {}
  CoarseNames = {}
  Stride = 1
  PublishEarly = FALSE
INVARIANT TypeOK
INVARIANT CanonicalAlways
CHECK_DEADLOCK FALSE

\* X07: random long behaviours over the whole alphabet (tlc -simulate; MaxDepth is set by the harness)
SPECIFICATION Spec
CONSTANTS
  EnvOmp = {0, 2}
  Cores = {2, 3}
  Slurm = {0}
  PutVals = {1}
  SetVals = {0, 1, 3}
  NbVals = {1, 9}
  Starts = {"fork", "spawn", "forkserver"}
  Hows = {"default", "fork", "spawn", "forkserver"}
  POps = {"putenv", "setstart", "import", "set", "kernel", "checkmp", "launch", "nbget", "nbset", "user", "thread", "stopset"}
  COps = {"import", "set", "kernel", "checkmp", "nbget", "nbset", "stopset"}
  NW = 2
  MaxDepth = 8
  BUG_INHERIT = TRUE
  BUG_NBRESET = TRUE
  EmitMode = 2
INVARIANT TypeOK
INVARIANT RegPositive
INVARIANT SafeNeverStuck
INVARIANT StopBound
INVARIANT LateNoWork
PROPERTY SetGet
PROPERTY WarnRule
PROPERTY PatchSafe
PROPERTY OneThreadNeverStuck
PROPERTY Restore
PROPERTY StopSticky
PROPERTY DoneIsFinal
PROPERTY RaiseStops
PROPERTY FlagPerProcess
PROPERTY PbpOneThread
INVARIANT EmitFinal
CHECK_DEADLOCK FALSE

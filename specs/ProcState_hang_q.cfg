\* X07 quick: fork children after the parent used OpenMP (the hang), thread counts 1 and 2
SPECIFICATION Spec
CONSTANTS
  EnvOmp = {0}
  Cores = {2}
  Slurm = {0}
  PutVals = {}
  SetVals = {1, 2}
  NbVals = {}
  Starts = {}
  Hows = {"default"}
  POps = {"import", "kernel", "launch"}
  COps = {"kernel", "set"}
  NW = 0
  MaxDepth = 5
  BUG_INHERIT = TRUE
  BUG_NBRESET = TRUE
  EmitMode = 1
INVARIANT TypeOK
INVARIANT RegPositive
INVARIANT SafeNeverStuck
INVARIANT StopBound
INVARIANT LateNoWork
PROPERTY SetGet
PROPERTY WarnRule
PROPERTY PatchSafe
PROPERTY OneThreadNeverStuck
PROPERTY Restore
PROPERTY StopSticky
PROPERTY DoneIsFinal
PROPERTY RaiseStops
PROPERTY FlagPerProcess
PROPERTY PbpOneThread
ACTION_CONSTRAINT EmitTransition
VIEW View
CHECK_DEADLOCK FALSE

\* liveness: under weak fairness of Next the sweep loop terminates and the pipeline reaches done
\* (no SYMMETRY: TLC's liveness checking is not sound with symmetry)
SPECIFICATION FairSpec
CONSTANTS
  NSet = {1,2,3}
  ESet = {0,1,2,3}
  Threads = {t1, t2}
  Static = FALSE
  OrdSet = {0}
  History = TRUE
  DoEmit = FALSE
  Bug = "none"
  Hist = 0
  DsHist = 0
  DsOps = {}
  NMon = 0
  Neg = FALSE
  Shape = "sorted"
INVARIANT TypeOK
INVARIANT InComp
INVARIANT MinFixed
INVARIANT LocalsOK
INVARIANT ZeroAgree
INVARIANT Fixpoint
INVARIANT FixReadsRoot
INVARIANT CleanOK
INVARIANT MergeOK
INVARIANT SweepLegal
INVARIANT SeqExact
INVARIANT EmitInv
PROPERTY Termination
CHECK_DEADLOCK FALSE

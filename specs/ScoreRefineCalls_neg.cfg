SPECIFICATION Spec
CONSTANTS
  NT = 2
  KERNELS <- KERNELS_all
  PINS <- PINS_free
  NPK = 1
  SHARED = TRUE
INVARIANT Isolation
CHECK_DEADLOCK FALSE

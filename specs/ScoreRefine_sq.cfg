SPECIFICATION Spec
CONSTANTS
  MS <- MS_q
  DS <- DS_s
  TOLS <- TOLS_s
  POOL <- POOL_s
  MAXPK = 3
  SCALES <- SCALES_q
  LABS <- LABS_s
INVARIANT HSym
INVARIANT CountOK
INVARIANT CauchyBinet
INVARIANT StrictBoundary
INVARIANT ScoreDef
INVARIANT Covariant
INVARIANT FixedPoint
INVARIANT Emit
CHECK_DEADLOCK FALSE

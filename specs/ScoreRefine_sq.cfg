SPECIFICATION Spec
CONSTANTS
  MS <- MS_q
  DS <- DS_s
  TOLS <- TOLS_s
  POOL <- POOL_s
  MAXPK = 3
  SCALES <- SCALES_q
  LABS <- LABS_s
  NBAD = 0
  UBADS <- UBADS_none
INVARIANT HSym
INVARIANT CountOK
INVARIANT CauchyBinet
INVARIANT StrictBoundary
INVARIANT ScoreDef
INVARIANT Covariant
INVARIANT FixedPoint
INVARIANT SubList
INVARIANT Emit
CHECK_DEADLOCK FALSE

\* three threads, dynamic grab; every multiset of <= 3 edges over <= 4 nodes
SPECIFICATION Spec
CONSTANTS
  NSet = {1,2,3,4}
  ESet = {0,1,2,3}
  Threads = {t1, t2, t3}
  Static = FALSE
  OrdSet = {0}
  History = TRUE
  DoEmit = FALSE
  Bug = "none"
  Hist = 0
  DsHist = 0
  DsOps = {}
  NMon = 0
  Neg = FALSE
  Shape = "sorted"
SYMMETRY Sym
INVARIANT TypeOK
INVARIANT InComp
INVARIANT MinFixed
INVARIANT LocalsOK
INVARIANT ZeroAgree
INVARIANT Fixpoint
INVARIANT FixReadsRoot
INVARIANT CleanOK
INVARIANT MergeOK
INVARIANT SweepLegal
INVARIANT SeqExact
INVARIANT EmitInv
CHECK_DEADLOCK FALSE

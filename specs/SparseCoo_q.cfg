SPECIFICATION Spec
CONSTANTS
  M2CShapes = {23, 15, 51}
  NnzExtra = {0, 1}
  ParRows = TRUE
  CutShapes = {22, 13}
  CutVals = 2
  Cuts = {0, 1}
  SortedGrid = 22
  SortedLen = 4
  SortShapes = {22, 13}
  ThreshShapes = {22, 31}
  ThreshVals = 3
  ThreshNames = {"intensity", "labels"}
  FIXED = TRUE
  TDFIXED = TRUE
INVARIANT InBounds
INVARIANT CooRowMajor
INVARIANT RoundTrip
INVARIANT KernelReturn
INVARIANT Defined
INVARIANT IsSortedSpec
INVARIANT SortTotal
INVARIANT DenseTotal
INVARIANT SortOK
INVARIANT ThreshOK
INVARIANT Emit
CHECK_DEADLOCK FALSE

\* trace validation: inputs from $TRACE_FILE (ndjson recorded from the real makerings / assigntorings)
SPECIFICATION Spec
CONSTANTS
  FROMFILE = TRUE
  K = 1
  V = 1
  T = 1
INVARIANT TypeOK
CHECK_DEADLOCK FALSE

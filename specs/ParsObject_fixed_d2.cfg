SPECIFICATION Spec
CONSTANTS
  MaxDepth = 2
  BUG_BOOL = FALSE
  BUG_FROMFILE = FALSE
  AllowReAdd = TRUE
  EmitMode = 0
  WithFiles = TRUE
  StartForms = {"kwds", "idx", "addpar", "rg"}
INVARIANT TypeOK
INVARIANT VarIdentity
INVARIANT SetGet
INVARIANT Aligned
INVARIANT UpdateRoundTrip
INVARIANT RoundTripCore
INVARIANT LoadIdempotent
PROPERTY Frame
INVARIANT RoundTripBool
INVARIANT FromFilePhase
VIEW View
CHECK_DEADLOCK FALSE

\* quick: 4 lattices (cubic F, hexagonal, monoclinic, triclinic), 4 rings, ring pairs r1 <= r2, both tie rules,
\* block ends as written (bug) and repaired
SPECIFICATION Spec
CONSTANTS
  MODE = "rule"
  Cells <- Cells_q
  NR = 4
  PairSel = "upper"
  TieRules = {"fwd", "rev"}
  BugEnds = {TRUE, FALSE}
  CRanges = {0, 2, 300}
  Rots <- Rots_q
INVARIANT TypeOK
INVARIANT CellLaws
INVARIANT Complete
INVARIANT Irredundant
INVARIANT NoCrash
INVARIANT BlocksExact
INVARIANT DedupAgrees
INVARIANT EvenBlocks
INVARIANT TrueFound
INVARIANT EmitCell
INVARIANT EmitDone
CHECK_DEADLOCK FALSE

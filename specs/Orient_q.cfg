\* quick: 10 lattices (cubic F, hexagonal, monoclinic P and C, primitive rhombohedral, pseudo-symmetric orthorhombic,
\* long-axis tetragonal, triclinic, and two whose rings merge families of unequal d*: ortM, triM), ring table of 8 rings
\* (cell tables, CellLaws, ScaleLaw, near-cut ring pairs), cases = ring pairs r1 <= r2 <= 3 + the near-cut ring pairs of
\* every cell (CutCase) for the deterministic tie rules (the trace run, Orient_trace_q.cfg, covers every recorded ring
\* pair), both tie rules, block ends as written (bug) and repaired; Scales_q = the scale exponents of the instance
\* family (the machine is scale free: ScaleLaw)
SPECIFICATION Spec
CONSTANTS
  MODE = "rule"
  Cells <- Cells_q
  NR = 4
  NRC = 8
  PairSel = "low"
  TieRules = {"fwd", "rev"}
  BugEnds = {TRUE, FALSE}
  CRanges = {0, 2, 710}
  Rots <- Rots_q
  Scales <- Scales_q
INVARIANT TypeOK
INVARIANT CellLaws
INVARIANT ScaleLaw
INVARIANT Complete
INVARIANT Irredundant
INVARIANT NoCrash
INVARIANT BlocksExact
INVARIANT DedupAgrees
INVARIANT EvenBlocks
INVARIANT TrueFound
INVARIANT NoBoundaryTie
INVARIANT EmitCell
INVARIANT EmitDone
CHECK_DEADLOCK FALSE

\* quick: 8 lattices (cubic F, hexagonal, monoclinic P and C, primitive rhombohedral, pseudo-symmetric orthorhombic,
\* long-axis tetragonal, triclinic), 4 rings (cell tables, CellLaws, ScaleLaw), ring pairs r1 <= r2 <= 3 for the
\* deterministic tie rules (the trace run, Orient_trace_q.cfg, covers every recorded ring pair of the 4 rings), both tie
\* rules, block ends as written (bug) and repaired; Scales_q = the scale exponents of the instance family (the machine
\* is scale free: ScaleLaw)
SPECIFICATION Spec
CONSTANTS
  MODE = "rule"
  Cells <- Cells_q
  NR = 4
  PairSel = "low"
  TieRules = {"fwd", "rev"}
  BugEnds = {TRUE, FALSE}
  CRanges = {0, 2, 710}
  Rots <- Rots_q
  Scales <- Scales_q
INVARIANT TypeOK
INVARIANT CellLaws
INVARIANT ScaleLaw
INVARIANT Complete
INVARIANT Irredundant
INVARIANT NoCrash
INVARIANT BlocksExact
INVARIANT DedupAgrees
INVARIANT EvenBlocks
INVARIANT TrueFound
INVARIANT NoBoundaryTie
INVARIANT EmitCell
INVARIANT EmitDone
CHECK_DEADLOCK FALSE

SPECIFICATION Spec
CONSTANTS
  G = 3
  K = 2
  E = 3
  NCHUNK = 2
  EmitOn = TRUE
INVARIANT BestGrain
INVARIANT StoredError
INVARIANT ReturnedCounts
INVARIANT Histogram
INVARIANT Sane
INVARIANT OrderIndependent
INVARIANT Emit
CHECK_DEADLOCK FALSE

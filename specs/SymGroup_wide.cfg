\* the documented range of the key, |h| < 1000, beyond the lexicographic domain (499): ten groups, hkl with entries
\* 500..999 - the powers of two in between (511, 512, 513, 640, 768: where a packed key of another base would leave
\* 32 bit), +-999, the hexagonal key tie (1,-3,500), 'small h, large -k' (1,-600,0) whose largest key is NOT the
\* lexicographic maximum; the harness adds seeded ones ({1000+h, 11000+k, 21000+l} stands for (h,k,l)).  Every start
\* (group element applied beforehand) of every hkl: InOrbit, Idempotent, AttainsMax for all of them; HklKeyMax
\* (canonical within the orbit = the member with the largest key) where the key is injective on the orbit;
\* KeyFits32 (key and intermediates inside a signed 32 bit integer: the caller's integer width cannot matter).
\* HklCanonical / HklLexMax are NOT stated here (SymGroup_hkl500.cfg); no orientations (QMax = 0), no lists.
SPECIFICATION Spec
CONSTANTS
  Names = {"cubic", "hexagonal", "trigonal", "rhombohedralP", "tetragonal", "orthorhombic", "monoclinic_c", "monoclinic_a", "monoclinic_b", "triclinic"}
  QMax = 0
  HMax = 0
  MaxCalls = 1
  DoScan = TRUE
  TrigonalFixed = TRUE
  BigHkls = {{488, 11001, 21002}, {1512, 10999, 20998}, {487, 11000, 21003}, {489, 11002, 20999}, {400, 11000, 21003}, {1, 11999, 20001}, {1977, 10997, 21000}, {1001, 10997, 21500}, {1000, 11600, 20999}, {1001, 10400, 21000}, {488, 11000, 21000}, {1003, 11998, 20002}, {250, 11250, 21500}, {1002, 10488, 21001}, {1001, 11002, 20488}, {1, 11001, 21000}, {1640, 10360, 21005}, {232, 11767, 21001}}
  BlockSize = 0
  ListMax = 0
  ListPool = {}
  ListSizes = {}
  ConcPairs = {}
  CoarseNames = {}
  Stride = 1
  PublishEarly = FALSE
INVARIANT TypeOK
INVARIANT GenOK
INVARIANT Closed
INVARIANT OrderOK
INVARIANT CacheOK
INVARIANT InOrbit
INVARIANT AttainsMax
INVARIANT Idempotent
INVARIANT CanonicalIfUnique
INVARIANT TieDependence
INVARIANT HklKeyMax
INVARIANT KeyFits32
INVARIANT Emit
CHECK_DEADLOCK FALSE

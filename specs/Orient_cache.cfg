\* the getanglehkls cache protocol: every history of 5 operations (3 ring pair keys, retol)
INIT InitCache
NEXT NextCache
CONSTANTS
  MODE = "rule"
  Cells <- Cells_q
  NR = 4
  NRC = 8
  PairSel = "upper"
  TieRules = {"fwd"}
  BugEnds = {FALSE}
  CRanges = {0}
  Rots <- Rots_q
  Scales <- Scales_q
INVARIANT TypeOK
INVARIANT CacheFresh
INVARIANT EmitCache
CHECK_DEADLOCK FALSE

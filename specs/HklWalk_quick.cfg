\* quick tier: all positive definite forms diag 1..3, off-diagonal -1..1; model of the pinned code
SPECIFICATION Spec
CONSTANTS
  HMAX = 200
  Forms <- FormsQuick
  Limits = {4, 7}
  Centrings = {"P", "A", "B", "C", "I", "F", "R"}
  Outif <- OutifPinned
  TIE = FALSE
  ORACLE = TRUE
  BigCases <- BigNone
INVARIANT WalkInv
INVARIANT BoxInv
INVARIANT Emit
CHECK_DEADLOCK FALSE

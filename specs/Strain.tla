------------------------------- MODULE Strain -------------------------------
(***************************************************************************)
(* Property C10: finite (Seth-Hill) strain tensors of ImageD11 are         *)
(* objective, symmetric and exact for known deformations.                  *)
(*                                                                         *)
(* CODE MODELLED                                                           *)
(*   ImageD11/finite_strain.py:46-139  DeformationGradientTensor           *)
(*       :61      F = dot(ubi.T, ub0.T)                      action Deform *)
(*       :72-83   polar decomposition F = V.R = R.S          PolarOK       *)
(*       :91-114  finite_strain_ref(m)                       action Ref    *)
(*                   m2 = 2m even : (matrix_power(F^T F, m) - I)/m2        *)
(*                   m2 odd       : (matrix_power(S, m2) - I)/m2           *)
(*       :116-139 finite_strain_lab(m)                       action Lab    *)
(*                   m2 even      : (matrix_power(F F^T, m) - I)/m2        *)
(*                   m2 odd       : (matrix_power(V, m2) - I)/m2           *)
(*   ImageD11/grain.py:148-206  eps_grain(_matrix) = finite_strain_ref,    *)
(*       eps_sample(_matrix) = finite_strain_lab with ub0 = B(cell) or     *)
(*       ub0 = reference_grain.UB                            action PickRef*)
(*   ImageD11/sinograms/tensor_map.py:190-365  the m = 1/2 copies          *)
(*       (V - I, S - I) and U.T.U^T / U^T.T.U rotations.                   *)
(*   m = 0 (logarithmic strain) is irrational: it is finished by the       *)
(*   harness from the exact S and R emitted here.                          *)
(*                                                                         *)
(* EXACT ARITHMETIC                                                        *)
(*   A scaled matrix is <<numerators, den>>, den > 0, always kept in       *)
(*   lowest terms by Reduce, so equality of rationals is equality of       *)
(*   values.  Reference lattice: L0 = integer upper triangular real-space  *)
(*   cell (rows a,b,c; this is the ubi of an unrotated reference grain, so *)
(*   B0 = L0^-1 = <<Adj(L0), Det(L0)>> is the exact Busing-Levy B of the   *)
(*   cell with metric L0.L0^T), reference orientation U0, stretch          *)
(*   S = I + e = <<N, d>> (d = 10 or 20, symmetric positive definite),     *)
(*   rotation R = <<Rn, n>> from ExactLA angles (one or two Pythagorean).  *)
(*       ubi0 = L0.U0^T     ub0 = U0.B0      ubi = ubi0.S.R^T              *)
(*   so that the code's F = ubi^T.ub0^T is R.S (checked: PolarOK).         *)
(*                                                                         *)
(* TWO MACHINES live in this module (one set of variables, two behaviour   *)
(* specifications):                                                        *)
(*                                                                         *)
(* Spec  - CASES: one deformation per behaviour (cfg Strain_q / Strain_t)  *)
(* VARIABLES  stage, ref = <<L0, U0>>, S, R, ubi, F, k (index into MS),    *)
(*            eref, elab (sequences of the tensors computed so far)        *)
(* ACTIONS    PickRef, PickStretch, PickRot, Deform, Ref, Lab              *)
(* INVARIANTS RefLatticeOK, PolarOK, RefIsSethHill, RefSym,                *)
(*            LabIsRotatedRef, Objectivity, LabObjectivity, ZeroIff,       *)
(*            FirstOrder, Emit (prints one JSON record per finished case)  *)
(* BOUNDS     constant sets REFS x STRETCHES x ROTS (cfg Strain_q/_t);     *)
(*            m2 = 2m in <<-2,-1,1,2,3,4>>.  Intermediates < 2^31: where   *)
(*            a lab-frame power would not fit (LabExact false) the lab     *)
(*            tensor is emitted as R.E_ref.R^T (or left out, den = 0) and  *)
(*            the harness finishes V^(2m) with python fractions.           *)
(*                                                                         *)
(* HSpec - HISTORIES on ONE object (cfg Strain_hist_q/_hist_t/_mapfail/    *)
(*         _map_t / _map_asis): the strain API is asked repeatedly while   *)
(*         the object is changed in between.  The law is the same in both  *)
(*         kinds: EVERY ANSWER IS THE EXACT TENSOR OF THE CURRENT STATE    *)
(*         SEEN FROM THE REFERENCE GIVEN IN THE REQUEST - not from what    *)
(*         the objects carry besides (ref_unitcell of a grain, the phases  *)
(*         dictionary next to an explicit dzero_unitcell map, names,       *)
(*         filled caches), not from what was asked before.                 *)
(*   kind "grain"  ImageD11/grain.py:59-80 set_ubi/clear_cache (drops the  *)
(*       carried ref_unitcell too), :148-206 eps_*, :208-222 ref_unitcell  *)
(*       setter; finite_strain.py:46-139 one DeformationGradientTensor     *)
(*       object with its _svd/_vrs caches (:62-83)                         *)
(*     state  hst = [base = <<L0, U0b>>, s, q (stretch / rotation the      *)
(*            grain object holds now: ubi = L0.U0b^T.s.q^T), ur, rs        *)
(*            (orientation and cell scale of the reference grain object:   *)
(*            its ubi is rs.L0.ur^T), rid (identity of that object),       *)
(*            gd, rd (DECORATION: scale k of the cell k.L0 of the          *)
(*            ref_unitcell the grain / the reference grain CARRIES, NONE   *)
(*            when it carries none - never an argument of a request),      *)
(*            hd / dgt (is there a DeformationGradientTensor object / the  *)
(*            snapshot it was built from)]                                 *)
(*     The reference of a request is an ARGUMENT: the cell k.L0 (any k in  *)
(*     HSCALES, chosen per request) or the reference grain object.  Seen   *)
(*     from the reference k.L0 the same grain has the stretch s/k and the  *)
(*     same rotation, so the answer is the tensor of s/k - whatever cell   *)
(*     the objects carry, whatever was asked before.                       *)
(*     actions SetUbi (grain.set_ubi), ChangeRef (a new reference grain    *)
(*            object, or set_ubi on the reference grain in place; another  *)
(*            orientation and / or another cell scale), Decorate (who,k):  *)
(*            g.ref_unitcell = unitcell(k.L0) on the grain or on the       *)
(*            reference grain (what indexing.do_index(unitcell=..) and the *)
(*            dataset loaders do), equal to or different from the          *)
(*            reference of the next request, before or after the first     *)
(*            request; Touch (read a cached property / set a bookkeeping   *)
(*            attribute), AskRef / AskLab / AskRefG / AskLabG (m2,         *)
(*            reference = cell k | the reference grain) = eps_grain* /     *)
(*            eps_sample*, MakeDGT(arg kinds, k),                          *)
(*            AskDGTRef / AskDGTLab, ReadDGT (F, U, VRS).                  *)
(*            F = q.(s/k).Q, Q = U0b (cell) | U0b.ur^T.                    *)
(*     invariants HAnswersCurrent (code path on the current state and the  *)
(*            reference GIVEN = the property's tensor:                     *)
(*            Q^T.E(s/k).Q / q.E(s/k).q^T; gd, rd do not occur in it),     *)
(*            HPolarOK, HDecorTracked (set_ubi drops what is carried)      *)
(*     REQUESTS THAT RAISE: AskFail (eps_* with a reference that is no     *)
(*            cell - five parameters, None, degenerate -, a singular        *)
(*            reference grain, an m that is no multiple of 1/2), DGTFail   *)
(*            (DeformationGradientTensor from a flattened ubi, None, a     *)
(*            singular ub0 asked for m = -1), DAskFail (the existing       *)
(*            object asked for a bad m); constant GFAILS.  Invariant       *)
(*            HNoTrace: a request that raises leaves the state as it found *)
(*            it - every later answer is judged by HAnswersCurrent as if   *)
(*            the request had never been made.                             *)
(*   kind "map"    ImageD11/sinograms/tensor_map.py:581-635 (item / add_map*)
(*       / UBI setter, clear_cache), :749-840 (dzero_unitcell, eps_sample, *)
(*       eps_crystal, eps_hydro, eps_devia with their caches in self.maps) *)
(*     The tensors themselves are those of Spec; here a value is a TAG     *)
(*     saying which UBI version it was computed from and by which route:   *)
(*       <<"ubi", f, v>>        kernel on UBI version v, frame f (s | c)   *)
(*       <<"rot", f, t, uv>>    tag t rotated into frame f with U of uv    *)
(*       <<"hyd", t>>           trace(t)/3 . I                             *)
(*       <<"dev", ts, th>>      ts - th                                    *)
(*     state  hst = [cur (UBI version held now), first (which of           *)
(*            eps_sample / eps_crystal was computed first since the last   *)
(*            assignment: the other one is then derived by rotation),      *)
(*            cache (the code as it WAS before fix e29c99a: clear_cache    *)
(*            kept the eps maps), rcache (the code with the repair, as it  *)
(*            is now: clear_cache drops them), pd (the phases dictionary:  *)
(*            ids in insertion order), dz (where the reference cell of a   *)
(*            voxel comes from: "phases" = looked up in the dictionary,    *)
(*            "maps" = an explicit dzero_unitcell map was handed over -    *)
(*            the cells of the phases dictionary are then DECORATION),     *)
(*            miss (how the map is INCOMPLETE for a strain request:        *)
(*            "phase_ids" no such map - TensorMap.from_ubis / from_pbpmap; *)
(*            "pidshape" a phase_ids map of another shape; "phase_entry" a *)
(*            phases entry that is no unitcell; "none"); cur = 0 is a      *)
(*            malformed UBI map]                                           *)
(*     actions MReadFrame / MReadPart (f), MAssign(way = setter | item |   *)
(*            add_map, version), MSetDz(way = item | add_map: an explicit  *)
(*            dzero_unitcell map is given; modelled only while no strain   *)
(*            map is cached - add_map clears caches for "UBI" alone, :613),*)
(*            MTouch (read U, B, UB, mt, unitcell, euler, dzero_unitcell)  *)
(*            REQUESTS THAT RAISE (constant MFAILS): MReadFail (a strain   *)
(*            map or dzero_unitcell asked while Blocked: the reference     *)
(*            cells cannot be looked up / the UBI map is malformed),       *)
(*            MRepair (phase_ids by item | add_map, the phases entry),     *)
(*            MAssignBad (a malformed UBI map, version 0); MSetDz and      *)
(*            MAssign repair as well                                       *)
(*     invariants MapExpCurrent (the property's answer mentions the        *)
(*            current version only), MapRepairedCurrent (holds),           *)
(*            MapAsIsCurrent (VIOLATED by the code as it was - cfg         *)
(*            Strain_map_asis: read, assign, read), DzeroByKey (reference  *)
(*            cell of a voxel is looked up by phase id, not by position in *)
(*            the dictionary), DzSourceOK (an explicit map, once given,    *)
(*            is the reference of every later read), MapNoTrace (a request *)
(*            that raises leaves the state as it found it: nothing cached, *)
(*            registered or half-filled - the reads after the repair are   *)
(*            judged as if it had never been made), MapRaisesIffBlocked    *)
(*   HEmit prints one JSON record per finished history; the harness binds  *)
(*   versions / states to exact deformations and replays the operations on *)
(*   ONE real object.  Histories are drawn by `tlc -simulate` (seeded) in  *)
(*   Strain_hist_*.cfg and enumerated exhaustively in Strain_map_t.cfg     *)
(*   (4 operations, complete maps) and Strain_mapfail.cfg (3 operations,   *)
(*   maps that may be incomplete, with the requests that raise).           *)
(***************************************************************************)
EXTENDS ExactLA, Json

CONSTANTS REFS,        \* set of <<L0, <<U0n, n0>> >>
          STRETCHES,   \* set of <<N, d>>
          ROTS,        \* set of <<Rn, n>>
          OBJROTS,     \* rotations quantified over in Objectivity
          OBJU0,       \* reference orientations quantified over in Objectivity
          OBJU0R,      \* right-angle reference orientations for LabObjectivity
          HKINDS,      \* history kinds explored by HSpec: subset of {"grain", "map"}
          HREFS,       \* histories: <<L0, U0b>> with a right-angle U0b
          HSTRETCHES,  \* histories: stretches (tenths) the grain object moves between
          HROTS,       \* histories: rotations (den <= 5) the grain object moves between
          HU0R,        \* histories: right-angle orientations of the reference grain object
          HSCALES,     \* histories: scales <<n, d>> of the reference cell: a reference given / a ref_unitcell carried is k.L0
          MTOUCHES,    \* map histories: the other computed maps a history may read (subset of MTouchAll)
          MFAILS,      \* map histories: how a TensorMap may be INCOMPLETE for a strain request (subset of MFailAll)
          GFAILS,      \* grain histories: the invalid requests a history may make (subset of GFailAll)
          HLEN,        \* operations per grain history (the constructor included)
          PHASEDICTS,  \* map histories: phase ids in dictionary insertion order
          NVER,        \* map histories: number of distinct UBI maps
          MLEN         \* operations per map history (the constructor included)

VARIABLES stage, ref, S, R, ubi, F, k, eref, elab,     \* machine Spec
          hmode, hst, hist                             \* machine HSpec ("off" in Spec)
hvars == <<hmode, hst, hist>>
cvars == <<stage, ref, S, R, ubi, F, k, eref, elab>>
vars == <<stage, ref, S, R, ubi, F, k, eref, elab, hmode, hst, hist>>

MS == <<-2, -1, 1, 2, 3, 4>>          \* 2m for m = -1, -1/2, 1/2, 1, 3/2, 2
NONE == <<>>

\* ---------------------------------------------------------------- scaled algebra
T3(M) == M2T(M)
RECURSIVE Gcd(_, _)
Gcd(a, b) == IF b = 0 THEN a ELSE Gcd(b, a % b)          \* a, b >= 0
GcdM(M) == Gcd(Gcd(Gcd(Abs(M[1][1]), Abs(M[1][2])), Gcd(Abs(M[1][3]), Abs(M[2][1]))),
               Gcd(Gcd(Abs(M[2][2]), Abs(M[2][3])),
                   Gcd(Gcd(Abs(M[3][1]), Abs(M[3][2])), Abs(M[3][3]))))
Reduce(A) == LET g == Gcd(A[2], GcdM(A[1]))
             IN  << T3([i \in Idx |-> [j \in Idx |-> A[1][i][j] \div g]]), A[2] \div g >>
SI == <<I3, 1>>
SMM(A, B) == Reduce(<<MM(A[1], B[1]), A[2] * B[2]>>)
ST(A) == <<T3(Transpose(A[1])), A[2]>>
SInv(A) == LET dt == Det(A[1])
           IN  IF dt > 0 THEN Reduce(<<MScale(A[2], Adj(A[1])), dt>>)
                         ELSE Reduce(<<MScale(-A[2], Adj(A[1])), -dt>>)
RECURSIVE SPowP(_, _)
SPowP(A, p) == IF p = 1 THEN Reduce(A) ELSE SMM(A, SPowP(A, p - 1))
SPow(A, p) == IF p > 0 THEN SPowP(A, p) ELSE SPowP(SInv(A), -p)
SMinusI(A) == Reduce(<<MSub(A[1], MScale(A[2], I3)), A[2]>>)
SDivInt(A, q) == IF q > 0 THEN Reduce(<<A[1], A[2] * q>>)
                          ELSE Reduce(<<MScale(-1, A[1]), A[2] * (-q)>>)
SAdd(A, B) == Reduce(<<MAdd(MScale(B[2], A[1]), MScale(A[2], B[1])), A[2] * B[2]>>)
Conj(Q, A) == SMM(SMM(Q, A), ST(Q))                       \* Q.A.Q^T
ConjT(Q, A) == SMM(SMM(ST(Q), A), Q)                      \* Q^T.A.Q
\* Seth-Hill tensor from P = X^(m2):  (P - I)/m2
SethHill(P, m2) == SDivInt(SMinusI(P), m2)
PosDef(M) == /\ M[1][1] > 0
             /\ M[1][1]*M[2][2] - M[1][2]*M[2][1] > 0
             /\ Det(M) > 0
IsRot(Q) == /\ Q[2] > 0
            /\ T3(MM(Q[1], Transpose(Q[1]))) = T3(MScale(Q[2]*Q[2], I3))
            /\ Det(Q[1]) = Q[2]*Q[2]*Q[2]

\* ---------------------------------------------------------------- the configuration
Ubi0(r) == SMM(<<r[1], 1>>, ST(r[2]))                     \* L0.U0^T (rows = real space a,b,c)
B0(r) == SInv(<<r[1], 1>>)                                \* Busing-Levy B of the reference cell
Ub0(r) == SMM(r[2], B0(r))                                \* U0.B0  = reference_grain.UB
UbiOf(r, s, q) == SMM(SMM(Ubi0(r), s), ST(q))             \* ubi0.S.R^T
FOf(u, b) == SMM(ST(u), ST(b))                            \* finite_strain.py:61
VOf(s, q) == Conj(q, s)                                   \* left stretch V = R.S.R^T

\* size classes (32 bit): when may TLC form powers of lab-frame matrices
LabExact(s, q) == q[2] = 1 \/ (q[2] = 5 /\ s[2] = 10)
LabEmit(s, q, m2) == LabExact(s, q) \/ m2 # -2

\* ---------------------------------------------------------------- what the code computes
\* (F^T F reduces to S^2: small.  F F^T = R S^2 R^T carries n^2: for m2 < 0 numpy inverts the
\* product; here (F F^T)^-1 = F^-T . F^-1 is formed from F^-1 - same rational matrix, smaller
\* intermediates)
CodeRef(f, sp, m2) ==
    IF m2 % 2 = 0
    THEN SethHill(SPow(SMM(ST(f), f), m2 \div 2), m2)
    ELSE SethHill(SPow(sp, m2), m2)
CodeLab(f, v, m2) ==
    IF m2 % 2 = 0
    THEN IF m2 > 0 THEN SethHill(SPow(SMM(f, ST(f)), m2 \div 2), m2)
                   ELSE SethHill(SPow(SMM(ST(SInv(f)), SInv(f)), (-m2) \div 2), m2)
    ELSE SethHill(SPow(v, m2), m2)

\* ---------------------------------------------------------------- what the property says
PropRef(s, m2) == SethHill(SPow(s, m2), m2)               \* (S^2m - I)/2m
PropLab(s, q, m2) == Conj(q, PropRef(s, m2))              \* R.E_ref.R^T
VDef(s, q, m2) == SethHill(SPow(VOf(s, q), m2), m2)       \* (V^2m - I)/2m
NoLab == <<Z3, 0>>

\* ---------------------------------------------------------------- behaviour
Init == /\ stage = "start" /\ ref = NONE /\ S = NONE /\ R = NONE /\ ubi = NONE /\ F = NONE
        /\ k = 0 /\ eref = <<>> /\ elab = <<>>
        /\ hmode = "off" /\ hst = NONE /\ hist = <<>>

PickRef == /\ stage = "start"
           /\ \E r \in REFS : ref' = r
           /\ stage' = "ref"
           /\ UNCHANGED <<S, R, ubi, F, k, eref, elab, hmode, hst, hist>>

PickStretch == /\ stage = "ref"
               /\ \E s \in STRETCHES : S' = s
               /\ stage' = "stretch"
               /\ UNCHANGED <<ref, R, ubi, F, k, eref, elab, hmode, hst, hist>>

PickRot == /\ stage = "stretch"
           /\ \E q \in ROTS : /\ R' = q
                              /\ ubi' = UbiOf(ref, S, q)
           /\ stage' = "grain"
           /\ UNCHANGED <<ref, S, F, k, eref, elab, hmode, hst, hist>>

Deform == /\ stage = "grain"
          /\ F' = FOf(ubi, Ub0(ref))
          /\ k' = 1
          /\ stage' = "F"
          /\ UNCHANGED <<ref, S, R, ubi, eref, elab, hmode, hst, hist>>

Ref == /\ stage = "F"
       /\ eref' = Append(eref, CodeRef(F, S, MS[k]))
       /\ stage' = "refd"
       /\ UNCHANGED <<ref, S, R, ubi, F, k, elab, hmode, hst, hist>>

Lab == /\ stage = "refd"
       /\ elab' = Append(elab, IF LabExact(S, R) THEN CodeLab(F, VOf(S, R), MS[k])
                               ELSE IF LabEmit(S, R, MS[k]) THEN Conj(R, eref[k])
                               ELSE NoLab)
       /\ k' = k + 1
       /\ stage' = IF k = Len(MS) THEN "done" ELSE "F"
       /\ UNCHANGED <<ref, S, R, ubi, F, eref, hmode, hst, hist>>

Next == PickRef \/ PickStretch \/ PickRot \/ Deform \/ Ref \/ Lab
Spec == Init /\ [][Next]_vars

\* ---------------------------------------------------------------- invariants
HasRef == stage # "start"
HasF == stage \in {"F", "refd", "done"}

RefLatticeOK ==
    HasRef => /\ IsUpper(ref[1]) /\ Det(ref[1]) > 0
              /\ ref[1][1][1] > 0 /\ ref[1][2][2] > 0 /\ ref[1][3][3] > 0
              /\ IsRot(ref[2])
              /\ SMM(Ubi0(ref), Ub0(ref)) = SI                \* ubi0 = inv(ub0)
              /\ IsUpper(B0(ref)[1])                          \* Busing-Levy B
              /\ SMM(ST(B0(ref)), B0(ref)) = SInv(<<T3(MM(ref[1], Transpose(ref[1]))), 1>>)  \* B^T B = rmt

\* the model's (R, S, V) are the polar factors of the code's F (unique for det F > 0)
PolarOK ==
    HasF => /\ F = SMM(R, S)
            /\ IsRot(R)
            /\ IsSym(S[1]) /\ PosDef(S[1]) /\ S[2] > 0
            /\ (LabExact(S, R) => /\ IsSym(VOf(S, R)[1])
                                  /\ F = SMM(VOf(S, R), R))

\* The tensor sequences only grow and S, R never change after they are picked, so each element
\* is checked in the state in which it is appended (stage "refd" for eref, the state after Lab
\* for elab); by induction the laws hold for every element of every reachable state.
RefNew == stage = "refd"
LabNew == stage \in {"F", "done"} /\ Len(elab) > 0
LastRef == eref[Len(eref)]
LastLab == elab[Len(elab)]

RefIsSethHill == RefNew => LastRef = PropRef(S, MS[Len(eref)])
RefSym == RefNew => IsSym(LastRef[1])

LabIsRotatedRef ==
    (LabNew /\ LastLab # NoLab) =>
        /\ IsSym(LastLab[1])
        /\ LastLab = PropLab(S, R, MS[Len(elab)])
        /\ (LabExact(S, R) => LastLab = VDef(S, R, MS[Len(elab)]))

\* E_ref is a function of S alone: any other grain rotation and any other orientation of the
\* reference (grain built from that reference) give the same tensor through the code's path
\* (only the even-m2 branch reads F; the odd branch reads the polar factor S of F = q.S)
Objectivity ==
    RefNew =>
        \A q \in OBJROTS, u \in OBJU0 :
            LET r2 == <<ref[1], u>>
                f2 == FOf(UbiOf(r2, S, q), Ub0(r2))
            IN  /\ (k = 1 => f2 = SMM(q, S))
                /\ (MS[k] % 2 = 0 => CodeRef(f2, S, MS[k]) = LastRef)

\* same deformed grain, reference grain re-oriented by u (F.F^T removes the reference
\* orientation): lab tensor unchanged, reference tensor conjugated by Q = U0.u^T
LabObjectivity ==
    (LabNew /\ LabExact(S, R) /\ ref[2][2] = 1) =>
        \A u \in OBJU0R :
            LET i == Len(elab)
                Q == SMM(ref[2], ST(u))
                f2 == FOf(ubi, Ub0(<<ref[1], u>>))
            IN  /\ f2 = SMM(SMM(R, S), Q)
                /\ CodeLab(f2, VOf(S, R), MS[i]) = LastLab
                /\ CodeRef(f2, ConjT(Q, S), MS[i]) = ConjT(Q, eref[i])

IsIdentityStretch == S[1] = T3(MScale(S[2], I3))
ZeroIff ==
    /\ RefNew => ((LastRef[1] = Z3) <=> IsIdentityStretch)
    /\ (LabNew /\ LastLab # NoLab) => ((LastLab[1] = Z3) <=> IsIdentityStretch)

\* first-order agreement.  e = S - I = <<N - d.I, d>>, r = max abs row sum of e (>= spectral
\* radius).  Spectral calculus: E_m - e has eigenvalues f''(xi)/2 . lambda^2 with
\* |f''| = |2m-1| (1+xi)^(2m-2) <= 3 (1-r)^-4, so every entry of E_m - e is bounded by
\* (K2/2) r^2 with K2 = 5 for r <= 1/10 and K2 = 14 for r <= 3/10.
RowSum(M, i) == Abs(M[i][1]) + Abs(M[i][2]) + Abs(M[i][3])
FOChecked(m2) == m2 # -2 \/ S[2] = 10
FirstOrder ==
    RefNew =>
        LET e == T3(MSub(S[1], MScale(S[2], I3)))
            rn == Max2(RowSum(e, 1), Max2(RowSum(e, 2), RowSum(e, 3)))
            k2 == IF 10 * rn <= S[2] THEN 5 ELSE 14
            E == LastRef
            m2 == MS[Len(eref)]
        IN  /\ FOChecked(m2) =>
                 \A a, b \in Idx :
                    2 * Abs(E[1][a][b] * S[2] - e[a][b] * E[2]) * S[2] <= k2 * rn * rn * E[2]
            /\ m2 = 1 => E = Reduce(<<e, S[2]>>)                                 \* Biot = e
            /\ m2 = 2 => E = SAdd(<<e, S[2]>>, <<T3(MM(e, e)), 2 * S[2] * S[2]>>)  \* Green = e + e.e/2

Emit == stage # "done" \/
        PrintT("@@" \o ToJson([ L0 |-> ref[1], U0 |-> ref[2], S |-> S, R |-> R,
                                ubi0 |-> Ubi0(ref), ub0 |-> Ub0(ref), ubi |-> ubi, F |-> F,
                                mt0 |-> T3(MM(ref[1], Transpose(ref[1]))),
                                ms |-> MS, eref |-> eref, elab |-> elab,
                                labexact |-> LabExact(S, R) ]))

\* ---------------------------------------------------------------- constant families
A0 == <<1,0,1>>      A90 == <<0,1,1>>     A180 == <<-1,0,1>>   A270 == <<0,-1,1>>
P345 == <<4,3,5>>    P345n == <<3,-4,5>>  P513 == <<12,5,13>>  P513n == <<5,-12,13>>
Rot3(az, ay, ax) == << T3(MM(Rz(az), MM(Ry(ay), Rx(ax)))), az[3]*ay[3]*ax[3] >>
RotI == Rot3(A0, A0, A0)
Perm3 == Rot3(A90, A0, A90)               \* a 3-fold signed permutation (not an involution)

\* stretch from e = <<e11,e22,e33,e23,e13,e12>> over d
Str(e, d) == << << <<d + e[1], e[6], e[5]>>, <<e[6], d + e[2], e[4]>>, <<e[5], e[4], d + e[3]>> >>, d >>
E3 == {-1, 0, 1}
DiagAll == { Str(<<a, b, c, 0, 0, 0>>, 10) : a \in E3, b \in E3, c \in E3 }
DG == { <<0,0,0>>, <<1,-1,0>>, <<-1,0,1>>, <<1,1,1>> }
OffT == { <<1,0,0>>, <<0,1,0>>, <<0,0,1>>, <<1,1,0>>, <<1,0,-1>>, <<0,-1,1>>, <<1,1,1>>,
          <<1,-1,1>>, <<-1,-1,-1>>, <<-1,1,0>> }
FullT == { Str(<<g[1], g[2], g[3], o[1], o[2], o[3]>>, 10) : g \in DG, o \in OffT }
TwentT == { Str(e, 20) : e \in { <<1,-1,2,0,0,0>>, <<-1,0,0,0,0,0>>, <<1,1,1,0,0,0>>, <<2,-1,-2,0,0,0>>,
                                 <<1,-2,2,1,-1,1>>, <<-1,1,0,1,0,0>>, <<0,0,0,1,0,0>>, <<2,-1,1,-1,1,2>>,
                                 <<1,0,0,0,0,0>>, <<0,0,1,0,1,0>> } }
StretchT == DiagAll \cup FullT \cup TwentT
StretchQ == { Str(e, 10) : e \in { <<0,0,0,0,0,0>>, <<1,0,0,0,0,0>>, <<0,-1,0,0,0,0>>, <<1,1,1,0,0,0>>,
                                   <<1,-1,0,0,0,0>>, <<-1,1,1,0,0,0>>, <<1,0,-1,0,0,0>>, <<-1,-1,-1,0,0,0>>,
                                   <<0,0,0,1,0,0>>, <<0,0,0,0,0,-1>>, <<1,-1,0,0,1,0>>, <<1,1,1,1,1,1>>,
                                   <<-1,0,1,1,-1,1>>, <<0,0,0,-1,-1,-1>>, <<1,-1,0,0,-1,1>>,
                                   <<-1,0,1,1,0,-1>>, <<0,1,-1,1,1,0>> } }
            \cup { Str(e, 20) : e \in { <<1,-1,2,0,0,0>>, <<-1,0,0,0,0,0>>, <<1,-2,2,1,-1,1>>,
                                        <<0,0,0,1,0,0>>, <<2,-1,1,-1,1,2>> } }

CCubic == Diag(4,4,4)
CTetra == Diag(3,3,5)
COrtho == Diag(3,4,5)
CMono  == << <<3,0,1>>, <<0,4,0>>, <<0,0,5>> >>
CGamma == << <<4,-2,0>>, <<0,4,0>>, <<0,0,5>> >>
CTric1 == << <<3,1,1>>, <<0,4,1>>, <<0,0,5>> >>
CTric2 == << <<3,-1,1>>, <<0,4,-2>>, <<0,0,5>> >>
AllCells == {CCubic, CTetra, COrtho, CMono, CGamma, CTric1, CTric2}
RefsT == { <<c, RotI>> : c \in AllCells }
         \cup { <<CTric1, Perm3>>, <<CTric1, Rot3(P345, A0, A0)>>, <<CMono, Rot3(A0, A0, P513n)>>,
                <<CCubic, Rot3(P345, A0, A0)>> }
RefsQ == { <<CCubic, RotI>>, <<CGamma, RotI>>, <<CTric1, RotI>>, <<CTric2, RotI>>,
           <<CTric1, Rot3(P345, A0, A0)>>, <<CMono, Perm3>> }

RotsT == { RotI, Rot3(A90,A0,A0), Rot3(A0,A90,A0), Rot3(A0,A0,A90), Rot3(A180,A0,A0), Perm3,
           Rot3(A270,A90,A0), Rot3(A0,A270,A180) }
         \cup { Rot3(P345, A0, A0), Rot3(P513n, A0, A0), Rot3(A0, P345n, A0), Rot3(A0, P513, A0),
                Rot3(A0, A0, P345), Rot3(A0, A0, P513n) }
         \cup { Rot3(P345, A90, A0), Rot3(A90, P513, A0), Rot3(A270, A0, P345n), Rot3(A0, A180, P513n) }
         \cup { Rot3(P345, A0, P345n), Rot3(A0, P345n, P345) }       \* two independent Pythagorean axes (den 25)
RotsQ == { RotI, Perm3, Rot3(A0,A270,A180), Rot3(P345,A0,A0), Rot3(A0,P345n,A0), Rot3(A0,A0,P513n),
           Rot3(P345, A0, P345n), Rot3(A90, P513, A0) }

ObjRots == { Rot3(A270,A0,A90), Rot3(A0,P345,A0) }
ObjU0 == { Perm3, Rot3(P345n,A0,A0) }
ObjU0R == { RotI, Perm3, Rot3(A0,A0,A90) }

\* ================================================================ machine HSpec: histories
HMS == <<-2, -1, 0, 1, 2, 3, 4>>     \* 2m; m = 0 (logarithmic) is answered NoLab here, finished by the harness
CaseOff == /\ stage = "hist" /\ ref = NONE /\ S = NONE /\ R = NONE /\ ubi = NONE /\ F = NONE
           /\ k = 0 /\ eref = <<>> /\ elab = <<>>
HLast == hist[Len(hist)]

\* ---------------------------------------------------------------- kind "grain"
\* A reference cell is k.L0, k = <<n, d>> in HSCALES (K1 = the cell the grain was made from).  Seen from k.L0 the
\* grain ubi = L0.U0b^T.s.q^T = (k.L0).U0b^T.(s/k).q^T has the stretch s/k and the rotation q.
K1 == <<1, 1>>
SDivK(A, kk) == Reduce(<<MScale(kk[2], A[1]), A[2] * kk[1]>>)                 \* A / k
\* reference handed to eps_*(dzero_cell = ..): the six parameters of the cell k.L0 (ub0 = B0/k, Q = U0b) or the
\* reference grain object (ubi = rs.L0.ur^T: ub0 = ur.B0/rs, Q = U0b.ur^T); the code's F = ubi^T.ub0^T is q.(s/k).Q
RefK(st, rk, kk) == IF rk = "cell" THEN kk ELSE st.rs                        \* scale of the reference GIVEN
GQ(st, rk) == IF rk = "cell" THEN st.base[2] ELSE SMM(st.base[2], ST(st.ur))
GUb0(st, rk, kk) == IF rk = "cell" THEN SDivK(B0(st.base), kk) ELSE SDivK(SMM(st.ur, B0(st.base)), st.rs)
GF(st, rk, kk) == FOf(UbiOf(st.base, st.s, st.q), GUb0(st, rk, kk))          \* finite_strain.py:61
\* polar factors of F = q.s.Q:  rotation q.Q, right stretch Q^T.s.Q, left stretch q.s.q^T
CodeAns(f, s, q, Q, m2, fr) == IF m2 = 0 THEN NoLab
                               ELSE IF fr = "ref" THEN CodeRef(f, ConjT(Q, s), m2)
                               ELSE CodeLab(f, VOf(s, q), m2)
PropAns(s, q, Q, m2, fr) == IF m2 = 0 THEN NoLab
                            ELSE IF fr = "ref" THEN ConjT(Q, PropRef(s, m2))   \* E(S) seen from the reference
                            ELSE PropLab(s, q, m2)                              \* R.E(S).R^T

\* (the first rotation is fixed - SetUbi moves on from it - so that `tlc -simulate`, which draws the
\* initial state uniformly, starts about as many map histories as grain histories.  d0: the grain comes out of
\* the indexer / a dataset loader, which attach the phase's unitcell before anybody asks anything)
HInitGrain == \E r \in HREFS, s \in HSTRETCHES, d0 \in BOOLEAN :
                 LET q == CHOOSE x \in HROTS : x[2] > 1
                     k1 == CHOOSE kk \in HSCALES : kk # K1
                     gd == IF d0 THEN k1 ELSE NONE
                     rd == IF d0 THEN CHOOSE kk \in HSCALES : kk # K1 /\ (kk # k1 \/ Cardinality(HSCALES) = 2) ELSE NONE
                 IN
                 /\ hmode = "grain"
                 /\ hst = [base |-> r, s |-> s, q |-> q, ur |-> r[2], rs |-> K1, rid |-> 1, gd |-> gd, rd |-> rd,
                           hd |-> FALSE, dgt |-> NONE]
                 /\ hist = << [op |-> "new", L0 |-> r[1], U0 |-> r[2], S |-> s, R |-> q, gd |-> gd, rd |-> rd] >>

HGo == hmode = "grain" /\ Len(hist) < HLEN

\* grain.set_ubi -> clear_cache (grain.py:61-81): the carried ref_unitcell is dropped with the caches
SetUbi == /\ HGo
          /\ \E s \in HSTRETCHES, q \in HROTS :
                /\ <<s, q>> # <<hst.s, hst.q>>
                /\ hst' = [hst EXCEPT !.s = s, !.q = q, !.gd = NONE]
                /\ hist' = Append(hist, [op |-> "set_ubi", S |-> s, R |-> q])
          /\ UNCHANGED <<cvars, hmode>>

\* a NEW reference grain object (rid + 1; it may come with a ref_unitcell of its own, d), or the same object changed
\* in place by g0.set_ubi (which drops what it carried): another orientation and / or another cell k.L0
ChangeRef == /\ HGo
             /\ \E u \in HU0R, kk \in HSCALES, inplace \in BOOLEAN, d \in HSCALES \cup {NONE} :
                   /\ <<u, kk>> # <<hst.ur, hst.rs>>
                   /\ (inplace => d = NONE)
                   /\ hst' = [hst EXCEPT !.ur = u, !.rs = kk, !.rd = d, !.rid = IF inplace THEN @ ELSE @ + 1]
                   /\ hist' = Append(hist, [op |-> IF inplace THEN "reorient" ELSE "newref", U0r |-> u, k |-> kk,
                                            rd |-> d])
             /\ UNCHANGED <<cvars, hmode>>

\* DECORATION: obj.ref_unitcell = unitcell(k.L0) through the public setter (grain.py:217-222; indexing.py:1421,
\* sinograms/dataset.py:909 do this to every grain they hand out).  It is no argument of any strain request.
Decorate == /\ HGo
            /\ \E who \in {"g", "g0"}, kk \in HSCALES :
                  /\ hst' = IF who = "g" THEN [hst EXCEPT !.gd = kk] ELSE [hst EXCEPT !.rd = kk]
                  /\ hist' = Append(hist, [op |-> "decorate", who |-> who, k |-> kk])
            /\ UNCHANGED <<cvars, hmode>>

\* reading a cached property / setting a bookkeeping attribute of the grain or of the reference grain
GTOUCH == {"unitcell", "B", "U", "UB", "mt", "rmt", "name", "translation", "npks"}
Touch == /\ HGo
         /\ \E who \in {"g", "g0"}, w \in GTOUCH :
               hist' = Append(hist, [op |-> "touch", who |-> who, what |-> w])
         /\ UNCHANGED <<cvars, hmode, hst>>

\* (`tlc -simulate` draws the ACTION first, then one of its successors: asking is split by frame and by the kind
\* of reference so that a third to a half of the steps of a history are questions, as many with a reference
\* grain as with a cell)
AskF(fr, rk) ==
            /\ HGo
            /\ \E i \in DOMAIN HMS, kk \in HSCALES :
                  /\ kk = RefK(hst, rk, kk)
                  /\ LET Q == GQ(hst, rk)
                     IN  hist' = Append(hist, [op |-> "ask", m2 |-> HMS[i], frame |-> fr, rk |-> rk, k |-> kk, Q |-> Q,
                                               gd |-> hst.gd, rd |-> hst.rd,
                                               ans |-> CodeAns(GF(hst, rk, kk), SDivK(hst.s, kk), hst.q, Q, HMS[i], fr)])
            /\ UNCHANGED <<cvars, hmode, hst>>
AskRef == AskF("ref", "cell")
AskLab == AskF("lab", "cell")
AskRefG == AskF("ref", "grain")
AskLabG == AskF("lab", "grain")

\* DeformationGradientTensor(ubi | grain, ub0 | reference grain): F is taken at construction from the arguments
\* (the ubi / ub attributes of a grain argument, whatever else that grain carries)
MakeDGT == /\ HGo
           /\ \E ak \in {"array", "grain"}, bk \in {"array", "grain"}, rk \in {"cell", "grain"}, kk \in HSCALES :
                 /\ (rk = "cell" => bk = "array")
                 /\ kk = RefK(hst, rk, kk)
                 /\ hst' = [hst EXCEPT !.hd = TRUE, !.dgt = [s |-> SDivK(hst.s, kk), q |-> hst.q, Q |-> GQ(hst, rk),
                                               F |-> GF(hst, rk, kk)]]
                 /\ hist' = Append(hist, [op |-> "dgt", ak |-> ak, bk |-> bk, rk |-> rk, k |-> kk,
                                          gd |-> hst.gd, rd |-> hst.rd, F |-> GF(hst, rk, kk)])
           /\ UNCHANGED <<cvars, hmode>>

AskDGTF(fr) == /\ HGo /\ hst.hd
               /\ \E i \in DOMAIN HMS :
                     LET d == hst.dgt
                     IN  hist' = Append(hist, [op |-> "dask", m2 |-> HMS[i], frame |-> fr, Q |-> d.Q,
                                               ans |-> CodeAns(d.F, d.s, d.q, d.Q, HMS[i], fr)])
               /\ UNCHANGED <<cvars, hmode, hst>>
AskDGTRef == AskDGTF("ref")
AskDGTLab == AskDGTF("lab")

ReadDGT == /\ HGo /\ hst.hd
           /\ \E fld \in {"F", "U", "VRS"} :
                 LET d == hst.dgt
                 IN  hist' = Append(hist, [op |-> "dread", field |-> fld,
                                           val |-> IF fld = "F" THEN <<d.F>>
                                                   ELSE IF fld = "U" THEN <<SMM(d.q, d.Q)>>
                                                   ELSE <<VOf(d.s, d.q), SMM(d.q, d.Q), ConjT(d.Q, d.s)>>])
           /\ UNCHANGED <<cvars, hmode, hst>>

\* REQUESTS THAT RAISE.  A strain request the code cannot answer raises: a reference that is no cell (five
\* parameters, None, a degenerate cell: unitcell.py raises), a reference grain whose ubi is singular (grain.UB:
\* LinAlgError), an m that is no multiple of 1/2 (finite_strain.py:99 / :125 assert), a DeformationGradientTensor
\* built from a flattened ubi / from None (:56-60) or from a singular ub0 and asked for a negative m (matrix_power
\* of a singular stretch).  The law: A REQUEST THAT RAISES LEAVES NO TRACE - the grain, the reference grain and the
\* DeformationGradientTensor object that existed before answer afterwards as if it had never been made (hst is
\* unchanged; `pre` records the state the request found).
GFailAll == {"short_cell", "none_ref", "degenerate_cell", "bad_m", "singular_ref", "flat_ubi"}
AskFail == /\ HGo
           /\ \E b \in GFAILS \ {"flat_ubi"}, fr \in {"ref", "lab"} :
                 hist' = Append(hist, [op |-> "askfail", bad |-> b, frame |-> fr, pre |-> hst])
           /\ UNCHANGED <<cvars, hmode, hst>>
DGTFail == /\ HGo
           /\ \E b \in GFAILS \cap {"none_ref", "singular_ref", "flat_ubi"} :
                 hist' = Append(hist, [op |-> "dgtfail", bad |-> b, pre |-> hst])
           /\ UNCHANGED <<cvars, hmode, hst>>
DAskFail == /\ HGo /\ hst.hd /\ "bad_m" \in GFAILS
            /\ \E fr \in {"ref", "lab"} :
                  hist' = Append(hist, [op |-> "daskfail", bad |-> "bad_m", frame |-> fr, pre |-> hst])
            /\ UNCHANGED <<cvars, hmode, hst>>
HNoTrace == (hmode = "grain" /\ HLast.op \in {"askfail", "dgtfail", "daskfail"}) => HLast.pre = hst

\* every answer is the exact tensor of the state the object is in NOW, seen from the reference that was GIVEN in
\* the request (Ask / AskDGT leave hst alone, so the state after the action is the state that was asked).  The
\* right-hand side mentions the grain's s, q, the reference's orientation and the scale k of the reference given:
\* NOT gd, rd (what the objects carry), nor anything asked before.
HAnswersCurrent ==
    (hmode = "grain" /\ HLast.op \in {"ask", "dask"}) =>
        LET a == HLast
            s == IF a.op = "ask" THEN SDivK(hst.s, a.k) ELSE hst.dgt.s
            q == IF a.op = "ask" THEN hst.q ELSE hst.dgt.q
            Q == IF a.op = "ask" THEN GQ(hst, a.rk) ELSE hst.dgt.Q
        IN  /\ a.Q = Q
            /\ (a.op = "ask" => a.k = RefK(hst, a.rk, a.k))
            /\ a.ans = PropAns(s, q, Q, a.m2, a.frame)
            /\ (a.m2 # 0 => IsSym(a.ans[1]))
            /\ (a.m2 # 0 => ((a.ans[1] = Z3) <=> (s[1] = T3(MScale(s[2], I3)))))

\* the model's factors are the polar factors of the code's F (unique for det F > 0)
HPolarOK ==
    (hmode = "grain" /\ HLast.op = "dgt") =>
        LET d == hst.dgt
            rq == SMM(d.q, d.Q)
            sq == ConjT(d.Q, d.s)
            v == VOf(d.s, d.q)
        IN  /\ d.F = SMM(SMM(d.q, d.s), d.Q)
            /\ IsRot(rq) /\ IsSym(sq[1]) /\ PosDef(sq[1]) /\ IsSym(v[1]) /\ PosDef(v[1])
            /\ d.F = SMM(rq, sq) /\ d.F = SMM(v, rq)

\* what the objects carry is tracked as the code does it: set by the setter, dropped by set_ubi, absent on a new
\* object; a request records what was carried when it was made (the harness counts the requests whose reference
\* differs from the carried cell - the class of defect "an attribute leaks into the request")
HDecorTracked ==
    hmode = "grain" =>
        /\ hst.gd \in HSCALES \cup {NONE} /\ hst.rd \in HSCALES \cup {NONE}
        /\ (HLast.op = "set_ubi" => hst.gd = NONE)
        /\ (HLast.op = "reorient" => hst.rd = NONE)
        /\ (HLast.op = "newref" => hst.rd = HLast.rd)
        /\ (HLast.op = "decorate" => IF HLast.who = "g" THEN hst.gd = HLast.k ELSE hst.rd = HLast.k)
        /\ (HLast.op \in {"ask", "dgt"} => HLast.gd = hst.gd /\ HLast.rd = hst.rd)

\* ---------------------------------------------------------------- kind "map"
MAPS == {"s", "c", "h", "d"}         \* eps_sample, eps_crystal, eps_hydro, eps_devia
NoTag == <<>>
UbiTag(f, v) == <<"ubi", f, v>>
RotTag(f, t, uv) == <<"rot", f, t, uv>>
HydTag(t) == <<"hyd", t>>
DevTag(ts, th) == <<"dev", ts, th>>
NoCache == [f \in MAPS |-> NoTag]

\* tensor_map.py:764-840: a read returns <<tag, cache afterwards>>.  U, B, unitcell ARE dropped by
\* clear_cache, so a rotation always uses the U of the current version v.
RdS(c, v) == IF c["s"] # NoTag THEN <<c["s"], c>>
             ELSE IF c["c"] # NoTag THEN LET t == RotTag("s", c["c"], v) IN <<t, [c EXCEPT !["s"] = t]>>
             ELSE LET t == UbiTag("s", v) IN <<t, [c EXCEPT !["s"] = t]>>
RdC(c, v) == IF c["c"] # NoTag THEN <<c["c"], c>>
             ELSE IF c["s"] # NoTag THEN LET t == RotTag("c", c["s"], v) IN <<t, [c EXCEPT !["c"] = t]>>
             ELSE LET t == UbiTag("c", v) IN <<t, [c EXCEPT !["c"] = t]>>
RdH(c, v) == IF c["h"] # NoTag THEN <<c["h"], c>>
             ELSE LET r == RdS(c, v)
                      t == HydTag(r[1])
                  IN  <<t, [r[2] EXCEPT !["h"] = t]>>
RdD(c, v) == IF c["d"] # NoTag THEN <<c["d"], c>>
             ELSE LET r1 == RdS(c, v)
                      r2 == RdH(r1[2], v)
                      t == DevTag(r1[1], r2[1])
                  IN  <<t, [r2[2] EXCEPT !["d"] = t]>>
Rd(f, c, v) == CASE f = "s" -> RdS(c, v) [] f = "c" -> RdC(c, v) [] f = "h" -> RdH(c, v) [] f = "d" -> RdD(c, v)

\* the property: what a map that holds the CURRENT UBI answers, given which of eps_sample /
\* eps_crystal was computed first since the assignment (the other one is derived by rotation)
FirstAfter(first, f) == IF first # "n" THEN first ELSE IF f = "c" THEN "c" ELSE "s"
ExpS(f1, v) == IF f1 = "c" THEN RotTag("s", UbiTag("c", v), v) ELSE UbiTag("s", v)
ExpC(f1, v) == IF f1 = "s" THEN RotTag("c", UbiTag("s", v), v) ELSE UbiTag("c", v)
ExpTag(first, f, v) == LET f1 == FirstAfter(first, f)
                       IN  CASE f = "s" -> ExpS(f1, v)
                             [] f = "c" -> ExpC(f1, v)
                             [] f = "h" -> HydTag(ExpS(f1, v))
                             [] f = "d" -> DevTag(ExpS(f1, v), HydTag(ExpS(f1, v)))
RECURSIVE TagCurrent(_, _)
TagCurrent(t, v) == CASE t[1] = "ubi" -> t[3] = v
                      [] t[1] = "rot" -> t[4] = v /\ TagCurrent(t[3], v)
                      [] t[1] = "hyd" -> TagCurrent(t[2], v)
                      [] t[1] = "dev" -> TagCurrent(t[2], v) /\ TagCurrent(t[3], v)

\* reference cell of a voxel: tensor_map.py:749-762 looks the phase id up as a dictionary KEY.
\* pd = ids in insertion order; cell group i belongs to id pd[i]; 0 = no reference (NaN cell)
PIDS == -1..6
DzOf(pd, p) == IF \E i \in DOMAIN pd : pd[i] = p THEN CHOOSE i \in DOMAIN pd : pd[i] = p ELSE 0
DzTable(pd) == [j \in 1..8 |-> DzOf(pd, j - 2)]           \* index j = phase id + 2

\* dzx: an explicit dzero_unitcell map is among the maps the TensorMap is built from (:751-756 takes it as it is);
\* the cells of the phases dictionary are then decoration
\* inc: the map is built INCOMPLETE for a strain request (TensorMap.from_ubis / from_pbpmap hand out maps without
\* phase_ids; a phase_ids map of another shape; a phases entry that is no unitcell object); which way is fixed per
\* dictionary (MissOf) so that `tlc -simulate` keeps starting about as many grain as map histories
MFailAll == {"phase_ids", "pidshape", "phase_entry", "ubi"}
MFailNone == {}
MissSeq == <<"phase_ids", "pidshape", "phase_entry">>
MissOf(pd) == LET m == MissSeq[((Len(pd) + pd[1]) % 3) + 1] IN IF m \in MFAILS THEN m ELSE "none"
\* a strain request (and T.dzero_unitcell itself) RAISES while the reference cells cannot be looked up (:757-760:
\* AttributeError / IndexError) or while the UBI map is malformed (version 0: the kernels refuse it)
Blocked(st) == st.cur = 0 \/ (st.dz = "phases" /\ st.miss # "none")
HInitMap == \E pd \in PHASEDICTS, dzx \in BOOLEAN, inc \in BOOLEAN :
               /\ (inc => ~dzx /\ MissOf(pd) # "none")
               /\ hmode = "map"
               /\ hst = [cur |-> 1, first |-> "n", cache |-> NoCache, rcache |-> NoCache, pd |-> pd,
                         dz |-> IF dzx THEN "maps" ELSE "phases", miss |-> IF inc THEN MissOf(pd) ELSE "none"]
               /\ hist = << [op |-> "newmap", pd |-> pd, dz |-> DzTable(pd), ver |-> 1, dzx |-> dzx,
                              miss |-> IF inc THEN MissOf(pd) ELSE "none"] >>

MGo == hmode = "map" /\ Len(hist) < MLEN

MReadIn(names) ==
         /\ MGo /\ ~Blocked(hst)
         /\ \E f \in names :
               LET a == Rd(f, hst.cache, hst.cur)
                   r == Rd(f, hst.rcache, hst.cur)
               IN  /\ hst' = [hst EXCEPT !.cache = a[2], !.rcache = r[2], !.first = FirstAfter(hst.first, f)]
                   /\ hist' = Append(hist, [op |-> "read", f |-> f, exp |-> ExpTag(hst.first, f, hst.cur),
                                            asis |-> a[1], rep |-> r[1], cur |-> hst.cur, dzs |-> hst.dz])
         /\ UNCHANGED <<cvars, hmode>>
MReadFrame == MReadIn({"s", "c"})
MReadPart == MReadIn({"h", "d"})

\* T.UBI = x (setter :632-635), T["UBI"] = x (:581-583), T.add_map("UBI", x) (:612-616): all three call
\* clear_cache (:589-593), which drops U, B, UB, mt, unitcell, euler and (since fix e29c99a) the eps maps;
\* dzero_unitcell stays: the reference does not depend on the UBI map
MAssign == /\ MGo
           /\ \E w \in {"setter", "item", "add_map"}, v \in 1..NVER :
                 /\ v # hst.cur
                 /\ hst' = [hst EXCEPT !.cur = v, !.first = "n", !.rcache = NoCache]
                 /\ hist' = Append(hist, [op |-> "assign", way |-> w, ver |-> v])
           /\ UNCHANGED <<cvars, hmode>>

\* T["dzero_unitcell"] = x / T.add_map("dzero_unitcell", x): the reference is handed over explicitly.  Modelled
\* only while no strain map is cached (first = "n": none computed since the construction / the last UBI
\* assignment): add_map clears caches for the name "UBI" alone (:613-616), what a strain map computed from the
\* previous reference should show afterwards is not stated by the property.
MSetDz == /\ MGo /\ hst.dz = "phases" /\ hst.first = "n" /\ hst.rcache = NoCache
          /\ \E w \in {"item", "add_map"} :
                /\ hst' = [hst EXCEPT !.dz = "maps"]
                /\ hist' = Append(hist, [op |-> "setdz", way |-> w])
          /\ UNCHANGED <<cvars, hmode>>

\* reading one of the other computed maps (cached in self.maps: U, B, UB, mt, unitcell, euler are dropped by
\* clear_cache; dzero_unitcell is computed from the phases dictionary once and kept)
MTouchAll == {"U", "B", "UB", "mt", "unitcell", "euler", "dzero_unitcell"}
MTouchNone == {}
MTouch == /\ MGo /\ ~Blocked(hst)
          /\ \E w \in MTOUCHES : hist' = Append(hist, [op |-> "touch", what |-> w])
          /\ UNCHANGED <<cvars, hmode, hst>>

\* REQUESTS THAT RAISE (law: a request that raises leaves no trace).  MReadFail: one of the four strain maps, or
\* dzero_unitcell itself ("z"), is asked while Blocked: the code raises; nothing may be cached, registered or
\* half-filled by it (hst unchanged, `pre` = the state the request found).  MRepair: the user completes the map
\* (T["phase_ids"] = ids | T.add_map("phase_ids", ids) | T.phases[id] = unitcell) - which clears nothing, rightly:
\* nothing was there.  MAssignBad: a malformed UBI map (version 0: flattened 3x3 / None) is assigned in one of the
\* three ways; every strain read then raises until a proper version is assigned.  An explicit dzero_unitcell map
\* (MSetDz, or given at construction) makes phase_ids / phases unnecessary: `miss` is decoration then.
MReadFail == /\ MGo /\ Blocked(hst)
             /\ \E f \in MAPS \cup {"z"} :
                   LET bymiss == hst.dz = "phases" /\ hst.miss # "none" IN
                   /\ (f = "z" => bymiss)
                   /\ hist' = Append(hist, [op |-> "readfail", f |-> f, why |-> IF bymiss THEN hst.miss ELSE "ubi",
                                            pre |-> hst])
             /\ UNCHANGED <<cvars, hmode, hst>>
MRepair == /\ MGo /\ hst.miss # "none"
           /\ \E w \in {"item", "add_map"} :
                 /\ hst' = [hst EXCEPT !.miss = "none"]
                 /\ hist' = Append(hist, [op |-> "repair", what |-> hst.miss, way |-> w])
           /\ UNCHANGED <<cvars, hmode>>
MAssignBad == /\ MGo /\ "ubi" \in MFAILS /\ hst.cur # 0
              /\ \E w \in {"setter", "item", "add_map"} :
                    /\ hst' = [hst EXCEPT !.cur = 0, !.first = "n", !.rcache = NoCache]
                    /\ hist' = Append(hist, [op |-> "assign", way |-> w, ver |-> 0])
              /\ UNCHANGED <<cvars, hmode>>
MapNoTrace == (hmode = "map" /\ HLast.op = "readfail") => HLast.pre = hst
MapRaisesIffBlocked == hmode = "map" => /\ (HLast.op = "read" => ~Blocked(hst) /\ hst.cur \in 1..NVER)
                                        /\ (HLast.op = "readfail" => Blocked(hst))
                                        /\ (HLast.op = "repair" => hst.miss = "none")
                                        /\ (hst.miss # "none" => (hst.miss \in MFAILS /\ (hst.rcache = NoCache \/ hst.dz = "maps")))

MapExpCurrent == (hmode = "map" /\ HLast.op = "read") => TagCurrent(HLast.exp, hst.cur)
MapRepairedCurrent == (hmode = "map" /\ HLast.op = "read") => HLast.rep = HLast.exp
MapAsIsCurrent == (hmode = "map" /\ HLast.op = "read") => HLast.asis = HLast.exp
\* an explicit dzero_unitcell map, once given, is the reference of every later read
DzSourceOK == (hmode = "map" /\ HLast.op = "read") =>
                 HLast.dzs = (IF \E i \in DOMAIN hist : hist[i].op = "setdz" \/ (hist[i].op = "newmap" /\ hist[i].dzx)
                              THEN "maps" ELSE "phases")
DzeroByKey == hmode = "map" =>
                 /\ \A i \in DOMAIN hst.pd : DzOf(hst.pd, hst.pd[i]) = i
                 /\ \A p \in PIDS : (\A i \in DOMAIN hst.pd : hst.pd[i] # p) => DzOf(hst.pd, p) = 0

\* ---------------------------------------------------------------- the machine
HInit == /\ CaseOff
         /\ \/ ("grain" \in HKINDS /\ HInitGrain)
            \/ ("map" \in HKINDS /\ HInitMap)
HNext == SetUbi \/ ChangeRef \/ Decorate \/ Touch \/ AskRef \/ AskLab \/ AskRefG \/ AskLabG \/ MakeDGT \/ AskDGTRef \/ AskDGTLab \/ ReadDGT
         \/ AskFail \/ DGTFail \/ DAskFail
         \/ MReadFrame \/ MReadPart \/ MAssign \/ MSetDz \/ MTouch \/ MReadFail \/ MRepair \/ MAssignBad
HSpec == HInit /\ [][HNext]_vars
HDone == (hmode = "grain" /\ Len(hist) = HLEN) \/ (hmode = "map" /\ Len(hist) = MLEN)
HEmit == ~HDone \/ PrintT("@@" \o ToJson([kind |-> hmode, hist |-> hist]))

HKindsAll == {"grain", "map"}
HKindsMap == {"map"}
HKindsGrain == {"grain"}
HRefsQ == { <<CTric1, RotI>>, <<CGamma, Perm3>> }
HRefsT == { <<CTric1, RotI>>, <<CGamma, Perm3>>, <<CMono, Rot3(A0,A0,A90)>>, <<CCubic, RotI>> }
HStretchQ == { Str(e, 10) : e \in { <<0,0,0,0,0,0>>, <<1,-1,0,0,1,0>>, <<-1,0,1,1,-1,1>>, <<0,1,0,0,0,0>> } }
HStretchT == HStretchQ \cup { Str(e, 10) : e \in { <<1,1,1,1,1,1>>, <<0,0,0,-1,-1,-1>>, <<-1,-1,-1,0,0,0>> } }
HRotsQ == { RotI, Perm3, Rot3(P345, A0, A0), Rot3(A0, P345n, A180) }
HRotsT == HRotsQ \cup { Rot3(A0, A0, P345), Rot3(A270, A90, A0) }
HU0RAll == { RotI, Perm3, Rot3(A0,A0,A90), Rot3(A180,A270,A0) }
HScalesAll == { K1, <<11, 10>>, <<9, 10>> }       \* the harness lifts them to 501/500, 499/500 (a refined d-zero) as well
PhaseDicts == { <<0>>, <<3>>, <<0, 1, 2>>, <<1, 2, 3>>, <<0, 2, 5>>, <<2, 1, 0>>, <<1, 0>>, <<5, 0, 2>> }
PhaseDictsMapT == { <<0, 1>>, <<5, 0, 2>> }
PhaseDictsFail == { <<0, 2, 5>>, <<1, 2, 3>>, <<5, 0, 2>> }      \* one dictionary per way of being incomplete

\* ---------------------------------------------------------------- sanity of the constants
ASSUME \A q \in ROTS \cup OBJROTS \cup OBJU0 \cup OBJU0R : IsRot(q)
ASSUME \A r \in REFS : IsRot(r[2]) /\ IsUpper(r[1]) /\ Det(r[1]) > 0
ASSUME \A s \in STRETCHES : /\ IsSym(s[1]) /\ PosDef(s[1]) /\ s[2] \in {10, 20}
                            /\ \A i \in Idx : 10 * RowSum(T3(MSub(s[1], MScale(s[2], I3))), i) <= 3 * s[2]
                            /\ \A i, j \in Idx : 10 * Abs(s[1][i][j] - (IF i = j THEN s[2] ELSE 0)) <= s[2]
ASSUME \A q \in OBJU0R : q[2] = 1
ASSUME \A r \in HREFS : IsRot(r[2]) /\ r[2][2] = 1 /\ IsUpper(r[1]) /\ Det(r[1]) > 0
ASSUME (\A q \in HROTS : IsRot(q) /\ q[2] \in {1, 5}) /\ (\E q \in HROTS : q[2] > 1)
ASSUME \A u \in HU0R : IsRot(u) /\ u[2] = 1
ASSUME \A s \in HSTRETCHES : IsSym(s[1]) /\ PosDef(s[1]) /\ s[2] = 10
ASSUME MTOUCHES \subseteq MTouchAll /\ MFAILS \subseteq MFailAll /\ GFAILS \subseteq GFailAll
ASSUME MFAILS = MFailAll => { MissOf(pd) : pd \in PhaseDictsFail } = MFailAll \ {"ubi"}
ASSUME K1 \in HSCALES /\ (\E kk \in HSCALES : kk # K1) /\ (\A kk \in HSCALES : kk[1] > 0 /\ kk[2] > 0 /\ Gcd(kk[1], kk[2]) = 1)
ASSUME SDivK(<<Diag(11,10,9), 10>>, <<11, 10>>) = <<Diag(11,10,9), 11>>
ASSUME \A pd \in PHASEDICTS : /\ \A i \in DOMAIN pd : pd[i] \in 0..5
                              /\ \A i, j \in DOMAIN pd : i # j => pd[i] # pd[j]
ASSUME HLEN >= 2 /\ MLEN >= 2 /\ NVER >= 2 /\ HKINDS \subseteq HKindsAll
ASSUME SInv(<<Diag(2,4,5), 10>>) = <<Diag(10,5,4), 2>>
ASSUME Reduce(<<Diag(4,-6,8), 10>>) = <<Diag(2,-3,4), 5>>
ASSUME SethHill(SPow(<<Diag(11,10,9), 10>>, 2), 2) = <<Diag(21, 0, -19), 200>>
ASSUME SethHill(SPow(<<Diag(12,10,8), 10>>, -1), -1) = <<Diag(2, 0, -3), 12>>
=============================================================================

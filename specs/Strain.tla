------------------------------- MODULE Strain -------------------------------
(***************************************************************************)
(* Property C10: finite (Seth-Hill) strain tensors of ImageD11 are         *)
(* objective, symmetric and exact for known deformations.                  *)
(*                                                                         *)
(* CODE MODELLED                                                           *)
(*   ImageD11/finite_strain.py:46-139  DeformationGradientTensor           *)
(*       :61      F = dot(ubi.T, ub0.T)                      action Deform *)
(*       :72-83   polar decomposition F = V.R = R.S          PolarOK       *)
(*       :91-114  finite_strain_ref(m)                       action Ref    *)
(*                   m2 = 2m even : (matrix_power(F^T F, m) - I)/m2        *)
(*                   m2 odd       : (matrix_power(S, m2) - I)/m2           *)
(*       :116-139 finite_strain_lab(m)                       action Lab    *)
(*                   m2 even      : (matrix_power(F F^T, m) - I)/m2        *)
(*                   m2 odd       : (matrix_power(V, m2) - I)/m2           *)
(*   ImageD11/grain.py:148-206  eps_grain(_matrix) = finite_strain_ref,    *)
(*       eps_sample(_matrix) = finite_strain_lab with ub0 = B(cell) or     *)
(*       ub0 = reference_grain.UB                            action PickRef*)
(*   ImageD11/sinograms/tensor_map.py:190-365  the m = 1/2 copies          *)
(*       (V - I, S - I) and U.T.U^T / U^T.T.U rotations.                   *)
(*   m = 0 (logarithmic strain) is irrational: it is finished by the       *)
(*   harness from the exact S and R emitted here.                          *)
(*                                                                         *)
(* EXACT ARITHMETIC                                                        *)
(*   A scaled matrix is <<numerators, den>>, den > 0, always kept in       *)
(*   lowest terms by Reduce, so equality of rationals is equality of       *)
(*   values.  Reference lattice: L0 = integer upper triangular real-space  *)
(*   cell (rows a,b,c; this is the ubi of an unrotated reference grain, so *)
(*   B0 = L0^-1 = <<Adj(L0), Det(L0)>> is the exact Busing-Levy B of the   *)
(*   cell with metric L0.L0^T), reference orientation U0, stretch          *)
(*   S = I + e = <<N, d>> (d = 10 or 20, symmetric positive definite),     *)
(*   rotation R = <<Rn, n>> from ExactLA angles (at most one Pythagorean). *)
(*       ubi0 = L0.U0^T     ub0 = U0.B0      ubi = ubi0.S.R^T              *)
(*   so that the code's F = ubi^T.ub0^T is R.S (checked: PolarOK).         *)
(*                                                                         *)
(* VARIABLES  stage, ref = <<L0, U0>>, S, R, ubi, F, k (index into MS),    *)
(*            eref, elab (sequences of the tensors computed so far)        *)
(* ACTIONS    PickRef, PickStretch, PickRot, Deform, Ref, Lab              *)
(* INVARIANTS RefLatticeOK, PolarOK, RefIsSethHill, RefSym,                *)
(*            LabIsRotatedRef, Objectivity, LabObjectivity, ZeroIff,       *)
(*            FirstOrder, Emit (prints one JSON record per finished case)  *)
(* BOUNDS     constant sets REFS x STRETCHES x ROTS (cfg Strain_q/_t);     *)
(*            m2 = 2m in <<-2,-1,1,2,3,4>>.  Intermediates < 2^31: where   *)
(*            a lab-frame power would not fit (LabExact false) the lab     *)
(*            tensor is emitted as R.E_ref.R^T (or left out, den = 0) and  *)
(*            the harness finishes V^(2m) with python fractions.           *)
(***************************************************************************)
EXTENDS ExactLA, Json

CONSTANTS REFS,        \* set of <<L0, <<U0n, n0>> >>
          STRETCHES,   \* set of <<N, d>>
          ROTS,        \* set of <<Rn, n>>
          OBJROTS,     \* rotations quantified over in Objectivity
          OBJU0,       \* reference orientations quantified over in Objectivity
          OBJU0R       \* right-angle reference orientations for LabObjectivity

VARIABLES stage, ref, S, R, ubi, F, k, eref, elab
vars == <<stage, ref, S, R, ubi, F, k, eref, elab>>

MS == <<-2, -1, 1, 2, 3, 4>>          \* 2m for m = -1, -1/2, 1/2, 1, 3/2, 2
NONE == <<>>

\* ---------------------------------------------------------------- scaled algebra
T3(M) == M2T(M)
RECURSIVE Gcd(_, _)
Gcd(a, b) == IF b = 0 THEN a ELSE Gcd(b, a % b)          \* a, b >= 0
GcdM(M) == Gcd(Gcd(Gcd(Abs(M[1][1]), Abs(M[1][2])), Gcd(Abs(M[1][3]), Abs(M[2][1]))),
               Gcd(Gcd(Abs(M[2][2]), Abs(M[2][3])),
                   Gcd(Gcd(Abs(M[3][1]), Abs(M[3][2])), Abs(M[3][3]))))
Reduce(A) == LET g == Gcd(A[2], GcdM(A[1]))
             IN  << T3([i \in Idx |-> [j \in Idx |-> A[1][i][j] \div g]]), A[2] \div g >>
SI == <<I3, 1>>
SMM(A, B) == Reduce(<<MM(A[1], B[1]), A[2] * B[2]>>)
ST(A) == <<T3(Transpose(A[1])), A[2]>>
SInv(A) == LET dt == Det(A[1])
           IN  IF dt > 0 THEN Reduce(<<MScale(A[2], Adj(A[1])), dt>>)
                         ELSE Reduce(<<MScale(-A[2], Adj(A[1])), -dt>>)
RECURSIVE SPowP(_, _)
SPowP(A, p) == IF p = 1 THEN Reduce(A) ELSE SMM(A, SPowP(A, p - 1))
SPow(A, p) == IF p > 0 THEN SPowP(A, p) ELSE SPowP(SInv(A), -p)
SMinusI(A) == Reduce(<<MSub(A[1], MScale(A[2], I3)), A[2]>>)
SDivInt(A, q) == IF q > 0 THEN Reduce(<<A[1], A[2] * q>>)
                          ELSE Reduce(<<MScale(-1, A[1]), A[2] * (-q)>>)
SAdd(A, B) == Reduce(<<MAdd(MScale(B[2], A[1]), MScale(A[2], B[1])), A[2] * B[2]>>)
Conj(Q, A) == SMM(SMM(Q, A), ST(Q))                       \* Q.A.Q^T
ConjT(Q, A) == SMM(SMM(ST(Q), A), Q)                      \* Q^T.A.Q
\* Seth-Hill tensor from P = X^(m2):  (P - I)/m2
SethHill(P, m2) == SDivInt(SMinusI(P), m2)
PosDef(M) == /\ M[1][1] > 0
             /\ M[1][1]*M[2][2] - M[1][2]*M[2][1] > 0
             /\ Det(M) > 0
IsRot(Q) == /\ Q[2] > 0
            /\ T3(MM(Q[1], Transpose(Q[1]))) = T3(MScale(Q[2]*Q[2], I3))
            /\ Det(Q[1]) = Q[2]*Q[2]*Q[2]

\* ---------------------------------------------------------------- the configuration
Ubi0(r) == SMM(<<r[1], 1>>, ST(r[2]))                     \* L0.U0^T (rows = real space a,b,c)
B0(r) == SInv(<<r[1], 1>>)                                \* Busing-Levy B of the reference cell
Ub0(r) == SMM(r[2], B0(r))                                \* U0.B0  = reference_grain.UB
UbiOf(r, s, q) == SMM(SMM(Ubi0(r), s), ST(q))             \* ubi0.S.R^T
FOf(u, b) == SMM(ST(u), ST(b))                            \* finite_strain.py:61
VOf(s, q) == Conj(q, s)                                   \* left stretch V = R.S.R^T

\* size classes (32 bit): when may TLC form powers of lab-frame matrices
LabExact(s, q) == q[2] = 1 \/ (q[2] = 5 /\ s[2] = 10)
LabEmit(s, q, m2) == LabExact(s, q) \/ m2 # -2

\* ---------------------------------------------------------------- what the code computes
\* (F^T F reduces to S^2: small.  F F^T = R S^2 R^T carries n^2: for m2 < 0 numpy inverts the
\* product; here (F F^T)^-1 = F^-T . F^-1 is formed from F^-1 - same rational matrix, smaller
\* intermediates)
CodeRef(f, sp, m2) ==
    IF m2 % 2 = 0
    THEN SethHill(SPow(SMM(ST(f), f), m2 \div 2), m2)
    ELSE SethHill(SPow(sp, m2), m2)
CodeLab(f, v, m2) ==
    IF m2 % 2 = 0
    THEN IF m2 > 0 THEN SethHill(SPow(SMM(f, ST(f)), m2 \div 2), m2)
                   ELSE SethHill(SPow(SMM(ST(SInv(f)), SInv(f)), (-m2) \div 2), m2)
    ELSE SethHill(SPow(v, m2), m2)

\* ---------------------------------------------------------------- what the property says
PropRef(s, m2) == SethHill(SPow(s, m2), m2)               \* (S^2m - I)/2m
PropLab(s, q, m2) == Conj(q, PropRef(s, m2))              \* R.E_ref.R^T
VDef(s, q, m2) == SethHill(SPow(VOf(s, q), m2), m2)       \* (V^2m - I)/2m
NoLab == <<Z3, 0>>

\* ---------------------------------------------------------------- behaviour
Init == /\ stage = "start" /\ ref = NONE /\ S = NONE /\ R = NONE /\ ubi = NONE /\ F = NONE
        /\ k = 0 /\ eref = <<>> /\ elab = <<>>

PickRef == /\ stage = "start"
           /\ \E r \in REFS : ref' = r
           /\ stage' = "ref"
           /\ UNCHANGED <<S, R, ubi, F, k, eref, elab>>

PickStretch == /\ stage = "ref"
               /\ \E s \in STRETCHES : S' = s
               /\ stage' = "stretch"
               /\ UNCHANGED <<ref, R, ubi, F, k, eref, elab>>

PickRot == /\ stage = "stretch"
           /\ \E q \in ROTS : /\ R' = q
                              /\ ubi' = UbiOf(ref, S, q)
           /\ stage' = "grain"
           /\ UNCHANGED <<ref, S, F, k, eref, elab>>

Deform == /\ stage = "grain"
          /\ F' = FOf(ubi, Ub0(ref))
          /\ k' = 1
          /\ stage' = "F"
          /\ UNCHANGED <<ref, S, R, ubi, eref, elab>>

Ref == /\ stage = "F"
       /\ eref' = Append(eref, CodeRef(F, S, MS[k]))
       /\ stage' = "refd"
       /\ UNCHANGED <<ref, S, R, ubi, F, k, elab>>

Lab == /\ stage = "refd"
       /\ elab' = Append(elab, IF LabExact(S, R) THEN CodeLab(F, VOf(S, R), MS[k])
                               ELSE IF LabEmit(S, R, MS[k]) THEN Conj(R, eref[k])
                               ELSE NoLab)
       /\ k' = k + 1
       /\ stage' = IF k = Len(MS) THEN "done" ELSE "F"
       /\ UNCHANGED <<ref, S, R, ubi, F, eref>>

Next == PickRef \/ PickStretch \/ PickRot \/ Deform \/ Ref \/ Lab
Spec == Init /\ [][Next]_vars

\* ---------------------------------------------------------------- invariants
HasRef == stage # "start"
HasF == stage \in {"F", "refd", "done"}

RefLatticeOK ==
    HasRef => /\ IsUpper(ref[1]) /\ Det(ref[1]) > 0
              /\ ref[1][1][1] > 0 /\ ref[1][2][2] > 0 /\ ref[1][3][3] > 0
              /\ IsRot(ref[2])
              /\ SMM(Ubi0(ref), Ub0(ref)) = SI                \* ubi0 = inv(ub0)
              /\ IsUpper(B0(ref)[1])                          \* Busing-Levy B
              /\ SMM(ST(B0(ref)), B0(ref)) = SInv(<<T3(MM(ref[1], Transpose(ref[1]))), 1>>)  \* B^T B = rmt

\* the model's (R, S, V) are the polar factors of the code's F (unique for det F > 0)
PolarOK ==
    HasF => /\ F = SMM(R, S)
            /\ IsRot(R)
            /\ IsSym(S[1]) /\ PosDef(S[1]) /\ S[2] > 0
            /\ (LabExact(S, R) => /\ IsSym(VOf(S, R)[1])
                                  /\ F = SMM(VOf(S, R), R))

\* The tensor sequences only grow and S, R never change after they are picked, so each element
\* is checked in the state in which it is appended (stage "refd" for eref, the state after Lab
\* for elab); by induction the laws hold for every element of every reachable state.
RefNew == stage = "refd"
LabNew == stage \in {"F", "done"} /\ Len(elab) > 0
LastRef == eref[Len(eref)]
LastLab == elab[Len(elab)]

RefIsSethHill == RefNew => LastRef = PropRef(S, MS[Len(eref)])
RefSym == RefNew => IsSym(LastRef[1])

LabIsRotatedRef ==
    (LabNew /\ LastLab # NoLab) =>
        /\ IsSym(LastLab[1])
        /\ LastLab = PropLab(S, R, MS[Len(elab)])
        /\ (LabExact(S, R) => LastLab = VDef(S, R, MS[Len(elab)]))

\* E_ref is a function of S alone: any other grain rotation and any other orientation of the
\* reference (grain built from that reference) give the same tensor through the code's path
\* (only the even-m2 branch reads F; the odd branch reads the polar factor S of F = q.S)
Objectivity ==
    RefNew =>
        \A q \in OBJROTS, u \in OBJU0 :
            LET r2 == <<ref[1], u>>
                f2 == FOf(UbiOf(r2, S, q), Ub0(r2))
            IN  /\ (k = 1 => f2 = SMM(q, S))
                /\ (MS[k] % 2 = 0 => CodeRef(f2, S, MS[k]) = LastRef)

\* same deformed grain, reference grain re-oriented by u (F.F^T removes the reference
\* orientation): lab tensor unchanged, reference tensor conjugated by Q = U0.u^T
LabObjectivity ==
    (LabNew /\ LabExact(S, R) /\ ref[2][2] = 1) =>
        \A u \in OBJU0R :
            LET i == Len(elab)
                Q == SMM(ref[2], ST(u))
                f2 == FOf(ubi, Ub0(<<ref[1], u>>))
            IN  /\ f2 = SMM(SMM(R, S), Q)
                /\ CodeLab(f2, VOf(S, R), MS[i]) = LastLab
                /\ CodeRef(f2, ConjT(Q, S), MS[i]) = ConjT(Q, eref[i])

IsIdentityStretch == S[1] = T3(MScale(S[2], I3))
ZeroIff ==
    /\ RefNew => ((LastRef[1] = Z3) <=> IsIdentityStretch)
    /\ (LabNew /\ LastLab # NoLab) => ((LastLab[1] = Z3) <=> IsIdentityStretch)

\* first-order agreement.  e = S - I = <<N - d.I, d>>, r = max abs row sum of e (>= spectral
\* radius).  Spectral calculus: E_m - e has eigenvalues f''(xi)/2 . lambda^2 with
\* |f''| = |2m-1| (1+xi)^(2m-2) <= 3 (1-r)^-4, so every entry of E_m - e is bounded by
\* (K2/2) r^2 with K2 = 5 for r <= 1/10 and K2 = 14 for r <= 3/10.
RowSum(M, i) == Abs(M[i][1]) + Abs(M[i][2]) + Abs(M[i][3])
FOChecked(m2) == m2 # -2 \/ S[2] = 10
FirstOrder ==
    RefNew =>
        LET e == T3(MSub(S[1], MScale(S[2], I3)))
            rn == Max2(RowSum(e, 1), Max2(RowSum(e, 2), RowSum(e, 3)))
            k2 == IF 10 * rn <= S[2] THEN 5 ELSE 14
            E == LastRef
            m2 == MS[Len(eref)]
        IN  /\ FOChecked(m2) =>
                 \A a, b \in Idx :
                    2 * Abs(E[1][a][b] * S[2] - e[a][b] * E[2]) * S[2] <= k2 * rn * rn * E[2]
            /\ m2 = 1 => E = Reduce(<<e, S[2]>>)                                 \* Biot = e
            /\ m2 = 2 => E = SAdd(<<e, S[2]>>, <<T3(MM(e, e)), 2 * S[2] * S[2]>>)  \* Green = e + e.e/2

Emit == stage # "done" \/
        PrintT("@@" \o ToJson([ L0 |-> ref[1], U0 |-> ref[2], S |-> S, R |-> R,
                                ubi0 |-> Ubi0(ref), ub0 |-> Ub0(ref), ubi |-> ubi, F |-> F,
                                mt0 |-> T3(MM(ref[1], Transpose(ref[1]))),
                                ms |-> MS, eref |-> eref, elab |-> elab,
                                labexact |-> LabExact(S, R) ]))

\* ---------------------------------------------------------------- constant families
A0 == <<1,0,1>>      A90 == <<0,1,1>>     A180 == <<-1,0,1>>   A270 == <<0,-1,1>>
P345 == <<4,3,5>>    P345n == <<3,-4,5>>  P513 == <<12,5,13>>  P513n == <<5,-12,13>>
Rot3(az, ay, ax) == << T3(MM(Rz(az), MM(Ry(ay), Rx(ax)))), az[3]*ay[3]*ax[3] >>
RotI == Rot3(A0, A0, A0)
Perm3 == Rot3(A90, A0, A90)               \* a 3-fold signed permutation (not an involution)

\* stretch from e = <<e11,e22,e33,e23,e13,e12>> over d
Str(e, d) == << << <<d + e[1], e[6], e[5]>>, <<e[6], d + e[2], e[4]>>, <<e[5], e[4], d + e[3]>> >>, d >>
E3 == {-1, 0, 1}
DiagAll == { Str(<<a, b, c, 0, 0, 0>>, 10) : a \in E3, b \in E3, c \in E3 }
DG == { <<0,0,0>>, <<1,-1,0>>, <<-1,0,1>>, <<1,1,1>> }
OffT == { <<1,0,0>>, <<0,1,0>>, <<0,0,1>>, <<1,1,0>>, <<1,0,-1>>, <<0,-1,1>>, <<1,1,1>>,
          <<1,-1,1>>, <<-1,-1,-1>>, <<-1,1,0>> }
FullT == { Str(<<g[1], g[2], g[3], o[1], o[2], o[3]>>, 10) : g \in DG, o \in OffT }
TwentT == { Str(e, 20) : e \in { <<1,-1,2,0,0,0>>, <<-1,0,0,0,0,0>>, <<1,1,1,0,0,0>>, <<2,-1,-2,0,0,0>>,
                                 <<1,-2,2,1,-1,1>>, <<-1,1,0,1,0,0>>, <<0,0,0,1,0,0>>, <<2,-1,1,-1,1,2>>,
                                 <<1,0,0,0,0,0>>, <<0,0,1,0,1,0>> } }
StretchT == DiagAll \cup FullT \cup TwentT
StretchQ == { Str(e, 10) : e \in { <<0,0,0,0,0,0>>, <<1,0,0,0,0,0>>, <<0,-1,0,0,0,0>>, <<1,1,1,0,0,0>>,
                                   <<1,-1,0,0,0,0>>, <<-1,1,1,0,0,0>>, <<1,0,-1,0,0,0>>, <<-1,-1,-1,0,0,0>>,
                                   <<0,0,0,1,0,0>>, <<0,0,0,0,0,-1>>, <<1,-1,0,0,1,0>>, <<1,1,1,1,1,1>>,
                                   <<-1,0,1,1,-1,1>>, <<0,0,0,-1,-1,-1>>, <<1,-1,0,0,-1,1>>,
                                   <<-1,0,1,1,0,-1>>, <<0,1,-1,1,1,0>> } }
            \cup { Str(e, 20) : e \in { <<1,-1,2,0,0,0>>, <<-1,0,0,0,0,0>>, <<1,-2,2,1,-1,1>>,
                                        <<0,0,0,1,0,0>>, <<2,-1,1,-1,1,2>> } }

CCubic == Diag(4,4,4)
CTetra == Diag(3,3,5)
COrtho == Diag(3,4,5)
CMono  == << <<3,0,1>>, <<0,4,0>>, <<0,0,5>> >>
CGamma == << <<4,-2,0>>, <<0,4,0>>, <<0,0,5>> >>
CTric1 == << <<3,1,1>>, <<0,4,1>>, <<0,0,5>> >>
CTric2 == << <<3,-1,1>>, <<0,4,-2>>, <<0,0,5>> >>
AllCells == {CCubic, CTetra, COrtho, CMono, CGamma, CTric1, CTric2}
RefsT == { <<c, RotI>> : c \in AllCells }
         \cup { <<CTric1, Perm3>>, <<CTric1, Rot3(P345, A0, A0)>>, <<CMono, Rot3(A0, A0, P513n)>>,
                <<CCubic, Rot3(P345, A0, A0)>> }
RefsQ == { <<CCubic, RotI>>, <<COrtho, RotI>>, <<CTric1, RotI>>, <<CTric2, RotI>>,
           <<CTric1, Rot3(P345, A0, A0)>>, <<CMono, Perm3>> }

RotsT == { RotI, Rot3(A90,A0,A0), Rot3(A0,A90,A0), Rot3(A0,A0,A90), Rot3(A180,A0,A0), Perm3,
           Rot3(A270,A90,A0), Rot3(A0,A270,A180) }
         \cup { Rot3(P345, A0, A0), Rot3(P513n, A0, A0), Rot3(A0, P345n, A0), Rot3(A0, P513, A0),
                Rot3(A0, A0, P345), Rot3(A0, A0, P513n) }
         \cup { Rot3(P345, A90, A0), Rot3(A90, P513, A0), Rot3(A270, A0, P345n), Rot3(A0, A180, P513n) }
RotsQ == { RotI, Perm3, Rot3(A0,A270,A180), Rot3(P345,A0,A0), Rot3(A0,P345n,A0), Rot3(A0,A0,P513n),
           Rot3(P345, A90, A0), Rot3(A90, P513, A0) }

ObjRots == { Rot3(A270,A0,A90), Rot3(A0,P345,A0) }
ObjU0 == { Perm3, Rot3(P345n,A0,A0) }
ObjU0R == { RotI, Perm3, Rot3(A0,A0,A90) }

\* ---------------------------------------------------------------- sanity of the constants
ASSUME \A q \in ROTS \cup OBJROTS \cup OBJU0 \cup OBJU0R : IsRot(q)
ASSUME \A r \in REFS : IsRot(r[2]) /\ IsUpper(r[1]) /\ Det(r[1]) > 0
ASSUME \A s \in STRETCHES : /\ IsSym(s[1]) /\ PosDef(s[1]) /\ s[2] \in {10, 20}
                            /\ \A i \in Idx : 10 * RowSum(T3(MSub(s[1], MScale(s[2], I3))), i) <= 3 * s[2]
                            /\ \A i, j \in Idx : 10 * Abs(s[1][i][j] - (IF i = j THEN s[2] ELSE 0)) <= s[2]
ASSUME \A q \in OBJU0R : q[2] = 1
ASSUME SInv(<<Diag(2,4,5), 10>>) = <<Diag(10,5,4), 2>>
ASSUME Reduce(<<Diag(4,-6,8), 10>>) = <<Diag(2,-3,4), 5>>
ASSUME SethHill(SPow(<<Diag(11,10,9), 10>>, 2), 2) = <<Diag(21, 0, -19), 200>>
ASSUME SethHill(SPow(<<Diag(12,10,8), 10>>, -1), -1) = <<Diag(2, 0, -3), 12>>
=============================================================================

------------------------------ MODULE TraceWalk ------------------------------
(***************************************************************************)
(* Trace validation (code -> spec) of the parallel walk-to-maximum region  *)
(* of cImageD11.localmaxlabel against the thread program of                *)
(* LocalMaxPar.tla (repaired ordering), generalised from the 1-D chain to  *)
(* the pointer structure of a real image.                                  *)
(*                                                                         *)
(* The hooks in src/localmaxlabel.c (compiled with -DIMAGED11_VERIF) dump  *)
(* the work arrays at the start of the region and log, per thread and in   *)
(* that thread's program order, its writes:                                *)
(*    1 A1   lout[i] := label taken from the end of the walk               *)
(*    2 WLO  lout[q] := lout[i]      (path relabel, q in the thread's range)*)
(*    3 WL0  l[q] := 0                                                      *)
(*    4 Z    l[i] := 0                                                      *)
(* One line of TRACE_FILE = one thread of one run:                         *)
(*    id, N, lo, hi (1-based, hi exclusive), tgt[x] (pixel x points to, 0  *)
(*    when l[x] = 0 at the start), final[x] (the sequential steepest-ascent *)
(*    label), ev = << <<code, idx, val>> ... >>                            *)
(* A thread only ever writes cells of its own range, so its own part of l  *)
(* and lout is tracked exactly; what it reads from other ranges is unknown *)
(* (TLC infers it): a foreign pixel on the path may or may not still be    *)
(* pending.  The rules are those of the thread program:                    *)
(*   - pixels are visited in increasing order, pending ones produce A1 .. Z *)
(*   - A1 takes the final label of the pixel's basin (by FlagImpliesLabel   *)
(*     of LocalMaxPar any cell seen "done" carries its final label)         *)
(*   - if the first pixel of the path is in range and pending, the path     *)
(*     relabel writes it: FIRST the label (WLO), THEN the flag (WL0)        *)
(*   - otherwise at most one such pair, for the first in-range pending      *)
(*     pixel reached through foreign pixels only                            *)
(*   - nothing else is written                                              *)
(* One verdict per line, naming the failing clause.                         *)
(* The logs come from runs in the ordinary OpenMP configuration (one log    *)
(* per requested thread) AND from child processes under limiting            *)
(* environments (OMP_THREAD_LIMIT, OMP_DYNAMIC): there the number of logs   *)
(* is the DELIVERED team; lo / hi are whatever the thread used.  That the   *)
(* ranges of the threads that ran cover every pending pixel exactly once    *)
(* (LocalMaxPar RangesTile over the delivered team) is judged by the        *)
(* harness on the same logs (props/c13.py hook_collect).                    *)
(***************************************************************************)
EXTENDS Integers, Sequences, FiniteSets, TLC, Json, IOUtils

Trace == ndJsonDeserialize(IOEnv.TRACE_FILE)

VARIABLES t, e, i, stage, pend, why
\* stage: "A1" expecting A1 for pixel i (or skipping done pixels), "PAIR?" after A1, "WL0" after WLO, "Z" expecting Z
vars == <<t, e, i, stage, pend, why>>

Rec == Trace[t]
Own(r, x) == x >= r.lo /\ x < r.hi
InitPend(r) == [x \in 1..r.N |-> r.tgt[x] # 0]

Init == /\ t = 1 /\ e = 0 /\ why = "ok" /\ stage = "A1"
        /\ i = IF Len(Trace) > 0 THEN Trace[1].lo ELSE 0
        /\ pend = IF Len(Trace) > 0 THEN InitPend(Trace[1]) ELSE <<>>

Live == t <= Len(Trace) /\ why = "ok"
HasEv == e < Len(Rec.ev)
Ev == Rec.ev[e + 1]

\* pixels that are not pending produce no event
Skip == /\ Live /\ stage = "A1" /\ i < Rec.hi /\ ~pend[i]
        /\ i' = i + 1 /\ UNCHANGED <<t, e, stage, pend, why>>

\* first in-range pending pixel reached from x through foreign pixels only (0 if none); bounded walk
RECURSIVE FirstOwn(_, _, _)
FirstOwn(r, x, fuel) == IF fuel = 0 \/ x = 0 THEN 0
                        ELSE IF Own(r, x) THEN (IF pend[x] THEN x ELSE 0)
                        ELSE IF r.tgt[x] = 0 THEN 0 ELSE FirstOwn(r, r.tgt[x], fuel - 1)

A1 == /\ Live /\ stage = "A1" /\ i < Rec.hi /\ pend[i] /\ HasEv
      /\ why' = IF Ev[1] # 1 \/ Ev[2] # i THEN "expected the label write A1 for the next pending pixel of the range"
                ELSE IF Ev[3] # Rec.final[i] THEN "label taken at the end of the walk is not the basin's label (stale or foreign value)"
                ELSE "ok"
      /\ stage' = "PAIR?" /\ e' = e + 1 /\ UNCHANGED <<t, i, pend>>

\* after A1: either the path relabel pair starts (WLO), or Z
Mandatory(r) == Own(r, r.tgt[i]) /\ pend[r.tgt[i]]
WLO == /\ Live /\ stage = "PAIR?" /\ HasEv /\ Ev[1] = 2
       /\ LET q == FirstOwn(Rec, Rec.tgt[i], Rec.N)
          IN why' = IF q = 0 THEN "path relabel wrote a pixel although no in-range pending pixel is on the path"
                    ELSE IF Ev[2] # q THEN "path relabel wrote a pixel that is not the first in-range pending pixel of the path"
                    ELSE IF Ev[3] # Rec.final[i] THEN "path relabel wrote a wrong label" ELSE "ok"
       /\ stage' = "WL0" /\ e' = e + 1 /\ UNCHANGED <<t, i, pend>>
WL0 == /\ Live /\ stage = "WL0" /\ HasEv
       /\ why' = IF Ev[1] # 3 \/ Ev[2] # Rec.ev[e][2] THEN "after writing the label of a path pixel its done flag must be cleared next" ELSE "ok"
       /\ pend' = [pend EXCEPT ![Rec.ev[e][2]] = FALSE]
       /\ stage' = "Z" /\ e' = e + 1 /\ UNCHANGED <<t, i>>
\* the flag of a path pixel cleared BEFORE its label is written: the defect the repaired ordering removes
FlagFirst == /\ Live /\ stage = "PAIR?" /\ HasEv /\ Ev[1] = 3
             /\ why' = "done flag of a path pixel cleared before its label was written"
             /\ UNCHANGED <<t, e, i, stage, pend>>
Z == /\ Live /\ stage \in {"PAIR?", "Z"} /\ HasEv /\ Ev[1] = 4
     /\ why' = IF Ev[2] # i THEN "done flag written for another pixel than the current one"
               ELSE IF stage = "PAIR?" /\ Mandatory(Rec) THEN "the first path pixel is in range and pending but was not relabelled"
               ELSE "ok"
     /\ pend' = [pend EXCEPT ![i] = FALSE]
     /\ i' = i + 1 /\ stage' = "A1" /\ e' = e + 1 /\ UNCHANGED t
Other == /\ Live /\ HasEv
         /\ \/ (stage = "PAIR?" /\ Ev[1] \notin {2, 3, 4})
            \/ (stage = "Z" /\ Ev[1] # 4)
         /\ why' = "unexpected write in the walk region"
         /\ UNCHANGED <<t, e, i, stage, pend>>
\* events left but the range is exhausted, or range not exhausted but no events left
Stuck == /\ Live
         /\ \/ (stage = "A1" /\ i >= Rec.hi /\ HasEv)
            \/ (stage = "A1" /\ i < Rec.hi /\ pend[i] /\ ~HasEv)
            \/ (stage # "A1" /\ ~HasEv)
         /\ why' = "the thread's write log does not cover its range exactly"
         /\ UNCHANGED <<t, e, i, stage, pend>>

Finish == /\ t <= Len(Trace)
          /\ (why # "ok" \/ (stage = "A1" /\ i >= Rec.hi /\ ~HasEv))
          /\ PrintT("@@" \o ToJson([id |-> Rec.id, ok |-> (why = "ok"), why |-> why, consumed |-> e]))
          /\ t' = t + 1 /\ e' = 0 /\ why' = "ok" /\ stage' = "A1"
          /\ i' = IF t + 1 <= Len(Trace) THEN Trace[t + 1].lo ELSE 0
          /\ pend' = IF t + 1 <= Len(Trace) THEN InitPend(Trace[t + 1]) ELSE <<>>

Next == Skip \/ A1 \/ WLO \/ WL0 \/ FlagFirst \/ Z \/ Other \/ Stuck \/ Finish
Spec == Init /\ [][Next]_vars
=============================================================================

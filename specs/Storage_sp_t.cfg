\* thorough: sparse frames through hdf groups, two groups, depth 4
SPECIFICATION Spec
CONSTANTS
  Family = "sparse"
  Paths = {"p1", "p2"}
  Groups = {"f", "g"}
  SeedTuples <- SeedsSp
  OpNames = {"WriteSparse", "ReadSparse"}
  MaxDepth = 4
  EmitOn = TRUE
INVARIANT TypeOK
INVARIANT InvFixed
INVARIANT InvAsIs
INVARIANT Emit
VIEW View
CHECK_DEADLOCK FALSE

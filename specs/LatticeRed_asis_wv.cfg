SPECIFICATION Spec
CONSTANTS
  CELLS <- CELLS_q
  SCR <- SCRWV_q
  SCRWV <- SCRWV_q
  CENTS <- CENTS_std
  PROBES <- PROBES_std
  TOLS <- TOLS_std
  TIES = "even"
  MODFIX = FALSE
  COLFIX = TRUE
  WVFIX = FALSE
  NTRYFIX = TRUE
  MAXIT = 10
INVARIANT SameLattice
INVARIANT WithvecOK
CHECK_DEADLOCK FALSE

------------------------------ MODULE SparseCoo ------------------------------
(***************************************************************************)
(* Property C14, first half (and the index bounds of C20):                 *)
(*   dense image + mask / cut  ->  sparse coordinate form  ->  dense image *)
(*                                                                         *)
(* Code modelled (pinned tree /repo), one action per loop-body branch or   *)
(* per Python statement:                                                   *)
(*   src/sparse_image.c:31-79    mask_to_coo   (row counts, cumulative sum,*)
(*                               per-row fill; the two `omp parallel for`  *)
(*                               loops take the rows in ANY order)         *)
(*   src/sparse_image.c:118-143  sparse_is_sorted (es/ed, return codes)    *)
(*   src/sparse_image.c:906-995  tosparse_u16 / _f32 (nested loops) and    *)
(*                               tosparse_u32 (flat loop, i/nf, i%nf)      *)
(*   ImageD11/sparseframe.py:394-433  from_data_mask, from_data_cut        *)
(*   ImageD11/sparseframe.py:103-172  sparse_frame.to_dense (3 ways of     *)
(*                               choosing `data`), .mask, .threshold,      *)
(*                               .sort, .sort_by, .reorder                 *)
(* Declared extents (src/_cImageD11.pyf:222-258,411-460):                  *)
(*   mask_to_coo : msk(ns,nf)  i(nnz) j(nnz) w(ns)                         *)
(*   sparse_is_sorted : i(nnz) j(nnz)                                      *)
(*   tosparse_x  : img,msk,row,col,val (ns,nf)  [u32: row,col,val assumed  *)
(*                 size;                                                   *)
(*                 the only sizes that are safe for every image are ns*nf] *)
(*                                                                         *)
(* Arrays are functions on 0..n-1 (C indexing).  Every array access goes   *)
(* through Rd / Wr and is logged, with the declared extent, in `acc` (the  *)
(* accesses of the step just taken); invariant InBounds inspects it, so an *)
(* out-of-range index is an invariant violation, not a TLC evaluation      *)
(* error.  Cells never written keep Poison (-1): the emitted expectations  *)
(* therefore also say which cells the kernel must leave alone.             *)
(*                                                                         *)
(* Programs (chosen in Init, one behaviour = one call chain):              *)
(*   "m2c"    mask_to_coo -> from_data_mask -> to_dense("intensity")       *)
(*   "cut"    tosparse (style nested|flat) -> from_data_cut -> to_dense()  *)
(*   "sorted" sparse_is_sorted on an arbitrary coordinate sequence         *)
(*   "sort"   permuted frame with two pixel arrays -> sort() | sort_by()   *)
(*            -> to_dense() (boolean mask because two arrays are present)  *)
(*   "thresh" frame -> threshold(t) = mask(intensity > t) -> to_dense()    *)
(*            and, on a frame with a second array, threshold(t,            *)
(*            name="labels") = mask(labels > t): both arrays follow        *)
(*   every program that ends in a frame then runs to_dense a second time   *)
(*   with the intensity ARRAY as argument (TD2_*, result dn2)              *)
(*                                                                         *)
(* Variables: prog, pc (program counter), inp (immutable inputs),          *)
(*   L (kernel scalars mi mj idx k es ed ret), nrow ci cj cv (w / i,row /  *)
(*   j,col / val), rowsdone (rows finished in the current parallel loop),  *)
(*   fr (the sparse_frame object), order, bmask, dense, res, dn2 (dense    *)
(*   image of the second to_dense pass), acc.                              *)
(*                                                                         *)
(* Invariants (checked by TLC in every reachable state):                   *)
(*   InBounds      every index within the declared extent                  *)
(*   CooRowMajor   frames from a mask / cut are strictly increasing in     *)
(*                 row-major order, inside the image, no duplicates        *)
(*   RoundTrip     dense(coo(img, selection)) = img on the selection, 0    *)
(*                 elsewhere   (selection defined independently: msk # 0,  *)
(*                 resp. msk # 0 /\ img > cut)                             *)
(*   KernelReturn  return codes: mask_to_coo 0 / 4, tosparse = |selection| *)
(*   Defined       at return every promised output cell has been written   *)
(*   IsSortedSpec  sparse_is_sorted = 0 iff strictly increasing; else      *)
(*                 first disorder k, or -k for an earlier first duplicate  *)
(*   SortOK        after sort(): strictly row-major, same set of           *)
(*                 (row, col, values...) triples (values stay attached);   *)
(*                 after sort_by(name): that array ascending, same triples *)
(*   SortTotal     sort()/sort_by() return (FIXED = FALSE models the       *)
(*                 tree's `self.reorder(self, order)` which raises:        *)
(*                 design finding F7)                                      *)
(*   ThreshOK      threshold keeps exactly the pixels whose named array    *)
(*                 is > t, in order, every array attached to its pixel     *)
(*   DenseTotal    to_dense(<array>) returns (TDFIXED = FALSE models the   *)
(*                 tree: `data in self.pixels` hashes the array and raises *)
(*                 TypeError - the docstring's own example)                *)
(*   Emit          prints one JSON case per finished behaviour ("@@...")   *)
(* Bounds / configurations:                                                *)
(*   SparseCoo_q.cfg    masks 2x3 1x5 5x1 (nnz right and nnz+1); images    *)
(*                      0..2 on 2x2 1x3 x all masks x cuts {0,1} x both    *)
(*                      loop styles; sequences <= 4 on 2x2; all injective  *)
(*                      pixel sequences on 2x2 1x3; thresholds 2x2 3x1     *)
(*   SparseCoo_t.cfg    + 3x3 masks, 2x3 / 3x1 cuts, 2x3 sequences, 2x3    *)
(*                      and 1x4 permutations, 2x3 thresholds               *)
(*   SparseCoo_asis.cfg FIXED = FALSE: TLC must report SortTotal violated  *)
(*   SparseCoo_asis_td.cfg TDFIXED = FALSE: TLC must report DenseTotal     *)
(*                      violated                                           *)
(* Harness-only instance families (the model is covariant in them; see     *)
(* harness/c14_replay.py): mask dtypes / true values, pixel dtypes, value  *)
(* variants = order-preserving maps of the grey levels and cuts (top of    *)
(* each dtype, NEGATIVE float images and cuts, cuts that are no binary32   *)
(* numbers, fractional cuts for uint32), thread counts, caller supplied    *)
(* `out` arrays full of a poison value, positional / keyword call forms.   *)
(***************************************************************************)
EXTENDS Integers, Sequences, FiniteSets, TLC, Json

CONSTANTS
    M2CShapes,      \* set of shape codes 10*ns+nf for program "m2c" (all masks with >= 1 pixel)
    NnzExtra,       \* {0} or {0,1}: nnz handed to mask_to_coo = count + extra (1 -> return 4)
    ParRows,        \* TRUE: the omp loops of mask_to_coo take rows in any order
    CutShapes,      \* shapes for program "cut"
    CutVals,        \* pixel values 0..CutVals
    Cuts,           \* set of cut levels
    SortedGrid,     \* shape code of the grid for program "sorted", or 0 to disable
    SortedLen,      \* sequences of length 1..SortedLen
    SortShapes,     \* shapes for program "sort" (all injective sequences of pixels)
    ThreshShapes,   \* shapes for program "thresh"
    ThreshVals,     \* intensities 1..ThreshVals (0 = pixel absent)
    ThreshNames,    \* subset of {"intensity", "labels"}: threshold(t) and threshold(t, name="labels") on a
                    \* frame that carries a second pixel array
    FIXED,          \* TRUE: sort()/sort_by() call self.reorder(order)  (repaired)
    TDFIXED         \* TRUE: to_dense(<array>) uses the array; FALSE: as in the tree, `data in self.pixels`
                    \* is evaluated first and raises TypeError for an (unhashable) array

\* LabAt (the sort_by key) is injective on 0..6 only; shape codes are two digits
ASSUME \A c \in SortShapes \cup ThreshShapes : (c \div 10) * (c % 10) <= 7
ASSUME \A c \in M2CShapes \cup CutShapes \cup SortShapes \cup ThreshShapes : c \in 11..99

VARIABLES prog, pc, inp, L, nrow, ci, cj, cv, rowsdone, fr, order, bmask, dense, res, dn2, acc

vars == <<prog, pc, inp, L, nrow, ci, cj, cv, rowsdone, fr, order, bmask, dense, res, dn2, acc>>

Poison == -1
\* shapes are given in the .cfg files as the code 10*ns + nf (TLC .cfg files have no tuples)
Sh(code) == <<code \div 10, code % 10>>
None == <<>>
IsNone(x) == DOMAIN x = {}      \* (records / arrays are never compared with None by =)

Arr(n, v) == [x \in 0..(n - 1) |-> v]
Size(a) == Cardinality(DOMAIN a)
Rd(a, x) == IF x \in DOMAIN a THEN a[x] ELSE Poison
Wr(a, x, v) == IF x \in DOMAIN a THEN [a EXCEPT ![x] = v] ELSE a
Acc(name, x, ext) == [arr |-> name, ix |-> x, ext |-> ext]
AsSeq(a) == [x \in 1..Size(a) |-> a[x - 1]]
FromSeq(s) == [x \in 0..(Size(s) - 1) |-> s[x + 1]]
Max2(a, b) == IF a > b THEN a ELSE b

L0 == [mi |-> 0, mj |-> 0, idx |-> 0, k |-> 0, es |-> 0, ed |-> 0, ret |-> Poison]

\* the dense test image: value depends on row and column asymmetrically (a transposition,
\* a row/column swap or a shifted index changes it)
DataAt(p, nf) == 10 * ((p \div nf) + 1) + (p % nf) + 1
\* second pixel array of program "sort": a labelling that is not monotone in p
LabAt(p) == ((p * 5) % 7) + 1

\* order-preserving selection a[b] (numpy boolean indexing) for 0-based functions
RECURSIVE SelIdx(_, _)
SelIdx(b, n) == \* indices x < n with b[x], ascending, as a sequence
    IF n = 0 THEN <<>> ELSE IF b[n - 1] THEN Append(SelIdx(b, n - 1), n - 1) ELSE SelIdx(b, n - 1)
Compress(a, b) == LET s == SelIdx(b, Size(b)) IN [x \in 0..(Size(s) - 1) |-> a[s[x + 1]]]

\* lexicographic "pixel k comes strictly before pixel m" (no products: shapes go to 65535)
Before(r1, c1, r2, c2) == r1 < r2 \/ (r1 = r2 /\ c1 < c2)
StrictRowMajor(row, col) ==
    \A x \in DOMAIN row : x > 0 => Before(row[x - 1], col[x - 1], row[x], col[x])

\* numpy.lexsort((col,row)) / argsort on distinct keys: position x of the result holds the index
\* of the element with exactly x smaller elements
SortPermRC(row, col) ==
    [x \in DOMAIN row |-> CHOOSE y \in DOMAIN row :
        Cardinality({z \in DOMAIN row : Before(row[z], col[z], row[y], col[y])}) = x]
SortPermKey(key) ==
    [x \in DOMAIN key |-> CHOOSE y \in DOMAIN key :
        Cardinality({z \in DOMAIN key : key[z] < key[y]}) = x]
Take(a, o) == [x \in DOMAIN o |-> a[o[x]]]        \* a[order]

-----------------------------------------------------------------------------
(* Init: one disjunct per program *)

Blank ==
    /\ L = L0 /\ nrow = None /\ ci = None /\ cj = None /\ cv = None /\ rowsdone = {}
    /\ fr = None /\ order = None /\ bmask = None /\ dense = None /\ res = None /\ dn2 = None /\ acc = {}

InitM2C ==
    \E shc \in M2CShapes : LET sh == Sh(shc) IN \E msk \in [0..(sh[1] * sh[2] - 1) -> {0, 1}] : \E extra \in NnzExtra :
        LET cnt == Cardinality({p \in DOMAIN msk : msk[p] # 0}) IN
        /\ cnt >= 1
        /\ prog = "m2c" /\ pc = "m2c_chk"
        /\ inp = [ns |-> sh[1], nf |-> sh[2], msk |-> msk, nnz |-> cnt + extra]
        /\ L = L0 /\ nrow = Arr(sh[1], Poison) /\ ci = Arr(cnt + extra, Poison)
        /\ cj = Arr(cnt + extra, Poison) /\ cv = None /\ rowsdone = {}
        /\ fr = None /\ order = None /\ bmask = None /\ dense = None /\ res = None /\ dn2 = None /\ acc = {}

InitCut ==
    \E shc \in CutShapes : LET sh == Sh(shc) IN \E img \in [0..(sh[1] * sh[2] - 1) -> 0..CutVals] :
    \E msk \in [0..(sh[1] * sh[2] - 1) -> {0, 1}] : \E cut \in Cuts : \E style \in {"nested", "flat"} :
        /\ prog = "cut" /\ pc = "ts_loop"
        /\ inp = [ns |-> sh[1], nf |-> sh[2], img |-> img, msk |-> msk, cut |-> cut, style |-> style]
        /\ L = L0 /\ nrow = None /\ ci = Arr(sh[1] * sh[2], Poison) /\ cj = Arr(sh[1] * sh[2], Poison)
        /\ cv = Arr(sh[1] * sh[2], Poison) /\ rowsdone = {}
        /\ fr = None /\ order = None /\ bmask = None /\ dense = None /\ res = None /\ dn2 = None /\ acc = {}

InitSorted ==
    /\ SortedGrid > 0
    /\ \E n \in 1..SortedLen : \E s \in [0..(n - 1) -> 0..(Sh(SortedGrid)[1] * Sh(SortedGrid)[2] - 1)] :
        /\ prog = "sorted" /\ pc = "is_start"
        /\ inp = [ns |-> Sh(SortedGrid)[1], nf |-> Sh(SortedGrid)[2], nnz |-> n]
        /\ ci = [x \in 0..(n - 1) |-> s[x] \div Sh(SortedGrid)[2]]
        /\ cj = [x \in 0..(n - 1) |-> s[x] % Sh(SortedGrid)[2]]
        /\ L = L0 /\ nrow = None /\ cv = None /\ rowsdone = {}
        /\ fr = None /\ order = None /\ bmask = None /\ dense = None /\ res = None /\ dn2 = None /\ acc = {}

\* a frame holding the pixels s[0], s[1], ... (flat indices, distinct) in that order, with the
\* pixel arrays "intensity" (= the dense test image there) and "labels"
PermFrame(sh, s) ==
    [shape |-> sh, nnz |-> Size(s),
     row |-> [x \in DOMAIN s |-> s[x] \div sh[2]], col |-> [x \in DOMAIN s |-> s[x] % sh[2]],
     names |-> <<"intensity", "labels">>,
     px |-> [nm \in {"intensity", "labels"} |->
               IF nm = "intensity" THEN [x \in DOMAIN s |-> DataAt(s[x], sh[2])]
                                   ELSE [x \in DOMAIN s |-> LabAt(s[x])]]]

InitSort ==
    \E shc \in SortShapes : LET sh == Sh(shc) IN \E n \in 1..(sh[1] * sh[2]) :
    \E s \in [0..(n - 1) -> 0..(sh[1] * sh[2] - 1)] : \E how \in {"sort", "sort_by"} :
        /\ \A x, y \in DOMAIN s : x # y => s[x] # s[y]
        /\ prog = "sort" /\ pc = "sort_start"
        /\ inp = [ns |-> sh[1], nf |-> sh[2], perm |-> s, how |-> how, frame |-> PermFrame(sh, s)]
        /\ fr = PermFrame(sh, s)
        /\ L = L0 /\ nrow = None /\ ci = None /\ cj = None /\ cv = None /\ rowsdone = {}
        /\ order = None /\ bmask = None /\ dense = None /\ res = None /\ dn2 = None /\ acc = {}

\* a sorted frame built from an intensity image v (0 = pixel not in the frame)
ImgFrame(sh, v) ==
    LET b == [p \in DOMAIN v |-> v[p] > 0]
        s == SelIdx(b, Size(b))
    IN [shape |-> sh, nnz |-> Size(s),
        row |-> [x \in 0..(Size(s) - 1) |-> s[x + 1] \div sh[2]],
        col |-> [x \in 0..(Size(s) - 1) |-> s[x + 1] % sh[2]],
        names |-> <<"intensity">>,
        px |-> [nm \in {"intensity"} |-> [x \in 0..(Size(s) - 1) |-> v[s[x + 1]]]]]

\* the same frame carrying a second pixel array "labels" (LabAt of the pixel: not monotone in p)
ImgFrame2(sh, v) ==
    LET f == ImgFrame(sh, v)
    IN [f EXCEPT !.names = <<"intensity", "labels">>,
                 !.px = [nm \in {"intensity", "labels"} |->
                           IF nm = "intensity" THEN f.px["intensity"]
                           ELSE [x \in DOMAIN f.row |-> LabAt(f.row[x] * sh[2] + f.col[x])]]]

InitThresh ==
    \E shc \in ThreshShapes : LET sh == Sh(shc) IN \E v \in [0..(sh[1] * sh[2] - 1) -> 0..ThreshVals] :
    \E t \in 0..(ThreshVals - 1) : \E nm \in ThreshNames :
        LET f0 == IF nm = "intensity" THEN ImgFrame(sh, v) ELSE ImgFrame2(sh, v) IN
        /\ \E p \in DOMAIN v : v[p] > 0
        /\ prog = "thresh" /\ pc = "th_cmp"
        /\ inp = [ns |-> sh[1], nf |-> sh[2], img |-> v, t |-> t, name |-> nm, frame |-> f0]
        /\ fr = f0
        /\ L = L0 /\ nrow = None /\ ci = None /\ cj = None /\ cv = None /\ rowsdone = {}
        /\ order = None /\ bmask = None /\ dense = None /\ res = None /\ dn2 = None /\ acc = {}

Init == InitM2C \/ InitCut \/ InitSorted \/ InitSort \/ InitThresh

-----------------------------------------------------------------------------
(* mask_to_coo, sparse_image.c:31-79 *)

Rows == 0..(inp.ns - 1)
NextRow == IF ParRows THEN Rows \ rowsdone
           ELSE IF Rows \ rowsdone = {} THEN {}
           ELSE {CHOOSE r \in Rows \ rowsdone : \A q \in Rows \ rowsdone : r <= q}

\* lines 36-41: argument checks
M2C_Check ==
    /\ pc = "m2c_chk"
    /\ IF inp.ns < 1 \/ inp.ns > 65535 THEN L' = [L EXCEPT !.ret = 1] /\ pc' = "m2c_ret"
       ELSE IF inp.nf < 1 \/ inp.nf > 65535 THEN L' = [L EXCEPT !.ret = 2] /\ pc' = "m2c_ret"
       ELSE IF inp.nnz < 1 THEN L' = [L EXCEPT !.ret = 3] /\ pc' = "m2c_ret"
       ELSE L' = L /\ pc' = "m2c_cnt_pick"
    /\ acc' = {}
    /\ UNCHANGED <<prog, inp, nrow, ci, cj, cv, rowsdone, fr, order, bmask, dense, res, dn2>>

\* line 44-45: some thread takes row mi: nrow[mi] = 0
M2C_CountRow ==
    /\ pc = "m2c_cnt_pick"
    /\ \E r \in NextRow :
        /\ L' = [L EXCEPT !.mi = r, !.mj = 0]
        /\ nrow' = Wr(nrow, r, 0)
        /\ acc' = {Acc("w", r, inp.ns)}
    /\ pc' = "m2c_cnt_px"
    /\ UNCHANGED <<prog, inp, ci, cj, cv, rowsdone, fr, order, bmask, dense, res, dn2>>

\* lines 46-49, msk != 0 : nrow[mi]++
M2C_CountSet ==
    /\ pc = "m2c_cnt_px" /\ L.mj < inp.nf
    /\ Rd(inp.msk, L.mi * inp.nf + L.mj) # 0
    /\ nrow' = Wr(nrow, L.mi, Rd(nrow, L.mi) + 1)
    /\ L' = [L EXCEPT !.mj = L.mj + 1]
    /\ acc' = {Acc("msk", L.mi * inp.nf + L.mj, inp.ns * inp.nf), Acc("w", L.mi, inp.ns)}
    /\ UNCHANGED <<prog, pc, inp, ci, cj, cv, rowsdone, fr, order, bmask, dense, res, dn2>>

M2C_CountClear ==
    /\ pc = "m2c_cnt_px" /\ L.mj < inp.nf
    /\ Rd(inp.msk, L.mi * inp.nf + L.mj) = 0
    /\ L' = [L EXCEPT !.mj = L.mj + 1]
    /\ acc' = {Acc("msk", L.mi * inp.nf + L.mj, inp.ns * inp.nf)}
    /\ UNCHANGED <<prog, pc, inp, nrow, ci, cj, cv, rowsdone, fr, order, bmask, dense, res, dn2>>

M2C_CountRowEnd ==
    /\ pc = "m2c_cnt_px" /\ L.mj >= inp.nf
    /\ rowsdone' = rowsdone \cup {L.mi}
    /\ pc' = IF rowsdone' = Rows THEN "m2c_cum" ELSE "m2c_cnt_pick"
    /\ L' = IF rowsdone' = Rows THEN [L EXCEPT !.mi = 1] ELSE L
    /\ acc' = {}
    /\ UNCHANGED <<prog, inp, nrow, ci, cj, cv, fr, order, bmask, dense, res, dn2>>

\* lines 53-55: cumulative sum
M2C_Cumsum ==
    /\ pc = "m2c_cum" /\ L.mi < inp.ns
    /\ nrow' = Wr(nrow, L.mi, Rd(nrow, L.mi) + Rd(nrow, L.mi - 1))
    /\ L' = [L EXCEPT !.mi = L.mi + 1]
    /\ acc' = {Acc("w", L.mi, inp.ns), Acc("w", L.mi - 1, inp.ns)}
    /\ UNCHANGED <<prog, pc, inp, ci, cj, cv, rowsdone, fr, order, bmask, dense, res, dn2>>

\* lines 56-58
M2C_Mismatch ==
    /\ pc = "m2c_cum" /\ L.mi >= inp.ns
    /\ Rd(nrow, inp.ns - 1) # inp.nnz
    /\ L' = [L0 EXCEPT !.ret = 4] /\ pc' = "m2c_ret"         \* (locals die at return)
    /\ acc' = {Acc("w", inp.ns - 1, inp.ns)}
    /\ UNCHANGED <<prog, inp, nrow, ci, cj, cv, rowsdone, fr, order, bmask, dense, res, dn2>>

M2C_Match ==
    /\ pc = "m2c_cum" /\ L.mi >= inp.ns
    /\ Rd(nrow, inp.ns - 1) = inp.nnz
    /\ pc' = "m2c_fill_pick" /\ rowsdone' = {}
    /\ acc' = {Acc("w", inp.ns - 1, inp.ns)}
    /\ UNCHANGED <<prog, inp, L, nrow, ci, cj, cv, fr, order, bmask, dense, res, dn2>>

\* lines 61-67: a thread takes row mi; idx = start of the row; row with pixels
M2C_FillRow ==
    /\ pc = "m2c_fill_pick"
    /\ \E r \in NextRow :
        LET start == IF r = 0 THEN 0 ELSE Rd(nrow, r - 1) IN
        /\ Rd(nrow, r) > start
        /\ L' = [L EXCEPT !.mi = r, !.mj = 0, !.idx = start]
        /\ acc' = {Acc("w", r, inp.ns)} \cup (IF r = 0 THEN {} ELSE {Acc("w", r - 1, inp.ns)})
    /\ pc' = "m2c_fill_px"
    /\ UNCHANGED <<prog, inp, nrow, ci, cj, cv, rowsdone, fr, order, bmask, dense, res, dn2>>

\* line 67 false: empty row, nothing to do
M2C_FillRowEmpty ==
    /\ pc = "m2c_fill_pick"
    /\ \E r \in NextRow :
        LET start == IF r = 0 THEN 0 ELSE Rd(nrow, r - 1) IN
        /\ ~(Rd(nrow, r) > start)
        /\ L' = [L EXCEPT !.mi = r, !.idx = start]
        /\ rowsdone' = rowsdone \cup {r}
        /\ acc' = {Acc("w", r, inp.ns)} \cup (IF r = 0 THEN {} ELSE {Acc("w", r - 1, inp.ns)})
    /\ pc' = IF rowsdone' = Rows THEN "m2c_ok" ELSE "m2c_fill_pick"
    /\ UNCHANGED <<prog, inp, nrow, ci, cj, cv, fr, order, bmask, dense, res, dn2>>

\* lines 68-73
M2C_FillSet ==
    /\ pc = "m2c_fill_px" /\ L.mj < inp.nf
    /\ Rd(inp.msk, L.mi * inp.nf + L.mj) # 0
    /\ ci' = Wr(ci, L.idx, L.mi)
    /\ cj' = Wr(cj, L.idx, L.mj)
    /\ L' = [L EXCEPT !.mj = L.mj + 1, !.idx = L.idx + 1]
    /\ acc' = {Acc("msk", L.mi * inp.nf + L.mj, inp.ns * inp.nf),
               Acc("i", L.idx, inp.nnz), Acc("j", L.idx, inp.nnz)}
    /\ UNCHANGED <<prog, pc, inp, nrow, cv, rowsdone, fr, order, bmask, dense, res, dn2>>

M2C_FillClear ==
    /\ pc = "m2c_fill_px" /\ L.mj < inp.nf
    /\ Rd(inp.msk, L.mi * inp.nf + L.mj) = 0
    /\ L' = [L EXCEPT !.mj = L.mj + 1]
    /\ acc' = {Acc("msk", L.mi * inp.nf + L.mj, inp.ns * inp.nf)}
    /\ UNCHANGED <<prog, pc, inp, nrow, ci, cj, cv, rowsdone, fr, order, bmask, dense, res, dn2>>

M2C_FillRowEnd ==
    /\ pc = "m2c_fill_px" /\ L.mj >= inp.nf
    /\ rowsdone' = rowsdone \cup {L.mi}
    /\ pc' = IF rowsdone' = Rows THEN "m2c_ok" ELSE "m2c_fill_pick"
    /\ acc' = {}
    /\ UNCHANGED <<prog, inp, L, nrow, ci, cj, cv, fr, order, bmask, dense, res, dn2>>

\* line 78
M2C_Return0 ==
    /\ pc = "m2c_ok"
    /\ L' = [L0 EXCEPT !.ret = 0] /\ pc' = "m2c_ret" /\ acc' = {}
    /\ UNCHANGED <<prog, inp, nrow, ci, cj, cv, rowsdone, fr, order, bmask, dense, res, dn2>>

\* sparseframe.py:394-412 from_data_mask (called with nnz = (mask>0).sum(), so ret = 0; the
\* Python code does not look at the return code: when ret # 0 only the kernel case is emitted)
Selected(p) ==
    CASE prog = "m2c" -> inp.msk[p] # 0
      [] prog = "cut" -> inp.msk[p] # 0 /\ inp.img[p] > inp.cut
      [] OTHER -> FALSE
SrcAt(p) == IF prog = "m2c" THEN DataAt(p, inp.nf) ELSE inp.img[p]

FromDataMask ==
    /\ pc = "m2c_ret"
    /\ IF L.ret # 0 THEN pc' = "done" /\ fr' = fr
       ELSE /\ pc' = "td_start"
            /\ fr' = [shape |-> <<inp.ns, inp.nf>>, nnz |-> inp.nnz, row |-> ci, col |-> cj,
                      names |-> <<"intensity">>,
                      px |-> [nm \in {"intensity"} |->
                                Compress([p \in DOMAIN inp.msk |-> DataAt(p, inp.nf)],
                                         [p \in DOMAIN inp.msk |-> inp.msk[p] > 0])]]
    /\ acc' = {}
    /\ UNCHANGED <<prog, inp, L, nrow, ci, cj, cv, rowsdone, order, bmask, dense, res, dn2>>

-----------------------------------------------------------------------------
(* tosparse_u16 / _f32 (nested, lines 906-921, 980-995) and tosparse_u32 (flat, 943-959).
   L.k = write position; nested: (L.mi, L.mj) ; flat: L.idx = i                       *)

TsP == IF inp.style = "nested" THEN L.mi * inp.nf + L.mj ELSE L.idx
TsMore == IF inp.style = "nested" THEN L.mi < inp.ns ELSE L.idx < inp.ns * inp.nf
TsAdvance(l) ==
    IF inp.style = "flat" THEN [l EXCEPT !.idx = l.idx + 1]
    ELSE IF l.mj + 1 < inp.nf THEN [l EXCEPT !.mj = l.mj + 1]
    ELSE [l EXCEPT !.mi = l.mi + 1, !.mj = 0]
TsExt == inp.ns * inp.nf

TS_Keep ==      \* msk && img > cut
    /\ pc = "ts_loop" /\ TsMore
    /\ Rd(inp.msk, TsP) # 0 /\ Rd(inp.img, TsP) > inp.cut
    /\ ci' = Wr(ci, L.k, IF inp.style = "nested" THEN L.mi ELSE L.idx \div inp.nf)
    /\ cj' = Wr(cj, L.k, IF inp.style = "nested" THEN L.mj ELSE L.idx % inp.nf)
    /\ cv' = Wr(cv, L.k, Rd(inp.img, TsP))
    /\ L' = TsAdvance([L EXCEPT !.k = L.k + 1])
    /\ acc' = {Acc("msk", TsP, TsExt), Acc("img", TsP, TsExt), Acc("row", L.k, TsExt),
               Acc("col", L.k, TsExt), Acc("val", L.k, TsExt)}
    /\ UNCHANGED <<prog, pc, inp, nrow, rowsdone, fr, order, bmask, dense, res, dn2>>

TS_Masked ==    \* msk == 0 : img is not read (short circuit)
    /\ pc = "ts_loop" /\ TsMore
    /\ Rd(inp.msk, TsP) = 0
    /\ L' = TsAdvance(L)
    /\ acc' = {Acc("msk", TsP, TsExt)}
    /\ UNCHANGED <<prog, pc, inp, nrow, ci, cj, cv, rowsdone, fr, order, bmask, dense, res, dn2>>

TS_Below ==     \* msk != 0, img <= cut
    /\ pc = "ts_loop" /\ TsMore
    /\ Rd(inp.msk, TsP) # 0 /\ ~(Rd(inp.img, TsP) > inp.cut)
    /\ L' = TsAdvance(L)
    /\ acc' = {Acc("msk", TsP, TsExt), Acc("img", TsP, TsExt)}
    /\ UNCHANGED <<prog, pc, inp, nrow, ci, cj, cv, rowsdone, fr, order, bmask, dense, res, dn2>>

TS_Return ==
    /\ pc = "ts_loop" /\ ~TsMore
    /\ L' = [L0 EXCEPT !.ret = L.k] /\ pc' = "ts_ret" /\ acc' = {}
    /\ UNCHANGED <<prog, inp, nrow, ci, cj, cv, rowsdone, fr, order, bmask, dense, res, dn2>>

\* sparseframe.py:415-433 from_data_cut: row.ravel()[:nnz].copy() ...; an empty selection makes
\* sparse_frame.check raise (np.min of an empty array): outside the property's quantifier
FromDataCut ==
    /\ pc = "ts_ret"
    /\ IF L.ret = 0 THEN pc' = "done" /\ fr' = fr
       ELSE /\ pc' = "td_start"
            /\ fr' = [shape |-> <<inp.ns, inp.nf>>, nnz |-> L.ret,
                      row |-> [x \in 0..(L.ret - 1) |-> ci[x]], col |-> [x \in 0..(L.ret - 1) |-> cj[x]],
                      names |-> <<"intensity">>,
                      px |-> [nm \in {"intensity"} |-> [x \in 0..(L.ret - 1) |-> cv[x]]]]
    /\ acc' = {}
    /\ UNCHANGED <<prog, inp, L, nrow, ci, cj, cv, rowsdone, order, bmask, dense, res, dn2>>

-----------------------------------------------------------------------------
(* sparse_is_sorted, sparse_image.c:118-143 ; i = ci, j = cj *)

IS_Start ==
    /\ pc = "is_start"
    /\ L' = [L EXCEPT !.es = inp.nnz + 1, !.ed = inp.nnz + 1, !.k = 1]
    /\ pc' = "is_loop" /\ acc' = {}
    /\ UNCHANGED <<prog, inp, nrow, ci, cj, cv, rowsdone, fr, order, bmask, dense, res, dn2>>

Min2(a, b) == IF a < b THEN a ELSE b
IsAcc(withj) == {Acc("i", L.k, inp.nnz), Acc("i", L.k - 1, inp.nnz)} \cup
                (IF withj THEN {Acc("j", L.k, inp.nnz), Acc("j", L.k - 1, inp.nnz)} ELSE {})

IS_RowBack ==   \* i[k] < i[k-1]
    /\ pc = "is_loop" /\ L.k < inp.nnz
    /\ Rd(ci, L.k) < Rd(ci, L.k - 1)
    /\ L' = [L EXCEPT !.es = Min2(L.k, L.es), !.k = L.k + 1]
    /\ acc' = IsAcc(FALSE)
    /\ UNCHANGED <<prog, pc, inp, nrow, ci, cj, cv, rowsdone, fr, order, bmask, dense, res, dn2>>

IS_ColBack ==   \* same row, j[k] < j[k-1]
    /\ pc = "is_loop" /\ L.k < inp.nnz
    /\ Rd(ci, L.k) = Rd(ci, L.k - 1) /\ Rd(cj, L.k) < Rd(cj, L.k - 1)
    /\ L' = [L EXCEPT !.es = Min2(L.k, L.es), !.k = L.k + 1]
    /\ acc' = IsAcc(TRUE)
    /\ UNCHANGED <<prog, pc, inp, nrow, ci, cj, cv, rowsdone, fr, order, bmask, dense, res, dn2>>

IS_Dup ==       \* same row, same column
    /\ pc = "is_loop" /\ L.k < inp.nnz
    /\ Rd(ci, L.k) = Rd(ci, L.k - 1) /\ Rd(cj, L.k) = Rd(cj, L.k - 1)
    /\ L' = [L EXCEPT !.ed = Min2(L.k, L.ed), !.k = L.k + 1]
    /\ acc' = IsAcc(TRUE)
    /\ UNCHANGED <<prog, pc, inp, nrow, ci, cj, cv, rowsdone, fr, order, bmask, dense, res, dn2>>

IS_Fine ==      \* same row and column ahead, or a later row
    /\ pc = "is_loop" /\ L.k < inp.nnz
    /\ \/ Rd(ci, L.k) > Rd(ci, L.k - 1)
       \/ Rd(ci, L.k) = Rd(ci, L.k - 1) /\ Rd(cj, L.k) > Rd(cj, L.k - 1)
    /\ L' = [L EXCEPT !.k = L.k + 1]
    /\ acc' = IsAcc(Rd(ci, L.k) = Rd(ci, L.k - 1))
    /\ UNCHANGED <<prog, pc, inp, nrow, ci, cj, cv, rowsdone, fr, order, bmask, dense, res, dn2>>

IS_Return ==
    /\ pc = "is_loop" /\ L.k >= inp.nnz
    /\ L' = [L EXCEPT !.ret = IF L.es = inp.nnz + 1 /\ L.ed = inp.nnz + 1 THEN 0
                               ELSE IF L.es > L.ed THEN -L.ed ELSE L.es]
    /\ pc' = "done" /\ acc' = {}
    /\ UNCHANGED <<prog, inp, nrow, ci, cj, cv, rowsdone, fr, order, bmask, dense, res, dn2>>

-----------------------------------------------------------------------------
(* sparse_frame.sort / sort_by / reorder, sparseframe.py:149-166 *)

Sort_Order ==   \* order = np.lexsort((col,row)) | np.argsort(pixels[name]) ; then the call
    /\ pc = "sort_start"
    /\ order' = IF inp.how = "sort" THEN SortPermRC(fr.row, fr.col)
                ELSE SortPermKey(fr.px["labels"])
    /\ pc' = IF FIXED THEN "re_row" ELSE "raised"     \* self.reorder(self, order) -> TypeError
    /\ acc' = {}
    /\ UNCHANGED <<prog, inp, L, nrow, ci, cj, cv, rowsdone, fr, bmask, dense, res, dn2>>

Reorder_Row ==  \* self.row[:] = self.row[order]
    /\ pc = "re_row"
    /\ fr' = [fr EXCEPT !.row = Take(fr.row, order)]
    /\ pc' = "re_col" /\ acc' = {Acc("row", order[x], fr.nnz) : x \in DOMAIN order}
    /\ UNCHANGED <<prog, inp, L, nrow, ci, cj, cv, rowsdone, order, bmask, dense, res, dn2>>

Reorder_Col ==
    /\ pc = "re_col"
    /\ fr' = [fr EXCEPT !.col = Take(fr.col, order)]
    /\ pc' = "re_px" /\ L' = [L EXCEPT !.k = 1]
    /\ acc' = {Acc("col", order[x], fr.nnz) : x \in DOMAIN order}
    /\ UNCHANGED <<prog, inp, nrow, ci, cj, cv, rowsdone, order, bmask, dense, res, dn2>>

Reorder_Px ==   \* for name, px in self.pixels.items(): px[:] = px[order]
    /\ pc = "re_px" /\ L.k <= Size(fr.names)
    /\ fr' = [fr EXCEPT !.px[fr.names[L.k]] = Take(fr.px[fr.names[L.k]], order)]
    /\ L' = [L EXCEPT !.k = L.k + 1]
    /\ acc' = {Acc("px", order[x], fr.nnz) : x \in DOMAIN order}
    /\ UNCHANGED <<prog, pc, inp, nrow, ci, cj, cv, rowsdone, order, bmask, dense, res, dn2>>

Reorder_Done ==
    /\ pc = "re_px" /\ L.k > Size(fr.names)
    /\ pc' = "td_start" /\ acc' = {}
    /\ UNCHANGED <<prog, inp, L, nrow, ci, cj, cv, rowsdone, fr, order, bmask, dense, res, dn2>>

-----------------------------------------------------------------------------
(* sparse_frame.threshold / mask, sparseframe.py:128-139,168-172 *)

Th_Compare ==   \* self.pixels[name] > threshold
    /\ pc = "th_cmp"
    /\ bmask' = [x \in DOMAIN fr.row |-> fr.px[inp.name][x] > inp.t]
    /\ pc' = "th_mask" /\ acc' = {}
    /\ UNCHANGED <<prog, inp, L, nrow, ci, cj, cv, rowsdone, fr, order, dense, res, dn2>>

Th_Mask ==      \* sparse_frame(self.row[msk], self.col[msk], ...) ; set_pixels(name, px[msk])
    /\ pc = "th_mask"
    /\ \E x \in DOMAIN bmask : bmask[x]
    /\ fr' = [fr EXCEPT !.row = Compress(fr.row, bmask), !.col = Compress(fr.col, bmask),
                        !.nnz = Size(Compress(fr.row, bmask)),
                        !.px = [nm \in DOMAIN fr.px |-> Compress(fr.px[nm], bmask)]]
    /\ pc' = "td_start" /\ acc' = {}
    /\ UNCHANGED <<prog, inp, L, nrow, ci, cj, cv, rowsdone, order, bmask, dense, res, dn2>>

Th_Empty ==     \* nothing above threshold: sparse_frame.check raises; outside the quantifier
    /\ pc = "th_mask"
    /\ ~(\E x \in DOMAIN bmask : bmask[x])
    /\ pc' = "done" /\ acc' = {}
    /\ UNCHANGED <<prog, inp, L, nrow, ci, cj, cv, rowsdone, fr, order, bmask, dense, res, dn2>>

-----------------------------------------------------------------------------
(* sparse_frame.to_dense, sparseframe.py:103-126.  `data` is: the named array (program m2c
   calls to_dense("intensity")), the only array (programs cut / thresh call to_dense()), a
   boolean mask of ones when several arrays exist and none is named (program sort, thresh with
   two arrays), or - second pass TD2_*, every program - "a 1D array matching self.nnz" handed
   over by the caller (the docstring's example obj.to_dense(obj.pixels['raw_intensity']); the
   programs pass the frame's intensity array).  With TDFIXED = FALSE the second pass is what the
   tree does: `data in self.pixels` hashes the array and raises TypeError.
   scipy's coo -> dense conversion adds data[k] at (row[k], col[k]); `out` is np.zeros(shape) or
   the caller's array, which scipy's todense(out=) fills with zeros first: dense' = Arr(.., 0)
   stands for both (the harness hands over arrays full of a poison value).                  *)

TD_Start ==
    /\ pc = "td_start"
    /\ res' = IF prog = "m2c" THEN fr.px["intensity"]                         \* data in self.pixels
              ELSE IF Size(fr.names) = 1 THEN fr.px[fr.names[1]]               \* len(ks) == 1
              ELSE Arr(fr.nnz, 1)                                             \* np.ones(nnz, bool)
    /\ dense' = Arr(fr.shape[1] * fr.shape[2], 0)
    /\ L' = [L EXCEPT !.k = 0]
    /\ pc' = "td_loop" /\ acc' = {}
    /\ UNCHANGED <<prog, inp, nrow, ci, cj, cv, rowsdone, fr, order, bmask, dn2>>

TD_Add ==
    /\ pc = "td_loop" /\ L.k < fr.nnz
    /\ LET a == Rd(fr.row, L.k) * fr.shape[2] + Rd(fr.col, L.k) IN
        /\ dense' = Wr(dense, a, Rd(dense, a) + Rd(res, L.k))
        /\ acc' = {Acc("row", L.k, fr.nnz), Acc("col", L.k, fr.nnz), Acc("data", L.k, fr.nnz),
                   Acc("out", a, fr.shape[1] * fr.shape[2]),
                   \* the column must be inside the row as well (a flat index could hide it)
                   Acc("outcol", Rd(fr.col, L.k), fr.shape[2])}
    /\ L' = [L EXCEPT !.k = L.k + 1]
    /\ UNCHANGED <<prog, pc, inp, nrow, ci, cj, cv, rowsdone, fr, order, bmask, res, dn2>>

TD_Done ==
    /\ pc = "td_loop" /\ L.k >= fr.nnz
    /\ pc' = "td2_start" /\ acc' = {}
    /\ UNCHANGED <<prog, inp, L, nrow, ci, cj, cv, rowsdone, fr, order, bmask, dense, res, dn2>>

\* second pass: to_dense(self.pixels["intensity"]) - the array itself, not its name
TD2_Start ==
    /\ pc = "td2_start"
    /\ IF TDFIXED
       THEN /\ res' = fr.px["intensity"] /\ dn2' = Arr(fr.shape[1] * fr.shape[2], 0)
            /\ L' = [L EXCEPT !.k = 0] /\ pc' = "td2_loop"
       ELSE /\ pc' = "td_raised" /\ UNCHANGED <<res, dn2, L>>
    /\ acc' = {}
    /\ UNCHANGED <<prog, inp, nrow, ci, cj, cv, rowsdone, fr, order, bmask, dense>>

TD2_Add ==
    /\ pc = "td2_loop" /\ L.k < fr.nnz
    /\ LET a == Rd(fr.row, L.k) * fr.shape[2] + Rd(fr.col, L.k) IN
        /\ dn2' = Wr(dn2, a, Rd(dn2, a) + Rd(res, L.k))
        /\ acc' = {Acc("row", L.k, fr.nnz), Acc("col", L.k, fr.nnz), Acc("data", L.k, Size(res)),
                   Acc("out", a, fr.shape[1] * fr.shape[2]), Acc("outcol", Rd(fr.col, L.k), fr.shape[2])}
    /\ L' = [L EXCEPT !.k = L.k + 1]
    /\ UNCHANGED <<prog, pc, inp, nrow, ci, cj, cv, rowsdone, fr, order, bmask, dense, res>>

TD2_Done ==
    /\ pc = "td2_loop" /\ L.k >= fr.nnz
    /\ pc' = "done" /\ acc' = {}
    /\ UNCHANGED <<prog, inp, L, nrow, ci, cj, cv, rowsdone, fr, order, bmask, dense, res, dn2>>

-----------------------------------------------------------------------------
Next ==
    \/ M2C_Check \/ M2C_CountRow \/ M2C_CountSet \/ M2C_CountClear \/ M2C_CountRowEnd
    \/ M2C_Cumsum \/ M2C_Mismatch \/ M2C_Match \/ M2C_FillRow \/ M2C_FillRowEmpty
    \/ M2C_FillSet \/ M2C_FillClear \/ M2C_FillRowEnd \/ M2C_Return0 \/ FromDataMask
    \/ TS_Keep \/ TS_Masked \/ TS_Below \/ TS_Return \/ FromDataCut
    \/ IS_Start \/ IS_RowBack \/ IS_ColBack \/ IS_Dup \/ IS_Fine \/ IS_Return
    \/ Sort_Order \/ Reorder_Row \/ Reorder_Col \/ Reorder_Px \/ Reorder_Done
    \/ Th_Compare \/ Th_Mask \/ Th_Empty
    \/ TD_Start \/ TD_Add \/ TD_Done \/ TD2_Start \/ TD2_Add \/ TD2_Done

Spec == Init /\ [][Next]_vars

-----------------------------------------------------------------------------
(* Invariants *)

InBounds == \A a \in acc : a.ix >= 0 /\ a.ix < a.ext

Npix == inp.ns * inp.nf
SelSet == {p \in 0..(Npix - 1) : Selected(p)}
HasFrame == pc = "done" /\ ~IsNone(fr)

CooRowMajor ==
    (HasFrame /\ prog \in {"m2c", "cut", "thresh"}) =>
        /\ StrictRowMajor(fr.row, fr.col)
        /\ \A x \in DOMAIN fr.row : fr.row[x] \in 0..(inp.ns - 1) /\ fr.col[x] \in 0..(inp.nf - 1)
        /\ Size(fr.row) = fr.nnz /\ Size(fr.col) = fr.nnz

RoundTrip ==
    (HasFrame /\ prog \in {"m2c", "cut"}) =>
        /\ fr.nnz = Cardinality(SelSet)
        /\ dense = [p \in 0..(Npix - 1) |-> IF Selected(p) THEN SrcAt(p) ELSE 0]
        /\ dn2 = dense                            \* the array route gives the same image
        /\ \A x \in DOMAIN fr.row :
              fr.px["intensity"][x] = SrcAt(fr.row[x] * inp.nf + fr.col[x])

KernelReturn ==
    /\ (prog = "m2c" /\ pc \in {"m2c_ret", "done", "td_start", "td_loop"}) =>
            L.ret = IF inp.nnz = Cardinality(SelSet) THEN 0 ELSE 4
    /\ (prog = "cut" /\ pc \in {"ts_ret", "done", "td_start", "td_loop"}) =>
            L.ret = Cardinality(SelSet)

Defined ==
    /\ (prog = "m2c" /\ pc = "m2c_ret") =>
          /\ \A r \in DOMAIN nrow : nrow[r] # Poison          \* w is filled for ret 0 and ret 4
          /\ L.ret = 0 => \A x \in DOMAIN ci : ci[x] # Poison /\ cj[x] # Poison
    /\ (prog = "cut" /\ pc = "ts_ret") =>
          \A x \in DOMAIN ci : (x < L.ret) <=> (ci[x] # Poison /\ cj[x] # Poison /\ cv[x] # Poison)

\* independent statement of sparse_is_sorted's contract
IsSortedSpec ==
    (prog = "sorted" /\ pc = "done") =>
        LET bad == {x \in 1..(inp.nnz - 1) : Before(ci[x], cj[x], ci[x - 1], cj[x - 1])}
            dup == {x \in 1..(inp.nnz - 1) : ci[x] = ci[x - 1] /\ cj[x] = cj[x - 1]}
            first(S) == CHOOSE x \in S : \A y \in S : x <= y
        IN /\ (L.ret = 0) <=> StrictRowMajor(ci, cj)
           /\ (bad = {} /\ dup # {}) => L.ret = -first(dup)
           /\ (bad # {} /\ dup = {}) => L.ret = first(bad)
           /\ (bad # {} /\ dup # {}) => L.ret = IF first(dup) < first(bad) THEN -first(dup) ELSE first(bad)

Triples(f) == {<<f.row[x], f.col[x], f.px["intensity"][x], f.px["labels"][x]>> : x \in DOMAIN f.row}

SortTotal == pc # "raised"
DenseTotal == pc # "td_raised"      \* to_dense(<array>) returns

SortOK ==
    (prog = "sort" /\ pc = "done") =>
        /\ Triples(fr) = Triples(inp.frame) /\ Size(fr.row) = inp.frame.nnz
        /\ \A x \in DOMAIN fr.row :          \* values stay attached to their pixel
              /\ fr.px["intensity"][x] = DataAt(fr.row[x] * inp.nf + fr.col[x], inp.nf)
              /\ fr.px["labels"][x] = LabAt(fr.row[x] * inp.nf + fr.col[x])
        /\ inp.how = "sort" => StrictRowMajor(fr.row, fr.col)
        /\ inp.how = "sort_by" => \A x \in DOMAIN fr.row : x > 0 => fr.px["labels"][x - 1] <= fr.px["labels"][x]
        /\ dense = [p \in 0..(Npix - 1) |-> IF \E x \in DOMAIN inp.perm : inp.perm[x] = p THEN 1 ELSE 0]
        \* values stay attached: the intensity array of the re-ordered frame paints the test image
        /\ dn2 = [p \in 0..(Npix - 1) |-> IF \E x \in DOMAIN inp.perm : inp.perm[x] = p THEN DataAt(p, inp.nf) ELSE 0]

\* threshold(t, name): the pixels of the frame (img > 0) whose array `name` exceeds t
ThKey(p) == IF inp.name = "intensity" THEN inp.img[p] ELSE LabAt(p)
ThSel(p) == inp.img[p] > 0 /\ ThKey(p) > inp.t
ThreshOK ==
    (prog = "thresh" /\ HasFrame /\ ~IsNone(bmask) /\ \E x \in DOMAIN bmask : bmask[x]) =>
        \* one array: to_dense() paints it; two arrays: to_dense() is the boolean mask of the frame
        /\ dense = [p \in 0..(Npix - 1) |-> IF ThSel(p) THEN (IF inp.name = "intensity" THEN inp.img[p] ELSE 1) ELSE 0]
        /\ dn2 = [p \in 0..(Npix - 1) |-> IF ThSel(p) THEN inp.img[p] ELSE 0]
        /\ fr.nnz = Cardinality({p \in 0..(Npix - 1) : ThSel(p)})
        /\ \A x \in DOMAIN fr.row : \A nm \in DOMAIN fr.px :      \* every array stays attached to its pixel
              fr.px[nm][x] = IF nm = "intensity" THEN inp.img[fr.row[x] * inp.nf + fr.col[x]]
                             ELSE LabAt(fr.row[x] * inp.nf + fr.col[x])

\* ---- emission of cases -------------------------------------------------------------------
FrameJson(f) == [shape |-> f.shape, nnz |-> f.nnz, row |-> AsSeq(f.row), col |-> AsSeq(f.col),
                 names |-> f.names, px |-> [nm \in DOMAIN f.px |-> AsSeq(f.px[nm])]]

Case ==
    CASE prog = "m2c" ->
            [prog |-> "m2c", ns |-> inp.ns, nf |-> inp.nf, msk |-> AsSeq(inp.msk), nnz |-> inp.nnz,
             ret |-> L.ret, i |-> AsSeq(ci), j |-> AsSeq(cj), w |-> AsSeq(nrow),
             frame |-> IF IsNone(fr) THEN <<>> ELSE <<FrameJson(fr)>>,
             dense |-> IF IsNone(dense) THEN <<>> ELSE AsSeq(dense),
             dense2 |-> IF IsNone(dn2) THEN <<>> ELSE AsSeq(dn2)]
      [] prog = "cut" ->
            [prog |-> "cut", ns |-> inp.ns, nf |-> inp.nf, img |-> AsSeq(inp.img), msk |-> AsSeq(inp.msk),
             cut |-> inp.cut, style |-> inp.style, ret |-> L.ret,
             row |-> AsSeq(ci), col |-> AsSeq(cj), val |-> AsSeq(cv),
             frame |-> IF IsNone(fr) THEN <<>> ELSE <<FrameJson(fr)>>,
             dense |-> IF IsNone(dense) THEN <<>> ELSE AsSeq(dense),
             dense2 |-> IF IsNone(dn2) THEN <<>> ELSE AsSeq(dn2)]
      [] prog = "sorted" ->
            [prog |-> "sorted", nnz |-> inp.nnz, i |-> AsSeq(ci), j |-> AsSeq(cj), ret |-> L.ret]
      [] prog = "sort" ->
            [prog |-> "sort", ns |-> inp.ns, nf |-> inp.nf, how |-> inp.how,
             frame0 |-> FrameJson(inp.frame), order |-> AsSeq(order), frame |-> <<FrameJson(fr)>>,
             dense |-> AsSeq(dense), dense2 |-> AsSeq(dn2)]
      [] prog = "thresh" ->
            [prog |-> "thresh", ns |-> inp.ns, nf |-> inp.nf, t |-> inp.t, name |-> inp.name,
             frame0 |-> FrameJson(inp.frame),
             frame |-> IF IsNone(dense) THEN <<>> ELSE <<FrameJson(fr)>>,
             dense |-> IF IsNone(dense) THEN <<>> ELSE AsSeq(dense),
             dense2 |-> IF IsNone(dn2) THEN <<>> ELSE AsSeq(dn2)]

Emit == pc = "done" => PrintT("@@" \o ToJson(Case))

=============================================================================

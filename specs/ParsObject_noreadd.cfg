SPECIFICATION Spec
CONSTANTS
  MaxDepth = 3
  BUG_BOOL = FALSE
  BUG_FROMFILE = FALSE
  AllowReAdd = FALSE
  EmitMode = 0
  WithFiles = TRUE
  StartForms = {"kwds", "idx", "addpar", "rg"}
INVARIANT AddparConsistent
VIEW View
CHECK_DEADLOCK FALSE

SPECIFICATION Spec
CONSTANTS
  PipeGrids = {}
  NLab = 2
  Surj = TRUE
  NExtra = {0}
  NnzMax0 = 1
  NpkMax0 = 1
  CdLen = 0
  CdLab = 1
  CdSlack = {0}
  FIXED = TRUE
  HistGrids = {12}
  HistLen = 3
  Chains = {FALSE, TRUE}
  HistPickInit = 0
  HistPickNext = 0
INVARIANT InBounds
INVARIANT SoExact
INVARIANT CdExact
INVARIANT LinExact
INVARIANT MatExact
INVARIANT LinEqMat
INVARIANT OvlTotal
INVARIANT OvlExact
INVARIANT Emit
CHECK_DEADLOCK FALSE

\* thorough: proper kernels; u1 as in the quick configuration plus the right-angle / 7-24-25 products,
\* u2 in the 272 rational rotations with quaternion components -2..2 and all Rz(a).Rx(b), a, b in Ang
SPECIFICATION Spec
CONSTANTS
  QMax1 = 1
  EAng1 <- EA_t
  QMax2 = 2
  EAng2 <- EA_all
  Kernels = "proper"
INVARIANT TypeOK
INVARIANT ROk
INVARIANT ScanLoopInv
INVARIANT ScanIsMax
INVARIANT Symmetric
INVARIANT GroupInvariant
INVARIANT FrameInvariant
INVARIANT ZeroIffOrbit
INVARIANT Chain
INVARIANT FundZone
INVARIANT CubicAgrees
INVARIANT TetraAgrees
INVARIANT OrthoAgrees
INVARIANT MonoAgrees
INVARIANT PinnedExplained
INVARIANT Emit
CHECK_DEADLOCK FALSE

\* lemma "code rule => stated property": every sorted sequence of length 1..6 over 0..6, tol 1..4
SPECIFICATION SpecEnum
CONSTANTS
  FROMFILE = FALSE
  K = 6
  V = 6
  T = 4
INVARIANT TypeOK
INVARIANT ModelLaws
CHECK_DEADLOCK FALSE
